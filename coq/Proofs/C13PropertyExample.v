(** The common domain of C13 is inhabited (executable strconv model of C01). *)
From Coq Require Import String Ascii ZArith QArith Bool Arith Lia List.
From GT Require Import Base.Sexp Base.UTree Spec.Obs Spec.NewickSpec Model.Newick Model.NewickNum Model.Nexus
     Proofs.NewickNumC Proofs.NexusWords Proofs.NexusRoundTrip Proofs.NexusRoundTripMain
     Proofs.NexusRoundExamples Proofs.NexusRoundTripExample
     Proofs.NexusDomain Proofs.NexusProperty Proofs.NexusTranslate Proofs.NexusTranslateProperty Proofs.C13Property.
Import ListNotations.
Local Close Scope Q_scope.
Local Open Scope string_scope.

Ltac inner_cases :=
  repeat (apply Forall_cons; [first [left; reflexivity | right; left; reflexivity]|]); apply Forall_nil.

Lemma ex_domain : Forall (fun it => c13_domain numericC numokC (labels_of ex_list) (snd it)) ex_list.
Proof.
  unfold c13_domain, in_domain_tr, in_domain, inner_free.
  repeat (apply Forall_cons || apply Forall_nil);
    (split; [split; [repeat split; vm_compute; reflexivity|split]|vm_compute; reflexivity]).
  - vm_compute. repeat constructor; simpl; intuition discriminate.
  - simpl nodes. inner_cases.
  - vm_compute. repeat constructor; simpl; intuition discriminate.
  - simpl nodes. inner_cases.
Qed.
