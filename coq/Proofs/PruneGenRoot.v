(** C06 without the proviso "no single-child inner node": [remove_tip] at the root, the loop of
    [remove_tips], and the clauses the judge checks on such inputs (exact tip set, unchanged path
    lengths, no single-child node created). *)
From Coq Require Import String ZArith QArith Bool Arith Lia List Permutation Setoid Morphisms.
From GT Require Import Base.UTree Spec.Obs Spec.Induced Model.Reroot Spec.Unrooted Proofs.RerootBase Proofs.PruneBase
     Model.Prune Proofs.PruneStep Proofs.PruneSub Proofs.PruneRoot Proofs.Prune Proofs.CollapseBase
     Proofs.PruneSplits Proofs.OracleDist Proofs.OracleSets Proofs.PruneOracle Proofs.PruneGen.
Import ListNotations.
Local Close Scope Q_scope.
Local Arguments n_up : simpl never.
Local Arguments leaves : simpl never.
Local Arguments depths : simpl never.
Local Arguments pairdists : simpl never.
Local Arguments wf_sub : simpl never.
Local Arguments merge_edge : simpl never.
Local Arguments reparent : simpl never.

Section RootGen.
  Variable nm : string.
  Notation w := len0.
  Notation k := (knm nm).

  Ltac kidsplit :=
    repeat (rewrite ?kids_of_app, ?kids_of_cons_some, ?kids_of_cons_none, ?forallb_app, ?andb_true_iff,
            ?n_up_app, ?n_up_cons, ?n_up_nil, ?app_length, ?kleaves_app, ?kleaves_cons, ?kSC_app, ?kSC_cons in *; simpl forallb in *; simpl snd in *;
            simpl length in *).

  Definition step_postg (t t' : utree) : Prop :=
    wf t' = true /\ In nm (leaves t) /\
    Permutation (leaves t') (filter k (leaves t)) /\
    dists_equiv (pairdists w t') (fP k (pairdists w t)) /\
    msub (SCroot t') (fcl k (SCroot t)).

  Lemma all_hit_okg sl : Forall (fun s : slot => match s with Some (_, c) => hit_okg nm c | None => True end) sl.
  Proof. apply Forall_forall. intros [[e c]|] _; auto. apply rm_sub_okg. Qed.

  Lemma SC_tail c : msub (kSC (kids_of (uslots c))) (SC c).
  Proof. destruct c as [n cm sl]. rewrite SC_unfold. simpl uslots. apply msub_app_r, msub_refl. Qed.

  Lemma remove_tip_okg t t' :
    wf t = true -> NoDup (leaves t) -> filter k (leaves t) <> [] ->
    remove_tip nm t = Ok t' -> step_postg t t'.
  Proof.
    destruct t as [n c sl]. intros Hwf Hnd Hrest Hrm.
    rewrite wf_unfold in Hwf.
    apply andb_true_iff in Hwf. destruct Hwf as [Hup Hwk]. apply Nat.eqb_eq in Hup.
    unfold remove_tip in Hrm.
    destruct (is_tip (UNode n c sl) && String.eqb n nm); [discriminate|].
    destruct (kids_of sl) as [|k0 kr] eqn:Ek.
    { assert (sl = []) as ->.
      { generalize (length_slots sl). rewrite Ek, Hup. destruct sl; simpl; auto. lia. }
      simpl in Hrm. discriminate. }
    assert (Hne : kids_of sl <> []) by (rewrite Ek; discriminate).
    assert (Hndk : NoDup (kleaves (kids_of sl))).
    { rewrite leaves_unfold, Ek in Hnd. now rewrite Ek. }
    rewrite <- Ek in *. clear Ek k0 kr.
    generalize (node_hitg nm sl (all_hit_okg sl) Hwk Hndk).
    destruct (first_hit (hit nm (rm_sub nm)) 0 sl) as [[[i e] o]|]; [|discriminate].
    intros [A [ch [B [-> [-> [Ho [Hnf [HA [HB [Hin Hwch]]]]]]]]]].
    set (T := UNode n c (A ++ Some (e, ch) :: B)) in *.
    assert (LT : leaves T = kleaves (kids_of A) ++ leaves ch ++ kleaves (kids_of B)).
    { unfold T. rewrite leaves_unfold. kidsplit.
      destruct (kids_of A ++ (e, ch) :: kids_of B) eqn:E0; [destruct (kids_of A); discriminate|]. reflexivity. }
    assert (Hint : In nm (leaves T)) by (rewrite LT, !in_app_iff; auto).
    assert (Dt : depths w T = aggD (contribs w (kids_of A ++ (e, ch) :: kids_of B))).
    { unfold T. rewrite depths_agg; kidsplit; auto. }
    assert (Pt : pairdists w T = aggP (contribs w (kids_of A ++ (e, ch) :: kids_of B))).
    { unfold T. rewrite pairdists_agg. now kidsplit. }
    assert (ST : SCroot T = kSC (kids_of A) ++ SC ch ++ kSC (kids_of B)).
    { unfold T. rewrite SCroot_unfold. now kidsplit. }
    kidsplit. destruct Hwk as [HwA [_ HwB]].
    destruct o as [|ch'| |ec cc|m]; simpl in Ho.
    - congruence.
    - destruct Ho as [_ [Hw' [Hk' [HD [HP HS]]]]].
      rewrite set_nth_app in Hrm. injection Hrm as <-.
      destruct (agg_keep nm (kids_of A) (kids_of B) HA HB (e, ch) (e, ch') (contrib_keep nm e ch ch' HD HP)) as [G1 G2].
      rewrite <- Dt in G1. rewrite <- Pt in G2.
      set (T' := UNode n c (A ++ Some (e, ch') :: B)).
      assert (Dn : depths w T' = aggD (contribs w (kids_of A ++ (e, ch') :: kids_of B))).
      { unfold T'. rewrite depths_agg; kidsplit; auto. destruct (kids_of A); discriminate. }
      rewrite <- Dn in G1.
      unfold step_postg. split; [|split; [|split; [|split]]]; auto.
      + unfold T'. rewrite wf_unfold. kidsplit. repeat split; auto. apply Nat.eqb_eq; lia.
      + now apply leaves_from_depths.
      + unfold T'. rewrite pairdists_agg. now kidsplit.
      + unfold T'. rewrite SCroot_unfold, ST. kidsplit. rewrite !fcl_app, !kSC_keep by auto.
        apply msub_app; [apply msub_refl|]. apply msub_app; [exact HS|apply msub_refl].
    - destruct Ho as [HLc HPc].
      rewrite remove_nth_app in Hrm.
      destruct (agg_gone nm (kids_of A) (kids_of B) HA HB (e, ch) (contrib_goneg nm e ch HLc HPc)) as [G1 G2].
      rewrite <- Dt in G1. rewrite <- Pt in G2. rewrite <- kids_of_app in G1, G2.
      assert (GS : msub (kSC (kids_of (A ++ B))) (fcl k (SCroot T))).
      { rewrite ST, kids_of_app, kSC_app, !fcl_app, !kSC_keep by auto.
        apply msub_app; [apply msub_refl|]. apply msub_app_r. apply msub_refl. }
      assert (HwL : forallb (fun p => wf_sub (snd p)) (kids_of (A ++ B)) = true) by (kidsplit; auto).
      assert (HuL : n_up (A ++ B) = 0) by (kidsplit; lia).
      assert (HKL : kids_of (A ++ B) = kids_of A ++ kids_of B) by apply kids_of_app.
      remember (A ++ B) as L.
      destruct L as [|s1 [|s2 [|s3 L]]].
      + (* nothing else in the tree *)
        exfalso. apply Hrest. simpl in HKL. symmetry in HKL. apply app_eq_nil in HKL. destruct HKL as [EA EB].
        rewrite LT, EA, EB, HLc. simpl. now rewrite knm_false.
      + destruct s1 as [[e1 [n1 cm1 sl1]]|]; [|unfold n_up in HuL; simpl in HuL; lia].
        simpl in Hrm. injection Hrm as <-.
        simpl in HwL. rewrite andb_true_r in HwL.
        rewrite wf_sub_unfold in HwL. apply andb_true_iff in HwL. destruct HwL as [Hu1 Hw1]. apply Nat.eqb_eq in Hu1.
        unfold aggD, aggP, contrib_of in G1, G2. simpl in G1, G2.
        rewrite app_nil_r in G1. rewrite app_nil_r in G2.
        unfold step_postg. split; [|split; [|split; [|split]]]; auto.
        * rewrite wf_unfold, n_up_drop_up, kids_of_drop_up, Hu1, Hw1. reflexivity.
        * apply deq_names in G1. rewrite shift_names, fD_names, !depths_names in G1.
          rewrite <- G1. erewrite leaves_kids; [reflexivity|reflexivity|apply kids_of_drop_up].
        * erewrite pairdists_kids; [exact G2|apply kids_of_drop_up].
        * rewrite SCroot_unfold, kids_of_drop_up. eapply msub_trans; [|exact GS].
          simpl kids_of. rewrite kSC_cons. simpl snd. change (kSC []) with (@nil (list string)). rewrite app_nil_r.
          apply (SC_tail (UNode n1 cm1 sl1)).
      + destruct s1 as [[e1 c1]|]; [|rewrite n_up_cons in HuL; lia].
        destruct s2 as [[e2 c2]|]; [|rewrite !n_up_cons in HuL; lia].
        simpl in HwL. rewrite andb_true_r in HwL.
        apply andb_true_iff in HwL. destruct HwL as [Hw1 Hw2].
        simpl kids_of in GS. rewrite !kSC_cons in GS. simpl snd in GS. change (kSC []) with (@nil (list string)) in GS.
        rewrite app_nil_r in GS.
        set (e' := merge_edge e1 e2 (Nat.ltb 1 (degree c1)) (Nat.ltb 1 (degree c2))) in *.
        assert (He' : (w e' == w e1 + w e2)%Q) by apply len0_merge.
        assert (Key : forall ea eb ca cb,
                   wf_sub ca = true -> wf_sub cb = true ->
                   (w e' == w ea + w eb)%Q -> Nat.ltb 1 (degree ca - 1) = true ->
                   deq (aggD (contribs w [(ea, ca); (eb, cb)])) (fD k (depths w T)) ->
                   dists_equiv (aggP (contribs w [(ea, ca); (eb, cb)])) (fP k (pairdists w T)) ->
                   msub (SC ca ++ SC cb) (fcl k (SCroot T)) ->
                   step_postg T (UNode (uname ca) (ucom ca) (drop_up (uslots ca) ++ [Some (e', reparent cb)]))).
        { clear Hrm. intros ea eb [na cma sla] cb Hwa Hwb Hee Hda Ga1 Ga2 Ga3.
          simpl uname. simpl ucom. simpl uslots.
          generalize (SC_tail (UNode na cma sla)). simpl uslots. intros HSa.
          rewrite wf_sub_unfold in Hwa.
          apply andb_true_iff in Hwa. destruct Hwa as [Hua Hwka]. apply Nat.eqb_eq in Hua.
          unfold degree in Hda. simpl in Hda. apply Nat.ltb_lt in Hda.
          assert (Hka : kids_of sla <> []).
          { intros E0. generalize (length_slots sla). rewrite E0, Hua. simpl. lia. }
          unfold step_postg. split; [|split; [|split; [|split]]]; auto.
          - rewrite wf_unfold. kidsplit. rewrite n_up_drop_up, kids_of_drop_up.
            repeat split; auto using reparent_wf_sub. apply Nat.eqb_eq. lia.
          - apply deq_names in Ga1. rewrite fD_names, depths_names, contribs_names in Ga1.
            rewrite <- Ga1. rewrite leaves_unfold. kidsplit. rewrite kids_of_drop_up.
            destruct (kids_of sla ++ [(e', reparent cb)]) eqn:E0; [destruct (kids_of sla); discriminate|].
            rewrite reparent_leaves, (leaves_unfold na cma sla).
            destruct (kids_of sla); [congruence|]. simpl. now rewrite !app_nil_r.
          - rewrite pairdists_agg. kidsplit. rewrite kids_of_drop_up.
            etransitivity; [|exact Ga2].
            etransitivity; [apply (root_merge (kids_of sla) ea eb e' cb (reparent cb) Hee
                                              (reparent_depths w cb) (reparent_pairdists w cb))|].
            unfold contribs. simpl map. unfold contrib_of. simpl fst. simpl snd.
            rewrite depths_agg, pairdists_agg by auto. reflexivity.
          - rewrite SCroot_unfold. kidsplit. rewrite kids_of_drop_up.
            change (kSC []) with (@nil (list string)). rewrite app_nil_r, (reparent_SC cb Hwb).
            eapply msub_trans; [|exact Ga3]. apply msub_app; [exact HSa|apply msub_refl]. }
        destruct c1 as [n1 cm1 sl1], c2 as [n2 cm2 sl2].
        unfold after_del_root in Hrm. cbv zeta in Hrm.
        destruct (Nat.ltb 1 (degree (UNode n1 cm1 sl1) - 1)) eqn:E1.
        * cbv iota in Hrm. injection Hrm as <-. apply (Key e1 e2 (UNode n1 cm1 sl1) (UNode n2 cm2 sl2)); auto.
        * destruct (Nat.ltb 1 (degree (UNode n2 cm2 sl2) - 1)) eqn:E2.
          -- cbv iota in Hrm. injection Hrm as <-.
             apply (Key e2 e1 (UNode n2 cm2 sl2) (UNode n1 cm1 sl1)); auto.
             ++ rewrite He'. apply Qplus_comm.
             ++ etransitivity; [|exact G1]. apply deq_perm, aggD_perm. unfold contribs. simpl. apply perm_swap.
             ++ etransitivity; [|exact G2]. apply dists_equiv_perm, aggP_perm. unfold contribs. simpl. apply perm_swap.
             ++ eapply msub_trans; [|exact GS]. apply msub_perm. apply Permutation_app_comm.
          -- cbv iota in Hrm.
             destruct (Nat.eqb (degree (UNode n2 cm2 sl2) - 1) 1 || Nat.eqb (degree (UNode n1 cm1 sl1) - 1) 1); discriminate.
      + assert (E3 : after_del_root nm n c (s1 :: s2 :: s3 :: L) = Ok (UNode n c (s1 :: s2 :: s3 :: L))).
        { destruct s1 as [[? [? ? ?]]|], s2 as [[? ?]|]; reflexivity. }
        rewrite E3 in Hrm. injection Hrm as <-. clear E3.
        assert (Hk3 : kids_of (s1 :: s2 :: s3 :: L) <> []).
        { intros E0. generalize (length_slots (s1 :: s2 :: s3 :: L)). rewrite E0, HuL. simpl. lia. }
        rewrite <- (depths_agg w n c) in G1 by auto. rewrite <- (pairdists_agg w n c) in G2.
        unfold step_postg. split; [|split; [|split; [|split]]]; auto.
        * rewrite wf_unfold, HuL, HwL. reflexivity.
        * now apply leaves_from_depths.
    - destruct Ho as [_ [Hw' [HD [HP HS]]]].
      unfold splice in Hrm. rewrite remove_nth_app in Hrm. injection Hrm as <-.
      set (e' := merge_edge e ec (Nat.ltb 1 (length (A ++ Some (e, ch) :: B))) (Nat.ltb 1 (degree cc))).
      destruct (agg_move nm (kids_of A) (kids_of B) HA HB (e, ch) (e', reparent cc)
                         (contrib_splice nm e ch ec cc _ _ HD HP)) as [G1 G2].
      rewrite <- Dt in G1. rewrite <- Pt in G2.
      set (T' := UNode n c ((A ++ B) ++ [Some (e', reparent cc)])).
      assert (Dn : depths w T' = aggD (contribs w ((kids_of A ++ kids_of B) ++ [(e', reparent cc)]))).
      { unfold T'. rewrite depths_agg; kidsplit; auto. destruct (kids_of A ++ kids_of B); discriminate. }
      rewrite <- Dn in G1.
      unfold step_postg. split; [|split; [|split; [|split]]]; auto.
      + unfold T'. rewrite wf_unfold. kidsplit. repeat split; auto using reparent_wf_sub. apply Nat.eqb_eq; lia.
      + now apply leaves_from_depths.
      + unfold T'. rewrite pairdists_agg. now kidsplit.
      + unfold T'. rewrite SCroot_unfold, ST. kidsplit. rewrite !fcl_app, !kSC_keep by auto.
        change (kSC []) with (@nil (list string)). rewrite app_nil_r, (reparent_SC cc Hw').
        eapply msub_perm_r; [|apply msub_app; [apply msub_refl|exact HS]]. perm.
    - destruct Ho.
  Qed.
End RootGen.

(** * the loop *)
Lemma perm_nonempty {A} (l l' : list A) : Permutation l l' -> l <> [] -> l' <> [].
Proof. intros P H E. subst. symmetry in P. apply Permutation_nil in P. auto. Qed.

Section LoopGen.
  Variable revert : bool.
  Variable names : list string.
  Notation w := len0.

  Lemma remove_loop_okg : forall todo t t',
      wf t = true -> NoDup (leaves t) -> filter (pending revert names todo) (leaves t) <> [] ->
      remove_loop revert names todo t = Ok t' ->
      wf t' = true /\
      Permutation (leaves t') (filter (pending revert names todo) (leaves t)) /\
      dists_equiv (pairdists w t') (fP (pending revert names todo) (pairdists w t)) /\
      msub (SCroot t') (fcl (pending revert names todo) (SCroot t)).
  Proof.
    induction todo as [|nm r IH]; intros t t' Hwf Hnd Hrest Hl.
    - simpl in Hl. injection Hl as Heq. subst t'. split; auto. split; [|split].
      + unfold pending. simpl. now rewrite filter_true.
      + unfold pending. simpl. now rewrite fP_true.
      + unfold pending. simpl. rewrite fcl_id; [apply msub_refl|]. intros L HL. split; auto.
        destruct t as [n c sl]. rewrite SCroot_unfold in HL. unfold kSC in HL. rewrite in_flat_map in HL.
        destruct HL as [p [_ HL]]. destruct (SC_sub _ _ HL); auto.
    - simpl in Hl. destruct (negb (has_tip nm t)); [discriminate|].
      destruct (selected revert names nm) eqn:Hs.
      + destruct (remove_tip nm t) as [t1|m] eqn:Hrm; [|discriminate].
        assert (Ef : forall (X : list string),
                   filter (pending revert names (nm :: r)) X = filter (pending revert names r) (filter (knm nm) X)).
        { intros X. rewrite filter_filter. apply filter_ext. intros x. now apply pending_cons_sel. }
        assert (Hk : filter (knm nm) (leaves t) <> []).
        { intros E. apply Hrest. now rewrite Ef, E. }
        destruct (remove_tip_okg nm t t1 Hwf Hnd Hk Hrm) as [Hwf1 [Hin [Hlv [Hpd Hsc]]]].
        assert (Hnd1 : NoDup (leaves t1)).
        { eapply NoDup_perm; [symmetry; exact Hlv|]. now apply NoDup_filter'. }
        assert (Hrest1 : filter (pending revert names r) (leaves t1) <> []).
        { rewrite Ef in Hrest. eapply perm_nonempty; [|exact Hrest]. apply Permutation_filter. now symmetry. }
        destruct (IH t1 t' Hwf1 Hnd1 Hrest1 Hl) as [Hwf' [Hlv' [Hpd' Hsc']]].
        split; auto. split; [|split].
        * rewrite Hlv'. rewrite (Permutation_filter _ _ _ Hlv). now rewrite Ef.
        * etransitivity; [exact Hpd'|].
          etransitivity; [apply fP_dists_equiv, Hpd|].
          rewrite fP_fP. erewrite fP_ext; [reflexivity|]. intros x. symmetry. now apply pending_cons_sel.
        * eapply msub_trans; [exact Hsc'|].
          eapply msub_trans; [apply msub_fcl, Hsc|].
          rewrite fcl_fcl. erewrite fcl_ext; [apply msub_refl|]. intros x. symmetry. now apply pending_cons_sel.
      + assert (Ef : forall (X : list string),
                   filter (pending revert names (nm :: r)) X = filter (pending revert names r) X).
        { intros X. apply filter_ext. intros x. now apply pending_cons_unsel. }
        rewrite Ef in Hrest.
        destruct (IH t t' Hwf Hnd Hrest Hl) as [Hwf' [Hlv' [Hpd' Hsc']]].
        split; auto. split; [|split].
        * now rewrite Ef.
        * etransitivity; [exact Hpd'|]. erewrite fP_ext; [reflexivity|]. intros x. symmetry. now apply pending_cons_unsel.
        * erewrite fcl_ext; [exact Hsc'|]. intros x. now apply pending_cons_unsel.
  Qed.

  (** Tree.RemoveTips on any well-formed tree with distinct tip names (single-child inner nodes
      allowed), when at least one tip remains *)
  Theorem remove_tips_okg t t' :
    wf t = true -> 2 <= degree t -> NoDup (leaves t) ->
    filter (kept revert names) (leaves t) <> [] ->
    remove_tips revert names t = Ok t' ->
    wf t' = true /\
    Permutation (leaves t') (filter (kept revert names) (leaves t)) /\
    dists_equiv (pairdists w t') (fP (kept revert names) (pairdists w t)) /\
    msub (SCroot t') (fcl (kept revert names) (SCroot t)).
  Proof.
    intros Hwf Hdeg Hnd Hrest Hr. unfold remove_tips in Hr.
    destruct (remove_loop revert names (tip_names t) t) as [t1|m] eqn:Hl; [|discriminate].
    destruct (update_tip_index t1); [|discriminate]. injection Hr as Heq. subst t'.
    rewrite tip_names_leaves in Hl by auto.
    assert (Ef : filter (pending revert names (leaves t)) (leaves t) = filter (kept revert names) (leaves t)).
    { apply filter_ext_in. intros x Hx. unfold pending, kept. now rewrite name_in_In. }
    destruct (remove_loop_okg _ _ _ Hwf Hnd ltac:(now rewrite Ef) Hl) as [Hwf' [Hlv [Hpd Hsc]]].
    split; auto. split; [|split].
    - now rewrite Hlv, Ef.
    - etransitivity; [exact Hpd|]. erewrite fP_ext_in; [reflexivity|].
      intros x1 x2 d Hin. apply pairdists_names in Hin. destruct Hin as [Ha Hb].
      unfold pending, kept. now rewrite !name_in_In.
    - eapply msub_trans; [exact Hsc|]. apply msub_perm.
      assert (E : fcl (pending revert names (leaves t)) (SCroot t) = fcl (kept revert names) (SCroot t)).
      { unfold fcl. destruct t as [n c sl]. rewrite SCroot_unfold.
        assert (HS : forall L, In L (kSC (kids_of sl)) -> forall x, In x L -> In x (leaves (UNode n c sl))).
        { intros L HL x Hx. unfold kSC in HL. rewrite in_flat_map in HL. destruct HL as [[e ch] [Hp HL]].
          destruct (SC_sub _ _ HL) as [_ H2]. simpl snd in H2.
          rewrite leaves_unfold. destruct (kids_of sl) eqn:E0; [destruct Hp|]. rewrite <- E0.
          unfold kleaves. rewrite in_flat_map. exists (e, ch). split; [rewrite E0; auto|auto]. }
        induction (kSC (kids_of sl)) as [|L Ls IHL]; simpl; auto.
        rewrite IHL by (intros; eapply HS; eauto; now right).
        assert (EL : filter (pending revert names (leaves (UNode n c sl))) L = filter (kept revert names) L).
        { apply filter_ext_in. intros x Hx. unfold pending, kept. rewrite name_in_In; auto. eapply HS; eauto. now left. }
        now rewrite EL. }
      now rewrite E.
  Qed.
End LoopGen.

(** * the judge's clauses on inputs with single-child nodes *)
Lemma keys_msub_of_msub X Y : msub X Y -> keys_msub X Y = true.
Proof.
  revert Y. induction X as [|x X IH]; intros Y [r P]; [reflexivity|].
  simpl. assert (Hin : In x Y) by (apply (Permutation_in _ P); now left).
  assert (Hrem : exists Y', remove_key x Y = Some Y' /\ Permutation Y (x :: Y')).
  { clear -Hin. induction Y as [|y Y IHY]; [destruct Hin|]. simpl.
    destruct (sset_eqb x y) eqn:E.
    - unfold sset_eqb in E. apply list_eqb_eq in E. subst. eexists. split; eauto.
    - destruct Hin as [->|Hin].
      + unfold sset_eqb in E. rewrite (proj2 (list_eqb_eq x x) eq_refl) in E. discriminate.
      + destruct (IHY Hin) as [Y' [E1 P1]]. rewrite E1. eexists. split; eauto. rewrite P1. apply perm_swap. }
  destruct Hrem as [Y' [E1 P1]]. rewrite E1. apply IH. exists r.
  apply (Permutation_cons_inv (a := x)). rewrite <- P1. exact P.
Qed.

Section OracleSingle.
  Variable revert : bool.
  Variable names : list string.
  Notation kp := (kept revert names).

  Lemma restricted_singles t R :
    (forall x, In x R <-> In x (leaves t) /\ kp x = true) ->
    forall c, (forall x, In x (leaves c) -> In x (leaves t)) ->
              single_clades_sub (fun L => sinter (sset L) R) c = fcl kp (SC c).
  Proof.
    intros HR. induction c as [n cm sl IH] using utree_ind'. intros Hsub.
    rewrite SC_unfold, fcl_app. simpl single_clades_sub. f_equal.
    - destruct (Nat.eqb (length sl) 2); [|reflexivity].
      assert (E : sinter (sset (leaves (UNode n cm sl))) R = filter kp (sset (leaves (UNode n cm sl)))).
      { unfold sinter. apply filter_ext_in. intros x Hx. rewrite sset_In in Hx.
        destruct (kp x) eqn:Ek.
        - apply smem_In. apply HR. split; [apply Hsub; exact Hx|exact Ek].
        - apply smem_false. intros H. apply HR in H. destruct H. congruence. }
      rewrite E. unfold fcl. simpl. now rewrite app_nil_r.
    - unfold kSC.
      assert (Hk : forall e ch, In (Some (e, ch)) sl -> forall x, In x (leaves ch) -> In x (leaves t)).
      { intros e ch Hs x Hx. apply Hsub. rewrite leaves_unfold.
        assert (Hp : In (e, ch) (kids_of sl)) by (apply kids_of_In; auto).
        destruct (kids_of sl) eqn:E0; [destruct Hp|]. rewrite <- E0. unfold kleaves. rewrite in_flat_map.
        exists (e, ch). split; [rewrite E0; auto|auto]. }
      clear Hsub. induction sl as [|[[e ch]|] r IHr]; simpl; auto.
      + inversion IH as [|? ? Hc Hr]; subst. rewrite fcl_app, Hc, IHr; auto.
        * intros e' ch' Hs. apply (Hk e' ch'). now right.
        * apply (Hk e ch). now left.
      + inversion IH; subst. apply IHr; auto. intros e' ch' Hs. apply (Hk e' ch'). now right.
  Qed.

  Theorem remove_tips_oracle_single t t' :
    wf t = true -> 2 <= degree t -> NoDup (leaves t) ->
    filter kp (leaves t) <> [] ->
    remove_tips revert names t = Ok t' ->
    let R := Obs.ssort (filter kp (leaves t)) in
    wf t' = true /\ induced_tips t' R = true /\ singles_not_created t t' R = true /\ induced_dists t t' R = true.
  Proof.
    intros Hwf Hdeg Hnd Hrest Hr R.
    destruct (remove_tips_okg revert names t t' Hwf Hdeg Hnd Hrest Hr) as [Hwf' [Hlv [Hpd Hsc]]].
    assert (ER : Obs.ssort (leaves t') = R) by (apply ssort_eq_perm; exact Hlv).
    split; auto. split.
    { unfold induced_tips, sset_eqb. rewrite ER. apply list_eqb_refl_string. }
    split.
    2:{ now apply induced_dists_of_restriction. }
    unfold singles_not_created. apply keys_msub_of_msub.
    assert (RI : forall x, In x R <-> In x (leaves t) /\ kp x = true) by (apply R_In).
    assert (E : single_clades (fun L => sinter (sset L) R) t = fcl kp (SCroot t)).
    { destruct t as [n c sl]. unfold single_clades, SCroot, single_clades. unfold kids. simpl uslots.
      assert (Hk : forall p, In p (kids_of sl) -> forall x, In x (leaves (snd p)) -> In x (leaves (UNode n c sl))).
      { intros [e ch] Hp x Hx. rewrite leaves_unfold. destruct (kids_of sl) eqn:E0; [destruct Hp|]. rewrite <- E0.
        unfold kleaves. rewrite in_flat_map. exists (e, ch). split; [rewrite E0; auto|auto]. }
      induction (kids_of sl) as [|p ks IHk]; [reflexivity|]. simpl. rewrite fcl_app.
      rewrite (restricted_singles (UNode n c sl) R RI (snd p)) by (apply Hk; now left).
      rewrite IHk by (intros q Hq; apply Hk; now right). reflexivity. }
    rewrite E. exact Hsc.
  Qed.
End OracleSingle.
