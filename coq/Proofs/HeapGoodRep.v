(** Heap model: the clauses of [Good] imply the representation invariant: a good heap IS a
    labelled tree ([Good_Rep]); hence [abs] succeeds on it with a well-formed result. *)
From Coq Require Import String ZArith QArith Bool Arith Lia Permutation List.
From GT Require Import Base.UTree Model.Reroot Model.Heap Proofs.Enum Proofs.HeapBase Proofs.HeapRep Proofs.HeapGood.
Import ListNotations.
Local Close Scope Q_scope.

(** descendants: following edges from left to right *)
Inductive desc (h : heap) (a : nat) : nat -> Prop :=
| desc_refl : desc h a a
| desc_step : forall x y e ed, desc h a x -> has_slot h x y e ->
    alookup e (hedges h) = Some ed -> hleft ed = x -> desc h a y.

Lemma NoDup_map_fun {A B C} (f : A -> B) (g : A -> C) (l : list A) :
  NoDup (map g l) -> (forall a b, In a l -> In b l -> f a = f b -> g a = g b) -> NoDup (map f l).
Proof.
  induction l as [|a l IH]; intros Hnd Hfg; [constructor|]. cbn in *. inversion Hnd as [|? ? Hni Hnd']; subst.
  constructor.
  - intros Hin. apply in_map_iff in Hin. destruct Hin as [b [E Hb]]. apply Hni.
    rewrite (Hfg a b); [apply in_map; exact Hb|left; reflexivity|right; exact Hb|symmetry; exact E].
  - apply IH; [exact Hnd'|]. intros a0 b0 Ha Hb. apply Hfg; right; assumption.
Qed.

Lemma NoDup_flat_map_intro {A B} (f : A -> list B) (l : list A) :
  (forall a, In a l -> NoDup (f a)) ->
  (forall j1 j2 a1 a2 x, nth_error l j1 = Some a1 -> nth_error l j2 = Some a2 -> In x (f a1) -> In x (f a2) -> j1 = j2) ->
  NoDup (flat_map f l).
Proof.
  induction l as [|a l IH]; intros H1 H2; [constructor|]. cbn. apply NoDup_app_iff. repeat split.
  - apply H1. left. reflexivity.
  - apply IH; [intros a0 Ha; apply H1; right; exact Ha|].
    intros j1 j2 a1 a2 x J1 J2 X1 X2. specialize (H2 (S j1) (S j2) a1 a2 x J1 J2 X1 X2). lia.
  - intros x Hx Hx'. apply in_flat_map in Hx'. destruct Hx' as [b [Hb Hxb]].
    apply In_nth_error in Hb. destruct Hb as [j Hj].
    specialize (H2 0 (S j) a b x eq_refl Hj Hx Hxb). discriminate.
Qed.

Lemma Forall2_nth_r {A B} (P : A -> B -> Prop) l l' j b :
  Forall2 P l l' -> nth_error l' j = Some b -> exists a, nth_error l j = Some a /\ P a b.
Proof.
  intros H. revert j. induction H as [|a0 b0 l l' H0 _ IH]; intros [|j] Hj; cbn in *; try discriminate.
  - injection Hj as <-. exists a0. split; [reflexivity|exact H0].
  - exact (IH j Hj).
Qed.

(** (edge id, child id) of every child slot, in pre-order *)
Fixpoint lpairs (lt : ltree) : list (nat * nat) :=
  match lt with
  | LNode _ _ _ sl =>
    flat_map (fun s : lslot => match s with Some (e, _, ch) => (e, lid ch) :: lpairs ch | None => [] end) sl
  end.

Lemma lpairs_fst : forall lt, map fst (lpairs lt) = leids lt.
Proof.
  induction lt as [i n c sl IH] using ltree_ind'. cbn [lpairs leids].
  induction IH as [|s sl Hs _ IHsl]; [reflexivity|]. cbn [flat_map]. rewrite map_app, IHsl. f_equal.
  destruct s as [[[e ei] ch]|]; [|reflexivity]. cbn. f_equal. exact Hs.
Qed.

Lemma lpairs_snd : forall lt, lid lt :: map snd (lpairs lt) = lids lt.
Proof.
  induction lt as [i n c sl IH] using ltree_ind'. cbn [lpairs lids lid]. f_equal.
  induction IH as [|s sl Hs _ IHsl]; [reflexivity|]. cbn [flat_map]. rewrite map_app, IHsl. f_equal.
  destruct s as [[[e ei] ch]|]; [|reflexivity]. cbn [map snd]. exact Hs.
Qed.

Lemma lpairs_right h : forall lt prev, shape true h prev lt ->
  forall e c, In (e, c) (lpairs lt) -> exists ed, alookup e (hedges h) = Some ed /\ hright ed = c.
Proof.
  induction lt as [i n c sl IH] using ltree_ind'. intros prev Sh e c0 Hin.
  apply shape_unfold in Sh. destruct Sh as [hn (A1 & A2 & A3 & A4 & A5)].
  cbn [lpairs] in Hin. apply in_flat_map in Hin. destruct Hin as [s [Hs Hin]].
  rewrite Forall_forall in IH. specialize (IH s Hs).
  destruct s as [[[e' ei] ch]|]; [|destruct Hin].
  destruct (Forall2_in_r _ _ _ _ A5 Hs) as [[c1 e1] [Hce Hok]]. cbn in Hok.
  destruct Hok as (B1 & B2 & B3 & [ed (B4 & B5 & B6 & B7)] & B8). subst e1 c1.
  destruct Hin as [[= <- <-]|Hin]; [exists ed; split; assumption|]. eapply IH; eassumption.
Qed.

Lemma shape_NoDup_leids h lt prev : shape true h prev lt -> NoDup (lids lt) -> NoDup (leids lt).
Proof.
  intros Sh Hnd. rewrite <- lpairs_fst. apply (NoDup_map_fun fst snd).
  - rewrite <- lpairs_snd in Hnd. inversion Hnd. assumption.
  - intros [e1 c1] [e2 c2] H1 H2 E. cbn in E. subst e2. cbn.
    destruct (lpairs_right h lt prev Sh _ _ H1) as [ed1 [X1 Y1]].
    destruct (lpairs_right h lt prev Sh _ _ H2) as [ed2 [X2 Y2]]. congruence.
Qed.

Lemma shape_lids_exist o h : forall lt prev, shape o h prev lt -> forall x, In x (lids lt) -> alookup x (hnodes h) <> None.
Proof.
  intros lt prev Sh x Hx. destruct (in_lids_lsubs lt prev x Hx) as [p [sub [Hs <-]]].
  pose proof (shape_lsubs _ _ _ _ _ _ Sh Hs) as Sh'. destruct sub as [i n c sl].
  apply shape_unfold in Sh'. destruct Sh' as [hn (A1 & _)]. cbn. congruence.
Qed.

Lemma shape_leids_exist o h lt prev : shape o h prev lt -> forall x, In x (leids lt) -> alookup x (hedges h) <> None.
Proof.
  intros Sh x Hx. destruct (in_leids_lsubs lt prev x Hx) as (p & i & n & c & sl & ei & ch & H1 & H2).
  pose proof (shape_lsubs _ _ _ _ _ _ Sh H1) as Sh'.
  apply shape_unfold in Sh'. destruct Sh' as [hn (A1 & A2 & A3 & A4 & A5)].
  destruct (Forall2_in_r _ _ _ _ A5 H2) as [[c1 e1] [Hce Hok]]. cbn in Hok.
  destruct Hok as (B1 & B2 & B3 & [ed (B4 & B5 & B6)] & B8). subst e1. congruence.
Qed.

Definition pair_eq_dec (a b : nat * nat) : {a = b} + {a <> b}.
Proof. decide equality; apply Nat.eq_dec. Defined.

Section GoodRep.
  Variable h : heap.
  Hypothesis G : Good h.
  Variable rank : nat -> nat.
  Hypothesis rank_root : rank (hroot h) = 0.
  Hypothesis rank_edge : forall e ed, alookup e (hedges h) = Some ed -> rank (hright ed) = S (rank (hleft ed)).

  (** a slot whose edge starts here leads to a child, one step further from the root *)
  Lemma child_slot n m e ed : has_slot h n m e -> alookup e (hedges h) = Some ed -> hleft ed = n ->
    hright ed = m /\ rank m = S (rank n).
  Proof.
    intros Hs He Hl. pose proof (rank_edge _ _ He) as Hr.
    destruct (g_ends _ G _ _ _ _ Hs He) as [[_ B]|[A B]].
    - split; [exact B|]. rewrite <- B, <- Hl. exact Hr.
    - exfalso. rewrite Hl in Hr. rewrite B in Hr. lia.
  Qed.

  Lemma desc_rank_le a x : desc h a x -> rank a <= rank x.
  Proof.
    induction 1 as [|x y e ed _ IH Hs He Hl]; [lia|].
    destruct (child_slot _ _ _ _ Hs He Hl) as [_ Hr]. lia.
  Qed.

  Lemma desc_rank_unique a x : desc h a x -> forall b, desc h b x -> rank a = rank b -> a = b.
  Proof.
    induction 1 as [|x y e ed Hd IH Hs He Hl]; intros b Hb Hr.
    - inversion Hb as [|x' y' e' ed' Hd' Hs' He' Hl']; subst; [reflexivity|].
      apply desc_rank_le in Hd'. destruct (child_slot _ _ _ _ Hs' He' eq_refl) as [_ Hr']. lia.
    - destruct (child_slot _ _ _ _ Hs He Hl) as [Hry Hrk].
      inversion Hb as [|x' y' e' ed' Hd' Hs' He' Hl']; subst.
      + apply desc_rank_le in Hd. lia.
      + destruct (child_slot _ _ _ _ Hs' He' eq_refl) as [Hry' _].
        assert (e = e') as <-.
        { eapply (g_one_parent _ G (hright ed)); [apply (g_sym _ G); exact Hs|apply (g_sym _ G); exact Hs'|exact He|exact He'|reflexivity|exact Hry']. }
        rewrite He in He'. injection He' as <-. apply IH; assumption.
  Qed.

  Lemma reach_desc x : reach h x <-> desc h (hroot h) x.
  Proof.
    split; induction 1; try constructor; econstructor; eassumption.
  Qed.

  Lemma reach_chain n : reach h n -> exists l, NoDup l /\ length l = S (rank n) /\
      forall x, In x l -> alookup x (hnodes h) <> None /\ rank x <= rank n.
  Proof.
    induction 1 as [|n m e ed _ IH Hs He Hl].
    - exists [hroot h]. repeat split; [constructor; [intros []|constructor]|rewrite rank_root; reflexivity| |];
        destruct H as [<-|[]]; [exact (g_root _ G)|lia].
    - destruct IH as [l (L1 & L2 & L3)]. destruct (child_slot _ _ _ _ Hs He Hl) as [_ Hr].
      exists (m :: l). repeat split.
      + constructor; [|exact L1]. intros Hin. apply L3 in Hin. lia.
      + cbn. lia.
      + destruct H as [<-|H]; [apply (g_slot_exists _ G _ _ _ Hs)|apply (L3 _ H)].
      + destruct H as [<-|H]; [lia|]. apply L3 in H. lia.
  Qed.

  Lemma reach_rank_lt n : reach h n -> rank n < length (hnodes h).
  Proof.
    intros Hr. destruct (reach_chain n Hr) as [l (L1 & L2 & L3)].
    assert (length l <= length (map fst (hnodes h))).
    { apply NoDup_incl_length; [exact L1|]. intros x Hx. apply L3 in Hx. destruct Hx as [Hx _].
      destruct (alookup x (hnodes h)) eqn:E; [|congruence]. eapply alookup_In. exact E. }
    rewrite map_length in H. lia.
  Qed.

  (** how a node is entered *)
  Definition ctx (prev : option (nat * nat)) (n : nat) : Prop :=
    match prev with
    | None => n = hroot h
    | Some (p, pe) => has_slot h n p pe /\ exists ed, alookup pe (hedges h) = Some ed /\ hleft ed = p /\ hright ed = n
    end.

  (** a slot that is not the way we came in leads to a child *)
  Lemma non_prev_is_child prev n m e : ctx prev n -> has_slot h n m e -> prev <> Some (m, e) ->
    exists ed, alookup e (hedges h) = Some ed /\ hleft ed = n /\ hright ed = m.
  Proof.
    intros Hc Hs Hne. destruct (g_slot_exists _ G _ _ _ Hs) as [_ He].
    destruct (alookup e (hedges h)) as [ed|] eqn:E; [|congruence]. exists ed. split; [reflexivity|].
    destruct (g_ends _ G _ _ _ _ Hs E) as [[A B]|[A B]]; [split; assumption|]. exfalso.
    pose proof (rank_edge _ _ E) as Hr. destruct prev as [[p pe]|]; cbn in Hc.
    - destruct Hc as [Hps [ped (P1 & P2 & P3)]].
      assert (e = pe) as -> by (eapply (g_one_parent _ G n); eassumption).
      rewrite E in P1. injection P1 as <-. apply Hne. congruence.
    - subst n. rewrite B, rank_root in Hr. discriminate.
  Qed.

  Definition childQ (m : nat) (ch : ltree) : Prop :=
    lwf_sub ch /\ NoDup (lids ch) /\ forall x, In x (lids ch) -> desc h m x.

  Lemma prev_dec (prev : option (nat * nat)) (ce : nat * nat) : {prev = Some ce} + {prev <> Some ce}.
  Proof. decide equality. decide equality; apply Nat.eq_dec. Qed.

  Lemma build_slots prev n (l : list (nat * nat)) :
    (forall ce, In ce l -> prev <> Some ce ->
       exists ei ch, lid ch = fst ce /\ edge_ok true h (snd ce) n (fst ce) ei /\
                     shape true h (Some (n, snd ce)) ch /\ childQ (fst ce) ch) ->
    exists sl, Forall2 (fun ce s => slot_ok true h prev n ce s /\
                                    match s with Some (_, _, ch) => childQ (fst ce) ch | None => True end) l sl.
  Proof.
    induction l as [|ce l IH]; intros H; [exists []; constructor|].
    destruct IH as [sl Hsl]; [intros ce' Hin; apply H; right; exact Hin|].
    destruct (prev_dec prev ce) as [E|Hne].
    - exists (None :: sl). constructor; [split; [exact E|exact I]|exact Hsl].
    - destruct (H ce (or_introl eq_refl) Hne) as (ei & ch & A & B & C & D).
      exists (Some (snd ce, ei, ch) :: sl). constructor; [|exact Hsl].
      split; [|exact D]. cbn. repeat split; assumption.
  Qed.

  Lemma lnup_count prev n (P : nat * nat -> lslot -> Prop) l sl :
    Forall2 (fun ce s => slot_ok true h prev n ce s /\ P ce s) l sl ->
    match prev with
    | None => lnup sl = 0
    | Some pc => lnup sl = count_occ pair_eq_dec l pc
    end.
  Proof.
    induction 1 as [|ce s l sl [Hs _] _ IH]; [destruct prev; reflexivity|].
    unfold lnup in *. destruct s as [[[e ei] ch]|]; cbn [slot_ok filter] in *.
    - destruct Hs as [Hne _]. destruct prev as [pc|]; [|exact IH]. cbn [count_occ].
      destruct (pair_eq_dec ce pc) as [->|_]; [congruence|exact IH].
    - subst prev. cbn [count_occ length]. destruct (pair_eq_dec ce ce); [|congruence].
      f_equal. exact IH.
  Qed.

  Lemma build fuel : forall n prev, reach h n -> length (hnodes h) <= rank n + fuel -> ctx prev n ->
    exists lt, lid lt = n /\ shape true h prev lt /\
               (match prev with None => lwf lt | Some _ => lwf_sub lt end) /\
               NoDup (lids lt) /\ forall x, In x (lids lt) -> desc h n x.
  Proof.
    induction fuel as [|f IH]; intros n prev Hr Hf Hc.
    { pose proof (reach_rank_lt n Hr). lia. }
    assert (Hin : alookup n (hnodes h) <> None).
    { destruct prev as [[p pe]|]; cbn in Hc; [destruct Hc as [[hn [E _]] _]; congruence|subst n; exact (g_root _ G)]. }
    destruct (alookup n (hnodes h)) as [hn|] eqn:En; [clear Hin|congruence].
    pose proof (g_len _ G _ _ En) as Hlen. pose proof (g_nodup _ G _ _ En) as Hnd.
    destruct (build_slots prev n (slots_of hn)) as [sl Hsl].
    { intros [m e] Hin Hne. cbn [fst snd].
      assert (Hs : has_slot h n m e) by (exists hn; split; assumption).
      destruct (non_prev_is_child _ _ _ _ Hc Hs Hne) as [ed (E1 & E2 & E3)].
      destruct (child_slot _ _ _ _ Hs E1 E2) as [_ Hrk].
      destruct (IH m (Some (n, e))) as [ch (C1 & C2 & C3 & C4 & C5)].
      - eapply reach_step; eassumption.
      - lia.
      - cbn. split; [apply (g_sym _ G); exact Hs|]. exists ed. repeat split; assumption.
      - exists (hinfo ed), ch. repeat split; try assumption. exists ed. repeat split; assumption. }
    exists (LNode n (hname hn) (hcom hn) sl). split; [reflexivity|].
    assert (Hkids : forall e ei ch, In (Some (e, ei, ch)) sl ->
              exists m, In (m, e) (slots_of hn) /\ lid ch = m /\ childQ m ch /\ rank m = S (rank n)).
    { intros e ei ch Hin. destruct (Forall2_in_r _ _ _ _ Hsl Hin) as [[m e'] [Hce [Hok HQ]]].
      cbn in Hok. destruct Hok as (B1 & B2 & B3 & [ed (B4 & B5 & B6 & B7)] & B8). subst e'.
      exists m. repeat split; try assumption; try apply HQ.
      eapply child_slot; [exists hn; split; eassumption|exact B4|exact B6]. }
    split; [|split; [|split]].
    - apply shape_unfold. exists hn. repeat split; try assumption; try reflexivity.
      eapply Forall2_impl_r; [exact Hsl|]. intros ce s _ [Hs _]. exact Hs.
    - assert (Hk : forall e ei ch, In (Some (e, ei, ch)) sl -> lwf_sub ch).
      { intros e ei ch Hin. destruct (Hkids _ _ _ Hin) as (m & _ & _ & [Q _] & _). exact Q. }
      pose proof (lnup_count prev n _ _ _ Hsl) as Hcount.
      destruct prev as [[p pe]|].
      + apply lwf_sub_iff. split; [|exact Hk]. rewrite Hcount.
        apply NoDup_count_occ'.
        * apply (NoDup_map_inv fst). rewrite slots_of_fst; assumption.
        * destruct Hc as [[hn' [E Hin]] _]. rewrite En in E. injection E as <-. exact Hin.
      + apply lwf_iff. split; [exact Hcount|exact Hk].
    - rewrite lids_eq. constructor.
      + intros Hin. apply in_flat_map in Hin. destruct Hin as [s [Hs Hin]].
        destruct s as [[[e ei] ch]|]; [|destruct Hin].
        destruct (Hkids _ _ _ Hs) as (m & _ & _ & (_ & _ & Q) & Hrk).
        apply Q in Hin. apply desc_rank_le in Hin. lia.
      + apply NoDup_flat_map_intro.
        * intros s Hs. destruct s as [[[e ei] ch]|]; [|constructor].
          destruct (Hkids _ _ _ Hs) as (m & _ & _ & (_ & Q & _) & _). exact Q.
        * intros j1 j2 s1 s2 x J1 J2 X1 X2.
          destruct s1 as [[[e1 ei1] ch1]|]; [|destruct X1]. destruct s2 as [[[e2 ei2] ch2]|]; [|destruct X2].
          destruct (Forall2_nth_r _ _ _ _ _ Hsl J1) as [[m1 e1'] [K1 [O1 (_ & _ & Q1)]]].
          destruct (Forall2_nth_r _ _ _ _ _ Hsl J2) as [[m2 e2'] [K2 [O2 (_ & _ & Q2)]]].
          cbn [fst] in Q1, Q2. apply Q1 in X1. apply Q2 in X2.
          assert (R1 : rank m1 = S (rank n)).
          { destruct (Hkids _ _ _ (nth_error_In _ _ J1)) as (m & I1 & L1 & _ & Rk). cbn in O1. destruct O1 as (_ & _ & L1' & _). cbn in L1'. congruence. }
          assert (R2 : rank m2 = S (rank n)).
          { destruct (Hkids _ _ _ (nth_error_In _ _ J2)) as (m & I2 & L2 & _ & Rk). cbn in O2. destruct O2 as (_ & _ & L2' & _). cbn in L2'. congruence. }
          assert (m1 = m2) as <- by (eapply desc_rank_unique; [exact X1|exact X2|congruence]).
          rewrite <- (slots_of_fst hn Hlen) in Hnd.
          assert (K1' : nth_error (map fst (slots_of hn)) j1 = Some m1) by (rewrite nth_error_map, K1; reflexivity).
          assert (K2' : nth_error (map fst (slots_of hn)) j2 = Some m1) by (rewrite nth_error_map, K2; reflexivity).
          apply (proj1 (NoDup_nth_error _) Hnd); [apply nth_error_Some; congruence|congruence].
    - intros x Hx. rewrite lids_eq in Hx. destruct Hx as [<-|Hx]; [constructor|].
      apply in_flat_map in Hx. destruct Hx as [s [Hs Hx]]. destruct s as [[[e ei] ch]|]; [|destruct Hx].
      destruct (Forall2_in_r _ _ _ _ Hsl Hs) as [[m e'] [Hce [Hok (_ & _ & Q)]]].
      cbn in Hok. destruct Hok as (B1 & B2 & B3 & [ed (B4 & B5 & B6 & B7)] & B8). subst e'.
      cbn [fst] in Q. apply Q in Hx.
      assert (D1 : desc h n m). { eapply desc_step; [constructor|exists hn; split; eassumption|exact B4|exact B6]. }
      clear - D1 Hx. induction Hx; [exact D1|]. econstructor; eassumption.
  Qed.
End GoodRep.

Theorem Good_Rep h : Good h -> exists lt, Rep h lt.
Proof.
  intros G. destruct (g_rank _ G) as [rank [R0 R1]].
  destruct (build h G rank R0 R1 (length (hnodes h)) (hroot h) None) as [lt (L1 & L2 & L3 & L4 & L5)];
    [constructor|lia|reflexivity|].
  exists lt.
  assert (Hcov : forall x, reach h x -> In x (lids lt)).
  { induction 1 as [|n m e ed Hr IH Hs He Hl]; [rewrite <- L1; apply lid_in_lids|].
    destruct (in_lids_lsubs lt None n IH) as [p [sub [Hsub Hlid]]].
    pose proof (shape_lsubs _ _ _ _ _ _ L2 Hsub) as Sh. destruct sub as [i nm cm sl]. cbn in Hlid. subst i.
    apply shape_unfold in Sh. destruct Sh as [hn (A1 & A2 & A3 & A4 & A5)].
    destruct Hs as [hn' [E Hin]]. rewrite A1 in E. injection E as <-.
    destruct (Forall2_in_l _ _ _ _ A5 Hin) as [s [Hs Hok]].
    destruct s as [[[e' ei] ch]|]; cbn [slot_ok fst snd] in Hok.
    - destruct Hok as (_ & _ & B3 & _). eapply lsubs_sub_lids; [exact Hsub|].
      eapply in_lids_child; [exact Hs|]. rewrite <- B3. apply lid_in_lids.
    - exfalso. subst p.
      destruct (lsubs_parent _ _ _ _ _ Hsub) as [[E _]|(pp & nm' & cm' & sl' & ei' & H1 & H2)]; [discriminate|].
      pose proof (shape_lsubs _ _ _ _ _ _ L2 H1) as Sh'.
      apply shape_unfold in Sh'. destruct Sh' as [hm (C1 & C2 & C3 & C4 & C5)].
      destruct (Forall2_in_r _ _ _ _ C5 H2) as [[c0 e0] [Hce Hok]]. cbn in Hok.
      destruct Hok as (D1 & D2 & D3 & [ed' (D4 & D5 & D6 & D7)] & D8). subst e0 c0.
      rewrite He in D4. injection D4 as <-. cbn [lid] in D7.
      pose proof (R1 _ _ He) as Hrk. rewrite D7, Hl in Hrk. lia. }
  constructor; try assumption.
  - symmetry. exact L1.
  - eapply shape_NoDup_leids; eassumption.
  - intros n. split; [apply (shape_lids_exist _ _ _ _ L2)|]. intros Hn. apply Hcov. apply (g_reach _ G). exact Hn.
  - intros e. split; [apply (shape_leids_exist _ _ _ _ L2)|]. intros He.
    destruct (alookup e (hedges h)) as [ed|] eqn:E; [clear He|congruence].
    destruct (g_edge_listed _ G _ _ E) as [hn [En Hin]].
    assert (In (hleft ed) (lids lt)) as Hl by (apply Hcov; apply (g_reach _ G); congruence).
    destruct (in_lids_lsubs lt None _ Hl) as [p [sub [Hsub Hlid]]].
    pose proof (shape_lsubs _ _ _ _ _ _ L2 Hsub) as Sh. destruct sub as [i nm cm sl]. cbn in Hlid. subst i.
    apply shape_unfold in Sh. destruct Sh as [hn' (A1 & A2 & A3 & A4 & A5)].
    rewrite En in A1. injection A1 as <-.
    destruct (Forall2_in_l _ _ _ _ A5 Hin) as [s [Hs Hok]].
    destruct s as [[[e' ei] ch]|]; cbn [slot_ok fst snd] in Hok.
    + destruct Hok as (_ & B2 & _). subst e'. eapply lsubs_sub_leids; [exact Hsub|]. eapply in_leids_here. exact Hs.
    + exfalso. subst p.
      destruct (lsubs_parent _ _ _ _ _ Hsub) as [[E' _]|(pp & nm' & cm' & sl' & ei' & H1 & H2)]; [discriminate|].
      pose proof (shape_lsubs _ _ _ _ _ _ L2 H1) as Sh'.
      apply shape_unfold in Sh'. destruct Sh' as [hm (C1 & C2 & C3 & C4 & C5)].
      destruct (Forall2_in_r _ _ _ _ C5 H2) as [[c0 e0] [Hce Hok]]. cbn in Hok.
      destruct Hok as (D1 & D2 & D3 & [ed' (D4 & D5 & D6 & D7)] & D8). subst e0 c0.
      rewrite E in D4. injection D4 as <-. pose proof (R1 _ _ E) as Hrk. rewrite D6 in Hrk. lia.
  - intros n Hn. apply (g_fresh_n _ G). eapply shape_lids_exist; eassumption.
  - intros e He. apply (g_fresh_e _ G). eapply shape_leids_exist; eassumption.
Qed.

Theorem Good_iff_Rep h : Good h <-> exists lt, Rep h lt.
Proof. split; [apply Good_Rep|intros [lt R]; eapply Rep_Good; exact R]. Qed.

(** (a): on a good heap the dump succeeds and is a well-formed tree *)
Theorem Good_abs h : Good h -> exists t, abs h = Some t /\ wf t = true.
Proof. intros G. destruct (Good_Rep h G) as [lt R]. eapply Rep_abs_wf. exact R. Qed.
