(** Base lemmas for C05: a small reflexive tactic for [Permutation] goals over [++],
    permutations up to an equivalence, the observables of Spec/Obs.v expressed on the list
    of children ([kids_of]), and the algebra of [cross] / [cross_all]. *)
From Coq Require Import String ZArith QArith Bool Arith Lia List Permutation Setoid Morphisms.
From GT Require Import Base.UTree Spec.Obs Model.Reroot Spec.Unrooted.
Import ListNotations.
Local Close Scope Q_scope.

(** * A reflexive tactic: [Permutation] of two concatenations of the same atoms *)
Inductive pex : Type := PAt (n : nat) | PAp (a b : pex) | PNi.

Fixpoint premove1 (x : nat) (l : list nat) : option (list nat) :=
  match l with
  | [] => None
  | y :: r => if Nat.eqb x y then Some r
              else match premove1 x r with Some r' => Some (y :: r') | None => None end
  end.
Fixpoint permb (l1 l2 : list nat) : bool :=
  match l1 with
  | [] => match l2 with [] => true | _ => false end
  | x :: r => match premove1 x l2 with Some l2' => permb r l2' | None => false end
  end.

Lemma premove1_perm x l l' : premove1 x l = Some l' -> Permutation l (x :: l').
Proof.
  revert l'; induction l as [|y r IH]; simpl; intros l' H; [discriminate|].
  destruct (Nat.eqb x y) eqn:E.
  - apply Nat.eqb_eq in E; subst. inversion H; subst. reflexivity.
  - destruct (premove1 x r) as [r'|]; [|discriminate]. inversion H; subst.
    rewrite (IH r' eq_refl). apply perm_swap.
Qed.

Lemma permb_sound l1 l2 : permb l1 l2 = true -> Permutation l1 l2.
Proof.
  revert l2; induction l1 as [|x r IH]; simpl; intros l2 H.
  - destruct l2; [constructor|discriminate].
  - destruct (premove1 x l2) as [l2'|] eqn:E; [|discriminate].
    apply premove1_perm in E. rewrite E. constructor. auto.
Qed.

Section PermReflect.
  Variable A : Type.
  Variable env : list (list A).
  Fixpoint pden (e : pex) : list A :=
    match e with PAt n => nth n env [] | PAp a b => pden a ++ pden b | PNi => [] end.
  Fixpoint pflat (e : pex) : list nat :=
    match e with PAt n => [n] | PAp a b => pflat a ++ pflat b | PNi => [] end.
  Lemma pden_flat e : pden e = flat_map (fun n => nth n env []) (pflat e).
  Proof.
    induction e; simpl; auto.
    - now rewrite app_nil_r.
    - now rewrite flat_map_app, IHe1, IHe2.
  Qed.
  Lemma perm_by_reflection e1 e2 :
    permb (pflat e1) (pflat e2) = true -> Permutation (pden e1) (pden e2).
  Proof.
    intros H. rewrite !pden_flat. apply Permutation_flat_map, permb_sound, H.
  Qed.
End PermReflect.

Ltac p_inl x l :=
  lazymatch l with
  | @nil _ => constr:(false)
  | @cons _ x _ => constr:(true)
  | @cons _ _ ?r => p_inl x r
  end.
Ltac p_add t acc :=
  let b := p_inl t acc in
  lazymatch b with true => acc | false => constr:(cons t acc) end.
Ltac p_atoms t acc :=
  lazymatch t with
  | @app _ ?a ?b => let acc1 := p_atoms a acc in p_atoms b acc1
  | @nil _ => acc
  | @cons _ ?a ?b => let acc1 := p_add (cons a nil) acc in p_atoms b acc1
  | _ => p_add t acc
  end.
Ltac p_idx x l :=
  lazymatch l with
  | @cons _ x _ => constr:(O)
  | @cons _ _ ?r => let n := p_idx x r in constr:(S n)
  end.
Ltac p_reif t l :=
  lazymatch t with
  | @app _ ?a ?b => let ra := p_reif a l in let rb := p_reif b l in constr:(PAp ra rb)
  | @nil _ => constr:(PNi)
  | @cons _ ?a ?b => let n := p_idx (cons a nil) l in let rb := p_reif b l in constr:(PAp (PAt n) rb)
  | _ => let n := p_idx t l in constr:(PAt n)
  end.
(** solves [Permutation l r] when both sides are built with [++], [::], [[]] from the same atoms *)
Ltac perm :=
  lazymatch goal with
  | |- @Permutation ?A ?l ?r =>
    let at0 := p_atoms l (@nil (list A)) in
    let at1 := p_atoms r at0 in
    let el := p_reif l at1 in
    let er := p_reif r at1 in
    change (Permutation (pden A at1 el) (pden A at1 er));
    apply perm_by_reflection; vm_compute; reflexivity
  end.

Goal forall (a b c : list nat) x, Permutation (a ++ (x :: b) ++ c ++ []) (c ++ [x] ++ (b ++ a)).
Proof. intros. perm. Qed.

(** * Permutation up to an equivalence *)
Section PermRTheory.
  Variable A : Type.
  Variable R : A -> A -> Prop.
  Hypothesis Req : Equivalence R.

  Lemma PermR_refl l : PermR R l l.
  Proof. induction l; constructor; auto. reflexivity. Qed.

  Lemma PermR_sym l l' : PermR R l l' -> PermR R l' l.
  Proof.
    induction 1.
    - constructor.
    - apply PR_skip; auto. now symmetry.
    - apply PR_swap.
    - eapply PR_trans; eauto.
  Qed.

  Lemma PermR_of_perm l l' : Permutation l l' -> PermR R l l'.
  Proof.
    induction 1.
    - constructor.
    - apply PR_skip; auto. reflexivity.
    - apply PR_swap.
    - eapply PR_trans; eauto.
  Qed.

  Lemma PermR_of_Forall2 l l' : Forall2 R l l' -> PermR R l l'.
  Proof. induction 1; constructor; auto. Qed.

  Lemma PermR_app_tail l l' t : PermR R l l' -> PermR R (l ++ t) (l' ++ t).
  Proof.
    induction 1; simpl.
    - apply PermR_refl.
    - apply PR_skip; auto.
    - apply PR_swap.
    - eapply PR_trans; eauto.
  Qed.

  Lemma PermR_app_head h l l' : PermR R l l' -> PermR R (h ++ l) (h ++ l').
  Proof. intros H; induction h; simpl; auto. constructor; auto. reflexivity. Qed.

  Lemma PermR_app l1 l1' l2 l2' :
    PermR R l1 l1' -> PermR R l2 l2' -> PermR R (l1 ++ l2) (l1' ++ l2').
  Proof.
    intros H1 H2. eapply PR_trans; [apply PermR_app_tail, H1 | apply PermR_app_head, H2].
  Qed.

  Lemma PermR_In l l' : PermR R l l' -> forall x, In x l -> exists y, In y l' /\ R x y.
  Proof.
    induction 1; intros z Hz.
    - destruct Hz.
    - destruct Hz as [->|Hz].
      + exists y; split; [now left | auto].
      + destruct (IHPermR z Hz) as [y' [? ?]]. exists y'; split; [now right | auto].
    - exists z; split; [|reflexivity]. simpl in *. tauto.
    - destruct (IHPermR1 z Hz) as [y [Hy Ry]]. destruct (IHPermR2 y Hy) as [y' [Hy' Ry']].
      exists y'; split; auto. etransitivity; eauto.
  Qed.

  Lemma PermR_length l l' : PermR R l l' -> length l = length l'.
  Proof. induction 1; simpl; congruence. Qed.

  Global Instance PermR_Equivalence : Equivalence (PermR R).
  Proof.
    split.
    - intro; apply PermR_refl.
    - intros ? ?; apply PermR_sym.
    - intros ? ? ?; apply PR_trans.
  Qed.
End PermRTheory.

Global Instance pq_eq_Equivalence : Equivalence pq_eq.
Proof.
  split.
  - intros x; split; reflexivity.
  - intros x y [H1 H2]; split; now symmetry.
  - intros x y z [H1 H2] [H3 H4]; split; etransitivity; eauto.
Qed.
Global Instance tq_eq_Equivalence : Equivalence tq_eq.
Proof.
  split.
  - intros x; split; reflexivity.
  - intros x y [H1 H2]; split; now symmetry.
  - intros x y z [H1 H2] [H3 H4]; split; etransitivity; eauto.
Qed.
Global Instance dists_equiv_Equivalence : Equivalence dists_equiv.
Proof. unfold dists_equiv. apply PermR_Equivalence. exact tq_eq_Equivalence. Qed.

Lemma dists_equiv_perm l l' : Permutation l l' -> dists_equiv l l'.
Proof. apply PermR_of_perm; exact tq_eq_Equivalence. Qed.
Lemma dists_equiv_app l1 l1' l2 l2' :
  dists_equiv l1 l1' -> dists_equiv l2 l2' -> dists_equiv (l1 ++ l2) (l1' ++ l2').
Proof. apply PermR_app; exact tq_eq_Equivalence. Qed.
Lemma dists_equiv_Forall2 l l' : Forall2 tq_eq l l' -> dists_equiv l l'.
Proof. apply PermR_of_Forall2. Qed.

(** what [dists_equiv] means entry by entry *)
Lemma dists_equiv_In l l' :
  dists_equiv l l' ->
  forall a b d, In (a, b, d) l -> exists d', In (a, b, d') l' /\ (d == d')%Q.
Proof.
  intros H a b d Hin.
  destruct (PermR_In _ _ tq_eq_Equivalence _ _ H _ Hin) as [[[a' b'] d'] [Hy [E1 E2]]].
  simpl in *. inversion E1; subst. exists d'; auto.
Qed.

(** * Slots and children *)
Local Arguments n_up : simpl never.
Lemma kids_of_app a b : kids_of (a ++ b) = kids_of a ++ kids_of b.
Proof. unfold kids_of. apply flat_map_app. Qed.

Lemma n_up_app a b : n_up (a ++ b) = n_up a + n_up b.
Proof. unfold n_up. now rewrite filter_app, app_length. Qed.

Lemma n_up_cons s r : n_up (s :: r) = (match s with None => 1 | Some _ => 0 end) + n_up r.
Proof. destruct s; reflexivity. Qed.

Lemma length_slots sl : length sl = n_up sl + length (kids_of sl).
Proof.
  induction sl as [|[p|] r IH]; auto; rewrite n_up_cons; simpl; lia.
Qed.

Lemma kids_of_In sl e c : In (Some (e, c)) sl <-> In (e, c) (kids_of sl).
Proof.
  induction sl as [|[p|] r IH]; simpl; [tauto| |].
  - rewrite <- IH. split; intros [H|H]; auto; left; congruence.
  - rewrite <- IH. split; [intros [H|H]; [discriminate|auto] | auto].
Qed.

(** replacing the parent slot: one more child, in place *)
Lemma kids_of_replace_up sl x :
  1 <= n_up sl ->
  exists A B, kids_of sl = A ++ B /\ kids_of (replace_up sl (Some x)) = A ++ x :: B.
Proof.
  induction sl as [|[p|] r IH]; simpl; intros H.
  - unfold n_up in H; simpl in H; lia.
  - rewrite n_up_cons in H. destruct (IH H) as [A [B [E1 E2]]].
    exists (p :: A), B. simpl. now rewrite E1, E2.
  - exists [], (kids_of r). auto.
Qed.

Lemma n_up_replace_up sl x : n_up (replace_up sl (Some x)) = n_up sl - 1.
Proof.
  induction sl as [|[p|] r IH]; [reflexivity| |]; simpl replace_up; rewrite !n_up_cons; simpl; lia.
Qed.

Lemma length_replace_up sl x : length (replace_up sl x) = length sl.
Proof. induction sl as [|[p|] r IH]; simpl; auto. Qed.

Lemma nth_error_replace_up sl x k p :
  nth_error sl k = Some (Some p) -> nth_error (replace_up sl x) k = Some (Some p).
Proof.
  revert k; induction sl as [|[q|] r IH]; intros [|k]; simpl; intros H; try discriminate; auto.
Qed.

(** emptying slot k: that child disappears, one more parent slot *)
Lemma kids_of_set_nth sl k x :
  nth_error sl k = Some (Some x) ->
  exists A B, kids_of sl = A ++ x :: B /\ kids_of (set_nth k None sl) = A ++ B.
Proof.
  revert k; induction sl as [|s r IH]; intros [|k]; simpl; intros H; try discriminate.
  - inversion H; subst. exists [], (kids_of r). auto.
  - destruct (IH _ H) as [A [B [E1 E2]]]. unfold set_nth in *. simpl.
    destruct s as [p|]; simpl.
    + exists (p :: A), B. simpl. now rewrite E1, E2.
    + exists A, B. auto.
Qed.

Lemma n_up_set_nth sl k x :
  nth_error sl k = Some (Some x) -> n_up (set_nth k None sl) = S (n_up sl).
Proof.
  revert k; induction sl as [|s r IH]; intros [|k]; simpl; intros H; try discriminate.
  - inversion H; subst. reflexivity.
  - specialize (IH _ H). unfold set_nth in *. simpl. rewrite !n_up_cons, IH. lia.
Qed.

Lemma length_set_nth {A} k (x : A) l : length (set_nth k x l) = length l.
Proof.
  unfold set_nth. revert l; induction k; intros [|a l]; simpl; auto.
Qed.

Lemma kids_of_drop_up sl : kids_of (drop_up sl) = kids_of sl.
Proof. induction sl as [|[p|] r IH]; simpl; auto. now rewrite IH. Qed.

Lemma n_up_drop_up sl : n_up (drop_up sl) = n_up sl - 1.
Proof.
  induction sl as [|[p|] r IH]; [reflexivity| |]; simpl drop_up; rewrite ?n_up_cons; simpl; lia.
Qed.

Lemma length_drop_up sl : 1 <= n_up sl -> length (drop_up sl) = length sl - 1.
Proof.
  induction sl as [|[p|] r IH]; simpl; intros H.
  - unfold n_up in H; simpl in H; lia.
  - rewrite n_up_cons in H. rewrite IH by exact H.
    assert (1 <= length r) by (rewrite length_slots; simpl in H; lia). lia.
  - lia.
Qed.

(** * Observables on the list of children *)
Definition shift (q : Q) (l : list (string * Q)) : list (string * Q) :=
  map (fun p => (fst p, (q + snd p)%Q)) l.
Definition kD (w : einfo -> Q) (ks : list (einfo * utree)) : list (list (string * Q)) :=
  map (fun p => shift (w (fst p)) (depths w (snd p))) ks.
Definition kpd (w : einfo -> Q) (ks : list (einfo * utree)) : list (string * string * Q) :=
  flat_map (fun p => pairdists w (snd p)) ks.

Lemma leaves_unfold n c sl :
  leaves (UNode n c sl) = match kids_of sl with [] => [n] | _ => kleaves (kids_of sl) end.
Proof.
  simpl. destruct (kids_of sl) eqn:E; auto. rewrite <- E. clear.
  unfold kleaves. induction sl as [|[[e ch]|] r IH]; simpl; auto. now rewrite IH.
Qed.

Lemma depths_unfold w n c sl :
  depths w (UNode n c sl) =
  match kids_of sl with [] => [(n, 0%Q)] | _ => concat (kD w (kids_of sl)) end.
Proof.
  simpl. destruct (kids_of sl) eqn:E; auto. rewrite <- E. clear.
  unfold kD. induction sl as [|[[e ch]|] r IH]; simpl; auto. now rewrite IH.
Qed.

Lemma pairdists_unfold w n c sl :
  pairdists w (UNode n c sl) = cross_all (kD w (kids_of sl)) ++ kpd w (kids_of sl).
Proof.
  simpl. f_equal.
  - f_equal. unfold kD. induction sl as [|[[e ch]|] r IH]; simpl; auto. now rewrite IH.
  - unfold kpd. induction sl as [|[[e ch]|] r IH]; simpl; auto. now rewrite IH.
Qed.

Lemma wf_unfold n c sl :
  wf (UNode n c sl) = Nat.eqb (n_up sl) 0 && forallb (fun p => wf_sub (snd p)) (kids_of sl).
Proof.
  simpl. f_equal. induction sl as [|[[e ch]|] r IH]; simpl; auto. now rewrite IH.
Qed.
Lemma wf_sub_unfold n c sl :
  wf_sub (UNode n c sl) = Nat.eqb (n_up sl) 1 && forallb (fun p => wf_sub (snd p)) (kids_of sl).
Proof.
  simpl. f_equal. induction sl as [|[[e ch]|] r IH]; simpl; auto. now rewrite IH.
Qed.

Lemma kleaves_app a b : kleaves (a ++ b) = kleaves a ++ kleaves b.
Proof. apply flat_map_app. Qed.
Lemma kD_app w a b : kD w (a ++ b) = kD w a ++ kD w b.
Proof. apply map_app. Qed.
Lemma kpd_app w a b : kpd w (a ++ b) = kpd w a ++ kpd w b.
Proof. apply flat_map_app. Qed.

(** observables only look at the children *)
Lemma leaves_kids n c sl n' c' sl' :
  n = n' -> kids_of sl = kids_of sl' -> leaves (UNode n c sl) = leaves (UNode n' c' sl').
Proof. intros -> E. now rewrite !leaves_unfold, E. Qed.
Lemma depths_kids w n c sl n' c' sl' :
  n = n' -> kids_of sl = kids_of sl' -> depths w (UNode n c sl) = depths w (UNode n' c' sl').
Proof. intros -> E. now rewrite !depths_unfold, E. Qed.
Lemma pairdists_kids w n c sl n' c' sl' :
  kids_of sl = kids_of sl' -> pairdists w (UNode n c sl) = pairdists w (UNode n' c' sl').
Proof. intros E. now rewrite !pairdists_unfold, E. Qed.

(** * Algebra of [cross] and [cross_all] *)
Definition symcross (a b : list (string * Q)) : list (string * string * Q) :=
  cross a b ++ cross b a.

Lemma cross_nil_r a : cross a [] = [].
Proof. unfold cross. induction a; simpl; auto. Qed.

Lemma cross_app_l a1 a2 b : cross (a1 ++ a2) b = cross a1 b ++ cross a2 b.
Proof. unfold cross. apply flat_map_app. Qed.

Lemma cross_app_r a b1 b2 : Permutation (cross a (b1 ++ b2)) (cross a b1 ++ cross a b2).
Proof.
  induction a as [|x a IH]; simpl; auto.
  unfold cross in *. simpl. rewrite map_app, IH. perm.
Qed.

Lemma symcross_comm a b : Permutation (symcross a b) (symcross b a).
Proof. unfold symcross. perm. Qed.

Lemma symcross_app_r a b1 b2 :
  Permutation (symcross a (b1 ++ b2)) (symcross a b1 ++ symcross a b2).
Proof. unfold symcross. rewrite cross_app_l, cross_app_r. perm. Qed.

Lemma symcross_app_l a1 a2 b :
  Permutation (symcross (a1 ++ a2) b) (symcross a1 b ++ symcross a2 b).
Proof. unfold symcross. rewrite cross_app_l, cross_app_r. perm. Qed.

Lemma symcross_nil_r a : symcross a [] = [].
Proof. unfold symcross. now rewrite cross_nil_r. Qed.

Lemma cross_all_cons d r :
  Permutation (cross_all (d :: r)) (symcross d (concat r) ++ cross_all r).
Proof.
  simpl. apply Permutation_app_tail.
  induction r as [|a r IH]; simpl.
  - now rewrite symcross_nil_r.
  - rewrite IH, symcross_app_r. reflexivity.
Qed.

Lemma cross_all_perm l l' : Permutation l l' -> Permutation (cross_all l) (cross_all l').
Proof.
  induction 1.
  - reflexivity.
  - simpl. rewrite IHPermutation. apply Permutation_app_tail.
    now apply Permutation_flat_map.
  - simpl. fold (symcross x y). fold (symcross y x). rewrite (symcross_comm x y). perm.
  - etransitivity; eauto.
Qed.

Lemma cross_all_app l1 l2 :
  Permutation (cross_all (l1 ++ l2))
              (cross_all l1 ++ cross_all l2 ++ symcross (concat l1) (concat l2)).
Proof.
  induction l1 as [|d r IH].
  - simpl. fold (symcross [] (concat l2)). unfold symcross. simpl. rewrite cross_nil_r.
    now rewrite app_nil_r.
  - change ((d :: r) ++ l2) with (d :: (r ++ l2)).
    rewrite cross_all_cons, (cross_all_cons d r), IH, concat_app.
    simpl concat. rewrite symcross_app_r, symcross_app_l. perm.
Qed.

(** inserting one element anywhere *)
Lemma cross_all_insert a z b :
  Permutation (cross_all (a ++ z :: b))
              (symcross z (concat (a ++ b)) ++ cross_all (a ++ b)).
Proof.
  rewrite <- cross_all_cons. apply cross_all_perm. perm.
Qed.

(** pointwise [Qeq] *)
Lemma Forall2_flat_map {A B C} (R : B -> C -> Prop) (f : A -> list B) (g : A -> list C) l :
  (forall x, In x l -> Forall2 R (f x) (g x)) -> Forall2 R (flat_map f l) (flat_map g l).
Proof.
  induction l; simpl; intros H; [constructor|].
  apply Forall2_app; auto.
Qed.

Lemma Forall2_map_same {A B C} (R : B -> C -> Prop) (f : A -> B) (g : A -> C) l :
  (forall x, In x l -> R (f x) (g x)) -> Forall2 R (map f l) (map g l).
Proof. induction l; simpl; intros H; constructor; auto. Qed.

(** moving an edge weight from one side of a cross product to the other *)
Lemma cross_shift_move q x y :
  Forall2 tq_eq (cross (shift q x) y) (cross x (shift q y)).
Proof.
  unfold cross, shift. rewrite flat_map_concat_map, map_map, <- flat_map_concat_map.
  apply Forall2_flat_map. intros a _. rewrite map_map.
  apply Forall2_map_same. intros b _. split; simpl; auto. ring.
Qed.

Lemma symcross_shift_move q x y :
  dists_equiv (symcross (shift q x) y) (symcross x (shift q y)).
Proof.
  unfold symcross. apply dists_equiv_app; apply dists_equiv_Forall2.
  - apply cross_shift_move.
  - generalize (cross_shift_move q y x). clear. intros H.
    induction H; constructor; auto. symmetry; auto.
Qed.
