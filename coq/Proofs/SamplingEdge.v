(** C20, degenerate sizes of the selection loops: k = 0, k >= n, no item. *)
From Coq Require Import Bool Arith Lia List.
From GT Require Import Model.Reroot Model.Sampling Spec.Counting Proofs.SamplingBase.
Import ListNotations.

(** k = 0: nothing is selected, one draw per item is consumed and ignored *)
Lemma res_loop_k0 {A} bnd : forall (xs : list A) i cs,
  length cs = length xs -> res_loop bnd 0 i xs cs [] = Some [].
Proof.
  induction xs as [|x xs IH]; intros i cs H; simpl.
  - reflexivity.
  - destruct cs as [|j cs]; [discriminate|]. simpl in H. apply IH. lia.
Qed.

Theorem reservoir_k0 {A} bnd (xs : list A) cs :
  in_bounds cs (reservoir_bounds bnd 0 (length xs)) -> reservoir bnd 0 xs cs = Some [].
Proof.
  intros H. apply in_bounds_length in H. unfold reservoir_bounds in H.
  rewrite map_length, seq_length, Nat.sub_0_r in H. unfold reservoir. simpl. now apply res_loop_k0.
Qed.

(** k >= n: no draw at all; every item is selected, in order *)
Lemma set_nth_end {A} (x : A) n l r o : length l = n -> set_nth n x (l ++ o :: r) = l ++ x :: r.
Proof.
  intros <-. unfold set_nth. rewrite firstn_app, firstn_all, Nat.sub_diag. simpl. rewrite app_nil_r.
  rewrite skipn_app, skipn_all, Nat.sub_diag. reflexivity.
Qed.

Lemma res_loop_fill {A} bnd k : forall (xs : list A) done,
  length done + length xs <= k ->
  res_loop bnd k (length done) xs [] (map Some done ++ repeat None (k - length done))
  = Some (map Some (done ++ xs)).
Proof.
  induction xs as [|x xs IH]; intros done H; simpl in *.
  - rewrite app_nil_r. destruct (Nat.ltb_spec (length done) k).
    + rewrite <- (map_length Some done) at 1. rewrite firstn_app, firstn_all, Nat.sub_diag. simpl. now rewrite app_nil_r.
    + replace (k - length done) with 0 by lia. simpl. now rewrite app_nil_r.
  - destruct (Nat.ltb_spec (length done) k); [|lia].
    replace (k - length done) with (S (k - S (length done))) by lia. cbn [repeat].
    rewrite set_nth_end by apply map_length.
    specialize (IH (done ++ [x])). rewrite app_length in IH. simpl in IH.
    rewrite map_app in IH. simpl in IH. rewrite <- !app_assoc in IH. simpl in IH.
    replace (length done + 1) with (S (length done)) in IH by lia.
    rewrite IH by lia. reflexivity.
Qed.

Theorem reservoir_all {A} bnd k (xs : list A) : length xs <= k ->
  reservoir_bounds bnd k (length xs) = [] /\ reservoir bnd k xs [] = Some (map Some xs).
Proof.
  intros H. split.
  - unfold reservoir_bounds. replace (length xs - k) with 0 by lia. reflexivity.
  - unfold reservoir. pose proof (res_loop_fill bnd k xs [] H) as E. simpl in E.
    rewrite Nat.sub_0_r in E. exact E.
Qed.

(** with replacement, k = 0: nothing is drawn, nothing selected *)
Theorem sample_replace_k0 {A} (xs : list A) :
  replace_bounds 0 (length xs) = [] /\ sample_replace 0 xs [] = Some [].
Proof.
  split.
  - unfold replace_bounds. induction (seq 0 (length xs)); simpl; auto.
  - unfold sample_replace. induction xs; simpl; auto.
Qed.

(** with replacement, no item: every slot keeps Go's zero value (a nil tree; the command
    refuses an empty input before the loop: readTrees returns EOF) *)
Theorem sample_replace_no_item {A} k : @sample_replace A k [] [] = Some (repeat None k).
Proof. reflexivity. Qed.

(** without replacement, no item: the empty selection *)
Theorem reservoir_no_item {A} bnd k : @reservoir A bnd k [] [] = Some [].
Proof. destruct k; reflexivity. Qed.
