(** C13, the conversion clauses on the common domain, assembled: for every list of trees that
    are inside C01's quantifier, carry no comment and no p-value, have Nexus labels as tip
    names, distinct node names, inner names that are neither labels nor numbers, and all the
    same taxa -- Newick -> Nexus (with and without translate table) -> Newick returns the same
    roses in order under the names tree<id>, and Newick -> PhyloXML -> Newick returns shape,
    names, lengths and supports of every tree. *)
From Coq Require Import String Ascii ZArith QArith Bool Arith Lia List Permutation.
From GT Require Import Base.Sexp Base.UTree Spec.Obs Spec.NewickSpec Model.Newick Model.Nexus Model.Clade
     Proofs.NewickCanon Proofs.NewickTheorem Proofs.Clade
     Proofs.NexusWords Proofs.NexusRoundTrip Proofs.NexusRoundTripMain Proofs.NexusRoundTripC01 Proofs.NexusRoundTripTr
     Proofs.NexusNewickText Proofs.NexusDomain Proofs.NexusProperty Proofs.NexusTranslate Proofs.NexusTranslateProperty.
Import ListNotations.
Local Close Scope Q_scope.
Local Open Scope string_scope.

(** no p-value on any branch *)
Fixpoint nopv_sub (e : einfo) (t : utree) : bool :=
  match t with
  | UNode _ _ sl =>
    qeqb (epv e) nilv &&
    forallb (fun s => match s with Some (e', ch) => nopv_sub e' ch | None => true end) sl
  end.
Definition nopv_root (t : utree) : bool :=
  match t with
  | UNode _ _ sl => forallb (fun s => match s with Some (e', ch) => nopv_sub e' ch | None => true end) sl
  end.

Section PX.
  Variable numeric : string -> bool.
  Variable numok : Q -> bool.

  Lemma nilb_is_nil : forall {A} (l : list A), nilb l = is_nil l.
  Proof. intros A [|x r]; reflexivity. Qed.

  Lemma tip_name_nonempty_ok : forall n, tip_name_ok n = true -> String.eqb n "" = false.
  Proof.
    intros n H. unfold tip_name_ok in H. repeat (apply andb_true_iff in H; destruct H as [H ?]).
    apply negb_true_iff in H. exact H.
  Qed.

  Lemma edge_ok_named : forall e n, edge_ok numok e n = true -> String.eqb n "" = false ->
      qeqb (esup e) nilv = true.
  Proof.
    intros e n H NE. unfold edge_ok in H. rewrite NE in H.
    destruct (num_ok numok (elen e)); [|discriminate H]. destruct (num_ok numok (esup e)); [|discriminate H].
    destruct (num_ok numok (epv e)); [|discriminate H]. simpl in H.
    unfold Newick.present in H. destruct (qeqb (esup e) nilv); [reflexivity|simpl in H; discriminate H].
  Qed.

  Lemma px_of_wfN_sub : forall t e,
      wfN_sub numeric numok e t = true -> plain_sub e t = true -> nopv_sub e t = true ->
      px_plain_edge e t = true /\ px_plain t = true /\ named t = true /\ wf_sub t = true.
  Proof.
    induction t as [n c sl IH] using utree_ind'. intros e W P V.
    pose proof (wfN_sub_inv numeric numok e n c sl W) as (Hup & Hname & _ & He & _).
    cbn [plain_sub] in P. repeat (apply andb_true_iff in P; destruct P as [P ?]).
    rename P into Pc, H1 into Pe, H0 into Pn, H into Pk.
    cbn [nopv_sub] in V. apply andb_true_iff in V. destruct V as [V1 Vk].
    cbn [wfN_sub] in W. repeat (apply andb_true_iff in W; destruct W as [W ?]).
    rename H into Wk.
    pose proof (n_up_length sl) as L. rewrite Hup in L.
    assert (K : forallb (fun s : slot => match s with Some (e', ch) => px_plain_edge e' ch && px_plain ch | None => true end) sl = true /\
                forallb (fun s : slot => match s with Some (_, c0) => named c0 | None => true end) sl = true /\
                forallb (fun s : slot => match s with Some (_, c0) => wf_sub c0 | None => true end) sl = true).
    { clear - IH Wk Pk Vk. induction sl as [|[[e' ch]|] r IHr]; simpl in *; [auto| |].
      - inversion IH as [|? ? Hc Hr]; subst.
        apply andb_true_iff in Wk. destruct Wk as [W1 W2].
        apply andb_true_iff in Pk. destruct Pk as [P1 P2].
        apply andb_true_iff in Vk. destruct Vk as [V1 V2].
        destruct (Hc e' W1 P1 V1) as (A & B & C & D). destruct (IHr Hr W2 P2 V2) as (A' & B' & C').
        rewrite A, B, C, D, A', B', C'. auto.
      - inversion IH as [|? ? Hc Hr]; subst. apply IHr; assumption. }
    destruct K as (K1 & K2 & K3).
    split; [|split; [|split]].
    - unfold px_plain_edge. rewrite V1. rewrite <- nilb_is_nil, Pe. cbn [andb].
      unfold degree. cbn [uslots]. destruct (Nat.eqb (length sl) 1) eqn:E; [|reflexivity].
      apply Nat.eqb_eq in E. destruct (kids_of sl) as [|k r] eqn:Kd; [|simpl in L; lia].
      pose proof (tip_name_nonempty_ok n Hname) as NE.
      exact (edge_ok_named e n He NE).
    - cbn [px_plain]. rewrite <- nilb_is_nil, Pc, K1. reflexivity.
    - cbn [named]. rewrite K2, andb_true_r.
      destruct (kids_of sl) as [|k r] eqn:Kd; [|reflexivity].
      simpl. rewrite (tip_name_nonempty_ok n Hname). reflexivity.
    - cbn [wf_sub]. rewrite Hup, K3. reflexivity.
  Qed.

  Lemma px_of_wfN : forall t,
      wfN numeric numok t = true -> plain_root t = true -> nopv_root t = true ->
      wf t = true /\ named t = true /\ px_plain t = true.
  Proof.
    intros [n c sl] W P V.
    pose proof (wfN_inv numeric numok n c sl W) as (Hup & Hlen & _).
    cbn [plain_root] in P. repeat (apply andb_true_iff in P; destruct P as [P ?]).
    rename P into Pc, H into Pk.
    cbn [nopv_root] in V.
    cbn [wfN] in W. repeat (apply andb_true_iff in W; destruct W as [W ?]).
    rename H into Wk.
    assert (K : forallb (fun s : slot => match s with Some (e', ch) => px_plain_edge e' ch && px_plain ch | None => true end) sl = true /\
                forallb (fun s : slot => match s with Some (_, c0) => named c0 | None => true end) sl = true /\
                forallb (fun s : slot => match s with Some (_, c0) => wf_sub c0 | None => true end) sl = true).
    { clear - Wk Pk V. induction sl as [|[[e' ch]|] r IHr]; simpl in *; [auto| |].
      - apply andb_true_iff in Wk. destruct Wk as [W1 W2].
        apply andb_true_iff in Pk. destruct Pk as [P1 P2].
        apply andb_true_iff in V. destruct V as [V1 V2].
        destruct (px_of_wfN_sub ch e' W1 P1 V1) as (A & B & C & D). destruct (IHr W2 P2 V2) as (A' & B' & C').
        rewrite A, B, C, D, A', B', C'. auto.
      - apply IHr; assumption. }
    destruct K as (K1 & K2 & K3).
    split; [|split].
    - cbn [wf]. rewrite Hup, K3. reflexivity.
    - cbn [named]. rewrite K2, andb_true_r.
      destruct (kids_of sl); [simpl in Hlen; lia|reflexivity].
    - cbn [px_plain]. rewrite <- nilb_is_nil, Pc, K1. reflexivity.
  Qed.
End PX.

Section C13.
  Variable fmt : Q -> string.
  Variable numeric : string -> bool.
  Variable parse_num : string -> option Q.
  Variable numok : Q -> bool.
  Hypothesis SC : strconv_ok fmt numeric parse_num numok.
  Hypothesis fmt_wchar : forall x, numok x = true -> all_chars wchar (fmt x) = true.

  (** the common domain for one tree of the list whose sorted taxon labels are [labels] *)
  Definition c13_domain (labels : list string) (t : utree) : Prop :=
    in_domain_tr numeric numok labels t /\ nopv_root t = true.

  Theorem c13_conversions : forall (l : list (nat * utree)),
      (Z.of_nat (length (final_map l [])) < two63)%Z ->
      Forall (fun it => c13_domain (labels_of l) (snd it)) l ->
      (forall translate : bool,
          exists ts',
            nexus_parse (np_newick numeric parse_num) (write_nexus (Newick.write fmt) translate l) =
            Nexus.POk (mkDoc (combine (map (fun it => "tree" ++ itoa (fst it)) l) ts') false) /\
            Forall2 (fun it t' => rose_eqb (rose_of t') (rose_of (snd it)) = true) l ts') /\
      Forall (fun it => exists t', clade_to_tree (write_clade None (snd it)) = inl t' /\
                                   rose_eqb (rose_of t') (rose_of (snd it)) = true) l.
  Proof.
    intros l Hn HD. split.
    - intros [|].
      + apply (nexus_round_trip_translate_domain fmt numeric parse_num numok SC fmt_wchar l Hn).
        eapply Forall_impl; [|exact HD]. intros it [D _]. exact D.
      + apply (nexus_round_trip_domain fmt numeric parse_num numok SC fmt_wchar l Hn).
        eapply Forall_impl; [|exact HD]. intros it [[D _] _]. exact D.
    - eapply Forall_impl; [|exact HD]. intros it [[[W [P _]] _] V].
      destruct (px_of_wfN numeric numok (snd it) W P V) as (A & B & C).
      apply clade_round_trip_same_tree; assumption.
  Qed.
End C13.

(** the assumption on printed numbers, reduced to what strconv_ok does not already say: no '='
    (FormatFloat(x,'f',-1,64) prints digits, '.', '-') *)
Lemma wchar_of_num_char : forall c, num_char c = true -> Ascii.eqb c "=" = false -> wchar c = true.
Proof.
  intros [b0 b1 b2 b3 b4 b5 b6 b7] H E.
  destruct b0, b1, b2, b3, b4, b5, b6, b7; try reflexivity; try discriminate H; try discriminate E.
Qed.

Section C13'.
  Variable fmt : Q -> string.
  Variable numeric : string -> bool.
  Variable parse_num : string -> option Q.
  Variable numok : Q -> bool.
  Hypothesis SC : strconv_ok fmt numeric parse_num numok.
  Hypothesis fmt_noeq : forall x, numok x = true -> all_chars (fun c => negb (Ascii.eqb c "=")) (fmt x) = true.

  Lemma fmt_wchar_of_noeq : forall x, numok x = true -> all_chars wchar (fmt x) = true.
  Proof.
    intros x H. pose proof (h_fmt_chars _ _ _ _ SC x H) as C. pose proof (fmt_noeq x H) as E.
    induction (fmt x) as [|c r IH]; [reflexivity|]. simpl in *.
    apply andb_true_iff in C. destruct C as [C1 C2]. apply andb_true_iff in E. destruct E as [E1 E2].
    apply negb_true_iff in E1. rewrite (wchar_of_num_char c C1 E1), (IH C2 E2). reflexivity.
  Qed.

  Theorem c13_conversions_strconv : forall (l : list (nat * utree)),
      (Z.of_nat (length (final_map l [])) < two63)%Z ->
      Forall (fun it => c13_domain numeric numok (labels_of l) (snd it)) l ->
      (forall translate : bool,
          exists ts',
            nexus_parse (np_newick numeric parse_num) (write_nexus (Newick.write fmt) translate l) =
            Nexus.POk (mkDoc (combine (map (fun it => "tree" ++ itoa (fst it)) l) ts') false) /\
            Forall2 (fun it t' => rose_eqb (rose_of t') (rose_of (snd it)) = true) l ts') /\
      Forall (fun it => exists t', clade_to_tree (write_clade None (snd it)) = inl t' /\
                                   rose_eqb (rose_of t') (rose_of (snd it)) = true) l.
  Proof. exact (c13_conversions fmt numeric parse_num numok SC fmt_wchar_of_noeq). Qed.
End C13'.
