(** C07, non-finite numbers.  The Go run may carry NaN, +Inf or -Inf as a branch length, a support or
    a threshold; the model and the judge are over the rationals.  The generator replaces such a value
    by a finite placeholder chosen on the same side of the comparison.  This file states that choice:
    over a tiny model of IEEE-754 comparisons on extended values, the comparison with the non-finite
    value decides as the exact rational comparison with the placeholder. *)
From Coq Require Import QArith Bool Lia.
Local Open Scope Q_scope.

Inductive ext : Type := Fin (q : Q) | NaN | PInf | NInf.

(** IEEE-754 [x <= y] and [x < y] (false as soon as one side is NaN) *)
Definition ext_le (x y : ext) : bool :=
  match x, y with
  | NaN, _ | _, NaN => false
  | NInf, _ => true
  | _, PInf => true
  | PInf, _ => false
  | _, NInf => false
  | Fin a, Fin b => Qle_bool a b
  end.
Definition ext_lt (x y : ext) : bool :=
  match x, y with
  | NaN, _ | _, NaN => false
  | PInf, _ => false
  | _, NInf => false
  | NInf, _ => true
  | _, PInf => true
  | Fin a, Fin b => negb (Qle_bool b a)
  end.

(** placeholders used by driver/props/c07.py *)
Definition len_placeholder (v : ext) (t : Q) : Q :=
  match v with NaN | PInf => t + 1 | NInf => 0 | Fin q => q end.
Definition sup_placeholder (v : ext) (s : Q) : Q :=
  match v with NaN | PInf => s + 1 | NInf => 0 | Fin q => q end.
(** rational thresholds shown to the judge for a non-finite threshold *)
Definition thr_placeholder (v : ext) : Q :=
  match v with NaN | NInf => -2 | PInf => 1000000 | Fin q => q end.

Lemma Qle_bool_false_lt a b : b < a -> Qle_bool a b = false.
Proof.
  intros H. destruct (Qle_bool a b) eqn:E; auto. apply Qle_bool_iff in E.
  exfalso. apply (Qlt_irrefl b). eapply Qlt_le_trans; eauto.
Qed.

(** a non-finite LENGTH against a finite threshold t: [e.Length() <= t] *)
Theorem nonfinite_length_decides v t :
  (v = NInf -> 0 <= t) ->
  ext_le v (Fin t) = Qle_bool (len_placeholder v t) t.
Proof.
  intros H. destruct v; simpl.
  - reflexivity.
  - symmetry. apply Qle_bool_false_lt. rewrite <- (Qplus_0_r t) at 1. apply Qplus_lt_r. reflexivity.
  - symmetry. apply Qle_bool_false_lt. rewrite <- (Qplus_0_r t) at 1. apply Qplus_lt_r. reflexivity.
  - symmetry. apply Qle_bool_iff. now apply H.
Qed.

(** a non-finite SUPPORT against a finite threshold s: [e.Support() < s] (the support is present) *)
Theorem nonfinite_support_decides v s :
  (v = NInf -> 0 < s) ->
  ext_lt v (Fin s) = negb (Qle_bool s (sup_placeholder v s)).
Proof.
  intros H. destruct v; simpl.
  - reflexivity.
  - symmetry. apply negb_false_iff. apply Qle_bool_iff. rewrite <- (Qplus_0_r s) at 1. apply Qplus_le_r. discriminate.
  - symmetry. apply negb_false_iff. apply Qle_bool_iff. rewrite <- (Qplus_0_r s) at 1. apply Qplus_le_r. discriminate.
  - symmetry. apply negb_true_iff. apply Qle_bool_false_lt. now apply H.
Qed.

(** a finite length x (>= -1: a length or the absent sentinel) against a non-finite THRESHOLD *)
Theorem nonfinite_threshold_decides x v :
  -1 <= x -> x <= 1000000 -> (forall q, v <> Fin q) ->
  ext_le (Fin x) v = Qle_bool x (thr_placeholder v).
Proof.
  intros H1 H2 Hv. destruct v; simpl.
  - exfalso. now apply (Hv q).
  - symmetry. apply Qle_bool_false_lt. eapply Qlt_le_trans; [|exact H1]. reflexivity.
  - symmetry. now apply Qle_bool_iff.
  - symmetry. apply Qle_bool_false_lt. eapply Qlt_le_trans; [|exact H1]. reflexivity.
Qed.

(** a present support x (>= 0) against a non-finite support threshold: [x < s] *)
Theorem nonfinite_sup_threshold_decides x v :
  0 <= x -> x < 1000000 -> (forall q, v <> Fin q) ->
  ext_lt (Fin x) v = negb (Qle_bool (thr_placeholder v) x).
Proof.
  intros H1 H2 Hv. destruct v; simpl.
  - exfalso. now apply (Hv q).
  - symmetry. apply negb_false_iff. apply Qle_bool_iff. eapply Qle_trans; [|exact H1]. discriminate.
  - symmetry. apply negb_true_iff. now apply Qle_bool_false_lt.
  - symmetry. apply negb_false_iff. apply Qle_bool_iff. eapply Qle_trans; [|exact H1]. discriminate.
Qed.

(** NaN never satisfies a criterion, on either side *)
Theorem nan_never : forall x, ext_le NaN x = false /\ ext_le x NaN = false /\ ext_lt NaN x = false /\ ext_lt x NaN = false.
Proof. intros x. destruct x; repeat split; reflexivity. Qed.
