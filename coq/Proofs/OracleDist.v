(** From multiset statements on [pairdists] to the matrix observables the judges use:
    [ssort] is invariant under permutation; with distinct tip names a look-up in [pairdists] is
    determined by membership; hence [dist_matrix] of a tree whose pair distances are those of
    another tree restricted to a set of tips is the corresponding sub-matrix. *)
From Coq Require Import String ZArith QArith Bool Arith Lia List Permutation Sorted Setoid Morphisms.
From GT Require Import Base.UTree Spec.Obs Spec.Induced Model.Reroot Spec.Unrooted Proofs.RerootBase Proofs.PruneBase
     Proofs.PairKeys.
From GT Require Proofs.MapOrder.
Import ListNotations.
Local Close Scope Q_scope.
Local Arguments leaves : simpl never.
Local Arguments pairdists : simpl never.

(** * [Obs.ssort] *)
Notation sle := MapOrder.sle.

Lemma leb_sle a b : String.leb a b = true <-> sle a b.
Proof.
  unfold String.leb, MapOrder.sle. destruct (String.compare a b); split; intros H; try congruence; auto; discriminate.
Qed.
Lemma leb_false_sle a b : String.leb a b = false -> sle b a.
Proof.
  intros H. destruct (MapOrder.sle_total a b) as [H1|H1]; auto.
  apply leb_sle in H1. congruence.
Qed.

Lemma minsert_perm x l : Permutation (x :: l) (minsert x l).
Proof.
  induction l as [|y r IH]; simpl; auto. destruct (String.leb x y); auto.
  etransitivity; [apply perm_swap|]. now constructor.
Qed.
Lemma ssort_perm l : Permutation l (Obs.ssort l).
Proof.
  induction l as [|x r IH]; simpl; auto.
  etransitivity; [constructor; exact IH|]. apply minsert_perm.
Qed.
Lemma minsert_sorted x l : StronglySorted sle l -> StronglySorted sle (minsert x l).
Proof.
  induction 1 as [|y r Hr IH Hy]; simpl; [repeat constructor|].
  destruct (String.leb x y) eqn:E.
  - apply leb_sle in E. constructor; [constructor; assumption|]. constructor; auto.
    eapply Forall_impl; [|exact Hy]. intros z Hz. eapply MapOrder.sle_trans; eauto.
  - apply leb_false_sle in E. constructor; auto.
    eapply Permutation_Forall; [apply minsert_perm|]. constructor; auto.
Qed.
Lemma ssort_sorted l : StronglySorted sle (Obs.ssort l).
Proof. induction l as [|x r IH]; simpl; [constructor|now apply minsert_sorted]. Qed.

Theorem ssort_eq_perm l l' : Permutation l l' -> Obs.ssort l = Obs.ssort l'.
Proof.
  intros H. apply MapOrder.sorted_perm_unique; try apply ssort_sorted.
  rewrite <- (ssort_perm l), <- (ssort_perm l'). exact H.
Qed.

Lemma list_eqb_refl_string l : list_eqb String.eqb l l = true.
Proof. induction l; simpl; auto. now rewrite String.eqb_refl, IHl. Qed.

(** * look-ups *)
Definition pkey (a b : string) (p : string * string * Q) : bool :=
  String.eqb (fst (fst p)) a && String.eqb (snd (fst p)) b.
Definition lookup (pd : list (string * string * Q)) (a b : string) : option Q :=
  match find (pkey a b) pd with Some p => Some (snd p) | None => None end.

Lemma find_pair_unique pd a b d :
  NoDup (keys pd) -> In (a, b, d) pd -> find (pkey a b) pd = Some (a, b, d).
Proof.
  induction pd as [|[[a' b'] d'] pd IH]; simpl; intros Hn Hin; [tauto|].
  inversion Hn as [|? ? Hk Hn0]; subst. unfold pkey at 1. simpl.
  destruct Hin as [E|Hin].
  - inversion E; subst. now rewrite !String.eqb_refl.
  - destruct (String.eqb a' a && String.eqb b' b) eqn:Ek; [|auto].
    apply andb_true_iff in Ek. destruct Ek as [E1 E2]. apply String.eqb_eq in E1, E2. subst.
    exfalso. apply Hk. unfold keys. apply in_map_iff. exists (a, b, d). auto.
Qed.

Lemma find_pair_in pd a b p : find (pkey a b) pd = Some p -> In p pd /\ fst p = (a, b).
Proof.
  intros H. apply find_some in H. destruct H as [H1 H2]. unfold pkey in H2.
  apply andb_true_iff in H2. destruct H2 as [E1 E2]. apply String.eqb_eq in E1, E2.
  split; auto. destruct p as [[x y] d]. simpl in *. congruence.
Qed.

Lemma dist_matrix_lookup w t :
  dist_matrix w t =
  map (fun a => map (fun b => if String.eqb a b then Some 0%Q else lookup (pairdists w t) a b) (Obs.ssort (leaves t)))
      (Obs.ssort (leaves t)).
Proof. reflexivity. Qed.

Lemma dist_opt_lookup w t a b :
  dist_opt w t a b =
  if String.eqb a b then (if smem a (leaves t) then Some 0%Q else None) else lookup (pairdists w t) a b.
Proof. reflexivity. Qed.

Lemma smem_true x l : In x l -> smem x l = true.
Proof. intros H. unfold smem. apply existsb_exists. exists x. split; auto. apply String.eqb_refl. Qed.

(** entries of a tree whose pair distances are a restriction of those of another *)
Lemma lookup_restrict (k : string -> bool) pd pd' a b :
  NoDup (keys pd) -> NoDup (keys pd') -> dists_equiv pd' (fP k pd) ->
  k a = true -> k b = true ->
  oq_eqb (lookup pd' a b) (lookup pd a b) = true.
Proof.
  intros Hn Hn' He Ha Hb. unfold lookup.
  destruct (find (pkey a b) pd') as [p'|] eqn:E'.
  - destruct (find_pair_in _ _ _ _ E') as [Hin Hk]. destruct p' as [[x y] d']. simpl in Hk. inversion Hk; subst.
    destruct (dists_equiv_In _ _ He _ _ _ Hin) as [d [Hd Hq]].
    unfold fP in Hd. apply filter_In in Hd. destruct Hd as [Hd _].
    rewrite (find_pair_unique pd a b d Hn Hd). simpl. unfold qeqb. now apply Qeq_bool_iff.
  - destruct (find (pkey a b) pd) as [p|] eqn:E; [|reflexivity]. exfalso.
    destruct (find_pair_in _ _ _ _ E) as [Hin Hk]. destruct p as [[x y] d]. simpl in Hk. inversion Hk; subst.
    assert (Hf : In (a, b, d) (fP k pd)).
    { unfold fP. apply filter_In. split; auto. simpl. now rewrite Ha, Hb. }
    symmetry in He. destruct (dists_equiv_In _ _ He _ _ _ Hf) as [d' [Hd' _]].
    generalize (find_none _ _ E' _ Hd'). unfold pkey. simpl. now rewrite !String.eqb_refl.
Qed.

Lemma list_eqb_map2 {A B} (f : B -> B -> bool) (g h : A -> B) l :
  (forall x, In x l -> f (g x) (h x) = true) -> list_eqb f (map g l) (map h l) = true.
Proof.
  induction l as [|x l IH]; simpl; intros H; auto.
  rewrite H by auto. rewrite IH; auto.
Qed.

(** the sub-matrix theorem *)
Theorem induced_dists_of_restriction (k : string -> bool) t t' :
  NoDup (leaves t) ->
  Permutation (leaves t') (filter k (leaves t)) ->
  dists_equiv (pairdists len0 t') (fP k (pairdists len0 t)) ->
  induced_dists t t' (Obs.ssort (filter k (leaves t))) = true.
Proof.
  intros Hn Hl Hd. unfold induced_dists, matrix_eqb.
  assert (Hn' : NoDup (leaves t')).
  { eapply Permutation_NoDup; [symmetry; exact Hl|]. now apply NoDup_filter. }
  rewrite dist_matrix_lookup, (ssort_eq_perm _ _ Hl). unfold restrict_dists.
  set (R := Obs.ssort (filter k (leaves t))).
  assert (HR : forall a, In a R -> k a = true /\ In a (leaves t)).
  { intros a Ha. unfold R in Ha.
    apply (Permutation_in a (Permutation_sym (ssort_perm (filter k (leaves t))))) in Ha.
    apply filter_In in Ha. tauto. }
  apply list_eqb_map2. intros a Ha. apply list_eqb_map2. intros b Hb.
  rewrite dist_opt_lookup. destruct (HR a Ha) as [Ka La]. destruct (HR b Hb) as [Kb Lb].
  destruct (String.eqb a b).
  - rewrite smem_true by auto. reflexivity.
  - apply (lookup_restrict k); auto.
    + apply (pairdists_keys len0 t Hn).
    + apply (pairdists_keys len0 t' Hn').
Qed.

(** same tips, same pair distances: same matrix *)
Theorem dist_matrix_of_equiv t t' :
  NoDup (leaves t) -> Permutation (leaves t') (leaves t) ->
  dists_equiv (pairdists len0 t') (pairdists len0 t) ->
  matrix_eqb (dist_matrix len0 t) (dist_matrix len0 t') = true.
Proof.
  intros Hn Hl Hd. unfold matrix_eqb.
  assert (Hn' : NoDup (leaves t')) by (eapply Permutation_NoDup; [symmetry; exact Hl|auto]).
  rewrite !dist_matrix_lookup, (ssort_eq_perm _ _ Hl).
  apply list_eqb_map2. intros a Ha. apply list_eqb_map2. intros b Hb.
  destruct (String.eqb a b); [reflexivity|].
  assert (E : oq_eqb (lookup (pairdists len0 t') a b) (lookup (pairdists len0 t) a b) = true).
  { apply (lookup_restrict (fun _ => true)); auto.
    - apply (pairdists_keys len0 t Hn).
    - apply (pairdists_keys len0 t' Hn').
    - rewrite fP_id; auto. }
  destruct (lookup (pairdists len0 t') a b), (lookup (pairdists len0 t) a b); simpl in *; try discriminate; auto.
  unfold qeqb in *. apply Qeq_bool_iff in E. apply Qeq_bool_iff. now symmetry.
Qed.
