(** ReadMultiTrees' producer and its consumers (Model/PoolFeed.v): with blocking sends the
    consumer side receives exactly the produced sequence, error record included, for every
    interleaving, capacity and number of consumers; with the non-blocking send of the error
    record the record can be lost (and nothing else can go wrong). *)
From Coq Require Import Bool Arith Lia List.
From GT Require Import Model.Pool Model.PoolFeed Proofs.Pool.
Import ListNotations.

Local Arguments fsrc {item} _.
Local Arguments ferr {item} _.
Local Arguments fclosed {item} _.
Local Arguments fchan {item} _.
Local Arguments fgot {item} _.
Local Arguments fcons {item} _.
Local Arguments mkF {item}.
Local Arguments fproducer_step {item}.
Local Arguments fconsumer_step {item}.
Local Arguments fstep {item}.
Local Arguments frun {item}.
Local Arguments finit {item}.
Local Arguments ffinished {item} _.
Local Arguments produced {item}.

Definition opt_list {A} (o : option A) : list A := match o with Some e => [e] | None => [] end.

Lemma not_all_true (l : list bool) :
  forallb (fun b => b) l = false -> exists l1 l2, l = l1 ++ false :: l2.
Proof.
  induction l as [|b l IH]; simpl; [discriminate|].
  destruct b; simpl.
  - intros H. destruct (IH H) as (l1 & l2 & ->). exists (true :: l1), l2. reflexivity.
  - intros _. exists [], l. reflexivity.
Qed.

Section FeedProofs.
  Variable item : Type.
  Variable c : nat.
  Variable blocking_err : bool.

  Local Notation state := (fst_ item).
  Local Notation stepf := (fstep c blocking_err).
  Local Notation runf := (frun c blocking_err).

  Variable items : list item.
  Variable err : option item.
  Variable k : nat.

  (** [dropped]: the error record has been discarded by the non-blocking send *)
  Record finv (s : state) : Prop := mkFI {
    fi_seq : exists dropped : bool,
        (dropped = true -> blocking_err = false /\ err <> None /\ ferr s = None)
        /\ (ferr s = None \/ ferr s = err)
        /\ fgot s ++ fchan s ++ fsrc s ++ opt_list (ferr s)
           = items ++ (if dropped then [] else opt_list err);
    fi_closed : fclosed s = true -> fsrc s = [] /\ ferr s = None;
    fi_exit : In true (fcons s) -> fclosed s = true /\ fchan s = [];
    fi_len : length (fcons s) = k;
    fi_cap : length (fchan s) <= c
  }.

  Lemma finv_init : finv (finit items err k).
  Proof.
    split; simpl.
    - exists false. split; [discriminate|]. split; [right; reflexivity|reflexivity].
    - discriminate.
    - intros H. apply repeat_spec in H. discriminate.
    - apply repeat_length.
    - lia.
  Qed.

  Lemma finv_step s a : finv s -> finv (stepf s a).
  Proof.
    intros Hs. pose proof Hs as [(d & Hd & Hfe & Hseq) Hc He Hl Hcap].
    assert (Hno : In true (fcons s) -> fsrc s = [] /\ ferr s = None /\ fchan s = []).
    { intros H. destruct (He H) as [C Q]. destruct (Hc C). auto. }
    destruct a as [|i]; simpl.
    - unfold fproducer_step. destruct (fsrc s) as [|x r] eqn:S.
      + destruct (ferr s) as [e|] eqn:E.
        * assert (Hd' : d = false).
          { destruct d; auto. destruct (Hd eq_refl) as (_ & _ & X). discriminate. }
          subst d.
          assert (Herr : err = Some e) by (destruct Hfe as [X|X]; [discriminate|congruence]).
          destruct (length (fchan s) <? c) eqn:L.
          -- apply Nat.ltb_lt in L. split; simpl; auto;
               try solve [intros C; destruct (Hc C); discriminate];
               try solve [intros H; destruct (Hno H) as (X & Y & Z); discriminate];
               try solve [rewrite app_length; simpl; lia].
             exists false. split; [discriminate|]. split; [left; reflexivity|].
             simpl in Hseq. rewrite ?app_nil_r, <- ?app_assoc. exact Hseq.
          -- destruct blocking_err eqn:B; [exact Hs|].
             split; simpl; auto;
               try solve [intros C; destruct (Hc C); discriminate];
               try solve [intros H; destruct (Hno H) as (X & Y & Z); discriminate]; try lia.
             exists true. split; [|split; [left; reflexivity|]].
             ++ intros _. repeat split; auto. congruence.
             ++ rewrite Herr in Hseq. simpl in Hseq. rewrite !app_nil_r.
                rewrite app_assoc in Hseq. apply app_inj_tail in Hseq. tauto.
        * split; simpl; auto;
            try solve [intros H; destruct (Hno H) as (X & Y & Z); auto].
          exists d. split; [intros D; destruct (Hd D) as (X & Y & _); auto|auto].
      + destruct (length (fchan s) <? c) eqn:L; [|exact Hs].
        apply Nat.ltb_lt in L. split; simpl; auto;
          try solve [intros C; destruct (Hc C); discriminate];
          try solve [intros H; destruct (Hno H) as (X & Y & Z); discriminate];
          try solve [rewrite app_length; simpl; lia].
        exists d. repeat split; auto; try (apply Hd; auto).
        rewrite <- ?app_assoc. simpl. exact Hseq.
    - unfold fconsumer_step.
      destruct (nth_error (fcons s) i) as [[|]|] eqn:N; try exact Hs.
      destruct (fchan s) as [|x q] eqn:Q.
      + assert (Hexit : finv (if fclosed s
                              then mkF (fsrc s) (ferr s) (fclosed s) [] (fgot s) (set_nth i true (fcons s))
                              else s)).
        { destruct (fclosed s) eqn:C; [|exact Hs].
          destruct (nth_error_mid _ _ _ N) as (l1 & l2 & Hl1 & Hl2 & Hset).
          split; simpl; auto; try lia.
          - exists d. auto.
          - rewrite Hset. rewrite Hl1 in Hl. rewrite <- Hl. rewrite !app_length. reflexivity. }
        destruct c as [|c'] eqn:Cc; [|exact Hexit].
        destruct (fsrc s) as [|x r] eqn:S.
        * destruct (ferr s) as [e|] eqn:E; [|exact Hexit].
          destruct blocking_err eqn:B; [|exact Hs].
          split; simpl; auto;
            try solve [intros C; destruct (Hc C); discriminate];
            try solve [intros H; destruct (Hno H) as (X & Y & Z); discriminate]; try lia.
          exists d. split; [intros D; destruct (Hd D); discriminate|].
          split; [left; reflexivity|].
          simpl in Hseq. rewrite ?app_nil_r in *. exact Hseq.
        * split; simpl; auto;
            try solve [intros C; destruct (Hc C); discriminate];
            try solve [intros H; destruct (Hno H) as (X & Y & Z); discriminate]; try lia.
          exists d. repeat split; auto; try (apply Hd; auto).
          simpl in Hseq. rewrite <- ?app_assoc. exact Hseq.
      + split; simpl; auto;
          try solve [intros H; destruct (Hno H) as (X & Y & Z); discriminate];
          try solve [simpl in Hcap; lia].
        exists d. repeat split; auto; try (apply Hd; auto). rewrite <- ?app_assoc. exact Hseq.
  Qed.

  Lemma finv_run sched s : finv s -> finv (runf sched s).
  Proof.
    revert s. induction sched as [|a sched IH]; intros s H; simpl; auto.
    apply IH, finv_step, H.
  Qed.

  Lemma finv_reach sched : finv (runf sched (finit items err k)).
  Proof. apply finv_run, finv_init. Qed.

  Lemma finished_exists_true (s : state) :
    ffinished s = true -> 1 <= length (fcons s) -> In true (fcons s).
  Proof.
    unfold ffinished. intros F L. destruct (fcons s) as [|b l]; simpl in *; [lia|].
    destruct b; [left; auto|discriminate].
  Qed.

  (** when the consumers are done: what they got, in order *)
  Lemma finished_got sched :
    1 <= k ->
    let s := runf sched (finit items err k) in
    ffinished s = true ->
    fgot s = produced items err
    \/ (blocking_err = false /\ err <> None /\ fgot s = items).
  Proof.
    intros Hk s F. destruct (finv_reach sched) as [(d & Hd & _ & Hseq) Hc He Hl Hcap].
    fold s in Hseq, Hc, He, Hl.
    assert (In true (fcons s)) as Ht by (apply finished_exists_true; auto; lia).
    destruct (He Ht) as [C Q]. destruct (Hc C) as [S E].
    rewrite Q, S, E in Hseq. simpl in Hseq. rewrite app_nil_r in Hseq.
    destruct d.
    - right. destruct (Hd eq_refl) as (X & Y & _). rewrite app_nil_r in Hseq. auto.
    - left. exact Hseq.
  Qed.

  (** at every moment: FIFO, nothing reordered, nothing duplicated *)
  Lemma got_is_prefix sched :
    let s := runf sched (finit items err k) in
    exists rest, produced items err = fgot s ++ rest.
  Proof.
    intros s. destruct (finv_reach sched) as [(d & Hd & _ & Hseq) _ _ _ _]. fold s in Hseq.
    unfold produced. fold (opt_list err). destruct d.
    - rewrite app_nil_r in Hseq. rewrite <- Hseq.
      exists ((fchan s ++ fsrc s ++ opt_list (ferr s)) ++ opt_list err).
      now rewrite !app_assoc.
    - rewrite <- Hseq. eauto.
  Qed.

  (** * no deadlock *)

  Definition fM (s : state) : nat :=
    3 * length (fsrc s) + 3 * length (opt_list (ferr s)) + (if fclosed s then 0 else 1)
    + 2 * length (fchan s) + length (filter negb (fcons s)).

  Lemma filter_negb_mid l1 l2 b :
    length (filter negb (l1 ++ b :: l2))
    = length (filter negb l1) + (if b then 0 else 1) + length (filter negb l2).
  Proof. rewrite filter_app, app_length. simpl. destruct b; simpl; lia. Qed.

  Lemma fprogress (s : state) :
    finv s -> ffinished s = false -> exists a, fM (stepf s a) < fM s.
  Proof.
    intros [_ Hc He _ _] F.
    destruct (not_all_true _ F) as (l1 & l2 & Hl).
    assert (N : nth_error (fcons s) (length l1) = Some false)
      by (rewrite Hl; apply nth_error_mid_eq).
    assert (Hset : set_nth (length l1) true (fcons s) = l1 ++ true :: l2)
      by (rewrite Hl; apply set_nth_mid).
    destruct (fchan s) as [|x q] eqn:Q.
    - destruct (fsrc s) as [|x r] eqn:Sr.
      + destruct (ferr s) as [e|] eqn:E.
        * destruct c as [|c'] eqn:Cc.
          -- destruct blocking_err eqn:B.
             ++ exists (S (length l1)). simpl. unfold fconsumer_step. rewrite N, Q, Sr, E.
                unfold fM. simpl. rewrite Sr, E, Q. simpl. lia.
             ++ exists 0. simpl. unfold fproducer_step. rewrite Sr, E, Q. simpl.
                unfold fM. simpl. rewrite Sr, E, Q. simpl. lia.
          -- exists 0. simpl. unfold fproducer_step. rewrite Sr, E, Q. simpl.
             unfold fM. simpl. rewrite Sr, E, Q. simpl. lia.
        * destruct (fclosed s) eqn:C.
          -- exists (S (length l1)). simpl. unfold fconsumer_step. rewrite N, Q, Sr, E, C.
             assert (X : match c with 0 | _ => mkF [] None true [] (fgot s) (set_nth (length l1) true (fcons s)) end
                         = mkF [] None true [] (fgot s) (l1 ++ true :: l2))
               by (rewrite Hset; destruct c; reflexivity).
             destruct c; rewrite Hset; unfold fM; simpl; rewrite Sr, E, C, Q, Hl, !filter_negb_mid;
               simpl; lia.
          -- exists 0. simpl. unfold fproducer_step. rewrite Sr, E.
             unfold fM. simpl. rewrite Sr, E, C. simpl. lia.
      + destruct c as [|c'] eqn:Cc.
        * exists (S (length l1)). simpl. unfold fconsumer_step. rewrite N, Q, Sr.
          unfold fM. simpl. rewrite Sr, Q. simpl. lia.
        * exists 0. simpl. unfold fproducer_step. rewrite Sr, Q. simpl.
          unfold fM. simpl. rewrite Sr, Q. simpl. rewrite ?app_length. simpl. lia.
    - exists (S (length l1)). simpl. unfold fconsumer_step. rewrite N, Q.
      unfold fM. simpl. rewrite Q. simpl. lia.
  Qed.

  Lemma run_snoc sched a (s : state) : runf (sched ++ [a]) s = stepf (runf sched s) a.
  Proof. unfold frun. rewrite fold_left_app. reflexivity. Qed.

  Lemma fcan_finish m : forall sched,
    fM (runf sched (finit items err k)) <= m ->
    exists cont, ffinished (runf cont (runf sched (finit items err k))) = true.
  Proof.
    induction m as [|m IH]; intros sched Hm;
      destruct (ffinished (runf sched (finit items err k))) eqn:F;
      try (exists []; exact F);
      destruct (fprogress _ (finv_reach sched) F) as (a & Ha).
    - lia.
    - destruct (IH (sched ++ [a])) as (cont & Hc).
      + rewrite run_snoc. lia.
      + exists (a :: cont). rewrite run_snoc in Hc. exact Hc.
  Qed.

  Lemma feed_deadlock_free sched :
    exists cont, ffinished (runf cont (runf sched (finit items err k))) = true.
  Proof. eapply fcan_finish. eauto. Qed.

End FeedProofs.
