(** Small corollaries for Properties/C16.v and C20.v: enumerator with caller-supplied names,
    the identity assignment of ShuffleTips. *)
From Coq Require Import String ZArith QArith Bool Arith Lia List Permutation.
From GT Require Import Base.UTree Spec.Obs Spec.GenShape Spec.Counting Model.Reroot Model.Rand Model.Rand2 Model.TreeGen Model.Sampling
     Proofs.SamplingBase Proofs.SamplingPerm Proofs.SamplingShuffle Proofs.SamplingShuffle2
     Proofs.TreeGenTopo Proofs.TreeGenTopo2.
Import ListNotations.
Local Close Scope Q_scope.

Theorem all_topologies_unrooted_given_names n names ts : 3 <= n -> length names = n ->
  all_topologies n false names = Ok ts ->
  Forall (fun t => wf t = true /\ binary false t = true /\ Permutation (leaves t) names) ts.
Proof.
  intros Hn Hl H. pose proof (all_topologies_unrooted_trees_names n names ts Hn H) as F.
  rewrite <- Hl, topo_names_given in F; auto. intros ->. simpl in Hl. lia.
Qed.

Theorem all_topologies_rooted_given_names n names ts : 2 <= n -> length names = n ->
  all_topologies n true names = Ok ts ->
  Forall (fun t => wf t = true /\ planted t = true /\ Permutation (leaves t) names) ts.
Proof.
  intros Hn Hl H. pose proof (all_topologies_rooted_trees_names n names ts Hn H) as F.
  rewrite <- Hl, topo_names_given in F; auto. intros ->. simpl in Hl. lia.
Qed.

(** exactly one of the n! choice vectors leaves every tip name in place *)
Theorem shuffle_identity_count t :
  wf t = true -> 2 <= degree t -> NoDup (all_tip_names t) ->
  count_where (fun cs => if list_eq_dec String.string_dec (tip_names (shuffle_tips t cs)) (all_tip_names t) then true else false)
              (all_choices (shuffle_bounds t)) = 1 /\
  length (all_choices (shuffle_bounds t)) = fact (length (all_tip_names t)).
Proof.
  intros W D ND. split.
  - apply shuffle_tips_count_wf; auto.
  - unfold shuffle_bounds. apply perm_space_size.
Qed.
