(** DELTRAN: an output that is unambiguous at every node is itself most parsimonious. *)
From Coq Require Import String ZArith QArith Bool Arith Lia List.
From GT Require Import Base.UTree Spec.Obs Spec.Parsimony Model.Reroot Model.Parsimony
     Proofs.ParsimonyVec Proofs.ParsimonyHartigan Proofs.ParsimonyReroot Proofs.ParsimonyCtx
     Proofs.ParsimonyDown Proofs.ParsimonyFinal Proofs.ParsimonyAcctran Proofs.ParsimonyTips
     Proofs.ParsimonyUnamb.
Import ListNotations.
Local Close Scope Q_scope.

(** * the arithmetic of one branch
    [A]: counts of the neighbours of the parent other than this child; [upj] marks its maxima;
    [cnt]: counts of the children of the child, [ud] marks its maxima (the up-pass set of the
    child); [fd] marks the maxima of [upj + cnt] (the final set of the child);
    [a]: the parent's state, a maximum of [A + ud] (it is in the parent's final set). *)
Section Arith.
Variables A upj cnt ud fd : nat -> nat.
Variables MA M MF a : nat.
Hypothesis A_le : forall x, A x <= MA.
Hypothesis upj_iff : forall x, upj x = 1 <-> A x = MA.
Hypothesis upj_01 : forall x, upj x <= 1.
Hypothesis cnt_le : forall x, cnt x <= M.
Hypothesis cnt_max : exists y0, cnt y0 = M.
Hypothesis ud_iff : forall x, ud x = 1 <-> cnt x = M.
Hypothesis ud_01 : forall x, ud x <= 1.
Hypothesis fd_iff : forall x, fd x = 1 <-> upj x + cnt x = MF.
Hypothesis f_le : forall x, upj x + cnt x <= MF.
Hypothesis a_max : forall x, A x + ud x <= A a + ud a.

(** the child takes the parent's state, which is in its final set *)
Lemma deltran_arith_same : fd a = 1 -> M - cnt a = 1 - ud a.
Proof.
  intros Ha. apply fd_iff in Ha.
  destruct cnt_max as [y0 Hy0].
  pose proof (f_le y0). pose proof (upj_01 a). pose proof (cnt_le a). pose proof (ud_01 a).
  destruct (Nat.eq_dec (cnt a) M) as [E|E].
  - pose proof E as E'. apply ud_iff in E'. lia.
  - assert (ud a <> 1) by (intro Q; apply ud_iff in Q; contradiction). lia.
Qed.

(** the parent's state is not in the final set of the child, which is the single state z *)
Lemma deltran_arith_other : forall z,
  fd a <> 1 -> fd z = 1 -> (forall w, fd w = 1 -> w = z) ->
  1 + (M - cnt z) = 1 - ud a.
Proof.
  intros z Hna Hz Huz.
  destruct cnt_max as [y0 Hy0].
  apply fd_iff in Hz.
  pose proof (f_le y0) as Fy0. pose proof (upj_01 z) as Uz. pose proof (cnt_le z) as Cz.
  (* z is in the up-pass set of the child *)
  assert (Ez : cnt z = M).
  { destruct (Nat.eq_dec (cnt z) M) as [E|E]; [exact E|]. exfalso.
    assert (upj y0 + cnt y0 = MF) by lia.
    apply fd_iff in H. apply Huz in H. subst y0. contradiction. }
  (* a is not *)
  assert (Ea : ud a <> 1).
  { intro Q. pose proof Q as Q'. apply ud_iff in Q'.
    assert (Hfa : upj a + cnt a <> MF) by (intro R; apply fd_iff in R; contradiction).
    pose proof (f_le a) as Fa. pose proof (upj_01 a) as Ua.
    assert (upj z = 1) by lia.
    assert (upj a <> 1) by lia.
    assert (A z = MA) by (apply upj_iff; assumption).
    assert (A a <> MA) by (intro R; apply upj_iff in R; contradiction).
    pose proof (A_le a). pose proof (a_max z).
    assert (ud z = 1) by (apply ud_iff; exact Ez). lia. }
  pose proof (ud_01 a). lia.
Qed.
End Arith.

Lemma nsum_app : forall x l1 l2, nsum x (l1 ++ l2) = nsum x l1 + nsum x l2.
Proof. induction l1; intros; simpl; auto. rewrite IHl1. lia. Qed.

Lemma nsum_remove_nth : forall x (l : list vec) j v, nth_error l j = Some v ->
  nsum x l = nsum x (remove_nth j l) + nth x v 0.
Proof.
  induction l as [|w l IH]; intros j v H.
  - destruct j; discriminate.
  - destruct j; simpl in *.
    + inversion H; subst. lia.
    + rewrite (IH j v H). lia.
Qed.

(** if every branch costs exactly what the up-pass accounts for, so does the node
    (the labelling being read off an arbitrary list of child vtrees) *)
Lemma slots_cost_eq_gen : forall tv ts k a sl ks,
  length ks = length (kid_results tv k sl) ->
  (forall i e d vc, nth_error sl i = Some (Some (e, d)) -> nth_error ks (kidx sl i) = Some vc ->
     branch_cost ts (cost ts) a d (lab_of d vc) = C tv k d + miss a (U tv k d)) ->
  cost_slots ts (cost ts) a sl (lab_slots lab_of sl ks) = contrib a (kid_results tv k sl).
Proof.
  induction sl as [|[[e d]|] sl IH]; intros ks Hlen Hb; simpl; [reflexivity| |].
  - destruct ks as [|vc ks]; simpl in Hlen; [discriminate|].
    rewrite (Hb 0 e d vc eq_refl eq_refl). rewrite IH.
    + unfold U, C. lia.
    + simpl in Hlen. lia.
    + intros i e' d' vc' Hi Hk. apply (Hb (S i) e' d' vc'); [exact Hi|].
      rewrite kidx_S_some. exact Hk.
  - apply IH; [exact Hlen|].
    intros i e' d' vc' Hi Hk. apply (Hb (S i) e' d' vc'); [exact Hi|].
    rewrite kidx_S_none. exact Hk.
Qed.

Lemma down_kids_length : forall basem roots k l s, length (down_kids basem roots k s l) = length l.
Proof. induction l; intros; simpl; auto. Qed.

Lemma deltran_node : forall par v ks, ks <> [] ->
  deltran par (VNode v ks) =
  VNode (match par with Some p => refine p v | None => v end)
        (map (deltran (Some (match par with Some p => refine p v | None => v end))) ks).
Proof. intros par v [|c0 ks] H; [congruence | reflexivity]. Qed.

Lemma downpass_node' : forall isroot up k v ks, ks <> [] ->
  downpass isroot up k (VNode v ks) =
  VNode (if isroot then v else compute_parsimony (vsum k ((if isroot then [] else [up]) ++ map vroot ks)))
        (down_kids (if isroot then [] else [up]) (map vroot ks) k 0 ks).
Proof. intros isroot up k v [|c0 ks] H; [congruence | reflexivity]. Qed.

Section Del.
Variable tv : string -> vec.
Variable ts : string -> list nat.
Variable k : nat.

Notation kid_results := (kid_results tv k).
Notation edge_slot := (edge_slot tv ts k).

Definition fake (up : vec) : vtree * nat := (VNode up [], 0).
Definition base_of (isroot : bool) (up : vec) : list (vtree * nat) := if isroot then [] else [fake up].

Lemma kvecs_base_of : forall isroot up, kvecs (base_of isroot up) = if isroot then [] else [up].
Proof. intros [|] up; reflexivity. Qed.

(** pointwise value of the sum of the vectors of a list of results *)
Lemma nth_vsum_rs : forall rs x, rs_ok k rs -> nth x (vsum k (kvecs rs)) 0 = nsum x (kvecs rs).
Proof.
  intros rs x H. apply nth_vsum. apply kvecs_forall.
  eapply Forall_impl; [|exact H]. intros r [L _]. exact L.
Qed.

(** the form of the DELTRAN result at an inner node *)
Lemma del_form : forall n cm sl isroot up par,
  Nat.eqb (length sl) 1 = false -> kid_results sl <> [] ->
  let rs := kid_results sl in
  let Fc := compute_parsimony (vsum k (kvecs (base_of isroot up ++ rs))) in
  let Dc := match par with Some p => refine p Fc | None => Fc end in
  deltran par (downpass isroot up k (fst (uppass tv k (UNode n cm sl)))) =
  VNode Dc (map (deltran (Some Dc))
                (down_kids (if isroot then [] else [up]) (kvecs rs) k 0 (map fst rs))).
Proof.
  intros n cm sl isroot up par Hnt Hne rs Fc Dc.
  rewrite uppass_unfold, Hnt. cbv zeta. simpl fst. fold rs.
  assert (Hm : map fst rs <> []) by (unfold rs; destruct (kid_results sl); [congruence | discriminate]).
  rewrite (downpass_node' isroot up k _ _ Hm).
  assert (Hroots : map vroot (map fst rs) = kvecs rs) by (unfold kvecs; rewrite map_map; reflexivity).
  rewrite Hroots.
  assert (Hd : down_kids (if isroot then [] else [up]) (kvecs rs) k 0 (map fst rs) <> []).
  { intro Q. apply (f_equal (@length vtree)) in Q. rewrite down_kids_length in Q.
    destruct (map fst rs); [congruence | discriminate]. }
  rewrite (deltran_node par _ _ Hd).
  assert (HF : (if isroot then compute_parsimony (vsum k (kvecs rs))
                else compute_parsimony (vsum k ((if isroot then [] else [up]) ++ kvecs rs))) = Fc).
  { unfold Fc. rewrite kvecs_app, kvecs_base_of. destruct isroot; reflexivity. }
  rewrite HF. reflexivity.
Qed.

Theorem del_unamb_sub : forall c isroot up par,
  inner c ->
  Forall (fun s => match s with Some (_, d) => wf_sub d = true | None => True end) (uslots c) ->
  (forall m, In m (leaves c) -> tip_ok tv ts k m) ->
  (isroot = false -> vec_ok k up) ->
  (isroot = true -> 2 <= length (kids_of (uslots c))) ->
  (forall p, par = Some p -> good k p) ->
  vall single (deltran par (downpass isroot up k (fst (uppass tv k c)))) ->
  cost ts c (lab_of c (deltran par (downpass isroot up k (fst (uppass tv k c)))))
  = contrib (first_max (vroot (deltran par (downpass isroot up k (fst (uppass tv k c))))))
            (kid_results (uslots c)).
Proof.
  induction c using utree_ind'.
  intros isroot up par [Hleaf Hnt] Hwf Htips Hup Hmany Hpar Hall.
  rename c into cm. simpl in Hnt, Hwf, Hmany. simpl uslots.
  assert (Hf : Forall edge_slot sl).
  { apply Forall_forall. intros [[e d]|] Hin; simpl; auto.
    rewrite Forall_forall in Hwf. apply edge_ok_all; [apply (Hwf _ Hin)|].
    intros m Hm. apply Htips. eapply leaves_child; eauto. }
  assert (Hk : kids_of sl <> []).
  { unfold is_leaf, kids in Hleaf. simpl in Hleaf. destruct (kids_of sl); congruence. }
  pose proof (kid_results_nonempty tv k sl Hk) as Hne.
  pose proof (kid_results_ok tv ts k sl Hf) as Hrs.
  rewrite (del_form n cm sl isroot up par Hnt Hne) in Hall |- *. cbv zeta in Hall |- *.
  set (rs := kid_results sl) in *.
  set (base := base_of isroot up) in *.
  set (Fc := compute_parsimony (vsum k (kvecs (base ++ rs)))) in *.
  set (Dc := match par with Some p => refine p Fc | None => Fc end) in *.
  set (basem := if isroot then [] else [up]) in *.
  assert (Hbase : rs_ok k base).
  { unfold base, base_of. destruct isroot; [constructor|]. constructor; [|constructor]. simpl. auto. }
  assert (Hall_ok : rs_ok k (base ++ rs)) by (apply Forall_app; split; assumption).
  assert (Hall_ne : base ++ rs <> []).
  { intro Q. apply app_eq_nil in Q. destruct Q. contradiction. }
  assert (GF : good k Fc) by apply good_cp.
  assert (GD : good k Dc).
  { unfold Dc. destruct par as [p|]; [apply refine_good; auto | exact GF]. }
  simpl vroot.
  apply vall_node in Hall. destruct Hall as [SD Hallk].
  destruct SD as [a [Ha Hua]].
  rewrite (single_first_max k Dc a GD Ha Hua).
  assert (HaF : nth a Fc 0 = 1).
  { unfold Dc in Ha. destruct par as [p|]; [|exact Ha]. eapply (refine_sub k p Fc); eauto. }
  rewrite lab_of_unfold, cost_unfold. simpl vroot. simpl vkids.
  rewrite (single_first_max k Dc a GD Ha Hua).
  apply slots_cost_eq_gen.
  { rewrite map_length, down_kids_length, map_length. reflexivity. }
  intros i e d vc Hi Hvc.
  rewrite nth_error_map in Hvc.
  pose proof (kid_results_nth tv k sl i e d Hi) as Hkn. fold rs in Hkn.
  assert (Hkn' : nth_error (map fst rs) (kidx sl i) = Some (fst (uppass tv k d))).
  { rewrite nth_error_map, Hkn. reflexivity. }
  rewrite (down_kids_nth _ _ _ _ 0 _ _ Hkn') in Hvc. simpl in Hvc. inversion Hvc; subst vc; clear Hvc.
  set (j := kidx sl i) in *.
  set (upj := compute_parsimony (vsum k (basem ++ remove_nth j (kvecs rs)))) in *.
  rewrite Forall_forall in H, Hwf, Hallk.
  pose proof (Hwf _ (nth_error_In _ _ Hi)) as Hwd. simpl in Hwd.
  assert (Hdt : forall m, In m (leaves d) -> tip_ok tv ts k m).
  { intros m Hm. apply Htips. eapply leaves_child; eauto. eapply nth_error_In; eauto. }
  destruct (is_leaf d) eqn:Edl.
  { apply leaf_branch; auto. apply Hdt. destruct d as [nd cd sld]. simpl.
    unfold is_leaf, kids in Edl. simpl in Edl. destruct (kids_of sld); [left; reflexivity | discriminate]. }
  (* an inner child *)
  set (others := base ++ remove_nth j rs).
  assert (Hoth_ok : rs_ok k others).
  { unfold others. apply Forall_app. split; [exact Hbase | apply rs_ok_remove_nth; exact Hrs]. }
  assert (Hoth_ne : others <> []).
  { unfold others. destruct isroot eqn:Eroot.
    - intro Q. apply app_eq_nil in Q. destruct Q as [_ Q]. revert Q.
      apply remove_nth_nonempty. unfold rs. rewrite kid_results_length. apply Hmany. reflexivity.
    - unfold base, base_of. discriminate. }
  assert (Hupj : upj = compute_parsimony (vsum k (kvecs others))).
  { unfold upj, others, basem, base. rewrite kvecs_app, kvecs_base_of.
    unfold kvecs at 2. rewrite map_remove_nth. reflexivity. }
  assert (Vupj : vec_ok k upj) by (rewrite Hupj; apply cp_vec_ok; assumption).
  assert (Hdin : inner d) by (apply wf_sub_inner; assumption).
  destruct d as [nd cd sld].
  assert (Hsld : Forall (fun s => match s with Some (_, d0) => wf_sub d0 = true | None => True end) sld)
    by (apply (wf_sub_slots nd cd sld Hwd)).
  set (vc := deltran (Some Dc) (downpass false upj k (fst (uppass tv k (UNode nd cd sld))))) in *.
  assert (Hallvc : vall single vc).
  { apply Hallk. apply in_map.
    eapply nth_error_In. apply (down_kids_nth _ _ _ _ 0 _ _ Hkn'). }
  pose proof (H _ (nth_error_In _ _ Hi) false upj (Some Dc) Hdin Hsld Hdt (fun _ => Vupj)
                ltac:(discriminate) ltac:(intros p Ep; inversion Ep; subst; exact GD) Hallvc) as IHd.
  fold vc in IHd. simpl uslots in IHd.
  (* the form of the child's result *)
  destruct Hdin as [_ Hdnt]. simpl in Hdnt.
  assert (Hdk : kids_of sld <> []).
  { unfold is_leaf, kids in Edl. simpl in Edl. destruct (kids_of sld); congruence. }
  pose proof (kid_results_nonempty tv k sld Hdk) as Hdne.
  assert (Hfd : Forall edge_slot sld).
  { apply Forall_forall. intros [[e' d']|] Hin; simpl; auto.
    rewrite Forall_forall in Hsld. apply edge_ok_all; [apply (Hsld _ Hin)|].
    intros m Hm. apply Hdt. eapply leaves_child; eauto. }
  pose proof (kid_results_ok tv ts k sld Hfd) as Hdrs.
  pose proof (del_form nd cd sld false upj (Some Dc) Hdnt Hdne) as Hform. cbv zeta in Hform. fold vc in Hform.
  set (rsd := kid_results sld) in *.
  set (Fd := compute_parsimony (vsum k (kvecs (base_of false upj ++ rsd)))) in *.
  set (Dd := refine Dc Fd) in *.
  assert (Hvr : vroot vc = Dd) by (rewrite Hform; reflexivity).
  rewrite Hvr in IHd.
  assert (GFd : good k Fd) by apply good_cp.
  assert (GDd : good k Dd) by (apply refine_good; assumption).
  assert (SDd : single Dd).
  { rewrite Hform in Hallvc. apply vall_node in Hallvc. apply Hallvc. }
  destruct SDd as [z [Hz Huz]].
  rewrite (single_first_max k Dd z GDd Hz Huz) in IHd.
  assert (Hroot : lroot (lab_of (UNode nd cd sld) vc) = z).
  { rewrite lroot_lab_of, Hvr. apply (single_first_max k Dd z GDd Hz Huz). }
  unfold branch_cost. rewrite Edl, Hroot, IHd.
  (* the quantities of the arithmetic lemma *)
  destruct (C_formula tv ts k nd cd sld Hdnt Hdk Hfd) as [HCd [HUd _]]. fold rsd in HCd, HUd.
  set (sumd := vsum k (kvecs rsd)) in *.
  destruct (contrib_formula k rsd Hdrs Hdne) as [Hcd [_ [_ [_ [Hmsd _]]]]]. fold sumd in Hcd, Hmsd.
  assert (Hbd_ok : rs_ok k (base_of false upj ++ rsd)).
  { apply Forall_app. split; [|exact Hdrs]. constructor; [|constructor]. simpl. exact Vupj. }
  assert (Hbd_ne : base_of false upj ++ rsd <> []) by discriminate.
  set (A := fun x => nth x (vsum k (kvecs others)) 0).
  set (cnt := fun x => nth x sumd 0).
  assert (Hfsum : forall x, nth x (vsum k (kvecs (base_of false upj ++ rsd))) 0 = nth x upj 0 + cnt x).
  { intros x. rewrite nth_vsum_rs by exact Hbd_ok. rewrite kvecs_app, nsum_app. simpl.
    unfold cnt, sumd. rewrite nth_vsum_rs by exact Hdrs. lia. }
  assert (Htot : forall x, nth x (vsum k (kvecs (base ++ rs))) 0 = A x + nth x (U tv k (UNode nd cd sld)) 0).
  { intros x. unfold A. rewrite !nth_vsum_rs by assumption. unfold others.
    rewrite !kvecs_app, !nsum_app.
    assert (Hnj : nth_error (kvecs rs) j = Some (U tv k (UNode nd cd sld))).
    { unfold kvecs. rewrite nth_error_map, Hkn. reflexivity. }
    rewrite (nsum_remove_nth x (kvecs rs) j _ Hnj).
    unfold kvecs at 4. rewrite map_remove_nth. fold (kvecs rs). lia. }
  assert (Hamax : forall x, A x + nth x (U tv k (UNode nd cd sld)) 0 <= A a + nth a (U tv k (UNode nd cd sld)) 0).
  { intros x. rewrite <- !Htot.
    apply (cp_max_iff k (base ++ rs) a Hall_ok Hall_ne) in HaF. rewrite HaF. apply nth_le_vmax. }
  pose proof (deltran_arith_same (fun x => nth x upj 0) cnt (fun x => nth x (U tv k (UNode nd cd sld)) 0)
                                 (fun x => nth x Fd 0) (vmax sumd)
                                 (vmax (vsum k (kvecs (base_of false upj ++ rsd)))) a) as AR1.
  pose proof (deltran_arith_other A (fun x => nth x upj 0) cnt (fun x => nth x (U tv k (UNode nd cd sld)) 0)
                                  (fun x => nth x Fd 0)
                                  (vmax (vsum k (kvecs others))) (vmax sumd)
                                  (vmax (vsum k (kvecs (base_of false upj ++ rsd)))) a) as AR2.
  assert (P1 : forall x, A x <= vmax (vsum k (kvecs others))) by (intros; apply nth_le_vmax).
  assert (P2 : forall x, nth x upj 0 = 1 <-> A x = vmax (vsum k (kvecs others))).
  { intros x. rewrite Hupj. apply (cp_max_iff k others x Hoth_ok Hoth_ne). }
  assert (P3 : forall x, nth x upj 0 <= 1) by (intros; apply Vupj).
  assert (P4 : forall x, cnt x <= vmax sumd) by (intros; apply nth_le_vmax).
  assert (P5 : exists y0, cnt y0 = vmax sumd) by (exists (first_max sumd); exact Hmsd).
  assert (P6 : forall x, nth x (U tv k (UNode nd cd sld)) 0 = 1 <-> cnt x = vmax sumd).
  { intros x. rewrite HUd. apply (cp_max_iff k rsd x Hdrs Hdne). }
  assert (P7 : forall x, nth x (U tv k (UNode nd cd sld)) 0 <= 1).
  { intros x. rewrite HUd. apply compute_parsimony_01. }
  assert (P8 : forall x, nth x Fd 0 = 1 <-> nth x upj 0 + cnt x = vmax (vsum k (kvecs (base_of false upj ++ rsd)))).
  { intros x. unfold Fd. rewrite (cp_max_iff k _ x Hbd_ok Hbd_ne). rewrite Hfsum. tauto. }
  assert (P9 : forall x, nth x upj 0 + cnt x <= vmax (vsum k (kvecs (base_of false upj ++ rsd)))).
  { intros x. rewrite <- Hfsum. apply nth_le_vmax. }
  specialize (AR1 P3 P4 P5 P6 P7 P8 P9).
  specialize (AR2 P1 P2 P3 P4 P5 P6 P7 P8 P9 Hamax).
  pose proof (Hcd z) as Cz. fold (cnt z) in Cz. pose proof (P4 z) as Mz.
  unfold miss.
  destruct (refine_cases k Dc Fd GD GFd) as [[_ [Hi' _]]|[Hno He]].
  - (* the child takes the parent's state *)
    fold Dd in Hi'. apply Hi' in Hz. destruct Hz as [HzD HzF].
    pose proof (Hua z HzD) as Eza. clear Hroot. subst z. rewrite Nat.eqb_refl.
    specialize (AR1 HzF). lia.
  - fold Dd in He.
    assert (HnaF : nth a Fd 0 <> 1) by (intro Q; apply (Hno a); split; assumption).
    rewrite He in Hz, Huz.
    specialize (AR2 z HnaF Hz Huz).
    destruct (Nat.eqb a z) eqn:Eaz; [apply Nat.eqb_eq in Eaz; clear Hroot; subst z; contradiction|].
    lia.
Qed.

End Del.

Section DelTop.
Variable tv : string -> vec.
Variable ts : string -> list nat.
Variable k : nat.
Variable T : utree.
Hypothesis Hwf : wf T = true.
Hypothesis Hdeg : 2 <= degree T.
Hypothesis tips : forall n, In n (leaves T) -> tip_ok tv ts k n.

(** C12 (DELTRAN): an output that is unambiguous at every node is most parsimonious *)
Theorem deltran_unambiguous : forall skip,
  vall single (fst (parsimony skip tv k Deltran T)) ->
  optimal ts T (lab_of T (fst (parsimony skip tv k Deltran T))).
Proof.
  intros skip Hall.
  destruct (root_facts tv ts k T Hwf Hdeg tips) as [Htip [Hin [Hk Hw]]].
  unfold parsimony in *. rewrite Htip in *.
  destruct (uppass tv k T) as [u s] eqn:Eu. simpl in *.
  assert (Eu' : u = fst (uppass tv k T)) by (rewrite Eu; reflexivity).
  rewrite Eu' in *.
  apply (mincost_optimal tv ts k T Hwf Hdeg tips); [apply shape_lab_of|].
  rewrite (del_unamb_sub tv ts k T true [] None Hin Hw tips); auto; try discriminate.
  (* the root state is in the up-pass set: the contribution is the step count *)
  destruct T as [n cm sl]. destruct Hin as [Hleaf Hnt]. simpl in Hnt, Hw, Hk. simpl uslots.
  assert (Hf : Forall (edge_slot tv ts k) sl).
  { apply Forall_forall. intros [[e d]|] Hi; simpl; auto.
    rewrite Forall_forall in Hw. apply edge_ok_all; [apply (Hw _ Hi)|].
    intros m Hm. apply tips. eapply leaves_child; eauto. }
  assert (Hkk : kids_of sl <> []) by (destruct (kids_of sl); simpl in *; [lia | discriminate]).
  pose proof (kid_results_nonempty tv k sl Hkk) as Hne.
  rewrite (del_form tv k n cm sl true [] None Hnt Hne) in Hall |- *. cbv zeta in Hall |- *. simpl vroot.
  destruct (C_formula tv ts k n cm sl Hnt Hkk Hf) as [HC [_ [Hrs _]]].
  destruct (contrib_formula k _ Hrs Hne) as [Hc _].
  simpl base_of in *. simpl app in *.
  set (sum := vsum k (kvecs (kid_results tv k sl))) in *.
  apply vall_node in Hall. destruct Hall as [[a [Ha Hua]] _].
  assert (GF : good k (compute_parsimony sum)) by apply good_cp.
  rewrite (single_first_max k _ a GF Ha Hua).
  apply (cp_max_iff k _ a Hrs Hne) in Ha. fold sum in Ha.
  specialize (Hc a). unfold up_steps. fold (C tv k (UNode n cm sl)). lia.
Qed.

End DelTop.
