(** The Nexus round trip with the Newick writer and parser of C01 (Model/Newick.v): for trees
    inside the quantifier of C01 the embedded Newick strings are read back to trees with the
    same rose (C01_parse_write / C01_round_trip), so Newick -> Nexus -> parse preserves every
    tree. *)
From Coq Require Import String Ascii ZArith QArith Bool Arith Lia List.
From GT Require Import Base.Sexp Base.UTree Spec.Obs Spec.NewickSpec Model.Newick Model.NewickNum Model.Nexus
     Proofs.NewickCanon Proofs.NewickTheorem Proofs.NewickNumC
     Proofs.NexusLex Proofs.NexusWords Proofs.NexusRoundTrip Proofs.NexusRoundTripMain.
Import ListNotations.
Local Close Scope Q_scope.
Local Open Scope string_scope.

Section C01.
  Variable fmt : Q -> string.
  Variable numeric : string -> bool.
  Variable parse_num : string -> option Q.
  Variable numok : Q -> bool.
  Hypothesis SC : strconv_ok fmt numeric parse_num numok.

  Definition np_newick (s : string) : utree + string :=
    match Newick.parse numeric parse_num s with
    | Newick.POk t => inl t
    | Newick.PErr m => inr m
    | Newick.POutOfFuel => inr "out of fuel"
    end.

  (** what the quantifier of C13 adds to C01's for one tree of the list: the Newick text is
      readable inside a TREE command (no blank, bracket, '=' in it, no label that is a Nexus
      keyword), and the tree has exactly the taxa of the list *)
  Definition nexus_tree_ok (labels : list string) (t : utree) : Prop :=
    wfN numeric numok t = true /\
    newick_ok (Newick.write fmt t) = true /\
    forallb (fun n => mem n labels) (tip_names (canon_root fmt parse_num t)) = true /\
    length (tips (canon_root fmt parse_num t)) = length labels.

  Lemma map_pair_combine : forall {A B C} (f : A -> B) (g : A -> C) (l : list A),
      map (fun x => (f x, g x)) l = combine (map f l) (map g l).
  Proof. induction l as [|a l IH]; simpl; [reflexivity|]. rewrite IH. reflexivity. Qed.

  Lemma roses_kept : forall labels (l : list (nat * utree)),
      Forall (fun it => nexus_tree_ok labels (snd it)) l ->
      Forall2 (fun it t' => rose_eqb (rose_of t') (rose_of (snd it)) = true) l
              (map (fun it => canon_root fmt parse_num (snd it)) l).
  Proof.
    intros labels l. induction l as [|it r IH]; intros HT; simpl; [constructor|].
    inversion HT as [|? ? [W _] Hr]; subst. constructor.
    - destruct (round_trip fmt numeric parse_num numok SC _ W) as [t' [P [R _]]].
      rewrite (parse_write fmt numeric parse_num numok SC _ W) in P. inversion P; subst. exact R.
    - apply IH. exact Hr.
  Qed.

  Theorem nexus_round_trip_c01 : forall (l : list (nat * utree)),
      (Z.of_nat (length (final_map l [])) < two63)%Z ->
      Forall label_ok (labels_of l) ->
      Forall (fun it => nexus_tree_ok (labels_of l) (snd it)) l ->
      exists ts',
        nexus_parse np_newick (write_nexus (Newick.write fmt) false l) =
        Nexus.POk (mkDoc (combine (map (fun it => "tree" ++ itoa (fst it)) l) ts') false) /\
        Forall2 (fun it t' => rose_eqb (rose_of t') (rose_of (snd it)) = true) l ts'.
  Proof.
    intros l Hn HL HT.
    exists (map (fun it => canon_root fmt parse_num (snd it)) l). split.
    - rewrite (nexus_round_trip_plain (Newick.write fmt) np_newick l (canon_root fmt parse_num) Hn HL).
      + rewrite map_pair_combine. reflexivity.
      + eapply Forall_impl; [|exact HT]. intros it [W [N [A B]]]. unfold tree_ok. repeat split; try assumption.
        unfold np_newick. rewrite (parse_write fmt numeric parse_num numok SC _ W). reflexivity.
    - eapply roses_kept. exact HT.
  Qed.
End C01.
