(** C20: Go's [rand.Perm] (Model/Rand.v [go_perm]) and [Node.RotateNeighbors]
    (Model/Sampling.v [rotate_neighbors]), as functions of the choice vector, are bijections
    from the n! in-bounds choice vectors onto the n! permutations.

    Both loops have the same last step: with [q] the state after the first n choices, the
    (n+1)-th choice [j <= n] produces [shape j x q] = "put the new element [x] at position j and
    move the element that was there to the end" ([x] = n for rand.Perm, [x] = the (n+1)-th
    neighbour for RotateNeighbors).  [shape] is a bijection
    (j, q) |-> lists that contain [x] once, which gives all statements by induction from the
    END of the choice vector. *)
From Coq Require Import Bool Arith Lia List Permutation.
From GT Require Import Model.Reroot Model.Rand Model.Sampling Spec.Counting Proofs.SamplingBase.
Import ListNotations.

(** ** the common last step *)
Definition shape {A} (j : nat) (x : A) (q : list A) : list A :=
  firstn j q ++ x :: skipn (S j) q ++ firstn 1 (skipn j q).

Lemma shape_at {A} (a : list A) x y b : shape (length a) x (a ++ y :: b) = a ++ x :: b ++ [y].
Proof. unfold shape. induction a as [|z a IH]; simpl; [reflexivity|]. f_equal. exact IH. Qed.

Lemma shape_end {A} (q : list A) x : shape (length q) x q = q ++ [x].
Proof. unfold shape. induction q as [|z q IH]; simpl; [reflexivity|]. f_equal. exact IH. Qed.

Lemma split_at {A} (j : nat) : forall (m : list A), j < length m ->
  exists a y b, m = a ++ y :: b /\ length a = j.
Proof.
  induction j as [|j IH]; intros [|z m] H; simpl in H; try lia.
  - exists [], z, m. auto.
  - destruct (IH m) as [a [y [b [E L]]]]; [lia|].
    exists (z :: a), y, b. subst m. simpl. auto.
Qed.

Lemma shape_perm {A} j (x : A) q : j <= length q -> Permutation (shape j x q) (q ++ [x]).
Proof.
  intros H. destruct (Nat.eq_dec j (length q)) as [->|N].
  - rewrite shape_end. apply Permutation_refl.
  - destruct (split_at j q) as [a [y [b [-> L]]]]; [lia|]. subst j. rewrite shape_at.
    rewrite <- app_assoc. apply Permutation_app_head. simpl.
    apply perm_trans with (x :: y :: b).
    + apply perm_skip. apply Permutation_sym, Permutation_cons_append.
    + eapply perm_trans; [apply perm_swap|]. apply perm_skip. apply Permutation_cons_append.
Qed.

Lemma split_unique {A} (x : A) : forall a a' r r',
  ~ In x a -> ~ In x a' -> a ++ x :: r = a' ++ x :: r' -> a = a' /\ r = r'.
Proof.
  induction a as [|z a IH]; intros [|z' a'] r r' H H' E; simpl in *.
  - inversion E. auto.
  - inversion E. subst. tauto.
  - inversion E. subst. tauto.
  - inversion E. subst. destruct (IH a' r r') as [-> ->]; auto.
Qed.

Lemma app_inj_len {A} : forall (a a' b b' : list A),
  length a = length a' -> a ++ b = a' ++ b' -> a = a' /\ b = b'.
Proof.
  induction a as [|z a IH]; intros [|z' a'] b b' L E; simpl in *; try discriminate; auto.
  inversion E. subst. destruct (IH a' b b') as [-> ->]; auto.
Qed.

Lemma recompose {A} : forall j (q : list A),
  q = firstn j q ++ firstn 1 (skipn j q) ++ skipn (S j) q.
Proof.
  induction j as [|j IH]; intros [|z q]; simpl; try reflexivity.
  f_equal. apply IH.
Qed.

Lemma not_in_firstn {A} (x : A) j q : ~ In x q -> ~ In x (firstn j q).
Proof.
  intros H I. apply H. rewrite <- (firstn_skipn j q). apply in_or_app. auto.
Qed.

Lemma shape_inj {A} (x : A) j j' q q' :
  ~ In x q -> ~ In x q' -> length q = length q' -> j <= length q -> j' <= length q' ->
  shape j x q = shape j' x q' -> j = j' /\ q = q'.
Proof.
  intros H H' L J J' E. unfold shape in E.
  apply split_unique in E; try (apply not_in_firstn; assumption).
  destruct E as [E1 E2].
  assert (j = j') as <-.
  { apply (f_equal (@length A)) in E1. rewrite !firstn_length_le in E1 by assumption. exact E1. }
  split; [reflexivity|].
  apply app_inj_len in E2; [|rewrite !skipn_length; lia].
  destruct E2 as [E2 E3].
  rewrite (recompose j q), (recompose j q'). rewrite E1, E2, E3. reflexivity.
Qed.

Lemma shape_surj {A} (x : A) p : In x p ->
  exists j q, j <= length q /\ p = shape j x q.
Proof.
  intros H. apply in_split in H as [a [r ->]].
  destruct r as [|y b _] using rev_ind.
  - exists (length a), a. split; [lia|]. now rewrite shape_end.
  - exists (length a), (a ++ y :: b). split; [rewrite app_length; lia|]. now rewrite shape_at.
Qed.

(** ** bounds 1, 2, .., n *)
Lemma bounds_S n : map S (seq 0 (S n)) = map S (seq 0 n) ++ [S n].
Proof. rewrite seq_S, map_app. reflexivity. Qed.

Lemma bounds_len n : length (map S (seq 0 n)) = n.
Proof. now rewrite map_length, seq_length. Qed.

Lemma prod_snoc l x : prod (l ++ [x]) = prod l * x.
Proof. unfold prod. induction l as [|y l IH]; simpl; [lia|]. rewrite IH. lia. Qed.

Lemma prod_bounds n : prod (map S (seq 0 n)) = fact n.
Proof.
  induction n as [|n IH]; [reflexivity|].
  rewrite bounds_S, prod_snoc, IH. simpl. lia.
Qed.

Lemma bounds_snoc_inv n cs : in_bounds cs (map S (seq 0 (S n))) ->
  exists cs1 j, cs = cs1 ++ [j] /\ in_bounds cs1 (map S (seq 0 n)) /\ j <= n /\ length cs1 = n.
Proof.
  rewrite bounds_S. intros H. apply in_bounds_app_inv in H as [cs1 [cs2 [-> [H1 H2]]]].
  unfold in_bounds in H2. inversion H2 as [|j b t t' Hj Ht]; subst. inversion Ht; subst.
  exists cs1, j. repeat split; auto; [lia|].
  apply in_bounds_length in H1. now rewrite bounds_len in H1.
Qed.

Lemma bounds_snoc n cs1 j : in_bounds cs1 (map S (seq 0 n)) -> j <= n ->
  in_bounds (cs1 ++ [j]) (map S (seq 0 (S n))).
Proof.
  intros H J. rewrite bounds_S. apply in_bounds_app; [assumption|].
  constructor; [lia|constructor].
Qed.

Lemma bounds_0_inv cs : in_bounds cs (map S (seq 0 0)) -> cs = [].
Proof. simpl. intros H. now inversion H. Qed.

(** ** rand.Perm *)
Theorem perm_space_size n : length (all_choices (perm_bounds n)) = fact n.
Proof. rewrite all_choices_length. apply prod_bounds. Qed.

Lemma set_nth_nat_at (a : list nat) x y b : set_nth_nat (length a) x (a ++ y :: b) = a ++ x :: b.
Proof. unfold set_nth_nat. induction a as [|z a IH]; simpl; [reflexivity|]. f_equal. exact IH. Qed.

Lemma perm_step_shape i j m : j <= length m ->
  set_nth_nat j i (m ++ [nth j m 0]) = shape j i m.
Proof.
  intros H. destruct (Nat.eq_dec j (length m)) as [->|N].
  - rewrite shape_end, nth_overflow by lia. apply set_nth_nat_at.
  - destruct (split_at j m) as [a [y [b [-> L]]]]; [lia|]. subst j.
    rewrite shape_at, nth_middle, <- app_assoc. simpl. apply set_nth_nat_at.
Qed.

Lemma perm_snoc : forall cs i j m,
  perm_of_choices i (cs ++ [j]) m =
  let m' := perm_of_choices i cs m in set_nth_nat j (i + length cs) (m' ++ [nth j m' 0]).
Proof.
  induction cs as [|c cs IH]; intros i j m; simpl.
  - now rewrite Nat.add_0_r.
  - rewrite IH. simpl. now rewrite Nat.add_succ_r.
Qed.

Lemma go_perm_snoc cs j : j <= length (go_perm cs) ->
  go_perm (cs ++ [j]) = shape j (length cs) (go_perm cs).
Proof.
  intros H. unfold go_perm in *. rewrite perm_snoc. simpl. now apply perm_step_shape.
Qed.

Theorem go_perm_is_perm n cs : in_bounds cs (perm_bounds n) -> Permutation (go_perm cs) (seq 0 n).
Proof.
  unfold perm_bounds. revert cs. induction n as [|n IH]; intros cs H.
  - apply bounds_0_inv in H. subst. apply Permutation_refl.
  - apply bounds_snoc_inv in H as [cs1 [j [-> [H1 [J L]]]]].
    specialize (IH cs1 H1).
    assert (length (go_perm cs1) = n) as Lm.
    { apply Permutation_length in IH. now rewrite seq_length in IH. }
    rewrite go_perm_snoc by lia. rewrite L, seq_S. simpl.
    eapply perm_trans; [apply shape_perm; lia|]. now apply Permutation_app_tail.
Qed.

Lemma not_in_seq n m : Permutation m (seq 0 n) -> ~ In n m.
Proof.
  intros P I. apply (Permutation_in _ P) in I. apply in_seq in I. lia.
Qed.

Theorem go_perm_injective n cs cs' :
  in_bounds cs (perm_bounds n) -> in_bounds cs' (perm_bounds n) -> go_perm cs = go_perm cs' -> cs = cs'.
Proof.
  revert cs cs'. induction n as [|n IH]; intros cs cs' H H' E.
  - apply bounds_0_inv in H, H'. now subst.
  - unfold perm_bounds in H, H'.
    apply bounds_snoc_inv in H as [cs1 [j [-> [H1 [J L]]]]].
    apply bounds_snoc_inv in H' as [cs1' [j' [-> [H1' [J' L']]]]].
    pose proof (go_perm_is_perm n cs1 H1) as P.
    pose proof (go_perm_is_perm n cs1' H1') as P'.
    assert (length (go_perm cs1) = n) as Lm.
    { apply Permutation_length in P. now rewrite seq_length in P. }
    assert (length (go_perm cs1') = n) as Lm'.
    { apply Permutation_length in P'. now rewrite seq_length in P'. }
    rewrite !go_perm_snoc in E by lia. rewrite L, L' in E.
    apply shape_inj in E; try lia; try (apply not_in_seq; assumption).
    destruct E as [-> E]. f_equal. now apply IH.
Qed.

Theorem go_perm_surjective n p : Permutation p (seq 0 n) -> exists cs, in_bounds cs (perm_bounds n) /\ go_perm cs = p.
Proof.
  unfold perm_bounds. revert p. induction n as [|n IH]; intros p P.
  - apply Permutation_sym, Permutation_nil in P. subst. exists []. split; [constructor|reflexivity].
  - assert (In n p) as I.
    { apply (Permutation_in _ (Permutation_sym P)). apply in_seq. lia. }
    apply shape_surj in I as [j [q [J ->]]].
    assert (Permutation q (seq 0 n)) as Pq.
    { rewrite seq_S in P. simpl in P. apply Permutation_app_inv_r with (l := [n]).
      eapply perm_trans; [|exact P]. apply Permutation_sym. now apply shape_perm. }
    destruct (IH q Pq) as [cs1 [H1 E1]].
    assert (length q = n) as Lq.
    { apply Permutation_length in Pq. now rewrite seq_length in Pq. }
    assert (length cs1 = n) as L.
    { apply in_bounds_length in H1. now rewrite bounds_len in H1. }
    exists (cs1 ++ [j]). split; [apply bounds_snoc; [assumption|lia]|].
    rewrite go_perm_snoc by (rewrite E1; lia). now rewrite E1, L.
Qed.

(** ** Node.RotateNeighbors *)
Theorem rotate_space_size n : length (all_choices (rotate_neighbors_bounds n)) = fact n.
Proof. rewrite all_choices_length. apply prod_bounds. Qed.

Lemma set_nth_at {A} (a : list A) x y b : set_nth (length a) x (a ++ y :: b) = a ++ x :: b.
Proof. unfold set_nth. induction a as [|z a IH]; simpl; [reflexivity|]. f_equal. exact IH. Qed.

Lemma set_nth_length {A} k (x : A) : forall l, length (set_nth k x l) = length l.
Proof.
  unfold set_nth. induction k as [|k IH]; intros [|z l]; simpl; auto.
Qed.

Lemma swap_nth_length {A} i j (l : list A) : length (swap_nth i j l) = length l.
Proof.
  unfold swap_nth. destruct (nth_error l i), (nth_error l j); auto.
  now rewrite !set_nth_length.
Qed.

Lemma set_nth_app {A} k (x : A) l t : k < length l -> set_nth k x (l ++ t) = set_nth k x l ++ t.
Proof.
  intros H. destruct (split_at k l H) as [a [y [b [-> L]]]]. subst k.
  rewrite <- app_assoc. simpl. rewrite !set_nth_at, <- app_assoc. reflexivity.
Qed.

Lemma swap_nth_app {A} i j (l t : list A) : i < length l -> j < length l ->
  swap_nth i j (l ++ t) = swap_nth i j l ++ t.
Proof.
  intros Hi Hj. unfold swap_nth. rewrite !nth_error_app1 by assumption.
  destruct (nth_error l i), (nth_error l j); auto.
  rewrite !set_nth_app; auto. now rewrite set_nth_length.
Qed.

Lemma swap_last_shape {A} j (x : A) q : j <= length q ->
  swap_nth (length q) j (q ++ [x]) = shape j x q.
Proof.
  intros H. unfold swap_nth.
  assert (nth_error (q ++ [x]) (length q) = Some x) as ->.
  { rewrite nth_error_app2 by lia. now rewrite Nat.sub_diag. }
  destruct (Nat.eq_dec j (length q)) as [->|N].
  - assert (nth_error (q ++ [x]) (length q) = Some x) as ->.
    { rewrite nth_error_app2 by lia. now rewrite Nat.sub_diag. }
    rewrite shape_end, !set_nth_at. reflexivity.
  - destruct (split_at j q) as [a [y [b [-> L]]]]; [lia|]. subst j.
    assert (nth_error ((a ++ y :: b) ++ [x]) (length a) = Some y) as ->.
    { rewrite <- app_assoc. rewrite nth_error_app2 by lia. now rewrite Nat.sub_diag. }
    rewrite shape_at, set_nth_at, <- app_assoc. simpl. apply set_nth_at.
Qed.

Lemma rotate_slots_snoc {A} : forall k i cs (l : list A) j, length cs = k ->
  fst (rotate_slots i (S k) (cs ++ [j]) l) = swap_nth (i + k) j (fst (rotate_slots i k cs l)).
Proof.
  induction k as [|k IH]; intros i [|c cs] l j L; simpl in L; try discriminate.
  - simpl. now rewrite Nat.add_0_r.
  - change (fst (rotate_slots (S i) (S k) (cs ++ [j]) (swap_nth i c l)) =
            swap_nth (i + S k) j (fst (rotate_slots (S i) k cs (swap_nth i c l)))).
    rewrite IH by lia. now rewrite Nat.add_succ_r.
Qed.

Lemma rotate_slots_app {A} : forall k i cs (l t : list A),
  Forall2 lt cs (map S (seq i k)) -> i + k <= length l ->
  fst (rotate_slots i k cs (l ++ t)) = fst (rotate_slots i k cs l) ++ t.
Proof.
  induction k as [|k IH]; intros i cs l t H Hl; [reflexivity|].
  simpl in H. inversion H as [|c b cs' bs Hc Hcs]; subst.
  change (fst (rotate_slots (S i) k cs' (swap_nth i c (l ++ t))) =
          fst (rotate_slots (S i) k cs' (swap_nth i c l)) ++ t).
  rewrite swap_nth_app by lia. apply IH; [assumption|]. rewrite swap_nth_length. lia.
Qed.

Lemma rotate_neighbors_snoc {A} (l : list A) x cs j :
  in_bounds cs (map S (seq 0 (length l))) -> j <= length l ->
  rotate_neighbors (cs ++ [j]) (l ++ [x]) = shape j x (rotate_neighbors cs l).
Proof.
  intros H J. unfold rotate_neighbors.
  assert (length cs = length l) as L.
  { apply in_bounds_length in H. now rewrite bounds_len in H. }
  rewrite app_length, Nat.add_1_r. rewrite rotate_slots_snoc by assumption.
  rewrite rotate_slots_app; [|exact H|lia]. simpl.
  set (q := fst (rotate_slots 0 (length l) cs l)).
  assert (length q = length l) as Lq.
  { unfold q. clear. generalize 0 at 1. generalize (length l) at 1. intros k. revert cs l.
    induction k as [|k IH]; intros cs l i; [reflexivity|].
    destruct cs as [|c cs]; [reflexivity|].
    change (length (fst (rotate_slots (S i) k cs (swap_nth i c l))) = length l).
    now rewrite IH, swap_nth_length. }
  rewrite <- Lq. apply swap_last_shape. lia.
Qed.

Lemma app1_length {A} (l : list A) x : length (l ++ [x]) = S (length l).
Proof. rewrite app_length. simpl. lia. Qed.

Theorem rotate_neighbors_is_perm {A} (l : list A) cs :
  in_bounds cs (rotate_neighbors_bounds (length l)) -> Permutation (rotate_neighbors cs l) l.
Proof.
  unfold rotate_neighbors_bounds. revert cs. induction l as [|x l IH] using rev_ind; intros cs H.
  - apply bounds_0_inv in H. subst. apply Permutation_refl.
  - rewrite app1_length in H.
    apply bounds_snoc_inv in H as [cs1 [j [-> [H1 [J L]]]]].
    specialize (IH cs1 H1).
    rewrite rotate_neighbors_snoc by assumption.
    eapply perm_trans; [apply shape_perm|now apply Permutation_app_tail].
    apply Permutation_length in IH. lia.
Qed.

Theorem rotate_neighbors_injective {A} (l : list A) cs cs' : NoDup l ->
  in_bounds cs (rotate_neighbors_bounds (length l)) -> in_bounds cs' (rotate_neighbors_bounds (length l)) ->
  rotate_neighbors cs l = rotate_neighbors cs' l -> cs = cs'.
Proof.
  unfold rotate_neighbors_bounds. revert cs cs'.
  induction l as [|x l IH] using rev_ind; intros cs cs' ND H H' E.
  - apply bounds_0_inv in H, H'. now subst.
  - rewrite app1_length in H, H'.
    apply bounds_snoc_inv in H as [cs1 [j [-> [H1 [J L]]]]].
    apply bounds_snoc_inv in H' as [cs1' [j' [-> [H1' [J' L']]]]].
    pose proof (rotate_neighbors_is_perm l cs1 H1) as P.
    pose proof (rotate_neighbors_is_perm l cs1' H1') as P'.
    pose proof (Permutation_length P) as Lq. pose proof (Permutation_length P') as Lq'.
    assert (NoDup l /\ ~ In x l) as [ND1 NI].
    { apply NoDup_remove in ND. rewrite app_nil_r in ND. exact ND. }
    rewrite !rotate_neighbors_snoc in E by assumption.
    apply shape_inj in E; try lia.
    + destruct E as [-> E]. f_equal. now apply IH.
    + intros I. apply NI. exact (Permutation_in _ P I).
    + intros I. apply NI. exact (Permutation_in _ P' I).
Qed.

Theorem rotate_neighbors_surjective {A} (l p : list A) : NoDup l -> Permutation p l ->
  exists cs, in_bounds cs (rotate_neighbors_bounds (length l)) /\ rotate_neighbors cs l = p.
Proof.
  unfold rotate_neighbors_bounds. intros _. revert p.
  induction l as [|x l IH] using rev_ind; intros p P.
  - apply Permutation_sym, Permutation_nil in P. subst. exists []. split; [constructor|reflexivity].
  - assert (In x p) as I.
    { apply (Permutation_in _ (Permutation_sym P)). apply in_or_app. right. now left. }
    apply shape_surj in I as [j [q [J ->]]].
    assert (Permutation q l) as Pq.
    { apply Permutation_app_inv_r with (l := [x]).
      eapply perm_trans; [|exact P]. apply Permutation_sym. now apply shape_perm. }
    destruct (IH q Pq) as [cs1 [H1 E1]].
    pose proof (Permutation_length Pq) as Lq.
    exists (cs1 ++ [j]). rewrite app1_length.
    split; [apply bounds_snoc; [assumption|lia]|].
    rewrite rotate_neighbors_snoc by (assumption || lia). now rewrite E1.
Qed.
