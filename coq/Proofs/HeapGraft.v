(** Heap model: Tree.GraftTipOnEdge (with the creation of the new tip) keeps [Good]. *)
From Coq Require Import String ZArith QArith Bool Arith Lia Permutation List.
From GT Require Import Base.UTree Model.Reroot Model.Heap Proofs.Enum Proofs.HeapBase Proofs.HeapRep
     Proofs.HeapGood Proofs.HeapGoodRep Proofs.HeapRerootL Proofs.HeapReorder Proofs.HeapUnrootL Proofs.HeapUnroot
     Proofs.HeapCtx.
Import ListNotations.
Local Close Scope Q_scope.

(** resolve lookups through chains of updates, deciding key equalities with lia *)
Ltac look :=
  repeat (rewrite alookup_aupd;
          match goal with
          | |- context [Nat.eqb ?a ?b] =>
            first [ rewrite (proj2 (Nat.eqb_eq a b)) by lia
                  | rewrite (proj2 (Nat.eqb_neq a b)) by lia ]
          end).

Definition halve (i : einfo) : einfo := mkE (half (elen i)) (esup i) (epv i) (ecom i).
Definition e_one : einfo := mkE 1%Q nilv nilv [].
Definition e_half (i : einfo) : einfo := mkE (half (elen i)) nilv nilv [].

Record graft_desc (h h' : heap) (name : string) (e l r : nat) (ei : einfo) (hl hr : hnode) (jl jr : nat) : Prop := {
  gd_nodes : forall x, alookup x (hnodes h') =
    if Nat.eqb x (hnextn h) then Some (mkHN name [] [S (hnextn h)] [hnexte h])
    else if Nat.eqb x (S (hnextn h)) then Some (mkHN EmptyString [] [hnextn h; l; r] [hnexte h; e; S (hnexte h)])
    else if Nat.eqb x l then Some (mkHN (hname hl) (hcom hl) (put_nth jl (S (hnextn h)) (hneigh hl)) (hbr hl))
    else if Nat.eqb x r then Some (mkHN (hname hr) (hcom hr) (put_nth jr (S (hnextn h)) (hneigh hr)) (put_nth jr (S (hnexte h)) (hbr hr)))
    else alookup x (hnodes h);
  gd_edges : forall y, alookup y (hedges h') =
    if Nat.eqb y e then Some (mkHE l (S (hnextn h)) (halve ei))
    else if Nat.eqb y (hnexte h) then Some (mkHE (S (hnextn h)) (hnextn h) e_one)
    else if Nat.eqb y (S (hnexte h)) then Some (mkHE (S (hnextn h)) r (e_half ei))
    else alookup y (hedges h);
  gd_root : hroot h' = hroot h;
  gd_nextn : hnextn h' = S (S (hnextn h));
  gd_nexte : hnexte h' = S (S (hnexte h))
}.

Lemma graft_eval h name e l r ei hl hr jl jr :
  alookup e (hedges h) = Some (mkHE l r ei) ->
  alookup l (hnodes h) = Some hl -> alookup r (hnodes h) = Some hr ->
  l <> r -> l < hnextn h -> r < hnextn h -> e < hnexte h ->
  index_of e (hbr hl) = Some jl -> index_of e (hbr hr) = Some jr ->
  jl < length (hneigh hl) -> jr < length (hneigh hr) -> jr < length (hbr hr) ->
  exists h', graft_new_tip name e h = HOk (hnextn h, hnexte h, S (hnexte h), S (hnextn h), h') /\
             graft_desc h h' name e l r ei hl hr jl jr.
Proof.
  intros He Hl Hr Nlr Ll Lr Le Il Ir Jl Jr Jr'.
  destruct (index_of_spec _ _ _ Il) as [Bl _]. destruct (index_of_spec _ _ _ Ir) as [Br _].
  unfold graft_new_tip, graft_tip_on_edge, new_node, new_edge, edge_index, add_child, set_neigh_at, set_br_at, br_at,
    get_node, get_edge, nth_res.
  repeat first
    [ progress cbn [hbind hleft hright hinfo hnodes hedges hroot hnextn hnexte set_node set_edge fst snd hname hcom hneigh hbr negb]
    | progress look
    | rewrite He | rewrite Hl | rewrite Hr | rewrite Il | rewrite Ir | rewrite Bl | rewrite Br
    | rewrite Nat.eqb_refl
    | rewrite (proj2 (Nat.ltb_lt _ _) Jl) | rewrite (proj2 (Nat.ltb_lt _ _) Jr) | rewrite (proj2 (Nat.ltb_lt _ _) Jr') ].
  eexists. split; [reflexivity|]. constructor.
  - intros x. cbn [hnodes set_node set_edge]. rewrite !alookup_aupd. cbn [app hname hcom hneigh hbr].
    eqb_cases; subst; try lia; try reflexivity.
  - intros y. cbn [hedges set_node set_edge]. rewrite !alookup_aupd. unfold halve, e_half, e_one.
    eqb_cases; subst; try lia; try reflexivity.
  - reflexivity.
  - reflexivity.
  - reflexivity.
Qed.

(** * list facts *)
Lemma set_nth_app {A} (l1 : list A) a l2 x : set_nth (length l1) x (l1 ++ a :: l2) = l1 ++ x :: l2.
Proof. induction l1 as [|b l1 IH]; [reflexivity|]. cbn [length app]. rewrite set_nth_cons, IH. reflexivity. Qed.

Lemma length_set_nth {A} k (x : A) l : length (set_nth k x l) = length l.
Proof.
  revert k. induction l as [|a l IH]; intros k; [rewrite set_nth_nil; reflexivity|].
  destruct k; [reflexivity|]. rewrite set_nth_cons. cbn. rewrite IH. reflexivity.
Qed.

Lemma combine_set_nth_l {A B} k (x : A) (y : B) l m : nth_error m k = Some y ->
  combine (set_nth k x l) m = set_nth k (x, y) (combine l m).
Proof.
  revert k m. induction l as [|a l IH]; intros k m Hk; [rewrite set_nth_nil; cbn; rewrite set_nth_nil; reflexivity|].
  destruct m as [|b m]; [destruct k; discriminate|]. destruct k as [|k]; cbn in Hk.
  - injection Hk as ->. reflexivity.
  - rewrite set_nth_cons. cbn [combine]. rewrite set_nth_cons. f_equal. apply IH. exact Hk.
Qed.

Lemma combine_set_nth_both {A B} k (x : A) (y : B) l m :
  combine (set_nth k x l) (set_nth k y m) = set_nth k (x, y) (combine l m).
Proof.
  revert k m. induction l as [|a l IH]; intros k m; [rewrite set_nth_nil; cbn; rewrite set_nth_nil; reflexivity|].
  destruct m as [|b m]; [rewrite set_nth_nil; cbn; destruct k; [reflexivity|rewrite set_nth_cons; cbn [combine]; rewrite set_nth_nil; reflexivity]|].
  destruct k as [|k]; [reflexivity|]. rewrite !set_nth_cons. cbn [combine]. rewrite set_nth_cons. f_equal. apply IH.
Qed.

Lemma nth_error_app_mid {A} (l1 : list A) a l2 : nth_error (l1 ++ a :: l2) (length l1) = Some a.
Proof. rewrite nth_error_app2 by lia. rewrite Nat.sub_diag. reflexivity. Qed.

Lemma index_of_unique e l j0 : nth_error l j0 = Some e -> (forall j, nth_error l j = Some e -> j = j0) ->
  index_of e l = Some j0.
Proof.
  intros H0 Hu. destruct (index_of e l) as [j|] eqn:E.
  - destruct (index_of_spec _ _ _ E) as [Hj _]. rewrite (Hu j Hj). reflexivity.
  - exfalso. apply (index_of_None _ _ E). eapply nth_error_In. exact H0.
Qed.

Lemma lnup_mid_unique l1 l2 j : lnup (l1 ++ None :: l2) = 1 -> nth_error (l1 ++ None :: l2) j = Some None -> j = length l1.
Proof.
  intros H Hj. eapply (lnup_le1_nth (l1 ++ None :: l2)); [lia|exact Hj|apply nth_error_app_mid].
Qed.

Lemma lnup_split sl : 1 <= lnup sl -> exists l1 l2, sl = l1 ++ None :: l2.
Proof. intros H. apply lnup_pos_in in H. apply in_split in H. exact H. Qed.

(** * the grafted labelled tree *)
Definition graft_wrap (n nn ne ne2 : nat) (name : string) (ei : einfo) (ch : ltree) : ltree :=
  LNode nn EmptyString [] [Some (ne, e_one, LNode n name [] [None]); None; Some (ne2, e_half ei, ch)].

Section Graft.
  Variables (h h' : heap) (lt : ltree) (name : string).
  Hypothesis R : Rep h lt.
  Variables (p : option (nat * nat)) (l : nat) (nm : string) (cm : list string) (l1 l2 : list lslot).
  Variables (e : nat) (ei : einfo) (r : nat) (nmr : string) (cmr : list string) (s1 s2 : list lslot).
  Let ch := LNode r nmr cmr (s1 ++ None :: s2).
  Let sl := l1 ++ Some (e, ei, ch) :: l2.
  Let sub := LNode l nm cm sl.
  Hypothesis Hsub : In (p, sub) (lsubs None lt).
  Variables (hl hr : hnode).
  Hypothesis Hl : alookup l (hnodes h) = Some hl.
  Hypothesis Hr : alookup r (hnodes h) = Some hr.
  Hypothesis D : graft_desc h h' name e l r ei hl hr (length l1) (length s1).

  Let n := hnextn h.
  Let nn := S (hnextn h).
  Let ne := hnexte h.
  Let ne2 := S (hnexte h).
  Let W := graft_wrap n nn ne ne2 name ei ch.
  Let new := LNode l nm cm (l1 ++ Some (e, halve ei, W) :: l2).

  Lemma GF_sub_shape : shape true h p sub.
  Proof. exact (shape_lsubs _ _ _ _ _ _ (rep_shape _ _ R) Hsub). Qed.

  Lemma GF_sub_nd : NoDup (lids sub) /\ NoDup (leids sub).
  Proof.
    split; [eapply lsubs_NoDup; [exact (rep_nd _ _ R)|exact Hsub]|].
    eapply shape_NoDup_leids; [exact GF_sub_shape|]. eapply lsubs_NoDup; [exact (rep_nd _ _ R)|exact Hsub].
  Qed.

  Lemma GF_old_node y : In y (lids lt) -> y < hnextn h.
  Proof. apply (rep_fn _ _ R). Qed.
  Lemma GF_old_edge y : In y (leids lt) -> y < hnexte h.
  Proof. apply (rep_fe _ _ R). Qed.
  Lemma GF_sub_in_n y : In y (lids sub) -> In y (lids lt).
  Proof. intros Hy. eapply lsubs_sub_lids; eassumption. Qed.
  Lemma GF_sub_in_e y : In y (leids sub) -> In y (leids lt).
  Proof. intros Hy. eapply lsubs_sub_leids; eassumption. Qed.

  Lemma GF_lids_sub : lids sub = l :: sids l1 ++ (r :: sids (s1 ++ None :: s2)) ++ sids l2.
  Proof. unfold sub, sl. rewrite lids_eq. fold (sids (l1 ++ Some (e, ei, ch) :: l2)). rewrite sids_app_cons. unfold ch. rewrite lids_eq. reflexivity. Qed.
  Lemma GF_leids_sub : leids sub = seids l1 ++ e :: seids (s1 ++ None :: s2) ++ seids l2.
  Proof. unfold sub, sl. rewrite leids_eq. fold (seids (l1 ++ Some (e, ei, ch) :: l2)). rewrite seids_app_cons. unfold ch. rewrite leids_eq. reflexivity. Qed.
  Lemma GF_lids_new : lids new = l :: sids l1 ++ (nn :: n :: r :: sids (s1 ++ None :: s2)) ++ sids l2.
  Proof.
    unfold new. rewrite lids_eq. fold (sids (l1 ++ Some (e, halve ei, W) :: l2)). rewrite sids_app_cons.
    unfold W, graft_wrap, ch. rewrite !lids_eq. cbn [flat_map app]. rewrite lids_eq. cbn [flat_map app]. rewrite app_nil_r. reflexivity.
  Qed.
  Lemma GF_leids_new : leids new = seids l1 ++ e :: (ne :: ne2 :: seids (s1 ++ None :: s2)) ++ seids l2.
  Proof.
    unfold new. rewrite leids_eq. fold (seids (l1 ++ Some (e, halve ei, W) :: l2)). rewrite seids_app_cons.
    unfold W, graft_wrap, ch. rewrite !leids_eq. cbn [flat_map app]. rewrite !leids_eq. cbn [flat_map app]. rewrite app_nil_r. reflexivity.
  Qed.

  (** membership in the new tree *)
  Lemma GF_in_new_n y : In y (lids new) <-> y = nn \/ y = n \/ In y (lids sub).
  Proof.
    rewrite GF_lids_new, GF_lids_sub. repeat (progress cbn [In] || rewrite in_app_iff). intuition.
  Qed.
  Lemma GF_in_new_e y : In y (leids new) <-> y = ne \/ y = ne2 \/ In y (leids sub).
  Proof.
    rewrite GF_leids_new, GF_leids_sub. repeat (progress cbn [In] || rewrite in_app_iff). intuition.
  Qed.

  Lemma GF_node_same y : In y (lids lt) -> y <> l -> y <> r -> alookup y (hnodes h') = alookup y (hnodes h).
  Proof.
    intros Hy N1 N2. rewrite (gd_nodes _ _ _ _ _ _ _ _ _ _ _ D). pose proof (GF_old_node y Hy).
    destruct (Nat.eqb_spec y (hnextn h)); [lia|]. destruct (Nat.eqb_spec y (S (hnextn h))); [lia|].
    destruct (Nat.eqb_spec y l); [contradiction|]. destruct (Nat.eqb_spec y r); [contradiction|]. reflexivity.
  Qed.
  Lemma GF_edge_same y : In y (leids lt) -> y <> e -> alookup y (hedges h') = alookup y (hedges h).
  Proof.
    intros Hy N1. rewrite (gd_edges _ _ _ _ _ _ _ _ _ _ _ D). pose proof (GF_old_edge y Hy).
    destruct (Nat.eqb_spec y e); [contradiction|]. destruct (Nat.eqb_spec y (hnexte h)); [lia|].
    destruct (Nat.eqb_spec y (S (hnexte h))); [lia|]. reflexivity.
  Qed.

  (** a child slot whose subtree avoids l, r and e is unchanged *)
  Lemma GF_slot_transfer P P' x ce e' ei' ch' :
    (forall y, In y (lids ch') -> In y (lids lt) /\ y <> l /\ y <> r) ->
    (forall y, In y (e' :: leids ch') -> In y (leids lt) /\ y <> e) ->
    P' <> Some ce -> slot_ok true h P x ce (Some (e', ei', ch')) -> slot_ok true h' P' x ce (Some (e', ei', ch')).
  Proof.
    intros Hn He Hne Hok. cbn [slot_ok] in *. destruct Hok as (_ & B2 & B3 & B4 & B5). repeat split; try assumption.
    - eapply edge_ok_eq; [|exact B4]. destruct (He e') as [X Y]; [left; reflexivity|]. rewrite <- B2. apply GF_edge_same; assumption.
    - eapply shape_frame; [| |exact B5].
      + intros y Hy. destruct (Hn y Hy) as (X & Y & Z). apply GF_node_same; assumption.
      + intros y Hy. destruct (He y) as [X Y]; [right; exact Hy|]. apply GF_edge_same; assumption.
  Qed.
End Graft.
