(** Heap model: Tree.GraftTipOnEdge (with the creation of the new tip) keeps [Good]. *)
From Coq Require Import String ZArith QArith Bool Arith Lia Permutation List.
From GT Require Import Base.UTree Model.Reroot Model.Heap Proofs.Enum Proofs.HeapBase Proofs.HeapRep
     Proofs.HeapGood Proofs.HeapGoodRep Proofs.HeapRerootL Proofs.HeapReorder Proofs.HeapUnrootL Proofs.HeapUnroot
     Proofs.HeapCtx.
Import ListNotations.
Local Close Scope Q_scope.

(** resolve lookups through chains of updates, deciding key equalities with lia *)
Ltac look :=
  repeat (rewrite alookup_aupd;
          match goal with
          | |- context [Nat.eqb ?a ?b] =>
            first [ rewrite (proj2 (Nat.eqb_eq a b)) by lia
                  | rewrite (proj2 (Nat.eqb_neq a b)) by lia ]
          end).

Definition halve (i : einfo) : einfo := mkE (half (elen i)) (esup i) (epv i) (ecom i).
Definition e_one : einfo := mkE 1%Q nilv nilv [].
Definition e_half (i : einfo) : einfo := mkE (half (elen i)) nilv nilv [].

Record graft_desc (h h' : heap) (name : string) (e l r : nat) (ei : einfo) (hl hr : hnode) (jl jr : nat) : Prop := {
  gd_nodes : forall x, alookup x (hnodes h') =
    if Nat.eqb x (hnextn h) then Some (mkHN name [] [S (hnextn h)] [hnexte h])
    else if Nat.eqb x (S (hnextn h)) then Some (mkHN EmptyString [] [hnextn h; l; r] [hnexte h; e; S (hnexte h)])
    else if Nat.eqb x l then Some (mkHN (hname hl) (hcom hl) (put_nth jl (S (hnextn h)) (hneigh hl)) (hbr hl))
    else if Nat.eqb x r then Some (mkHN (hname hr) (hcom hr) (put_nth jr (S (hnextn h)) (hneigh hr)) (put_nth jr (S (hnexte h)) (hbr hr)))
    else alookup x (hnodes h);
  gd_edges : forall y, alookup y (hedges h') =
    if Nat.eqb y e then Some (mkHE l (S (hnextn h)) (halve ei))
    else if Nat.eqb y (hnexte h) then Some (mkHE (S (hnextn h)) (hnextn h) e_one)
    else if Nat.eqb y (S (hnexte h)) then Some (mkHE (S (hnextn h)) r (e_half ei))
    else alookup y (hedges h);
  gd_root : hroot h' = hroot h;
  gd_nextn : hnextn h' = S (S (hnextn h));
  gd_nexte : hnexte h' = S (S (hnexte h))
}.

Lemma graft_eval h name e l r ei hl hr jl jr :
  alookup e (hedges h) = Some (mkHE l r ei) ->
  alookup l (hnodes h) = Some hl -> alookup r (hnodes h) = Some hr ->
  l <> r -> l < hnextn h -> r < hnextn h -> e < hnexte h ->
  index_of e (hbr hl) = Some jl -> index_of e (hbr hr) = Some jr ->
  jl < length (hneigh hl) -> jr < length (hneigh hr) -> jr < length (hbr hr) ->
  exists h', graft_new_tip name e h = HOk (hnextn h, hnexte h, S (hnexte h), S (hnextn h), h') /\
             graft_desc h h' name e l r ei hl hr jl jr.
Proof.
  intros He Hl Hr Nlr Ll Lr Le Il Ir Jl Jr Jr'.
  destruct (index_of_spec _ _ _ Il) as [Bl _]. destruct (index_of_spec _ _ _ Ir) as [Br _].
  unfold graft_new_tip, graft_tip_on_edge, new_node, new_edge, edge_index, add_child, set_neigh_at, set_br_at, br_at,
    get_node, get_edge, nth_res.
  repeat first
    [ progress cbn [hbind hleft hright hinfo hnodes hedges hroot hnextn hnexte set_node set_edge fst snd hname hcom hneigh hbr negb]
    | progress look
    | rewrite He | rewrite Hl | rewrite Hr | rewrite Il | rewrite Ir | rewrite Bl | rewrite Br
    | rewrite Nat.eqb_refl
    | rewrite (proj2 (Nat.ltb_lt _ _) Jl) | rewrite (proj2 (Nat.ltb_lt _ _) Jr) | rewrite (proj2 (Nat.ltb_lt _ _) Jr') ].
  eexists. split; [reflexivity|]. constructor.
  - intros x. cbn [hnodes set_node set_edge]. rewrite !alookup_aupd. cbn [app hname hcom hneigh hbr].
    eqb_cases; subst; try lia; try reflexivity.
  - intros y. cbn [hedges set_node set_edge]. rewrite !alookup_aupd. unfold halve, e_half, e_one.
    eqb_cases; subst; try lia; try reflexivity.
  - reflexivity.
  - reflexivity.
  - reflexivity.
Qed.

(** * list facts *)
Lemma set_nth_app {A} (l1 : list A) a l2 x : set_nth (length l1) x (l1 ++ a :: l2) = l1 ++ x :: l2.
Proof. induction l1 as [|b l1 IH]; [reflexivity|]. cbn [length app]. rewrite set_nth_cons, IH. reflexivity. Qed.

Lemma length_set_nth {A} k (x : A) l : length (set_nth k x l) = length l.
Proof.
  revert k. induction l as [|a l IH]; intros k; [rewrite set_nth_nil; reflexivity|].
  destruct k; [reflexivity|]. rewrite set_nth_cons. cbn. rewrite IH. reflexivity.
Qed.

Lemma combine_set_nth_l {A B} k (x : A) (y : B) l m : nth_error m k = Some y ->
  combine (set_nth k x l) m = set_nth k (x, y) (combine l m).
Proof.
  revert k m. induction l as [|a l IH]; intros k m Hk; [rewrite set_nth_nil; cbn; rewrite set_nth_nil; reflexivity|].
  destruct m as [|b m]; [destruct k; discriminate|]. destruct k as [|k]; cbn in Hk.
  - injection Hk as ->. reflexivity.
  - rewrite set_nth_cons. cbn [combine]. rewrite set_nth_cons. f_equal. apply IH. exact Hk.
Qed.

Lemma combine_set_nth_both {A B} k (x : A) (y : B) l m :
  combine (set_nth k x l) (set_nth k y m) = set_nth k (x, y) (combine l m).
Proof.
  revert k m. induction l as [|a l IH]; intros k m; [rewrite set_nth_nil; cbn; rewrite set_nth_nil; reflexivity|].
  destruct m as [|b m]; [rewrite set_nth_nil; cbn; destruct k; [reflexivity|rewrite set_nth_cons; cbn [combine]; rewrite set_nth_nil; reflexivity]|].
  destruct k as [|k]; [reflexivity|]. rewrite !set_nth_cons. cbn [combine]. rewrite set_nth_cons. f_equal. apply IH.
Qed.

Lemma nth_error_app_mid {A} (l1 : list A) a l2 : nth_error (l1 ++ a :: l2) (length l1) = Some a.
Proof. rewrite nth_error_app2 by lia. rewrite Nat.sub_diag. reflexivity. Qed.

Lemma index_of_unique e l j0 : nth_error l j0 = Some e -> (forall j, nth_error l j = Some e -> j = j0) ->
  index_of e l = Some j0.
Proof.
  intros H0 Hu. destruct (index_of e l) as [j|] eqn:E.
  - destruct (index_of_spec _ _ _ E) as [Hj _]. rewrite (Hu j Hj). reflexivity.
  - exfalso. apply (index_of_None _ _ E). eapply nth_error_In. exact H0.
Qed.

Lemma lnup_mid_unique l1 l2 j : lnup (l1 ++ None :: l2) = 1 -> nth_error (l1 ++ None :: l2) j = Some None -> j = length l1.
Proof.
  intros H Hj. eapply (lnup_le1_nth (l1 ++ None :: l2)); [lia|exact Hj|apply nth_error_app_mid].
Qed.

Lemma lnup_split sl : 1 <= lnup sl -> exists l1 l2, sl = l1 ++ None :: l2.
Proof. intros H. apply lnup_pos_in in H. apply in_split in H. exact H. Qed.

Lemma Forall2_cons_inv_r {A B} (P : A -> B -> Prop) l b l' :
  Forall2 P l (b :: l') -> exists a l0, l = a :: l0 /\ P a b /\ Forall2 P l0 l'.
Proof. intros H. inversion H; subst. eauto. Qed.

(** * the grafted labelled tree *)
Definition graft_wrap (n nn ne ne2 : nat) (name : string) (ei : einfo) (ch : ltree) : ltree :=
  LNode nn EmptyString [] [Some (ne, e_one, LNode n name [] [None]); None; Some (ne2, e_half ei, ch)].

Section Graft.
  Variables (h h' : heap) (lt : ltree) (name : string).
  Hypothesis R : Rep h lt.
  Variables (p : option (nat * nat)) (l : nat) (nm : string) (cm : list string) (l1 l2 : list lslot).
  Variables (e : nat) (ei : einfo) (r : nat) (nmr : string) (cmr : list string) (s1 s2 : list lslot).
  Let ch := LNode r nmr cmr (s1 ++ None :: s2).
  Let sl := l1 ++ Some (e, ei, ch) :: l2.
  Let sub := LNode l nm cm sl.
  Hypothesis Hsub : In (p, sub) (lsubs None lt).
  Variables (hl hr : hnode).
  Hypothesis Hl : alookup l (hnodes h) = Some hl.
  Hypothesis Hr : alookup r (hnodes h) = Some hr.
  Hypothesis D : graft_desc h h' name e l r ei hl hr (length l1) (length s1).

  Let n := hnextn h.
  Let nn := S (hnextn h).
  Let ne := hnexte h.
  Let ne2 := S (hnexte h).
  Let W := graft_wrap n nn ne ne2 name ei ch.
  Let new := LNode l nm cm (l1 ++ Some (e, halve ei, W) :: l2).

  Lemma GF_sub_shape : shape true h p sub.
  Proof. exact (shape_lsubs _ _ _ _ _ _ (rep_shape _ _ R) Hsub). Qed.

  Lemma GF_sub_nd : NoDup (lids sub) /\ NoDup (leids sub).
  Proof.
    split; [eapply lsubs_NoDup; [exact (rep_nd _ _ R)|exact Hsub]|].
    eapply shape_NoDup_leids; [exact GF_sub_shape|]. eapply lsubs_NoDup; [exact (rep_nd _ _ R)|exact Hsub].
  Qed.

  Lemma GF_old_node y : In y (lids lt) -> y < hnextn h.
  Proof. apply (rep_fn _ _ R). Qed.
  Lemma GF_old_edge y : In y (leids lt) -> y < hnexte h.
  Proof. apply (rep_fe _ _ R). Qed.
  Lemma GF_sub_in_n y : In y (lids sub) -> In y (lids lt).
  Proof. intros Hy. eapply lsubs_sub_lids; eassumption. Qed.
  Lemma GF_sub_in_e y : In y (leids sub) -> In y (leids lt).
  Proof. intros Hy. eapply lsubs_sub_leids; eassumption. Qed.

  Lemma GF_lids_sub : lids sub = l :: sids l1 ++ (r :: sids (s1 ++ None :: s2)) ++ sids l2.
  Proof. unfold sub, sl. rewrite lids_eq. fold (sids (l1 ++ Some (e, ei, ch) :: l2)). rewrite sids_app_cons. unfold ch. rewrite lids_eq. reflexivity. Qed.
  Lemma GF_leids_sub : leids sub = seids l1 ++ e :: seids (s1 ++ None :: s2) ++ seids l2.
  Proof. unfold sub, sl. rewrite leids_eq. fold (seids (l1 ++ Some (e, ei, ch) :: l2)). rewrite seids_app_cons. unfold ch. rewrite leids_eq. reflexivity. Qed.
  Lemma GF_lids_new : lids new = l :: sids l1 ++ (nn :: n :: r :: sids (s1 ++ None :: s2)) ++ sids l2.
  Proof.
    unfold new. rewrite lids_eq. fold (sids (l1 ++ Some (e, halve ei, W) :: l2)). rewrite sids_app_cons.
    unfold W, graft_wrap, ch. rewrite !lids_eq. cbn [flat_map app]. rewrite lids_eq. cbn [flat_map app]. rewrite app_nil_r. reflexivity.
  Qed.
  Lemma GF_leids_new : leids new = seids l1 ++ e :: (ne :: ne2 :: seids (s1 ++ None :: s2)) ++ seids l2.
  Proof.
    unfold new. rewrite leids_eq. fold (seids (l1 ++ Some (e, halve ei, W) :: l2)). rewrite seids_app_cons.
    unfold W, graft_wrap, ch. rewrite !leids_eq. cbn [flat_map app]. rewrite !leids_eq. cbn [flat_map app]. rewrite app_nil_r. reflexivity.
  Qed.

  (** membership in the new tree *)
  Lemma GF_in_new_n y : In y (lids new) <-> y = nn \/ y = n \/ In y (lids sub).
  Proof.
    rewrite GF_lids_new, GF_lids_sub. repeat (progress cbn [In] || rewrite in_app_iff). intuition.
  Qed.
  Lemma GF_in_new_e y : In y (leids new) <-> y = ne \/ y = ne2 \/ In y (leids sub).
  Proof.
    rewrite GF_leids_new, GF_leids_sub. repeat (progress cbn [In] || rewrite in_app_iff). intuition.
  Qed.

  Lemma GF_node_same y : In y (lids lt) -> y <> l -> y <> r -> alookup y (hnodes h') = alookup y (hnodes h).
  Proof.
    intros Hy N1 N2. rewrite (gd_nodes _ _ _ _ _ _ _ _ _ _ _ D). pose proof (GF_old_node y Hy).
    destruct (Nat.eqb_spec y (hnextn h)); [lia|]. destruct (Nat.eqb_spec y (S (hnextn h))); [lia|].
    destruct (Nat.eqb_spec y l); [contradiction|]. destruct (Nat.eqb_spec y r); [contradiction|]. reflexivity.
  Qed.
  Lemma GF_edge_same y : In y (leids lt) -> y <> e -> alookup y (hedges h') = alookup y (hedges h).
  Proof.
    intros Hy N1. rewrite (gd_edges _ _ _ _ _ _ _ _ _ _ _ D). pose proof (GF_old_edge y Hy).
    destruct (Nat.eqb_spec y e); [contradiction|]. destruct (Nat.eqb_spec y (hnexte h)); [lia|].
    destruct (Nat.eqb_spec y (S (hnexte h))); [lia|]. reflexivity.
  Qed.

  (** a child slot whose subtree avoids l, r and e is unchanged *)
  Lemma GF_slot_transfer P P' x ce e' ei' ch' :
    (forall y, In y (lids ch') -> In y (lids lt) /\ y <> l /\ y <> r) ->
    (forall y, In y (e' :: leids ch') -> In y (leids lt) /\ y <> e) ->
    P' <> Some ce -> slot_ok true h P x ce (Some (e', ei', ch')) -> slot_ok true h' P' x ce (Some (e', ei', ch')).
  Proof.
    intros Hn He Hne Hok. cbn [slot_ok] in *. destruct Hok as (_ & B2 & B3 & B4 & B5). repeat split; try assumption.
    - eapply edge_ok_eq; [|exact B4]. destruct (He e') as [X Y]; [left; reflexivity|]. rewrite <- B2. apply GF_edge_same; assumption.
    - eapply shape_frame; [| |exact B5].
      + intros y Hy. destruct (Hn y Hy) as (X & Y & Z). apply GF_node_same; assumption.
      + intros y Hy. destruct (He y) as [X Y]; [right; exact Hy|]. apply GF_edge_same; assumption.
  Qed.

  Lemma GF_disj_n : l <> r /\
    (forall y, In y (sids l1) \/ In y (sids l2) \/ In y (sids (s1 ++ None :: s2)) -> In y (lids sub) /\ y <> l /\ y <> r).
  Proof.
    destruct GF_sub_nd as [Nd _]. pose proof GF_lids_sub as E. rewrite E in Nd.
    apply NoDup_cons_iff in Nd. destruct Nd as [A1 A2]. apply NoDup_app_iff in A2. destruct A2 as (B1 & B2 & B3).
    apply NoDup_app_iff in B2. destruct B2 as (C1 & C2 & C3). apply NoDup_cons_iff in C1. destruct C1 as [D1 D2].
    split.
    - intros E0. apply A1. rewrite E0. apply in_or_app. right. apply in_or_app. left. left. reflexivity.
    - intros y Hy. split; [rewrite E; right; rewrite !in_app_iff; cbn [In]; tauto|]. split; intros ->.
      + apply A1. rewrite !in_app_iff. cbn [In]. tauto.
      + destruct Hy as [Hy|[Hy|Hy]].
        * apply (B3 r Hy). apply in_or_app. left. left. reflexivity.
        * apply (C3 r); [left; reflexivity|exact Hy].
        * exact (D1 Hy).
  Qed.

  Lemma GF_disj_e : forall y, In y (seids l1) \/ In y (seids l2) \/ In y (seids (s1 ++ None :: s2)) -> In y (leids sub) /\ y <> e.
  Proof.
    destruct GF_sub_nd as [_ Nd]. pose proof GF_leids_sub as E. rewrite E in Nd.
    apply NoDup_app_iff in Nd. destruct Nd as (B1 & B2 & B3). apply NoDup_cons_iff in B2. destruct B2 as [C1 C2].
    intros y Hy. split; [rewrite E; rewrite !in_app_iff; cbn [In]; rewrite in_app_iff; tauto|]. intros ->.
    destruct Hy as [Hy|[Hy|Hy]].
    - apply (B3 e Hy). left. reflexivity.
    - apply C1. apply in_or_app. right. exact Hy.
    - apply C1. apply in_or_app. left. exact Hy.
  Qed.

  Lemma GF_shape_new : shape true h' p new.
  Proof.
    pose proof GF_sub_shape as Sh. unfold sub in Sh. apply shape_unfold in Sh. destruct Sh as [hl0 (A1 & A2 & A3 & A4 & A5)].
    rewrite Hl in A1. injection A1 as <-.
    unfold sl in A5. apply Forall2_app_inv_r in A5. destruct A5 as (c1 & c2' & F1 & F2 & Ec).
    apply Forall2_cons_inv_r in F2. destruct F2 as (ce & c2 & Ec2 & Ok0 & F2'). rewrite Ec2 in Ec. clear Ec2 c2'.
    destruct ce as [r0 e0]. cbn [slot_ok fst snd] in Ok0. destruct Ok0 as (P0 & Ee & Er & [ed (E1 & E2 & E3 & E4)] & Shc).
    subst e0. unfold ch in Er. cbn [lid] in Er. subst r0.
    pose proof (Forall2_length' _ _ _ F1) as Lc1.
    pose proof Shc as Shc0. unfold ch in Shc. apply shape_unfold in Shc. destruct Shc as [hr0 (B1 & B2 & B3 & B4 & B5)].
    rewrite Hr in B1. injection B1 as <-.
    apply Forall2_app_inv_r in B5. destruct B5 as (d1 & d2' & G1 & G2 & Ed).
    apply Forall2_cons_inv_r in G2. destruct G2 as (de & d2 & Ed2 & Ok1 & G2'). rewrite Ed2 in Ed. clear Ed2 d2'.
    cbn [slot_ok] in Ok1. injection Ok1 as <-.
    pose proof (Forall2_length' _ _ _ G1) as Ld1.
    destruct GF_disj_n as [Nlr Dn]. pose proof GF_disj_e as De.
    (* lookups in the new heap *)
    assert (Ll : l < hnextn h) by (apply GF_old_node, GF_sub_in_n; rewrite GF_lids_sub; left; reflexivity).
    assert (Lr : r < hnextn h).
    { apply GF_old_node, GF_sub_in_n. rewrite GF_lids_sub. right. apply in_or_app. right. left. reflexivity. }
    assert (Le : e < hnexte h).
    { apply GF_old_edge, GF_sub_in_e. rewrite GF_leids_sub. apply in_or_app. right. left. reflexivity. }
    assert (Nl' : alookup l (hnodes h') = Some (mkHN (hname hl) (hcom hl) (put_nth (length l1) nn (hneigh hl)) (hbr hl))).
    { rewrite (gd_nodes _ _ _ _ _ _ _ _ _ _ _ D). destruct (Nat.eqb_spec l (hnextn h)); [lia|]. destruct (Nat.eqb_spec l (S (hnextn h))); [lia|].
      rewrite Nat.eqb_refl. reflexivity. }
    assert (Nr' : alookup r (hnodes h') = Some (mkHN (hname hr) (hcom hr) (put_nth (length s1) nn (hneigh hr)) (put_nth (length s1) ne2 (hbr hr)))).
    { rewrite (gd_nodes _ _ _ _ _ _ _ _ _ _ _ D). destruct (Nat.eqb_spec r (hnextn h)); [lia|]. destruct (Nat.eqb_spec r (S (hnextn h))); [lia|].
      destruct (Nat.eqb_spec r l); [congruence|]. rewrite Nat.eqb_refl. reflexivity. }
    assert (Nn' : alookup n (hnodes h') = Some (mkHN name [] [nn] [ne])).
    { rewrite (gd_nodes _ _ _ _ _ _ _ _ _ _ _ D). unfold n. rewrite Nat.eqb_refl. reflexivity. }
    assert (Nnn' : alookup nn (hnodes h') = Some (mkHN EmptyString [] [n; l; r] [ne; e; ne2])).
    { rewrite (gd_nodes _ _ _ _ _ _ _ _ _ _ _ D). unfold nn. destruct (Nat.eqb_spec (S (hnextn h)) (hnextn h)); [lia|]. rewrite Nat.eqb_refl. reflexivity. }
    assert (Ee' : alookup e (hedges h') = Some (mkHE l nn (halve ei))).
    { rewrite (gd_edges _ _ _ _ _ _ _ _ _ _ _ D), Nat.eqb_refl. reflexivity. }
    assert (Ene' : alookup ne (hedges h') = Some (mkHE nn n e_one)).
    { rewrite (gd_edges _ _ _ _ _ _ _ _ _ _ _ D). unfold ne. destruct (Nat.eqb_spec (hnexte h) e); [lia|]. rewrite Nat.eqb_refl. reflexivity. }
    assert (Ene2' : alookup ne2 (hedges h') = Some (mkHE nn r (e_half ei))).
    { rewrite (gd_edges _ _ _ _ _ _ _ _ _ _ _ D). unfold ne2. destruct (Nat.eqb_spec (S (hnexte h)) e); [lia|].
      destruct (Nat.eqb_spec (S (hnexte h)) (hnexte h)); [lia|]. rewrite Nat.eqb_refl. reflexivity. }
    (* the slots of l and r in the new heap *)
    assert (Sl' : combine (put_nth (length l1) nn (hneigh hl)) (hbr hl) = c1 ++ (nn, e) :: c2).
    { unfold put_nth. rewrite (combine_set_nth_l _ _ e).
      - rewrite Ec, <- Lc1. apply set_nth_app.
      - rewrite <- (slots_of_snd hl A4). unfold slots_of. rewrite Ec, nth_error_map, <- Lc1, nth_error_app_mid. reflexivity. }
    assert (Sr' : combine (put_nth (length s1) nn (hneigh hr)) (put_nth (length s1) ne2 (hbr hr)) = d1 ++ (nn, ne2) :: d2).
    { unfold put_nth. rewrite combine_set_nth_both. rewrite Ed, <- Ld1. apply set_nth_app. }
    (* transfer of the untouched child slots *)
    assert (Tl : forall P' (cs : list (nat * nat)) (ls : list lslot),
               (forall y, In y (sids ls) -> In y (sids l1) \/ In y (sids l2)) ->
               (forall y, In y (seids ls) -> In y (seids l1) \/ In y (seids l2)) ->
               (forall ce, In ce cs -> P' <> Some ce \/ P' = p) ->
               Forall2 (slot_ok true h p l) cs ls -> P' = p -> Forall2 (slot_ok true h' P' l) cs ls).
    { intros P' cs ls In1 In2 _ F ->. eapply Forall2_impl_r; [exact F|]. intros ce s Hs Hok.
      destruct s as [[[e' ei'] ch']|]; [|exact Hok].
      eapply GF_slot_transfer; [| | |exact Hok].
      - intros y Hy. destruct (Dn y) as (X & Y & Z).
        { destruct (In1 y (in_sids _ _ _ _ _ Hs Hy)); tauto. }
        split; [apply GF_sub_in_n; exact X|split; assumption].
      - intros y Hy. destruct (De y) as (X & Y).
        { assert (In y (seids ls)) as Hy' by (destruct Hy as [<-|Hy]; [eapply in_seids_here|eapply in_seids]; eassumption).
          destruct (In2 y Hy'); tauto. }
        split; [apply GF_sub_in_e; exact X|exact Y].
      - cbn in Hok. apply Hok. }
    assert (Shch : shape true h' (Some (nn, ne2)) ch).
    { unfold ch. apply shape_unfold. eexists. split; [exact Nr'|]. cbn [hname hcom hneigh hbr].
      split; [exact B2|]. split; [exact B3|]. split; [unfold put_nth; rewrite !length_set_nth; exact B4|].
      rewrite Sr'. apply Forall2_app; [|constructor; [reflexivity|]].
      - eapply Forall2_impl_r; [exact G1|]. intros ce s Hs Hok.
        destruct s as [[[e' ei'] ch']|]; [|exfalso].
        + eapply GF_slot_transfer; [| | |exact Hok].
          * intros y Hy. destruct (Dn y) as (X & Y & Z).
            { right. right. rewrite sids_app. apply in_or_app. left. eapply in_sids; eassumption. }
            split; [apply GF_sub_in_n; exact X|split; assumption].
          * intros y Hy. destruct (De y) as (X & Y).
            { right. right. rewrite seids_app. apply in_or_app. left. destruct Hy as [<-|Hy]; [eapply in_seids_here|eapply in_seids]; eassumption. }
            split; [apply GF_sub_in_e; exact X|exact Y].
          * destruct ce as [c0 e0']. cbn [slot_ok fst snd] in Hok. destruct Hok as (_ & E5 & _). intros [= E6 E7].
            destruct (De e') as (X & _).
            { right. right. rewrite seids_app. apply in_or_app. left. eapply in_seids_here. exact Hs. }
            apply GF_sub_in_e, GF_old_edge in X. unfold ne2 in E7. lia.
        + (* a second parent slot in r: excluded by lwf_sub *)
          assert (Wch : lwf_sub ch).
          { destruct (lwf_sub_lsubs lt None (Some (l, e)) ch (or_introl (rep_wf _ _ R))) as [X|X]; [|discriminate|exact X].
            eapply lsubs_trans; [exact Hsub|]. unfold sub, sl. eapply lsubs_child. apply in_or_app. right. left. reflexivity. }
          unfold ch in Wch. apply lwf_sub_iff in Wch. destruct Wch as [W1 _]. rewrite lnup_app in W1.
          assert (1 <= lnup s1) by (destruct (In_nth_error _ _ Hs) as [j Hj]; unfold lnup; clear - Hs;
            induction s1 as [|a t IHt]; [destruct Hs|destruct Hs as [->|Hs]; cbn; [lia|destruct a; cbn; [apply IHt; exact Hs|lia]]]).
          unfold lnup in W1 at 2. cbn in W1. lia.
      - eapply Forall2_impl_r; [exact G2'|]. intros ce s Hs Hok.
        destruct s as [[[e' ei'] ch']|]; [|exfalso].
        + eapply GF_slot_transfer; [| | |exact Hok].
          * intros y Hy. destruct (Dn y) as (X & Y & Z).
            { right. right. rewrite sids_app. apply in_or_app. right. cbn. eapply in_sids; eassumption. }
            split; [apply GF_sub_in_n; exact X|split; assumption].
          * intros y Hy. destruct (De y) as (X & Y).
            { right. right. rewrite seids_app. apply in_or_app. right. cbn. destruct Hy as [<-|Hy]; [eapply in_seids_here|eapply in_seids]; eassumption. }
            split; [apply GF_sub_in_e; exact X|exact Y].
          * destruct ce as [c0 e0']. cbn [slot_ok fst snd] in Hok. destruct Hok as (_ & E5 & _). intros [= E6 E7].
            destruct (De e') as (X & _).
            { right. right. rewrite seids_app. apply in_or_app. right. cbn. eapply in_seids_here. exact Hs. }
            apply GF_sub_in_e, GF_old_edge in X. unfold ne2 in E7. lia.
        + assert (Wch : lwf_sub ch).
          { destruct (lwf_sub_lsubs lt None (Some (l, e)) ch (or_introl (rep_wf _ _ R))) as [X|X]; [|discriminate|exact X].
            eapply lsubs_trans; [exact Hsub|]. unfold sub, sl. eapply lsubs_child. apply in_or_app. right. left. reflexivity. }
          unfold ch in Wch. apply lwf_sub_iff in Wch. destruct Wch as [W1 _]. rewrite lnup_app in W1.
          assert (1 <= lnup s2) by (clear - Hs;
            induction s2 as [|a t IHt]; [destruct Hs|destruct Hs as [->|Hs]; unfold lnup in *; cbn; [lia|destruct a; cbn; [apply IHt; exact Hs|lia]]]).
          unfold lnup in W1 at 2. cbn in W1. unfold lnup in H. lia. }
    (* the new node *)
    assert (ShW : shape true h' (Some (l, e)) W).
    { unfold W, graft_wrap. apply shape_unfold. eexists. split; [exact Nnn'|]. cbn [hname hcom hneigh hbr combine].
      split; [reflexivity|]. split; [reflexivity|]. split; [reflexivity|].
      constructor; [|constructor; [reflexivity|constructor; [|constructor]]].
      - cbn [slot_ok fst snd lid]. split; [intros [= X _]; unfold n in X; lia|]. split; [reflexivity|]. split; [reflexivity|].
        split; [eexists; split; [exact Ene'|]; repeat split|].
        apply shape_unfold. eexists. split; [exact Nn'|]. cbn [hname hcom hneigh hbr combine]. repeat split.
        constructor; [reflexivity|constructor].
      - cbn [slot_ok fst snd]. split; [intros [= X _]; congruence|]. split; [reflexivity|]. split; [reflexivity|].
        split; [eexists; split; [exact Ene2'|]; repeat split|]. exact Shch. }
    (* the node l *)
    unfold new. apply shape_unfold. eexists. split; [exact Nl'|]. cbn [hname hcom hneigh hbr].
    split; [exact A2|]. split; [exact A3|]. split; [unfold put_nth; rewrite length_set_nth; exact A4|].
    rewrite Sl'. apply Forall2_app; [|constructor].
    - apply (Tl p c1 l1); tauto.
    - cbn [slot_ok fst snd]. split.
      { destruct p as [[pp pe]|]; [|discriminate]. intros [= X _].
        destruct (Rep_parent h lt R pp pe sub Hsub) as (hm & ed' & P1 & _).
        assert (pp < hnextn h) by (apply GF_old_node; apply (rep_nodes _ _ R); congruence). unfold nn in X. lia. }
      split; [reflexivity|]. split; [reflexivity|]. split; [eexists; split; [exact Ee'|]; repeat split|]. exact ShW.
    - apply (Tl p c2 l2); tauto.
  Qed.
End Graft.

(** * where an edge sits in the br arrays of its two ends *)
Lemma nth_br_slot hn j e : length (hneigh hn) = length (hbr hn) -> nth_error (hbr hn) j = Some e ->
  exists x, nth_error (slots_of hn) j = Some (x, e).
Proof.
  intros Hl Hj. rewrite <- (slots_of_snd hn Hl), nth_error_map in Hj.
  destruct (nth_error (slots_of hn) j) as [[x e']|]; [|discriminate]. cbn in Hj. injection Hj as ->. eauto.
Qed.

Lemma br_unique_child h lt p l nm cm sl hl e ei ch j0 : Rep h lt ->
  In (p, LNode l nm cm sl) (lsubs None lt) -> alookup l (hnodes h) = Some hl ->
  nth_error sl j0 = Some (Some (e, ei, ch)) ->
  forall j, nth_error (hbr hl) j = Some e -> j = j0.
Proof.
  intros R Hsub Hl Hj0 j Hj.
  pose proof (shape_lsubs _ _ _ _ _ _ (rep_shape _ _ R) Hsub) as Sh. pose proof Sh as Sh0.
  apply shape_unfold in Sh. destruct Sh as [hl0 (A1 & A2 & A3 & A4 & A5)]. rewrite Hl in A1. injection A1 as <-.
  destruct (nth_br_slot hl j e A4 Hj) as [x Hx]. destruct (Forall2_nth _ _ _ _ _ A5 Hx) as [s [Hs Hok]].
  assert (Nd : NoDup (lids (LNode l nm cm sl))) by (eapply lsubs_NoDup; [exact (rep_nd _ _ R)|exact Hsub]).
  pose proof (shape_NoDup_leids _ _ _ Sh0 Nd) as Ned. rewrite leids_eq in Ned.
  destruct s as [[[e' ei'] ch']|]; cbn [slot_ok fst snd] in Hok.
  - destruct Hok as (_ & -> & _). eapply (NoDup_flat_map_nth _ _ _ _ _ _ e Ned Hs Hj0); left; reflexivity.
  - exfalso. subst p. destruct (Rep_parent h lt R x e _ Hsub) as (hm & ed & P1 & P2 & P3 & P4 & P5 & P6). cbn [lid] in P5.
    destruct (Forall2_nth_r _ _ _ _ _ A5 Hj0) as [[c0 e0] [_ Ok0]]. cbn [slot_ok fst snd] in Ok0.
    destruct Ok0 as (_ & E0 & B3 & [ed' (B4 & _ & _ & B7)] & _). subst e0. rewrite P3 in B4. injection B4 as <-.
    eapply (lids_head_notin _ _ _ _ Nd); [eapply nth_error_In; exact Hj0|]. rewrite <- P5, B7, <- B3. apply lid_in_lids.
Qed.

Lemma br_unique_parent h lt l e r nmr cmr slr hr j1 : Rep h lt ->
  In (Some (l, e), LNode r nmr cmr slr) (lsubs None lt) -> alookup r (hnodes h) = Some hr ->
  nth_error slr j1 = Some None ->
  forall j, nth_error (hbr hr) j = Some e -> j = j1.
Proof.
  intros R Hsub Hr Hj1 j Hj.
  pose proof (shape_lsubs _ _ _ _ _ _ (rep_shape _ _ R) Hsub) as Sh.
  apply shape_unfold in Sh. destruct Sh as [hr0 (A1 & A2 & A3 & A4 & A5)]. rewrite Hr in A1. injection A1 as <-.
  destruct (nth_br_slot hr j e A4 Hj) as [x Hx]. destruct (Forall2_nth _ _ _ _ _ A5 Hx) as [s [Hs Hok]].
  destruct (lwf_sub_lsubs lt None _ _ (or_introl (rep_wf _ _ R)) Hsub) as [E|W]; [discriminate|].
  apply lwf_sub_iff in W. destruct W as [W1 _].
  destruct s as [[[e' ei'] ch']|]; cbn [slot_ok fst snd] in Hok.
  - exfalso. destruct Hok as (_ & -> & B3 & [ed' (B4 & _ & B6 & B7)] & _).
    destruct (Rep_parent h lt R l e _ Hsub) as (hm & ed & P1 & P2 & P3 & P4 & P5 & P6). cbn [lid] in P5, P6.
    rewrite P3 in B4. injection B4 as <-. apply P6. rewrite lids_eq. left. congruence.
  - eapply (lnup_le1_nth slr); [lia|exact Hs|exact Hj1].
Qed.

(** * GraftTipOnEdge keeps the representation *)
Theorem graft_new_tip_Rep_strong h lt name e : Rep h lt -> alookup e (hedges h) <> None ->
  exists h' p l nm cm l1 l2 ei ch,
    In (p, LNode l nm cm (l1 ++ Some (e, ei, ch) :: l2)) (lsubs None lt) /\
    graft_new_tip name e h = HOk (hnextn h, hnexte h, S (hnexte h), S (hnextn h), h') /\
    Rep h' (lreplace l (LNode l nm cm (l1 ++ Some (e, halve ei, graft_wrap (hnextn h) (S (hnextn h)) (hnexte h) (S (hnexte h)) name ei ch) :: l2)) lt).
Proof.
  intros R He. apply (rep_edges _ _ R) in He.
  destruct (in_leids_lsubs lt None e He) as (p & l & nm & cm & sl0 & ei & ch0 & Hsub & Hs).
  destruct (in_split _ _ Hs) as [l1 [l2 Esl]]. subst sl0.
  destruct ch0 as [r nmr cmr slr].
  assert (Hsubr : In (Some (l, e), LNode r nmr cmr slr) (lsubs None lt)).
  { eapply lsubs_trans; [exact Hsub|]. eapply lsubs_child. exact Hs. }
  destruct (lwf_sub_lsubs lt None _ _ (or_introl (rep_wf _ _ R)) Hsubr) as [E|W]; [discriminate|].
  pose proof W as W0. apply lwf_sub_iff in W. destruct W as [W1 Wk].
  destruct (lnup_split slr) as [s1 [s2 Eslr]]; [lia|]. subst slr.
  pose proof (shape_lsubs _ _ _ _ _ _ (rep_shape _ _ R) Hsub) as Sh. pose proof Sh as Sh0.
  apply shape_unfold in Sh. destruct Sh as [hl (A1 & A2 & A3 & A4 & A5)].
  pose proof (shape_lsubs _ _ _ _ _ _ (rep_shape _ _ R) Hsubr) as Shr. pose proof Shr as Shr0.
  apply shape_unfold in Shr. destruct Shr as [hr (B1 & B2 & B3 & B4 & B5)].
  destruct (shape_length _ _ _ _ _ _ _ _ Sh0 A1) as [La Lb]. destruct (shape_length _ _ _ _ _ _ _ _ Shr0 B1) as [Lc Ld].
  rewrite app_length in La, Lb, Lc, Ld. cbn [length] in La, Lb, Lc, Ld.
  assert (Hj0 : nth_error (l1 ++ Some (e, ei, LNode r nmr cmr (s1 ++ None :: s2)) :: l2) (length l1) = Some (Some (e, ei, LNode r nmr cmr (s1 ++ None :: s2))))
    by apply nth_error_app_mid.
  assert (Hj1 : nth_error (s1 ++ None :: s2) (length s1) = Some None) by apply nth_error_app_mid.
  destruct (Forall2_nth_r _ _ _ _ _ A5 Hj0) as [[r0 e0] [Hc0 Ok0]]. cbn [slot_ok fst snd lid] in Ok0.
  destruct Ok0 as (_ & E1 & E2 & [ed (E3 & E4 & E5 & E6)] & _). subst e0 r0.
  destruct ed as [el er eii]. cbn [hleft hright hinfo] in E4, E5, E6. subst el er eii.
  assert (Hbl : nth_error (hbr hl) (length l1) = Some e).
  { rewrite <- (slots_of_snd hl A4), nth_error_map. unfold slots_of. rewrite Hc0. reflexivity. }
  destruct (Forall2_nth_r _ _ _ _ _ B5 Hj1) as [[l0 e0] [Hc1 Ok1]]. cbn [slot_ok] in Ok1. injection Ok1 as <- <-.
  assert (Hbr : nth_error (hbr hr) (length s1) = Some e).
  { rewrite <- (slots_of_snd hr B4), nth_error_map. unfold slots_of. rewrite Hc1. reflexivity. }
  assert (Il : index_of e (hbr hl) = Some (length l1)).
  { apply index_of_unique; [exact Hbl|]. eapply br_unique_child; eassumption. }
  assert (Ir : index_of e (hbr hr) = Some (length s1)).
  { apply index_of_unique; [exact Hbr|]. eapply br_unique_parent; eassumption. }
  assert (Nd : NoDup (lids (LNode l nm cm (l1 ++ Some (e, ei, LNode r nmr cmr (s1 ++ None :: s2)) :: l2))))
    by (eapply lsubs_NoDup; [exact (rep_nd _ _ R)|exact Hsub]).
  assert (Nlr : l <> r).
  { intros ->. eapply (lids_head_notin _ _ _ _ Nd); [exact Hs|]. left. reflexivity. }
  assert (Ll : l < hnextn h) by (apply (rep_fn _ _ R); eapply lsubs_in_lids with (sub := LNode l nm cm _); exact Hsub).
  assert (Lr : r < hnextn h) by (apply (rep_fn _ _ R); eapply lsubs_in_lids with (sub := LNode r nmr cmr _); exact Hsubr).
  assert (Le : e < hnexte h) by (apply (rep_fe _ _ R); exact He).
  destruct (graft_eval h name e l r ei hl hr (length l1) (length s1) E3 A1 B1 Nlr Ll Lr Le Il Ir ltac:(lia) ltac:(lia) ltac:(lia))
    as [h' [Ev D]].
  exists h', p, l, nm, cm, l1, l2, ei, (LNode r nmr cmr (s1 ++ None :: s2)). split; [exact Hsub|]. split; [exact Ev|].
  set (sub := LNode l nm cm (l1 ++ Some (e, ei, LNode r nmr cmr (s1 ++ None :: s2)) :: l2)) in *.
  set (new := LNode l nm cm (l1 ++ Some (e, halve ei, graft_wrap (hnextn h) (S (hnextn h)) (hnexte h) (S (hnexte h)) name ei (LNode r nmr cmr (s1 ++ None :: s2))) :: l2)).
  pose proof (GF_in_new_n h name l nm cm l1 l2 e ei r nmr cmr s1 s2) as InN. fold new in InN. fold sub in InN.
  pose proof (GF_in_new_e h name l nm cm l1 l2 e ei r nmr cmr s1 s2) as InE. fold new in InE. fold sub in InE.
  destruct (GF_sub_nd h lt R p l nm cm l1 l2 e ei r nmr cmr s1 s2 Hsub) as [NdS NedS]. fold sub in NdS, NedS.
  assert (SubN : forall y, In y (lids sub) -> In y (lids lt)) by (intros y Hy; eapply lsubs_sub_lids; eassumption).
  assert (SubE : forall y, In y (leids sub) -> In y (leids lt)) by (intros y Hy; eapply lsubs_sub_leids; eassumption).
  assert (Inl : In l (lids sub)) by (left; reflexivity).
  assert (Inr : In r (lids sub)) by (eapply in_lids_child; [exact Hs|left; reflexivity]).
  assert (Ine : In e (leids sub)) by (eapply in_leids_here; exact Hs).
  apply (Rep_replace h h' lt l p sub new R Hsub eq_refl eq_refl).
  - eapply GF_shape_new; eassumption.
  - intros y Hy Hy'. eapply (GF_node_same h h' lt name R); try eassumption; intros ->; contradiction.
  - intros y Hy Hy'. eapply (GF_edge_same h h' lt name R); try eassumption. intros ->. contradiction.
  - (* well-formedness *)
    intros Wsub. apply lwf_iff in Wsub. destruct Wsub as [X1 X2]. apply lwf_iff. split.
    + rewrite lnup_app in *. exact X1.
    + intros e' ei' ch' Hin. apply in_app_or in Hin. destruct Hin as [Hin|[[= <- <- <-]|Hin]].
      * apply (X2 e' ei' ch'). apply in_or_app. left. exact Hin.
      * apply lwf_sub_iff. split; [reflexivity|]. intros e2 ei2 ch2 [[= <- <- <-]|[E|[[= <- <- <-]|[]]]]; [|discriminate|exact W0].
        apply lwf_sub_iff. split; [reflexivity|]. intros ? ? ? [E|[]]. discriminate.
      * apply (X2 e' ei' ch'). apply in_or_app. right. right. exact Hin.
  - intros Wsub. apply lwf_sub_iff in Wsub. destruct Wsub as [X1 X2]. apply lwf_sub_iff. split.
    + rewrite lnup_app in *. exact X1.
    + intros e' ei' ch' Hin. apply in_app_or in Hin. destruct Hin as [Hin|[[= <- <- <-]|Hin]].
      * apply (X2 e' ei' ch'). apply in_or_app. left. exact Hin.
      * apply lwf_sub_iff. split; [reflexivity|]. intros e2 ei2 ch2 [[= <- <- <-]|[E|[[= <- <- <-]|[]]]]; [|discriminate|exact W0].
        apply lwf_sub_iff. split; [reflexivity|]. intros ? ? ? [E|[]]. discriminate.
      * apply (X2 e' ei' ch'). apply in_or_app. right. right. exact Hin.
  - exact (gd_root _ _ _ _ _ _ _ _ _ _ _ D).
  - (* NoDup node ids of the new sub-node *)
    unfold new. rewrite (GF_lids_new h name l nm cm l1 l2 e ei r nmr cmr s1 s2).
    unfold sub in NdS. rewrite (GF_lids_sub l nm cm l1 l2 e ei r nmr cmr s1 s2) in NdS.
    apply NoDup_cons_iff in NdS. destruct NdS as [N1 N2]. apply NoDup_app_iff in N2. destruct N2 as (N3 & N4 & N5).
    apply NoDup_app_iff in N4. destruct N4 as (N6 & N7 & N8).
    assert (Fresh : forall y, In y (l :: sids l1 ++ (r :: sids (s1 ++ None :: s2)) ++ sids l2) -> y < hnextn h).
    { intros y Hy. apply (rep_fn _ _ R). apply SubN. unfold sub. rewrite (GF_lids_sub l nm cm l1 l2 e ei r nmr cmr s1 s2). exact Hy. }
    constructor.
    + intros Hi. rewrite !in_app_iff in Hi. cbn [In] in Hi. rewrite !in_app_iff in N1. cbn [In] in N1.
      assert (l < hnextn h) by (apply Fresh; left; reflexivity). intuition lia.
    + apply NoDup_app_iff. split; [exact N3|]. split.
      * apply NoDup_app_iff. split; [|split; [exact N7|]].
        -- constructor; [|constructor; [|exact N6]].
           ++ intros [X|X]; [lia|]. assert (S (hnextn h) < hnextn h); [|lia]. apply Fresh. right. apply in_or_app. right. apply in_or_app. left. exact X.
           ++ intros X. assert (hnextn h < hnextn h); [|lia]. apply Fresh. right. apply in_or_app. right. apply in_or_app. left. exact X.
        -- intros y [<-|[<-|Hy]] Hy2.
           ++ assert (S (hnextn h) < hnextn h); [|lia]. apply Fresh. right. apply in_or_app. right. apply in_or_app. right. exact Hy2.
           ++ assert (hnextn h < hnextn h); [|lia]. apply Fresh. right. apply in_or_app. right. apply in_or_app. right. exact Hy2.
           ++ exact (N8 y Hy Hy2).
      * intros y Hy Hy2. apply in_app_or in Hy2. destruct Hy2 as [[<-|[<-|Hy2]]|Hy2].
        -- assert (S (hnextn h) < hnextn h); [|lia]. apply Fresh. right. apply in_or_app. left. exact Hy.
        -- assert (hnextn h < hnextn h); [|lia]. apply Fresh. right. apply in_or_app. left. exact Hy.
        -- apply (N5 y Hy). apply in_or_app. left. exact Hy2.
        -- apply (N5 y Hy). apply in_or_app. right. exact Hy2.
  - intros y Hy. apply InN in Hy. destruct Hy as [->|[->|Hy]]; [right|right|left; exact Hy];
      intros X; apply (rep_fn _ _ R) in X; lia.
  - (* NoDup edge ids *)
    unfold new. rewrite (GF_leids_new h name l nm cm l1 l2 e ei r nmr cmr s1 s2).
    unfold sub in NedS. rewrite (GF_leids_sub l nm cm l1 l2 e ei r nmr cmr s1 s2) in NedS.
    apply NoDup_app_iff in NedS. destruct NedS as (N3 & N4 & N5). apply NoDup_cons_iff in N4. destruct N4 as [N1 N2].
    apply NoDup_app_iff in N2. destruct N2 as (N6 & N7 & N8).
    assert (Fresh : forall y, In y (seids l1 ++ e :: seids (s1 ++ None :: s2) ++ seids l2) -> y < hnexte h).
    { intros y Hy. apply (rep_fe _ _ R). apply SubE. unfold sub. rewrite (GF_leids_sub l nm cm l1 l2 e ei r nmr cmr s1 s2). exact Hy. }
    apply NoDup_app_iff. split; [exact N3|]. split.
    + constructor.
      * intros Hi. apply in_app_or in Hi. destruct Hi as [[X|[X|X]]|X]; try lia.
        -- apply N1. apply in_or_app. left. exact X.
        -- apply N1. apply in_or_app. right. exact X.
      * apply NoDup_app_iff. split; [|split; [exact N7|]].
        -- constructor; [|constructor; [|exact N6]].
           ++ intros [X|X]; [lia|]. assert (hnexte h < hnexte h); [|lia]. apply Fresh. apply in_or_app. right. right. apply in_or_app. left. exact X.
           ++ intros X. assert (S (hnexte h) < hnexte h); [|lia]. apply Fresh. apply in_or_app. right. right. apply in_or_app. left. exact X.
        -- intros y [<-|[<-|Hy]] Hy2.
           ++ assert (hnexte h < hnexte h); [|lia]. apply Fresh. apply in_or_app. right. right. apply in_or_app. right. exact Hy2.
           ++ assert (S (hnexte h) < hnexte h); [|lia]. apply Fresh. apply in_or_app. right. right. apply in_or_app. right. exact Hy2.
           ++ exact (N8 y Hy Hy2).
    + intros y Hy [<-|Hy2]; [apply (N5 e Hy); left; reflexivity|]. apply in_app_or in Hy2. destruct Hy2 as [[<-|[<-|Hy2]]|Hy2].
      * assert (hnexte h < hnexte h); [|lia]. apply Fresh. apply in_or_app. left. exact Hy.
      * assert (S (hnexte h) < hnexte h); [|lia]. apply Fresh. apply in_or_app. left. exact Hy.
      * apply (N5 y Hy). right. apply in_or_app. left. exact Hy2.
      * apply (N5 y Hy). right. apply in_or_app. right. exact Hy2.
  - intros y Hy. apply InE in Hy. destruct Hy as [->|[->|Hy]]; [right|right|left; exact Hy];
      intros X; apply (rep_fe _ _ R) in X; lia.
  - (* node domain *)
    intros y. rewrite InN. rewrite (gd_nodes _ _ _ _ _ _ _ _ _ _ _ D).
    destruct (Nat.eqb_spec y (hnextn h)) as [->|N1]; [split; [tauto|discriminate]|].
    destruct (Nat.eqb_spec y (S (hnextn h))) as [->|N2]; [split; [tauto|discriminate]|].
    destruct (Nat.eqb_spec y l) as [->|N3]; [split; [tauto|discriminate]|].
    destruct (Nat.eqb_spec y r) as [->|N4]; [split; [tauto|discriminate]|].
    rewrite <- (rep_nodes _ _ R y). split.
    + intros Hy. destruct (in_dec Nat.eq_dec y (lids sub)); tauto.
    + intros [[X|[X|X]]|[X _]]; try lia; [apply SubN; exact X|exact X].
  - intros y. rewrite InE. rewrite (gd_edges _ _ _ _ _ _ _ _ _ _ _ D).
    destruct (Nat.eqb_spec y e) as [->|N1]; [split; [tauto|discriminate]|].
    destruct (Nat.eqb_spec y (hnexte h)) as [->|N2]; [split; [tauto|discriminate]|].
    destruct (Nat.eqb_spec y (S (hnexte h))) as [->|N3]; [split; [tauto|discriminate]|].
    rewrite <- (rep_edges _ _ R y). split.
    + intros Hy. destruct (in_dec Nat.eq_dec y (leids sub)); tauto.
    + intros [[X|[X|X]]|[X _]]; try lia; [apply SubE; exact X|exact X].
  - intros y. rewrite (gd_nextn _ _ _ _ _ _ _ _ _ _ _ D), (gd_nodes _ _ _ _ _ _ _ _ _ _ _ D).
    destruct (Nat.eqb_spec y (hnextn h)) as [->|N1]; [lia|]. destruct (Nat.eqb_spec y (S (hnextn h))) as [->|N2]; [lia|].
    destruct (Nat.eqb_spec y l) as [->|N3]; [lia|]. destruct (Nat.eqb_spec y r) as [->|N4]; [lia|].
    intros Hy. apply (rep_nodes _ _ R), (rep_fn _ _ R) in Hy. lia.
  - intros y. rewrite (gd_nexte _ _ _ _ _ _ _ _ _ _ _ D), (gd_edges _ _ _ _ _ _ _ _ _ _ _ D).
    destruct (Nat.eqb_spec y e) as [->|N1]; [lia|]. destruct (Nat.eqb_spec y (hnexte h)) as [->|N2]; [lia|].
    destruct (Nat.eqb_spec y (S (hnexte h))) as [->|N3]; [lia|].
    intros Hy. apply (rep_edges _ _ R), (rep_fe _ _ R) in Hy. lia.
Qed.

Theorem graft_new_tip_Rep h lt name e : Rep h lt -> alookup e (hedges h) <> None ->
  exists h' lt', graft_new_tip name e h = HOk (hnextn h, hnexte h, S (hnexte h), S (hnextn h), h') /\ Rep h' lt'.
Proof.
  intros R He. destruct (graft_new_tip_Rep_strong h lt name e R He) as (h' & p & l & nm & cm & l1 & l2 & ei & ch & _ & Ev & R').
  exists h'. eexists. split; [exact Ev|exact R'].
Qed.

Theorem graft_new_tip_good h name e : Good h -> alookup e (hedges h) <> None ->
  exists tip ne ne2 nn h', graft_new_tip name e h = HOk (tip, ne, ne2, nn, h') /\ Good h'.
Proof.
  intros G He. destruct (Good_Rep h G) as [lt R].
  destruct (graft_new_tip_Rep h lt name e R He) as (h' & lt' & Ev & R').
  do 5 eexists. split; [exact Ev|]. eapply Rep_Good. exact R'.
Qed.
