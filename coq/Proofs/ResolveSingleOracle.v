(** C07: the oracle [resolve_ok_single] of Spec/Contract.v (inputs that may contain single-child
    inner nodes) accepts the model's output for every choice vector, and what it says. *)
From Coq Require Import String ZArith QArith Bool Arith Lia Lqa List Permutation Setoid Morphisms.
From GT Require Import Base.UTree Spec.Obs Spec.Contract Model.Reroot Model.Rand Spec.Unrooted Proofs.RerootBase Proofs.PruneBase
     Model.Prune Model.Collapse Proofs.PruneStep Proofs.PruneSub Proofs.PruneRoot Proofs.CollapseBase
     Proofs.CollapseDist Proofs.CollapseResolveBase Proofs.CollapseResolve Proofs.OracleSets Proofs.CollapseOracle
     Proofs.CollapseOracleFull Proofs.OracleMeaning Proofs.ResolveSingleBase Proofs.ResolveSingle.
From GT Require Proofs.USplits Proofs.OracleC05.
Import ListNotations.
Local Close Scope Q_scope.
Local Arguments leaves : simpl never.
Local Arguments pairdists : simpl never.

Notation step := USplits.step.
Notation orel := USplits.orel.
Notation split_qeq := USplits.split_qeq.

(** * splits up to Qeq, tip flag ignored *)
Definition split_leq (x y : split) : Prop :=
  sside x = sside y /\ (slen x == slen y)%Q /\ (ssup x == ssup y)%Q.

Lemma split_leq_refl x : split_leq x x.
Proof. repeat split; reflexivity. Qed.
Lemma split_leq_sym x y : split_leq x y -> split_leq y x.
Proof. intros (A1 & A2 & A3). repeat split; now symmetry. Qed.
Lemma split_leq_trans x y z : split_leq x y -> split_leq y z -> split_leq x z.
Proof. intros (A1 & A2 & A3) (B1 & B2 & B3). repeat split; etransitivity; eauto. Qed.
Lemma split_qeq_leq x y : split_qeq x y -> split_leq x y.
Proof. intros (A1 & A2 & A3 & _). repeat split; auto. Qed.

Lemma merge_split_leq x x' s s' : split_leq x x' -> split_leq s s' -> split_leq (merge_split x s) (merge_split x' s').
Proof.
  intros (A1 & A2 & A3) (B1 & B2 & B3). rewrite !USplits.merge_split_eq. repeat split; cbn [sside slen ssup]; auto.
  - now apply USplits.merge_len_proper.
  - now apply USplits.qmax_proper.
Qed.

Lemma step_leq k o o' s s' : split_leq s s' -> orel split_leq o o' -> orel split_leq (step k o s) (step k o' s').
Proof.
  intros Hs Ho. unfold USplits.step. destruct Hs as (S1 & S2 & S3). rewrite <- S1.
  destruct (sset_eqb (sside s) k); auto.
  destruct o as [x|], o' as [x'|]; simpl in *; try tauto.
  - apply merge_split_leq; auto. repeat split; auto.
  - repeat split; auto.
Qed.

Lemma fold_step_leq k l l' : Forall2 split_leq l l' ->
  forall o o', orel split_leq o o' -> orel split_leq (fold_left (step k) l o) (fold_left (step k) l' o').
Proof.
  induction 1; simpl; intros o o' Ho; auto. apply IHForall2. now apply step_leq.
Qed.

Lemma orel_leq_trans a b c : orel split_leq a b -> orel split_leq b c -> orel split_leq a c.
Proof. apply USplits.orel_trans. exact split_leq_trans. Qed.
Lemma orel_leq_sym a b : orel split_leq a b -> orel split_leq b a.
Proof. destruct a, b; simpl; auto. apply split_leq_sym. Qed.

Lemma fold_step_skip k l : Forall (fun s => sside s <> k) l -> forall o, fold_left (step k) l o = o.
Proof.
  induction 1 as [|s l Hs _ IH]; simpl; intros o; auto. rewrite <- (IH o) at 2. f_equal.
  unfold USplits.step. destruct (sset_eqb (sside s) k) eqn:E; auto. apply USplits.sset_eqb_eq in E. contradiction.
Qed.

Definition zero_split (x : split) : Prop := (slen x == 0)%Q /\ (ssup x == nilv)%Q.
Definition ozero (o : option split) : Prop := match o with Some x => zero_split x | None => True end.

Lemma fold_step_zero k l : Forall zero_split l -> forall o, ozero o -> ozero (fold_left (step k) l o).
Proof.
  induction 1 as [|s l [Hs1 Hs2] _ IH]; simpl; intros o Ho; auto. apply IH.
  unfold USplits.step. destruct (sset_eqb (sside s) k); auto.
  destruct o as [x|]; simpl; [|split; auto]. destruct Ho as [X1 X2].
  rewrite USplits.merge_split_eq. split; cbn [slen ssup].
  - rewrite (USplits.merge_len_proper _ 0%Q _ 0%Q X1 Hs1). reflexivity.
  - rewrite (USplits.qmax_proper _ nilv _ nilv X2 Hs2). reflexivity.
Qed.

(** * views as splits *)
Definition vsplit (A : list string) (v : vw) : split :=
  mkSplit (canon_side A (sset (snd v))) (fst (fst (fst v))) (snd (fst (fst v))) false.

Lemma vsplit_csplit A l : Forall2 split_leq (map (csplit A) l) (map (vsplit A) (map view2 l)).
Proof. induction l as [|p l IH]; simpl; constructor; auto. repeat split; reflexivity. Qed.

Lemma vsplit_perm A l l' : veq2 l l' -> Permutation (map (vsplit A) l) (map (vsplit A) l').
Proof.
  induction 1 as [|x y l l' [R1 R2] _ IH| |]; simpl.
  - constructor.
  - replace (vsplit A y) with (vsplit A x); [now constructor|].
    unfold vsplit. now rewrite R1, (sset_perm _ _ R2).
  - apply perm_swap.
  - etransitivity; eauto.
Qed.

Lemma find_usplits k t : find_split k (usplits t) = fold_left (step k) (map (csplit (tipset t)) (branches t)) None.
Proof. rewrite USplits.usplits_eq, USplits.find_split_foldsplits, branch_splits_csplit. reflexivity. Qed.

(** * the oracle accepts *)
Section Accept.
  Variable t : utree.
  Variable cs : list nat.
  Hypothesis Hw : wf t = true.
  Hypothesis Hd : 2 <= degree t.
  Hypothesis Hn : NoDup (leaves t).

  Let g := resolve t cs.
  Let A := tipset t.

  Lemma single_tipset : tipset g = A.
  Proof. apply tipset_perm. now apply resolve_leaves. Qed.

  Lemma lookup_chain :
    exists news, Forall (gnew A (leaves t) (map view2 (branches t))) news /\
    forall k, exists o,
      o = fold_left (step k) (map (vsplit A) (map view2 (branches t))) None /\
      orel split_leq o (find_split k (usplits t)) /\
      orel split_leq (find_split k (usplits g)) (fold_left (step k) (map (vsplit A) news) o).
  Proof.
    assert (Hi : incl (leaves t) A) by (intros x Hx; unfold A, tipset; now apply sset_In).
    destruct (resolve_root2 A t cs Hw Hn Hd Hi) as [news [N1 N2]]. fold g in N2.
    exists news. split; auto. intros k. eexists. split; [reflexivity|]. split.
    - rewrite find_usplits. fold A. apply orel_leq_sym. apply fold_step_leq; simpl; auto. apply vsplit_csplit.
    - rewrite find_usplits, single_tipset.
      eapply orel_leq_trans; [apply (fold_step_leq k _ _ (vsplit_csplit A (branches g)) None None I)|].
      rewrite <- fold_left_app, <- map_app.
      apply (USplits.orel_mono split_qeq split_leq split_qeq_leq).
      apply USplits.fold_step_perm; [|simpl; auto]. now apply vsplit_perm.
  Qed.

  Lemma news_zero news : Forall (gnew A (leaves t) (map view2 (branches t))) news -> Forall zero_split (map (vsplit A) news).
  Proof.
    intros H. apply Forall_forall. intros s Hs. apply in_map_iff in Hs. destruct Hs as [v [<- Hv]].
    rewrite Forall_forall in H. destruct (H v Hv) as [G1 _]. unfold is_new in G1.
    unfold zero_split, vsplit. cbn [slen ssup]. rewrite G1. simpl. split; reflexivity.
  Qed.

  Theorem resolve_oracle_accepts_single : resolve_ok_single t g = None.
  Proof.
    destruct lookup_chain as [news [N1 LC]].
    apply resolve_ok_single_meaning.
    split; [now apply resolve_wf|]. split; [now apply resolve_tips|].
    split; [split; [now apply resolve_binary|unfold g; rewrite resolve_root_degree by auto; lia]|].
    split; [now apply resolve_count|]. split; [|split; [|now apply resolve_matrix]].
    - intros s Hs. set (k := sside s).
      assert (Ft : find_split k (usplits t) = Some s) by (apply find_split_in; auto; apply OracleC05.usplits_keys_nodup).
      destruct (LC k) as [o [Eo [L1 L2]]]. rewrite Ft in L1.
      assert (Hskip : Forall (fun x => sside x <> k) (map (vsplit A) news)).
      { apply Forall_forall. intros x Hx Ek. apply in_map_iff in Hx. destruct Hx as [v [<- Hv]].
        rewrite Forall_forall in N1. destruct (N1 v Hv) as [_ [_ [_ [_ G6]]]].
        assert (Hno : Forall (fun x => sside x <> k) (map (vsplit A) (map view2 (branches t)))).
        { apply Forall_forall. intros y Hy Ey. apply in_map_iff in Hy. destruct Hy as [p [<- Hp]].
          rewrite Forall_forall in G6. apply (sep_key A _ _ (G6 p Hp)).
          unfold vsplit in Ek, Ey. simpl in Ek, Ey. congruence. }
        rewrite (fold_step_skip k _ Hno) in Eo. subst o. exact L1. }
      rewrite (fold_step_skip k _ Hskip) in L2.
      generalize (orel_leq_trans _ _ _ L2 L1). destruct (find_split k (usplits g)) as [s'|]; simpl; [|tauto].
      intros (E1 & E2 & E3). exists s'. split; auto. unfold same_len_sup, qeqb.
      apply andb_true_iff. split; apply Qeq_bool_iff; now symmetry.
    - intros s' Hs' Hnone. set (k := sside s') in *.
      assert (Fg : find_split k (usplits g) = Some s') by (apply find_split_in; auto; apply OracleC05.usplits_keys_nodup).
      destruct (LC k) as [o [Eo [L1 L2]]]. rewrite Hnone in L1. destruct o as [x|]; [destruct L1|].
      rewrite Fg in L2. generalize (fold_step_zero k _ (news_zero news N1) None I).
      destruct (fold_left (step k) (map (vsplit A) news) None) as [x|]; [|destruct L2].
      intros [Z1 Z2]. destruct L2 as (E1 & E2 & E3). unfold qeqb. split; apply Qeq_bool_iff; etransitivity; eauto.
  Qed.
End Accept.
