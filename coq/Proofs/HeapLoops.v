(** Heap model: the loops Tree.RemoveEdges (over a list of branches computed beforehand) and
    Tree.RemoveTips (over the tip snapshot) keep the heap good. *)
From Coq Require Import String ZArith QArith Bool Arith Lia Permutation List.
From GT Require Import Base.UTree Model.Reroot Model.Heap Model.HeapEdit Proofs.HeapBase Proofs.HeapRep
     Proofs.HeapGood Proofs.HeapGoodRep Proofs.HeapCollapse Proofs.HeapPrune Proofs.HeapPruneTotal.
Import ListNotations.
Local Close Scope Q_scope.

Lemma remove_edge_step_good rr rt e h h1 : Good h -> remove_edge rr rt e h = HOk h1 -> Good h1.
Proof.
  intros G E. destruct (alookup e (hedges h)) as [ed|] eqn:Ee.
  - destruct (remove_edge_good rr rt h e G) as [h2 [E2 G2]]; [congruence|]. rewrite E in E2. injection E2 as <-. exact G2.
  - rewrite remove_edge_eq in E. unfold get_edge in E. rewrite Ee in E. discriminate.
Qed.

Theorem remove_edges_heap_good rr rt : forall es h h', Good h -> remove_edges_heap rr rt es h = HOk h' -> Good h'.
Proof.
  induction es as [|e es IH]; intros h h' G E; cbn [remove_edges_heap] in E; [injection E as <-; exact G|].
  destruct (remove_edge rr rt e h) as [h1| |] eqn:E1; cbn [hbind] in E; try discriminate.
  eapply IH; [|exact E]. eapply remove_edge_step_good; eassumption.
Qed.

Theorem remove_tips_heap_good : forall tips h h', Good h -> remove_tips_heap tips h = HOk h' -> Good h'.
Proof.
  induction tips as [|[nm t] tips IH]; intros h h' G E; cbn [remove_tips_heap] in E; [injection E as <-; exact G|].
  destruct (remove_tip_heap nm t h) as [h1| |] eqn:E1; cbn [hbind] in E; try discriminate.
  eapply IH; [|exact E]. eapply remove_tip_heap_good; eassumption.
Qed.
