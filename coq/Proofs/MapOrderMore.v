(** C18, second batch: order-independence of further compositions the code uses around Go maps
    (any correct sort after a collect, sorted key/value emission, map-to-map transfer loops,
    commutative-monoid folds) and prefix-stability of the seeded choice vector.
    A Go map range is a fold over an ARBITRARY permutation of the key list, as in MapOrder.v. *)
From Coq Require Import String Bool Arith ZArith NArith Lia List Permutation Sorted Orders Mergesort Morphisms Setoid.
From GT Require Import Proofs.MapOrder Model.Rand.
Import ListNotations.

(** * 1. collect, then ANY correct sort *)

(** whatever algorithm sort.Strings uses: a function returning a sorted permutation of its input
    returns the same slice for every order in which the keys were collected *)
Theorem any_sort_order_independent (sort : list string -> list string) :
  (forall l, Permutation l (sort l)) -> (forall l, StronglySorted sle (sort l)) ->
  forall keys keys', Permutation keys keys' -> sort keys = sort keys'.
Proof.
  intros Hp Hs keys keys' HP. apply sorted_perm_unique; [apply Hs|apply Hs|].
  etransitivity; [apply Permutation_sym, Hp|]. etransitivity; [exact HP|apply Hp].
Qed.

(** ... and it returns exactly what the insertion sort of the model returns *)
Theorem any_sort_is_ssort (sort : list string -> list string) :
  (forall l, Permutation l (sort l)) -> (forall l, StronglySorted sle (sort l)) ->
  forall keys, sort keys = ssort keys.
Proof.
  intros Hp Hs keys. apply sorted_perm_unique; [apply Hs|apply ssort_sorted|].
  etransitivity; [apply Permutation_sym, Hp|apply ssort_perm].
Qed.

(** the standard library's merge sort on the byte-wise string order (Go's `<` on strings) *)
Module StringOrder <: TotalLeBool.
  Definition t := string.
  Definition leb (a b : string) : bool := match String.compare a b with Gt => false | _ => true end.
  Theorem leb_total : forall a1 a2, leb a1 a2 = true \/ leb a2 a1 = true.
  Proof.
    intros a b. unfold leb. destruct (String.compare a b) eqn:E; [left; reflexivity|left; reflexivity|].
    right. apply cmp_gt_lt in E. rewrite E. reflexivity.
  Qed.
End StringOrder.
Module MSort := Sort StringOrder.
Definition string_leb := StringOrder.leb.
Definition msort : list string -> list string := MSort.sort.

Lemma string_leb_sle a b : string_leb a b = true <-> sle a b.
Proof.
  unfold string_leb, StringOrder.leb, sle. destruct (String.compare a b); split; intros H; try reflexivity; try congruence.
Qed.

Lemma msort_sorted l : StronglySorted sle (msort l).
Proof.
  assert (StronglySorted (fun x y => is_true (StringOrder.leb x y)) (msort l)) as H.
  { apply MSort.StronglySorted_sort. intros a b c H1 H2.
    apply string_leb_sle. eapply sle_trans; apply string_leb_sle; eassumption. }
  induction H as [|x r Hr IH Hx]; constructor; [exact IH|].
  eapply Forall_impl; [|exact Hx]. intros y Hy. apply string_leb_sle. exact Hy.
Qed.

Theorem collect_then_mergesort_order_independent keys keys' :
  Permutation keys keys' -> msort keys = msort keys'.
Proof. apply any_sort_order_independent; [apply MSort.Permuted_sort|apply msort_sorted]. Qed.

Theorem mergesort_is_ssort keys : msort keys = ssort keys.
Proof. apply any_sort_is_ssort; [apply MSort.Permuted_sort|apply msort_sorted]. Qed.

(** collect the keys, sort them, then emit key and value in that order (the "sorted output"
    pattern): the emitted records do not depend on the order of the range when keys are distinct *)
Fixpoint lookup {V} (kvs : list (string * V)) (k : string) : option V :=
  match kvs with
  | [] => None
  | (k', v) :: r => if String.eqb k k' then Some v else lookup r k
  end.
Definition emit_sorted {V} (kvs : list (string * V)) : list (string * option V) :=
  map (fun k => (k, lookup kvs k)) (msort (map fst kvs)).

Lemma lookup_perm {V} (kvs kvs' : list (string * V)) :
  Permutation kvs kvs' -> NoDup (map fst kvs) -> forall k, lookup kvs k = lookup kvs' k.
Proof.
  induction 1 as [|[x v] l l' HP IH|[x v] [y w] l|l l' l'' H1 IH1 H2 IH2]; intros Hnd k; cbn [lookup].
  - reflexivity.
  - cbn [map fst] in Hnd. inversion Hnd; subst. rewrite IH by assumption. reflexivity.
  - cbn [map fst] in Hnd. inversion Hnd as [|? ? Hnotin _]; subst.
    destruct (String.eqb_spec k y) as [Ey|Ey], (String.eqb_spec k x) as [Ex|Ex]; try reflexivity.
    subst. exfalso. apply Hnotin. left. reflexivity.
  - rewrite IH1 by exact Hnd. apply IH2.
    eapply Permutation_NoDup; [apply Permutation_map; exact H1|exact Hnd].
Qed.

Theorem emit_sorted_order_independent {V} (kvs kvs' : list (string * V)) :
  NoDup (map fst kvs) -> Permutation kvs kvs' -> emit_sorted kvs = emit_sorted kvs'.
Proof.
  intros Hnd HP. unfold emit_sorted.
  rewrite (collect_then_mergesort_order_independent (map fst kvs) (map fst kvs')) by (apply Permutation_map; exact HP).
  apply map_ext. intros k. rewrite (lookup_perm kvs kvs' HP Hnd k). reflexivity.
Qed.

(** * 2. map-to-map transfer: `for k, v := range m { m2[f(k)] = g(v) }` *)
Definition transfer {V W} (f : string -> string) (g : V -> W) (d : fmap W) (kv : string * V) : fmap W :=
  upd d (f (fst kv)) (Some (g (snd kv))).

Theorem transfer_order_independent {V W} (f : string -> string) (g : V -> W) (dst : fmap W) kvs kvs' :
  (forall a b, In a (map fst kvs) -> In b (map fst kvs) -> f a = f b -> a = b) ->   (* f injective on the keys *)
  NoDup (map fst kvs) ->
  Permutation kvs kvs' ->
  feq (fold_left (transfer f g) kvs dst) (fold_left (transfer f g) kvs' dst).
Proof.
  intros Hinj Hnd HP.
  apply (fold_left_perm_in feq (transfer f g) (fun x y => f (fst x) <> f (fst y))); [| | |exact HP| |reflexivity].
  - intros a a' x H. apply upd_proper. exact H.
  - intros a x y Hne. unfold transfer. apply upd_comm. left. exact Hne.
  - intros x y H E. apply H. symmetry. exact E.
  - clear HP. induction kvs as [|[k v] r IH]; cbn [pairwise]; [exact I|].
    cbn [map fst] in Hnd, Hinj. inversion Hnd as [|? ? Hnotin Hnd']; subst. split.
    + apply Forall_forall. intros [k' v'] Hin E. cbn [fst] in E. apply Hnotin.
      assert (In k' (map fst r)) as Hk' by (change k' with (fst (k', v')); apply in_map; exact Hin).
      rewrite (Hinj k k'); [exact Hk'|left; reflexivity|right; exact Hk'|exact E].
    + apply IH; [|exact Hnd']. intros a b Ha Hb. apply Hinj; right; assumption.
Qed.

(** without injectivity the last writer wins, so the result depends on the order *)
Local Open Scope string_scope.
Theorem transfer_noninjective_refuted :
  exists (f : string -> string) (kvs kvs' : list (string * nat)) (dst : fmap nat),
    NoDup (map fst kvs) /\ Permutation kvs kvs' /\
    ~ feq (fold_left (transfer f (fun v => v)) kvs dst) (fold_left (transfer f (fun v => v)) kvs' dst).
Proof.
  exists (fun _ => "x"), [("a", 1); ("b", 2)], [("b", 2); ("a", 1)], (fun _ => None).
  split; [|split].
  - cbn. constructor; [intros [H|[]]; discriminate|constructor; [intros []|constructor]].
  - apply perm_swap.
  - intros H. specialize (H "x"). vm_compute in H. discriminate.
Qed.
Local Close Scope string_scope.

(** * 3. commutative-monoid accumulation over the values: `for _, v := range m { acc = op(acc, v) }` *)
Theorem comm_fold_order_independent {K A} (op : A -> A -> A) :
  (forall a b c, op (op a b) c = op a (op b c)) -> (forall a b, op a b = op b a) ->
  forall (kvs kvs' : list (K * A)) e, Permutation kvs kvs' ->
  fold_left op (map snd kvs) e = fold_left op (map snd kvs') e.
Proof.
  intros Hassoc Hcomm kvs kvs' e HP.
  apply (fold_left_perm eq op); [intros a a' x ->; reflexivity| |apply Permutation_map; exact HP|reflexivity].
  intros a x y. rewrite !Hassoc. rewrite (Hcomm x y). reflexivity.
Qed.

Corollary sum_Z_order_independent {K} (kvs kvs' : list (K * Z)) e :
  Permutation kvs kvs' -> fold_left Z.add (map snd kvs) e = fold_left Z.add (map snd kvs') e.
Proof. apply comm_fold_order_independent; intros; lia. Qed.
Corollary max_Z_order_independent {K} (kvs kvs' : list (K * Z)) e :
  Permutation kvs kvs' -> fold_left Z.max (map snd kvs) e = fold_left Z.max (map snd kvs') e.
Proof. apply comm_fold_order_independent; intros; lia. Qed.
Corollary count_order_independent {K} (kvs kvs' : list (K * nat)) e :
  Permutation kvs kvs' -> fold_left Nat.add (map snd kvs) e = fold_left Nat.add (map snd kvs') e.
Proof. apply comm_fold_order_independent; intros; lia. Qed.

(** a commutative but NON-associative accumulation (a rounded running mean, the integer analogue of
    a floating-point accumulation) does depend on the order: associativity cannot be dropped *)
Definition rmean (a b : Z) : Z := ((a + b) / 2)%Z.
Theorem nonassociative_fold_refuted :
  (forall a b, rmean a b = rmean b a) /\
  exists (kvs kvs' : list (nat * Z)) e, Permutation kvs kvs' /\
    fold_left rmean (map snd kvs) e <> fold_left rmean (map snd kvs') e.
Proof.
  split; [intros a b; unfold rmean; rewrite Z.add_comm; reflexivity|].
  exists [(0, 0%Z); (1, 8%Z)], [(1, 8%Z); (0, 0%Z)], 4%Z. split; [apply perm_swap|].
  vm_compute. discriminate.
Qed.

(** * 4. the seeded choice vector: prefix stability of [draws] *)
(** the choices for the bounds [b1 ++ b2] are the choices for [b1] followed by the choices for [b2]
    drawn from the REST of the stream: what is requested later never changes what was drawn before *)
Theorem draws_app b1 : forall b2 raw,
  draws (b1 ++ b2) raw =
  match draws b1 raw with
  | Some (v1, r1) => match draws b2 r1 with Some (v2, r2) => Some (v1 ++ v2, r2) | None => None end
  | None => None
  end.
Proof.
  induction b1 as [|b bs IH]; intros b2 raw; cbn [app draws].
  - destruct (draws b2 raw) as [[v2 r2]|]; reflexivity.
  - destruct (intn b raw) as [[v r]|]; [|reflexivity].
    rewrite IH. destruct (draws bs r) as [[v1 r1]|]; [|reflexivity].
    destruct (draws b2 r1) as [[v2 r2]|]; reflexivity.
Qed.

Lemma draws_length bounds : forall raw vs r, draws bounds raw = Some (vs, r) -> length vs = length bounds.
Proof.
  induction bounds as [|b bs IH]; intros raw vs r; cbn [draws].
  - intros H; inversion H; reflexivity.
  - destruct (intn b raw) as [[v r0]|]; [|discriminate].
    destruct (draws bs r0) as [[vs0 r1]|] eqn:E; [|discriminate].
    intros H; inversion H; subst. cbn [length]. f_equal. eapply IH. exact E.
Qed.

Theorem draws_prefix_stable b1 b2 raw vs r :
  draws (b1 ++ b2) raw = Some (vs, r) ->
  exists r1, draws b1 raw = Some (firstn (length b1) vs, r1) /\ draws b2 r1 = Some (skipn (length b1) vs, r).
Proof.
  rewrite draws_app. destruct (draws b1 raw) as [[v1 r1]|] eqn:E1; [|discriminate].
  destruct (draws b2 r1) as [[v2 r2]|] eqn:E2; [|discriminate].
  intros H; inversion H; subst. exists r1.
  pose proof (draws_length _ _ _ _ E1) as L. rewrite <- L.
  rewrite firstn_app, Nat.sub_diag, firstn_all, firstn_O, app_nil_r.
  rewrite skipn_app, Nat.sub_diag, skipn_all, skipn_O. cbn [app]. split; [reflexivity|exact E2].
Qed.

