(** C09, the rational model of binary64 rounding ([round53], Model/Consensus.v), for ALL positive
    rationals (normal range: no underflow / overflow is modelled): the result is
    [rne (x / 2^e) * 2^e] for the exponent [e] with 2^52 <= x / 2^e < 2^53, where [rne] rounds to
    the nearest integer, ties to even; hence the relative error is at most 2^-53 and the function
    is monotone.  Consequence: the test of the code on a frequency is exactly "frequency >
    threshold" as soon as n * (denominator of the threshold) < 2^51 -- no grid needed. *)
From Coq Require Import ZArith QArith Qround Qabs Qpower Bool Lia Lqa.
From GT Require Import Model.Consensus.
Local Open Scope Q_scope.

Definition p2 (e : Z) : Q := 2 ^ e.

Lemma p2_pos e : 0 < p2 e.
Proof. apply Qpower_0_lt. reflexivity. Qed.

Lemma p2_nz e : ~ p2 e == 0.
Proof. intro H. pose proof (p2_pos e). rewrite H in H0. discriminate. Qed.

Lemma p2_plus a b : p2 (a + b) == p2 a * p2 b.
Proof. unfold p2. apply Qpower_plus. discriminate. Qed.

Lemma p2_nonneg_Z e : (0 <= e)%Z -> inject_Z (2 ^ e) == p2 e.
Proof. intros H. unfold p2. now rewrite Zpower_Qpower. Qed.

Lemma pow2Q_p2 e : pow2Q e == p2 e.
Proof.
  unfold pow2Q. destruct (Z.leb_spec 0 e).
  - now apply p2_nonneg_Z.
  - rewrite p2_nonneg_Z by lia. unfold p2. rewrite Qpower_opp. field.
    apply (p2_nz e).
Qed.

Lemma p2_pred e : p2 (e - 1) == p2 e / 2.
Proof.
  replace (e - 1)%Z with (e + -1)%Z by lia. rewrite p2_plus. unfold p2 at 2. simpl. field.
Qed.

Lemma p2_le a b : (a <= b)%Z -> p2 a <= p2 b.
Proof.
  intros H. replace b with (a + (b - a))%Z by lia. rewrite p2_plus.
  rewrite <- (Qmult_1_r (p2 a)) at 1. apply Qmult_le_l; [apply p2_pos|].
  rewrite <- p2_nonneg_Z by lia. change 1 with (inject_Z 1). rewrite <- Zle_Qle.
  apply (Z.pow_le_mono_r 2 0 (b - a)); lia.
Qed.

(** * nearest integer, ties to even *)
Definition rne (s : Q) : Z :=
  let q := Qfloor s in
  match Qcompare (s - inject_Z q) (1 # 2) with
  | Lt => q
  | Gt => (q + 1)%Z
  | Eq => if Z.even q then q else (q + 1)%Z
  end.

Lemma rne_comp s s' : s == s' -> rne s = rne s'.
Proof.
  intros H. unfold rne. rewrite (Qfloor_comp _ _ H).
  assert (E : s - inject_Z (Qfloor s') == s' - inject_Z (Qfloor s')) by now rewrite H.
  now rewrite E.
Qed.

Lemma rne_near s : Qabs (inject_Z (rne s) - s) <= 1 # 2.
Proof.
  unfold rne. pose proof (Qfloor_le s) as L. pose proof (Qlt_floor s) as U.
  rewrite inject_Z_plus in U. change (inject_Z 1) with 1 in U.
  set (q := Qfloor s) in *.
  apply Qabs_Qle_condition.
  destruct (Qcompare_spec (s - inject_Z q) (1 # 2)) as [E|E|E].
  - destruct (Z.even q); [|rewrite inject_Z_plus; change (inject_Z 1) with 1]; split; lra.
  - split; lra.
  - rewrite inject_Z_plus. change (inject_Z 1) with 1. split; lra.
Qed.

Lemma rne_ge_floor s : (Qfloor s <= rne s <= Qfloor s + 1)%Z.
Proof.
  unfold rne. destruct (Qcompare (s - inject_Z (Qfloor s)) (1 # 2)); try lia. destruct (Z.even (Qfloor s)); lia.
Qed.

Lemma rne_mono s t : s <= t -> (rne s <= rne t)%Z.
Proof.
  intros H. destruct (Z_le_gt_dec (rne s) (rne t)) as [|G]; auto. exfalso.
  pose proof (rne_near s) as Ns. pose proof (rne_near t) as Nt.
  apply Qabs_Qle_condition in Ns. apply Qabs_Qle_condition in Nt.
  assert (G' : inject_Z (rne t) + 1 <= inject_Z (rne s)).
  { change 1 with (inject_Z 1). rewrite <- inject_Z_plus, <- Zle_Qle. lia. }
  assert (E : s == t) by lra.
  rewrite (rne_comp s t E) in G. lia.
Qed.

(** * the integer division of the code is [rne] *)
Lemma rne_div (n d : Z) : (0 < d)%Z ->
  (let q := (n / d)%Z in
   let r := (n mod d)%Z in
   if (2 * r <? d)%Z then q else if (d <? 2 * r)%Z then (q + 1)%Z else if Z.even q then q else (q + 1)%Z)
  = rne (inject_Z n / inject_Z d).
Proof.
  intros Hd. cbv zeta. unfold rne. rewrite <- Zdiv_Qdiv.
  set (q := (n / d)%Z). set (r := (n mod d)%Z).
  assert (Hn : n = (d * q + r)%Z) by (apply Z.div_mod; lia).
  assert (Hr : (0 <= r < d)%Z) by (apply Z.mod_pos_bound; lia).
  assert (Dq : 0 < inject_Z d) by (change 0 with (inject_Z 0); now rewrite <- Zlt_Qlt).
  assert (F : inject_Z n / inject_Z d - inject_Z q == inject_Z r / inject_Z d).
  { rewrite Hn, inject_Z_plus, inject_Z_mult. field. intro Z0. rewrite Z0 in Dq. discriminate. }
  rewrite F.
  assert (C : Qcompare (inject_Z r / inject_Z d) (1 # 2) = (2 * r ?= d)%Z).
  { assert (T : inject_Z (2 * r) == 2 * inject_Z r) by (rewrite inject_Z_mult; reflexivity).
    destruct (Z.compare_spec (2 * r) d) as [E|E|E].
    - apply Qeq_alt. assert (E' : inject_Z d == 2 * inject_Z r) by (rewrite <- T, E; reflexivity).
      rewrite E'. field. intro Z0. rewrite E', Z0 in Dq. discriminate.
    - apply Qlt_alt. apply Qlt_shift_div_r; auto. rewrite Zlt_Qlt, T in E. lra.
    - apply Qgt_alt. apply Qlt_shift_div_l; auto. rewrite Zlt_Qlt, T in E. lra. }
  rewrite C.
  destruct (Z.compare_spec (2 * r) d) as [E|E|E].
  - destruct (Z.ltb_spec (2 * r) d); [lia|]. destruct (Z.ltb_spec d (2 * r)); [lia|]. reflexivity.
  - destruct (Z.ltb_spec (2 * r) d); [reflexivity|lia].
  - destruct (Z.ltb_spec (2 * r) d); [lia|]. destruct (Z.ltb_spec d (2 * r)); [reflexivity|lia].
Qed.

Ltac solve_nz :=
  repeat split; try apply p2_nz;
  let Z0 := fresh "Z0" in
  intro Z0; repeat match goal with H : 0 < _ |- _ => (rewrite Z0 in H; discriminate H) || clear H end.

(** * the exponent chosen by the code *)
Section Pos.
  Variables num den : positive.
  Let N := inject_Z (Zpos num).
  Let D := inject_Z (Zpos den).
  Let X := N / D.

  Lemma N_pos : 0 < N. Proof. reflexivity. Qed.
  Lemma D_pos : 0 < D. Proof. reflexivity. Qed.
  Lemma X_pos : 0 < X.
  Proof. unfold X. apply Qlt_shift_div_l; [apply D_pos|]. rewrite Qmult_0_l. apply N_pos. Qed.

  Definition sc (e : Z) : Z * Z :=
    if (0 <=? e)%Z then (Zpos num, (Zpos den * 2 ^ e)%Z) else ((Zpos num * 2 ^ (- e))%Z, Zpos den).

  Lemma sc_spec e : (0 < snd (sc e))%Z /\ inject_Z (fst (sc e)) / inject_Z (snd (sc e)) == X / p2 e.
  Proof.
    unfold sc. destruct (Z.leb_spec 0 e); cbn [fst snd].
    - split; [apply Z.mul_pos_pos; [reflexivity|apply Z.pow_pos_nonneg; lia]|].
      rewrite inject_Z_mult, p2_nonneg_Z by lia. unfold X. fold N D. pose proof D_pos as PD. field. solve_nz.
    - split; [reflexivity|].
      rewrite inject_Z_mult, p2_nonneg_Z by lia. unfold X. fold N D.
      assert (E : p2 (- e) == / p2 e) by (unfold p2; apply Qpower_opp).
      rewrite E. pose proof D_pos as PD. field. solve_nz.
  Qed.

  Definition code_rne (nd : Z * Z) : Z :=
    let q := (fst nd / snd nd)%Z in
    let r := (fst nd mod snd nd)%Z in
    if (2 * r <? snd nd)%Z then q else if (snd nd <? 2 * r)%Z then (q + 1)%Z else if Z.even q then q else (q + 1)%Z.

  Definition e0 : Z := (Z.log2 (Zpos num) - Z.log2 (Zpos den) - 52)%Z.
  Definition ex : Z := if (fst (sc e0) / snd (sc e0) <? 2 ^ 52)%Z then (e0 - 1)%Z else e0.

  Lemma round53_pos_unfold :
    round53_pos num den = Qred (inject_Z (code_rne (sc ex)) * pow2Q ex).
  Proof.
    unfold round53_pos, ex, code_rne, sc, e0.
    set (E0 := (Z.log2 (Z.pos num) - Z.log2 (Z.pos den) - 52)%Z).
    cbv zeta beta.
    destruct (0 <=? E0)%Z eqn:H0; cbn [fst snd].
    - destruct (Z.pos num / (Z.pos den * 2 ^ E0) <? 2 ^ 52)%Z.
      + destruct (0 <=? E0 - 1)%Z; cbn [fst snd]; reflexivity.
      + rewrite H0. cbn [fst snd]. reflexivity.
    - destruct (Z.pos num * 2 ^ (- E0) / Z.pos den <? 2 ^ 52)%Z.
      + destruct (0 <=? E0 - 1)%Z; cbn [fst snd]; reflexivity.
      + rewrite H0. cbn [fst snd]. reflexivity.
  Qed.

  (** 2^51 < X / 2^e0 < 2^53 *)
  Lemma e0_bounds : p2 51 < X / p2 e0 /\ X / p2 e0 < p2 53.
  Proof.
    set (ln := Z.log2 (Zpos num)). set (ld := Z.log2 (Zpos den)).
    assert (Hln : (0 <= ln)%Z) by apply Z.log2_nonneg.
    assert (Hld : (0 <= ld)%Z) by apply Z.log2_nonneg.
    destruct (Z.log2_spec (Zpos num) eq_refl) as [N1 N2]. fold ln in N1, N2.
    destruct (Z.log2_spec (Zpos den) eq_refl) as [D1 D2]. fold ld in D1, D2.
    assert (A1 : p2 ln <= N) by (rewrite <- p2_nonneg_Z by lia; unfold N; now rewrite <- Zle_Qle).
    assert (A2 : N < 2 * p2 ln).
    { assert (E : 2 * p2 ln == p2 (Z.succ ln)).
      { unfold Z.succ. rewrite p2_plus. unfold p2 at 3. simpl. ring. }
      rewrite E, <- p2_nonneg_Z by lia. unfold N. now rewrite <- Zlt_Qlt. }
    assert (B1 : p2 ld <= D) by (rewrite <- p2_nonneg_Z by lia; unfold D; now rewrite <- Zle_Qle).
    assert (B2 : D < 2 * p2 ld).
    { assert (E : 2 * p2 ld == p2 (Z.succ ld)).
      { unfold Z.succ. rewrite p2_plus. unfold p2 at 3. simpl. ring. }
      rewrite E, <- p2_nonneg_Z by lia. unfold D. now rewrite <- Zlt_Qlt. }
    pose proof (p2_pos ln) as PA. pose proof (p2_pos ld) as PB. pose proof D_pos as PD. pose proof N_pos as PN.
    set (A := p2 ln) in *. set (B := p2 ld) in *.
    assert (EP : p2 e0 == A / (B * p2 52)).
    { unfold e0. fold ln ld. replace (ln - ld - 52)%Z with (ln + (- ld + - (52)))%Z by lia.
      rewrite !p2_plus. fold A.
      assert (E1 : p2 (- ld) == / B) by (unfold p2, B; apply Qpower_opp).
      assert (E2 : p2 (- (52)) == / p2 52) by (unfold p2; apply Qpower_opp).
      rewrite E1, E2. field. solve_nz. }
    assert (ES : X / p2 e0 == (N * B * p2 52) / (D * A)).
    { rewrite EP. unfold X. field. solve_nz. }
    rewrite ES.
    assert (PDA : 0 < D * A) by (apply Qmult_lt_0_compat; auto).
    assert (H51 : p2 51 == p2 52 * (1 # 2)) by (unfold p2; reflexivity).
    assert (H53 : p2 53 == p2 52 * 2) by (unfold p2; reflexivity).
    pose proof (p2_pos 52) as PC. set (C := p2 52) in *.
    split.
    - apply Qlt_shift_div_l; auto. rewrite H51.
      (* C/2 * (D*A) < C/2 * (2B*A) = C*B*A <= N*B*C *)
      apply Qlt_le_trans with (C * (1 # 2) * (2 * B * A)).
      + apply Qmult_lt_l; [apply Qmult_lt_0_compat; [exact PC|reflexivity]|]. apply Qmult_lt_r; auto.
      + setoid_replace (C * (1 # 2) * (2 * B * A)) with (A * (B * C)) by ring.
        setoid_replace (N * B * C) with (N * (B * C)) by ring.
        apply Qmult_le_r; [apply Qmult_lt_0_compat; auto|]. exact A1.
    - apply Qlt_shift_div_r; auto. rewrite H53.
      apply Qlt_le_trans with (2 * A * B * C).
      + setoid_replace (N * B * C) with (N * (B * C)) by ring.
        setoid_replace (2 * A * B * C) with (2 * A * (B * C)) by ring.
        apply Qmult_lt_r; [apply Qmult_lt_0_compat; auto|]. exact A2.
      + setoid_replace (2 * A * B * C) with (C * 2 * (B * A)) by ring.
        apply Qmult_le_l; [apply Qmult_lt_0_compat; [exact PC|reflexivity]|]. apply Qmult_le_r; auto.
  Qed.

  Lemma ex_bounds : p2 52 <= X / p2 ex /\ X / p2 ex < p2 53.
  Proof.
    destruct e0_bounds as [L U]. unfold ex.
    destruct (sc_spec e0) as [Dp Es].
    assert (EF : (fst (sc e0) / snd (sc e0))%Z = Qfloor (X / p2 e0)).
    { rewrite Zdiv_Qdiv. now apply Qfloor_comp. }
    rewrite EF.
    assert (H52 : inject_Z (2 ^ 52) == p2 52) by (apply p2_nonneg_Z; lia).
    destruct (Z.ltb_spec (Qfloor (X / p2 e0)) (2 ^ 52)) as [Lt|Ge].
    - (* one binade down *)
      assert (S0 : X / p2 e0 < p2 52).
      { apply Qlt_le_trans with (inject_Z (Qfloor (X / p2 e0) + 1)); [apply Qlt_floor|].
        rewrite <- H52, <- Zle_Qle. lia. }
      assert (E : X / p2 (e0 - 1) == 2 * (X / p2 e0)).
      { rewrite p2_pred. field. apply p2_nz. }
      rewrite E.
      assert (H51 : p2 52 == 2 * p2 51) by (unfold p2; reflexivity).
      assert (H53 : p2 53 == 2 * p2 52) by (unfold p2; reflexivity).
      split; lra.
    - split; auto. apply Qle_trans with (inject_Z (Qfloor (X / p2 e0))); [|apply Qfloor_le].
      rewrite <- H52, <- Zle_Qle. exact Ge.
  Qed.

  Theorem round53_pos_char :
    round53_pos num den == inject_Z (rne (X / p2 ex)) * p2 ex /\ p2 52 <= X / p2 ex /\ X / p2 ex < p2 53.
  Proof.
    split; [|apply ex_bounds].
    rewrite round53_pos_unfold, Qred_correct, pow2Q_p2.
    destruct (sc_spec ex) as [Dp Es].
    unfold code_rne. rewrite (rne_div _ _ Dp). now rewrite (rne_comp _ _ Es).
  Qed.
End Pos.

(** * consequences for [round53] on positive rationals *)
Lemma Qpos_shape (x : Q) : 0 < x -> exists n d, x = Zpos n # d.
Proof.
  destruct x as [[|n|n] d]; intros H; try (exfalso; unfold Qlt in H; simpl in H; lia). eauto.
Qed.

Lemma Qmake_div n d : Zpos n # d == inject_Z (Zpos n) / inject_Z (Zpos d).
Proof. apply Qmake_Qdiv. Qed.

Lemma round53_shape x : 0 < x ->
  exists e, round53 x == inject_Z (rne (x / p2 e)) * p2 e /\ p2 52 <= x / p2 e /\ x / p2 e < p2 53.
Proof.
  intros H. destruct (Qpos_shape x H) as (n & d & ->). unfold round53. simpl Qnum. simpl Qden.
  destruct (round53_pos_char n d) as (E & L & U). exists (ex n d).
  assert (EQ : (Zpos n # d) / p2 (ex n d) == inject_Z (Zpos n) / inject_Z (Zpos d) / p2 (ex n d))
    by (rewrite (Qmake_div n d); reflexivity).
  split; [|split].
  - rewrite E. now rewrite (rne_comp _ _ EQ).
  - now rewrite EQ.
  - now rewrite EQ.
Qed.

Lemma rne_bounds s : p2 52 <= s -> s < p2 53 -> p2 52 <= inject_Z (rne s) /\ inject_Z (rne s) <= p2 53.
Proof.
  intros L U. pose proof (rne_ge_floor s) as [F1 F2].
  assert (H52 : inject_Z (2 ^ 52) == p2 52) by (apply p2_nonneg_Z; lia).
  assert (H53 : inject_Z (2 ^ 53) == p2 53) by (apply p2_nonneg_Z; lia).
  assert (G1 : (2 ^ 52 <= Qfloor s)%Z).
  { rewrite <- (Qfloor_Z (2 ^ 52)). apply Qfloor_resp_le. now rewrite H52. }
  assert (G2 : (Qfloor s < 2 ^ 53)%Z).
  { rewrite Zlt_Qlt, H53. apply Qle_lt_trans with s; auto. apply Qfloor_le. }
  split.
  - rewrite <- H52, <- Zle_Qle. lia.
  - rewrite <- H53, <- Zle_Qle. lia.
Qed.

(** relative error at most 2^-53 *)
Theorem round53_error x : 0 < x -> Qabs (round53 x - x) <= x * (1 # 2 ^ 53).
Proof.
  intros H. destruct (round53_shape x H) as (e & E & L & U). rewrite E.
  pose proof (p2_pos e) as Pe. pose proof (rne_near (x / p2 e)) as Nr.
  set (s := x / p2 e) in *. set (q := inject_Z (rne s)) in *.
  assert (Ex : x == s * p2 e) by (unfold s; field; apply p2_nz).
  assert (A : Qabs (q * p2 e - x) == Qabs (q - s) * p2 e).
  { rewrite Ex at 1. setoid_replace (q * p2 e - s * p2 e) with ((q - s) * p2 e) by ring.
    rewrite Qabs_Qmult. rewrite (Qabs_pos (p2 e)); [reflexivity|]. now apply Qlt_le_weak. }
  rewrite A.
  apply Qle_trans with ((1 # 2) * p2 e).
  - apply Qmult_le_r; auto.
  - (* p2 e / 2 <= s * p2 e * 2^-53 since 2^52 <= s *)
    rewrite Ex.
    assert (H52 : p2 52 * (1 # 2 ^ 53) == 1 # 2) by (unfold p2; reflexivity).
    setoid_replace (s * p2 e * (1 # 2 ^ 53)) with (s * (1 # 2 ^ 53) * p2 e) by ring.
    apply Qmult_le_r; auto. rewrite <- H52. apply Qmult_le_r; [reflexivity|exact L].
Qed.

(** monotone *)
Theorem round53_mono x y : 0 < x -> x <= y -> round53 x <= round53 y.
Proof.
  intros Hx Hxy. assert (Hy : 0 < y) by (eapply Qlt_le_trans; eauto).
  destruct (round53_shape x Hx) as (e1 & E1 & L1 & U1).
  destruct (round53_shape y Hy) as (e2 & E2 & L2 & U2).
  rewrite E1, E2.
  pose proof (p2_pos e1) as P1. pose proof (p2_pos e2) as P2.
  destruct (rne_bounds _ L1 U1) as [B1 B1']. destruct (rne_bounds _ L2 U2) as [B2 B2'].
  assert (X1 : x == x / p2 e1 * p2 e1) by (field; apply p2_nz).
  assert (X2 : y == y / p2 e2 * p2 e2) by (field; apply p2_nz).
  destruct (Z.lt_trichotomy e1 e2) as [Lt|[Eq|Gt]].
  - (* lower binade *)
    apply Qle_trans with (p2 53 * p2 e1); [apply Qmult_le_r; auto|].
    apply Qle_trans with (p2 52 * p2 e2); [|apply Qmult_le_r; auto].
    rewrite <- !p2_plus. apply p2_le. lia.
  - subst e2. apply Qmult_le_r; auto. rewrite <- Zle_Qle. apply rne_mono.
    apply Qmult_le_r with (z := p2 e1); auto. now rewrite <- X1, <- X2.
  - exfalso.
    assert (Y : y < p2 53 * p2 e2).
    { rewrite X2 at 1. apply Qmult_lt_r; auto. }
    assert (Xl : p2 52 * p2 e1 <= x).
    { rewrite X1 at 1. apply Qmult_le_r; auto. }
    assert (C : p2 53 * p2 e2 <= p2 52 * p2 e1).
    { rewrite <- !p2_plus. apply p2_le. lia. }
    assert (x < x) by (eapply Qle_lt_trans; [exact Hxy|]; eapply Qlt_le_trans; [exact Y|]; eapply Qle_trans; eauto).
    now apply Qlt_irrefl in H.
Qed.

(** * the test of the code is exactly "frequency > threshold or in every tree": no grid *)
From GT Require Import Proofs.ConsensusFloat.

Theorem keep_split_exact (cutoff : Q) (n c : Z) :
  0 < cutoff -> cutoff <= 1 -> (0 < c <= n)%Z -> (Zpos (Qden cutoff) * n < 2 ^ 52)%Z ->
  (keep_split (round53 cutoff) n c = true <-> (cutoff < inject_Z c / inject_Z n \/ c = n)).
Proof.
  intros C0 C1 Hc Hsmall.
  assert (Hn : (0 < n)%Z) by lia.
  rewrite (keep_split_iff (round53 cutoff) n c Hn). unfold freq64.
  set (f := inject_Z c / inject_Z n).
  assert (Nq : 0 < inject_Z n) by (change 0 with (inject_Z 0); rewrite <- Zlt_Qlt; lia).
  assert (Cq : 0 < inject_Z c) by (change 0 with (inject_Z 0); rewrite <- Zlt_Qlt; lia).
  assert (F0 : 0 < f) by (unfold f; apply Qlt_shift_div_l; auto; now rewrite Qmult_0_l).
  assert (F1 : f <= 1) by (unfold f; apply Qle_shift_div_r; auto; rewrite Qmult_1_l, <- Zle_Qle; lia).
  assert (KEY : round53 cutoff < round53 f <-> cutoff < f).
  { split.
    - intros H. apply Qnot_le_lt. intro L. apply (Qlt_not_le _ _ H). now apply round53_mono.
    - intros H.
      pose proof (round53_error cutoff C0) as Ea. pose proof (round53_error f F0) as Eb.
      apply Qabs_Qle_condition in Ea. apply Qabs_Qle_condition in Eb.
      (* the gap between two distinct fractions *)
      destruct cutoff as [p D] eqn:EC. simpl Qden in Hsmall.
      set (k := (c * Zpos D + - (p * n))%Z).
      assert (Dq : 0 < inject_Z (Zpos D)) by reflexivity.
      assert (G : f - (p # D) == inject_Z k / (inject_Z n * inject_Z (Zpos D))).
      { unfold f, k. rewrite (Qmake_Qdiv p D), inject_Z_plus, inject_Z_opp, !inject_Z_mult. field.
        split; intro Z0; [rewrite Z0 in Dq|rewrite Z0 in Nq]; discriminate. }
      assert (ND : 0 < inject_Z n * inject_Z (Zpos D)) by (apply Qmult_lt_0_compat; auto).
      assert (Kpos : (1 <= k)%Z).
      { assert (0 < inject_Z k).
        { assert (0 < f - (p # D)) by lra. rewrite G in H0.
          apply (Qmult_lt_r _ _ _ ND) in H0. rewrite Qmult_0_l in H0.
          setoid_replace (inject_Z k / (inject_Z n * inject_Z (Z.pos D)) * (inject_Z n * inject_Z (Z.pos D)))
            with (inject_Z k) in H0; auto.
          field. split; intro Z0; [rewrite Z0 in Dq|rewrite Z0 in Nq]; discriminate. }
        change 0 with (inject_Z 0) in H0. rewrite <- Zlt_Qlt in H0. lia. }
      assert (GAP : (1 # 2 ^ 52) < f - (p # D)).
      { rewrite G. apply Qlt_shift_div_l; auto.
        apply Qlt_le_trans with 1.
        - (* n * D < 2^52 *)
          assert (S : inject_Z n * inject_Z (Zpos D) < inject_Z (2 ^ 52)).
          { rewrite <- inject_Z_mult, <- Zlt_Qlt. lia. }
          assert (T : (1 # 2 ^ 52) * inject_Z (2 ^ 52) == 1) by reflexivity.
          rewrite <- T. apply Qmult_lt_l; [reflexivity|exact S].
        - change 1 with (inject_Z 1). rewrite <- Zle_Qle. exact Kpos. }
      assert (U1 : (p # D) * (1 # 2 ^ 53) <= 1 # 2 ^ 53).
      { rewrite <- (Qmult_1_l (1 # 2 ^ 53)) at 2. apply Qmult_le_r; [reflexivity|exact C1]. }
      assert (U2 : f * (1 # 2 ^ 53) <= 1 # 2 ^ 53).
      { rewrite <- (Qmult_1_l (1 # 2 ^ 53)) at 2. apply Qmult_le_r; [reflexivity|exact F1]. }
      assert (T2 : (1 # 2 ^ 52) == (1 # 2 ^ 53) + (1 # 2 ^ 53)) by reflexivity.
      lra. }
  rewrite KEY. intuition lia.
Qed.

(** a split kept at a threshold >= 0.5 is in more than half of the trees *)
Theorem kept_is_majority (c64 : Q) (n c : Z) :
  (1 # 2) <= c64 -> (0 < n)%Z -> keep_split c64 n c = true -> (n < 2 * c)%Z.
Proof.
  intros Hc Hn K. apply (keep_split_iff c64 n c Hn) in K. destruct K as [Hcn [K| ->]]; [|lia].
  destruct (Z_lt_le_dec n (2 * c)) as [|Le]; auto. exfalso.
  assert (Nq : 0 < inject_Z n) by (change 0 with (inject_Z 0); rewrite <- Zlt_Qlt; lia).
  assert (Cq : 0 < inject_Z c) by (change 0 with (inject_Z 0); rewrite <- Zlt_Qlt; lia).
  assert (F0 : 0 < inject_Z c / inject_Z n) by (apply Qlt_shift_div_l; auto; now rewrite Qmult_0_l).
  assert (F1 : inject_Z c / inject_Z n <= 1 # 2).
  { apply Qle_shift_div_r; auto.
    assert (T : inject_Z (2 * c) == 2 * inject_Z c) by (rewrite inject_Z_mult; reflexivity).
    rewrite Zle_Qle, T in Le. lra. }
  pose proof (round53_mono _ _ F0 F1) as M.
  assert (H12 : round53 (1 # 2) == 1 # 2) by (vm_compute; reflexivity).
  unfold freq64 in K. rewrite H12 in M. lra.
Qed.
