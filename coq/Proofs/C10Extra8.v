(** C10, round 8 additions:
    1. the model-level hypothesis [2 <= topo_depth ref c] of the C10 theorems is exactly "the
       branch defines a non-trivial bipartition" (both sides have >= 2 taxa);
    2. one statement about the two annotated trees (what FBP / TBE write at the position of a
       branch with a non-trivial bipartition): the definitions, ranges, order, support 1;
    3. TBE's inner worker pool (Model/C10Extra8.v over the cell pool of Model/PoolCells.v): for
       every interleaving, every number of workers and every channel capacity, the support
       fields after wg.Wait() are those of the sequential [tbe_step]. *)
From Coq Require Import String NArith ZArith QArith Bool Arith Lia Permutation List.
From GT Require Import Base.UTree Spec.Obs Spec.Support Model.Support
     Proofs.SupportBase Proofs.SupportMTD Proofs.SupportClosed Proofs.SupportSpec Proofs.SupportDomain
     Model.Pool Model.PoolCells Proofs.PoolCells Proofs.Pool2Main Model.C10Extra8.
Import ListNotations.
Local Close Scope Q_scope.
Local Open Scope string_scope.

(** * 1. p >= 2 = non-trivial bipartition *)
Lemma depth_two_iff : forall ref e c,
    good ref -> In (e, c) (edges ref) ->
    (2 <= topo_depth ref c <->
     2 <= length (leaves c) /\ 2 <= length (leaves ref) - length (leaves c)).
Proof.
  intros ref e c G Hin. destruct (model_args ref e c G Hin) as [_ [_ [_ E]]]. rewrite E.
  split; intros H; lia.
Qed.

Lemma depth_two_not_tip : forall ref c, 2 <= topo_depth ref c -> is_tip c = false.
Proof.
  intros ref c P. destruct (is_tip c) eqn:T; [|reflexivity].
  pose proof (tip_topo_depth ref c T). lia.
Qed.

(** * 2. the annotated trees *)
Lemma in_combine_map : forall (A B : Type) (g : A -> B) (l : list A) (x : A),
    In x l -> In (x, g x) (combine l (map g l)).
Proof.
  intros A B g l x. induction l as [|a l IH]; intros H; [destruct H|].
  simpl. destruct H as [H|H]; [left; subst; reflexivity|right; apply IH; exact H].
Qed.

Theorem annotated_meets_definitions : forall ref boots e c,
    domain ref boots -> boots <> [] -> In (e, c) (edges ref) ->
    2 <= length (leaves c) -> 2 <= length (leaves ref) - length (leaves c) ->
    exists f t : Q,
      In ((e, c), (false, f)) (combine (edges ref) (osup (fbp ref boots))) /\
      In ((e, c), (false, t)) (combine (edges ref) (osup (tbe ref boots))) /\
      oerr (fbp ref boots) = "" /\ oerr (tbe ref boots) = "" /\
      f = fbp_spec (leaves ref) (leaves c) boots /\
      t = tbe_spec (leaves ref) (leaves c) boots /\
      (0 <= f)%Q /\ (f <= t)%Q /\ (t <= 1)%Q /\
      ((t == 1)%Q <-> forall b, In b boots -> has_split (leaves ref) (leaves c) b = true).
Proof.
  intros ref boots e c Dom NE Hin LA LB.
  pose proof Dom as [G _].
  assert (P : 2 <= topo_depth ref c) by (apply (depth_two_iff ref e c G Hin); split; assumption).
  pose proof (depth_two_not_tip ref c P) as NT.
  pose proof (domain_taxa_ok ref boots Dom) as T.
  exists (fbp_val ref boots c), (tbe_val ref boots c).
  rewrite (fbp_closed ref boots T), (tbe_closed ref boots T). cbn [osup oerr].
  split.
  { set (g := fun ec : einfo * utree => if is_tip (snd ec) then (true, esup (fst ec))
                                       else (false, fbp_val ref boots (snd ec))).
    replace (false, fbp_val ref boots c) with (g (e, c))
      by (unfold g; cbn [fst snd]; rewrite NT; reflexivity).
    exact (in_combine_map _ _ g (edges ref) (e, c) Hin). }
  split.
  { set (g := fun ec : einfo * utree => (is_tip (snd ec), tbe_val ref boots (snd ec))).
    replace (false, tbe_val ref boots c) with (g (e, c))
      by (unfold g; cbn [fst snd]; rewrite NT; reflexivity).
    exact (in_combine_map _ _ g (edges ref) (e, c) Hin). }
  split; [reflexivity|]. split; [reflexivity|].
  split; [exact (fbp_model_spec ref boots e c Dom Hin P)|].
  split; [exact (tbe_model_spec ref boots e c Dom Hin P NE)|].
  split; [exact (proj1 (fbp_val_bounds ref boots c NE))|].
  split; [exact (tbe_ge_fbp ref boots e c Dom Hin P NE)|].
  split; [exact (proj2 (tbe_val_bounds ref boots c NE P))|].
  rewrite (tbe_one_iff_fbp_one ref boots e c Dom Hin P NE).
  exact (fbp_one_iff_all ref boots e c Dom Hin P NE).
Qed.

(** * 3. the inner pool *)
Lemma map_fst_combine_seq : forall (B : Type) (l : list B) k,
    map fst (combine (seq k (length l)) l) = seq k (length l).
Proof.
  intros B l. induction l as [|x l IH]; intros k; simpl; [reflexivity|].
  f_equal. apply IH.
Qed.

Lemma jobs_cells : forall es : list (einfo * utree),
    map (fun j : tbe_job => fst j) (tbe_jobs es) = seq 0 (length es).
Proof. intros es. exact (map_fst_combine_seq _ es 0). Qed.

Lemma tbe_step_as_map : forall ref X ntips es acc b,
    tbe_step ref X ntips es acc b
    = map (fun q => tbe_job_upd ref X ntips b (0, snd q) (fst q)) (combine acc es).
Proof. reflexivity. Qed.

Lemma combine_seq_map : forall (B C : Type) (g : C -> B -> C) (d : C) (es : list B) (acc : list C) k,
    length acc = length es ->
    map (fun j : nat * B => g (nth (fst j - k) acc d) (snd j)) (combine (seq k (length es)) es)
    = map (fun q => g (fst q) (snd q)) (combine acc es).
Proof.
  intros B C g d es. induction es as [|x es IH]; intros acc k L.
  - destruct acc; reflexivity.
  - destruct acc as [|a acc]; [simpl in L; discriminate|].
    cbn [length seq combine map fst snd]. rewrite Nat.sub_diag. cbn [nth]. f_equal.
    rewrite <- (IH acc (S k)) by (simpl in L; lia).
    apply map_ext_in. intros [i y] Hi. apply in_combine_l in Hi. apply in_seq in Hi.
    cbn [fst snd]. replace (i - k) with (S (i - S k)) by lia. reflexivity.
Qed.

Theorem tbe_pool_is_step : forall ref X ntips b es acc cj n sched,
    length acc = length es -> 1 <= n ->
    let s := tbe_pool_run ref X ntips b es acc cj n sched in
    cfinished tbe_job (option nat) unit s = true ->
    tbe_pool_fields es s = tbe_step ref X ntips es acc b.
Proof.
  intros ref X ntips b es acc cj n sched L Hn s F.
  assert (N : NoDup (map (fun j : tbe_job => fst j) (tbe_jobs es))).
  { rewrite jobs_cells. apply seq_NoDup. }
  destruct (cells_final_memory tbe_job (option nat) unit (fun j : tbe_job => fst j)
              (tbe_job_upd ref X ntips b) (fun _ => tt) (fun _ _ => tt)
              cj (tbe_jobs es) n (tbe_cells0 acc) tt sched N
              (fun _ _ _ => eq_refl) (fun _ _ => eq_refl) Hn F) as [Hc _].
  fold (tbe_pool_run ref X ntips b es acc cj n sched) in Hc. fold s in Hc.
  unfold tbe_pool_fields.
  replace (seq 0 (length es)) with (map (fun j : tbe_job => fst j) (tbe_jobs es))
    by (apply jobs_cells).
  rewrite map_map.
  transitivity (map (fun j : tbe_job => tbe_job_upd ref X ntips b j (tbe_cells0 acc (fst j)))
                    (tbe_jobs es)).
  { apply map_ext_in. intros j Hj. rewrite Hc.
    apply (seq_cells_in tbe_job (option nat) (fun j : tbe_job => fst j)
                        (tbe_job_upd ref X ntips b) (tbe_jobs es) (tbe_cells0 acc) j N Hj). }
  rewrite tbe_step_as_map. unfold tbe_jobs, tbe_cells0.
  rewrite <- (combine_seq_map (einfo * utree) (option nat)
                (fun s0 ec => tbe_job_upd ref X ntips b (0, ec) s0) None es acc 0 L).
  apply map_ext. intros [i ec]. cbn [fst snd]. rewrite Nat.sub_0_r. reflexivity.
Qed.

(** two runs (different numbers of workers, capacities, interleavings) leave the same fields *)
Theorem tbe_pool_two_runs : forall ref X ntips b es acc cj1 n1 sched1 cj2 n2 sched2,
    length acc = length es -> 1 <= n1 -> 1 <= n2 ->
    let s1 := tbe_pool_run ref X ntips b es acc cj1 n1 sched1 in
    let s2 := tbe_pool_run ref X ntips b es acc cj2 n2 sched2 in
    cfinished tbe_job (option nat) unit s1 = true ->
    cfinished tbe_job (option nat) unit s2 = true ->
    tbe_pool_fields es s1 = tbe_pool_fields es s2.
Proof.
  intros ref X ntips b es acc cj1 n1 sched1 cj2 n2 sched2 L H1 H2 s1 s2 F1 F2.
  unfold s1, s2.
  rewrite (tbe_pool_is_step ref X ntips b es acc cj1 n1 sched1 L H1 F1).
  rewrite (tbe_pool_is_step ref X ntips b es acc cj2 n2 sched2 L H2 F2).
  reflexivity.
Qed.

(** * non-vacuity *)
Definition x8_sched : list nat :=
  flat_map (fun _ => [0; 1; 2; 1; 2; 1; 2; 1; 2]) (seq 0 12).

Lemma x8_pool_example :
  let es := edges w_ref in
  let acc := map (fun _ : einfo * utree => @None nat) es in
  let s := tbe_pool_run w_ref (tip_names w_ref) (length (tips w_ref)) w_boot es acc 2 2 x8_sched in
  length acc = length es /\ cfinished tbe_job (option nat) unit s = true /\
  length es = 6 /\ tbe_pool_fields es s <> acc.
Proof.
  vm_compute. repeat split; try reflexivity. intros H; discriminate H.
Qed.

Definition x8_ref : utree :=
  wroot [wnode [wtip "a"; wtip "b"]; wtip "c"; wnode [wtip "d"; wtip "e"]].
Definition x8_boot1 : utree :=
  wroot [wnode [wtip "a"; wtip "b"]; wtip "d"; wnode [wtip "c"; wtip "e"]].
Definition x8_boot2 : utree :=
  wroot [wtip "a"; wtip "c"; wnode [wtip "b"; wnode [wtip "d"; wtip "e"]]].
Definition x8_c : utree := wnode [wtip "d"; wtip "e"].

Lemma x8_good : forall t, In t [x8_ref; x8_boot1; x8_boot2] -> good t.
Proof.
  intros t H. simpl in H.
  destruct H as [H|[H|[H|[]]]]; subst t;
    (split; [reflexivity|]; split; [unfold degree; simpl; lia|];
     simpl; repeat constructor; simpl; intuition discriminate).
Qed.

Lemma x8_example :
  domain x8_ref [x8_boot1; x8_boot2] /\ [x8_boot1; x8_boot2] <> [] /\
  In (e0, x8_c) (edges x8_ref) /\
  2 <= length (leaves x8_c) /\ 2 <= length (leaves x8_ref) - length (leaves x8_c) /\
  (fbp_spec (leaves x8_ref) (leaves x8_c) [x8_boot1; x8_boot2] == 1 # 2)%Q /\
  (tbe_spec (leaves x8_ref) (leaves x8_c) [x8_boot1; x8_boot2] == 1 # 2)%Q /\
  In ((e0, x8_c), (false, (1 # 2)%Q))
     (combine (edges x8_ref) (osup (tbe x8_ref [x8_boot1; x8_boot2]))).
Proof.
  split.
  { split; [apply x8_good; simpl; tauto|].
    constructor; [|constructor; [|constructor]];
      (split; [apply x8_good; simpl; tauto|intros x; simpl; tauto]). }
  split; [discriminate|].
  split; [simpl; tauto|].
  split; [simpl; lia|]. split; [simpl; lia|].
  split; [vm_compute; reflexivity|]. split; [vm_compute; reflexivity|].
  vm_compute. tauto.
Qed.

(** * 4. the short-cuts of TBE against the plain traversal
    [absent = false] is the full post-order traversal MinTransferDist runs when the moved-taxa
    options of the command are set (no early stop, no index short-cut needed): the distance TBE
    adds with its short-cuts (0 on an index hit, early stop at distance 1 otherwise) is the one
    the full traversal returns. *)
Theorem tree_dist_is_full_traversal : forall ref boot e c,
    good ref -> good boot -> same_taxa_p ref boot ->
    In (e, c) (edges ref) -> 2 <= topo_depth ref c ->
    tree_dist ref c boot
    = min_transfer_dist (length (tips ref)) (topo_depth ref c) (ntax_right c) (below c) false boot.
Proof.
  intros ref boot e c G Gb Sb Hin P.
  rewrite (tree_dist_delta ref boot e c G Gb Sb Hin P).
  symmetry. exact (min_transfer_dist_delta_good ref boot e c G Gb Sb Hin).
Qed.

Theorem early_stop_is_full_traversal : forall ref boot e c,
    good ref -> good boot -> same_taxa_p ref boot ->
    In (e, c) (edges ref) -> 2 <= topo_depth ref c ->
    index_has (tip_names ref) (tbe_index boot) (below c) = false ->
    min_transfer_dist (length (tips ref)) (topo_depth ref c) (ntax_right c) (below c) true boot
    = min_transfer_dist (length (tips ref)) (topo_depth ref c) (ntax_right c) (below c) false boot.
Proof.
  intros ref boot e c G Gb Sb Hin P Hidx.
  rewrite <- (tree_dist_is_full_traversal ref boot e c G Gb Sb Hin P).
  unfold tree_dist. rewrite Hidx. reflexivity.
Qed.

Lemma x8_short_cut_example :
  index_has (tip_names x8_ref) (tbe_index x8_boot1) (below x8_c) = false /\
  2 <= topo_depth x8_ref x8_c /\
  min_transfer_dist (length (tips x8_ref)) (topo_depth x8_ref x8_c) (ntax_right x8_c) (below x8_c)
                    true x8_boot1 = 1 /\
  tree_dist x8_ref x8_c x8_boot2 = 0.
Proof. vm_compute. repeat split; try reflexivity; lia. Qed.

(** * 5. which inner branches the C10 theorems leave out
    A branch whose lower node has at least two children (an inner branch not hanging under a
    unary node) and whose p is <= 1 has exactly one taxon on its other side: its bipartition is
    the trivial {x} | rest.  (In a tree without unary nodes that is the root branch beside a tip
    child of a bifurcating root: the recorded finding.) *)
Lemma kids_leaves_length : forall sl : list slot,
    length (kids_of sl)
    <= length (flat_map (fun s : slot => match s with Some (_, ch) => leaves ch | None => [] end) sl).
Proof.
  induction sl as [|[[e c]|] r IH]; [simpl; lia| |simpl; exact IH].
  change (kids_of (Some (e, c) :: r)) with ((e, c) :: kids_of r).
  cbn [flat_map]. rewrite app_length. cbn [length].
  pose proof (leaves_nonempty c) as NE.
  destruct (leaves c) as [|x l]; [congruence|]. cbn [length]. lia.
Qed.

Lemma two_kids_two_leaves : forall c, 2 <= length (kids c) -> 2 <= length (leaves c).
Proof.
  intros [n cm sl] K. unfold kids in K. cbn [uslots] in K. cbn [leaves].
  pose proof (kids_leaves_length sl) as L.
  destruct (kids_of sl) as [|k1 ks] eqn:E; [simpl in K; lia|].
  cbv beta iota. cbn [length] in K, L. lia.
Qed.

Theorem left_out_branch_is_trivial : forall ref e c,
    good ref -> In (e, c) (edges ref) -> 2 <= length (kids c) -> topo_depth ref c <= 1 ->
    length (leaves ref) = S (length (leaves c)).
Proof.
  intros ref e c G Hin K P.
  pose proof (two_kids_two_leaves c K) as L2.
  pose proof (topo_depth_pos ref e c G Hin) as P1.
  destruct (model_args ref e c G Hin) as [_ [_ [_ E]]]. rewrite E in P, P1. lia.
Qed.

Lemma x8_left_out_example :
  good w_ref /\ In (e0, w_inner) (edges w_ref) /\ 2 <= length (kids w_inner) /\
  topo_depth w_ref w_inner <= 1.
Proof.
  split; [exact w_good_ref|]. split; [simpl; tauto|]. split; [simpl; lia|].
  vm_compute. lia.
Qed.
