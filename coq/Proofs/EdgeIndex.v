(** The split-keyed index (tree/edgeindex.go over hashmap/hashmap.go) finds, counts and
    overwrites entries exactly like a plain association list keyed by branches compared with
    HashEquals, whose meaning is "same bipartition": for keys taken from any trees on the same
    taxa, any initial capacity >= 1, any resize policy and any history. *)
From Coq Require Import String NArith ZArith QArith Bool Arith Lia List Permutation.
From GT Require Import Base.UTree Spec.Obs Model.Index Model.HashMap Model.EdgeIndex
     Proofs.IndexBase Proofs.IndexTree Proofs.IndexSplit Proofs.HashMap.
Import ListNotations.
Local Close Scope Q_scope.

Lemma filter_perm : forall A (f : A -> bool) l l', Permutation l l' -> Permutation (filter f l) (filter f l').
Proof.
  induction 1; simpl; auto.
  - destruct (f x); auto.
  - destruct (f x), (f y); auto. apply perm_swap.
  - eapply Permutation_trans; eauto.
Qed.

Section EI.
  Variable L : list string.                 (* the taxa *)
  Variable need : nat -> N -> bool.

  (** a key is the row of some branch of some well-formed tree on the taxa [L] *)
  Definition ok_key (k : ekey) : Prop :=
    exists t ec, good t /\ Permutation L (leaves t) /\ branch_row t ec (ek_row k).

  Lemma ekey_sym : forall a b, ok_key a -> ok_key b -> ekey_eqb a b = true -> ekey_eqb b a = true.
  Proof. intros a b _ _. apply eoc_sym. Qed.

  Lemma ekey_trans : forall a b c, ok_key a -> ok_key b -> ok_key c ->
                                   ekey_eqb a b = true -> ekey_eqb b c = true -> ekey_eqb a c = true.
  Proof. intros a b c _ _ _. apply eoc_trans. Qed.

  Lemma ekey_hash_compat : forall a b, ok_key a -> ok_key b -> ekey_eqb a b = true -> ekey_hash a = ekey_hash b.
  Proof.
    intros a b (t1 & ec1 & G1 & P1 & B1) (t2 & ec2 & G2 & P2 & B2) E.
    assert (P : Permutation (leaves t1) (leaves t2)) by (eapply Permutation_trans; [apply Permutation_sym|]; eauto).
    unfold ekey_hash. eapply (hashcode_same_split t1 t2); eauto.
    apply (equal_or_complement_iff t1 t2 ec1 _ ec2 _ G1 G2 P B1 B2). exact E.
  Qed.

  (** HashEquals on such keys is "same bipartition" *)
  Lemma ekey_eqb_same_split : forall t1 ec1 t2 ec2 a b,
      good t1 -> good t2 -> Permutation L (leaves t1) -> Permutation L (leaves t2) ->
      branch_row t1 ec1 (ek_row a) -> branch_row t2 ec2 (ek_row b) ->
      (ekey_eqb a b = true <-> same_split (leaves t1) (leaves (snd ec1)) (leaves (snd ec2))).
  Proof.
    intros. apply (equal_or_complement_iff t1 t2); auto.
    eapply Permutation_trans; [apply Permutation_sym|]; eauto.
  Qed.

  Notation EInv := (Inv ekey einfo_v ekey_hash ekey_eqb ok_key).

  Definition eiop_key (o : eiop) : ekey := match o with EIPut e _ _ => e | EIAdd e => e | EIValue e => e end.
  Definition eiops_ok (ops : list eiop) : Prop := Forall (fun o => ok_key (eiop_key o)) ops.

  Lemma ei_value_ref : forall m a e, ok_key e -> EInv m a -> ei_value m e = Some (ea_value a e).
  Proof. intros. eapply value_refines; eauto using ekey_sym, ekey_trans, ekey_hash_compat. Qed.

  Lemma ei_put_ref : forall m a e v m', ok_key e -> EInv m a ->
      put ekey einfo_v ekey_hash ekey_eqb need m e v = Some m' -> EInv m' (ea_put a e v).
  Proof. intros. eapply put_refines; eauto using ekey_sym, ekey_trans, ekey_hash_compat. Qed.

  Lemma ei_add_ref : forall m a e m', ok_key e -> EInv m a -> ei_add need m e = Some m' -> EInv m' (ea_add a e).
  Proof.
    intros m a e m' Ok I H. unfold ei_add in H. rewrite (ei_value_ref m a e Ok I) in H.
    unfold ea_add. destruct (ea_value a e) as [[c l]|]; eapply ei_put_ref; eauto.
  Qed.

  Lemma ei_run_refines : forall ops m a rs mf,
      eiops_ok ops -> EInv m a -> ei_run need m ops = Some (rs, mf) ->
      rs = fst (ei_run_assoc a ops) /\ EInv mf (snd (ei_run_assoc a ops)).
  Proof.
    induction ops as [|o ops IH]; simpl; intros m a rs mf HO I H.
    - inversion H; subst. auto.
    - inversion HO as [|? ? Ok HO']; subst. destruct o as [e cn ln|e|e]; simpl in Ok.
      + unfold ei_put in H.
        destruct (put ekey einfo_v ekey_hash ekey_eqb need m e (cn, ln)) as [m1|] eqn:P; [|discriminate].
        destruct (ei_run need m1 ops) as [[rs1 mf1]|] eqn:R; [|discriminate].
        inversion H; subst; clear H.
        eapply ei_put_ref in P; eauto. destruct (IH _ _ _ _ HO' P R) as [E J].
        destruct (ei_run_assoc (ea_put a e (cn, ln)) ops). simpl in *. subst. auto.
      + destruct (ei_add need m e) as [m1|] eqn:P; [|discriminate].
        destruct (ei_run need m1 ops) as [[rs1 mf1]|] eqn:R; [|discriminate].
        inversion H; subst; clear H.
        eapply ei_add_ref in P; eauto. destruct (IH _ _ _ _ HO' P R) as [E J].
        destruct (ei_run_assoc (ea_add a e) ops). simpl in *. subst. auto.
      + rewrite (ei_value_ref m a e Ok I) in H.
        destruct (ei_run need m ops) as [[rs1 mf1]|] eqn:R; [|discriminate].
        inversion H; subst; clear H.
        destruct (IH _ _ _ _ HO' I R) as [E J].
        destruct (ei_run_assoc a ops). simpl in *. subst. auto.
  Qed.

  Lemma ei_run_total : forall ops m a,
      eiops_ok ops -> no_overflow need -> EInv m a -> ei_run need m ops <> None.
  Proof.
    induction ops as [|o ops IH]; simpl; intros m a HO NO I; [discriminate|].
    inversion HO as [|? ? Ok HO']; subst. destruct o as [e cn ln|e|e]; simpl in Ok.
    - unfold ei_put.
      destruct (put ekey einfo_v ekey_hash ekey_eqb need m e (cn, ln)) as [m1|] eqn:P;
        [|eapply put_total in P; eauto].
      eapply ei_put_ref in P; eauto. specialize (IH _ _ HO' NO P).
      destruct (ei_run need m1 ops) as [[? ?]|]; [discriminate|congruence].
    - destruct (ei_add need m e) as [m1|] eqn:P.
      + eapply ei_add_ref in P; eauto. specialize (IH _ _ HO' NO P).
        destruct (ei_run need m1 ops) as [[? ?]|]; [discriminate|congruence].
      + unfold ei_add in P. rewrite (ei_value_ref m a e Ok I) in P.
        destruct (ea_value a e) as [[c l]|]; eapply put_total in P; eauto.
    - rewrite (ei_value_ref m a e Ok I). specialize (IH _ _ HO' NO I).
      destruct (ei_run need m ops) as [[? ?]|]; [discriminate|congruence].
  Qed.

  Theorem edgeindex_refines_gen : forall cap ops rs mf,
      (cap < W64)%N -> eiops_ok ops ->
      ei_run need (new_edge_index cap) ops = Some (rs, mf) ->
      rs = fst (ei_run_assoc [] ops) /\
      Permutation (key_values ekey einfo_v mf) (snd (ei_run_assoc [] ops)) /\
      (forall mn mx, Permutation (ei_edges mf mn mx)
                                 (filter (fun kv => let c := fst (snd kv) in
                                                    ((mn <? c)%Z && (c <=? mx)%Z) || (c =? mx)%Z)
                                         (snd (ei_run_assoc [] ops)))).
  Proof.
    intros cap ops rs mf Hc HO H.
    destruct (ei_run_refines ops _ _ _ _ HO (inv_new ekey einfo_v ekey_hash ekey_eqb ok_key cap Hc) H) as [E I].
    split; auto. split; [apply (inv_perm _ _ _ _ _ _ _ I)|].
    intros. unfold ei_edges. apply filter_perm. apply (inv_perm _ _ _ _ _ _ _ I).
  Qed.

  Theorem edgeindex_total_gen : forall cap ops,
      (cap < W64)%N -> eiops_ok ops -> no_overflow need ->
      ei_run need (new_edge_index cap) ops <> None.
  Proof.
    intros. eapply ei_run_total; eauto. apply inv_new. auto.
  Qed.
  (** totality under a policy bounded in the number of entries (the real 0.75 policy) *)
  Lemma ea_put_length : forall a e v, length (ea_put a e v) <= S (length a).
  Proof. intros. apply assoc_put_length. Qed.
  Lemma ea_add_length : forall a e, length (ea_add a e) <= S (length a).
  Proof. intros. unfold ea_add. destruct (ea_value a e) as [[c l]|]; apply ea_put_length. Qed.

  Lemma ei_run_total_b : forall B ops m a,
      eiops_ok ops -> no_overflow_upto need B -> EInv m a -> length a + length ops <= B ->
      ei_run need m ops <> None.
  Proof.
    induction ops as [|o ops IH]; simpl; intros m a HO NO I HB; [discriminate|].
    inversion HO as [|? ? Ok HO']; subst. destruct o as [e cn ln|e|e]; simpl in Ok.
    - unfold ei_put.
      destruct (put ekey einfo_v ekey_hash ekey_eqb need m e (cn, ln)) as [m1|] eqn:P;
        [|exfalso; revert P; eapply put_total_b with (B := B); eauto; lia].
      eapply ei_put_ref in P; eauto.
      assert (HB' : length (ea_put a e (cn, ln)) + length ops <= B) by (pose proof (ea_put_length a e (cn, ln)); lia).
      specialize (IH _ _ HO' NO P HB').
      destruct (ei_run need m1 ops) as [[? ?]|]; [discriminate|congruence].
    - destruct (ei_add need m e) as [m1|] eqn:P.
      + eapply ei_add_ref in P; eauto.
        assert (HB' : length (ea_add a e) + length ops <= B) by (pose proof (ea_add_length a e); lia).
        specialize (IH _ _ HO' NO P HB').
        destruct (ei_run need m1 ops) as [[? ?]|]; [discriminate|congruence].
      + unfold ei_add in P. rewrite (ei_value_ref m a e Ok I) in P.
        exfalso. destruct (ea_value a e) as [[c l]|]; revert P; eapply put_total_b with (B := B); eauto; lia.
    - rewrite (ei_value_ref m a e Ok I).
      assert (HB' : length a + length ops <= B) by lia.
      specialize (IH _ _ HO' NO I HB').
      destruct (ei_run need m ops) as [[? ?]|]; [discriminate|congruence].
  Qed.

  Theorem edgeindex_total_bounded_gen : forall B cap ops,
      (cap < W64)%N -> eiops_ok ops -> no_overflow_upto need B -> length ops <= B ->
      ei_run need (new_edge_index cap) ops <> None.
  Proof.
    intros B cap ops Hc HO NO HB.
    apply (ei_run_total_b B ops _ [] HO NO (inv_new ekey einfo_v ekey_hash ekey_eqb ok_key cap Hc)). simpl. exact HB.
  Qed.
End EI.

(** the split index under the real 0.75 policy never panics within 2^62 operations *)
Theorem edgeindex_total_real_policy_gen : forall (L : list string) cap ops,
    (cap < W64)%N -> eiops_ok L ops -> (N.of_nat (length ops) <= 2 ^ 62)%N ->
    ei_run need75_model (new_edge_index cap) ops <> None.
Proof.
  intros L cap ops Hc HO HB.
  apply (edgeindex_total_bounded_gen L need75_model (2 ^ 62) cap ops Hc HO need75_upto).
  now apply le_pow62.
Qed.
