(** C14 (cut), part 2: what CutEdgesMaxLength computes.
    [sgroups t false] lists, in the order of the code, the tips of the pieces the tree falls
    into when the branches that are not shorter than the threshold are removed; the ids, the
    visited array and the continuations of the model disappear: [cut_rec_sem] shows that a
    branch is already visited exactly when its piece has been collected, and that the way up
    through a parent branch is never taken. *)
From Coq Require Import String ZArith QArith Bool Arith Lia List Permutation.
From GT Require Import Base.UTree Model.Reroot Proofs.RerootBase Model.Matrix Proofs.CutBase.
Import ListNotations.
Local Close Scope Q_scope.
Local Arguments n_up : simpl never.

Section Cut.
  Variable maxlen : Q.
  Notation sh := (short maxlen).
  Notation sids := (sids maxlen).
  Notation side_tips := (side_tips maxlen).
  Notation comp_down := (comp_down maxlen).

  (** * the specification, in the order of the code *)
  Fixpoint sg_go (sgroups : utree -> bool -> list (list string)) (n : string) (tipflag : bool)
           (pre l : list slot) (fl : bool) : list (list string) :=
    match l with
    | [] => []
    | None :: r => sg_go sgroups n tipflag (pre ++ [None]) r fl
    | Some (e, c) :: r =>
      (if sh e
       then (if fl then []
             else match (if tipflag then [n] else []) ++ side_tips pre ++ side_tips r ++ comp_down c with
                  | [] => []
                  | f => [f]
                  end)
       else (if tipflag then [[n]] else []) ++ (if is_tip c then [[uname c]] else []))
      ++ (if Nat.ltb 1 (degree c) then sgroups c (sh e) else [])
      ++ sg_go sgroups n tipflag (pre ++ [Some (e, c)]) r (fl || sh e)
    end.

  Fixpoint sgroups (t : utree) (fl : bool) : list (list string) :=
    match t with
    | UNode n _ sl =>
      (fix go (pre l : list slot) (fl : bool) {struct l} : list (list string) :=
         match l with
         | [] => []
         | None :: r => go (pre ++ [None]) r fl
         | Some (e, c) :: r =>
           (if sh e
            then (if fl then []
                  else match (if Nat.eqb (length sl) 1 then [n] else []) ++ side_tips pre ++ side_tips r ++ comp_down c with
                       | [] => []
                       | f => [f]
                       end)
            else (if Nat.eqb (length sl) 1 then [[n]] else []) ++ (if is_tip c then [[uname c]] else []))
           ++ (if Nat.ltb 1 (degree c) then sgroups c (sh e) else [])
           ++ go (pre ++ [Some (e, c)]) r (fl || sh e)
         end) [] sl fl
    end.

  Lemma sgroups_unfold n c sl fl :
    sgroups (UNode n c sl) fl = sg_go sgroups n (Nat.eqb (length sl) 1) [] sl fl.
  Proof.
    unfold sgroups at 1; fold sgroups.
    match goal with
    | |- ?F [] sl fl = _ =>
      assert (H : forall l pre f, F pre l f = sg_go sgroups n (Nat.eqb (length sl) 1) pre l f)
    end.
    { induction l as [|[[e ch]|] r IH]; intros pre f; simpl; auto. now rewrite IH. }
    apply H.
  Qed.

  (** * the inner loop of the model, as a function *)
  Fixpoint cut_go (n : string) (tipflag : bool) (base : nat) (up : upctx)
           (pre l : list slot) (i : nat) (st : cstate) : cstate :=
    match l with
    | [] => st
    | None :: r => cut_go n tipflag base up (pre ++ [None]) r i st
    | Some (e, c) :: r =>
      let inext := S i + nedges c in
      let visit := fun _ : unit =>
          let p1 := flood_slots maxlen up pre base in
          let p2 := flood_slots maxlen up r inext in
          ((if tipflag then [n] else []) ++ fst p1 ++ fst p2, snd p1 ++ snd p2) in
      let st1 :=
          if mem_nat i (cvisited st) then st
          else if sh e then
                 let pl := visit tt in
                 let pr := flood_down maxlen c (S i) in
                 let found := fst pl ++ fst pr in
                 mkC (i :: snd pl ++ snd pr ++ cvisited st)
                     (cbags st ++ match found with [] => [] | _ => [bag_of found] end)
               else
                 mkC (i :: cvisited st)
                     (cbags st ++ (if tipflag then [[n]] else [])
                            ++ (if is_tip c then [[uname c]] else [])) in
      let st2 := if Nat.ltb 1 (degree c) then cut_rec maxlen c (S i) (Some (e, i, visit)) st1
                 else st1 in
      cut_go n tipflag base up (pre ++ [Some (e, c)]) r inext st2
    end.

  Lemma cut_rec_unfold n c sl base up st :
    cut_rec maxlen (UNode n c sl) base up st = cut_go n (Nat.eqb (length sl) 1) base up [] sl base st.
  Proof.
    unfold cut_rec at 1; fold cut_rec.
    match goal with
    | |- ?F [] sl base st = _ =>
      assert (H : forall l pre i s, F pre l i s = cut_go n (Nat.eqb (length sl) 1) base up pre l i s)
    end.
    { induction l as [|[[e ch]|] r IH]; intros pre i s; simpl; auto. }
    apply H.
  Qed.

  (** * the invariant on the visited ids *)
  Definition inr (x lo len : nat) : Prop := lo <= x < lo + len.

  (** among the ids of the slots [l] (from id [i]): exactly those of a flood are visited when
      the piece has been collected ([fl]), none otherwise *)
  Definition vinv (vs : list nat) (fl : bool) (l : list slot) (i : nat) : Prop :=
    (fl = true -> incl (sids l i) vs) /\
    (forall x, inr x i (slots_ne l) -> In x vs -> fl = true /\ In x (sids l i)).

  Lemma mem_nat_In x l : mem_nat x l = true <-> In x l.
  Proof.
    unfold mem_nat. rewrite existsb_exists. split.
    - intros [y [Hy E]]. apply Nat.eqb_eq in E. now subst.
    - intros H. exists x. split; auto. apply Nat.eqb_refl.
  Qed.

  Lemma vinv_up vs fl r i : vinv vs fl (None :: r) i <-> vinv vs fl r i.
  Proof. unfold vinv. rewrite sids_up. simpl slots_ne. tauto. Qed.

  Section Step.
    Variables (vs : list nat) (fl : bool) (e : einfo) (c : utree) (r : list slot) (i : nat).
    Hypothesis Wc : wf_sub c = true.
    Hypothesis Wr : forallb (fun p => wf_sub (snd p)) (kids_of r) = true.
    Hypothesis V : vinv vs fl (Some (e, c) :: r) i.

    Let inext := S i + nedges c.

    Lemma wf_sub_kids : forallb (fun p => wf_sub (snd p)) (kids_of (uslots c)) = true.
    Proof. destruct c as [n cm sl]. rewrite wf_sub_unfold in Wc. apply andb_true_iff in Wc. tauto. Qed.

    Lemma step_i : In i vs <-> (fl = true /\ sh e = true).
    Proof.
      destruct V as [V1 V2]. split.
      - intros H. destruct (V2 i) as [F S]; auto.
        { unfold inr. simpl. lia. }
        split; auto. rewrite sids_child, in_app_iff in S. destruct S as [S|S].
        + destruct (sh e); auto; destruct S.
        + apply sids_range in S; auto. lia.
      - intros [F S]. apply V1; auto. rewrite sids_child, S. now left.
    Qed.

    Lemma step_c : vinv vs (fl && sh e) (uslots c) (S i).
    Proof.
      destruct V as [V1 V2]. split.
      - intros F. apply andb_true_iff in F as [F S]. intros x Hx. apply V1; auto.
        rewrite sids_child, S, in_app_iff. left. now right.
      - intros x R Hx. rewrite <- (nedges_slots c Wc) in R. destruct (V2 x) as [F S]; auto.
        { unfold inr in *. simpl. lia. }
        rewrite sids_child, in_app_iff in S. destruct S as [S|S].
        + destruct (sh e); [|destruct S]. destruct S as [<-|S]; [unfold inr in R; lia|].
          rewrite F. auto.
        + apply sids_range in S; auto. unfold inr in R. lia.
    Qed.

    Lemma step_r : vinv vs fl r inext.
    Proof.
      destruct V as [V1 V2]. split.
      - intros F x Hx. apply V1; auto. rewrite sids_child, in_app_iff. now right.
      - intros x R Hx. destruct (V2 x) as [F S]; auto.
        { unfold inr, inext in *. simpl. lia. }
        split; auto. rewrite sids_child, in_app_iff in S. destruct S as [S|S]; auto.
        destruct (sh e); [|destruct S]. destruct S as [<-|S]; [unfold inr, inext in R; lia|].
        apply sids_range in S; [|apply wf_sub_kids]. rewrite <- (nedges_slots c Wc) in S.
        unfold inr, inext in R. lia.
    Qed.
  End Step.

  (** the statement for a node *)
  Definition cut_ok (t : utree) : Prop :=
    forall base up st fl,
      wf_sub t = true \/ wf t = true ->
      (fl = false -> quiet maxlen up) ->
      vinv (cvisited st) fl (uslots t) base ->
      cbags (cut_rec maxlen t base up st) = cbags st ++ map bag_of (sgroups t fl) /\
      (forall x, In x (cvisited (cut_rec maxlen t base up st)) <->
                 In x (cvisited st) \/ inr x base (slots_ne (uslots t))).

  Definition all_long (l : list slot) : Prop :=
    Forall (fun s : slot => match s with Some (e, _) => sh e = false | None => True end) l.

  Lemma all_long_sids l : all_long l -> forall i, sids l i = [] /\ side_tips l = [].
  Proof.
    induction 1 as [|[[e c]|] r Hs _ IH]; intros i.
    - split; reflexivity.
    - rewrite sids_child, Hs. unfold CutBase.side_tips. simpl. rewrite Hs. apply IH.
    - rewrite sids_up. apply IH.
  Qed.

  Lemma map_bag_single (f : list string) :
    match f with [] => [] | _ => [bag_of f] end = map bag_of (match f with [] => [] | g => [g] end).
  Proof. destruct f; reflexivity. Qed.

  Lemma cut_go_sem n tipflag base up :
    forall l pre i st fl,
      Forall (fun p : einfo * utree => cut_ok (snd p)) (kids_of l) ->
      forallb (fun p => wf_sub (snd p)) (kids_of l) = true ->
      (fl = false -> quiet maxlen up) ->
      (fl = false -> all_long pre) ->
      vinv (cvisited st) fl l i ->
      cbags (cut_go n tipflag base up pre l i st) =
      cbags st ++ map bag_of (sg_go sgroups n tipflag pre l fl) /\
      (forall x, In x (cvisited (cut_go n tipflag base up pre l i st)) <->
                 In x (cvisited st) \/ inr x i (slots_ne l)).
  Proof.
    induction l as [|[[e c]|] r IH]; intros pre i st fl HK W Q L V.
    - simpl. rewrite app_nil_r. split; auto. intros x. unfold inr. simpl. split; [auto|]. intros [H|H]; [auto|lia].
    - (* a child *)
      simpl kids_of in HK, W. inversion HK as [|? ? Hc HKr]; subst. simpl in Hc.
      simpl in W. apply andb_true_iff in W as [Wc Wr].
      assert (Vi : In i (cvisited st) <-> fl = true /\ sh e = true) by (eapply step_i; eauto).
      assert (Vc : vinv (cvisited st) (fl && sh e) (uslots c) (S i)) by (eapply step_c; eauto).
      assert (Vr : vinv (cvisited st) fl r (S i + nedges c)) by (eapply step_r; eauto).
      assert (Nc := nedges_slots c Wc).
      assert (Wk : forallb (fun p => wf_sub (snd p)) (kids_of (uslots c)) = true) by (eapply wf_sub_kids; eauto).
      simpl sg_go.
      set (inext := S i + nedges c) in *.
      set (visit := fun _ : unit =>
             ((if tipflag then [n] else []) ++ fst (flood_slots maxlen up pre base) ++ fst (flood_slots maxlen up r inext),
              snd (flood_slots maxlen up pre base) ++ snd (flood_slots maxlen up r inext))).
      (* the state after looking at the branch itself *)
      set (st1 := if mem_nat i (cvisited st) then st
                  else if sh e
                       then mkC (i :: snd (visit tt) ++ snd (flood_down maxlen c (S i)) ++ cvisited st)
                                (cbags st ++ match fst (visit tt) ++ fst (flood_down maxlen c (S i)) with
                                             | [] => [] | _ => [bag_of (fst (visit tt) ++ fst (flood_down maxlen c (S i)))] end)
                       else mkC (i :: cvisited st)
                                (cbags st ++ (if tipflag then [[n]] else []) ++ (if is_tip c then [[uname c]] else []))).
      set (here := if sh e
                   then (if fl then []
                         else match (if tipflag then [n] else []) ++ side_tips pre ++ side_tips r ++ comp_down c with
                              | [] => [] | f => [f] end)
                   else (if tipflag then [[n]] else []) ++ (if is_tip c then [[uname c]] else [])).
      assert (S1 : cbags st1 = cbags st ++ map bag_of here /\
                   vinv (cvisited st1) (sh e) (uslots c) (S i) /\
                   vinv (cvisited st1) (fl || sh e) r inext /\
                   (forall x, In x (cvisited st1) <-> In x (cvisited st) \/ x = i \/
                              (fl = false /\ sh e = true /\ (In x (sids (uslots c) (S i)) \/ In x (sids r inext))))).
      { unfold st1, here. destruct (mem_nat i (cvisited st)) eqn:M.
        - apply mem_nat_In in M. assert (M' := M). apply Vi in M. destruct M as [F Sh]. subst fl.
          rewrite Sh in *. simpl andb in Vc. simpl orb. simpl map. rewrite app_nil_r.
          split; [reflexivity|]. split; [exact Vc|]. split; [exact Vr|].
          intros x. split; [auto|]. intros [H|[->|[X _]]]; auto. discriminate.
        - assert (Ni : ~ In i (cvisited st)) by (rewrite <- mem_nat_In; congruence).
          destruct (sh e) eqn:Sh.
          + (* first short branch of a piece not collected yet *)
            assert (F : fl = false) by (destruct fl; auto; exfalso; apply Ni, Vi; auto).
            subst fl. specialize (Q eq_refl). specialize (L eq_refl).
            destruct (all_long_sids pre L base) as [Lp Tp].
            assert (E1 : fst (visit tt) = (if tipflag then [n] else []) ++ side_tips pre ++ side_tips r).
            { unfold visit. simpl fst. rewrite !(flood_slots_quiet maxlen up Q), !flood_slots_tips. reflexivity. }
            assert (E2 : snd (visit tt) = sids r inext).
            { unfold visit. simpl snd. rewrite !(flood_slots_quiet maxlen up Q).
              fold (sids pre base). fold (sids r inext). now rewrite Lp. }
            assert (E3 : fst (flood_down maxlen c (S i)) = comp_down c) by apply flood_down_tips.
            assert (E4 : snd (flood_down maxlen c (S i)) = sids (uslots c) (S i)).
            { destruct c as [nc cc slc]. now rewrite flood_down_unfold. }
            rewrite E1, E2, E3, E4. simpl cbags. simpl cvisited.
            rewrite <- !app_assoc. rewrite map_bag_single. simpl orb.
            assert (Rc : forall x, In x (sids (uslots c) (S i)) -> inr x (S i) (nedges c)).
            { intros x H. apply sids_range in H; auto. unfold inr. rewrite Nc. lia. }
            assert (Rr : forall x, In x (sids r inext) -> inr x inext (slots_ne r)).
            { intros x H. apply sids_range in H; auto. }
            split; [destruct ((if tipflag then [n] else []) ++ side_tips pre ++ side_tips r ++ comp_down c); reflexivity|].
            split; [|split].
            * split.
              -- intros _ x H. right. rewrite !in_app_iff. auto.
              -- intros x R H. split; auto. rewrite <- Nc in R.
                 destruct H as [<-|H]; [unfold inr in R; lia|].
                 rewrite !in_app_iff in H. destruct H as [H|[H|H]]; auto.
                 ++ apply Rr in H. unfold inr, inext in *. lia.
                 ++ destruct Vc as [_ Vc2]. rewrite Nc in R. destruct (Vc2 x R H) as [X _]. discriminate.
            * split.
              -- intros _ x H. right. rewrite !in_app_iff. auto.
              -- intros x R H. split; auto.
                 destruct H as [<-|H]; [unfold inr, inext in R; lia|].
                 rewrite !in_app_iff in H. destruct H as [H|[H|H]]; auto.
                 ++ apply Rc in H. unfold inr, inext in *. lia.
                 ++ destruct Vr as [_ Vr2]. destruct (Vr2 x R H) as [X _]. discriminate.
            * intros x. simpl. rewrite !in_app_iff. split.
              -- intros [<-|[H|[H|H]]]; auto.
                 ++ right. right. auto.
                 ++ right. right. auto.
              -- intros [H|[->|[_ [_ [H|H]]]]]; auto.
          + (* a branch that is not short *)
            simpl cbags. simpl cvisited. rewrite orb_false_r.
            split; [destruct tipflag, (is_tip c); reflexivity|]. split; [|split].
            * split; [discriminate|]. intros x R H. exfalso.
              destruct H as [<-|H]; [unfold inr in R; lia|].
              destruct Vc as [_ Vc2]. destruct (Vc2 x R H) as [X _]. rewrite andb_false_r in X. discriminate.
            * destruct Vr as [Vr1 Vr2]. split.
              -- intros F x H. right. now apply Vr1.
              -- intros x R H. destruct H as [<-|H]; [unfold inr, inext in R; lia|]. now apply Vr2.
            * intros x. simpl. split.
              -- intros [<-|H]; auto.
              -- intros [H|[->|[_ [X _]]]]; auto. discriminate. }
      destruct S1 as [B1 [Vc1 [Vr1 M1]]].
      (* the branches below *)
      set (st2 := if Nat.ltb 1 (degree c) then cut_rec maxlen c (S i) (Some (e, i, visit)) st1 else st1).
      assert (S2 : cbags st2 = cbags st1 ++ map bag_of (if Nat.ltb 1 (degree c) then sgroups c (sh e) else []) /\
                   (forall x, In x (cvisited st2) <-> In x (cvisited st1) \/ inr x (S i) (nedges c))).
      { unfold st2. destruct (Nat.ltb 1 (degree c)) eqn:D.
        - rewrite Nc. apply Hc; auto.
        - simpl. rewrite app_nil_r. split; auto. intros x. split; [auto|]. intros [H|H]; auto.
          exfalso. apply Nat.ltb_ge in D. destruct c as [nc cc slc]. unfold degree in D. simpl in D.
          rewrite wf_sub_unfold in Wc. apply andb_true_iff in Wc as [U _]. apply Nat.eqb_eq in U.
          assert (Hl := length_slots slc). rewrite U in Hl.
          destruct slc as [|[p|] [|s2 r2]]; simpl in *; try lia.
          rewrite Nc in H. unfold inr in H. simpl in H. lia. }
      destruct S2 as [B2 M2].
      (* the remaining slots *)
      assert (Vr2 : vinv (cvisited st2) (fl || sh e) r inext).
      { destruct Vr1 as [A B]. split.
        - intros F x H. apply M2. left. now apply A.
        - intros x R H. apply M2 in H. destruct H as [H|H]; [now apply B|].
          unfold inr, inext in *. lia. }
      assert (Q' : fl || sh e = false -> quiet maxlen up).
      { intros F. apply orb_false_iff in F as [F _]. auto. }
      assert (L' : fl || sh e = false -> all_long (pre ++ [Some (e, c)])).
      { intros F. apply orb_false_iff in F as [F S]. apply Forall_app. split; [exact (L F)|].
        constructor; [exact S|constructor]. }
      destruct (IH (pre ++ [Some (e, c)]) inext st2 (fl || sh e) HKr Wr Q' L' Vr2) as [B3 M3].
      change (cut_go n tipflag base up pre (Some (e, c) :: r) i st)
        with (cut_go n tipflag base up (pre ++ [Some (e, c)]) r inext st2).
      split.
      + rewrite B3, B2, B1. fold here. rewrite !map_app, <- !app_assoc. reflexivity.
      + intros x. rewrite M3, M2, M1. unfold inr, inext. simpl slots_ne.
        assert (Rc : forall y, In y (sids (uslots c) (S i)) -> S i <= y < S i + nedges c).
        { intros y H. apply sids_range in H; auto. rewrite Nc. lia. }
        assert (Rr : forall y, In y (sids r (S i + nedges c)) -> S i + nedges c <= y < S i + nedges c + slots_ne r).
        { intros y H. apply sids_range in H; auto. }
        split.
        * intros [[[H|[->|[_ [_ [H|H]]]]]|H]|H]; auto; right; try lia.
          -- apply Rc in H. lia.
          -- apply Rr in H. fold inext in H. lia.
        * intros [H|H]; auto.
          destruct (Nat.eq_dec x i) as [->|Ne]; [left; left; auto|].
          destruct (le_lt_dec (S i + nedges c) x); [right; lia|left; right; lia].
    - (* the parent slot *)
      simpl kids_of in HK, W. simpl cut_go. simpl sg_go. apply vinv_up in V.
      assert (L' : fl = false -> all_long (pre ++ [None])).
      { intros F. apply Forall_app. split; [exact (L F)|]. constructor; [exact I|constructor]. }
      exact (IH (pre ++ [None]) i st fl HK W Q L' V).
  Qed.

  Theorem cut_rec_sem t : cut_ok t.
  Proof.
    induction t as [n c sl IH] using utree_ind'. intros base up st fl W Q V.
    rewrite cut_rec_unfold, sgroups_unfold. simpl uslots in *.
    apply cut_go_sem; auto.
    - clear -IH. induction IH as [|[[e ch]|] r Hs _ IHr]; simpl; auto.
    - destruct W as [W|W]; [rewrite wf_sub_unfold in W|rewrite wf_unfold in W];
        apply andb_true_iff in W; tauto.
    - intros _. constructor.
  Qed.

  (** * CutEdgesMaxLength *)
  Theorem cut_sgroups t : wf t = true -> cut maxlen t = map bag_of (sgroups t false).
  Proof.
    intros W. unfold cut. destruct (cut_rec_sem t 0 None (mkC [] []) false) as [B _]; auto.
    - intros _. exact I.
    - split; [discriminate|]. intros x _ [].
  Qed.
End Cut.
