(** C05, the clause "supports of untouched branches are kept" of the oracle ([supports_kept] of
    Judge/C05.v): it holds as soon as every bipartition is looked up in [usplits] with the same
    support on the internal (non-trivial) splits; UnRoot satisfies this when the supports of the
    two root branches are absent or not negative. *)
From Coq Require Import String ZArith QArith Bool Arith Lia Lqa List Permutation Sorted Setoid Morphisms.
From GT Require Import Base.Sexp Base.UTree Spec.Obs Model.Reroot Model.Outgroup Spec.Unrooted Judge.C05
     Proofs.RerootBase Proofs.Reroot Proofs.Unroot Proofs.Splits Proofs.USplits Proofs.C05Main
     Proofs.OracleC05.
Import ListNotations.
Local Close Scope Q_scope.

(** same key, same length, and same support when the split is internal *)
Definition split_seq (n : nat) (x y : split) : Prop :=
  sside x = sside y /\ (slen x == slen y)%Q /\
  (nontrivial_split n y = true -> (ssup x == ssup y)%Q).

Lemma split_seq_refl n x : split_seq n x x.
Proof. repeat split; reflexivity. Qed.

Lemma nontrivial_key n x y : sside x = sside y -> nontrivial_split n x = nontrivial_split n y.
Proof. unfold nontrivial_split. now intros ->. Qed.

Lemma split_seq_trans n x y z : split_seq n x y -> split_seq n y z -> split_seq n x z.
Proof.
  intros (A1 & A2 & A3) (B1 & B2 & B3). split; [congruence|]. split; [etransitivity; eauto|].
  intros H. rewrite A3, B3; auto; [reflexivity|]. now rewrite (nontrivial_key n y z B1).
Qed.

Lemma split_qeq_seq n x y : split_qeq x y -> split_seq n x y.
Proof. intros (A1 & A2 & A3 & _). repeat split; auto. Qed.

Lemma merge_split_seq n x x' s : split_seq n x x' -> split_seq n (merge_split x s) (merge_split x' s).
Proof.
  intros (A1 & A2 & A3). rewrite !merge_split_eq. split; [exact A1|]. split.
  - cbn [slen]. apply merge_len_proper; auto. reflexivity.
  - cbn [ssup]. intros H. apply qmax_proper; [|reflexivity]. apply A3.
    unfold nontrivial_split in *. exact H.
Qed.

(** * from the look-ups to the boolean clause *)
Lemma supports_kept_of_lookup t g :
  (forall k, orel (split_seq (length (tipset t))) (find_split k (usplits g)) (find_split k (usplits t))) ->
  supports_kept t g = true.
Proof.
  intros H. unfold supports_kept. apply forallb_forall. intros s Hs.
  destruct (nontrivial_split (length (tipset t)) s) eqn:En; simpl; auto.
  destruct (match root_key g with Some k => sset_eqb k (sside s) | None => false end); auto.
  pose proof (H (sside s)) as Hk. rewrite (find_split_self _ s (usplits_keys_nodup t) Hs) in Hk.
  destruct (find_split (sside s) (usplits g)) as [s'|]; simpl in Hk; [|tauto].
  destruct Hk as (_ & _ & Hq). unfold qeqb. apply Qeq_bool_iff. symmetry. now apply Hq.
Qed.

(** * UnRoot *)
Definition good_sup (e : einfo) : Prop := qeqb (esup e) nilv = true \/ (0 <= esup e)%Q.

Lemma sorted_slt_nodup l : StronglySorted slt l -> NoDup l.
Proof.
  induction 1 as [|x r Hr IH Hx]; constructor; auto.
  intros Hin. rewrite Forall_forall in Hx. apply (slt_irrefl x). now apply Hx.
Qed.

Lemma filter_length_eq' {A} (f : A -> bool) l : (forall z, In z l -> f z = true) -> filter f l = l.
Proof.
  induction l as [|a r IH]; simpl; intros H; auto. rewrite (H a) by auto. f_equal. apply IH. auto.
Qed.

Lemma canon_single_trivial L x :
  NoDup L -> In x L -> nontrivial_split (length (sset L)) (mkSplit (canon_side (sset L) (sset [x])) 0%Q 0%Q false) = false.
Proof.
  intros ND Hx. unfold nontrivial_split. cbn [sside].
  assert (Sx : sset [x] = [x]) by reflexivity. rewrite Sx.
  unfold canon_side. destruct (sset L) as [|m r] eqn:E.
  - simpl. reflexivity.
  - destruct (smem m [x]).
    + assert (NDs : NoDup (m :: r)) by (rewrite <- E; apply sorted_slt_nodup, sset_sorted).
      assert (Hin : In x (m :: r)) by (rewrite <- E; now apply sset_In).
      assert (Hl : S (length (sdiff (m :: r) [x])) = length (m :: r)).
      { clear -NDs Hin. induction (m :: r) as [|y l IH]; [destruct Hin|].
        inversion NDs; subst. simpl. destruct (String.eqb y x) eqn:Ey; simpl.
        - apply String.eqb_eq in Ey. subst y. f_equal.
          assert (F : filter (fun x0 => negb (smem x0 [x])) l = l).
          { apply filter_length_eq'. intros z Hz. simpl. destruct (String.eqb z x) eqn:Ez; auto.
            apply String.eqb_eq in Ez. subst. contradiction. }
          unfold sdiff. now rewrite F.
        - f_equal. destruct Hin as [->|Hin]; [rewrite String.eqb_refl in Ey; discriminate|]. auto. }
      apply andb_false_iff. right. apply Nat.leb_gt. simpl length in *. lia.
    + simpl. reflexivity.
Qed.

Lemma nontrivial_ext n a b : sside a = sside b -> nontrivial_split n a = nontrivial_split n b.
Proof. apply nontrivial_key. Qed.

Local Arguments leaves : simpl never.
Local Arguments bsplits : simpl never.

Theorem unroot_usplits_sup t :
  wf t = true -> rooted t = true -> root_has_inner_child t = true -> NoDup (leaves t) ->
  (forall p, In p (kids t) -> good_sup (fst p)) ->
  forall k, orel (split_seq (length (tipset t))) (find_split k (usplits (unroot t))) (find_split k (usplits t)).
Proof.
  intros Hwf Hr Hi ND Hgs k.
  assert (ET : tipset (unroot t) = tipset t).
  { unfold tipset. apply sset_perm. now apply unroot_leaves_rooted. }
  rewrite !usplits_eq, ET. set (all := tipset t). set (n := length all).
  destruct (rooted_shape t Hwf Hr) as (n0&c0&e1&n1&c1&sl1&e2&n2&c2&sl2&E).
  set (N1 := UNode n1 c1 sl1) in *. set (N2 := UNode n2 c2 sl2) in *.
  set (e3 := merged_edge e1 e2 (Nat.eqb (length sl1) 1) (Nat.eqb (length sl2) 1)).
  set (far := if Nat.eqb (length sl1) 1 then N1 else N2).
  set (c1' := canon_split all (e1, leaves N1, isleaf N1)).
  set (c2' := canon_split all (e2, leaves N2, isleaf N2)).
  set (c3' := canon_split all (e3, leaves far, isleaf far)).
  set (R := branch_splits all N1 ++ branch_splits all N2).
  assert (P3 : Permutation (branch_splits all (unroot t)) (c3' :: R)).
  { rewrite E. apply unroot_branch_splits. }
  assert (P12 : Permutation (branch_splits all t) (c1' :: c2' :: R)).
  { rewrite E, branch_splits_bsplits, rooted_bsplits. fold N1 N2.
    unfold R. rewrite !branch_splits_bsplits. simpl map. rewrite map_app. simpl map.
    fold c1' c2'. perm. }
  assert (HL : leaves t = leaves N1 ++ leaves N2).
  { rewrite E. rewrite leaves_node by (simpl; discriminate). simpl. now rewrite app_nil_r. }
  assert (K12 : sside c1' = sside c2').
  { unfold c1', c2', canon_split, all, tipset. cbn [sside fst snd].
    apply canon_side_complement; auto. now rewrite HL. }
  assert (K13 : sside c3' = sside c1').
  { unfold c3', far. destruct (Nat.eqb (length sl1) 1); [reflexivity|]. now rewrite K12. }
  eapply orel_trans; [apply split_seq_trans| |].
  { eapply orel_mono; [apply split_qeq_seq|]. apply foldsplits_perm. exact P3. }
  eapply orel_trans; [apply split_seq_trans| |].
  2:{ eapply orel_mono; [apply split_qeq_seq|]. apply foldsplits_perm. symmetry. exact P12. }
  rewrite !find_split_foldsplits. simpl fold_left.
  apply fold_step_rel; auto using split_seq_refl, merge_split_seq.
  unfold step. rewrite K13, <- K12.
  destruct (sset_eqb (sside c1') k); simpl; auto.
  split; [rewrite K13; reflexivity|]. split.
  - rewrite merge_split_eq. cbn [slen]. unfold c1', c2', c3', canon_split. cbn [slen fst snd].
    unfold e3. rewrite elen_merged_merge_len. reflexivity.
  - (* the support of the merged branch, when the split is internal *)
    intros Hnt. rewrite merge_split_eq in *. cbn [ssup]. unfold nontrivial_split in Hnt. cbn [sside] in Hnt.
    destruct (rooted_facts n0 c0 e1 n1 c1 sl1 e2 n2 c2 sl2) as [U1 [U2 _]]; [fold N1 N2; rewrite <- E; exact Hwf|].
    (* neither root child is a tip *)
    assert (T1 : Nat.eqb (length sl1) 1 = false).
    { destruct (Nat.eqb (length sl1) 1) eqn:T; auto. exfalso. apply Nat.eqb_eq in T.
      assert (L1 : leaves N1 = [n1]).
      { unfold N1. rewrite leaves_unfold. pose proof (length_slots sl1) as HLs. rewrite U1, T in HLs.
        destruct (kids_of sl1); [reflexivity|simpl in HLs; lia]. }
      pose proof (canon_single_trivial (leaves t) n1 ND) as HT.
      unfold nontrivial_split in HT. cbn [sside] in HT.
      unfold c1', canon_split in Hnt. cbn [sside fst snd] in Hnt. rewrite L1 in Hnt.
      unfold all, n, all, tipset in Hnt. rewrite HT in Hnt; [discriminate|].
      rewrite HL, L1. now left. }
    assert (T2 : Nat.eqb (length sl2) 1 = false).
    { destruct (Nat.eqb (length sl2) 1) eqn:T; auto. exfalso. apply Nat.eqb_eq in T.
      assert (L2 : leaves N2 = [n2]).
      { unfold N2. rewrite leaves_unfold. pose proof (length_slots sl2) as HLs. rewrite U2, T in HLs.
        destruct (kids_of sl2); [reflexivity|simpl in HLs; lia]. }
      pose proof (canon_single_trivial (leaves t) n2 ND) as HT.
      unfold nontrivial_split in HT. cbn [sside] in HT.
      rewrite K12 in Hnt. unfold c2', canon_split in Hnt. cbn [sside fst snd] in Hnt. rewrite L2 in Hnt.
      unfold all, n, all, tipset in Hnt. rewrite HT in Hnt; [discriminate|].
      rewrite HL, L2. apply in_or_app. right. now left. }
    unfold c1', c2', c3', canon_split. cbn [ssup fst snd]. unfold e3, merged_edge. cbn [esup].
    rewrite T1, T2. cbn [negb andb].
    assert (G1 : good_sup e1) by (apply (Hgs (e1, N1)); rewrite E; simpl; auto).
    assert (G2 : good_sup e2) by (apply (Hgs (e2, N2)); rewrite E; simpl; auto).
    unfold good_sup in G1, G2.
    destruct (qeqb (esup e1) nilv) eqn:E1, (qeqb (esup e2) nilv) eqn:E2; cbn [negb orb].
    + apply isnil_iff in E1, E2. unfold nilv. qmax_split; lra.
    + apply isnil_iff in E1. destruct G2 as [G2|G2]; [discriminate|]. qmax_split; lra.
    + apply isnil_iff in E2. destruct G1 as [G1|G1]; [discriminate|]. qmax_split; lra.
    + destruct G1 as [G1|G1]; [discriminate|]. destruct G2 as [G2|G2]; [discriminate|]. qmax_split; lra.
Qed.
