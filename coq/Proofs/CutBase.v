(** C14 (cut), part 1: the flood fill of cutEdgesMaxLengthRecur on the nested model.
    [comp_down t]: the tips reached from [t] going down through branches shorter than the
    threshold; [slots_ne]: how many branch ids a list of slots spans; ranges of the ids
    marked by a flood; a context whose parent branch is not short never contributes. *)
From Coq Require Import String ZArith QArith Bool Arith Lia List Permutation.
From GT Require Import Base.UTree Model.Reroot Proofs.RerootBase Model.Matrix.
Import ListNotations.
Local Close Scope Q_scope.
Local Arguments n_up : simpl never.

Section Cut.
  Variable maxlen : Q.
  Notation sh := (short maxlen).

  Fixpoint comp_down (t : utree) : list string :=
    match t with
    | UNode n _ sl =>
      (if Nat.eqb (length sl) 1 then [n] else []) ++
      flat_map (fun s : slot => match s with
                                | Some (e, c) => if sh e then comp_down c else []
                                | None => [] end) sl
    end.

  Definition side_tips (l : list slot) : list string :=
    flat_map (fun s : slot => match s with
                              | Some (e, c) => if sh e then comp_down c else []
                              | None => [] end) l.

  Fixpoint slots_ne (l : list slot) : nat :=
    match l with
    | [] => 0
    | None :: r => slots_ne r
    | Some (_, c) :: r => S (nedges c) + slots_ne r
    end.

  Lemma slots_ne_app a b : slots_ne (a ++ b) = slots_ne a + slots_ne b.
  Proof. induction a as [|[[e c]|] r IH]; simpl; auto. rewrite IH. lia. Qed.

  Lemma edges_below_length n c sl : length (edges_below (UNode n c sl)) = slots_ne sl.
  Proof.
    simpl. induction sl as [|[[e ch]|] r IH]; simpl; auto.
    rewrite app_length, IH. unfold nedges. destruct (Nat.ltb 1 (degree ch)); simpl; lia.
  Qed.

  Lemma nedges_slots c : wf_sub c = true -> nedges c = slots_ne (uslots c).
  Proof.
    destruct c as [n cm sl]. rewrite wf_sub_unfold. intros H.
    apply andb_true_iff in H as [U _]. apply Nat.eqb_eq in U.
    unfold nedges, degree. simpl uslots.
    destruct (Nat.ltb 1 (length sl)) eqn:L.
    - apply edges_below_length.
    - apply Nat.ltb_ge in L. assert (Hl := length_slots sl). rewrite U in Hl.
      destruct sl as [|[p|] [|s r]]; simpl in *; try lia.
  Qed.

  (** the inner loop of [flood_down] is [flood_slots] without a way up *)
  Lemma flood_down_unfold n c sl base :
    flood_down maxlen (UNode n c sl) base =
    ((if Nat.eqb (length sl) 1 then [n] else []) ++ fst (flood_slots maxlen None sl base),
     snd (flood_slots maxlen None sl base)).
  Proof.
    unfold flood_down; fold flood_down.
    match goal with
    | |- context [fst (?F sl base)] =>
      assert (H : forall l i, F l i = flood_slots maxlen None l i)
    end.
    { induction l as [|[[e ch]|] r IH]; intros i; simpl; auto.
      - now rewrite IH.
      - rewrite IH. now destruct (flood_slots maxlen None r i). }
    now rewrite H.
  Qed.

  (** tips found by a flood *)
  Lemma flood_down_tips t : forall b, fst (flood_down maxlen t b) = comp_down t.
  Proof.
    induction t as [n c sl IH] using utree_ind'. intros b. rewrite flood_down_unfold. simpl fst.
    simpl comp_down. f_equal. revert b.
    induction IH as [|[[e ch]|] r Hs _ IHr]; intros b; simpl; auto.
    rewrite IHr. destruct (sh e); simpl; auto. now rewrite Hs.
  Qed.

  Definition quiet (up : upctx) : Prop :=
    match up with Some (pe, _, _) => sh pe = false | None => True end.

  Lemma flood_slots_quiet up : quiet up -> forall l i,
      flood_slots maxlen up l i = flood_slots maxlen None l i.
  Proof.
    intros Q. induction l as [|[[e c]|] r IH]; intros i; simpl; auto.
    - now rewrite IH.
    - rewrite IH. destruct up as [[[pe pid] k]|]; simpl in *; auto. now rewrite Q.
  Qed.

  Lemma flood_slots_tips l : forall i, fst (flood_slots maxlen None l i) = side_tips l.
  Proof.
    unfold side_tips. induction l as [|[[e c]|] r IH]; intros i; simpl; auto.
    rewrite IH. destruct (sh e); simpl; auto. now rewrite flood_down_tips.
  Qed.

  (** ids marked by a flood over slots starting at id [i] *)
  Definition sids (l : list slot) (i : nat) : list nat := snd (flood_slots maxlen None l i).

  Lemma sids_nil i : sids [] i = [].
  Proof. reflexivity. Qed.
  Lemma sids_up r i : sids (None :: r) i = sids r i.
  Proof. reflexivity. Qed.
  Lemma sids_child e c r i :
    sids (Some (e, c) :: r) i =
    (if sh e then i :: sids (uslots c) (S i) else []) ++ sids r (S i + nedges c).
  Proof.
    unfold sids. simpl. destruct (sh e); simpl; auto.
    destruct c as [n cm sl]. now rewrite flood_down_unfold.
  Qed.

  Lemma sids_range l : forall i x,
      forallb (fun p => wf_sub (snd p)) (kids_of l) = true ->
      In x (sids l i) -> i <= x < i + slots_ne l.
  Proof.
    assert (G : forall t, wf_sub t = true -> forall i x, In x (sids (uslots t) i) -> i <= x < i + slots_ne (uslots t)).
    { induction t as [n c sl IH] using utree_ind'. intros W. rewrite wf_sub_unfold in W.
      apply andb_true_iff in W as [_ F]. simpl uslots.
      induction IH as [|[[e ch]|] r Hs _ IHr]; intros i x; simpl slots_ne.
      - rewrite sids_nil. intros [].
      - simpl in F. apply andb_true_iff in F as [F1 F2].
        rewrite sids_child, in_app_iff. rewrite (nedges_slots ch F1). intros [H|H].
        + destruct (sh e); [|destruct H]. destruct H as [<-|H]; [lia|].
          apply (Hs F1) in H. lia.
        + apply (IHr F2) in H. lia.
      - rewrite sids_up. intros H. now apply (IHr F). }
    induction l as [|[[e ch]|] r IHr]; intros i x F; simpl slots_ne.
    - rewrite sids_nil. intros [].
    - simpl in F. apply andb_true_iff in F as [F1 F2].
      rewrite sids_child, in_app_iff. rewrite (nedges_slots ch F1). intros [H|H].
      + destruct (sh e); [|destruct H]. destruct H as [<-|H]; [lia|].
        apply (G ch F1) in H. lia.
      + apply (IHr _ _ F2) in H. lia.
    - rewrite sids_up. intros H. now apply (IHr _ _ F).
  Qed.
End Cut.
