(** C05 (b): [unroot] keeps well-formedness, the leaves and every tip-to-tip path length
    (the merged branch weighs the sum of the two root branches); it is the identity on a tree
    whose root does not have exactly two neighbours. *)
From Coq Require Import String ZArith QArith Bool Arith Lia List Permutation Setoid Morphisms.
From GT Require Import Base.UTree Spec.Obs Model.Reroot Spec.Unrooted Proofs.RerootBase Proofs.Reroot.
Import ListNotations.
Local Close Scope Q_scope.
Local Arguments n_up : simpl never.
Local Arguments leaves : simpl never.
Local Arguments wf_sub : simpl never.
Local Arguments depths : simpl never.
Local Arguments pairdists : simpl never.

(** the branch that replaces the two root branches, as coded in UnRoot *)
Definition merged_edge (e1 e2 : einfo) (n1tip n2tip : bool) : einfo :=
  mkE (if negb (qeqb (elen e1) nilv) || negb (qeqb (elen e2) nilv)
       then (qmax 0%Q (elen e1) + qmax 0%Q (elen e2))%Q else nilv)
      (if negb n1tip && negb n2tip &&
          (negb (qeqb (esup e1) nilv) || negb (qeqb (esup e2) nilv))
       then qmax (qmax 0%Q (esup e1)) (qmax 0%Q (esup e2)) else nilv)
      nilv [].

Lemma unroot_eq n0 c0 e1 n1 c1 sl1 e2 n2 c2 sl2 :
  unroot (UNode n0 c0 [Some (e1, UNode n1 c1 sl1); Some (e2, UNode n2 c2 sl2)]) =
  let e3 := merged_edge e1 e2 (Nat.eqb (length sl1) 1) (Nat.eqb (length sl2) 1) in
  if Nat.eqb (length sl1) 1
  then UNode n2 c2 (drop_up sl2 ++ [Some (e3, UNode n1 c1 (drop_up sl1 ++ [None]))])
  else UNode n1 c1 (drop_up sl1 ++ [Some (e3, UNode n2 c2 (drop_up sl2 ++ [None]))]).
Proof. reflexivity. Qed.

(** ** not rooted: nothing happens *)
Theorem unroot_not_rooted t : rooted t = false -> unroot t = t.
Proof.
  destruct t as [n c sl]. unfold rooted, degree. simpl.
  destruct sl as [|[[e1 [n1 c1 sl1]]|] [|[[e2 [n2 c2 sl2]]|] [|s3 r]]]; simpl; intros H;
    try reflexivity; discriminate.
Qed.

(** ** weights of the merged branch *)
Lemma qmax0_len0 e : qmax 0%Q (elen e) = len0 e.
Proof. reflexivity. Qed.

Lemma len0_nonneg e : (0 <= len0 e)%Q.
Proof.
  unfold len0. destruct (Qle_bool 0 (elen e)) eqn:E.
  - now apply Qle_bool_iff.
  - apply Qle_refl.
Qed.

Lemma len0_merged e1 e2 b1 b2 : (len0 (merged_edge e1 e2 b1 b2) == len0 e1 + len0 e2)%Q.
Proof.
  unfold merged_edge, len0 at 1. cbn [elen]. rewrite !qmax0_len0.
  destruct (negb (qeqb (elen e1) nilv) || negb (qeqb (elen e2) nilv)) eqn:E.
  - assert (H : (0 <= len0 e1 + len0 e2)%Q).
    { rewrite <- (Qplus_0_r 0). apply Qplus_le_compat; apply len0_nonneg. }
    apply Qle_bool_iff in H. rewrite H. reflexivity.
  - apply orb_false_iff in E as [E1 E2].
    apply negb_false_iff in E1, E2. unfold qeqb in *.
    apply Qeq_bool_iff in E1, E2.
    assert (L1 : len0 e1 = 0%Q).
    { unfold len0. destruct (Qle_bool 0 (elen e1)) eqn:L; auto.
      apply Qle_bool_iff in L. rewrite E1 in L. unfold nilv in L. exfalso. revert L. now compute. }
    assert (L2 : len0 e2 = 0%Q).
    { unfold len0. destruct (Qle_bool 0 (elen e2)) eqn:L; auto.
      apply Qle_bool_iff in L. rewrite E2 in L. unfold nilv in L. exfalso. revert L. now compute. }
    rewrite L1, L2. reflexivity.
Qed.

Lemma elen_merged e1 e2 b1 b2 :
  (0 <= elen e1)%Q -> (0 <= elen e2)%Q ->
  (elen (merged_edge e1 e2 b1 b2) == elen e1 + elen e2)%Q.
Proof.
  intros H1 H2. unfold merged_edge. cbn [elen].
  assert (N1 : qeqb (elen e1) nilv = false).
  { unfold qeqb. destruct (Qeq_bool (elen e1) nilv) eqn:E; auto.
    apply Qeq_bool_iff in E. rewrite E in H1. exfalso. revert H1. now compute. }
  rewrite N1. simpl. unfold qmax.
  apply Qle_bool_iff in H1, H2. rewrite H1, H2. reflexivity.
Qed.

(** ** splitting an edge weight over the two sides of a cross product *)
Lemma cross_shift_split_l q q1 q2 x y :
  (q == q1 + q2)%Q -> Forall2 tq_eq (cross (shift q x) y) (cross (shift q1 x) (shift q2 y)).
Proof.
  intros Hq. unfold cross, shift.
  rewrite !flat_map_concat_map, !map_map, <- !flat_map_concat_map.
  apply Forall2_flat_map. intros a _. rewrite map_map.
  apply Forall2_map_same. intros b _. split; simpl; auto. rewrite Hq. ring.
Qed.
Lemma cross_shift_split_r q q1 q2 x y :
  (q == q1 + q2)%Q -> Forall2 tq_eq (cross x (shift q y)) (cross (shift q1 x) (shift q2 y)).
Proof.
  intros Hq. unfold cross, shift.
  rewrite !flat_map_concat_map, !map_map, <- !flat_map_concat_map.
  apply Forall2_flat_map. intros a _. rewrite !map_map.
  apply Forall2_map_same. intros b _. split; simpl; auto. rewrite Hq. ring.
Qed.

(** ** hanging node b (with a fresh edge) below node a, which becomes the root *)
Section Join.
  Variables (w : einfo -> Q) (e1 e2 e3 : einfo).
  Variables (na : string) (ca : list string) (sla : list slot).
  Variables (nb : string) (cb : list string) (slb slb' : list slot).
  Variable (slr : list slot).
  Hypothesis Ka : kids_of sla <> [].
  Hypothesis Kb : kids_of slb' = kids_of slb.
  Hypothesis Kr : kids_of slr = kids_of sla ++ [(e3, UNode nb cb slb')].

  Let Na := UNode na ca sla.
  Let Nb := UNode nb cb slb.

  Lemma join_leaves n c : leaves (UNode n c slr) = leaves Na ++ leaves Nb.
  Proof.
    rewrite leaves_node by (rewrite Kr; destruct (kids_of sla); discriminate).
    rewrite Kr, kleaves_app, kleaves_cons. cbn [snd]. change (kleaves []) with (@nil string).
    rewrite app_nil_r. unfold Na, Nb. rewrite (leaves_node na ca sla Ka).
    f_equal. now apply leaves_kids.
  Qed.

  Lemma join_pairdists n c :
    (w e3 == w e1 + w e2)%Q ->
    dists_equiv (pairdists w (UNode n c slr))
                (symcross (shift (w e1) (depths w Na)) (shift (w e2) (depths w Nb))
                 ++ pairdists w Na ++ pairdists w Nb).
  Proof.
    intros Hw.
    rewrite pairdists_unfold, Kr, kD_app, kpd_app.
    change (kD w [(e3, UNode nb cb slb')]) with [shift (w e3) (depths w (UNode nb cb slb'))].
    change (kpd w [(e3, UNode nb cb slb')]) with (pairdists w (UNode nb cb slb') ++ []).
    rewrite (depths_kids w nb cb slb' nb cb slb eq_refl Kb).
    rewrite (pairdists_kids w nb cb slb' nb cb slb Kb).
    fold Nb. unfold Na. rewrite (depths_node w na ca sla Ka), (pairdists_unfold w na ca sla).
    etransitivity; [apply dists_equiv_perm; apply Permutation_app_tail; apply cross_all_insert|].
    rewrite !app_nil_r, <- !app_assoc.
    apply dists_equiv_app; [|reflexivity].
    unfold symcross.
    etransitivity; [|apply dists_equiv_perm; apply Permutation_app_comm].
    apply dists_equiv_app; apply dists_equiv_Forall2.
    - apply cross_shift_split_l. rewrite Hw. ring.
    - apply cross_shift_split_r. exact Hw.
  Qed.
End Join.

(** ** the rooted case *)
Section Rooted.
  Variables (n0 : string) (c0 : list string).
  Variables (e1 : einfo) (n1 : string) (c1 : list string) (sl1 : list slot).
  Variables (e2 : einfo) (n2 : string) (c2 : list string) (sl2 : list slot).
  Let N1 := UNode n1 c1 sl1.
  Let N2 := UNode n2 c2 sl2.
  Let t := UNode n0 c0 [Some (e1, N1); Some (e2, N2)].
  Let e3 := merged_edge e1 e2 (Nat.eqb (length sl1) 1) (Nat.eqb (length sl2) 1).
  Hypothesis Hwf : wf t = true.

  Lemma rooted_facts :
    n_up sl1 = 1 /\ n_up sl2 = 1 /\
    forallb (fun p => wf_sub (snd p)) (kids_of sl1) = true /\
    forallb (fun p => wf_sub (snd p)) (kids_of sl2) = true.
  Proof.
    pose proof Hwf as H. unfold t in H. rewrite wf_unfold in H. simpl in H.
    rewrite andb_true_r in H. apply andb_true_iff in H as [H1 H2].
    unfold N1 in H1. unfold N2 in H2. rewrite wf_sub_unfold in H1, H2.
    apply andb_true_iff in H1 as [A1 B1]. apply andb_true_iff in H2 as [A2 B2].
    apply Nat.eqb_eq in A1, A2. auto.
  Qed.

  Lemma tip_iff_nokids sl : n_up sl = 1 -> (Nat.eqb (length sl) 1 = true <-> kids_of sl = []).
  Proof.
    intros H. rewrite Nat.eqb_eq, length_slots, H.
    destruct (kids_of sl); simpl; split; intros; try discriminate; auto; lia.
  Qed.

  Lemma unroot_wf : wf (unroot t) = true.
  Proof.
    destruct rooted_facts as [U1 [U2 [F1 F2]]].
    unfold t, N1, N2. rewrite unroot_eq. cbv zeta. fold e3.
    destruct (Nat.eqb (length sl1) 1).
    - rewrite wf_unfold, n_up_app, n_up_drop_up, U2, kids_of_app, kids_of_drop_up, forallb_app, F2.
      simpl. rewrite andb_true_r.
      change (wf_sub (UNode n1 c1 (drop_up sl1 ++ [None])) = true).
      rewrite wf_sub_unfold, n_up_app, n_up_drop_up, U1, kids_of_app, kids_of_drop_up.
      simpl. now rewrite app_nil_r, F1.
    - rewrite wf_unfold, n_up_app, n_up_drop_up, U1, kids_of_app, kids_of_drop_up, forallb_app, F1.
      simpl. rewrite andb_true_r.
      change (wf_sub (UNode n2 c2 (drop_up sl2 ++ [None])) = true).
      rewrite wf_sub_unfold, n_up_app, n_up_drop_up, U2, kids_of_app, kids_of_drop_up.
      simpl. now rewrite app_nil_r, F2.
  Qed.

  Lemma unroot_degree :
    degree (unroot t) = if Nat.eqb (length sl1) 1 then length sl2 else length sl1.
  Proof.
    destruct rooted_facts as [U1 [U2 _]].
    unfold t, N1, N2. rewrite unroot_eq. cbv zeta.
    pose proof (length_slots sl1). pose proof (length_slots sl2).
    destruct (Nat.eqb (length sl1) 1); unfold degree; simpl;
      rewrite app_length, length_drop_up by lia; simpl; lia.
  Qed.

  (** from here on: not both root children are tips *)
  Hypothesis Hnt : Nat.eqb (length sl1) 1 && Nat.eqb (length sl2) 1 = false.

  Lemma t_leaves : leaves t = leaves N1 ++ leaves N2.
  Proof. unfold t. rewrite leaves_node by (simpl; discriminate). simpl. now rewrite app_nil_r. Qed.

  Lemma t_pairdists w :
    pairdists w t = symcross (shift (w e1) (depths w N1)) (shift (w e2) (depths w N2))
                    ++ pairdists w N1 ++ pairdists w N2.
  Proof.
    unfold t. rewrite pairdists_unfold. simpl. unfold kpd. simpl.
    now rewrite !app_nil_r.
  Qed.

  Lemma unroot_leaves : Permutation (leaves (unroot t)) (leaves t).
  Proof.
    destruct rooted_facts as [U1 [U2 _]].
    rewrite t_leaves. unfold t, N1, N2. rewrite unroot_eq. cbv zeta. fold e3.
    destruct (Nat.eqb (length sl1) 1) eqn:T1.
    - simpl in Hnt.
      assert (K2 : kids_of sl2 <> []).
      { intros K. apply (tip_iff_nokids sl2 U2) in K. congruence. }
      rewrite (join_leaves e3 n2 c2 sl2 n1 c1 sl1 (drop_up sl1 ++ [None])
                           (drop_up sl2 ++ [Some (e3, UNode n1 c1 (drop_up sl1 ++ [None]))])); auto.
      + apply Permutation_app_comm.
      + rewrite kids_of_app, kids_of_drop_up. simpl. now rewrite app_nil_r.
      + rewrite kids_of_app, kids_of_drop_up. reflexivity.
    - assert (K1 : kids_of sl1 <> []).
      { intros K. apply (tip_iff_nokids sl1 U1) in K. congruence. }
      rewrite (join_leaves e3 n1 c1 sl1 n2 c2 sl2 (drop_up sl2 ++ [None])
                           (drop_up sl1 ++ [Some (e3, UNode n2 c2 (drop_up sl2 ++ [None]))])); auto.
      + rewrite kids_of_app, kids_of_drop_up. simpl. now rewrite app_nil_r.
      + rewrite kids_of_app, kids_of_drop_up. reflexivity.
  Qed.

  Lemma unroot_pairdists w :
    (w e3 == w e1 + w e2)%Q -> dists_equiv (pairdists w (unroot t)) (pairdists w t).
  Proof.
    intros Hw. destruct rooted_facts as [U1 [U2 _]].
    rewrite t_pairdists. unfold t, N1, N2. rewrite unroot_eq. cbv zeta. fold e3.
    destruct (Nat.eqb (length sl1) 1) eqn:T1.
    - simpl in Hnt.
      assert (K2 : kids_of sl2 <> []).
      { intros K. apply (tip_iff_nokids sl2 U2) in K. congruence. }
      etransitivity.
      + apply (join_pairdists w e2 e1 e3 n2 c2 sl2 n1 c1 sl1 (drop_up sl1 ++ [None])
                              (drop_up sl2 ++ [Some (e3, UNode n1 c1 (drop_up sl1 ++ [None]))])); auto.
        * rewrite kids_of_app, kids_of_drop_up. simpl. now rewrite app_nil_r.
        * rewrite kids_of_app, kids_of_drop_up. reflexivity.
        * rewrite Hw. ring.
      + apply dists_equiv_perm. unfold symcross. perm.
    - assert (K1 : kids_of sl1 <> []).
      { intros K. apply (tip_iff_nokids sl1 U1) in K. congruence. }
      apply (join_pairdists w e1 e2 e3 n1 c1 sl1 n2 c2 sl2 (drop_up sl2 ++ [None])
                            (drop_up sl1 ++ [Some (e3, UNode n2 c2 (drop_up sl2 ++ [None]))])); auto.
      + rewrite kids_of_app, kids_of_drop_up. simpl. now rewrite app_nil_r.
      + rewrite kids_of_app, kids_of_drop_up. reflexivity.
  Qed.
End Rooted.

(** ** statements on whole trees *)
Lemma rooted_shape t :
  wf t = true -> rooted t = true ->
  exists n0 c0 e1 n1 c1 sl1 e2 n2 c2 sl2,
    t = UNode n0 c0 [Some (e1, UNode n1 c1 sl1); Some (e2, UNode n2 c2 sl2)].
Proof.
  destruct t as [n c sl]. unfold rooted, degree. simpl. intros Hwf Hr.
  apply andb_true_iff in Hwf as [Hu _]. apply Nat.eqb_eq in Hu, Hr.
  destruct sl as [|[[e1 [n1 c1 sl1]]|] [|[[e2 [n2 c2 sl2]]|] [|s3 r]]]; try discriminate.
  repeat eexists.
Qed.

(** some root child is not a tip (the tree has at least three tips when it has no
    single-child nodes) *)
Definition root_has_inner_child (t : utree) : bool :=
  existsb (fun p => negb (is_tip (snd p))) (kids t).

Theorem unroot_wf_rooted t : wf t = true -> rooted t = true -> wf (unroot t) = true.
Proof.
  intros Hwf Hr. destruct (rooted_shape t Hwf Hr) as (n0&c0&e1&n1&c1&sl1&e2&n2&c2&sl2&->).
  now apply unroot_wf.
Qed.

Theorem unroot_wf_any t : wf t = true -> wf (unroot t) = true.
Proof.
  intros Hwf. destruct (rooted t) eqn:Hr.
  - now apply unroot_wf_rooted.
  - now rewrite unroot_not_rooted.
Qed.

Theorem unroot_leaves_rooted t :
  wf t = true -> rooted t = true -> root_has_inner_child t = true ->
  Permutation (leaves (unroot t)) (leaves t).
Proof.
  intros Hwf Hr Hi. destruct (rooted_shape t Hwf Hr) as (n0&c0&e1&n1&c1&sl1&e2&n2&c2&sl2&->).
  apply unroot_leaves; auto.
  unfold root_has_inner_child, kids, is_tip, degree in Hi. simpl in Hi.
  rewrite orb_false_r in Hi.
  destruct (Nat.eqb (length sl1) 1), (Nat.eqb (length sl2) 1); auto.
Qed.

(** distances are kept for every weight that gives the merged branch the sum of the two *)
Theorem unroot_pairdists_rooted t w :
  wf t = true -> rooted t = true -> root_has_inner_child t = true ->
  (forall e1 e2 b1 b2, w (merged_edge e1 e2 b1 b2) == w e1 + w e2)%Q ->
  dists_equiv (pairdists w (unroot t)) (pairdists w t).
Proof.
  intros Hwf Hr Hi Hw. destruct (rooted_shape t Hwf Hr) as (n0&c0&e1&n1&c1&sl1&e2&n2&c2&sl2&->).
  apply unroot_pairdists; auto.
  unfold root_has_inner_child, kids, is_tip, degree in Hi. simpl in Hi.
  rewrite orb_false_r in Hi.
  destruct (Nat.eqb (length sl1) 1), (Nat.eqb (length sl2) 1); auto.
Qed.

(** with absent lengths counted as 0 ([len0]) no hypothesis on the lengths is needed *)
Theorem unroot_pairdists_len0 t :
  wf t = true -> rooted t = true -> root_has_inner_child t = true ->
  dists_equiv (pairdists len0 (unroot t)) (pairdists len0 t).
Proof.
  intros. apply unroot_pairdists_rooted; auto. intros. apply len0_merged.
Qed.

(** with the raw lengths: the two root branches must carry a (non-negative) length *)
Theorem unroot_pairdists_elen t :
  wf t = true -> rooted t = true -> root_has_inner_child t = true ->
  (forall p, In p (kids t) -> 0 <= elen (fst p))%Q ->
  dists_equiv (pairdists elen (unroot t)) (pairdists elen t).
Proof.
  intros Hwf Hr Hi Hl. destruct (rooted_shape t Hwf Hr) as (n0&c0&e1&n1&c1&sl1&e2&n2&c2&sl2&->).
  apply unroot_pairdists; auto.
  - unfold root_has_inner_child, kids, is_tip, degree in Hi. simpl in Hi.
    rewrite orb_false_r in Hi.
    destruct (Nat.eqb (length sl1) 1), (Nat.eqb (length sl2) 1); auto.
  - apply elen_merged.
    + apply (Hl (e1, UNode n1 c1 sl1)). simpl. auto.
    + apply (Hl (e2, UNode n2 c2 sl2)). simpl. auto.
Qed.

(** the new root has the degree of the root child that was kept as root; with no
    single-child node below the root it has at least three neighbours *)
Theorem unroot_degree_rooted t :
  wf t = true -> rooted t = true -> root_has_inner_child t = true -> no_single t = true ->
  3 <= degree (unroot t).
Proof.
  intros Hwf Hr Hi Hs. destruct (rooted_shape t Hwf Hr) as (n0&c0&e1&n1&c1&sl1&e2&n2&c2&sl2&->).
  rewrite unroot_degree by auto.
  destruct (rooted_facts n0 c0 e1 n1 c1 sl1 e2 n2 c2 sl2 Hwf) as [U1 [U2 _]].
  unfold root_has_inner_child, kids, is_tip, degree in Hi. simpl in Hi.
  rewrite orb_false_r in Hi.
  unfold no_single, kids in Hs. simpl in Hs. rewrite andb_true_r in Hs.
  apply andb_true_iff in Hs as [S1 S2].
  apply andb_true_iff in S1 as [S1 _]. apply andb_true_iff in S2 as [S2 _].
  apply negb_true_iff, Nat.eqb_neq in S1, S2.
  pose proof (length_slots sl1). pose proof (length_slots sl2).
  destruct (Nat.eqb (length sl1) 1) eqn:T1.
  - simpl in Hi. apply negb_true_iff, Nat.eqb_neq in Hi. lia.
  - apply Nat.eqb_neq in T1. lia.
Qed.
