(** After any of the modelled editing operations, the tables recomputed by ReinitIndexes on the
    result describe the edited tree: instances of [tables_spec] / [index_tables_ok], the result
    being shown to be a good tree (well-formed, root with >= 2 neighbours, distinct tip names)
    from the colleagues' theorems.  Where their theorems do not give the degree of the new
    root, "2 <= degree t'" stays a hypothesis. *)
From Coq Require Import String ZArith QArith Bool Arith Lia List Permutation.
From GT Require Import Base.UTree Spec.Obs Model.Reroot Model.Index Model.Prune Model.Collapse Model.LocalEdit
     Model.NNI Model.Outgroup
     Proofs.IndexBase Proofs.IndexTree Proofs.IndexSplit Proofs.IndexEdit
     Proofs.Prune Proofs.CollapseBase Proofs.CollapseResolve Proofs.CollapseDepth
     Proofs.LocalEdit Proofs.LocalEditClone Proofs.LocalEditInsertAll Proofs.LocalEditSingle
     Proofs.NNITop Proofs.Unroot Proofs.OutgroupKeep Proofs.OutgroupMidpoint Proofs.OutgroupRemoveMain.
Import ListNotations.
Local Close Scope Q_scope.

Definition tables_describe (t : utree) : Prop :=
  index_tables t = Ok (mkTables (sorted_tip_names t)
                                (map (fun n => index_of n (sorted_tip_names t)) (tip_names t))
                                (rows t)) /\
  Permutation (sorted_tip_names t) (leaves t) /\
  Forall2 (row_describes (sorted_tip_names t) t) (edges t) (rows t).

Lemma good_tables : forall t, good t -> tables_describe t.
Proof.
  intros t (W & D & ND). split; [now apply index_tables_ok|].
  destruct (tables_spec t W D ND) as (P & _ & F). auto.
Qed.

Lemma nodup_filter : forall A (f : A -> bool) l, NoDup l -> NoDup (filter f l).
Proof.
  induction l; simpl; intros; auto. inversion H; subst.
  destruct (f a); auto. constructor; auto. intro Hin. apply filter_In in Hin. tauto.
Qed.

Lemma good_of : forall t', wf t' = true -> 2 <= degree t' -> NoDup (leaves t') -> good t' /\ tables_describe t'.
Proof. intros. assert (good t') by (repeat split; auto). split; auto. now apply good_tables. Qed.

(** RemoveTips *)
Theorem remove_tips_tables : forall revert names t t',
    good t -> no_single t = true -> remove_tips revert names t = Ok t' -> 2 <= degree t' ->
    good t' /\ tables_describe t' /\ Permutation (leaves t') (filter (kept revert names) (leaves t)).
Proof.
  intros revert names t t' (W & D & ND) NS H D'.
  destruct (remove_tips_ok revert names t t' W NS D ND H) as (W' & _ & P & _).
  destruct (good_of t' W' D') as [G T]; auto.
  eapply Permutation_NoDup; [apply Permutation_sym, P|]. now apply nodup_filter.
Qed.

(** RemoveEdges, hence CollapseShortBranches / CollapseLowSupport / CollapseTopoDepth *)
Theorem remove_edges_tables : forall rr rt sel t,
    good t -> 2 <= degree (remove_edges rr rt sel t) ->
    good (remove_edges rr rt sel t) /\ tables_describe (remove_edges rr rt sel t) /\
    Permutation (leaves (remove_edges rr rt sel t)) (leaves t).
Proof.
  intros rr rt sel t (W & D & ND) D'.
  pose proof (remove_edges_leaves rr rt sel t W) as P.
  destruct (good_of _ (remove_edges_wf rr rt sel t W) D') as [G T]; auto.
  eapply Permutation_NoDup; [apply Permutation_sym, P|]; auto.
Qed.

Theorem collapse_len_tables : forall l rr rt t,
    good t -> 2 <= degree (collapse_len l rr rt t) ->
    good (collapse_len l rr rt t) /\ tables_describe (collapse_len l rr rt t) /\
    Permutation (leaves (collapse_len l rr rt t)) (leaves t).
Proof. intros. now apply remove_edges_tables. Qed.

Theorem collapse_sup_tables : forall s rr t,
    good t -> 2 <= degree (collapse_sup s rr t) ->
    good (collapse_sup s rr t) /\ tables_describe (collapse_sup s rr t) /\
    Permutation (leaves (collapse_sup s rr t)) (leaves t).
Proof. intros. now apply remove_edges_tables. Qed.

Theorem collapse_depth_tables : forall mn mx rr rt t t',
    good t -> collapse_depth mn mx rr rt t = Ok t' -> 2 <= degree t' ->
    good t' /\ tables_describe t' /\ Permutation (leaves t') (leaves t).
Proof.
  intros mn mx rr rt t t' G H D'. pose proof G as (W & D & _).
  rewrite (collapse_depth_ok mn mx rr rt t W D) in H. inversion H; subst.
  now apply remove_edges_tables.
Qed.

(** Resolve *)
Theorem resolve_tables : forall t cs,
    good t -> 2 <= degree (resolve t cs) ->
    good (resolve t cs) /\ tables_describe (resolve t cs) /\ Permutation (leaves (resolve t cs)) (leaves t).
Proof.
  intros t cs (W & D & ND) D'.
  pose proof (resolve_leaves t cs W) as P.
  destruct (good_of _ (resolve_wf t cs W) D') as [G T]; auto.
  eapply Permutation_NoDup; [apply Permutation_sym, P|]; auto.
Qed.

(** RemoveSingleNodes: the root keeps its degree *)
Theorem remove_single_tables : forall t,
    good t -> good (remove_single t) /\ tables_describe (remove_single t) /\
              Permutation (leaves (remove_single t)) (leaves t).
Proof.
  intros t (W & D & ND).
  pose proof (remove_single_leaves t) as P.
  destruct (remove_single_wf t W) as [W' _].
  destruct (good_of _ W') as [G T]; auto.
  - now rewrite remove_single_degree.
  - eapply Permutation_NoDup; [apply Permutation_sym, P|]; auto.
Qed.

(** Clone *)
Theorem clone_tables : forall t,
    good t -> 2 <= degree (clone t) -> good (clone t) /\ tables_describe (clone t) /\ leaves (clone t) = leaves t.
Proof.
  intros t (W & D & ND) D'.
  assert (NDc : NoDup (leaves (clone t))) by now rewrite LocalEditClone.clone_leaves.
  destruct (good_of _ (LocalEditClone.clone_wf t) D' NDc) as [G T].
  repeat split; auto; try apply G; try apply T. apply LocalEditClone.clone_leaves.
Qed.

(** Merge: two trees on disjoint taxa, the result is rooted *)
Theorem merge_tables : forall t1 t2 t' i1 i2,
    good t1 -> good t2 -> (forall x, In x (leaves t1) -> In x (leaves t2) -> False) ->
    merge t1 t2 i1 i2 = Ok t' ->
    good t' /\ tables_describe t' /\ leaves t' = leaves t1 ++ leaves t2.
Proof.
  intros t1 t2 t' i1 i2 (W1 & _ & ND1) (W2 & _ & ND2) Dis H.
  destruct (LocalEdit.merge_wf _ _ _ _ _ H W1 W2) as [W' R].
  pose proof (LocalEdit.merge_leaves _ _ _ _ _ H) as L.
  destruct (good_of t' W') as [G T]; auto.
  - unfold rooted in R. apply Nat.eqb_eq in R. lia.
  - rewrite L. now apply nodup_app.
Qed.

(** GraftTreeOnTip: the graft's taxa are new *)
Theorem graft_tables : forall t g t' idx tip,
    good t -> good g -> (forall x, In x (leaves t) -> In x (leaves g) -> False) ->
    graft t idx tip g = Ok t' -> 2 <= degree t' ->
    good t' /\ tables_describe t' /\ Permutation (leaves t' ++ [tip]) (leaves t ++ leaves g).
Proof.
  intros t g t' idx tip (W & _ & ND) (Wg & _ & NDg) Dis H D'.
  pose proof (LocalEdit.graft_leaves _ _ _ _ _ H W) as P.
  destruct (good_of t' (LocalEdit.graft_wf _ _ _ _ _ H W Wg) D') as [G T]; auto.
  assert (NoDup (leaves t' ++ [tip])).
  { eapply Permutation_NoDup; [apply Permutation_sym, P|]. now apply nodup_app. }
  now apply nodup_app_l in H0.
Qed.

(** InsertIdenticalTips *)
Theorem insert_identical_tables : forall t t' idx groups,
    good t -> (forall x, In x (leaves t) -> In x idx) -> ~ In ""%string idx ->
    Forall (fun g => ~ In ""%string g) groups ->
    insert_identical t idx groups = Ok t' -> 2 <= degree t' ->
    good t' /\ tables_describe t'.
Proof.
  intros t t' idx groups (W & _ & ND) Hidx He Hg H D'.
  pose proof (insert_identical_wf t t' idx groups W Hidx He Hg H) as W'.
  destruct (insert_identical_leaves t t' idx groups W Hidx He Hg H) as (added & NDa & Ha & P & _).
  apply good_of; auto.
  eapply Permutation_NoDup; [apply Permutation_sym, P|].
  apply nodup_app; auto. intros x H1 H2. apply Ha in H1. destruct H1 as [_ H1]. apply H1. auto.
Qed.

(** NNI: every proposal of the enumeration *)
Theorem nni_tables : forall t r t',
    good t -> In r (nni_list t) -> apply r t = Some t' -> 2 <= degree t' ->
    good t' /\ tables_describe t' /\ Permutation (leaves t) (leaves t').
Proof.
  intros t r t' (W & _ & ND) Hr H D'.
  destruct (apply_neighbour t r t' W Hr H) as (W' & P & _).
  destruct (good_of t' W' D') as [G T]; auto.
  eapply Permutation_NoDup; eauto.
Qed.

(** RerootOutGroup without / with removal of the outgroup, RerootMidPoint *)
Theorem outgroup_tables : forall strict t names t',
    good t -> (rooted t = true -> root_has_inner_child t = true) ->
    reroot_outgroup false strict t names = Ok t' ->
    good t' /\ tables_describe t' /\ Permutation (leaves t') (leaves t).
Proof.
  intros strict t names t' (W & D & ND) R H.
  destruct (reroot_outgroup_keep_preserves strict t names t' W D R H) as (W' & D' & P & _).
  destruct (good_of t' W') as [G T]; auto; [lia|].
  eapply Permutation_NoDup; [apply Permutation_sym, P|]; auto.
Qed.

Theorem outgroup_remove_tables : forall strict t names t',
    good t -> (rooted t = true -> root_has_inner_child t = true) ->
    reroot_outgroup true strict t names = Ok t' ->
    good t' /\ tables_describe t' /\ exists Rm, Permutation (leaves t) (leaves t' ++ Rm).
Proof.
  intros strict t names t' (W & D & ND) R H.
  destruct (reroot_outgroup_remove strict t names t' W D R ND H) as (W' & D' & Rm & P & _).
  destruct (good_of t' W' D') as [G T]; eauto.
  assert (NoDup (leaves t' ++ Rm)) by (eapply Permutation_NoDup; eauto).
  now apply nodup_app_l in H0.
Qed.

Theorem midpoint_tables : forall t t',
    good t -> (rooted t = true -> root_has_inner_child t = true) ->
    reroot_midpoint t = Ok t' ->
    good t' /\ tables_describe t' /\ Permutation (leaves t') (leaves t).
Proof.
  intros t t' (W & D & ND) R H.
  destruct (reroot_midpoint_wf_leaves t t' W D R H) as (W' & D' & P).
  destruct (good_of t' W') as [G T]; auto; [lia|].
  eapply Permutation_NoDup; [apply Permutation_sym, P|]; auto.
Qed.
