(** C16, AllTopologies is complete: every labelled binary topology on the given tips occurs.

    No counting is used.  Tools:
    - [prune]: removing a tip from a planted binary tree gives a planted binary tree, and the
      clades of the original are those of the pruned tree after grafting the tip back on one
      branch (the exact relation [EX] of Proofs/TreeGenUnif2.v);
    - [rev_plant]: an unrooted binary tree, seen from one of its tips, is a planted binary
      tree (the sides of its bipartitions that do not contain the tip are the clades of the
      planted tree);
    - the simulation of Proofs/TreeGenUnif2.v between planted trees and the trees of the
      unrooted enumeration ([away_EX]), and [grafts_EX]: the enumerator grafts on every
      branch. *)
From Coq Require Import String Ascii ZArith QArith Bool Arith Lia List Permutation Sorted.
From GT Require Import Base.UTree Spec.Obs Spec.GenShape Spec.Unrooted Spec.Counting
     Model.Reroot Model.Rand2 Model.TreeGen Model.Sampling
     Proofs.RerootBase Proofs.Splits Proofs.SamplingBase Proofs.SamplingRefute Proofs.TreeGenNames
     Proofs.TreeGenGraft Proofs.TreeGenLoop Proofs.TreeGenMain
     Proofs.TreeGenTopo Proofs.TreeGenTopo2 Proofs.TreeGenUnif Proofs.TreeGenUnif2.
Import ListNotations.
Local Close Scope Q_scope.
Local Open Scope list_scope.
Local Arguments n_up : simpl never.

(** * Removing a tip *)
Definition is_leaf_named (x : string) (t : utree) : bool :=
  match kids t with [] => String.eqb (uname t) x | _ => false end.

(** if one of the two children of [t] is the leaf [x], the other child *)
Definition sibling_of (x : string) (t : utree) : option utree :=
  match kids t with
  | [(_, a); (_, b)] =>
    if is_leaf_named x a then Some b else if is_leaf_named x b then Some a else None
  | _ => None
  end.

Definition PS (x : string) (f : utree -> utree) (s : slot) : slot :=
  match s with
  | None => None
  | Some (e, ch) => match sibling_of x ch with
                    | Some b => Some (e, b)
                    | None => Some (e, f ch)
                    end
  end.

(** the parent of the leaf [x] is replaced by the sibling of [x] *)
Fixpoint prune (x : string) (t : utree) : utree :=
  match t with
  | UNode n c sl =>
    UNode n c (map (fun s => match s with
                             | None => None
                             | Some (e, ch) => match sibling_of x ch with
                                               | Some b => Some (e, b)
                                               | None => Some (e, prune x ch)
                                               end
                             end) sl)
  end.

Lemma prune_unfold x n c sl : prune x (UNode n c sl) = UNode n c (map (PS x (prune x)) sl).
Proof. reflexivity. Qed.

Lemma is_leaf_named_spec x t : is_leaf_named x t = true ->
  kids t = [] /\ leaves t = [x] /\ clades t = [].
Proof.
  destruct t as [n c sl]. unfold is_leaf_named, kids. simpl uslots. simpl uname.
  destruct (kids_of sl) as [|p ks] eqn:E; [|discriminate]. intros H. apply String.eqb_eq in H.
  subst n. split; [reflexivity|]. split.
  - rewrite leaves_unfold, E. reflexivity.
  - rewrite clades_unfold, slots_clades_kids, E. reflexivity.
Qed.

Lemma kid_leaves_incl t p : In p (kids t) -> incl (leaves (snd p)) (leaves t).
Proof.
  intros Hp y Hy. rewrite leaves_kleaves by (intros E; rewrite E in Hp; destruct Hp).
  unfold kleaves. apply in_flat_map. exists p. auto.
Qed.

Lemma sibling_none x t : ~ In x (leaves t) -> sibling_of x t = None.
Proof.
  intros Hx. unfold sibling_of.
  destruct (kids t) as [|[e1 a] [|[e2 b] [|p3 ks]]] eqn:E; auto.
  destruct (is_leaf_named x a) eqn:Ea.
  { exfalso. apply Hx. destruct (is_leaf_named_spec x a Ea) as [_ [La _]].
    apply (kid_leaves_incl t (e1, a)); [rewrite E; simpl; auto|]. simpl. rewrite La. simpl; auto. }
  destruct (is_leaf_named x b) eqn:Eb; auto.
  exfalso. apply Hx. destruct (is_leaf_named_spec x b Eb) as [_ [Lb _]].
  apply (kid_leaves_incl t (e2, b)); [rewrite E; simpl; auto|]. simpl. rewrite Lb. simpl; auto.
Qed.

Lemma prune_noop x t : ~ In x (leaves t) -> prune x t = t.
Proof.
  induction t as [n c sl IH] using utree_ind'. intros Hx.
  rewrite prune_unfold. f_equal. rewrite <- (map_id sl) at 2. apply map_ext_in.
  intros [[e ch]|] Hs; [|reflexivity]. rewrite Forall_forall in IH. specialize (IH _ Hs).
  simpl in IH.
  assert (Hxc : ~ In x (leaves ch)).
  { intros H. apply Hx. exact (leaves_child n c sl e ch Hs x H). }
  unfold PS. now rewrite (sibling_none x ch Hxc), (IH Hxc).
Qed.

Lemma map_PS_noop x sl : ~ In x (kleaves (kids_of sl)) -> map (PS x (prune x)) sl = sl.
Proof.
  intros Hx. rewrite <- (map_id sl) at 2. apply map_ext_in.
  intros [[e ch]|] Hs; [|reflexivity].
  assert (Hxc : ~ In x (leaves ch)).
  { intros H. apply Hx. unfold kleaves. apply in_flat_map. exists (e, ch). split; auto.
    now apply kids_of_In. }
  unfold PS. now rewrite (sibling_none x ch Hxc), (prune_noop x ch Hxc).
Qed.

(** [t'] is [t] without the tip [x], which hung on the branch with clade [C] of [t'] *)
Definition prune_ok (x : string) (t t' : utree) (C : list string) : Prop :=
  uname t' = uname t /\ ucom t' = ucom t /\
  n_up (uslots t') = n_up (uslots t) /\ length (uslots t') = length (uslots t) /\
  kids t' <> [] /\
  sub_all wf_sub (uslots t') = true /\ sub_all bin_sub (uslots t') = true /\
  Permutation (leaves t) (x :: leaves t') /\
  In C (clades t') /\ EX x (clades t') (clades t) C.

Lemma EX_perm_G x T G G' A : (forall B, In B G <-> In B G') -> EX x T G A -> EX x T G' A.
Proof. intros H HE B. rewrite <- (H B). apply HE. Qed.

Lemma sub_all_replace p pre (e e' : einfo) ch new post :
  sub_all p (pre ++ Some (e, ch) :: post) = true -> p new = true ->
  sub_all p (pre ++ Some (e', new) :: post) = true.
Proof.
  rewrite !sub_all_app. simpl. intros H Hn. apply andb_prop in H. destruct H as [H1 H2].
  apply andb_prop in H2. destruct H2 as [_ H2]. now rewrite H1, Hn, H2.
Qed.

Lemma replace_prune_ok x n cm pre e ch new post C :
  sub_all wf_sub (pre ++ Some (e, ch) :: post) = true ->
  sub_all bin_sub (pre ++ Some (e, ch) :: post) = true ->
  NoDup (kleaves (kids_of pre) ++ leaves new ++ kleaves (kids_of post)) ->
  wf_sub new = true -> bin_sub new = true ->
  Permutation (leaves ch) (x :: leaves new) ->
  In C (sset (leaves new) :: clades new) ->
  EX x (sset (leaves new) :: clades new) (sset (leaves ch) :: clades ch) C ->
  prune_ok x (UNode n cm (pre ++ Some (e, ch) :: post))
             (UNode n cm (pre ++ Some (e, new) :: post)) C.
Proof.
  intros Hsw Hsb ND Wn Bn HP HC HEX.
  unfold prune_ok, kids. simpl uname. simpl ucom. simpl uslots.
  split; [reflexivity|]. split; [reflexivity|].
  split; [rewrite !n_up_app, !n_up_cons; reflexivity|].
  split; [rewrite !app_length; reflexivity|].
  split.
  { rewrite kids_of_app. simpl. intros E. apply app_eq_nil in E. destruct E; discriminate. }
  split; [eapply sub_all_replace; eauto|]. split; [eapply sub_all_replace; eauto|].
  split; [apply leaves_replace_perm; exact HP|].
  rewrite !clades_replace. split.
  - apply in_or_app. right. apply in_or_app. left. exact HC.
  - apply EX_wrap; auto. intros B HB.
    assert (HCn : C <> [] /\ incl C (leaves new)).
    { destruct HC as [<-|HC].
      - split; [apply sset_nonempty, leaves_nonempty|].
        intros y Hy. apply (proj1 (sset_In _ _)) in Hy. exact Hy.
      - split; [eapply clades_nonempty; eauto|now apply clades_sub]. }
    destruct HCn. eapply other_not_incl; eauto.
Qed.

Lemma two_kids n c sl :
  wf_sub (UNode n c sl) = true -> bin_sub (UNode n c sl) = true -> kids_of sl <> [] ->
  exists e1 a e2 b, kids_of sl = [(e1, a); (e2, b)] /\
    wf_sub a = true /\ bin_sub a = true /\ wf_sub b = true /\ bin_sub b = true.
Proof.
  intros W B K.
  rewrite wf_sub_eq in W. apply andb_prop in W. destruct W as [U Ws]. apply Nat.eqb_eq in U.
  rewrite bin_sub_eq in B. apply andb_prop in B. destruct B as [Bl Bs].
  rewrite length_slots, U in Bl. rewrite sub_all_kids in Ws, Bs.
  destruct (kids_of sl) as [|[e1 a] [|[e2 b] [|p3 ks]]]; simpl in Bl; try discriminate;
    try congruence.
  simpl in Ws, Bs. rewrite !andb_true_r in *.
  apply andb_prop in Ws. apply andb_prop in Bs. exists e1, a, e2, b. tauto.
Qed.

Theorem prune_spec x t :
  NoDup (leaves t) ->
  sub_all wf_sub (uslots t) = true -> sub_all bin_sub (uslots t) = true ->
  In x (leaves t) -> kids t <> [] ->
  (forall p, In p (kids t) -> is_leaf_named x (snd p) = false) ->
  exists C, prune_ok x t (prune x t) C.
Proof.
  induction t as [n cm sl IH] using utree_ind'. unfold kids. simpl uslots.
  intros ND Hsw Hsb Hx HK Hnl.
  rewrite leaves_kleaves in Hx by exact HK. unfold kids in Hx. simpl uslots in Hx.
  unfold kleaves in Hx. apply in_flat_map in Hx. destruct Hx as [[e ch] [Hp Hxc]]. simpl in Hxc.
  assert (Hnlc : is_leaf_named x ch = false) by (apply (Hnl (e, ch)); exact Hp).
  apply kids_of_In in Hp. destruct (in_split _ _ Hp) as [pre [post E]]. subst sl.
  apply leaves_kids_nodup in ND. rewrite kleaves_replace in ND.
  assert (Hxpre : ~ In x (kleaves (kids_of pre))).
  { intros H. apply (NoDup_app_disj _ _ x ND); auto. apply in_or_app; auto. }
  assert (Hxpost : ~ In x (kleaves (kids_of post))).
  { intros H. apply NoDup_app_r in ND. apply (NoDup_app_disj _ _ x ND); auto. }
  assert (NDch : NoDup (leaves ch)).
  { apply NoDup_app_r in ND. now apply NoDup_app_l in ND. }
  rewrite prune_unfold, map_app. cbn [map]. rewrite (map_PS_noop x pre Hxpre), (map_PS_noop x post Hxpost).
  assert (Hch : wf_sub ch = true /\ bin_sub ch = true).
  { rewrite sub_all_app in Hsw, Hsb. simpl in Hsw, Hsb.
    apply andb_prop in Hsw. destruct Hsw as [_ Hsw']. apply andb_prop in Hsw'.
    apply andb_prop in Hsb. destruct Hsb as [_ Hsb']. apply andb_prop in Hsb'. tauto. }
  destruct Hch as [Wc Bc].
  rewrite Forall_forall in IH. assert (IHch := IH _ Hp). simpl in IHch.
  destruct ch as [n' c' sl'].
  assert (Kc : kids_of sl' <> []).
  { intros E. unfold is_leaf_named, kids in Hnlc. simpl in Hnlc. rewrite E in Hnlc.
    rewrite leaves_unfold, E in Hxc. simpl in Hxc. destruct Hxc as [<-|[]].
    rewrite String.eqb_refl in Hnlc. discriminate. }
  destruct (two_kids n' c' sl' Wc Bc Kc) as (e1 & a & e2 & b & Ek & Wa & Ba & Wb & Bb).
  assert (Elv : leaves (UNode n' c' sl') = leaves a ++ leaves b).
  { rewrite leaves_unfold, Ek. unfold kleaves. simpl. now rewrite app_nil_r. }
  assert (Ecl : clades (UNode n' c' sl') =
                (sset (leaves a) :: clades a) ++ (sset (leaves b) :: clades b)).
  { rewrite clades_unfold, slots_clades_kids, Ek. unfold kclades. simpl. now rewrite app_nil_r. }
  assert (NDab : NoDup (leaves a ++ leaves b)) by (now rewrite <- Elv).
  pose proof Wc as Wc'. rewrite wf_sub_eq in Wc'. apply andb_prop in Wc'. destruct Wc' as [_ Wsc].
  pose proof Bc as Bc'. rewrite bin_sub_eq in Bc'. apply andb_prop in Bc'. destruct Bc' as [_ Bsc].
  unfold PS, sibling_of, kids. simpl uslots. rewrite Ek.
  assert (NDswap : forall new, Permutation (leaves (UNode n' c' sl')) (x :: leaves new) ->
             NoDup (kleaves (kids_of pre) ++ leaves new ++ kleaves (kids_of post))).
  { intros new HP.
    assert (HP' : Permutation (kleaves (kids_of pre) ++ leaves (UNode n' c' sl') ++ kleaves (kids_of post))
                              (x :: kleaves (kids_of pre) ++ leaves new ++ kleaves (kids_of post))).
    { rewrite HP. simpl. symmetry. apply Permutation_middle. }
    apply (Permutation_NoDup HP') in ND. now inversion ND. }
  destruct (is_leaf_named x a) eqn:Ea; [|destruct (is_leaf_named x b) eqn:Eb].
  - (* the first child is [x] *)
    destruct (is_leaf_named_spec x a Ea) as (_ & La & Ca).
    assert (HP : Permutation (leaves (UNode n' c' sl')) (x :: leaves b)).
    { rewrite Elv, La. reflexivity. }
    exists (sset (leaves b)). apply replace_prune_ok; auto.
    + simpl; auto.
    + rewrite Ecl, Elv, La, Ca. simpl.
      apply EX_head. intros B HB. apply (proper_facts b Wb Bb); auto.
      eapply NoDup_app_r; eauto.
  - (* the second child is [x] *)
    destruct (is_leaf_named_spec x b Eb) as (_ & Lb & Cb).
    assert (HP : Permutation (leaves (UNode n' c' sl')) (x :: leaves a)).
    { rewrite Elv, Lb. symmetry. apply Permutation_cons_append. }
    exists (sset (leaves a)). apply replace_prune_ok; auto.
    + simpl; auto.
    + rewrite Ecl, Lb, Cb. rewrite (sset_perm _ _ HP).
      change (sset (x :: leaves a)) with (sinsert x (sset (leaves a))).
      eapply EX_perm_G; [|apply EX_head].
      * intros B. simpl. rewrite !in_app_iff. simpl. tauto.
      * intros B HB. apply (proper_facts a Wa Ba); auto. eapply NoDup_app_l; eauto.
  - (* deeper *)
    assert (Hkl : forall p, In p (kids (UNode n' c' sl')) -> is_leaf_named x (snd p) = false).
    { unfold kids. simpl uslots. rewrite Ek. intros p [<-|[<-|[]]]; auto. }
    destruct (IHch NDch Wsc Bsc Hxc Kc Hkl) as [C HOK].
    destruct HOK as (Q1 & Q2 & Q3 & Q4 & Q5 & Q6 & Q7 & Q8 & Q9 & Q10).
    set (ch' := prune x (UNode n' c' sl')) in *.
    assert (Wc1 : wf_sub ch' = true).
    { destruct ch' as [n2 c2 sl2]. simpl in Q3. rewrite wf_sub_eq, Q3.
      rewrite wf_sub_eq in Wc. apply andb_prop in Wc. destruct Wc as [U _]. now rewrite U. }
    assert (Bc1 : bin_sub ch' = true).
    { destruct ch' as [n2 c2 sl2]. simpl in Q4. rewrite bin_sub_eq, Q4.
      rewrite bin_sub_eq in Bc. apply andb_prop in Bc. destruct Bc as [U _]. now rewrite U. }
    assert (NDc1 : NoDup (leaves ch')).
    { apply (Permutation_NoDup Q8) in NDch. now inversion NDch. }
    exists C. apply replace_prune_ok; auto.
    + simpl; auto.
    + rewrite (sset_perm _ _ Q8).
      change (sset (x :: leaves ch')) with (sinsert x (sset (leaves ch'))).
      apply EX_deep; auto.
      * intros y Hy. apply sset_In. exact (clades_sub _ _ Q9 y Hy).
      * apply (proper_facts ch' Wc1 Bc1 NDc1 C Q9).
Qed.

(** * An unrooted binary tree seen from one of its tips *)
Lemma sdiff_sinsert_single r X :
  StronglySorted slt X -> ~ In r X -> sdiff (sinsert r X) [r] = X.
Proof.
  intros SX Hr. apply sorted_ext; auto.
  - unfold sdiff. apply filter_sorted. now apply sinsert_sorted.
  - intros y. rewrite mem_sdiff, sinsert_In. simpl. split.
    + intros [[->|Hy] Hn]; auto. exfalso. apply Hn. auto.
    + intros Hy. split; auto. intros [<-|[]]. contradiction.
Qed.

Lemma map_away_id r all l : (forall B, In B l -> ~ In r B) -> map (away r all) l = l.
Proof.
  intros H. rewrite <- (map_id l) at 2. apply map_ext_in. intros B HB.
  unfold away. now rewrite (smem_false r B (H B HB)).
Qed.

(** [a] is a subtree that contains [r]; [U] is the rest of the tree, hanging below the parent
    slot of [a].  Reversing the path from [a] to [r] gives a subtree [c] (the node next to
    [r], seen from [r]) whose clades are the away-sides of the clades of [a], plus the clades
    of [U]. *)
Lemma rev_plant r a : forall U,
  wf_sub a = true -> bin_sub a = true -> wf_sub U = true -> bin_sub U = true ->
  In r (leaves a) -> NoDup (leaves a ++ leaves U) ->
  exists c, wf_sub c = true /\ bin_sub c = true /\
    Permutation (leaves a ++ leaves U) (r :: leaves c) /\
    forall B, In B (sset (leaves c) :: clades c) <->
              In B (map (away r (sset (leaves a ++ leaves U))) (sset (leaves a) :: clades a)) \/
              In B (sset (leaves U) :: clades U).
Proof.
  induction a as [n cm sl IH] using utree_ind'. intros U Wa Ba WU BU Hr ND.
  destruct (kids_of sl) as [|p0 ks0] eqn:Ek.
  - (* [a] is the tip [r] *)
    assert (El : leaves (UNode n cm sl) = [n]) by (rewrite leaves_unfold, Ek; reflexivity).
    assert (Ec : clades (UNode n cm sl) = []) by (rewrite clades_unfold, slots_clades_kids, Ek; reflexivity).
    rewrite El in *. destruct Hr as [->|[]]. exists U. split; auto. split; auto. split; [reflexivity|].
    rewrite Ec. intros B. simpl map.
    assert (E : away r (sinsert r (sset (leaves U))) [r] = sset (leaves U)).
    { unfold away. assert (T : smem r [r] = true) by (apply smem_In; simpl; auto). rewrite T.
      apply sdiff_sinsert_single; [apply sset_sorted|].
      intros H. apply (proj1 (sset_In _ _)) in H. inversion ND; subst. auto. }
    change (sset ([r] ++ leaves U)) with (sinsert r (sset (leaves U))).
    change (sset [r]) with [r]. rewrite E. simpl. tauto.
  - assert (Kne : kids_of sl <> []) by (rewrite Ek; discriminate).
    destruct (two_kids n cm sl Wa Ba Kne) as (e1 & a1 & e2 & a2 & Ek' & W1 & B1 & W2 & B2).
    clear Ek. rename Ek' into Ek.
    assert (El : leaves (UNode n cm sl) = leaves a1 ++ leaves a2).
    { rewrite leaves_unfold, Ek. unfold kleaves. simpl. now rewrite app_nil_r. }
    assert (Ec : clades (UNode n cm sl) =
                 (sset (leaves a1) :: clades a1) ++ (sset (leaves a2) :: clades a2)).
    { rewrite clades_unfold, slots_clades_kids, Ek. unfold kclades. simpl. now rewrite app_nil_r. }
    apply Forall_slots_kids in IH. rewrite Ek in IH.
    inversion IH as [|? ? IH1 IH']; subst. inversion IH' as [|? ? IH2 _]; subst.
    simpl in IH1, IH2.
    rewrite El in Hr, ND. set (all := sset (leaves (UNode n cm sl) ++ leaves U)).
    (* the step, for the child [ar] that contains [r] and the other child [ao] *)
    assert (Step : forall (er : einfo) ar (eo : einfo) ao,
      (forall U, wf_sub ar = true -> bin_sub ar = true -> wf_sub U = true -> bin_sub U = true ->
         In r (leaves ar) -> NoDup (leaves ar ++ leaves U) ->
         exists c, wf_sub c = true /\ bin_sub c = true /\
           Permutation (leaves ar ++ leaves U) (r :: leaves c) /\
           forall B, In B (sset (leaves c) :: clades c) <->
             In B (map (away r (sset (leaves ar ++ leaves U))) (sset (leaves ar) :: clades ar)) \/
             In B (sset (leaves U) :: clades U)) ->
      wf_sub ar = true -> bin_sub ar = true -> wf_sub ao = true -> bin_sub ao = true ->
      In r (leaves ar) ->
      Permutation (leaves (UNode n cm sl)) (leaves ar ++ leaves ao) ->
      (forall B, In B (clades (UNode n cm sl)) <->
                 In B (sset (leaves ar) :: clades ar) \/ In B (sset (leaves ao) :: clades ao)) ->
      exists c, wf_sub c = true /\ bin_sub c = true /\
        Permutation (leaves (UNode n cm sl) ++ leaves U) (r :: leaves c) /\
        forall B, In B (sset (leaves c) :: clades c) <->
          In B (map (away r all) (sset (leaves (UNode n cm sl)) :: clades (UNode n cm sl))) \/
          In B (sset (leaves U) :: clades U)).
    { intros er ar eo ao IHr Wr Br Wo Bo Hrr HPl HCl.
      set (U' := UNode n cm [None; Some (eo, ao); Some (e0, U)]).
      assert (WU' : wf_sub U' = true).
      { unfold U'. rewrite wf_sub_eq. simpl. now rewrite Wo, WU. }
      assert (BU' : bin_sub U' = true).
      { unfold U'. rewrite bin_sub_eq. simpl. now rewrite Bo, BU. }
      assert (LU' : leaves U' = leaves ao ++ leaves U).
      { unfold U'. rewrite leaves_unfold. simpl. unfold kleaves. simpl. now rewrite app_nil_r. }
      assert (CU' : clades U' = (sset (leaves ao) :: clades ao) ++ (sset (leaves U) :: clades U)).
      { unfold U'. rewrite clades_unfold. simpl. now rewrite app_nil_r. }
      assert (HPall : Permutation (leaves (UNode n cm sl) ++ leaves U) (leaves ar ++ leaves U')).
      { rewrite LU', HPl, app_assoc. reflexivity. }
      assert (ND' : NoDup (leaves ar ++ leaves U')).
      { eapply Permutation_NoDup; [exact HPall|]. now rewrite El. }
      destruct (IHr U' Wr Br WU' BU' Hrr ND') as (c & Wc & Bc & Pc & Sc).
      exists c. split; auto. split; auto. split; [now rewrite HPall|].
      assert (Eall : sset (leaves ar ++ leaves U') = all).
      { unfold all. apply sset_perm. now symmetry. }
      rewrite Eall in Sc.
      (* the clade of [a] goes to the clade of [U] *)
      assert (EDa : away r all (sset (leaves (UNode n cm sl))) = sset (leaves U)).
      { unfold away.
        assert (T : smem r (sset (leaves (UNode n cm sl))) = true).
        { apply smem_sset. eapply Permutation_in; [symmetry; exact HPl|]. apply in_or_app; auto. }
        rewrite T. unfold all. apply sdiff_complement; [now rewrite El|reflexivity]. }
      (* the other child does not contain [r] *)
      assert (Hro : forall B, In B (sset (leaves ao) :: clades ao) -> ~ In r B).
      { intros B HB HrB.
        assert (Hin : In r (leaves ao)).
        { destruct HB as [<-|HB]; [apply (proj1 (sset_In _ _)) in HrB; exact HrB|].
          exact (clades_sub ao B HB r HrB). }
        apply (NoDup_app_disj _ _ r ND'); auto. rewrite LU'. apply in_or_app; auto. }
      intros B. rewrite (Sc B), CU'. cbn [map]. rewrite EDa.
      assert (HM : In B (map (away r all) (clades (UNode n cm sl))) <->
                   In B (map (away r all) (sset (leaves ar) :: clades ar)) \/
                   In B (sset (leaves ao) :: clades ao)).
      { assert (Hid : forall X, In X (sset (leaves ao) :: clades ao) -> away r all X = X).
        { intros X HX. unfold away. now rewrite (smem_false r X (Hro X HX)). }
        split.
        - intros H. apply in_map_iff in H. destruct H as [X [E HX]]. apply HCl in HX.
          destruct HX as [HX|HX].
          + left. apply in_map_iff. exists X. auto.
          + right. rewrite <- E, (Hid X HX). exact HX.
        - intros [H|H].
          + apply in_map_iff in H. destruct H as [X [E HX]]. apply in_map_iff. exists X.
            split; auto. apply HCl. auto.
          + apply in_map_iff. exists B. split; [now apply Hid|]. apply HCl. auto. }
      assert (EDr : away r all (sset (leaves ar)) = sset (leaves U')).
      { unfold away.
        assert (T : smem r (sset (leaves ar)) = true) by (now apply smem_sset).
        rewrite T. rewrite <- Eall. apply sdiff_complement; [exact ND'|reflexivity]. }
      cbn [map In] in HM. cbn [map In]. rewrite in_app_iff. cbn [In]. rewrite HM, EDr. tauto. }
    apply in_app_or in Hr. destruct Hr as [Hr|Hr].
    + apply (Step e1 a1 e2 a2); auto.
      * now rewrite El.
      * intros B. rewrite Ec, in_app_iff. tauto.
    + apply (Step e2 a2 e1 a1); auto.
      * rewrite El. apply Permutation_app_comm.
      * intros B. rewrite Ec, in_app_iff. tauto.
Qed.

Lemma plant_unrooted r t :
  wf t = true -> binary false t = true -> NoDup (leaves t) -> In r (leaves t) ->
  exists c, wf_sub c = true /\ bin_sub c = true /\
    Permutation (leaves t) (r :: leaves c) /\
    forall B, In B (sset (leaves c) :: clades c) <->
              In B (map (away r (sset (leaves t))) (clades t)).
Proof.
  destruct t as [n cm sl]. intros W Bi ND Hr.
  rewrite wf_eq in W. apply andb_prop in W. destruct W as [U Ws]. apply Nat.eqb_eq in U.
  unfold binary, degree in Bi. simpl uslots in Bi. apply andb_prop in Bi. destruct Bi as [L3 Bs].
  apply Nat.eqb_eq in L3.
  destruct sl as [|s1 [|s2 [|s3 [|s4 rest]]]]; try discriminate.
  destruct s1 as [[e1 k1]|], s2 as [[e2 k2]|], s3 as [[e3 k3]|];
    try (unfold n_up in U; simpl in U; discriminate).
  simpl in Ws, Bs. rewrite !andb_true_r in *.
  apply andb_prop in Ws. destruct Ws as [W1 Ws]. apply andb_prop in Ws. destruct Ws as [W2 W3].
  apply andb_prop in Bs. destruct Bs as [B1 Bs]. apply andb_prop in Bs. destruct Bs as [B2 B3].
  set (t := UNode n cm [Some (e1, k1); Some (e2, k2); Some (e3, k3)]) in *.
  assert (El : leaves t = leaves k1 ++ leaves k2 ++ leaves k3).
  { unfold t. rewrite leaves_unfold. simpl. unfold kleaves. simpl. now rewrite app_nil_r. }
  assert (Ec : clades t = (sset (leaves k1) :: clades k1) ++ (sset (leaves k2) :: clades k2) ++
                          (sset (leaves k3) :: clades k3)).
  { unfold t. rewrite clades_unfold. simpl. now rewrite app_nil_r. }
  (* [a] contains [r]; [b], [d] are the other two subtrees *)
  assert (Gen : forall a b d,
    wf_sub a = true -> bin_sub a = true -> wf_sub b = true -> bin_sub b = true ->
    wf_sub d = true -> bin_sub d = true -> In r (leaves a) ->
    Permutation (leaves t) (leaves a ++ leaves b ++ leaves d) ->
    (forall B, In B (clades t) <-> In B (sset (leaves a) :: clades a) \/
               In B (sset (leaves b) :: clades b) \/ In B (sset (leaves d) :: clades d)) ->
    exists c, wf_sub c = true /\ bin_sub c = true /\
      Permutation (leaves t) (r :: leaves c) /\
      forall B, In B (sset (leaves c) :: clades c) <->
                In B (map (away r (sset (leaves t))) (clades t))).
  { intros a b d Wa Ba Wb Bb Wd Bd Hra HPl HCl.
    set (U0 := UNode EmptyString [] [None; Some (e0, b); Some (e0, d)]).
    assert (WU : wf_sub U0 = true) by (unfold U0; rewrite wf_sub_eq; simpl; now rewrite Wb, Wd).
    assert (BU : bin_sub U0 = true) by (unfold U0; rewrite bin_sub_eq; simpl; now rewrite Bb, Bd).
    assert (LU : leaves U0 = leaves b ++ leaves d).
    { unfold U0. rewrite leaves_unfold. simpl. unfold kleaves. simpl. now rewrite app_nil_r. }
    assert (CU : clades U0 = (sset (leaves b) :: clades b) ++ (sset (leaves d) :: clades d)).
    { unfold U0. rewrite clades_unfold. simpl. now rewrite app_nil_r. }
    assert (HPall : Permutation (leaves t) (leaves a ++ leaves U0)) by (now rewrite LU).
    assert (ND' : NoDup (leaves a ++ leaves U0)) by (eapply Permutation_NoDup; eauto).
    destruct (rev_plant r a U0 Wa Ba WU BU Hra ND') as (c & Wc & Bc & Pc & Sc).
    exists c. split; auto. split; auto. split; [now rewrite HPall|].
    assert (Eall : sset (leaves a ++ leaves U0) = sset (leaves t)) by (apply sset_perm; now symmetry).
    rewrite Eall in Sc. set (all := sset (leaves t)) in *.
    assert (EDa : away r all (sset (leaves a)) = sset (leaves U0)).
    { unfold away. assert (T : smem r (sset (leaves a)) = true) by (now apply smem_sset).
      rewrite T. rewrite <- Eall. apply sdiff_complement; [exact ND'|reflexivity]. }
    assert (Hro : forall B, In B (clades U0) -> ~ In r B).
    { intros B HB HrB. apply (NoDup_app_disj _ _ r ND'); auto. exact (clades_sub U0 B HB r HrB). }
    assert (Hid : forall X, In X (clades U0) -> away r all X = X).
    { intros X HX. unfold away. now rewrite (smem_false r X (Hro X HX)). }
    intros B. rewrite (Sc B). cbn [map In]. rewrite EDa. split.
    - intros [[H|H]|[H|H]].
      + apply in_map_iff. exists (sset (leaves a)). split; [now rewrite EDa|]. apply HCl. simpl; auto.
      + apply in_map_iff in H. destruct H as [X [E HX]]. apply in_map_iff. exists X. split; auto.
        apply HCl. simpl; auto.
      + apply in_map_iff. exists (sset (leaves a)). split; [now rewrite EDa|]. apply HCl. simpl; auto.
      + apply in_map_iff. exists B. split; [now apply Hid|]. apply HCl.
        rewrite CU in H. apply in_app_or in H. tauto.
    - intros H. apply in_map_iff in H. destruct H as [X [E HX]]. apply HCl in HX.
      destruct HX as [[<-|HX]|HX].
      + left; left. now rewrite <- E, EDa.
      + left; right. apply in_map_iff. exists X. auto.
      + right; right. assert (HXU : In X (clades U0)) by (rewrite CU; apply in_or_app; tauto).
        now rewrite <- E, (Hid X HXU). }
  rewrite El in Hr. apply in_app_or in Hr. destruct Hr as [Hr|Hr]; [|apply in_app_or in Hr; destruct Hr as [Hr|Hr]].
  - apply (Gen k1 k2 k3); auto.
    + now rewrite El.
    + intros B. rewrite Ec, !in_app_iff. tauto.
  - apply (Gen k2 k1 k3); auto.
    + rewrite El. apply Permutation_app_swap_app.
    + intros B. rewrite Ec, !in_app_iff. tauto.
  - apply (Gen k3 k1 k2); auto.
    + rewrite El. rewrite (Permutation_app_comm (leaves k3)), <- app_assoc. reflexivity.
    + intros B. rewrite Ec, !in_app_iff. tauto.
Qed.

(** * Planted trees *)
Definition plantP (r : string) (c : utree) : utree := UNode r [] [Some (e0, c)].

Lemma plantP_leaves r c : leaves (plantP r c) = leaves c.
Proof. unfold plantP. rewrite leaves_unfold. simpl. unfold kleaves. simpl. apply app_nil_r. Qed.
Lemma plantP_clades r c : clades (plantP r c) = sset (leaves c) :: clades c.
Proof. unfold plantP. rewrite clades_unfold. simpl. now rewrite app_nil_r. Qed.

Lemma plantP_inv r c L :
  wf_sub c = true -> bin_sub c = true -> Permutation (leaves c) L -> topo_inv 1 L (plantP r c).
Proof.
  intros W B P. unfold topo_inv. rewrite plantP_leaves. unfold plantP, kids. simpl uslots.
  split; [reflexivity|]. split; [reflexivity|]. split; [discriminate|].
  split; [simpl; now rewrite W|]. split; [simpl; now rewrite B|exact P].
Qed.

Lemma planted_form L P : topo_inv 1 L P ->
  exists n cm e c, P = UNode n cm [Some (e, c)] /\ wf_sub c = true /\ bin_sub c = true /\
                   leaves P = leaves c /\ clades P = sset (leaves c) :: clades c.
Proof.
  destruct P as [n cm sl]. intros (U & Ln & _ & W & B & _). simpl uslots in *.
  destruct sl as [|[[e c]|] [|s2 r]]; try discriminate.
  simpl in W, B. rewrite andb_true_r in *. exists n, cm, e, c. split; auto. split; auto. split; auto.
  split.
  - rewrite leaves_unfold. simpl. unfold kleaves. simpl. apply app_nil_r.
  - rewrite clades_unfold. simpl. now rewrite app_nil_r.
Qed.

Lemma two_leaves n cm sl :
  wf_sub (UNode n cm sl) = true -> bin_sub (UNode n cm sl) = true -> kids_of sl <> [] ->
  2 <= length (leaves (UNode n cm sl)).
Proof.
  intros W B K. destruct (two_kids n cm sl W B K) as (e1 & a & e2 & b & Ek & _).
  rewrite leaves_unfold, Ek. unfold kleaves. simpl. rewrite !app_length.
  pose proof (leaves_nonempty a). pose proof (leaves_nonempty b).
  destruct (leaves a), (leaves b); simpl; try congruence; lia.
Qed.

Lemma planted_single y P : topo_inv 1 [y] P -> clades P = [[y]].
Proof.
  intros HI. destruct (planted_form _ _ HI) as (n & cm & e & c & -> & W & B & El & Ec).
  destruct HI as (_ & _ & _ & _ & _ & HP). rewrite El in HP. rewrite Ec.
  destruct c as [n' c' sl'].
  destruct (kids_of sl') as [|p ks] eqn:Ek.
  - rewrite clades_unfold, slots_clades_kids, Ek. rewrite leaves_unfold, Ek in *. simpl.
    apply Permutation_length_1 in HP. now subst.
  - exfalso. assert (K : kids_of sl' <> []) by (rewrite Ek; discriminate).
    pose proof (two_leaves n' c' sl' W B K) as H2. apply Permutation_length in HP.
    rewrite HP in H2. simpl in H2. lia.
Qed.

Lemma planted_prune x L L' P :
  topo_inv 1 L P -> NoDup L -> Permutation L (x :: L') -> L' <> [] ->
  exists C, prune_ok x P (prune x P) C /\ topo_inv 1 L' (prune x P).
Proof.
  intros HI ND HP HL'.
  destruct (planted_form _ _ HI) as (n & cm & e & c & EP & W & B & El & Ec).
  destruct HI as (I1 & I2 & I3 & I4 & I5 & I6).
  assert (NDP : NoDup (leaves P)) by (eapply Permutation_NoDup; [symmetry; exact I6|exact ND]).
  assert (Hx : In x (leaves P)).
  { eapply Permutation_in; [symmetry; exact I6|]. eapply Permutation_in; [symmetry; exact HP|].
    simpl; auto. }
  assert (Hnl : forall p, In p (kids P) -> is_leaf_named x (snd p) = false).
  { rewrite EP. unfold kids. simpl. intros p [<-|[]]. simpl.
    destruct (is_leaf_named x c) eqn:E; auto. exfalso.
    destruct (is_leaf_named_spec x c E) as (_ & Lc & _).
    rewrite El, Lc in I6. rewrite HP in I6. apply Permutation_length in I6. simpl in I6.
    destruct L'; [congruence|simpl in I6; lia]. }
  destruct (prune_spec x P NDP I4 I5 Hx I3 Hnl) as [C HOK]. exists C. split; auto.
  destruct HOK as (Q1 & Q2 & Q3 & Q4 & Q5 & Q6 & Q7 & Q8 & Q9 & Q10).
  unfold topo_inv. rewrite Q3, Q4. repeat split; auto.
  apply Permutation_cons_inv with (a := x). rewrite <- Q8, I6. exact HP.
Qed.

(** * Every planted binary tree is reached by the unrooted enumeration (seen from the first tip) *)
Section Enum.
  Variable names : list string.
  Variable n : nat.
  Hypothesis Hn : 3 <= n.
  Hypothesis NDn : NoDup (map (topo_name names) (seq 0 n)).

  Let nm := topo_name names.
  Definition allG (i : nat) : list string := sset (map nm (seq 0 i)).
  Definition simG (i : nat) (P u : utree) : Prop :=
    forall B, In B (clades P) <-> In B (map (away (nm 0) (allG i)) (clades u)).

  Lemma nodup_prefix i : i <= n -> NoDup (map nm (seq 0 i)).
  Proof.
    intros Hi. replace n with (i + (n - i)) in NDn by lia. rewrite seq_app, map_app in NDn.
    eapply NoDup_app_l; eauto.
  Qed.

  Lemma nm_notin i j : i < n -> j <= i -> ~ In (nm i) (map nm (seq 0 j)).
  Proof.
    intros Hi Hj H. pose proof (nodup_prefix (S i) ltac:(lia)) as ND.
    rewrite seq_S, map_app in ND. simpl in ND.
    apply (NoDup_app_disj _ _ (nm i) ND); [|simpl; auto].
    apply in_map_iff in H. destruct H as [k [E Hk]]. apply in_map_iff. exists k. split; auto.
    apply in_seq in Hk. apply in_seq. lia.
  Qed.

  Lemma allG_S i : allG (S i) = sinsert (nm i) (allG i).
  Proof.
    unfold allG. rewrite seq_S, map_app. simpl.
    rewrite (sset_perm (map nm (seq 0 i) ++ [nm i]) (nm i :: map nm (seq 0 i))).
    - reflexivity.
    - symmetry. apply Permutation_cons_append.
  Qed.

  Lemma nm_in_all j i : j < i -> In (nm j) (allG i).
  Proof. intros H. apply sset_In. apply in_map. apply in_seq. lia. Qed.

  Lemma enum_factsG f u : 3 + f <= n ->
    In u (topo_pre f names 3 (start_unrooted names)) ->
    topo_inv 3 (map nm (seq 0 (3 + f))) u /\
    (forall A, In A (clades u) -> few3 (nm 0) (nm 1) (nm 2) A).
  Proof.
    intros Hf Hu.
    pose proof (topo_pre_inv 3 names f 3 _ _ (start_unrooted_inv names)) as Hinv.
    fold nm in Hinv. rewrite <- map_app, <- seq_app in Hinv.
    rewrite Forall_forall in Hinv. split; [now apply Hinv|].
    pose proof (nodup_prefix 3 Hn) as ND0.
    pose proof (nodup_prefix (3 + f) Hf) as ND. rewrite seq_app, map_app in ND.
    assert (R : In (nm 0) (map nm (seq 0 3)) /\ In (nm 1) (map nm (seq 0 3)) /\
                In (nm 2) (map nm (seq 0 3))) by (simpl; repeat split; auto 6).
    destruct R as (R1 & R2 & R3).
    pose proof (topo_pre_few3 _ _ _ 3 names f 3 _ _ R1 R2 R3 (start_unrooted_inv names) ND
                              (start_unrooted_few3 names ND0)) as Hfew.
    rewrite Forall_forall in Hfew. exact (Hfew u Hu).
  Qed.

  (** one more tip *)
  Lemma sim_stepG i P' P u' C : 3 <= i -> i < n ->
    In u' (topo_pre (i - 3) names 3 (start_unrooted names)) -> simG i P' u' ->
    In C (clades P') -> EX (nm i) (clades P') (clades P) C ->
    exists g, In g (grafts (tip_node (nm i)) u') /\ simG (S i) P g.
  Proof.
    intros Hi Hin Hu Hsim HC EXP.
    apply Hsim in HC. apply in_map_iff in HC. destruct HC as [A [EA HA]].
    destruct (enum_factsG (i - 3) u' ltac:(lia) Hu) as [TU FU].
    replace (3 + (i - 3)) with i in TU by lia.
    destruct TU as (_ & _ & KU & WU & BU & PU).
    assert (NDU : NoDup (leaves u')).
    { eapply Permutation_NoDup; [symmetry; exact PU|]. apply nodup_prefix. lia. }
    destruct (Forall2_In_r _ _ _ _ (grafts_EX (nm i) u' NDU WU BU) HA) as [g [Hg EXU]].
    exists g. split; [exact Hg|].
    assert (Tgood : forall B, In B (clades u') -> good (nm 0) (nm 1) (nm 2) (allG i) B).
    { intros B HB. split; [eapply clades_sorted; eauto|]. split; [|split].
      - intros y Hy. apply sset_In. eapply Permutation_in; [exact PU|].
        exact (clades_sub u' B HB y Hy).
      - eapply clades_nonempty; eauto.
      - now apply FU. }
    assert (Xout : ~ In (nm i) (allG i)).
    { intros H. apply (proj1 (sset_In _ _)) in H. now apply (nm_notin i i). }
    pose proof (away_EX (nm 0) (nm 1) (nm 2) (nm i) (allG i) (sset_sorted _)
                        (nm_in_all 0 i ltac:(lia)) (nm_in_all 1 i ltac:(lia))
                        (nm_in_all 2 i ltac:(lia)) Xout
                        (clades u') Tgood (clades_lam u' NDU) (clades g) A HA EXU) as EXA.
    rewrite EA in EXA. intros B. unfold simG. rewrite allG_S.
    exact (EX_set _ _ _ _ _ C Hsim EXP EXA B).
  Qed.

  Lemma nm_distinct3 : nm 0 <> nm 1 /\ nm 0 <> nm 2 /\ nm 1 <> nm 2.
  Proof.
    pose proof (nodup_prefix 3 Hn) as ND. simpl in ND.
    inversion ND as [|? ? N0 ND']; subst. inversion ND' as [|? ? N1 ND'']; subst.
    simpl in N0, N1. repeat split; intros E; rewrite E in *; tauto.
  Qed.

  Lemma sim_baseG P : topo_inv 1 [nm 1; nm 2] P -> simG 3 P (start_unrooted names).
  Proof.
    intros HI. destruct nm_distinct3 as (D01 & D02 & D12).
    assert (ND : NoDup [nm 1; nm 2]).
    { constructor; [simpl; intros [E|[]]; congruence|]. constructor; [simpl; tauto|constructor]. }
    destruct (planted_prune (nm 2) [nm 1; nm 2] [nm 1] P HI ND (perm_swap _ _ _) ltac:(discriminate))
      as [C [HOK HI']].
    destruct HOK as (_ & _ & _ & _ & _ & _ & _ & _ & Q9 & Q10).
    rewrite (planted_single (nm 1) _ HI') in Q9, Q10. destruct Q9 as [<-|[]].
    intros B. rewrite (Q10 B).
    assert (Ecl : clades (start_unrooted names) = [[nm 0]; [nm 1]; [nm 2]]) by reflexivity.
    rewrite Ecl. cbn [map].
    assert (A0 : away (nm 0) (allG 3) [nm 0] = sinsert (nm 2) [nm 1]).
    { unfold away. assert (T : smem (nm 0) [nm 0] = true) by (apply smem_In; simpl; auto).
      rewrite T. change (allG 3) with (sinsert (nm 0) (sset [nm 1; nm 2])).
      rewrite sdiff_sinsert_single.
      - change (sinsert (nm 2) [nm 1]) with (sset [nm 2; nm 1]). apply sset_perm. apply perm_swap.
      - apply sset_sorted.
      - intros H. apply (proj1 (sset_In _ _)) in H. simpl in H. intuition congruence. }
    assert (A1 : away (nm 0) (allG 3) [nm 1] = [nm 1]).
    { unfold away. rewrite smem_false; auto. simpl. intuition congruence. }
    assert (A2 : away (nm 0) (allG 3) [nm 2] = [nm 2]).
    { unfold away. rewrite smem_false; auto. simpl. intuition congruence. }
    rewrite A0, A1, A2. remember (sinsert (nm 2) [nm 1]) as S12. cbn [In]. split.
    - intros [->|[->|[->|[[B0 [[<-|[]] [_ [N _]]]]|[B0 [[<-|[]] [N _]]]]]]];
        try (exfalso; apply N; reflexivity); try (exfalso; apply N; apply incl_refl); auto.
    - intros [<-|[<-|[<-|[]]]]; auto.
  Qed.

  Theorem planted_reached k : 3 + k <= n -> forall P,
    topo_inv 1 (map nm (seq 1 (2 + k))) P ->
    exists u, In u (topo_pre k names 3 (start_unrooted names)) /\ simG (3 + k) P u.
  Proof.
    induction k as [|k IH]; intros Hk P HI.
    - exists (start_unrooted names). split; [simpl; auto|]. now apply sim_baseG.
    - set (i := 3 + k) in *. set (x := nm i).
      assert (HL : map nm (seq 1 (2 + S k)) = map nm (seq 1 (2 + k)) ++ [x]).
      { replace (2 + S k) with (S (2 + k)) by lia. rewrite seq_S, map_app. reflexivity. }
      rewrite HL in HI.
      assert (ND : NoDup (map nm (seq 1 (2 + k)) ++ [x])).
      { rewrite <- HL. pose proof (nodup_prefix (S (2 + S k)) ltac:(lia)) as H.
        simpl in H. now inversion H. }
      destruct (planted_prune x _ (map nm (seq 1 (2 + k))) P HI ND)
        as [C [HOK HI']].
      { symmetry. apply Permutation_cons_append. }
      { simpl. discriminate. }
      destruct (IH ltac:(lia) _ HI') as [u' [Hu' Hsim']].
      destruct HOK as (_ & _ & _ & _ & _ & _ & _ & _ & Q9 & Q10).
      replace k with (i - 3) in Hu' by (unfold i; lia).
      destruct (sim_stepG i (prune x P) P u' C ltac:(unfold i; lia) ltac:(unfold i; lia)
                          Hu' Hsim' Q9 Q10) as [g [Hg Hsim]].
      exists g. split.
      + replace (i - 3) with k in Hu' by (unfold i; lia).
        eapply topo_pre_snoc; [exact Hu'|]. exact Hg.
      + exact Hsim.
  Qed.
End Enum.

(** * Completeness of the unrooted enumeration *)
Theorem all_topologies_unrooted_complete_names n names ts t :
  3 <= n -> NoDup (map (topo_name names) (seq 0 n)) ->
  all_topologies n false names = Ok ts ->
  wf t = true -> binary false t = true ->
  Permutation (leaves t) (map (topo_name names) (seq 0 n)) ->
  In (topo_key false t) (map (topo_key false) ts).
Proof.
  intros Hn ND Hts W Bi HP. set (nm := topo_name names) in *.
  assert (NDt : NoDup (leaves t)) by (eapply Permutation_NoDup; [symmetry; exact HP|exact ND]).
  assert (EL : map nm (seq 0 n) = nm 0 :: map nm (seq 1 (n - 1))).
  { replace n with (S (n - 1)) at 1 by lia. reflexivity. }
  assert (Hr : In (nm 0) (leaves t)).
  { eapply Permutation_in; [symmetry; exact HP|]. rewrite EL. simpl; auto. }
  destruct (plant_unrooted (nm 0) t W Bi NDt Hr) as (c & Wc & Bc & Pc & Sc).
  assert (Plc : Permutation (leaves c) (map nm (seq 1 (2 + (n - 3))))).
  { replace (2 + (n - 3)) with (n - 1) by lia.
    apply Permutation_cons_inv with (a := nm 0). rewrite <- Pc, HP, EL. reflexivity. }
  pose proof (plantP_inv (nm 0) c _ Wc Bc Plc) as HI.
  destruct (planted_reached names n Hn ND (n - 3) ltac:(lia) _ HI) as [u [Hu Hsim]].
  replace (3 + (n - 3)) with n in Hsim by lia.
  destruct (enum_factsG names n Hn ND (n - 3) u ltac:(lia) Hu) as [TU _].
  replace (3 + (n - 3)) with n in TU by lia. fold nm in TU.
  rewrite (all_topologies_unrooted_eq n names ts Hn Hts), topo_rec_pre, map_map.
  apply in_map_iff. exists u. split; [|exact Hu].
  assert (Eall : sset (leaves t) = allG names n) by (apply sset_perm; exact HP).
  unfold topo_key, tipset. rewrite clone_leaves, clone_clades.
  assert (Eallu : sset (leaves u) = allG names n).
  { destruct TU as (_ & _ & _ & _ & _ & PU). apply sset_perm. exact PU. }
  rewrite Eall, Eallu. apply lset_ext. symmetry.
  assert (Sall : StronglySorted slt (allG names n)) by apply sset_sorted.
  apply (canon_of_away (nm 0) (allG names n)); auto.
  - intros B HB. split; [eapply clades_sorted; eauto|].
    intros y Hy. rewrite <- Eall. apply sset_In. exact (clades_sub t B HB y Hy).
  - intros B HB. split; [eapply clades_sorted; eauto|].
    intros y Hy. rewrite <- Eallu. apply sset_In. exact (clades_sub u B HB y Hy).
  - intros B. rewrite Eall in Sc. rewrite <- (Sc B), <- plantP_clades with (r := nm 0).
    apply Hsim.
Qed.

Theorem all_topologies_unrooted_complete n names ts t :
  3 <= n -> length names = n -> NoDup names ->
  all_topologies n false names = Ok ts ->
  wf t = true -> binary false t = true -> Permutation (leaves t) names ->
  In (topo_key false t) (map (topo_key false) ts).
Proof.
  intros Hn Hl ND Hts W Bi HP.
  assert (Hne : names <> []) by (intros ->; simpl in Hl; lia).
  pose proof (topo_names_given names Hne) as E. rewrite Hl in E.
  eapply all_topologies_unrooted_complete_names; eauto; now rewrite E.
Qed.

(** with the default names Tip1 .. Tipn *)
Theorem all_topologies_unrooted_complete_default n ts t :
  3 <= n -> all_topologies n false [] = Ok ts ->
  wf t = true -> binary false t = true ->
  Permutation (leaves t) (map (topo_name []) (seq 0 n)) ->
  In (topo_key false t) (map (topo_key false) ts).
Proof.
  intros Hn Hts W Bi HP.
  eapply all_topologies_unrooted_complete_names; eauto. apply topo_names_nil_NoDup.
Qed.

Lemma sset_eqb_same a : sset_eqb a a = true.
Proof.
  unfold sset_eqb. induction a as [|x a IH]; simpl; auto. now rewrite String.eqb_refl, IH.
Qed.

(** * Completeness of the rooted enumeration *)
Section EnumRooted.
  Variable names : list string.
  Variable n : nat.
  Hypothesis NDn : NoDup (map (topo_name names) (seq 0 n)).
  Let nm := topo_name names.

  Lemma nodup_prefixR i : i <= n -> NoDup (map nm (seq 0 i)).
  Proof.
    intros Hi. replace n with (i + (n - i)) in NDn by lia. rewrite seq_app, map_app in NDn.
    eapply NoDup_app_l; eauto.
  Qed.

  Theorem planted_reached_rooted k : 1 + k <= n -> forall P,
    topo_inv 1 (map nm (seq 0 (1 + k))) P ->
    exists u, In u (topo_pre k names 1 (start_rooted names)) /\ ceq P u.
  Proof.
    induction k as [|k IH]; intros Hk P HI.
    - exists (start_rooted names). split; [simpl; auto|].
      intros B. rewrite (planted_single (nm 0) P HI). reflexivity.
    - set (i := 1 + k) in *. set (x := nm i).
      assert (HL : map nm (seq 0 (1 + S k)) = map nm (seq 0 (1 + k)) ++ [x]).
      { replace (1 + S k) with (S (1 + k)) by lia. rewrite seq_S, map_app. reflexivity. }
      rewrite HL in HI.
      assert (ND : NoDup (map nm (seq 0 (1 + k)) ++ [x])).
      { rewrite <- HL. apply nodup_prefixR. lia. }
      destruct (planted_prune x _ (map nm (seq 0 (1 + k))) P HI ND)
        as [C [HOK HI']].
      { symmetry. apply Permutation_cons_append. }
      { simpl. discriminate. }
      destruct (IH ltac:(lia) _ HI') as [u' [Hu' Hceq]].
      destruct HOK as (_ & _ & _ & _ & _ & _ & _ & _ & Q9 & Q10).
      pose proof (topo_pre_inv 1 names k 1 _ _ (start_rooted_inv names)) as Hinv.
      fold nm in Hinv. rewrite <- map_app, <- seq_app in Hinv.
      rewrite Forall_forall in Hinv. destruct (Hinv u' Hu') as (_ & _ & KU & WU & BU & PU).
      assert (NDU : NoDup (leaves u')).
      { eapply Permutation_NoDup; [symmetry; exact PU|]. apply nodup_prefixR. lia. }
      apply Hceq in Q9.
      destruct (Forall2_In_r _ _ _ _ (grafts_EX x u' NDU WU BU) Q9) as [g [Hg EXU]].
      exists g. split.
      + eapply topo_pre_snoc; [exact Hu'|]. exact Hg.
      + intros B. exact (EX_set _ _ _ _ _ C Hceq Q10 EXU B).
  Qed.
End EnumRooted.

Theorem all_topologies_rooted_complete_names n names ts t :
  2 <= n -> NoDup (map (topo_name names) (seq 0 n)) ->
  all_topologies n true names = Ok ts ->
  wf t = true -> binary true t = true ->
  Permutation (leaves t) (map (topo_name names) (seq 0 n)) ->
  In (topo_key true t) (map (topo_key true) ts).
Proof.
  intros Hn ND Hts W Bi HP. set (nm := topo_name names) in *.
  destruct t as [n0 cm sl].
  rewrite wf_eq in W. apply andb_prop in W. destruct W as [U Ws]. apply Nat.eqb_eq in U.
  unfold binary, degree in Bi. simpl uslots in Bi. apply andb_prop in Bi. destruct Bi as [L2 Bs].
  apply Nat.eqb_eq in L2.
  set (t := UNode n0 cm sl) in *. set (c := UNode n0 cm (None :: sl)).
  assert (Wc : wf_sub c = true).
  { unfold c. rewrite wf_sub_eq, n_up_cons, U. simpl. exact Ws. }
  assert (Bc : bin_sub c = true).
  { unfold c. rewrite bin_sub_eq. simpl length. rewrite L2. simpl. exact Bs. }
  assert (Lc : leaves c = leaves t) by (apply leaves_kids; reflexivity).
  assert (Cc : clades c = clades t) by reflexivity.
  assert (Plc : Permutation (leaves c) (map nm (seq 0 (1 + (n - 1))))).
  { replace (1 + (n - 1)) with n by lia. now rewrite Lc. }
  pose proof (plantP_inv EmptyString c _ Wc Bc Plc) as HI.
  destruct (planted_reached_rooted names n ND (n - 1) ltac:(lia) _ HI) as [u [Hu Hceq]].
  rewrite (all_topologies_rooted_eq n names ts Hn Hts), topo_rec_pre, map_map.
  apply in_map_iff. exists u. split; [|exact Hu].
  pose proof (topo_pre_inv 1 names (n - 1) 1 _ _ (start_rooted_inv names)) as Hinv.
  rewrite <- map_app, <- seq_app in Hinv. replace (1 + (n - 1)) with n in Hinv by lia.
  rewrite Forall_forall in Hinv. pose proof (Hinv u Hu) as TU.
  unfold topo_key. rewrite (clone_tipset _ 1 u TU), clone_clades.
  assert (Eall : tipset t = sset (map (topo_name names) (seq 0 n))).
  { unfold tipset. apply sset_perm. exact HP. }
  rewrite Eall. set (all := sset (map (topo_name names) (seq 0 n))) in *.
  apply lset_ext. intros Y. rewrite !filter_In.
  assert (HcP : forall B, In B (clades u) <-> B = all \/ In B (clades t)).
  { intros B. rewrite <- (Hceq B), plantP_clades, Lc, Cc. fold (tipset t). rewrite Eall.
    simpl. intuition. }
  rewrite (HcP Y). split; intros [H1 H2]; split; auto.
  destruct H1 as [->|H1]; auto. rewrite sset_eqb_same in H2. discriminate.
Qed.

Theorem all_topologies_rooted_complete n names ts t :
  2 <= n -> length names = n -> NoDup names ->
  all_topologies n true names = Ok ts ->
  wf t = true -> binary true t = true -> Permutation (leaves t) names ->
  In (topo_key true t) (map (topo_key true) ts).
Proof.
  intros Hn Hl ND Hts W Bi HP.
  assert (Hne : names <> []) by (intros ->; simpl in Hl; lia).
  pose proof (topo_names_given names Hne) as E. rewrite Hl in E.
  eapply all_topologies_rooted_complete_names; eauto; now rewrite E.
Qed.

Theorem all_topologies_rooted_complete_default n ts t :
  2 <= n -> all_topologies n true [] = Ok ts ->
  wf t = true -> binary true t = true ->
  Permutation (leaves t) (map (topo_name []) (seq 0 n)) ->
  In (topo_key true t) (map (topo_key true) ts).
Proof.
  intros Hn Hts W Bi HP.
  eapply all_topologies_rooted_complete_names; eauto. apply topo_names_nil_NoDup.
Qed.
