(** C10: the 'family' cases.  For ANY common clade H on at least 8 taxa (distinct names, none
    of a..f), the eleven branches of the reference (((a,b),(c,d)),(e,f),H) outside H have light
    sides of sizes 4,2,1,1,2,1,1,2,1,1,6 and transfer indexes 2,1,0,0,1,0,0,1,0,0,0 to the bootstrap
    tree ((H,(c,e)),(a,f),(b,d)), in the definition and in the model: the values the judge
    computes on the member with 12 taxa hold for the trees with 65543 taxa the worker runs. *)
From Coq Require Import String ZArith QArith Bool Arith Lia Permutation List.
From GT Require Import Base.UTree Spec.Obs Spec.Support Model.Support Model.SupportFamily
     Proofs.SupportBase Proofs.SupportMTD Proofs.SupportClosed Proofs.SupportSpec Proofs.SupportDomain.
Import ListNotations.
Local Close Scope Q_scope.
Local Open Scope string_scope.

Lemma filter_all : forall A (f : A -> bool) l, (forall x, In x l -> f x = true) -> filter f l = l.
Proof.
  intros A f l H. induction l as [|a l IH]; [reflexivity|]. simpl.
  rewrite (H a (or_introl eq_refl)), IH; [reflexivity|]. intros; apply H; right; assumption.
Qed.
Lemma filter_none : forall A (f : A -> bool) l, (forall x, In x l -> f x = false) -> filter f l = [].
Proof.
  intros A f l H. induction l as [|a l IH]; [reflexivity|]. simpl.
  rewrite (H a (or_introl eq_refl)), IH; [reflexivity|]. intros; apply H; right; assumption.
Qed.

Lemma lmin_eq : forall l n0 v, In v l -> Forall (fun d => v <= d) l -> v <= n0 -> lmin n0 l = v.
Proof.
  intros l n0 v Hin Hall Hn. apply Nat.le_antisymm.
  - apply lmin_le_in. exact Hin.
  - apply lmin_ge; assumption.
Qed.

Lemma nodup_app_intro : forall A (a b : list A),
    NoDup a -> NoDup b -> (forall x, In x a -> ~ In x b) -> NoDup (a ++ b).
Proof.
  induction a as [|x a IH]; intros b Na Nb D; [exact Nb|]. simpl. inversion Na; subst. constructor.
  - intros Hin. apply in_app_or in Hin. destruct Hin as [Hin|Hin]; [contradiction|].
    exact (D x (or_introl eq_refl) Hin).
  - apply IH; [assumption|assumption|]. intros y Hy. apply D. right. exact Hy.
Qed.

Definition Sm : list string := ["a"; "b"; "c"; "d"; "e"; "f"].

Section Family.
  Variable H : utree.
  Hypothesis WH : wf_sub H = true.
  Hypothesis NH : NoDup (leaves H).
  Hypothesis Disj : forall x, In x (leaves H) -> ~ In x Sm.
  Hypothesis MH : 8 <= length (leaves H).

  Local Notation HL := (leaves H).
  Local Notation m := (length (leaves H)).
  Local Notation X := (Sm ++ leaves H)%list.

  Lemma small_not_HL : forall x, In x Sm -> mem x HL = false.
  Proof. intros x Hx. apply mem_false. intros Hin. exact (Disj x Hin Hx). Qed.

  Lemma HL_not_small : forall x S, incl S Sm -> In x HL -> mem x S = false.
  Proof. intros x S I Hx. apply mem_false. intros Hin. exact (Disj x Hx (I x Hin)). Qed.

  Lemma leaves_ref : leaves (fam_ref_of H) = X.
  Proof. simpl. rewrite app_nil_r. reflexivity. Qed.

  Lemma X_len : length X = 6 + m.
  Proof. rewrite app_length. reflexivity. Qed.

  (** |L Δ B| for L within a..f and B described by its trace S on a..f and whether it contains H *)
  Lemma symdiff_fam : forall L B S (hb : bool),
      incl L Sm ->
      (forall x, In x Sm -> mem x B = mem x S) ->
      (forall x, In x HL -> mem x B = hb) ->
      symdiff X L B = symdiff Sm L S + (if hb then m else 0).
  Proof.
    intros L B S hb IL HS HH. unfold symdiff. rewrite filter_app, app_length. f_equal.
    - apply (cnt_ext_in _ _ _ Sm). intros x Hx.
      change (smem x B) with (mem x B). change (smem x S) with (mem x S). rewrite (HS x Hx). reflexivity.
    - fold (cnt (fun x => xorb (smem x L) (smem x B)) HL). destruct hb.
      + apply cnt_full. intros x Hx. change (smem x L) with (mem x L). change (smem x B) with (mem x B).
        rewrite (HL_not_small x L IL Hx), (HH x Hx). reflexivity.
      + apply cnt_zero. intros x Hx. change (smem x L) with (mem x L). change (smem x B) with (mem x B).
        rewrite (HL_not_small x L IL Hx), (HH x Hx). reflexivity.
  Qed.

  Definition td (k : nat) (hb : bool) : nat :=
    Nat.min (k + (if hb then m else 0)) (6 + m - (k + (if hb then m else 0))).

  Lemma tdist_fam : forall L B S hb,
      incl L Sm ->
      (forall x, In x Sm -> mem x B = mem x S) ->
      (forall x, In x HL -> mem x B = hb) ->
      tdist X L B = td (symdiff Sm L S) hb.
  Proof.
    intros L B S hb IL HS HH. unfold tdist, td. rewrite (symdiff_fam L B S hb IL HS HH), X_len. reflexivity.
  Qed.

  (** a branch inside H *)
  Lemma tdist_inner : forall L B,
      incl L Sm -> In B (clades H) ->
      Nat.min (cnt (fun x => mem x L) Sm + 1) (6 - cnt (fun x => mem x L) Sm) <= tdist X L B.
  Proof.
    intros L B IL HB. rewrite clades_subs in HB. apply in_map_iff in HB. destruct HB as [b [<- Hb]].
    assert (NB : NoDup (leaves b)) by (eapply subs_nodup; eassumption).
    assert (IB : incl (leaves b) HL) by (apply subs_incl; exact Hb).
    assert (LB : 1 <= length (leaves b)).
    { pose proof (leaves_nonempty b). destruct (leaves b); [congruence|simpl; lia]. }
    assert (UB : length (leaves b) <= m).
    { rewrite <- (cnt_mem_length HL (leaves b) NH NB IB). apply cnt_le. }
    assert (E : symdiff X L (leaves b) = cnt (fun x => mem x L) Sm + length (leaves b)).
    { unfold symdiff. rewrite filter_app, app_length. f_equal.
      - apply (cnt_ext_in _ _ _ Sm). intros x Hx. change (smem x L) with (mem x L).
        change (smem x (leaves b)) with (mem x (leaves b)).
        assert (mem x (leaves b) = false) as ->.
        { apply mem_false. intros Hin. exact (Disj x (IB x Hin) Hx). }
        destruct (mem x L); reflexivity.
      - rewrite <- (cnt_mem_length HL (leaves b) NH NB IB). apply (cnt_ext_in _ _ _ HL). intros x Hx.
        change (smem x L) with (mem x L). change (smem x (leaves b)) with (mem x (leaves b)).
        rewrite (HL_not_small x L IL Hx). destruct (mem x (leaves b)); reflexivity. }
    unfold tdist. rewrite E, X_len. pose proof (cnt_le _ (fun x => mem x L) Sm) as C. simpl length in C. lia.
  Qed.

  (** the light sides *)
  Lemma light_small : forall A, incl A Sm -> light X A = filter (fun x => mem x A) Sm.
  Proof.
    intros A IA. unfold light, sinter, sdiff. rewrite !filter_app.
    rewrite (filter_none _ (fun x => smem x A) HL) by (intros x Hx; apply (HL_not_small x A IA Hx)).
    rewrite (filter_all _ (fun x => negb (smem x A)) HL)
      by (intros x Hx; change (smem x A) with (mem x A); rewrite (HL_not_small x A IA Hx); reflexivity).
    rewrite app_nil_r, app_length.
    pose proof (cnt_neg _ (fun x => smem x A) Sm) as C. unfold cnt in C. simpl (length Sm) in C.
    replace (Nat.leb _ _) with true; [reflexivity|]. symmetry. apply Nat.leb_le. lia.
  Qed.

  Lemma light_H : light X HL = Sm.
  Proof.
    unfold light, sinter, sdiff. rewrite !filter_app.
    rewrite (filter_none _ (fun x => smem x HL) Sm) by (intros x Hx; apply (small_not_HL x Hx)).
    rewrite (filter_all _ (fun x => smem x HL) HL) by (intros x Hx; apply mem_In; exact Hx).
    rewrite (filter_all _ (fun x => negb (smem x HL)) Sm)
      by (intros x Hx; change (smem x HL) with (mem x HL); rewrite (small_not_HL x Hx); reflexivity).
    rewrite (filter_none _ (fun x => negb (smem x HL)) HL)
      by (intros x Hx; change (smem x HL) with (mem x HL);
          assert (mem x HL = true) as -> by (apply mem_In; exact Hx); reflexivity).
    rewrite app_nil_r. cbn [app]. simpl (length Sm).
    replace (Nat.leb m 6) with false by (symmetry; apply Nat.leb_gt; lia). reflexivity.
  Qed.

  (** the two trees are in the domain *)
  Lemma nodup_Sm : NoDup Sm.
  Proof. unfold Sm. repeat constructor; simpl; intuition discriminate. Qed.

  Lemma nodup_X : NoDup X.
  Proof.
    apply nodup_app_intro; [exact nodup_Sm|exact NH|]. intros x Hx Hin. exact (Disj x Hin Hx).
  Qed.

  Lemma good_ref : good (fam_ref_of H).
  Proof.
    split; [simpl; rewrite WH; reflexivity|]. split; [unfold degree; simpl; lia|].
    rewrite leaves_ref. exact nodup_X.
  Qed.

  Lemma leaves_boot : leaves (fam_boot_of H) = ((HL ++ ["c"; "e"]) ++ ["a"; "f"; "b"; "d"])%list.
  Proof. reflexivity. Qed.

  Lemma same_taxa_fam : forall x, In x (leaves (fam_ref_of H)) <-> In x (leaves (fam_boot_of H)).
  Proof.
    intros x. rewrite leaves_ref, leaves_boot. rewrite !in_app_iff. unfold Sm. simpl. tauto.
  Qed.

  Lemma good_boot : good (fam_boot_of H).
  Proof.
    split; [simpl; rewrite WH; reflexivity|]. split; [unfold degree; simpl; lia|].
    rewrite leaves_boot.
    assert (P : Permutation X ((HL ++ ["c"; "e"]) ++ ["a"; "f"; "b"; "d"])%list).
    { apply NoDup_Permutation_bis; [exact nodup_X| |].
      - rewrite !app_length. simpl. lia.
      - intros x Hx. rewrite !in_app_iff in *. unfold Sm in Hx. simpl in *. tauto. }
    eapply Permutation_NoDup; [exact P|exact nodup_X].
  Qed.

  Lemma clades_boot :
    clades (fam_boot_of H)
    = ((HL ++ ["c"; "e"]) :: HL :: (clades H ++ [["c"; "e"]; ["c"]; ["e"]]) ++
      [["a"; "f"]; ["a"]; ["f"]; ["b"; "d"]; ["b"]; ["d"]])%list.
  Proof. reflexivity. Qed.

  (** the bootstrap branches outside H, as (|L Δ S| within a..f, contains H) *)
  Definition ks (L : list string) : list (nat * bool) :=
    [(symdiff Sm L ["c"; "e"], true); (symdiff Sm L [], true);
     (symdiff Sm L ["c"; "e"], false); (symdiff Sm L ["c"], false); (symdiff Sm L ["e"], false);
     (symdiff Sm L ["a"; "f"], false); (symdiff Sm L ["a"], false); (symdiff Sm L ["f"], false);
     (symdiff Sm L ["b"; "d"], false); (symdiff Sm L ["b"], false); (symdiff Sm L ["d"], false)].

  Lemma tdist_big : forall L S, incl L Sm -> incl S Sm -> tdist X L (HL ++ S) = td (symdiff Sm L S) true.
  Proof.
    intros L S IL IS. apply tdist_fam; [exact IL| |].
    - intros x Hx. rewrite mem_app, (small_not_HL x Hx). reflexivity.
    - intros x Hx. rewrite mem_app. assert (mem x HL = true) as -> by (apply mem_In; exact Hx). reflexivity.
  Qed.

  Lemma tdist_HL : forall L, incl L Sm -> tdist X L HL = td (symdiff Sm L []) true.
  Proof.
    intros L IL. apply tdist_fam; [exact IL| |].
    - intros x Hx. rewrite (small_not_HL x Hx). reflexivity.
    - intros x Hx. apply mem_In. exact Hx.
  Qed.

  Lemma tdist_sm : forall L S, incl L Sm -> incl S Sm -> tdist X L S = td (symdiff Sm L S) false.
  Proof.
    intros L S IL IS. apply tdist_fam; [exact IL|reflexivity|].
    intros x Hx. apply (HL_not_small x S IS Hx).
  Qed.

  Lemma lmin_fixed_inner : forall fixed inner n0 v,
      Exists (fun d => d = v) fixed -> Forall (fun d => v <= d) fixed -> Forall (fun d => v <= d) inner ->
      v <= n0 -> lmin n0 (fixed ++ inner) = v.
  Proof.
    intros fixed inner n0 v E F1 F2 Hn. apply lmin_eq; [| |exact Hn].
    - apply Exists_exists in E. destruct E as [d [Hd ->]]. apply in_or_app. left. exact Hd.
    - apply Forall_app. split; assumption.
  Qed.

  Ltac small_incl := unfold incl, Sm; simpl; intuition.

  Lemma delta_fam : forall L v,
      incl L Sm ->
      Exists (fun kh => td (fst kh) (snd kh) = v) (ks L) ->
      Forall (fun kh => v <= td (fst kh) (snd kh)) (ks L) ->
      v <= Nat.min (cnt (fun x => mem x L) Sm + 1) (6 - cnt (fun x => mem x L) Sm) ->
      delta X L (fam_boot_of H) = v.
  Proof.
    intros L v IL E F B. unfold delta. rewrite clades_boot, X_len.
    fold (lmin (6 + m) (map (tdist X L)
            ((HL ++ ["c"; "e"]) :: HL :: (clades H ++ [["c"; "e"]; ["c"]; ["e"]]) ++
             [["a"; "f"]; ["a"]; ["f"]; ["b"; "d"]; ["b"]; ["d"]])%list)).
    set (fixed := map (fun kh => td (fst kh) (snd kh)) (ks L)).
    set (inner := map (tdist X L) (clades H)).
    assert (P : Permutation
                  (map (tdist X L)
                       ((HL ++ ["c"; "e"]) :: HL :: (clades H ++ [["c"; "e"]; ["c"]; ["e"]]) ++
                        [["a"; "f"]; ["a"]; ["f"]; ["b"; "d"]; ["b"]; ["d"]])%list)
                  (fixed ++ inner)).
    { cbn [map]. rewrite !map_app. cbn [map]. fold inner.
      rewrite (tdist_big L ["c"; "e"] IL) by small_incl. rewrite (tdist_HL L IL).
      rewrite !(tdist_sm L _ IL) by small_incl.
      unfold fixed, ks. cbn [map fst snd app].
      do 2 apply perm_skip. rewrite <- app_assoc. apply Permutation_app_comm. }
    rewrite (lmin_perm _ _ _ P). apply lmin_fixed_inner.
    - unfold fixed. apply Exists_exists in E. destruct E as [kh [Hk Ek]]. apply Exists_exists.
      exists (td (fst kh) (snd kh)). split; [apply in_map_iff; exists kh; auto|exact Ek].
    - unfold fixed. apply Forall_forall. intros d Hd. apply in_map_iff in Hd. destruct Hd as [kh [<- Hk]].
      rewrite Forall_forall in F. exact (F kh Hk).
    - unfold inner. apply Forall_forall. intros d Hd. apply in_map_iff in Hd. destruct Hd as [Bc [<- HB]].
      pose proof (tdist_inner L Bc IL HB). lia.
    - apply Exists_exists in E. destruct E as [kh [_ <-]]. unfold td. lia.
  Qed.

  Ltac compute_ks :=
    match goal with
    | |- context [ks ?L] => let k := eval vm_compute in (ks L) in change (ks L) with k
    end.

  Ltac fam_delta :=
    apply delta_fam;
    [ small_incl
    | compute_ks; repeat (first [ apply Exists_cons_hd; unfold td; cbn [fst snd]; lia | apply Exists_cons_tl ])
    | compute_ks; repeat (apply Forall_cons; [unfold td; cbn [fst snd]; lia|]); apply Forall_nil
    | match goal with
      | |- context [cnt ?f Sm] => let k := eval vm_compute in (cnt f Sm) in change (cnt f Sm) with k
      end; lia ].

  Ltac fam_branch A :=
    rewrite (light_small A) by small_incl;
    let L := eval vm_compute in (filter (fun x => mem x A) Sm) in
    change (filter (fun x => mem x A) Sm) with L;
    apply f_equal2; [reflexivity|fam_delta].

  Local Notation boot := (fam_boot_of H).
  Local Notation pd A := (length (light X A), delta X (light X A) boot).

  Lemma fam_b0 : pd ["a"; "b"; "c"; "d"] = (4, 2). Proof. fam_branch ["a"; "b"; "c"; "d"]. Qed.
  Lemma fam_b1 : pd ["a"; "b"] = (2, 1). Proof. fam_branch ["a"; "b"]. Qed.
  Lemma fam_b2 : pd ["a"] = (1, 0). Proof. fam_branch ["a"]. Qed.
  Lemma fam_b3 : pd ["b"] = (1, 0). Proof. fam_branch ["b"]. Qed.
  Lemma fam_b4 : pd ["c"; "d"] = (2, 1). Proof. fam_branch ["c"; "d"]. Qed.
  Lemma fam_b5 : pd ["c"] = (1, 0). Proof. fam_branch ["c"]. Qed.
  Lemma fam_b6 : pd ["d"] = (1, 0). Proof. fam_branch ["d"]. Qed.
  Lemma fam_b7 : pd ["e"; "f"] = (2, 1). Proof. fam_branch ["e"; "f"]. Qed.
  Lemma fam_b8 : pd ["e"] = (1, 0). Proof. fam_branch ["e"]. Qed.
  Lemma fam_b9 : pd ["f"] = (1, 0). Proof. fam_branch ["f"]. Qed.
  Lemma fam_b10 : pd HL = (6, 0).
  Proof. rewrite light_H. apply f_equal2; [reflexivity|]. fam_delta. Qed.

  (** ** the definition *)
  Definition fam_expected : list (nat * nat) :=
    [(4, 2); (2, 1); (1, 0); (1, 0); (2, 1); (1, 0); (1, 0); (2, 1); (1, 0); (1, 0); (6, 0)].

  Theorem family_spec :
    map (fun ec => (length (light X (leaves (snd ec))), delta X (light X (leaves (snd ec))) boot))
        (firstn 11 (edges (fam_ref_of H)))
    = fam_expected.
  Proof.
    change (firstn 11 (edges (fam_ref_of H)))
      with [(e0, fnode [fnode [ftip "a"; ftip "b"]; fnode [ftip "c"; ftip "d"]]);
            (e0, fnode [ftip "a"; ftip "b"]); (e0, ftip "a"); (e0, ftip "b");
            (e0, fnode [ftip "c"; ftip "d"]); (e0, ftip "c"); (e0, ftip "d");
            (e0, fnode [ftip "e"; ftip "f"]); (e0, ftip "e"); (e0, ftip "f"); (e0, H)].
    cbn [map snd].
    change (leaves (fnode [fnode [ftip "a"; ftip "b"]; fnode [ftip "c"; ftip "d"]])) with ["a"; "b"; "c"; "d"].
    change (leaves (fnode [ftip "a"; ftip "b"])) with ["a"; "b"].
    change (leaves (fnode [ftip "c"; ftip "d"])) with ["c"; "d"].
    change (leaves (fnode [ftip "e"; ftip "f"])) with ["e"; "f"].
    change (leaves (ftip "a")) with ["a"]. change (leaves (ftip "b")) with ["b"].
    change (leaves (ftip "c")) with ["c"]. change (leaves (ftip "d")) with ["d"].
    change (leaves (ftip "e")) with ["e"]. change (leaves (ftip "f")) with ["f"].
    rewrite fam_b0, fam_b1, fam_b2, fam_b3, fam_b4, fam_b5, fam_b6, fam_b7, fam_b8, fam_b9, fam_b10.
    reflexivity.
  Qed.

  (** ** the model *)
  Local Notation ref := (fam_ref_of H).

  Lemma firstn_in : forall A n (l : list A) x, In x (firstn n l) -> In x l.
  Proof. intros A n l x Hx. rewrite <- (firstn_skipn n l). apply in_or_app. left. exact Hx. Qed.

  Lemma fam_branch_facts : forall e c,
      In (e, c) (firstn 11 (edges ref)) ->
      topo_depth ref c = length (light X (leaves c)) /\
      min_transfer_dist (length (tips ref)) (topo_depth ref c) (ntax_right c) (below c) false boot
      = delta X (light X (leaves c)) boot.
  Proof.
    intros e c Hin. apply firstn_in in Hin.
    destruct (model_args ref e c good_ref Hin) as [_ [_ [_ E4]]].
    pose proof (light_length (leaves ref) (leaves c) (X_nodup ref good_ref) (A_nodup ref e c good_ref Hin)
                             (A_incl ref e c good_ref Hin)) as LL.
    pose proof (min_transfer_dist_delta_good ref boot e c good_ref good_boot same_taxa_fam Hin) as MD.
    rewrite leaves_ref in *. split; [rewrite E4, LL; reflexivity|exact MD].
  Qed.

  Theorem family_model :
    map (fun ec => (topo_depth ref (snd ec),
                    min_transfer_dist (length (tips ref)) (topo_depth ref (snd ec)) (ntax_right (snd ec))
                                      (below (snd ec)) false boot))
        (firstn 11 (edges ref))
    = fam_expected.
  Proof.
    rewrite <- family_spec. apply map_ext_in. intros [e c] Hin. cbn [snd].
    destruct (fam_branch_facts e c Hin) as [E1 E2]. rewrite E1 at 1. rewrite E2. reflexivity.
  Qed.

  (** the variant with the early stop, for the branches where TBE runs it (p >= 2, split absent) *)
  Theorem family_model_absent : forall i e c p v,
      nth_error (firstn 11 (edges ref)) i = Some (e, c) -> nth_error fam_expected i = Some (p, v) ->
      2 <= p -> 1 <= v ->
      topo_depth ref c = p /\
      min_transfer_dist (length (tips ref)) (topo_depth ref c) (ntax_right c) (below c) true boot = v.
  Proof.
    intros i e c p v Hn He Hp Hv.
    pose proof (map_nth_error (fun ec => (length (light X (leaves (snd ec))), delta X (light X (leaves (snd ec))) boot))
                              i (firstn 11 (edges ref)) Hn) as M.
    rewrite family_spec, He in M. cbn [snd] in M. injection M as M1 M2.
    assert (Hin : In (e, c) (firstn 11 (edges ref))) by (eapply nth_error_In; exact Hn).
    destruct (fam_branch_facts e c Hin) as [E1 _].
    change ("a" :: "b" :: "c" :: "d" :: "e" :: "f" :: HL) with X in M1, M2.
    assert (Ep : topo_depth ref c = p) by (rewrite E1; symmetry; exact M1).
    split; [exact Ep|].
    apply firstn_in in Hin.
    pose proof (min_transfer_dist_absent_delta ref boot e c good_ref good_boot same_taxa_fam Hin) as MA.
    rewrite leaves_ref in MA. rewrite MA; [symmetry; exact M2| |].
    - rewrite Ep. exact Hp.
    - rewrite <- M2. exact Hv.
  Qed.
End Family.

(** non-vacuity: the member the judge evaluates satisfies the hypotheses *)
Lemma fam_H_ok :
  wf_sub fam_H = true /\ NoDup (leaves fam_H) /\ (forall x, In x (leaves fam_H) -> ~ In x Sm) /\
  8 <= length (leaves fam_H).
Proof.
  split; [reflexivity|]. split; [simpl; repeat constructor; simpl; intuition discriminate|].
  split; [|simpl; lia].
  intros x Hx HS. simpl in Hx. unfold Sm in HS. simpl in HS.
  repeat (destruct Hx as [<-|Hx]; [intuition discriminate|]). exact Hx.
Qed.
