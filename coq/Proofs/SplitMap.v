(** The split index is a plain map keyed by bipartitions: canonical keys ([split_key]) are equal
    exactly for the same bipartition, and every history of the index over branches of good trees
    on the same taxa returns what the plain map keyed by those keys ([Spec.SplitMap.sp_run], the
    judge's oracle) returns, for every initial capacity and resize policy. *)
From Coq Require Import String NArith ZArith QArith Bool Arith Lia List Permutation Sorted.
From GT Require Import Base.UTree Spec.Obs Spec.SplitMap Model.Reroot Model.Index Model.HashMap Model.EdgeIndex
     Proofs.IndexBase Proofs.IndexTree Proofs.IndexSplit Proofs.HashMap Proofs.EdgeIndex.
From GT Require Proofs.OracleSets Proofs.IndexEdit.
Import ListNotations.
Local Close Scope Q_scope.

(** * canonical keys *)
Lemma sset_eqb_eq : forall a b : list string, sset_eqb a b = true <-> a = b.
Proof. intros. unfold sset_eqb. apply OracleSets.list_eqb_eq. Qed.

Theorem split_key_iff : forall all a b,
    incl a all -> incl b all ->
    (split_key (sset all) a = split_key (sset all) b <-> same_split all a b).
Proof.
  intros all a b Ia Ib. unfold split_key, canon_side.
  pose proof (OracleSets.sset_canon all) as CR. pose proof (OracleSets.sset_canon a) as CA. pose proof (OracleSets.sset_canon b) as CB.
  assert (Ext : forall X Y, OracleSets.canon X -> OracleSets.canon Y -> (X = Y <-> forall x, In x X <-> In x Y)).
  { intros X Y HX HY. split; [intros ->; tauto | now apply OracleSets.canon_ext]. }
  assert (InR : forall x, In x (sset all) <-> In x all) by (intros; apply OracleSets.sset_In).
  unfold same_split, same_side, other_side.
  destruct (sset all) as [|m r] eqn:ER; cbv iota.
  - (* no taxa *)
    assert (E : forall x, ~ In x all) by (intros x Hx; apply InR in Hx; contradiction).
    rewrite Ext by auto. split.
    + intros _. left. intros x Hx. exfalso. eapply E; eauto.
    + intros _ x. rewrite !OracleSets.sset_In. split; intros H; exfalso; eapply E; eauto.
  - assert (CD : forall X, OracleSets.canon (sdiff (m :: r) X)).
    { intros X. unfold sdiff. now apply OracleSets.filter_canon. }
    assert (Hm : In m all) by (apply InR; now left).
    assert (Mt : forall X, smem m (sset X) = true -> In m X).
    { intros X H. apply (proj1 (OracleSets.smem_In _ _)) in H. exact (proj1 (OracleSets.sset_In _ _) H). }
    assert (Mf : forall X, smem m (sset X) = false -> ~ In m X).
    { intros X H Hin. apply (proj2 (OracleSets.sset_In X m)) in Hin. apply (proj2 (OracleSets.smem_In _ _)) in Hin. congruence. }
    destruct (smem m (sset a)) eqn:Ea; [apply Mt in Ea | apply Mf in Ea];
      (destruct (smem m (sset b)) eqn:Eb; [apply Mt in Eb | apply Mf in Eb]);
      rewrite Ext by auto; split.
    + intros H. left. intros x Hx. specialize (H x). rewrite !OracleSets.sdiff_In, !OracleSets.sset_In, InR in H.
      destruct (in_dec string_dec x a), (in_dec string_dec x b); tauto.
    + intros [S|S] x; rewrite !OracleSets.sdiff_In, !OracleSets.sset_In, InR.
      * split; intros [Hx H]; split; auto; intro; apply H; apply (S x); auto.
      * exfalso. apply (proj1 (S m Hm)); auto.
    + intros H. right. intros x Hx. specialize (H x). rewrite OracleSets.sdiff_In, !OracleSets.sset_In, InR in H.
      destruct (in_dec string_dec x a), (in_dec string_dec x b); tauto.
    + intros [S|S] x; rewrite OracleSets.sdiff_In, !OracleSets.sset_In, InR.
      * exfalso. apply Eb. apply (S m); auto.
      * split; [intros [Hx H] | intros H; split; [apply Ib; auto|]].
        -- destruct (in_dec string_dec x b); auto. exfalso. apply H. apply (S x); auto.
        -- intro Ha. apply (proj1 (S x (Ib x H))); auto.
    + intros H. right. intros x Hx. specialize (H x). rewrite OracleSets.sdiff_In, !OracleSets.sset_In, InR in H.
      destruct (in_dec string_dec x a), (in_dec string_dec x b); tauto.
    + intros [S|S] x; rewrite OracleSets.sdiff_In, !OracleSets.sset_In, InR.
      * exfalso. apply Ea. apply (S m); auto.
      * split; [intros H; split; [apply Ia; auto|] | intros [Hx H]].
        -- intro Hb. apply (proj1 (S x (Ia x H))); auto.
        -- destruct (in_dec string_dec x a); auto. exfalso. apply H.
           destruct (in_dec string_dec x b); auto. exfalso. apply n. apply (S x); auto.
    + intros H. left. intros x Hx. specialize (H x). rewrite !OracleSets.sset_In in H. exact H.
    + intros [S|S] x; rewrite !OracleSets.sset_In.
      * split; intros H; [apply (S x) | apply (S x)]; auto.
      * exfalso. apply Ea. apply (S m); auto.
Qed.

(** * the index against the plain map keyed by [split_key] *)
Section Bridge.
  Variable L : list string.                (* the taxa *)
  Variable need : nat -> N -> bool.

  (** the key object [k] is a branch whose canonical key is [s] *)
  Definition sided (k : ekey) (s : skey) : Prop :=
    exists t ec, good t /\ Permutation L (leaves t) /\ branch_row t ec (ek_row k) /\
                 s = split_key (tipset t) (leaves (snd ec)).

  Lemma sided_ok : forall k s, sided k s -> ok_key L k.
  Proof. intros k s (t & ec & G & P & B & _). exists t, ec. auto. Qed.

  Lemma sided_eqb : forall k1 s1 k2 s2, sided k1 s1 -> sided k2 s2 -> sset_eqb s1 s2 = ekey_eqb k1 k2.
  Proof.
    intros k1 s1 k2 s2 (t1 & ec1 & G1 & P1 & B1 & ->) (t2 & ec2 & G2 & P2 & B2 & ->).
    apply eq_iff_eq_true. rewrite sset_eqb_eq.
    rewrite (ekey_eqb_same_split L t1 ec1 t2 ec2 k1 k2 G1 G2 P1 P2 B1 B2).
    unfold tipset. rewrite <- (OracleSets.sset_perm _ _ P1), <- (OracleSets.sset_perm _ _ P2).
    destruct (branch_row_describes _ _ _ G1 B1) as [_ In1].
    destruct (branch_row_describes _ _ _ G2 B2) as [_ In2].
    assert (I1 : incl (leaves (snd ec1)) L).
    { intros x Hx. eapply Permutation_in; [apply Permutation_sym, P1|]. exact (edges_below_leaves t1 ec1 In1 x Hx). }
    assert (I2 : incl (leaves (snd ec2)) L).
    { intros x Hx. eapply Permutation_in; [apply Permutation_sym, P2|]. exact (edges_below_leaves t2 ec2 In2 x Hx). }
    rewrite (split_key_iff L _ _ I1 I2).
    unfold same_split, same_side, other_side.
    assert (E : forall x, In x L <-> In x (leaves t1)).
    { intros x. split; intros Hx; [exact (Permutation_in x P1 Hx) | exact (Permutation_in x (Permutation_sym P1) Hx)]. }
    split; (intros [S|S]; [left|right]; intros x Hx; apply (S x); apply E; auto).
  Qed.

  Definition rel (a : list (ekey * einfo_v)) (sm : list (skey * sinfo)) : Prop :=
    Forall2 (fun kv sv => sided (fst kv) (fst sv) /\ snd kv = snd sv) a sm.

  Lemma rel_get : forall a sm e s, rel a sm -> sided e s -> ea_value a e = sp_get sm s.
  Proof.
    intros a sm e s R S. unfold ea_value, assoc_value, bucket_find.
    induction R as [|[k v] [s' v'] a sm [Sk Ev] R IH]; [reflexivity|].
    simpl in *. subst v'. rewrite (sided_eqb e s k s' S Sk). destruct (ekey_eqb e k); auto.
  Qed.

  Lemma rel_set : forall a sm e s v, rel a sm -> sided e s -> rel (ea_put a e v) (sp_set sm s v).
  Proof.
    intros a sm e s v R S. unfold ea_put, assoc_put.
    assert (G : match bucket_set ekey einfo_v ekey_eqb e v a with
                | Some a' => rel a' (sp_set sm s v)
                | None => sp_set sm s v = sm ++ [(s, v)]
                end).
    { induction R as [|[k w] [s' w'] a sm [Sk Ev] R IH]; [reflexivity|].
      simpl in *. subst w'. rewrite (sided_eqb e s k s' S Sk). destruct (ekey_eqb e k).
      - constructor; auto.
      - destruct (bucket_set ekey einfo_v ekey_eqb e v a).
        + constructor; auto.
        + now rewrite IH. }
    destruct (bucket_set ekey einfo_v ekey_eqb e v a); auto.
    rewrite G. apply Forall2_app; [exact R|]. repeat constructor; auto.
  Qed.

  Lemma rel_add : forall a sm e s, rel a sm -> sided e s -> rel (ea_add a e) (sp_add sm s (ek_len e)).
  Proof.
    intros a sm e s R S. unfold ea_add, sp_add. rewrite (rel_get a sm e s R S).
    destruct (sp_get sm s) as [[c l]|]; now apply rel_set.
  Qed.

  (** operations on key objects against operations on canonical keys *)
  Inductive oprel : eiop -> sop -> Prop :=
  | or_put e s c l : sided e s -> oprel (EIPut e c l) (SPut s (c, l))
  | or_add e s : sided e s -> oprel (EIAdd e) (SAdd s (ek_len e))
  | or_val e s : sided e s -> oprel (EIValue e) (SValue s).

  Definition to_sres (r : eires) : sres := match r with EIOk => SOk | EIVal x => SVal x end.

  Lemma run_rel : forall ops sops a sm,
      Forall2 oprel ops sops -> rel a sm ->
      map to_sres (fst (ei_run_assoc a ops)) = fst (sp_run sm sops) /\
      rel (snd (ei_run_assoc a ops)) (snd (sp_run sm sops)).
  Proof.
    intros ops sops a sm F. revert a sm. induction F as [|o so ops sops O F IH]; intros a sm R; [simpl; auto|].
    destruct O as [e s c l S|e s S|e s S]; simpl.
    - destruct (IH _ _ (rel_set a sm e s (c, l) R S)) as [E1 E2].
      destruct (ei_run_assoc (ea_put a e (c, l)) ops), (sp_run (sp_set sm s (c, l)) sops). simpl in *.
      split; [now rewrite E1 | exact E2].
    - destruct (IH _ _ (rel_add a sm e s R S)) as [E1 E2].
      destruct (ei_run_assoc (ea_add a e) ops), (sp_run (sp_add sm s (ek_len e)) sops). simpl in *.
      split; [now rewrite E1 | exact E2].
    - destruct (IH _ _ R) as [E1 E2].
      destruct (ei_run_assoc a ops), (sp_run sm sops). simpl in *.
      split; [now rewrite E1, (rel_get a sm e s R S) | exact E2].
  Qed.

  Lemma oprel_ok : forall ops sops, Forall2 oprel ops sops -> eiops_ok L ops.
  Proof.
    induction 1; constructor; auto. destruct H; simpl; eapply sided_ok; eauto.
  Qed.

  (** the split index IS the plain map keyed by bipartitions: every returned value is the one
      of the plain map, and the final content is the plain map's, entry by entry (up to the
      order of the buckets), each stored key object being a branch with that canonical key *)
  Theorem edgeindex_is_split_map : forall cap ops sops rs mf,
      (cap < W64)%N -> Forall2 oprel ops sops ->
      ei_run need (new_edge_index cap) ops = Some (rs, mf) ->
      map to_sres rs = fst (sp_run [] sops) /\
      exists a, Permutation (key_values ekey einfo_v mf) a /\ rel a (snd (sp_run [] sops)).
  Proof.
    intros cap ops sops rs mf Hc F H.
    destruct (edgeindex_refines_gen L need cap ops rs mf Hc (oprel_ok _ _ F) H) as (E & P & _).
    destruct (run_rel ops sops [] [] F (Forall2_nil _)) as [R1 R2].
    split; [now rewrite E|]. eauto.
  Qed.

  (** lookups find exactly the stored bipartition: on any state reached by a history, Value(e)
      returns v iff a stored key object with the same bipartition as e holds v *)
  Theorem edgeindex_value_exact : forall cap ops rs mf e,
      (cap < W64)%N -> eiops_ok L ops -> ok_key L e ->
      ei_run need (new_edge_index cap) ops = Some (rs, mf) ->
      exists r, ei_value mf e = Some r /\
                (forall v, r = Some v <-> exists k, In (k, v) (key_values ekey einfo_v mf) /\ ekey_eqb e k = true).
  Proof.
    intros cap ops rs mf e Hc HO Oe H.
    destruct (ei_run_refines L need ops _ _ _ _ HO (inv_new ekey einfo_v ekey_hash ekey_eqb (ok_key L) cap Hc) H) as [_ I].
    set (a := snd (ei_run_assoc [] ops)) in *.
    rewrite (ei_value_ref L mf a e Oe I). eexists. split; [reflexivity|].
    pose proof (inv_perm _ _ _ _ _ _ _ I) as P. pose proof (inv_dist _ _ _ _ _ _ _ I) as D. pose proof (inv_ok _ _ _ _ _ _ _ I) as O.
    intros v. unfold ea_value, assoc_value. split.
    - destruct (bucket_find ekey einfo_v ekey_eqb e a) as [[k w]|] eqn:F; [|discriminate].
      intros Ev. inversion Ev; subst. apply find_some_in in F. destruct F as [Hin He].
      exists k. split; auto. eapply Permutation_in; [apply Permutation_sym, P|]. exact Hin.
    - intros (k & Hin & He). apply (Permutation_in _ P) in Hin.
      rewrite (find_in_distinct ekey einfo_v ekey_eqb (ok_key L) (ekey_sym L) (ekey_trans L) a e (k, v)); auto.
  Qed.
End Bridge.

(** the judge's oracle for pairs of branches (equality of [split_sides] entries) is "same
    bipartition" *)
Theorem split_key_same_split : forall t1 t2 ec1 ec2,
    good t1 -> good t2 -> Permutation (leaves t1) (leaves t2) ->
    In ec1 (edges t1) -> In ec2 (edges t2) ->
    (sset_eqb (split_key (tipset t1) (leaves (snd ec1))) (split_key (tipset t2) (leaves (snd ec2))) = true <->
     same_split (leaves t1) (leaves (snd ec1)) (leaves (snd ec2))).
Proof.
  intros t1 t2 ec1 ec2 G1 G2 P In1 In2. rewrite sset_eqb_eq. unfold tipset.
  rewrite <- (OracleSets.sset_perm _ _ P).
  apply split_key_iff.
  - now apply edges_below_leaves.
  - intros x Hx. eapply Permutation_in; [apply Permutation_sym, P|]. exact (edges_below_leaves t2 ec2 In2 x Hx).
Qed.

(** * the tip index is a bijection between the tips and the ranks 0 .. n-1 of the sorted names *)
Theorem tip_index_bijection : forall t,
    wf t = true -> 2 <= degree t -> NoDup (leaves t) ->
    let ids := sorted_tip_names t in
    let tid := fun name => index_of name ids in
    tip_names t = leaves t /\ NoDup ids /\ length ids = length (tip_names t) /\
    ids = ssort (leaves t) /\
    (forall name, In name (tip_names t) -> tid name < length ids /\ nth_error ids (tid name) = Some name) /\
    (forall i, i < length ids -> exists name, In name (tip_names t) /\ tid name = i) /\
    (forall a b, In a (tip_names t) -> In b (tip_names t) -> tid a = tid b -> a = b).
Proof.
  intros t W D ND ids tid.
  destruct (root_NI t W D) as [_ TN].
  destruct (tables_spec t W D ND) as (P & _ & _). fold ids in P.
  assert (NDi : NoDup ids) by (eapply Permutation_NoDup; [apply Permutation_sym|]; eauto).
  assert (Hin : forall x, In x (tip_names t) <-> In x ids).
  { intros x. rewrite TN. split; intros Hx; [exact (Permutation_in x (Permutation_sym P) Hx) | exact (Permutation_in x P Hx)]. }
  split; [exact TN|]. split; [exact NDi|]. split; [rewrite TN; now apply Permutation_length|].
  split; [unfold ids; rewrite <- (IndexEdit.sorted_tip_names_ssort t W D); reflexivity|].
  split; [|split].
  - intros name Hn. apply Hin in Hn. split; [now apply index_of_lt | now apply index_of_nth].
  - intros i Hi. destruct (nth_error ids i) as [x|] eqn:E; [|apply nth_error_None in E; lia].
    exists x. split; [apply Hin; eapply nth_error_In; eauto | now apply nth_index_of].
  - intros a b Ha Hb E. apply Hin in Ha. apply Hin in Hb.
    pose proof (index_of_nth a ids Ha) as Na. pose proof (index_of_nth b ids Hb) as Nb.
    unfold tid in E. rewrite E in Na. congruence.
Qed.
