(** Exact characterisations of the two open findings of C13 in the models, and non-vacuity
    examples for the list theorem of the multi-Newick reader. *)
From Coq Require Import String Ascii ZArith QArith Bool Arith Lia List.
From GT Require Import Base.Sexp Base.UTree Spec.Obs Spec.NewickSpec Model.Newick Model.NewickNum Model.MultiTree Model.Nexus
     Proofs.NewickCanon Proofs.NewickTheorem Proofs.NewickNumC Proofs.MultiTree Proofs.MultiTreeSpec Proofs.NewickFirst Proofs.MultiTreeList
     Proofs.NexusLex Proofs.NexusWords Proofs.NexusRoundTrip Proofs.NexusRoundTripMain Proofs.NexusRoundExamples.
Import ListNotations.
Local Close Scope Q_scope.
Local Open Scope string_scope.

Section TwoOnALine.
  Variable fmt : Q -> string.
  Variable numeric : string -> bool.
  Variable parse_num : string -> option Q.
  Variable numok : Q -> bool.
  Hypothesis SC : strconv_ok fmt numeric parse_num numok.

  (** two trees on one physical line, then a third: for ALL trees inside C01's quantifier the
      second one is dropped, the ids stay consecutive and no error is reported (open finding
      C13-newick-two-trees-one-line) *)
  Theorem two_trees_on_one_line : forall t1 t2 t3 bl,
      wfN numeric numok t1 = true -> wfN numeric numok t3 = true -> all_blank bl = true ->
      read_multi (np_nw numeric parse_num)
                 (whole_lines [write fmt t1 ++ write fmt t2 ++ bl; write fmt t3]) =
      MDone [ITree 0 (canon_root fmt parse_num t1); ITree 1 (canon_root fmt parse_num t3)].
  Proof.
    intros t1 t2 t3 bl W1 W3 Hb. rewrite read_multi_lines. cbn [split_lines append].
    assert (E1 : ends_semi (write fmt t1 ++ write fmt t2 ++ bl) = true).
    { destruct (write_ends_semi fmt t2) as [b Hb2]. rewrite Hb2.
      replace (write fmt t1 ++ (b ++ ";") ++ bl) with ((write fmt t1 ++ b) ++ String ";" bl)
        by (rewrite !app_assoc_m; reflexivity).
      apply ends_semi_true. exact Hb. }
    rewrite E1. cbn [split_lines append].
    assert (E3 : ends_semi (write fmt t3) = true).
    { destruct (write_ends_semi fmt t3) as [b Hb3]. rewrite Hb3. apply (ends_semi_true b ""). reflexivity. }
    rewrite E3. cbn [deliver]. unfold np_nw at 1.
    rewrite (parse_write_k fmt numeric parse_num numok SC t1 _ W1).
    unfold np_nw at 1. rewrite (parse_write fmt numeric parse_num numok SC t3 W3). reflexivity.
  Qed.
End TwoOnALine.

Section TaxaUnion.
  Variable wnewick : utree -> string.
  Variable nparse : string -> utree + string.

  (** a list whose first tree lacks one of the declared taxa (the TAXLABELS are the union over
      the list): the parser rejects the writer's output (open finding C13-nexus-taxa-union) *)
  Theorem nexus_taxa_union_rejected : forall (l : list (nat * utree)) id t0 r u,
      l = (id, t0) :: r ->
      (Z.of_nat (length (final_map l [])) < two63)%Z ->
      Forall label_ok (labels_of l) ->
      Forall (fun it => newick_ok (wnewick (snd it)) = true) l ->
      nparse (wnewick t0) = inl u ->
      forallb (fun n => mem n (labels_of l)) (tip_names u) = true ->
      length (tips u) <> length (labels_of l) ->
      nexus_parse nparse (write_nexus wnewick false l) =
      PErr "Some tax names defined in TAXLABELS are not present in the tree".
  Proof.
    intros l id t0 r u El Hn HL HN Hp Hm Hlen. subst l. set (l := (id, t0) :: r) in *.
    unfold nexus_parse. rewrite (write_nexus_doc_text wnewick l HN). fold (labels_of l).
    rewrite parse_doc_text; [|exact Hn|exact HL|apply labels_nodup| |unfold nexus_fuel; lia].
    2:{ unfold entries_of. apply Forall_forall. intros e He. apply in_map_iff in He.
        destruct He as [it [He Hi]]. subst e. rewrite Forall_forall in HN.
        exact (proj1 (newick_ok_entry (fst it) _ (HN it Hi))). }
    unfold finish, doc_state.
    cbn [ns_taxantax ns_taxlabels ns_trees ns_table ns_data ns_missing ns_gap ns_tabs].
    rewrite <- labels_length. unfold zlength.
    replace (Z.of_nat (length (labels_of l)) =? -1)%Z with false by (symmetry; apply Z.eqb_neq; lia).
    rewrite Z.eqb_refl. cbn [negb andb orb Ascii.eqb Bool.eqb].
    unfold entries_of. subst l. cbn [map fst snd build_trees].
    assert (A : newick_ok (wnewick t0) = true).
    { rewrite Forall_forall in HN. apply (HN (id, t0)). left. reflexivity. }
    destruct (newick_ok_entry id _ A) as [_ Hb]. rewrite <- Hb, Hp.
    cbn [ns_table ns_taxlabels]. rewrite Hm. cbn [negb].
    apply Nat.eqb_neq in Hlen. rewrite Hlen. reflexivity.
  Qed.
End TaxaUnion.

(** * non-vacuity: the executable model on concrete files *)
Definition npC (s : string) : utree + string := np_nw numericC parse_numC s.

(** two trees, trailing blank, CRLF and LF, read through a 5-byte buffer (many pieces per line) *)
Example chunked_crlf_file :
  read_multi npC (phys_reads 64 5 (wC t_abc ++ " " ++ String "013" (String "010" "") ++ wC t_cab ++ String "010" "")) =
  MDone [ITree 0 (canon_root fmt_go parse_numC t_abc); ITree 1 (canon_root fmt_go parse_numC t_cab)].
Proof. vm_compute. reflexivity. Qed.

(** the hypotheses of the byte-level list theorem hold for that file with the default buffer *)
Example list_hypotheses :
  Forall (fun q => line_ok numericC numokC (fst q) /\
                   short_line (64 * 64) (MultiTreeList.tree_line fmt_go (fst q), snd q))
         [((t_abc, " "), true); ((t_cab, ""), false)].
Proof.
  repeat (apply Forall_cons || apply Forall_nil);
    (split; [split; vm_compute; reflexivity|split; [vm_compute; reflexivity|split; [vm_compute; reflexivity|]]]);
    apply Nat.ltb_lt; vm_compute; reflexivity.
Qed.
