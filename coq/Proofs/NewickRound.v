(** C01: parsing the text the writer produced for a tree inside the quantifier yields the
    canonical form of that tree ([canon_root]): generalised induction over the tree with an
    arbitrary parser stack and continuation. *)
From Coq Require Import String Ascii ZArith QArith Bool Arith Lia List.
From GT Require Import Base.UTree Model.Newick Spec.NewickSpec
     Proofs.NewickLex Proofs.NewickFuel Proofs.NewickStep Proofs.NewickCanon Proofs.NewickTrim.
Import ListNotations.
Local Close Scope Q_scope.
Local Open Scope string_scope.

Definition stops (s : string) : Prop := stops_at (is_ident false) s = true.

Lemma name_char_facts : forall c, name_char c = true -> is_ident false c = true /\ is_nul c = false.
Proof.
  intros c H. unfold name_char in H. apply andb_true_iff in H. destruct H as [H Hz].
  apply negb_true_iff in Hz. split; [|exact Hz]. unfold is_ident. simpl. exact H.
Qed.

Lemma name_lexable : forall n,
    n <> "" -> forall_chars name_char n = true -> no_blank_around n = true -> lexable n.
Proof.
  intros n Hne Hc Hb. split; [assumption|]. split; [|split].
  - destruct n as [|c r]; [exact I|]. eapply no_blank_first; eassumption.
  - eapply forall_chars_impl; [|exact Hc]. intros c H. apply name_char_facts in H. tauto.
  - unfold no_nul. eapply forall_chars_impl; [|exact Hc]. intros c H. apply name_char_facts in H.
    destruct H as [_ H]. rewrite H. reflexivity.
Qed.

Lemma stops_coms : forall cs rest, stops rest -> stops (write_coms cs ++ rest).
Proof. intros [|c cs] rest H; [exact H|reflexivity]. Qed.

Lemma split_slash_app : forall a b, no_slash a = true -> split_slash (a ++ String "/" b) = (a, Some b).
Proof.
  induction a; intros b H; simpl in *; [reflexivity|].
  apply andb_true_iff in H. destruct H as [H1 H2]. apply negb_true_iff in H1. rewrite H1.
  rewrite (IHa b H2). reflexivity.
Qed.

Lemma split_slash_none : forall b, no_slash b = true -> split_slash b = (b, None).
Proof.
  induction b; intros H; simpl in *; [reflexivity|].
  apply andb_true_iff in H. destruct H as [H1 H2]. apply negb_true_iff in H1. rewrite H1.
  rewrite (IHb H2). reflexivity.
Qed.

Lemma split2_app : forall a b, no_slash a = true -> no_slash b = true ->
    split2 (a ++ String "/" b) = Some (a, b).
Proof.
  intros a b Ha Hb. unfold split2. rewrite (split_slash_app a b Ha), (split_slash_none b Hb). reflexivity.
Qed.

Section Round.
  Variable fmt : Q -> string.
  Variable numeric : string -> bool.
  Variable parse_num : string -> option Q.
  Variable numok : Q -> bool.
  Hypothesis SC : strconv_ok fmt numeric parse_num numok.

  Notation step := (step numeric parse_num).
  Notation steps := (steps numeric parse_num).
  Notation write_node := (write_node fmt).
  Notation deco := (deco fmt).
  Notation joinF := (joinF fmt).
  Notation pvl := (pvl fmt parse_num).
  Notation cv := (cv fmt parse_num).
  Notation canon_e := (canon_e fmt parse_num).
  Notation canon_sub := (canon_sub fmt parse_num).
  Notation ckids := (ckids fmt parse_num).
  Notation canon_root := (canon_root fmt parse_num).

  (** * numbers as tokens *)
  Lemma num_char_facts : forall c, num_char c = true ->
      is_ident false c = true /\ is_ws c = false /\ Ascii.eqb c "/" = false /\ is_nul c = false.
  Proof.
    intros c H. unfold num_char in H.
    apply andb_true_iff in H. destruct H as [H _].
    apply andb_true_iff in H. destruct H as [H H4].
    apply andb_true_iff in H. destruct H as [H H3]. apply andb_true_iff in H. destruct H as [H1 H2].
    apply negb_true_iff in H2. apply negb_true_iff in H3. apply negb_true_iff in H4. auto.
  Qed.

  Lemma fmt_lexable : forall x, numok x = true -> lexable (fmt x).
  Proof.
    intros x H. pose proof (h_fmt_nonempty _ _ _ _ SC x H) as Hne.
    pose proof (h_fmt_chars _ _ _ _ SC x H) as Hc.
    split; [assumption|]. split; [|split].
    - destruct (fmt x) as [|c r]; [exact I|]. simpl in Hc. apply andb_true_iff in Hc.
      destruct Hc as [Hc _]. apply num_char_facts in Hc. tauto.
    - eapply forall_chars_impl; [|exact Hc]. intros c Hn. apply num_char_facts in Hn. tauto.
    - unfold no_nul. eapply forall_chars_impl; [|exact Hc]. intros c Hn. apply num_char_facts in Hn.
      destruct Hn as [_ [_ [_ Hn]]]. rewrite Hn. reflexivity.
  Qed.

  Lemma fmt_no_slash : forall x, numok x = true -> no_slash (fmt x) = true.
  Proof.
    intros x H. pose proof (h_fmt_chars _ _ _ _ SC x H) as Hc. unfold no_slash.
    eapply forall_chars_impl; [|exact Hc]. intros c Hn. apply num_char_facts in Hn.
    destruct Hn as [_ [_ [Hn _]]]. rewrite Hn. reflexivity.
  Qed.

  Lemma fmt_parse : forall x, numok x = true -> parse_num (fmt x) = Some (pvl x).
  Proof.
    intros x H. destruct (h_parse _ _ _ _ SC x H) as [y [Hy _]]. unfold NewickCanon.pvl. rewrite Hy. reflexivity.
  Qed.

  Lemma pair_lexable : forall x y, numok x = true -> numok y = true ->
      lexable (fmt x ++ String "/" (fmt y)).
  Proof.
    intros x y Hx Hy. destruct (fmt_lexable x Hx) as [Hne [Hws [Hall Hn1]]].
    destruct (fmt_lexable y Hy) as [_ [_ [Hall2 Hn2]]].
    split; [destruct (fmt x); [congruence|discriminate]|]. split; [|split].
    - destruct (fmt x); [congruence|exact Hws].
    - rewrite forall_chars_app, Hall. simpl. rewrite Hall2. reflexivity.
    - unfold no_nul in *. rewrite forall_chars_app, Hn1. simpl. rewrite Hn2. reflexivity.
  Qed.

  Lemma pair_not_numeric : forall x y, numeric (fmt x ++ String "/" (fmt y)) = false.
  Proof.
    intros. apply (h_slash _ _ _ _ SC). unfold no_slash. rewrite forall_chars_app. simpl.
    apply andb_false_r.
  Qed.

  (** * the end of a child's text: comments, length, branch comment *)
  Definition len_str (e : einfo) : string :=
    if present (elen e) then String ":" (fmt (elen e)) else "".

  Definition tail_str (c : list string) (e : einfo) (k : string) : string :=
    write_coms c ++ len_str e ++ write_coms (ecom e) ++ k.

  Definition sup_str (e : einfo) (n : string) : string :=
    if present (esup e) && String.eqb n ""
    then fmt (esup e) ++ (if present (epv e) then String "/" (fmt (epv e)) else "")
    else "".

  Lemma deco_tail : forall e ch k,
      deco e ch ++ k = sup_str e (uname ch) ++ tail_str (ucom ch) e k.
  Proof.
    intros. unfold Newick.deco, sup_str, tail_str, len_str.
    rewrite !app_assoc_s. reflexivity.
  Qed.

  Lemma stops_tail : forall c e k, stops k -> stops (tail_str c e k).
  Proof.
    intros c e k H. unfold tail_str. apply stops_coms. unfold len_str.
    destruct (present (elen e)); [reflexivity|]. simpl. apply stops_coms. exact H.
  Qed.

  Definition tail_frame (c : list string) (e : einfo) (s' p' : Q) (f : frame) : frame :=
    mkF (fname f) (fcom f ++ c) (fslots f) (Some (mkE (cv (elen e)) s' p' (ecom e))).

  Lemma tail_steps : forall c e k f fs dr L p pe s' p',
      fedge f = Some (mkE nilv s' p' []) ->
      L <> 0%Z -> nodeprev p ->
      forallb comment_ok c = true ->
      num_ok numok (elen e) = true ->
      forallb comment_ok (ecom e) = true ->
      match ecom e with [] => true | [_] => present (elen e) | _ => false end = true ->
      stops k ->
      exists q pe',
        steps (mkS (f :: fs) dr L p pe) (tail_str c e k)
              (mkS (tail_frame c e s' p' f :: fs) dr L q pe') k.
  Proof.
    intros c e k f fs dr L p pe s' p' He HL Hp Hc Hlen Hec Hone Hk.
    unfold tail_str.
    destruct (ncoms_steps numeric parse_num c (len_str e ++ write_coms (ecom e) ++ k) f fs dr L p pe Hc Hp)
      as [q1 [pe1 [Hq1 [_ Hs1]]]].
    assert (He1 : fedge (add_ncoms c f) = Some (mkE nilv s' p' [])) by exact He.
    unfold len_str in *. destruct (present (elen e)) eqn:Epres.
    - (* a length *)
      assert (Hok : numok (elen e) = true).
      { unfold num_ok in Hlen. rewrite Epres in Hlen. exact Hlen. }
      assert (Hstep : step (mkS (add_ncoms c f :: fs) dr L q1 pe1)
                           (String ":" (fmt (elen e) ++ write_coms (ecom e) ++ k)) =
                      Cont (mkS (map_edge (set_len (pvl (elen e))) (add_ncoms c f) :: fs) dr L (Some STARTLEN) false)
                           (write_coms (ecom e) ++ k)).
      { eapply step_len; try eassumption.
        - apply fmt_lexable; assumption.
        - apply stops_coms. exact Hk.
        - apply (h_numeric _ _ _ _ SC). assumption.
        - apply fmt_parse. assumption.
        - reflexivity. }
      assert (Hcv : cv (elen e) = pvl (elen e)) by (unfold NewickCanon.cv; rewrite Epres; reflexivity).
      destruct (ecom e) as [|c1 [|c2 r]] eqn:Eec; try discriminate.
      + exists (Some STARTLEN), false.
        eapply steps_trans; [exact Hs1|]. simpl write_coms. simpl.
        eapply steps_step; [exact Hstep|].
        replace (tail_frame c e s' p' f) with (map_edge (set_len (pvl (elen e))) (add_ncoms c f)).
        * apply steps_refl.
        * unfold tail_frame, map_edge, add_ncoms, set_len. simpl. rewrite He, Hcv, Eec. reflexivity.
      + exists (Some CLOSEBRACK), false.
        eapply steps_trans; [exact Hs1|].
        eapply steps_step; [exact Hstep|].
        simpl in Hec. apply andb_true_iff in Hec. destruct Hec as [Hc1 _].
        rewrite write_coms_cons. simpl write_coms. simpl append at 2.
        eapply steps_step.
        * eapply step_ecom; [exact Hc1|]. unfold map_edge. simpl. rewrite He. reflexivity.
        * replace (tail_frame c e s' p' f)
            with (map_edge (add_ecom c1) (map_edge (set_len (pvl (elen e))) (add_ncoms c f))).
          -- apply steps_refl.
          -- unfold tail_frame, map_edge, add_ncoms, set_len, add_ecom. simpl. rewrite He, Hcv, Eec. reflexivity.
    - (* no length: no branch comment *)
      destruct (ecom e) as [|c1 [|c2 r]] eqn:Eec; try discriminate.
      exists q1, pe1. simpl in Hs1.
      replace (tail_frame c e s' p' f) with (add_ncoms c f); [exact Hs1|].
      unfold tail_frame, add_ncoms. simpl. rewrite He, Eec. unfold NewickCanon.cv. rewrite Epres. reflexivity.
  Qed.

  (** * one child and its siblings *)
  Definition child_frame (e : einfo) (ch : utree) : frame :=
    mkF (uname ch) (ucom ch) (uslots (canon_sub ch)) (Some (canon_e e)).

  Definition SubP (e : einfo) (ch : utree) : Prop :=
    forall f fs dr L p pe k,
      (0 < L)%Z -> p = Some OPENPAR \/ p = Some NEWSIBLING -> stops k ->
      exists q pe',
        steps (mkS (f :: fs) dr L p pe) (write_node ch ++ deco e ch ++ k)
              (mkS (child_frame e ch :: f :: fs) dr L q pe') k.

  Definition addkids (P : frame) (l : list (einfo * utree)) : frame :=
    fold_left (fun P x => add_child P (child_frame (fst x) (snd x))) l P.

  Lemma stops_joinF_false : forall l k, stops (joinF false l ++ String ")" k).
  Proof. intros [|[e ch] r] k; reflexivity. Qed.

  Lemma items_steps : forall l,
      Forall (fun x => SubP (fst x) (snd x)) l ->
      forall F P fs dr L p pe k, (0 < L)%Z ->
        steps (mkS (F :: P :: fs) dr L p pe) (joinF false l ++ String ")" k)
              (mkS (addkids (add_child P F) l :: fs) dr (L - 1)%Z (Some CLOSEPAR) false) k.
  Proof.
    induction l as [|[e ch] r IH]; intros HF F P fs dr L p pe k HL.
    - simpl. apply steps_one. apply step_close. exact HL.
    - inversion HF; subst. simpl in H1.
      cbn [NewickCanon.joinF].
      replace ((("," ++ write_node ch ++ deco e ch ++ joinF false r) ++ String ")" k))
        with (String "," (write_node ch ++ deco e ch ++ (joinF false r ++ String ")" k)))
        by (simpl; rewrite !app_assoc_s; reflexivity).
      eapply steps_step; [apply step_comma|].
      destruct (H1 (add_child P F) fs dr L (Some NEWSIBLING) false (joinF false r ++ String ")" k) HL)
        as [q [pe' Hs]]; [right; reflexivity|apply stops_joinF_false|].
      eapply steps_trans; [exact Hs|].
      apply (IH H2 (child_frame e ch) (add_child P F) fs dr L q pe' k HL).
  Qed.

  Lemma kids_steps : forall e ch r,
      Forall (fun x => SubP (fst x) (snd x)) ((e, ch) :: r) ->
      forall P fs dr L pe k, (0 < L)%Z ->
        steps (mkS (P :: fs) dr L (Some OPENPAR) pe) (joinF true ((e, ch) :: r) ++ String ")" k)
              (mkS (addkids P ((e, ch) :: r) :: fs) dr (L - 1)%Z (Some CLOSEPAR) false) k.
  Proof.
    intros e ch r HF P fs dr L pe k HL. inversion HF; subst. simpl in H1.
    cbn [NewickCanon.joinF].
    replace (("" ++ write_node ch ++ deco e ch ++ joinF false r) ++ String ")" k)
      with (write_node ch ++ deco e ch ++ (joinF false r ++ String ")" k))
      by (simpl; rewrite !app_assoc_s; reflexivity).
    destruct (H1 P fs dr L (Some OPENPAR) pe (joinF false r ++ String ")" k) HL)
      as [q [pe' Hs]]; [left; reflexivity|apply stops_joinF_false|].
    eapply steps_trans; [exact Hs|].
    apply (items_steps r H2 (child_frame e ch) P fs dr L q pe' k HL).
  Qed.

  Lemma fields_addkids : forall l P,
      fname (addkids P l) = fname P /\ fcom (addkids P l) = fcom P /\ fedge (addkids P l) = fedge P /\
      fslots (addkids P l) = (fslots P ++ ckids l)%list.
  Proof.
    induction l as [|[e ch] r IH]; intros P; simpl.
    - rewrite app_nil_r. auto.
    - destruct (IH (add_child P (child_frame e ch))) as [H1 [H2 [H3 H4]]].
      unfold addkids in *. simpl. rewrite H1, H2, H3, H4. simpl.
      repeat split. rewrite <- app_assoc. simpl.
      unfold edge_of, node_of, child_frame. simpl.
      destruct ch as [n c sl]. reflexivity.
  Qed.

  (** * the induction *)
  Lemma cv_absent : forall x, present x = false -> cv x = nilv.
  Proof. intros x H. unfold NewickCanon.cv. rewrite H. reflexivity. Qed.
  Lemma cv_present : forall x, present x = true -> cv x = pvl x.
  Proof. intros x H. unfold NewickCanon.cv. rewrite H. reflexivity. Qed.

  Lemma edge_ok_inv : forall e n, edge_ok numok e n = true ->
      num_ok numok (elen e) = true /\ num_ok numok (esup e) = true /\ num_ok numok (epv e) = true /\
      (String.eqb n "" = false -> present (esup e) = false /\ present (epv e) = false) /\
      (present (epv e) = true -> present (esup e) = true) /\
      forallb comment_ok (ecom e) = true /\
      match ecom e with [] => true | [_] => present (elen e) | _ => false end = true.
  Proof.
    intros e n H. unfold edge_ok in H. repeat (apply andb_true_iff in H; destruct H as [H ?]).
    repeat split; try assumption.
    - apply orb_true_iff in H3. destruct H3 as [H3|H3]; [congruence|].
      apply andb_true_iff in H3. destruct H3 as [H3 _]. apply negb_true_iff in H3. exact H3.
    - apply orb_true_iff in H3. destruct H3 as [H3|H3]; [congruence|].
      apply andb_true_iff in H3. destruct H3 as [_ H3]. apply negb_true_iff in H3. exact H3.
    - intros Hp. apply orb_true_iff in H2. destruct H2 as [H2|H2]; [|exact H2].
      rewrite Hp in H2. discriminate.
  Qed.

  Lemma numok_of_present : forall x, num_ok numok x = true -> present x = true -> numok x = true.
  Proof. intros x H Hp. unfold num_ok in H. rewrite Hp in H. exact H. Qed.

  Lemma sub_all : forall ch e, wfN_sub numeric numok e ch = true -> SubP e ch.
  Proof.
    induction ch as [n c sl IH] using utree_ind'. intros e Hwf.
    apply wfN_sub_inv in Hwf. destruct Hwf as [Hup [Hname [Hcom [Hedge Hkids]]]].
    apply (Forall_slots_kids (fun t => forall e, wfN_sub numeric numok e t = true -> SubP e t)) in IH.
    assert (HF : Forall (fun x => SubP (fst x) (snd x)) (kids_of sl)).
    { clear - IH Hkids. induction (kids_of sl) as [|[e' ch'] r IHr]; [constructor|].
      inversion IH; subst. inversion Hkids; subst. constructor; [apply H1; assumption|apply IHr; assumption]. }
    destruct (edge_ok_inv _ _ Hedge) as [Hl [Hs [Hpv [Hnamed [Hpvsup [Hecom Hone]]]]]].
    intros f fs dr L p pe k HL Hp Hk.
    assert (HL0 : L <> 0%Z) by lia.
    rewrite deco_tail. simpl uname. simpl ucom.
    rewrite write_node_eq, (n_up_length sl), Hup.
    destruct (kids_of sl) as [|[e1 ch1] r] eqn:Ekids.
    - (* a tip *)
      simpl length. simpl Nat.ltb. cbv iota. cbn [NewickCanon.joinF]. simpl append at 2.
      unfold tip_name_ok in Hname.
      apply andb_true_iff in Hname. destruct Hname as [Hname _].
      apply andb_true_iff in Hname. destruct Hname as [Hname Hblank].
      apply andb_true_iff in Hname. destruct Hname as [Hne Hchars].
      apply negb_true_iff in Hne.
      destruct (Hnamed Hne) as [Hsup0 Hpv0].
      unfold sup_str. rewrite Hne, andb_false_r. simpl append at 2.
      assert (Hlex : lexable n).
      { apply name_lexable; try assumption. intro; subst n. discriminate. }
      pose proof (step_tip numeric parse_num n (tail_str c e k) f fs dr L p pe Hlex (stops_tail c e k Hk) Hp) as Hst.
      destruct (tail_steps c e k (mkF n [] [None] (Some e0)) (f :: fs) dr L (Some (cls numeric n)) pe nilv nilv)
        as [q [pe' Hs']]; try assumption; try reflexivity.
      { unfold nodeprev, cls. destruct (numeric n); auto. }
      exists q, pe'. eapply steps_step; [exact Hst|].
      replace (child_frame e (UNode n c sl)) with (tail_frame c e nilv nilv (mkF n [] [None] (Some e0))); [exact Hs'|].
      unfold tail_frame, child_frame, NewickCanon.canon_e. rewrite canon_sub_eq, Ekids. simpl.
      rewrite (cv_absent _ Hsup0), (cv_absent _ Hpv0). reflexivity.
    - (* an inner node *)
      replace (Nat.ltb 1 (1 + length ((e1, ch1) :: r))) with true by reflexivity. cbv iota.
      set (G := addkids (mkF "" [] [None] (Some e0)) ((e1, ch1) :: r)).
      destruct (fields_addkids ((e1, ch1) :: r) (mkF "" [] [None] (Some e0))) as [G1 [G2 [G3 G4]]].
      fold G in G1, G2, G3, G4. simpl in G1, G2, G3, G4.
      assert (Hopen : steps (mkS (f :: fs) dr L p pe)
                            ((("(" ++ joinF true ((e1, ch1) :: r) ++ ")") ++ n) ++ sup_str e n ++ tail_str c e k)
                            (mkS (G :: f :: fs) dr L (Some CLOSEPAR) false)
                            (n ++ sup_str e n ++ tail_str c e k)).
      { replace ((("(" ++ joinF true ((e1, ch1) :: r) ++ ")") ++ n) ++ sup_str e n ++ tail_str c e k)
          with (String "(" (joinF true ((e1, ch1) :: r) ++ String ")" (n ++ sup_str e n ++ tail_str c e k)))
          by (simpl; rewrite !app_assoc_s; reflexivity).
        eapply steps_step; [apply step_open_inner; exact HL0|].
        replace L with (L + 1 - 1)%Z at 2 by lia.
        apply kids_steps; [exact HF|lia]. }
      assert (Hfinal : forall s' p',
                 cv (esup e) = s' -> cv (epv e) = p' ->
                 tail_frame c e s' p' (mkF n [] (fslots G) (Some (mkE nilv s' p' []))) = child_frame e (UNode n c sl)).
      { intros s' p' E1 E2. unfold tail_frame, child_frame, NewickCanon.canon_e.
        rewrite canon_sub_eq, Ekids, G4, E1, E2. reflexivity. }
      assert (Hrest : exists q pe',
                 steps (mkS (G :: f :: fs) dr L (Some CLOSEPAR) false)
                       (n ++ sup_str e n ++ tail_str c e k)
                       (mkS (child_frame e (UNode n c sl) :: f :: fs) dr L q pe') k).
      { destruct (String.eqb n "") eqn:En.
        + (* unnamed: maybe a support *)
          apply String.eqb_eq in En. subst n.
          unfold sup_str. rewrite andb_true_r.
          destruct (present (esup e)) eqn:Esup.
          * pose proof (numok_of_present _ Hs Esup) as Hoks.
            destruct (present (epv e)) eqn:Epv.
            -- (* support/pvalue *)
               pose proof (numok_of_present _ Hpv Epv) as Hokp.
               assert (Hst : step (mkS (G :: f :: fs) dr L (Some CLOSEPAR) false)
                                  ((fmt (esup e) ++ String "/" (fmt (epv e))) ++ tail_str c e k) =
                             Cont (mkS (map_edge (fun e' => set_pv (pvl (epv e)) (set_sup (pvl (esup e)) e')) G :: f :: fs)
                                       dr L (Some CLOSEPAR) false) (tail_str c e k)).
               { eapply step_sup_pv.
                 - apply pair_lexable; assumption.
                 - apply stops_tail; exact Hk.
                 - apply pair_not_numeric.
                 - apply split2_app; apply fmt_no_slash; assumption.
                 - apply (h_numeric _ _ _ _ SC); assumption.
                 - apply (h_numeric _ _ _ _ SC); assumption.
                 - apply fmt_parse; assumption.
                 - apply fmt_parse; assumption.
                 - exact G3. }
               destruct (tail_steps c e k (map_edge (fun e' => set_pv (pvl (epv e)) (set_sup (pvl (esup e)) e')) G)
                                    (f :: fs) dr L (Some CLOSEPAR) false (pvl (esup e)) (pvl (epv e)))
                 as [q [pe' Hs']]; try assumption.
               { unfold map_edge. rewrite G3. reflexivity. }
               { left; reflexivity. }
               exists q, pe'. cbn [append].
               eapply steps_step; [exact Hst|].
               rewrite <- (Hfinal (pvl (esup e)) (pvl (epv e))) by (apply cv_present; assumption).
               replace (mkF "" [] (fslots G) (Some (mkE nilv (pvl (esup e)) (pvl (epv e)) [])))
                 with (map_edge (fun e' => set_pv (pvl (epv e)) (set_sup (pvl (esup e)) e')) G); [exact Hs'|].
               unfold map_edge. rewrite G1, G2, G3. reflexivity.
            -- (* support only *)
               rewrite app_empty_r.
               assert (Hst : step (mkS (G :: f :: fs) dr L (Some CLOSEPAR) false)
                                  (fmt (esup e) ++ tail_str c e k) =
                             Cont (mkS (map_edge (set_sup (pvl (esup e))) G :: f :: fs)
                                       dr L (Some CLOSEPAR) false) (tail_str c e k)).
               { eapply step_sup.
                 - apply fmt_lexable; assumption.
                 - apply stops_tail; exact Hk.
                 - apply (h_numeric _ _ _ _ SC); assumption.
                 - apply fmt_parse; assumption.
                 - exact G3.
                 - exact HL0. }
               destruct (tail_steps c e k (map_edge (set_sup (pvl (esup e))) G)
                                    (f :: fs) dr L (Some CLOSEPAR) false (pvl (esup e)) nilv)
                 as [q [pe' Hs']]; try assumption.
               { unfold map_edge. rewrite G3. reflexivity. }
               { left; reflexivity. }
               exists q, pe'. cbn [append].
               eapply steps_step; [exact Hst|].
               rewrite <- (Hfinal (pvl (esup e)) nilv) by (try apply cv_present; try apply cv_absent; assumption).
               replace (mkF "" [] (fslots G) (Some (mkE nilv (pvl (esup e)) nilv [])))
                 with (map_edge (set_sup (pvl (esup e))) G); [exact Hs'|].
               unfold map_edge. rewrite G1, G2, G3. reflexivity.
          * (* nothing *)
            assert (Epv : present (epv e) = false).
            { destruct (present (epv e)) eqn:E; [|reflexivity]. specialize (Hpvsup eq_refl). congruence. }
            destruct (tail_steps c e k G (f :: fs) dr L (Some CLOSEPAR) false nilv nilv)
              as [q [pe' Hs']]; try assumption.
            { left; reflexivity. }
            exists q, pe'. cbn [append].
            rewrite <- (Hfinal nilv nilv) by (apply cv_absent; assumption).
            replace (mkF "" [] (fslots G) (Some (mkE nilv nilv nilv []))) with G; [exact Hs'|].
            destruct G as [a b c0 d]. simpl in *. subst. reflexivity.
        + (* named *)
          destruct (Hnamed eq_refl) as [Hsup0 Hpv0].
          unfold sup_str. rewrite En, andb_false_r.
          unfold inner_name_ok in Hname. rewrite En in Hname. simpl in Hname.
          apply andb_true_iff in Hname. destruct Hname as [Hname Hnl].
          apply andb_true_iff in Hname. destruct Hname as [Hname _].
          apply andb_true_iff in Hname. destruct Hname as [Hchars Hblank].
          apply negb_true_iff in Hnl. unfold numeric_looking in Hnl.
          apply orb_false_iff in Hnl. destruct Hnl as [Hnum Hpair].
          assert (Hlex : lexable n).
          { apply name_lexable; try assumption. intro; subst n. discriminate. }
          destruct (step_name numeric parse_num n (tail_str c e k) G (f :: fs) dr L false Hlex (stops_tail c e k Hk) Hnum)
            as [pe1 Hst].
          { intros v0 v1 Hv. rewrite Hv in Hpair. exact Hpair. }
          destruct (tail_steps c e k (set_name n G) (f :: fs) dr L (Some CLOSEPAR) pe1 nilv nilv)
            as [q [pe' Hs']]; try assumption.
          { left; reflexivity. }
          exists q, pe'. cbn [append].
          eapply steps_step; [exact Hst|].
          rewrite <- (Hfinal nilv nilv) by (apply cv_absent; assumption).
          replace (mkF n [] (fslots G) (Some (mkE nilv nilv nilv []))) with (set_name n G); [exact Hs'|].
          unfold set_name. rewrite G2, G3. reflexivity. }
      destruct Hrest as [q [pe' Hr]]. exists q, pe'.
      eapply steps_trans; [exact Hopen|exact Hr].
  Qed.

  (** * the root *)
  Lemma root_steps : forall t, wfN numeric numok t = true ->
      exists q,
        steps st0 (write fmt t) (mkS [mkF (uname t) (ucom t) (ckids (kids t)) None] None 0%Z q false) ";".
  Proof.
    intros [n c sl] Hwf. apply wfN_inv in Hwf. destruct Hwf as [Hup [Hlen [Hname [Hcom Hkids]]]].
    assert (HF : Forall (fun x => SubP (fst x) (snd x)) (kids_of sl)).
    { eapply Forall_impl; [|exact Hkids]. intros [e' ch'] Hx. apply sub_all. exact Hx. }
    unfold write. rewrite write_node_eq, (n_up_length sl), Hup. simpl uname. simpl ucom. unfold kids. simpl uslots.
    destruct (kids_of sl) as [|[e1 ch1] r] eqn:Ekids; [simpl in Hlen; lia|].
    replace (Nat.ltb 1 (0 + length ((e1, ch1) :: r))) with true
      by (symmetry; apply Nat.ltb_lt; simpl in *; lia).
    set (G := addkids (mkF "" [] [] None) ((e1, ch1) :: r)).
    destruct (fields_addkids ((e1, ch1) :: r) (mkF "" [] [] None)) as [G1 [G2 [G3 G4]]].
    fold G in G1, G2, G3, G4. simpl in G1, G2, G3, G4.
    assert (Hopen : steps st0
                          ((("(" ++ joinF true ((e1, ch1) :: r) ++ ")") ++ n) ++ write_coms c ++ ";")
                          (mkS [G] None 0%Z (Some CLOSEPAR) false)
                          (n ++ write_coms c ++ ";")).
    { replace ((("(" ++ joinF true ((e1, ch1) :: r) ++ ")") ++ n) ++ write_coms c ++ ";")
        with (String "(" (joinF true ((e1, ch1) :: r) ++ String ")" (n ++ write_coms c ++ ";")))
        by (simpl; rewrite !app_assoc_s; reflexivity).
      eapply steps_step; [apply step_open_root|].
      replace 0%Z with (1 - 1)%Z at 2 by reflexivity.
      apply kids_steps; [exact HF|lia]. }
    assert (Hcoms : forall f pe0, fedge f = None ->
               exists q pe', (pe' = pe0 \/ pe' = false) /\
                 steps (mkS [f] None 0%Z (Some CLOSEPAR) pe0) (write_coms c ++ ";")
                       (mkS [add_ncoms c f] None 0%Z q pe') ";").
    { intros f pe0 _.
      destruct (ncoms_steps numeric parse_num c ";" f [] None 0%Z (Some CLOSEPAR) pe0 Hcom) as [q [pe' [_ [Hpe Hs]]]];
        [left; reflexivity|].
      exists q, pe'. split; assumption. }
    destruct (String.eqb n "") eqn:En.
    - apply String.eqb_eq in En. subst n.
      destruct (Hcoms G false G3) as [q [pe' [Hpe Hs]]].
      assert (pe' = false) by (destruct Hpe; assumption). subst pe'.
      exists q. eapply steps_trans; [exact Hopen|].
      replace (mkF "" c (ckids ((e1, ch1) :: r)) None) with (add_ncoms c G); [exact Hs|].
      unfold add_ncoms. rewrite G1, G2, G3, G4. reflexivity.
    - unfold inner_name_ok in Hname. rewrite En in Hname. simpl in Hname.
      apply andb_true_iff in Hname. destruct Hname as [Hname Hnl].
      apply andb_true_iff in Hname. destruct Hname as [Hname _].
      apply andb_true_iff in Hname. destruct Hname as [Hchars Hblank].
      apply negb_true_iff in Hnl. unfold numeric_looking in Hnl.
      apply orb_false_iff in Hnl. destruct Hnl as [Hnum _].
      assert (Hlex : lexable n).
      { apply name_lexable; try assumption. intro; subst n. discriminate. }
      pose proof (step_name_root numeric parse_num n (write_coms c ++ ";") G [] None 0%Z false Hlex
                                 (stops_coms c ";" eq_refl) Hnum G3) as Hst.
      destruct (Hcoms (set_name n G) false G3) as [q [pe' [Hpe Hs]]].
      assert (pe' = false) by (destruct Hpe; assumption). subst pe'.
      exists q. eapply steps_trans; [exact Hopen|].
      eapply steps_step; [exact Hst|].
      replace (mkF n c (ckids ((e1, ch1) :: r)) None) with (add_ncoms c (set_name n G)); [exact Hs|].
      unfold add_ncoms, set_name. simpl. rewrite G2, G3, G4. reflexivity.
  Qed.

  Theorem parse_raw_write : forall t, wfN numeric numok t = true ->
      parse_raw numeric parse_num (write fmt t) = POk (canon_root t).
  Proof.
    intros t Hwf. destruct (root_steps t Hwf) as [q Hs].
    pose proof (steps_parse_iter _ _ _ _ _ _ Hs) as Hiter.
    assert (Hw : exists r, write fmt t = String "(" r).
    { destruct t as [n c sl]. pose proof Hwf as Hwf'. apply wfN_inv in Hwf'. destruct Hwf' as [Hup [Hlen _]].
      unfold write. rewrite write_node_eq, (n_up_length sl), Hup.
      replace (Nat.ltb 1 (0 + length (kids_of sl))) with true by (symmetry; apply Nat.ltb_lt; simpl; lia).
      eexists. simpl. reflexivity. }
    destruct Hw as [r Hw].
    unfold parse_raw, parse_fuel.
    replace (scan_iw numeric (write fmt t)) with (OPENPAR, "(", r, write fmt t)
      by (rewrite Hw; reflexivity).
    cbv beta iota. simpl negb. cbv iota.
    rewrite Hiter. cbn [Newick.parse_iter String.length].
    rewrite step_eot. cbv beta iota. simpl.
    change (POk (trim_tips (canon_root t)) = POk (canon_root t)).
    rewrite trim_canon_root with (numeric := numeric) (numok := numok); [reflexivity|exact Hwf].
  Qed.

End Round.
