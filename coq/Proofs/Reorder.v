(** C05 (c): trees equal up to the order of the neighbours of every node ([tperm]) have the
    same observables; [rotate_all] (every choice vector) and [sort_by_tips] produce such trees. *)
From Coq Require Import String ZArith QArith Bool Arith Lia List Permutation Setoid Morphisms.
From GT Require Import Base.UTree Spec.Obs Model.Reroot Spec.Unrooted Proofs.RerootBase Proofs.Reroot.
Import ListNotations.
Local Close Scope Q_scope.
Local Arguments n_up : simpl never.

(** * [tperm] unfolded *)
Definition slots_match : list slot -> list slot -> Prop :=
  fix go (l m : list slot) {struct l} : Prop :=
    match l, m with
    | [], [] => True
    | None :: l, None :: m => go l m
    | Some (e, ch) :: l, Some (e', ch') :: m => e = e' /\ tperm ch ch' /\ go l m
    | _, _ => False
    end.

Lemma tperm_eq n c sl n' c' sl' :
  tperm (UNode n c sl) (UNode n' c' sl') =
  (n = n' /\ c = c' /\ exists m, Permutation m sl' /\ slots_match sl m).
Proof. reflexivity. Qed.

Lemma slots_match_Forall2 l : forall m, slots_match l m <-> Forall2 (slot_rel tperm) l m.
Proof.
  induction l as [|[[e ch]|] l IH]; intros [|[[e' ch']|] m]; simpl; split; intros H;
    try tauto; try (now inversion H);
    try (constructor; [simpl; tauto | apply IH; tauto]);
    try (inversion H; subst; simpl in *; rewrite ?IH; tauto).
Qed.

Lemma tperm_unfold n c sl n' c' sl' :
  tperm (UNode n c sl) (UNode n' c' sl') <->
  n = n' /\ c = c' /\ exists m, Permutation m sl' /\ Forall2 (slot_rel tperm) sl m.
Proof.
  rewrite tperm_eq.
  split; intros (H1 & H2 & m & Hp & H); repeat split; auto; exists m; split; auto;
    apply slots_match_Forall2; auto.
Qed.

Definition kid_rel (P : utree -> utree -> Prop) (p q : einfo * utree) : Prop :=
  fst p = fst q /\ P (snd p) (snd q).

Lemma slots_kids_rel P sl m :
  Forall2 (slot_rel P) sl m -> Forall2 (kid_rel P) (kids_of sl) (kids_of m) /\ n_up sl = n_up m.
Proof.
  induction 1 as [|s s' l l' Hs H IH]; simpl; [split; [constructor|reflexivity]|].
  destruct IH as [IH1 IH2]. rewrite !n_up_cons.
  destruct s as [[e t]|], s' as [[e' t']|]; simpl in Hs; try tauto; simpl; split; auto;
    try (constructor; auto; split; simpl; tauto).
Qed.

Lemma Permutation_kids_of m sl : Permutation m sl -> Permutation (kids_of m) (kids_of sl).
Proof. apply Permutation_flat_map. Qed.

Lemma Permutation_n_up m sl : Permutation m sl -> n_up m = n_up sl.
Proof.
  intros H. pose proof (Permutation_length H) as L.
  pose proof (Permutation_length (Permutation_kids_of _ _ H)) as L'.
  rewrite !length_slots in L. lia.
Qed.

(** an induction principle: to prove [P t t'] for related trees, assume it for the children *)
Lemma tperm_ind' (P : utree -> utree -> Prop) :
  (forall n c sl sl' M,
      Forall2 (kid_rel (fun a b => tperm a b /\ P a b)) (kids_of sl) M ->
      Permutation M (kids_of sl') -> n_up sl = n_up sl' ->
      P (UNode n c sl) (UNode n c sl')) ->
  forall t t', tperm t t' -> P t t'.
Proof.
  intros HP. induction t as [n c sl IH] using utree_ind'. intros [n' c' sl'] H.
  apply tperm_unfold in H. destruct H as (-> & -> & m & Hp & H).
  apply (HP n' c' sl sl' (kids_of m)).
  - clear Hp. induction H as [|s s' l l' Hs H IHH]; simpl; [constructor|].
    inversion IH; subst.
    destruct s as [[e t]|], s' as [[e' t']|]; simpl in Hs; try tauto; simpl; auto.
    constructor; auto. split; simpl; [tauto|]. split; [tauto|]. apply H2. tauto.
  - now apply Permutation_kids_of.
  - rewrite <- (Permutation_n_up _ _ Hp). now apply slots_kids_rel in H.
Qed.

(** * generic facts about [flat_map] and relations *)
Lemma Forall2_flat_map_perm {A B} (R : A -> A -> Prop) (f g : A -> list B) K M :
  Forall2 R K M -> (forall p q, R p q -> Permutation (g q) (f p)) ->
  Permutation (flat_map g M) (flat_map f K).
Proof.
  induction 1; simpl; intros Hf; auto. apply Permutation_app; auto.
Qed.

Lemma Forall2_map_rel {A B} (R : A -> A -> Prop) (S : B -> B -> Prop) (f g : A -> B) K M :
  Forall2 R K M -> (forall p q, R p q -> S (g q) (f p)) -> Forall2 S (map g M) (map f K).
Proof. induction 1; simpl; intros Hf; constructor; auto. Qed.

Lemma Forall2_nil_iff {A} (R : A -> A -> Prop) K M : Forall2 R K M -> (K = [] <-> M = []).
Proof. destruct 1; split; intros; auto; discriminate. Qed.

Lemma Permutation_nil_iff {A} (K M : list A) : Permutation K M -> (K = [] <-> M = []).
Proof.
  intros H; split; intros ->.
  - now apply Permutation_nil.
  - apply Permutation_sym in H. now apply Permutation_nil.
Qed.

Lemma flat_map_pointwise_perm {A B} (f g : A -> list B) l :
  (forall x, Permutation (f x) (g x)) -> Permutation (flat_map f l) (flat_map g l).
Proof. intros H; induction l; simpl; auto. apply Permutation_app; auto. Qed.

Lemma cross_perm a a' b b' :
  Permutation a a' -> Permutation b b' -> Permutation (cross a b) (cross a' b').
Proof.
  intros Ha Hb. unfold cross. etransitivity.
  - apply Permutation_flat_map. exact Ha.
  - apply flat_map_pointwise_perm. intros x. now apply Permutation_map.
Qed.

Lemma cross_all_Forall2_perm L L' :
  Forall2 (@Permutation _) L L' -> Permutation (cross_all L) (cross_all L').
Proof.
  induction 1 as [|d d' r r' Hd Hr IH]; simpl; auto.
  apply Permutation_app; auto.
  clear IH. induction Hr; simpl; auto.
  apply Permutation_app; auto. apply Permutation_app; apply cross_perm; auto.
Qed.

Lemma shift_perm q l l' : Permutation l l' -> Permutation (shift q l) (shift q l').
Proof. apply Permutation_map. Qed.

(** * observables of related trees *)
Lemma tperm_wf_both t t' :
  tperm t t' -> (wf_sub t = true -> wf_sub t' = true) /\ (wf t = true -> wf t' = true).
Proof.
  revert t t'. apply (tperm_ind' (fun t t' => (wf_sub t = true -> wf_sub t' = true) /\
                                              (wf t = true -> wf t' = true))).
  intros n c sl sl' M HK HM HU.
  assert (F : forallb (fun p => wf_sub (snd p)) (kids_of sl) = true ->
              forallb (fun p => wf_sub (snd p)) (kids_of sl') = true).
  { intros F. rewrite forallb_forall in *. intros q Hq.
    apply Permutation_sym in HM. apply (Permutation_in _ HM) in Hq.
    clear HM. induction HK as [|p q' K M' Hp HK IH]; [destruct Hq|].
    destruct Hq as [->|Hq].
    - destruct Hp as [_ [_ [Hp _]]]. apply Hp. apply F. now left.
    - apply IH; auto. intros x Hx. apply F. now right. }
  rewrite !wf_unfold, !wf_sub_unfold, <- HU. split; intros H;
    apply andb_true_iff in H as [H1 H2]; rewrite H1, (F H2); reflexivity.
Qed.

Theorem tperm_wf t t' : tperm t t' -> wf t = true -> wf t' = true.
Proof. intros H. apply (tperm_wf_both t t' H). Qed.

Theorem tperm_leaves t t' : tperm t t' -> Permutation (leaves t') (leaves t).
Proof.
  revert t t'. apply tperm_ind'. intros n c sl sl' M HK HM HU.
  rewrite !leaves_unfold.
  pose proof (Forall2_nil_iff _ _ _ HK) as N1. pose proof (Permutation_nil_iff _ _ HM) as N2.
  destruct (kids_of sl) as [|k0 K0] eqn:EK.
  - assert (E : kids_of sl' = []) by (apply N2, N1; reflexivity). now rewrite E.
  - destruct (kids_of sl') as [|k1 K1] eqn:EK'.
    + assert (E : k0 :: K0 = []) by (apply N1, N2; reflexivity). discriminate.
    + unfold kleaves. rewrite <- HM.
      eapply Forall2_flat_map_perm; [exact HK|]. intros p q [_ [_ H]]. exact H.
Qed.

Theorem tperm_depths w t t' : tperm t t' -> Permutation (depths w t') (depths w t).
Proof.
  revert t t'. apply tperm_ind'. intros n c sl sl' M HK HM HU.
  rewrite !depths_unfold.
  pose proof (Forall2_nil_iff _ _ _ HK) as N1. pose proof (Permutation_nil_iff _ _ HM) as N2.
  destruct (kids_of sl) as [|k0 K0] eqn:EK.
  - assert (E : kids_of sl' = []) by (apply N2, N1; reflexivity). now rewrite E.
  - destruct (kids_of sl') as [|k1 K1] eqn:EK'.
    + assert (E : k0 :: K0 = []) by (apply N1, N2; reflexivity). discriminate.
    + unfold kD. rewrite <- !flat_map_concat_map, <- HM.
      eapply Forall2_flat_map_perm; [exact HK|]. intros p q [E [_ H]].
      rewrite E. now apply shift_perm.
Qed.

Theorem tperm_pairdists w t t' : tperm t t' -> Permutation (pairdists w t') (pairdists w t).
Proof.
  revert t t'. apply tperm_ind'. intros n c sl sl' M HK HM HU.
  rewrite !pairdists_unfold. apply Permutation_app.
  - etransitivity; [apply cross_all_perm; unfold kD; apply Permutation_map; symmetry; exact HM|].
    apply cross_all_Forall2_perm.
    eapply Forall2_map_rel; [exact HK|]. intros p q [E [Hpq _]]. simpl.
    rewrite E. apply shift_perm. now apply tperm_depths.
  - unfold kpd. rewrite <- HM.
    eapply Forall2_flat_map_perm; [exact HK|]. intros p q [_ [_ H]]. exact H.
Qed.

Corollary tperm_dists_equiv w t t' : tperm t t' -> dists_equiv (pairdists w t') (pairdists w t).
Proof. intros H. now apply dists_equiv_perm, tperm_pairdists. Qed.

Lemma tperm_refl t : tperm t t.
Proof.
  induction t as [n c sl IH] using utree_ind'. apply tperm_unfold.
  repeat split; auto. exists sl; split; auto.
  induction IH as [|[[e ch]|] l Hs H IHl]; constructor; simpl; auto.
Qed.

Lemma tperm_degree t t' : tperm t t' -> degree t' = degree t.
Proof.
  destruct t as [n c sl], t' as [n' c' sl']. intros H. apply tperm_unfold in H.
  destruct H as (_ & _ & m & Hp & H). unfold degree. simpl.
  rewrite <- (Permutation_length Hp). symmetry. eapply Forall2_same_length; eauto.
Qed.

(** * RotateInternalNodes *)
Lemma nth_error_set_nth_same {A} (l : list A) i x :
  i < length l -> nth_error (set_nth i x l) i = Some x.
Proof.
  unfold set_nth. revert i; induction l as [|a l IH]; intros [|i]; simpl; intros H; try lia; auto.
  apply IH. lia.
Qed.

Lemma nth_error_set_nth_other {A} (l : list A) i j x :
  i <> j -> nth_error (set_nth i x l) j = nth_error l j.
Proof.
  unfold set_nth. revert i j; induction l as [|a l IH]; intros [|i] [|j]; simpl; intros H;
    try lia; auto; try (destruct i; reflexivity).
  all: try (apply IH; lia).
Qed.

Lemma set_nth_perm {A} (l : list A) i x y :
  nth_error l i = Some y -> Permutation (x :: l) (y :: set_nth i x l).
Proof.
  unfold set_nth. revert i; induction l as [|a l IH]; intros [|i]; simpl; intros H; try discriminate.
  - inversion H; subst. apply perm_swap.
  - specialize (IH _ H). etransitivity; [apply perm_swap|].
    etransitivity; [apply perm_skip, IH|]. apply perm_swap.
Qed.

Lemma swap_nth_perm {A} i j (l : list A) : Permutation l (swap_nth i j l).
Proof.
  unfold swap_nth.
  destruct (nth_error l i) as [a|] eqn:Ei; auto.
  destruct (nth_error l j) as [b|] eqn:Ej; auto.
  assert (Hi : i < length l) by (apply nth_error_Some; congruence).
  assert (E : nth_error (set_nth i b l) j = Some b).
  { destruct (Nat.eq_dec i j) as [->|N].
    - now apply nth_error_set_nth_same.
    - now rewrite nth_error_set_nth_other. }
  pose proof (set_nth_perm l i b a Ei) as P1.
  pose proof (set_nth_perm _ j a b E) as P2.
  apply (Permutation_cons_inv (a := b)).
  etransitivity; [exact P1|exact P2].
Qed.

Lemma rotate_slots_perm {A} n : forall i cs (l : list A), Permutation l (fst (rotate_slots i n cs l)).
Proof.
  induction n as [|n IH]; intros i cs l; simpl; auto.
  destruct cs as [|j cs]; simpl; auto.
  etransitivity; [apply (swap_nth_perm i j)|apply IH].
Qed.

(** the children pass of [rotate_all], as a named function *)
Definition rot_go : list slot -> list nat -> list slot * list nat :=
  fix go (l : list slot) (cs : list nat) : list slot * list nat :=
    match l with
    | [] => ([], cs)
    | None :: r => let '(r', cs') := go r cs in (None :: r', cs')
    | Some (e, ch) :: r =>
      let '(ch', cs1) := rotate_all ch cs in
      let '(r', cs2) := go r cs1 in
      (Some (e, ch') :: r', cs2)
    end.

Lemma rotate_all_eq n c sl cs :
  rotate_all (UNode n c sl) cs =
  let k := length sl in
  let '(sl', rest') := rot_go sl (skipn k cs) in
  (UNode n c (fst (rotate_slots 0 k (firstn k cs) sl')), rest').
Proof. reflexivity. Qed.

Theorem rotate_all_tperm t : forall cs, tperm t (fst (rotate_all t cs)).
Proof.
  induction t as [n c sl IH] using utree_ind'. intros cs.
  rewrite rotate_all_eq. cbv zeta.
  destruct (rot_go sl (skipn (length sl) cs)) as [sl' rest'] eqn:E. cbn [fst].
  apply tperm_unfold. repeat split; auto. exists sl'. split.
  - apply rotate_slots_perm.
  - replace sl' with (fst (rot_go sl (skipn (length sl) cs))) by now rewrite E.
    clear E. generalize (skipn (length sl) cs). clear cs.
    induction IH as [|s l Hs H IHl]; intros cs; simpl; [constructor|].
    destruct s as [[e ch]|].
    + destruct (rotate_all ch cs) as [ch' cs1] eqn:E1.
      specialize (IHl cs1). destruct (rot_go l cs1) as [r' cs2]. simpl in *.
      constructor; auto. simpl. split; auto.
      replace ch' with (fst (rotate_all ch cs)) by now rewrite E1. apply Hs.
    + specialize (IHl cs). destruct (rot_go l cs) as [r' cs']. simpl in *.
      constructor; simpl; auto.
Qed.

(** * SortNeighborsByTips *)
Lemma stable_sort_by_perm {A} (key : A -> nat) l : Permutation l (stable_sort_by key l).
Proof.
  unfold stable_sort_by. induction l as [|x l IH]; simpl; auto.
  set (ins := fix ins (l0 : list A) : list A :=
                match l0 with
                | [] => [x]
                | y :: r => if Nat.leb (key x) (key y) then x :: l0 else y :: ins r
                end).
  assert (G : forall m, Permutation (x :: m) (ins m)).
  { induction m as [|y r IHm]; simpl; auto.
    destruct (Nat.leb (key x) (key y)); auto.
    etransitivity; [apply perm_swap|]. now apply perm_skip. }
  etransitivity; [apply perm_skip, IH|apply G].
Qed.

Definition sort_keyed (s : slot) : slot * nat :=
  match s with
  | None => (None, 0)
  | Some (e, ch) => let '(ch', k) := sort_neighbors ch in (Some (e, ch'), k)
  end.

Lemma sort_neighbors_eq n c sl :
  sort_neighbors (UNode n c sl) =
  let keyed := map sort_keyed sl in
  (UNode n c (map fst (stable_sort_by (fun p => snd p) keyed)),
   if Nat.eqb (length sl) 1 then 1 else fold_right (fun p acc => snd p + acc) 0 keyed).
Proof. reflexivity. Qed.

Theorem sort_neighbors_tperm t : tperm t (fst (sort_neighbors t)).
Proof.
  induction t as [n c sl IH] using utree_ind'.
  rewrite sort_neighbors_eq. cbv zeta. cbn [fst].
  apply tperm_unfold. repeat split; auto.
  exists (map fst (map sort_keyed sl)). split.
  - apply Permutation_map, stable_sort_by_perm.
  - induction IH as [|s l Hs H IHl]; simpl; constructor; auto.
    destruct s as [[e ch]|]; simpl; auto.
    destruct (sort_neighbors ch) as [ch' k] eqn:E. simpl. split; auto.
Qed.

Theorem sort_by_tips_tperm t : tperm t (sort_by_tips t).
Proof. apply sort_neighbors_tperm. Qed.
