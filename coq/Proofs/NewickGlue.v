(** The glue path of every command and API reader (Model/MultiTree.v: bufio.Reader.ReadLine
    chunks -> fileutils.ReadUntilSemiColon -> utils.ReadMultiTrees -> newick parser) on the
    writer's output: for every tree inside the quantifier of C01 whose text has no line feed,
    for every buffer size, exactly one record is delivered, with the tree -- also when the
    text fills the last chunk exactly (ReadLine then reports a prefix and the next call EOF:
    the case repaired by fix b303e0a in ReadUntilSemiColon). *)
From Coq Require Import String Ascii ZArith QArith Bool Arith Lia List.
From GT Require Import Base.UTree Model.Newick Model.MultiTree Spec.NewickSpec
     Proofs.NewickLex Proofs.NewickCanon Proofs.NewickTheorem Proofs.MultiTree.
Import ListNotations.
Local Close Scope Q_scope.
Local Open Scope string_scope.

Definition no_lf (s : string) : bool := forall_chars (fun c => negb (is_nl c)) s.

(** * bufio.Reader.ReadLine on a text without line feed *)
Lemma read_slice_nolf : forall n s, no_lf s = true ->
    exists a rest, read_slice n s = (a, false, rest) /\ s = a ++ rest /\
                   (String.length a = n \/ (String.length a < n /\ rest = "")).
Proof.
  induction n; intros s H.
  - destruct s; simpl.
    + exists "", "". repeat split. left. reflexivity.
    + exists "", (String a s). repeat split. left. reflexivity.
  - destruct s as [|c r]; simpl.
    + exists "", "". repeat split. right. split; [simpl; lia|reflexivity].
    + unfold no_lf in H. simpl in H. apply andb_true_iff in H. destruct H as [Hc Hr].
      apply negb_true_iff in Hc. rewrite Hc.
      destruct (IHn r Hr) as [a [rest [He [Hs Hl]]]]. rewrite He.
      exists (String c a), rest. split; [reflexivity|]. split; [simpl; congruence|].
      simpl. destruct Hl as [Hl|[Hl Hrest]]; [left; lia|right; split; [lia|assumption]].
Qed.

Fixpoint concat_reads (l : list phys_read) : string :=
  match l with [] => "" | (f, _) :: r => f ++ concat_reads r end.

(** every read but the last is a prefix read *)
Fixpoint init_true (l : list phys_read) : Prop :=
  match l with
  | [] => True
  | [_] => True
  | (_, p) :: r => p = true /\ init_true r
  end.

Lemma drop_last_cr_app : forall a, ends_cr a = true -> a = drop_last_cr a ++ String "013" "".
Proof.
  induction a as [|c a IH]; intros H.
  - discriminate.
  - destruct a as [|c2 a2].
    + unfold ends_cr in H. simpl in H. unfold is_cr in H. apply Ascii.eqb_eq in H. subst c.
      reflexivity.
    + change (drop_last_cr (String c (String c2 a2))) with (String c (drop_last_cr (String c2 a2))).
      simpl append. f_equal. apply IH.
      unfold ends_cr in *. simpl String.length in *. simpl Nat.pred in *. simpl in H. exact H.
Qed.

Lemma no_lf_app : forall a b, no_lf (a ++ b) = no_lf a && no_lf b.
Proof. intros. unfold no_lf. apply forall_chars_app. Qed.

Definition no_cr (s : string) : bool := forall_chars (fun c => negb (is_cr c)) s.

Lemma ends_cr_nocr : forall a, no_cr a = true -> ends_cr a = false.
Proof.
  intros a H. destruct (ends_cr a) eqn:E; [|reflexivity].
  pose proof (drop_last_cr_app a E) as Ha. rewrite Ha in H. unfold no_cr in H.
  rewrite forall_chars_app in H. apply andb_true_iff in H. destruct H as [_ H]. discriminate.
Qed.

(** a buffer of one byte cannot make progress on a carriage return (bufio's minimum is 16) *)
Lemma phys_reads_nolf : forall fuel bufsz s,
    1 <= bufsz -> (bufsz = 1 -> no_cr s = true) -> no_lf s = true -> String.length s < fuel ->
    concat_reads (phys_reads fuel bufsz s) = s /\ init_true (phys_reads fuel bufsz s) /\
    (s <> "" -> phys_reads fuel bufsz s <> []).
Proof.
  induction fuel; intros bufsz s Hb Hcr1 Hs Hf; [lia|].
  destruct s as [|c0 s0]; [simpl; repeat split; congruence|].
  cbn [phys_reads].
  destruct (read_slice_nolf bufsz (String c0 s0) Hs) as [a [rest [He [Hsplit Hl]]]].
  rewrite He.
  assert (Hlen : String.length (String c0 s0) = String.length a + String.length rest).
  { rewrite Hsplit at 1. apply length_app_s. }
  assert (Hnl : no_lf a = true /\ no_lf rest = true).
  { rewrite Hsplit in Hs. rewrite no_lf_app in Hs. apply andb_true_iff in Hs. exact Hs. }
  destruct Hnl as [Hna Hnr].
  assert (Hcr1' : bufsz = 1 -> no_cr a = true /\ no_cr rest = true).
  { intros E1. specialize (Hcr1 E1). rewrite Hsplit in Hcr1. unfold no_cr in *.
    rewrite forall_chars_app in Hcr1. apply andb_true_iff in Hcr1. exact Hcr1. }
  destruct (Nat.eqb (String.length a) bufsz) eqn:El.
  - apply Nat.eqb_eq in El.
    destruct (ends_cr a) eqn:Ecr.
    + (* the trailing CR is put back *)
      assert (Hb2 : 2 <= bufsz).
      { destruct (Nat.eq_dec bufsz 1) as [E1|]; [|lia].
        destruct (Hcr1' E1) as [Hx _]. rewrite (ends_cr_nocr a Hx) in Ecr. discriminate. }
      pose proof (drop_last_cr_app a Ecr) as Ha.
      assert (Hla : String.length a = String.length (drop_last_cr a) + 1).
      { rewrite Ha at 1. rewrite length_app_s. reflexivity. }
      destruct (IHfuel bufsz (String "013" rest) Hb) as [H1 [H2 H3]].
      { intros E1. lia. }
      { unfold no_lf. simpl. exact Hnr. }
      { cbn [String.length] in *. lia. }
      split; [|split].
      * simpl. rewrite H1. rewrite Hsplit. rewrite Ha at 2. rewrite app_assoc_s. reflexivity.
      * specialize (H3 ltac:(discriminate)).
        destruct (phys_reads fuel bufsz (String "013" rest)) as [|x r] eqn:Er; [congruence|].
        simpl. split; [reflexivity|exact H2].
      * intros _. discriminate.
    + destruct (IHfuel bufsz rest Hb) as [H1 [H2 H3]].
      { intros E1. apply (Hcr1' E1). }
      { exact Hnr. }
      { cbn [String.length] in *. lia. }
      split; [|split].
      * simpl. rewrite H1. symmetry. exact Hsplit.
      * destruct (phys_reads fuel bufsz rest) as [|x r] eqn:Er; [exact I|].
        simpl. split; [reflexivity|exact H2].
      * intros _. discriminate.
  - apply Nat.eqb_neq in El. destruct Hl as [Hl|[Hl Hrest]]; [congruence|]. subst rest.
    rewrite app_empty_r in Hsplit. subst a.
    split; [cbn [concat_reads]; apply app_empty_r|]. split; [exact I|intros _; discriminate].
Qed.

(** * ReadUntilSemiColon on such reads *)
Lemma get_last : forall a c, String.get (String.length a) (a ++ String c "") = Some c.
Proof. induction a; intros c; simpl; [reflexivity|apply IHa]. Qed.

Lemma last_char_semi : forall a l, last_char (a ++ ";") l = ScanOk ";"%char.
Proof.
  intros a l. unfold last_char.
  assert (Hz : zlen (a ++ ";") = (Z.of_nat (String.length a) + 1)%Z).
  { unfold zlen. rewrite length_app_s. simpl. lia. }
  rewrite Hz.
  replace (0 <? Z.of_nat (String.length a) + 1)%Z with true by (symmetry; apply Z.ltb_lt; lia).
  replace (Z.of_nat (String.length a) + 1 - 1)%Z with (Z.of_nat (String.length a)) by lia.
  unfold byte_at.
  replace (Z.of_nat (String.length a) <? 0)%Z with false by (symmetry; apply Z.ltb_ge; lia).
  rewrite Nat2Z.id, get_last. reflexivity.
Qed.

Lemma rus_loop_all : forall reads ln last a,
    reads <> [] -> init_true reads ->
    ln ++ concat_reads reads = a ++ ";" ->
    rus_loop reads ln last true = RLine (a ++ ";") [].
Proof.
  induction reads as [|[frag p] r IH]; intros ln last a Hne Hi Hc; [congruence|].
  destruct r as [|x r'].
  - (* the last read: a complete one, or a full chunk followed by the end of file *)
    simpl in Hc. rewrite app_empty_r in Hc.
    cbn [rus_loop orb]. rewrite Hc. rewrite last_char_semi.
    destruct p; cbn [rus_loop orb negb is_semi].
    + rewrite last_char_semi. reflexivity.
    + reflexivity.
  - simpl in Hi. destruct Hi as [Hp Hi]. subst p.
    cbn [rus_loop]. cbn [orb].
    destruct (last_char_ok (ln ++ frag) last) as [c Hcc]. rewrite Hcc.
    apply IH; try assumption; [discriminate|].
    rewrite app_assoc_s. exact Hc.
Qed.

Section Glue.
  Variable fmt : Q -> string.
  Variable numeric : string -> bool.
  Variable parse_num : string -> option Q.
  Variable numok : Q -> bool.
  Hypothesis SC : strconv_ok fmt numeric parse_num numok.

  (** newick.Parser.Parse as the reader loop sees it *)
  Definition nparse (s : string) : utree + string :=
    match parse numeric parse_num s with
    | POk t => inl t
    | PErr m => inr m
    | POutOfFuel => inr "model: newick parser out of fuel"
    end.

  Theorem glue_read : forall bufsz t,
      1 <= bufsz -> (bufsz = 1 -> no_cr (write fmt t) = true) ->
      wfN numeric numok t = true ->
      no_lf (write fmt t) = true ->
      read_multi nparse (phys_reads (S (String.length (write fmt t))) bufsz (write fmt t)) =
      MDone [ITree 0 (canon_root fmt parse_num t)].
  Proof.
    intros bufsz t Hb Hb1 Hwf Hlf.
    set (s := write fmt t) in *.
    destruct (phys_reads_nolf (S (String.length s)) bufsz s Hb Hb1 Hlf ltac:(lia)) as [Hcat [Hinit Hne]].
    assert (Hs : s = (write_node fmt t ++ write_coms (ucom t)) ++ ";").
    { unfold s, write. rewrite app_assoc_s. reflexivity. }
    assert (Hsne : s <> "").
    { rewrite Hs. destruct (write_node fmt t ++ write_coms (ucom t)); discriminate. }
    specialize (Hne Hsne).
    unfold read_multi, read_until_semicolon.
    rewrite (rus_loop_all _ "" "0"%char (write_node fmt t ++ write_coms (ucom t)) Hne Hinit)
      by (cbn [append]; rewrite Hcat; exact Hs).
    rewrite <- Hs.
    destruct (phys_reads (S (String.length s)) bufsz s) as [|x r]; [congruence|].
    cbn [multi_loop length]. unfold nparse at 1. unfold s at 1.
    rewrite (parse_write fmt numeric parse_num numok SC t Hwf).
    reflexivity.
  Qed.

  (** buffers of at least two bytes (bufio's minimum is 16, its default 4096): no condition
      on carriage returns or on the length *)
  Corollary glue_read_length : forall bufsz t,
      2 <= bufsz -> wfN numeric numok t = true -> no_lf (write fmt t) = true ->
      read_multi nparse (phys_reads (S (String.length (write fmt t))) bufsz (write fmt t)) =
      MDone [ITree 0 (canon_root fmt parse_num t)].
  Proof. intros bufsz t Hb Hwf Hlf. apply glue_read; try assumption; lia. Qed.
End Glue.
