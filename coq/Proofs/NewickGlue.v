(** The glue path of every command and API reader (Model/MultiTree.v: bufio.Reader.ReadLine
    chunks -> fileutils.ReadUntilSemiColon -> utils.ReadMultiTrees -> newick parser) on the
    writer's output: for every tree inside the quantifier of C01 whose text has no line feed,
    for every buffer size >= 2, if the last chunk the buffered reader hands out is not a
    full one, exactly one record is delivered, with the tree.  (When the text fills the last
    chunk exactly, ReadLine reports it as a prefix, the next call reports EOF and the reader
    loses the tree: see [glue_refuted] in Properties/C01.v.) *)
From Coq Require Import String Ascii ZArith QArith Bool Arith Lia List.
From GT Require Import Base.UTree Model.Newick Model.MultiTree Spec.NewickSpec
     Proofs.NewickLex Proofs.NewickCanon Proofs.NewickTheorem Proofs.MultiTree.
Import ListNotations.
Local Close Scope Q_scope.
Local Open Scope string_scope.

Definition no_lf (s : string) : bool := forall_chars (fun c => negb (is_nl c)) s.

(** * bufio.Reader.ReadLine on a text without line feed *)
Lemma read_slice_nolf : forall n s, no_lf s = true ->
    exists a rest, read_slice n s = (a, false, rest) /\ s = a ++ rest /\
                   (String.length a = n \/ (String.length a < n /\ rest = "")).
Proof.
  induction n; intros s H.
  - destruct s; simpl.
    + exists "", "". repeat split. left. reflexivity.
    + exists "", (String a s). repeat split. left. reflexivity.
  - destruct s as [|c r]; simpl.
    + exists "", "". repeat split. right. split; [simpl; lia|reflexivity].
    + unfold no_lf in H. simpl in H. apply andb_true_iff in H. destruct H as [Hc Hr].
      apply negb_true_iff in Hc. rewrite Hc.
      destruct (IHn r Hr) as [a [rest [He [Hs Hl]]]]. rewrite He.
      exists (String c a), rest. split; [reflexivity|]. split; [simpl; congruence|].
      simpl. destruct Hl as [Hl|[Hl Hrest]]; [left; lia|right; split; [lia|assumption]].
Qed.

Fixpoint concat_reads (l : list phys_read) : string :=
  match l with [] => "" | (f, _) :: r => f ++ concat_reads r end.

(** every read but the last is a prefix read *)
Fixpoint init_true (l : list phys_read) : Prop :=
  match l with
  | [] => True
  | [_] => True
  | (_, p) :: r => p = true /\ init_true r
  end.

Lemma drop_last_cr_app : forall a, ends_cr a = true -> a = drop_last_cr a ++ String "013" "".
Proof.
  induction a as [|c a IH]; intros H.
  - discriminate.
  - destruct a as [|c2 a2].
    + unfold ends_cr in H. simpl in H. unfold is_cr in H. apply Ascii.eqb_eq in H. subst c.
      reflexivity.
    + change (drop_last_cr (String c (String c2 a2))) with (String c (drop_last_cr (String c2 a2))).
      simpl append. f_equal. apply IH.
      unfold ends_cr in *. simpl String.length in *. simpl Nat.pred in *. simpl in H. exact H.
Qed.

Lemma no_lf_app : forall a b, no_lf (a ++ b) = no_lf a && no_lf b.
Proof. intros. unfold no_lf. apply forall_chars_app. Qed.

Lemma phys_reads_nolf : forall fuel bufsz s,
    2 <= bufsz -> no_lf s = true -> String.length s < fuel ->
    concat_reads (phys_reads fuel bufsz s) = s /\ init_true (phys_reads fuel bufsz s) /\
    (s <> "" -> phys_reads fuel bufsz s <> []).
Proof.
  induction fuel; intros bufsz s Hb Hs Hf; [lia|].
  destruct s as [|c0 s0]; [simpl; repeat split; congruence|].
  cbn [phys_reads].
  destruct (read_slice_nolf bufsz (String c0 s0) Hs) as [a [rest [He [Hsplit Hl]]]].
  rewrite He.
  assert (Hlen : String.length (String c0 s0) = String.length a + String.length rest).
  { rewrite Hsplit at 1. apply length_app_s. }
  assert (Hnl : no_lf a = true /\ no_lf rest = true).
  { rewrite Hsplit in Hs. rewrite no_lf_app in Hs. apply andb_true_iff in Hs. exact Hs. }
  destruct Hnl as [Hna Hnr].
  destruct (Nat.eqb (String.length a) bufsz) eqn:El.
  - apply Nat.eqb_eq in El.
    destruct (ends_cr a) eqn:Ecr.
    + (* the trailing CR is put back *)
      pose proof (drop_last_cr_app a Ecr) as Ha.
      assert (Hla : String.length a = String.length (drop_last_cr a) + 1).
      { rewrite Ha at 1. rewrite length_app_s. reflexivity. }
      destruct (IHfuel bufsz (String "013" rest) Hb) as [H1 [H2 H3]].
      { unfold no_lf. simpl. exact Hnr. }
      { cbn [String.length] in *. lia. }
      split; [|split].
      * simpl. rewrite H1. rewrite Hsplit. rewrite Ha at 2. rewrite app_assoc_s. reflexivity.
      * specialize (H3 ltac:(discriminate)).
        destruct (phys_reads fuel bufsz (String "013" rest)) as [|x r] eqn:Er; [congruence|].
        simpl. split; [reflexivity|exact H2].
      * intros _. discriminate.
    + destruct (IHfuel bufsz rest Hb Hnr) as [H1 [H2 H3]].
      { cbn [String.length] in *. lia. }
      split; [|split].
      * simpl. rewrite H1. symmetry. exact Hsplit.
      * destruct (phys_reads fuel bufsz rest) as [|x r] eqn:Er; [exact I|].
        simpl. split; [reflexivity|exact H2].
      * intros _. discriminate.
  - apply Nat.eqb_neq in El. destruct Hl as [Hl|[Hl Hrest]]; [congruence|]. subst rest.
    rewrite app_empty_r in Hsplit. subst a.
    split; [cbn [concat_reads]; apply app_empty_r|]. split; [exact I|intros _; discriminate].
Qed.

(** the last read is a complete one (the text does not end exactly at the end of a chunk) *)
Definition last_complete (l : list phys_read) : bool :=
  match rev l with (_, false) :: _ => true | _ => false end.

(** without carriage returns the chunks are the consecutive [bufsz]-byte pieces: the last
    one is complete iff the length is not a multiple of the buffer size *)
Definition no_cr (s : string) : bool := forall_chars (fun c => negb (is_cr c)) s.

Lemma ends_cr_nocr : forall a, no_cr a = true -> ends_cr a = false.
Proof.
  intros a H. destruct (ends_cr a) eqn:E; [|reflexivity].
  pose proof (drop_last_cr_app a E) as Ha. rewrite Ha in H. unfold no_cr in H.
  rewrite forall_chars_app in H. apply andb_true_iff in H. destruct H as [_ H]. discriminate.
Qed.

Lemma last_complete_cons : forall x l, l <> [] -> last_complete (x :: l) = last_complete l.
Proof.
  intros x l H. unfold last_complete. simpl.
  destruct (rev l) as [|y r] eqn:E.
  - apply (f_equal (@rev _)) in E. rewrite rev_involutive in E. simpl in E. congruence.
  - reflexivity.
Qed.

Lemma phys_reads_last : forall fuel bufsz s,
    1 <= bufsz -> no_lf s = true -> no_cr s = true -> String.length s < fuel ->
    String.length s mod bufsz <> 0 ->
    last_complete (phys_reads fuel bufsz s) = true.
Proof.
  induction fuel; intros bufsz s Hb Hs Hc Hf Hm; [lia|].
  destruct s as [|c0 s0]; [simpl in Hm; rewrite Nat.mod_0_l in Hm by lia; congruence|].
  cbn [phys_reads].
  destruct (read_slice_nolf bufsz (String c0 s0) Hs) as [a [rest [He [Hsplit Hl]]]].
  rewrite He.
  assert (Hlen : String.length (String c0 s0) = String.length a + String.length rest).
  { rewrite Hsplit at 1. apply length_app_s. }
  assert (Hnl : no_lf a = true /\ no_lf rest = true).
  { rewrite Hsplit in Hs. rewrite no_lf_app in Hs. apply andb_true_iff in Hs. exact Hs. }
  assert (Hnc : no_cr a = true /\ no_cr rest = true).
  { rewrite Hsplit in Hc. unfold no_cr in *. rewrite forall_chars_app in Hc. apply andb_true_iff in Hc. exact Hc. }
  destruct Hnl as [Hna Hnr]. destruct Hnc as [Hca Hcr].
  destruct (Nat.eqb (String.length a) bufsz) eqn:El.
  - apply Nat.eqb_eq in El. rewrite (ends_cr_nocr a Hca).
    assert (Hm' : String.length rest mod bufsz <> 0).
    { rewrite Hlen, El in Hm. rewrite Nat.add_comm in Hm.
      rewrite <- (Nat.mul_1_l bufsz) in Hm at 1. rewrite Nat.mod_add in Hm by lia. exact Hm. }
    assert (Hrne : rest <> "").
    { intro; subst rest. simpl in Hm'. rewrite Nat.mod_0_l in Hm' by lia. congruence. }
    assert (Hrl : String.length rest < fuel) by (cbn [String.length] in *; lia).
    destruct bufsz as [|[|b]]; [lia| |].
    + (* buffer of one byte *)
      rewrite Nat.mod_1_r in Hm. congruence.
    + destruct (phys_reads_nolf fuel (S (S b)) rest ltac:(lia) Hnr Hrl) as [_ [_ Hne]].
      rewrite last_complete_cons by (apply Hne; exact Hrne).
      apply IHfuel; try assumption; lia.
  - reflexivity.
Qed.

(** * ReadUntilSemiColon on such reads *)
Lemma get_last : forall a c, String.get (String.length a) (a ++ String c "") = Some c.
Proof. induction a; intros c; simpl; [reflexivity|apply IHa]. Qed.

Lemma last_char_semi : forall a l, last_char (a ++ ";") l = ScanOk ";"%char.
Proof.
  intros a l. unfold last_char.
  assert (Hz : zlen (a ++ ";") = (Z.of_nat (String.length a) + 1)%Z).
  { unfold zlen. rewrite length_app_s. simpl. lia. }
  rewrite Hz.
  replace (0 <? Z.of_nat (String.length a) + 1)%Z with true by (symmetry; apply Z.ltb_lt; lia).
  replace (Z.of_nat (String.length a) + 1 - 1)%Z with (Z.of_nat (String.length a)) by lia.
  unfold byte_at.
  replace (Z.of_nat (String.length a) <? 0)%Z with false by (symmetry; apply Z.ltb_ge; lia).
  rewrite Nat2Z.id, get_last. reflexivity.
Qed.

Lemma rus_loop_all : forall reads ln last a,
    reads <> [] -> init_true reads -> last_complete reads = true ->
    ln ++ concat_reads reads = a ++ ";" ->
    rus_loop reads ln last true = RLine (a ++ ";") [].
Proof.
  induction reads as [|[frag p] r IH]; intros ln last a Hne Hi Hl Hc; [congruence|].
  destruct r as [|x r'].
  - (* the last read *)
    unfold last_complete in Hl. simpl in Hl. destruct p; [discriminate|].
    simpl in Hc. rewrite app_empty_r in Hc.
    simpl. rewrite Hc. rewrite last_char_semi. reflexivity.
  - simpl in Hi. destruct Hi as [Hp Hi]. subst p.
    rewrite last_complete_cons in Hl by discriminate.
    cbn [rus_loop]. cbn [orb].
    destruct (last_char_ok (ln ++ frag) last) as [c Hcc]. rewrite Hcc.
    apply IH; try assumption; [discriminate|].
    rewrite app_assoc_s. exact Hc.
Qed.

Section Glue.
  Variable fmt : Q -> string.
  Variable numeric : string -> bool.
  Variable parse_num : string -> option Q.
  Variable numok : Q -> bool.
  Hypothesis SC : strconv_ok fmt numeric parse_num numok.

  (** newick.Parser.Parse as the reader loop sees it *)
  Definition nparse (s : string) : utree + string :=
    match parse numeric parse_num s with
    | POk t => inl t
    | PErr m => inr m
    | POutOfFuel => inr "model: newick parser out of fuel"
    end.

  Theorem glue_read : forall bufsz t,
      2 <= bufsz -> wfN numeric numok t = true ->
      no_lf (write fmt t) = true ->
      last_complete (phys_reads (S (String.length (write fmt t))) bufsz (write fmt t)) = true ->
      read_multi nparse (phys_reads (S (String.length (write fmt t))) bufsz (write fmt t)) =
      MDone [ITree 0 (canon_root fmt parse_num t)].
  Proof.
    intros bufsz t Hb Hwf Hlf Hlast.
    set (s := write fmt t) in *.
    destruct (phys_reads_nolf (S (String.length s)) bufsz s Hb Hlf ltac:(lia)) as [Hcat [Hinit Hne]].
    assert (Hs : s = (write_node fmt t ++ write_coms (ucom t)) ++ ";").
    { unfold s, write. rewrite app_assoc_s. reflexivity. }
    assert (Hsne : s <> "").
    { rewrite Hs. destruct (write_node fmt t ++ write_coms (ucom t)); discriminate. }
    specialize (Hne Hsne).
    unfold read_multi, read_until_semicolon.
    rewrite (rus_loop_all _ "" "0"%char (write_node fmt t ++ write_coms (ucom t)) Hne Hinit Hlast)
      by (cbn [append]; rewrite Hcat; exact Hs).
    rewrite <- Hs.
    destruct (phys_reads (S (String.length s)) bufsz s) as [|x r]; [congruence|].
    cbn [multi_loop length]. unfold nparse at 1. unfold s at 1.
    rewrite (parse_write fmt numeric parse_num numok SC t Hwf).
    reflexivity.
  Qed.

  (** no carriage return either: the condition is on the length alone, any buffer size *)
  Corollary glue_read_length : forall bufsz t,
      2 <= bufsz -> wfN numeric numok t = true ->
      no_lf (write fmt t) = true -> no_cr (write fmt t) = true ->
      String.length (write fmt t) mod bufsz <> 0 ->
      read_multi nparse (phys_reads (S (String.length (write fmt t))) bufsz (write fmt t)) =
      MDone [ITree 0 (canon_root fmt parse_num t)].
  Proof.
    intros bufsz t Hb Hwf Hlf Hcr Hm. apply glue_read; try assumption.
    apply phys_reads_last; try assumption; lia.
  Qed.
End Glue.
