(** C05 (ii)/(iii): statements about [reroot_outgroup] in strict mode.
    [side_of t G]: some branch of [t] separates exactly the tips [G] from the others.
    - a success in strict mode implies that the requested tips are one side of a split of the
      input tree (so a non-monophyletic outgroup is refused);
    - then the new root has two children, the leaves below one of them are exactly the
      requested tips, and both root branches are [half_edge] of the branch that was cut. *)
From Coq Require Import String ZArith QArith Bool Arith Lia List Permutation Setoid Morphisms.
From GT Require Import Base.UTree Spec.Obs Model.Reroot Model.Outgroup Spec.Unrooted
     Proofs.RerootBase Proofs.Reroot Proofs.Reorder Proofs.Unroot Proofs.Splits Proofs.C05Main
     Proofs.OutgroupBase Proofs.OutgroupCut Proofs.OutgroupKeep Proofs.OutgroupLCA Proofs.OutgroupClade.
Import ListNotations.
Local Close Scope Q_scope.
Local Arguments n_up : simpl never.

(** * one side of a split *)
Definition side_of_e (t : utree) (G : list string) (e : einfo) : Prop :=
  exists L0 b, In (e, L0, b) (bsplits t) /\
               (Permutation L0 G \/ Permutation (L0 ++ G) (leaves t)).
Definition side_of (t : utree) (G : list string) : Prop := exists e, side_of_e t G e.

Lemma side_transport L t t' G e :
  splits_equiv L (bsplits t') (bsplits t) ->
  Permutation (leaves t') L -> Permutation (leaves t) L ->
  side_of_e t' G e -> side_of_e t G e.
Proof.
  intros HS L1 L2 (L0 & b & Hin & Hs).
  destruct (PermR_In _ _ (bs_eq_Equivalence L) _ _ HS _ Hin) as [[[e' X'] b'] [Hy [E1 [E2 E3]]]].
  simpl in *. subst e' b'. exists X', b. split; auto.
  rewrite L2. rewrite L1 in Hs.
  destruct Hs as [Hs|Hs], E3 as [E3|E3].
  - left. now rewrite <- E3.
  - right. now rewrite <- Hs, Permutation_app_comm.
  - right. now rewrite <- E3.
  - left. apply (Permutation_app_inv_l L0). now rewrite E3, Hs.
Qed.

Lemma kbs_In_kid K e ch : In (e, ch) K -> In (e, leaves ch, isleaf ch) (kbs K).
Proof.
  induction K as [|p K IH]; intros H; [destruct H|]. rewrite kbs_cons.
  destruct H as [->|H]; [now left|]. right. apply in_or_app. right. auto.
Qed.
Lemma kbs_In_sub K e ch x : In (e, ch) K -> In x (bsplits ch) -> In x (kbs K).
Proof.
  induction K as [|p K IH]; intros H Hx; [destruct H|]. rewrite kbs_cons.
  destruct H as [->|H]; right; apply in_or_app; [left; exact Hx | right; auto].
Qed.

Lemma node_at_bsplits p : forall t P k e ch,
  node_at t p = Some P -> nth_error (uslots P) k = Some (Some (e, ch)) ->
  In (e, leaves ch, isleaf ch) (bsplits t).
Proof.
  induction p as [|k1 r IH]; intros t P k e ch Hn Hk.
  - simpl in Hn. inversion Hn; subst. destruct P as [n c sl]. rewrite bsplits_unfold.
    apply kbs_In_kid. apply kids_of_In. eapply nth_error_In; eauto.
  - destruct t as [n c sl]. simpl in Hn.
    destruct (nth_error sl k1) as [[[e1 c1]|]|] eqn:E1; try discriminate.
    rewrite bsplits_unfold. apply (kbs_In_sub _ e1 c1).
    + apply kids_of_In. eapply nth_error_In; eauto.
    + eapply IH; eauto.
Qed.

Lemma slot_leaves_remove sl k e ch :
  nth_error sl k = Some (Some (e, ch)) ->
  Permutation (slot_leaves sl) (leaves ch ++ slot_leaves (remove_nth k sl)).
Proof.
  intros H. destruct (nth_error_split_at _ _ _ H) as [E _].
  unfold remove_nth. rewrite E at 1. unfold slot_leaves. rewrite !kids_of_app, !kleaves_app.
  rewrite kids_of_cons, kleaves_cons. cbn [snd]. perm.
Qed.

(** unrooting keeps the sides *)
Lemma side_unroot_back t G :
  wf t = true -> rooted t = true -> Permutation (leaves (unroot t)) (leaves t) ->
  side_of (unroot t) G -> side_of t G.
Proof.
  intros Hwf Hr HL (e & L0 & b & Hin & Hs).
  destruct (unroot_splits t Hwf Hr) as (e1&N1&e2&N2&e3&far&K&Hfar&_&_&B&BU&_).
  rewrite HL in Hs.
  apply (Permutation_in _ BU) in Hin. destruct Hin as [Hin|Hin].
  - inversion Hin; subst. destruct Hfar as [->| ->].
    + exists e1, (leaves N1), (isleaf N1). split; auto. rewrite B. now left.
    + exists e2, (leaves N2), (isleaf N2). split; auto. rewrite B. right. apply in_or_app. right. now left.
  - exists e, L0, b. split; auto. rewrite B. right. apply in_app_or in Hin as [H|H]; apply in_or_app; [left; auto | right; right; auto].
Qed.

(** * what a success of [reroot_outgroup] is made of, for both values of [remove] *)
Lemma reroot_outgroup_inv remove strict t names t' :
  reroot_outgroup remove strict t names = Ok t' ->
  let t1 := unroot t in
  let grp := group t1 names in
  exists q lf v p es diff pp ks lower,
    grp <> [] /\
    find (fun pn => negb (smem (uname (snd pn)) grp)) (tip_paths t1) = Some (q, lf) /\
    view_from t1 q = Some v /\
    lca_rec grp (length grp) (tv_tree v) = LFound p es diff /\
    (diff = 0 \/ strict = false) /\
    root_edge (tv_tree v) p es = Ok (pp, ks, lower).
Proof.
  unfold reroot_outgroup. intros H. cbv zeta in *.
  destruct (Nat.ltb (length (tips t)) 3); [discriminate|].
  set (t1 := unroot t) in *. set (grp := group t1 names) in *.
  destruct (has_dup (node_names t1)) eqn:Hdup; [discriminate|].
  destruct (Nat.eqb (length grp) 0) eqn:Hk; [discriminate|].
  destruct (find _ (tip_paths t1)) as [[q lf]|] eqn:Hf; [|discriminate].
  destruct (view_from t1 q) as [v|] eqn:Hv; [|discriminate].
  destruct (is_tip (tv_tree v)) eqn:Ht; [discriminate|].
  destruct (lca_rec grp (length grp) (tv_tree v)) as [p es diff|] eqn:Hl; [|discriminate].
  destruct (negb (Nat.eqb diff 0) && strict) eqn:Hs; [discriminate|].
  destruct (root_edge (tv_tree v) p es) as [[[pp ks] lower]|] eqn:Hr; [|discriminate].
  exists q, lf, v, p, es, diff, pp, ks, lower.
  repeat split; auto.
  - intros E. rewrite E in Hk. discriminate.
  - apply andb_false_iff in Hs as [Hs|Hs]; [left|right; auto].
    apply negb_false_iff, Nat.eqb_eq in Hs. auto.
Qed.

(** * the setting shared by the theorems: the tree seen from the temporary root *)
Section Setting.
  Variables (t : utree) (names : list string).
  Hypothesis Hwf : wf t = true.
  Hypothesis Hdeg : 2 <= degree t.
  Hypothesis Hin : rooted t = true -> root_has_inner_child t = true.
  Hypothesis HND : NoDup (leaves t).
  Let t1 := unroot t.
  Let grp := group t1 names.

  Variables (q : list nat) (lf : utree) (v : tipview).
  Hypothesis Hq : In (q, lf) (tip_paths t1).
  Hypothesis Hv : view_from t1 q = Some v.
  Let t2 := tv_tree v.

  Lemma setting_facts :
    wf t1 = true /\ 2 <= degree t1 /\ Permutation (leaves t1) (leaves t) /\
    wf t2 = true /\ 2 <= degree t2 /\ Permutation (leaves t2) (leaves t1) /\
    NoDup (leaves t2) /\ NoDup grp /\ incl grp (leaves t2) /\
    splits_equiv (leaves t1) (bsplits t2) (bsplits t1).
  Proof.
    destruct (unroot_stage t Hwf Hdeg Hin) as [W1 [D1 [L1 _]]].
    apply tip_paths_In in Hq as [Hn _].
    destruct (view_from_spec _ _ _ _ W1 D1 Hn Hv) as [W2 [D2 [L2 _]]].

    repeat split; auto.
    - unfold t2. rewrite L2, L1. exact HND.
    - apply group_NoDup.
    - intros x Hx. unfold t2. rewrite L2. apply (group_incl t1 names W1 D1). exact Hx.
    - (* the branches of the view are those of the unrooted tree *)
      unfold view_from in Hv. destruct q as [|k0 r0]; [discriminate|].
      cbv zeta in Hv.
      assert (Hq' : k0 :: r0 = removelast (k0 :: r0) ++ [last (k0 :: r0) 0])
        by (apply removelast_last_nat; discriminate).
      remember (removelast (k0 :: r0)) as q' eqn:Eq'.
      remember (last (k0 :: r0) 0) as j eqn:Ej'.
      destruct (reroot_path t1 q') as [t2'|] eqn:E2; [|discriminate].
      inversion Hv; subst v. unfold t2. cbn [tv_tree].
      rewrite Hq', node_at_app in Hn.
      destruct (node_at t1 q') as [A|] eqn:EA; [|discriminate].
      cbn [node_at] in Hn.
      destruct (nth_error (uslots A) j) as [[[e ch]|]|] eqn:Ej; try discriminate.
      assert (DA : 2 <= degree A).
      { destruct q' as [|k1 r1].
        - simpl in EA. now inversion EA; subst.
        - eapply wf_sub_with_child; eauto.
          apply (node_at_wf_sub (k1 :: r1) t1 A); [left; exact W1 | discriminate | exact EA]. }
      assert (PO : path_ok t1 q') by (apply (node_at_path_ok q' t1 A); [left; exact W1 | exact EA | exact DA]).
      apply (reroot_path_bsplits q' t1 t2' W1 D1 PO E2).
  Qed.

  (** the requested tips are one side of the branch chosen for the root *)
  Lemma chosen_branch_side p es pp ks lower :
    grp <> [] ->
    lca_rec grp (length grp) t2 = LFound p es 0 ->
    root_edge t2 p es = Ok (pp, ks, lower) ->
    exists P e ch,
      node_at t2 pp = Some P /\ nth_error (uslots P) ks = Some (Some (e, ch)) /\
      side_of_e t1 grp e /\
      (lower = true -> Permutation (leaves ch) grp) /\
      (lower = false -> pp = [] /\ Permutation (slot_leaves (remove_nth ks (uslots P))) grp).
  Proof.
    intros Hne HL HR.
    destruct setting_facts as (W1&D1&L1&W2&D2&L2&ND2&NG&IG&SE).
    assert (Hk : 0 < length grp) by (destruct grp; [congruence | simpl; lia]).
    destruct (root_edge_clade grp t2 Hk W2 D2 ND2 NG IG p es pp ks lower HL HR)
      as (P & e & ch & HP & HK & Ht & Hf).
    exists P, e, ch. split; [exact HP|]. split; [exact HK|]. split; [|split; [exact Ht | exact Hf]].
    apply (side_transport (leaves t1) t1 t2 grp e SE L2 (Permutation_refl _)).
    exists (leaves ch), (isleaf ch). split; [eapply node_at_bsplits; eauto|].
    destruct lower.
    - left. now apply Ht.
    - right. destruct (Hf eq_refl) as [Epp Hperm]. subst pp. simpl in HP. inversion HP; subst P.
      assert (NE : kids_of (uslots t2) <> []).
      { intros K. assert (In (e, ch) (kids_of (uslots t2))) by (apply kids_of_In; eapply nth_error_In; eauto).
        rewrite K in H. destruct H. }
      destruct t2 as [n2 c2 sl2] eqn:E2. simpl uslots in *.
      rewrite (leaves_node n2 c2 sl2 NE). fold (slot_leaves sl2).
      rewrite (slot_leaves_remove sl2 ks e ch HK). now rewrite Hperm.
  Qed.
End Setting.

(** * (iii) a success in strict mode: the requested tips are one side of a split *)
Theorem outgroup_strict_side remove t names t' :
  wf t = true -> 2 <= degree t -> (rooted t = true -> root_has_inner_child t = true) ->
  NoDup (leaves t) ->
  reroot_outgroup remove true t names = Ok t' ->
  side_of t (group (unroot t) names).
Proof.
  intros Hwf Hd Hi HND H.
  destruct (reroot_outgroup_inv _ _ _ _ _ H) as (q&lf&v&p&es&diff&pp&ks&lower&Hne&Hf&Hv&HL&Hs&HR).
  destruct Hs as [->|Hs]; [|discriminate].
  apply find_some in Hf as [Hq _].
  destruct (chosen_branch_side t names Hwf Hd Hi HND q lf v Hq Hv p es pp ks lower Hne HL HR)
    as (P&e&ch&_&_&Hside&_).
  destruct (unroot_stage t Hwf Hd Hi) as [_ [_ [L1 _]]].
  destruct (rooted t) eqn:Hr.
  - apply side_unroot_back; auto. now exists e.
  - rewrite (unroot_not_rooted t Hr) in *. now exists e.
Qed.

Corollary outgroup_strict_refuses remove t names :
  wf t = true -> 2 <= degree t -> (rooted t = true -> root_has_inner_child t = true) ->
  NoDup (leaves t) ->
  ~ side_of t (group (unroot t) names) ->
  exists m, reroot_outgroup remove true t names = Err m.
Proof.
  intros Hwf Hd Hi HND Hn.
  destruct (reroot_outgroup remove true t names) as [t'|m] eqn:E; [|eauto].
  exfalso. apply Hn. eapply outgroup_strict_side; eauto.
Qed.

(** * (ii) in strict mode: the outgroup is one of the two root clades, halves of the cut branch *)
Theorem outgroup_strict_clade t names t' :
  wf t = true -> 2 <= degree t -> (rooted t = true -> root_has_inner_child t = true) ->
  NoDup (leaves t) ->
  reroot_outgroup false true t names = Ok t' ->
  let G := group (unroot t) names in
  exists e e1 c1 e2 c2,
    kids t' = [(e1, c1); (e2, c2)] /\ degree t' = 2 /\
    e1 = half_edge e /\ e2 = half_edge e /\
    side_of_e (unroot t) G e /\
    (Permutation (leaves c1) G \/ Permutation (leaves c2) G).
Proof.
  intros Hwf Hd Hi HND H G.
  destruct (reroot_outgroup_keep_inv _ _ _ _ H)
    as (q&lf&v&p&es&diff&pp&ks&lower&P&e&_&Hne&Hf&Hv&_&HL&Hs&HR&HP&He&Hc).
  destruct Hs as [->|Hs]; [|discriminate].
  apply find_some in Hf as [Hq _].
  destruct (chosen_branch_side t names Hwf Hd Hi HND q lf v Hq Hv p es pp ks lower Hne HL HR)
    as (P'&e'&ch&HP'&HK&Hside&Ht&Hfl).
  assert (P' = P) by congruence. subst P'.
  assert (e' = e) by (unfold edge_at in He; rewrite HK in He; congruence). subst e'.
  destruct (setting_facts t names Hwf Hd Hi HND q lf v Hq Hv) as (W1&D1&L1&W2&D2&L2&ND2&NG&IG&SE).
  destruct (cut_and_root_spec len0 (tv_tree v) pp ks (is_prefix (pp ++ [ks]) (tv_root v))
              (half_edge e) (half_edge e) P e ch W2 D2 HP HK (len0_half_edge e))
    as [t4 [R [E4 [S4 [W4 [L4 _]]]]]].
  assert (Et : t4 = t') by congruence. rewrite Et in *. clear Et E4.
  assert (LC : leaves (cut_child ch) = leaves ch) by (destruct (cut_child_obs len0 ch) as [LC _]; exact LC).
  (* the leaves below the other child of the new root *)
  assert (LR : lower = false -> Permutation (leaves R) G).
  { intros El. destruct (Hfl El) as [Epp Hperm]. subst pp. simpl in HP. inversion HP; subst P.
    assert (NE : kids_of (uslots (tv_tree v)) <> []).
    { intros K. assert (In (e, ch) (kids_of (uslots (tv_tree v)))) by (apply kids_of_In; eapply nth_error_In; eauto).
      rewrite K in H0. destruct H0. }
    destruct (tv_tree v) as [n2 c2 sl2] eqn:E2. simpl uslots in *.
    rewrite (leaves_node n2 c2 sl2 NE) in L4. fold (slot_leaves sl2) in L4.
    rewrite (slot_leaves_remove sl2 ks e ch HK), Hperm in L4.
    rewrite S4 in L4.
    destruct (is_prefix _ _).
    - rewrite leaves_node in L4 by (simpl; discriminate). simpl in L4. rewrite app_nil_r, LC in L4.
      now apply Permutation_app_inv_l in L4.
    - rewrite leaves_node in L4 by (simpl; discriminate). simpl in L4. rewrite app_nil_r, LC in L4.
      rewrite Permutation_app_comm in L4. now apply Permutation_app_inv_l in L4. }
  rewrite S4. destruct (is_prefix (pp ++ [ks]) (tv_root v)).
  - exists e, (half_edge e), (cut_child ch), (half_edge e), R. repeat split; auto.
    destruct lower; [left; rewrite LC; now apply Ht | right; now apply LR].
  - exists e, (half_edge e), R, (half_edge e), (cut_child ch). repeat split; auto.
    destruct lower; [right; rewrite LC; now apply Ht | left; now apply LR].
Qed.
