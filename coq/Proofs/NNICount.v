(** C17, the number of proposals: two for every branch both of whose ends have three
    neighbours ([edges_pc]: the branches of Tree.Edges() with both ends). *)
From Coq Require Import String ZArith QArith Bool Arith Lia List Permutation.
From GT Require Import Base.UTree Spec.Obs Model.Reroot Model.NNI Proofs.RerootBase Proofs.NNIBase.
Import ListNotations.
Local Close Scope Q_scope.

(** Tree.Edges() with the two ends of every branch: (left node, branch data, right node) *)
Fixpoint edges_pc (t : utree) : list (utree * einfo * utree) :=
  match t with
  | UNode _ _ sl =>
    flat_map (fun s => match s with
                       | Some (e, c) => (t, e, c) :: (if Nat.ltb 1 (degree c) then edges_pc c else [])
                       | None => [] end) sl
  end.

Lemma edges_pc_edges t : map (fun x => (snd (fst x), snd x)) (edges_pc t) = edges t.
Proof.
  unfold edges. induction t as [n c sl IH] using utree_ind'.
  cbn [edges_pc edges_below]. generalize (UNode n c sl) as par.
  induction sl as [|[[e ch]|] r IHr]; intros par; cbn [flat_map]; auto.
  - inversion IH; subst. cbn [map app]. rewrite map_app. f_equal. f_equal; [|now apply IHr].
    destruct (Nat.ltb 1 (degree ch)); auto.
  - inversion IH; subst. now apply IHr.
Qed.

Definition both3 (x : utree * einfo * utree) : bool :=
  Nat.eqb (degree (fst (fst x))) 3 && Nat.eqb (degree (snd x)) 3.

(** ** [edge_locs] designates the branches of [edges_pc], in the same order *)
Definition locs_go : nat -> list slot -> list (list nat * nat) :=
  fix go (k : nat) (l : list slot) : list (list nat * nat) :=
    match l with
    | [] => []
    | None :: r => go (S k) r
    | Some (_, c) :: r =>
      ([], k) :: (if Nat.ltb 1 (degree c)
                  then map (fun q => (k :: fst q, snd q)) (edge_locs c) else [])
              ++ go (S k) r
    end.
Definition epc_go (par : utree) (l : list slot) : list (utree * einfo * utree) :=
  flat_map (fun s => match s with
                     | Some (e, c) => (par, e, c) :: (if Nat.ltb 1 (degree c) then edges_pc c else [])
                     | None => [] end) l.

Lemma edge_locs_unfold n c sl : edge_locs (UNode n c sl) = locs_go 0 sl.
Proof. reflexivity. Qed.
Lemma edges_pc_unfold n c sl : edges_pc (UNode n c sl) = epc_go (UNode n c sl) sl.
Proof. reflexivity. Qed.

Definition designates (t : utree) (loc : list nat * nat) (x : utree * einfo * utree) : Prop :=
  node_at t (fst loc) = Some (fst (fst x)) /\
  nth_error (uslots (fst (fst x))) (snd loc) = Some (Some (snd (fst x), snd x)).

Lemma edge_locs_designate t : Forall2 (designates t) (edge_locs t) (edges_pc t).
Proof.
  induction t as [n c sl IH] using utree_ind'.
  rewrite edge_locs_unfold, edges_pc_unfold.
  set (t := UNode n c sl).
  assert (G : forall pre l, sl = pre ++ l ->
                            Forall2 (designates t) (locs_go (length pre) l) (epc_go t l)).
  { intros pre l; revert pre. induction l as [|[[e ch]|] r IHr]; intros pre E; cbn [locs_go epc_go flat_map].
    - constructor.
    - assert (Hk : nth_error sl (length pre) = Some (Some (e, ch))).
      { rewrite E, nth_error_app2 by lia. now rewrite Nat.sub_diag. }
      constructor; [split; [reflexivity | exact Hk]|].
      apply Forall2_app.
      + destruct (Nat.ltb 1 (degree ch)); [|constructor].
        rewrite Forall_forall in IH.
        assert (IHc : Forall2 (designates ch) (edge_locs ch) (edges_pc ch)).
        { apply (IH (Some (e, ch))). rewrite E. apply in_or_app. right. now left. }
        clear - IHc Hk. induction IHc as [|loc x L X [H1 H2] _ IHF]; cbn [map]; constructor; auto.
        split; cbn [fst snd]; [|exact H2]. subst t. simpl. now rewrite Hk.
      + specialize (IHr (pre ++ [Some (e, ch)])). rewrite app_length in IHr. simpl in IHr.
        rewrite Nat.add_1_r in IHr. apply IHr. now rewrite <- app_assoc.
    - specialize (IHr (pre ++ [None])). rewrite app_length in IHr. simpl in IHr.
      rewrite Nat.add_1_r in IHr. apply IHr. now rewrite <- app_assoc. }
  exact (G [] sl eq_refl).
Qed.

(** ** every designated branch contributes two proposals or none *)
Lemma up_index_some sl : 1 <= n_up sl -> exists j, up_index sl = Some j.
Proof.
  induction sl as [|[p|] r IH]; simpl; intros H.
  - unfold n_up in H; simpl in H; lia.
  - rewrite n_up_cons in H. destruct (IH H) as [j ->]. eauto.
  - eauto.
Qed.

Lemma nni_at_length t i loc x :
  wf t = true -> designates t loc x ->
  length (nni_at t i loc) = if both3 x then 2 else 0.
Proof.
  intros W [H1 H2]. destruct loc as [p k], x as [[par e] ch]. cbn [fst snd] in *.
  unfold nni_at, both3. cbn [fst snd]. rewrite H1, H2.
  destruct (Nat.eqb (degree par) 3 && Nat.eqb (degree ch) 3); [|reflexivity].
  assert (Wc : wf_sub ch = true).
  { destruct par as [pn pc psl]. cbn [uslots] in H2.
    destruct (node_at_wf _ _ _ W H1) as [[_ E]|[_ Wp]].
    - rewrite <- E in W. simpl in W. apply andb_true_iff in W. destruct W as [_ W].
      eapply slot_child_wf_sub; eauto.
    - simpl in Wp. apply andb_true_iff in Wp. destruct Wp as [_ Wp].
      eapply slot_child_wf_sub; eauto. }
  destruct ch as [cn cc csl]. simpl in Wc. apply andb_true_iff in Wc. destruct Wc as [U _].
  apply Nat.eqb_eq in U. destruct (up_index_some csl) as [j Hj]; [lia|].
  cbn [uslots]. now rewrite Hj.
Qed.

Lemma count_flat_map {A B C} (R : A -> B -> Prop) (g : nat -> A -> list C) (h : B -> bool) :
  (forall i a b, R a b -> length (g i a) = if h b then 2 else 0) ->
  forall l m, Forall2 R l m -> forall s,
    length (flat_map (fun il => g (fst il) (snd il)) (combine (seq s (length l)) l)) =
    2 * length (filter h m).
Proof.
  intros Hg l m F. induction F as [|a b l m Hab F IH]; intros s; [reflexivity|].
  cbn [length seq combine flat_map filter fst snd]. rewrite app_length, (Hg _ _ _ Hab), IH.
  destruct (h b); cbn [length]; lia.
Qed.

(** ** the count *)
Theorem nni_count t :
  wf t = true -> length (nni_list t) = 2 * length (filter both3 (edges_pc t)).
Proof.
  intros W. unfold nni_list.
  apply (count_flat_map (designates t) (nni_at t) both3).
  - intros i a b. now apply nni_at_length.
  - apply edge_locs_designate.
Qed.

(** no proposal on a branch that touches a node with two neighbours: in particular none on
    the two branches of a degree-2 root *)
Lemma valid_degrees r t :
  valid r t -> exists n1 ec n2,
    node_at t (r_path r) = Some n1 /\ nth_error (uslots n1) (r_k r) = Some (Some (ec, n2)) /\
    degree n1 = 3 /\ degree n2 = 3.
Proof. intros (n1 & ec & n2 & H1 & H2 & H3 & H4 & _). exists n1, ec, n2. auto. Qed.

Theorem rooted_no_root_proposal t r :
  rooted t = true -> In r (nni_list t) -> r_path r <> [].
Proof.
  intros R H E. apply nni_list_valid, valid_degrees in H.
  destruct H as (n1 & ec & n2 & H1 & _ & H3 & _). rewrite E in H1. simpl in H1. inversion H1; subst.
  unfold rooted in R. apply Nat.eqb_eq in R. lia.
Qed.

(** * binary trees: the count against the inner branches *)
From GT Require Import Spec.NNISpec.

Definition nt (x : utree * einfo * utree) : bool := negb (is_tip (snd x)).

Lemma internal_edges_filter t :
  internal_edges t = filter (fun p => negb (is_tip (snd p))) (edges t).
Proof.
  unfold edges. induction t as [n c sl IH] using utree_ind'.
  cbn [internal_edges edges_below].
  induction sl as [|[[e ch]|] r IHr]; cbn [flat_map]; auto.
  - inversion IH as [|? ? Hc Hr]; subst. rewrite filter_app, <- (IHr Hr). f_equal.
    cbn [filter snd]. unfold is_tip. destruct (Nat.eqb (degree ch) 1) eqn:D; cbn [negb].
    + apply Nat.eqb_eq in D. rewrite D. reflexivity.
    + f_equal. destruct (Nat.ltb 1 (degree ch)); [exact Hc | reflexivity].
  - inversion IH; subst. now apply IHr.
Qed.

Lemma internal_edges_length t : length (internal_edges t) = length (filter nt (edges_pc t)).
Proof.
  rewrite internal_edges_filter, <- edges_pc_edges.
  induction (edges_pc t) as [|x l IH]; cbn [map filter]; auto.
  unfold nt at 1. cbn [snd]. destruct (negb (is_tip (snd x))); cbn [length]; now rewrite IH.
Qed.

(** the branches below the root branches *)
Definition below (t : utree) : list (utree * einfo * utree) :=
  flat_map (fun s => match s with
                     | Some (e, c) => if Nat.ltb 1 (degree c) then edges_pc c else []
                     | None => [] end) (uslots t).
Definition root_edges (t : utree) : list (utree * einfo * utree) :=
  map (fun p => (t, fst p, snd p)) (kids t).

Lemma filter_length_perm {A} (f : A -> bool) l l' :
  Permutation l l' -> length (filter f l) = length (filter f l').
Proof.
  induction 1; cbn [filter]; auto.
  - destruct (f x); cbn [length]; auto.
  - destruct (f x), (f y); reflexivity.
  - congruence.
Qed.

Lemma edges_pc_split t : Permutation (edges_pc t) (root_edges t ++ below t).
Proof.
  destruct t as [n c sl]. unfold root_edges, below, kids. cbn [uslots edges_pc].
  generalize (UNode n c sl) as par. intros par.
  induction sl as [|[[e ch]|] r IH]; cbn [flat_map kids_of map app]; auto.
  cbn [fst snd]. constructor. rewrite IH. fold (kids_of r). perm.
Qed.

Lemma binary_sub_degree t : binary_sub t = true -> degree t = 1 \/ degree t = 3.
Proof.
  destruct t as [n c sl]. cbn [binary_sub]. intros B. apply andb_true_iff in B. destruct B as [B _].
  apply orb_true_iff in B. unfold degree. cbn [uslots]. destruct B as [B|B]; apply Nat.eqb_eq in B; auto.
Qed.

(** below a binary node every branch has an upper end with three neighbours (or hangs on
    the node itself) and a lower end with one or three *)
Lemma binary_sub_edges t :
  binary_sub t = true ->
  Forall (fun x => (fst (fst x) = t \/ degree (fst (fst x)) = 3) /\
                   (degree (snd x) = 1 \/ degree (snd x) = 3)) (edges_pc t).
Proof.
  induction t as [n c sl IH] using utree_ind'. intros B.
  cbn [binary_sub] in B. apply andb_true_iff in B. destruct B as [_ B].
  cbn [edges_pc]. generalize (UNode n c sl) as par. intros par.
  induction sl as [|[[e ch]|] r IHr]; cbn [flat_map]; [constructor| |].
  - inversion IH as [|? ? IHc IHrest]; subst. cbn [forallb] in B. apply andb_true_iff in B. destruct B as [Bc Br].
    assert (Dc : degree ch = 1 \/ degree ch = 3).
    { destruct ch as [cn cc csl]. cbn [binary_sub] in Bc. apply andb_true_iff in Bc. destruct Bc as [Bc _].
      apply orb_true_iff in Bc. unfold degree. cbn [uslots]. destruct Bc as [Bc|Bc]; apply Nat.eqb_eq in Bc; auto. }
    constructor; [cbn [fst snd]; auto|]. apply Forall_app. split; [|now apply IHr].
    destruct (Nat.ltb 1 (degree ch)) eqn:L; [|constructor].
    apply Nat.ltb_lt in L. specialize (IHc Bc). rewrite Forall_forall in *. intros x Hx.
    destruct (IHc x Hx) as [[->|D] H2]; split; auto. right. lia.
  - inversion IH; subst. cbn [forallb] in B. now apply IHr.
Qed.

Lemma below_both3 t :
  forallb (fun s => match s with Some (_, c) => binary_sub c | None => true end) (uslots t) = true ->
  filter both3 (below t) = filter nt (below t).
Proof.
  unfold below. induction (uslots t) as [|[[e ch]|] r IH]; cbn [flat_map forallb]; auto.
  intros B. apply andb_true_iff in B. destruct B as [Bc Br]. rewrite !filter_app, IH by assumption.
  f_equal. destruct (Nat.ltb 1 (degree ch)) eqn:L; [|reflexivity]. apply Nat.ltb_lt in L.
  pose proof (binary_sub_degree ch Bc) as Dc.
  pose proof (binary_sub_edges ch Bc) as F. induction F as [|x l [H1 H2] _ IHF]; cbn [filter]; auto.
  assert (E : both3 x = nt x).
  { unfold both3, nt, is_tip. assert (D : degree (fst (fst x)) = 3) by (destruct H1 as [->|]; lia).
    rewrite D. destruct H2 as [->| ->]; reflexivity. }
  rewrite E, IHF. reflexivity.
Qed.


Lemma root_edges_counts t (B : forallb (fun s : slot => match s with Some (_, c) => binary_sub c | None => true end) (uslots t) = true) :
  length (filter nt (root_edges t)) = inner_root_kids t /\
  length (filter both3 (root_edges t)) = if Nat.eqb (degree t) 3 then inner_root_kids t else 0.
Proof.
  unfold root_edges, inner_root_kids, kids.
  assert (BK : Forall (fun p => degree (snd p) = 1 \/ degree (snd p) = 3) (kids_of (uslots t))).
  { induction (uslots t) as [|[[e ch]|] r IH]; cbn [kids_of flat_map forallb app] in *; [constructor| |auto].
    apply andb_true_iff in B. destruct B as [Bc Br]. constructor; [|now apply IH].
    cbn [snd]. destruct ch as [cn cc csl]. cbn [binary_sub] in Bc. apply andb_true_iff in Bc. destruct Bc as [Bc _].
    apply orb_true_iff in Bc. unfold degree. cbn [uslots]. destruct Bc as [Bc|Bc]; apply Nat.eqb_eq in Bc; auto. }
  induction BK as [|p K Hp _ IH]; cbn [map filter length].
  - split; auto. now destruct (Nat.eqb (degree t) 3).
  - destruct IH as [IH1 IH2]. unfold nt at 1, both3 at 1. cbn [fst snd].
    destruct (Nat.eqb (degree t) 3) eqn:D; cbn [andb].
    + assert (E : Nat.eqb (degree (snd p)) 3 = negb (is_tip (snd p))).
      { unfold is_tip. destruct Hp as [-> | ->]; reflexivity. }
      rewrite E. destruct (negb (is_tip (snd p))); cbn [length]; split; congruence.
    + destruct (negb (is_tip (snd p))); cbn [length]; split; congruence.
Qed.

Lemma binary_count t :
  wf t = true -> binary t = true ->
  length (nni_list t) + (if Nat.eqb (degree t) 3 then 0 else 2 * inner_root_kids t) =
  2 * length (internal_edges t).
Proof.
  intros W B. unfold binary in B. apply andb_true_iff in B. destruct B as [_ B].
  rewrite (nni_count t W), internal_edges_length.
  rewrite (filter_length_perm both3 _ _ (edges_pc_split t)), (filter_length_perm nt _ _ (edges_pc_split t)).
  rewrite !filter_app, !app_length, (below_both3 t B).
  destruct (root_edges_counts t B) as [-> ->].
  destruct (Nat.eqb (degree t) 3); lia.
Qed.

(** unrooted binary tree: two proposals for every inner branch *)
Theorem nni_count_unrooted t :
  wf t = true -> binary t = true -> degree t = 3 ->
  length (nni_list t) = 2 * inner_branch_count t.
Proof.
  intros W B D. pose proof (binary_count t W B) as H. unfold inner_branch_count, rooted.
  rewrite D in *. cbn [Nat.eqb] in *. lia.
Qed.

(** rooted binary tree whose root has a tip child: the root branches are part of a tip
    branch of the unrooted tree, every inner branch has its two proposals *)
Theorem nni_count_rooted_tip t :
  wf t = true -> binary t = true -> degree t = 2 -> inner_root_kids t = 1 ->
  length (nni_list t) = 2 * inner_branch_count t.
Proof.
  intros W B D K. pose proof (binary_count t W B) as H. unfold inner_branch_count, rooted.
  rewrite D, K in *. cbn [Nat.eqb] in *. lia.
Qed.

(** rooted binary tree whose two root children are inner nodes: the inner branch through
    the root has no proposal, two are missing *)
Theorem nni_count_rooted_inner t :
  wf t = true -> binary t = true -> degree t = 2 -> inner_root_kids t = 2 ->
  length (nni_list t) + 2 = 2 * inner_branch_count t.
Proof.
  intros W B D K. pose proof (binary_count t W B) as H. unfold inner_branch_count, rooted.
  rewrite D, K in *. cbn [Nat.eqb] in *. lia.
Qed.
