(** The static block split of Model/PoolSplit.v processes exactly the first cpu*(len/cpu) edges;
    it is complete iff cpu divides len.  The channel-fed pool processes every edge exactly once
    for every cpu >= 1 (Proofs/Pool.v, Proofs/PoolCells.v). *)
From Coq Require Import Arith Lia List Permutation.
From GT Require Import Model.PoolSplit.
Import ListNotations.

Lemma firstn_add_skipn {A} (a b : nat) (l : list A) :
  firstn (a + b) l = firstn a l ++ firstn b (skipn a l).
Proof.
  revert l. induction a as [|a IH]; intros l; simpl; auto.
  destruct l as [|x l]; simpl.
  - now rewrite firstn_nil.
  - now rewrite IH.
Qed.

Lemma blocks_are_prefix {A} (l : list A) q k :
  concat (map (block A l q) (seq 0 k)) = firstn (k * q) l.
Proof.
  induction k as [|k IH]; [reflexivity|].
  rewrite seq_S, map_app, concat_app, IH. simpl. rewrite app_nil_r.
  unfold block. rewrite <- firstn_add_skipn. f_equal. lia.
Qed.

Lemma split_processed_prefix {A} (edges : list A) cpu :
  split_processed A edges cpu = firstn (cpu * (length edges / cpu)) edges.
Proof. unfold split_processed, block_split. apply blocks_are_prefix. Qed.

Lemma split_processed_length {A} (edges : list A) cpu :
  1 <= cpu -> length (split_processed A edges cpu) = length edges - length edges mod cpu.
Proof.
  intros H. rewrite split_processed_prefix, firstn_length.
  pose proof (Nat.div_mod (length edges) cpu ltac:(lia)) as E. 
  pose proof (Nat.mod_upper_bound (length edges) cpu ltac:(lia)). lia.
Qed.

(** what is dropped: the last len mod cpu edges *)
Lemma split_drops_remainder {A} (edges : list A) cpu :
  edges = split_processed A edges cpu ++ skipn (cpu * (length edges / cpu)) edges.
Proof. rewrite split_processed_prefix. symmetry. apply firstn_skipn. Qed.

Lemma split_complete_iff {A} (edges : list A) cpu :
  1 <= cpu ->
  (Permutation (split_processed A edges cpu) edges <-> length edges mod cpu = 0).
Proof.
  intros H. pose proof (split_processed_length edges cpu H) as L.
  pose proof (Nat.mod_le (length edges) cpu ltac:(lia)) as Hle. split.
  - intros P. apply Permutation_length in P. lia.
  - intros Z. rewrite split_processed_prefix.
    assert (cpu * (length edges / cpu) = length edges) as E.
    { pose proof (Nat.div_mod (length edges) cpu ltac:(lia)). lia. }
    rewrite E, firstn_all. apply Permutation_refl.
Qed.
