(** C05, the index clause of the oracle ([index_ok_data] of Judge/C05.v) accepts the tables that
    ReinitIndexes computes on the result of the model (C04: Model/Index.v [index_tables], described
    by Proofs/IndexEditOps.v [tables_describe]): names = sorted tip names, every tip found with
    its rank as id, every branch with a bitset of that width. *)
From Coq Require Import String ZArith QArith Bool Arith Lia List Permutation.
From GT Require Import Base.Sexp Base.UTree Spec.Obs Model.Reroot Model.Index Model.Outgroup Judge.C05
     Proofs.C05Main Proofs.IndexBase Proofs.IndexTree Proofs.IndexSplit Proofs.IndexEdit Proofs.IndexEditOps
     Proofs.OracleDist.
Import ListNotations.
Local Close Scope Q_scope.

(** the observation that the worker would make of these tables *)
Definition tables_obs (t' : utree) : list string * list (string * bool * Z) * list Z :=
  let ids := sorted_tip_names t' in
  (ids,
   map (fun n => (n, true, Z.of_nat (index_of n ids))) (tip_names t'),
   map (fun r => Z.of_nat (length (r_bits r))) (rows t')).

Lemma rank_of_index_of x l : In x l -> rank_of x l = Some (Z.of_nat (index_of x l)).
Proof.
  induction l as [|y r IH]; simpl; intros H; [tauto|].
  destruct (String.eqb x y) eqn:E; [reflexivity|].
  destruct H as [->|H]; [rewrite String.eqb_refl in E; discriminate|].
  rewrite (IH H). f_equal. lia.
Qed.

Theorem index_ok_tables t' :
  good t' ->
  let '(idx, st, bs) := tables_obs t' in index_ok_data t' idx st bs = None.
Proof.
  intros G. pose proof G as (W & D & ND).
  destruct (good_tables t' G) as (_ & P & F).
  unfold tables_obs, index_ok_data.
  rewrite (sorted_tip_names_ssort t' W D).
  set (tn := ssort (leaves t')).
  rewrite list_eqb_refl_string. cbn [negb].
  rewrite map_map. cbn [fst].
  assert (E1 : map (fun x : string => x) (tip_names t') = leaves t').
  { rewrite map_id. symmetry. now apply leaves_tip_names. }
  rewrite E1. fold tn. rewrite list_eqb_refl_string. cbn [negb].
  assert (E2 : forallb (fun x : string * bool * Z =>
                snd (fst x) && match rank_of (fst (fst x)) tn with Some r => Z.eqb (snd x) r | None => false end)
               (map (fun n => (n, true, Z.of_nat (index_of n tn))) (tip_names t')) = true).
  { apply forallb_forall. intros x Hx. apply in_map_iff in Hx as [n [<- Hn]]. cbn [fst snd andb].
    assert (In n tn).
    { unfold tn. apply (Permutation_in n (ssort_perm (leaves t'))).
      rewrite (leaves_tip_names t' W D). exact Hn. }
    rewrite (rank_of_index_of n tn H). apply Z.eqb_refl. }
  rewrite E2. cbn [negb].
  assert (E3 : forallb (fun w => Z.eqb w (Z.of_nat (length tn)))
                 (map (fun r => Z.of_nat (length (r_bits r))) (rows t')) = true).
  { apply forallb_forall. intros w Hw. apply in_map_iff in Hw as [r [<- Hr]].
    rewrite (sorted_tip_names_ssort t' W D) in F. fold tn in F.
    assert (Hlen : length (r_bits r) = length tn).
    { clear -F Hr. induction F as [|ec r0 l l' H0 Hf IH]; [destruct Hr|].
      destruct Hr as [<-|Hr]; [destruct H0 as [H0 _]; exact H0 | auto]. }
    rewrite Hlen. apply Z.eqb_refl. }
  now rewrite E3.
Qed.
