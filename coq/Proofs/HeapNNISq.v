(** Heap model: NNI, part 5: the refinement squares of nni.Apply / nni.Undo against
    Model/NNI.v ([apply], [undo] = [at_path (swap_local ...)]). *)
From Coq Require Import String ZArith QArith Bool Arith Lia Permutation List.
From GT Require Import Base.UTree Model.Reroot Model.NNI Model.Heap Model.HeapEdit Proofs.Enum Proofs.HeapBase Proofs.HeapRep
     Proofs.HeapGood Proofs.HeapGoodRep Proofs.HeapRerootL Proofs.HeapReorder Proofs.HeapUnrootL Proofs.HeapUnroot
     Proofs.HeapCtx Proofs.HeapGraft Proofs.HeapGraftSq Proofs.HeapCollapse Proofs.HeapPrune Proofs.HeapNNI Proofs.HeapNNIDown Proofs.HeapNNIUp
     Proofs.HeapNNIMain Proofs.HeapCollapseTree Proofs.HeapPaths.
Import ListNotations.
Local Close Scope Q_scope.

Theorem exchange_Rep h h' lt x y xm ym ic ix iy jx jy e1 e2 ec hx hy hxm hym ed1 ed2 edc :
  Rep h lt ->
  alookup x (hnodes h) = Some hx -> alookup y (hnodes h) = Some hy ->
  alookup xm (hnodes h) = Some hxm -> alookup ym (hnodes h) = Some hym ->
  nth_error (slots_of hx) ic = Some (y, ec) -> alookup ec (hedges h) = Some edc -> hleft edc = x ->
  nth_error (slots_of hx) ix = Some (xm, e1) -> xm <> y -> alookup e1 (hedges h) = Some ed1 ->
  nth_error (slots_of hy) iy = Some (ym, e2) -> ym <> x -> alookup e2 (hedges h) = Some ed2 ->
  index_of x (hneigh hxm) = Some jx -> index_of y (hneigh hym) = Some jy ->
  nni_desc h h' x y xm ym ix iy jx jy e1 e2 ec (Nat.eqb (hright ed1) x) hx hy hxm hym ed1 ed2 edc ->
  exists lt', Rep h' lt' /\
    forall p sub j, lnode_at lt p = Some sub -> lid sub = x ->
      (forall ec' eic' suby, nth_error (lslots sub) ic = Some (Some (ec', eic', suby)) -> nth_error (lslots suby) j = Some None) ->
      at_path (swap_local ic j ix iy) p (erase lt) = Some (erase lt').
Proof.
  intros R Hx Hy Hxm Hym Kc Ec Lc Kx Nxmy E1 Ky Nymx E2 Jx Jy D. pose proof (Rep_Good h lt R) as G.
  destruct (Rep_view h lt R x hx Hx) as (p1 & nmx & cmx & sl1 & V1 & V2 & V3 & V4 & V5 & V6).
  (* the central slot is a child slot *)
  destruct (Forall2_nth _ _ _ _ _ V3 Kc) as [sc [Sc Okc]].
  destruct sc as [[[ec' eic] Ysub]|]; cbn [slot_ok fst snd] in Okc.
  2:{ exfalso. subst p1. destruct (Rep_parent h lt R y ec _ V1) as (hm & ed0 & _ & _ & P3 & P4 & P5 & P6). cbn [lid] in P5, P6.
      rewrite Ec in P3. injection P3 as <-. apply P6. left. congruence. }
  destruct Okc as (Pne & -> & Ly & [edc' (Ec' & Ic' & _ & Rc')] & ShY). rewrite Ec in Ec'. injection Ec' as <-.
  destruct Ysub as [y' nmy cmy sl2]. cbn [lid] in Ly. subst y'.
  pose proof ShY as ShY0. apply shape_unfold in ShY. destruct ShY as [hy0 (B1 & B2 & B3 & B4 & B5)]. rewrite Hy in B1. injection B1 as <-.
  (* the slot of ym in y is a child slot *)
  destruct (Forall2_nth _ _ _ _ _ B5 Ky) as [sy [Sy Oky]].
  destruct sy as [[[e2' ei2] B]|]; cbn [slot_ok fst snd] in Oky; [|injection Oky as E0 _; congruence].
  destruct Oky as (_ & -> & LB & [ed2' (E2' & I2' & L2' & R2')] & ShB). rewrite E2 in E2'. injection E2' as <-.
  destruct B as [ym' nmB cmB slB]. cbn [lid] in LB. subst ym'.
  assert (Ed2 : ed2 = mkHE y ym ei2) by (destruct ed2; cbn in *; subst; reflexivity).
  assert (Edc : edc = mkHE x y eic) by (destruct edc; cbn in *; subst; reflexivity).
  assert (HsubY : In (Some (x, ec), LNode y nmy cmy sl2) (lsubs None lt)).
  { eapply lsubs_trans; [exact V1|]. eapply lsubs_child. eapply nth_error_In. exact Sc. }
  (* the slot of xm in x *)
  destruct (Forall2_nth _ _ _ _ _ V3 Kx) as [sx [Sx Okx]].
  assert (Nixc : ix <> ic) by (intros E0; rewrite E0, Kc in Kx; injection Kx as E3 _; congruence).
  destruct sx as [[[e1' ei1] A]|]; cbn [slot_ok fst snd] in Okx.
  - (* a child of x: the exchange happens below x *)
    destruct Okx as (_ & -> & LA & [ed1' (E1' & I1' & L1' & R1')] & ShA). rewrite E1 in E1'. injection E1' as <-.
    destruct A as [xm' nmA cmA slA]. cbn [lid] in LA. subst xm'.
    assert (Ed1 : ed1 = mkHE x xm ei1) by (destruct ed1; cbn in *; subst; reflexivity).
    assert (Fl : Nat.eqb (hright ed1) x = false).
    { rewrite R1'. apply Nat.eqb_neq. intros E0.
      eapply (lids_head_notin _ _ _ _ V4); [eapply nth_error_In; exact Sx|]. rewrite <- E0. left. reflexivity. }
    rewrite Fl, Ed1, Ed2 in D.
    eexists. split.
    { exact (ND_Rep h h' lt R p1 x nmx cmx sl1 ic ix ec eic y nmy cmy sl2 iy e1 ei1 xm nmA cmA slA e2 ei2 ym nmB cmB slB
                  V1 Sc Sx Nixc Sy hx hy hxm hym jx jy edc Hx Hy Hxm Hym Jx Jy Ec D). }
    intros pth sub j Hp Hl Hj. destruct (lnode_at_lsubs pth lt None sub Hp) as [q Hq].
    pose proof (lsubs_inj lt None (q, sub) (p1, LNode x nmx cmx sl1) (rep_nd _ _ R) Hq V1 Hl) as E0. injection E0 as _ ->.
    cbn [lslots] in Hj. specialize (Hj _ _ _ Sc). cbn [lslots] in Hj.
    apply (erase_lreplace_at_path _ _ pth lt (LNode x nmx cmx sl1) Hp (rep_nd _ _ R)).
    rewrite !erase_eq. cbn [swap_local]. rewrite !nth_error_map, Sc. cbn [option_map erase_slot]. rewrite erase_eq.
    rewrite !nth_error_map, Hj, Sy, Sx. cbn [option_map erase_slot]. rewrite !erase_eq.
    rewrite !(map_set_nth erase_slot). cbn [erase_slot]. rewrite !erase_eq, !(map_set_nth erase_slot). cbn [erase_slot]. rewrite !erase_eq. reflexivity.
  - (* the parent of x: the central branch is inverted *)
    subst p1. destruct (Rep_parent h lt R xm e1 _ V1) as (hm & ed0 & P1 & P2 & P3 & P4 & P5 & P6). cbn [lid] in P5, P6.
    rewrite Hxm in P1. injection P1 as <-. rewrite E1 in P3. injection P3 as <-.
    destruct (lsubs_parent _ _ _ _ _ V1) as [[E0 _]|(pP & nmP & cmP & slP & ei1 & HsubP & HsP)]; [discriminate|].
    destruct (In_nth_error _ _ HsP) as [kp Hkp].
    pose proof (shape_lsubs _ _ _ _ _ _ (rep_shape _ _ R) HsubP) as ShP. apply shape_unfold in ShP. destruct ShP as [hP0 (Q1 & Q2 & Q3 & Q4 & Q5)].
    rewrite Hxm in Q1. injection Q1 as <-.
    destruct (Forall2_nth_r _ _ _ _ _ Q5 Hkp) as [[c0 e0] [Kkp Okp]]. cbn [slot_ok fst snd lid] in Okp.
    destruct Okp as (_ & <- & <- & [ed1' (E1' & I1' & _)] & _). rewrite E1 in E1'. injection E1' as <-.
    assert (Ed1 : ed1 = mkHE xm x ei1) by (destruct ed1; cbn in *; subst; reflexivity).
    assert (Fl : Nat.eqb (hright ed1) x = true) by (rewrite P5; apply Nat.eqb_refl).
    assert (Ejx : jx = kp).
    { destruct (nth_slots_neigh hxm kp x e1 Q4 Kkp) as [Hn _].
      pose proof (index_of_NoDup x (hneigh hxm) kp (g_nodup _ G xm hxm Hxm) Hn) as I0. congruence. }
    subst jx. rewrite Fl, Ed1, Ed2, Edc in D.
    (* y's parent slot *)
    destruct (lwf_sub_lsubs lt None _ _ (or_introl (rep_wf _ _ R)) HsubY) as [E0|WY]; [discriminate|].
    apply lwf_sub_iff in WY. destruct WY as [WY1 _].
    assert (In None sl2) as HN by (apply lnup_pos_in; lia). destruct (In_nth_error _ _ HN) as [j Hj].
    eexists. split.
    { exact (NU_Rep h h' lt R pP xm nmP cmP slP kp e1 ei1 x nmx cmx sl1 ic ix ec eic y nmy cmy sl2 j iy e2 ei2 ym nmB cmB slB
                  HsubP Hkp Sx Sc Hj Sy hx hy hxm hym jy Hx Hy Hxm Hym Jy D). }
    intros pth sub j' Hp Hl Hj'. destruct (lnode_at_lsubs pth lt None sub Hp) as [q Hq].
    pose proof (lsubs_inj lt None (q, sub) (Some (xm, e1), LNode x nmx cmx sl1) (rep_nd _ _ R) Hq V1 Hl) as E0. injection E0 as _ ->.
    cbn [lslots] in Hj'. specialize (Hj' _ _ _ Sc). cbn [lslots] in Hj'.
    assert (j' = j) by (eapply (lnup_le1_nth sl2); [lia|exact Hj'|exact Hj]). subst j'.
    rewrite (lreplace_child lt None pP xm nmP cmP slP kp e1 ei1 (LNode x nmx cmx sl1) _ (rep_nd _ _ R) HsubP Hkp). cbn [lid].
    apply (erase_lreplace_at_path _ _ pth lt (LNode x nmx cmx sl1) Hp (rep_nd _ _ R)).
    rewrite !erase_eq. cbn [swap_local]. rewrite !nth_error_map, Sc. cbn [option_map erase_slot]. rewrite erase_eq.
    rewrite !nth_error_map, Hj, Sy, Sx. cbn [option_map erase_slot]. rewrite !erase_eq.
    rewrite !(map_set_nth erase_slot). cbn [erase_slot]. rewrite !erase_eq, !(map_set_nth erase_slot). cbn [erase_slot]. rewrite !erase_eq. reflexivity.
Qed.

Theorem nni_apply_square h lt r n1 n2 q hn1 hn2 ec edc sub : Rep h lt ->
  alookup n1 (hnodes h) = Some hn1 -> alookup n2 (hnodes h) = Some hn2 ->
  In (n2, ec) (slots_of hn1) -> alookup ec (hedges h) = Some edc -> hleft edc = n1 ->
  length (hneigh hn1) = 3 -> length (hneigh hn2) = 3 ->
  new_nni_heap h n1 n2 (r_cross r) = HOk q ->
  lnode_at lt (r_path r) = Some sub -> lid sub = n1 ->
  nth_error (hneigh hn1) (r_k r) = Some n2 -> nth_error (hneigh hn2) (r_j r) = Some n1 ->
  exists h' lt', nni_apply_heap q h = HOk h' /\ Rep h' lt' /\ apply r (erase lt) = Some (erase lt').
Proof.
  intros R H1 H2 Hin Ec Lc D1 D2 Eq Hpath Hlid Hrk Hrj. pose proof (Rep_Good h lt R) as G. set (cross := r_cross r) in *.
  pose proof (g_len _ G n1 hn1 H1) as L1. pose proof (g_len _ G n2 hn2 H2) as L2.
  pose proof (g_nodup _ G n1 hn1 H1) as Nd1. pose proof (g_nodup _ G n2 hn2 H2) as Nd2.
  destruct (In_nth_error _ _ Hin) as [ic Kc]. destruct (nth_slots_neigh hn1 ic n2 ec L1 Kc) as [Kcn Kcb].
  assert (Ic : index_of n2 (hneigh hn1) = Some ic) by (apply index_of_NoDup; assumption).
  assert (Lic : ic < 3) by (rewrite <- D1; apply nth_error_Some; congruence).
  assert (Hs12 : has_slot h n1 n2 ec) by (exists hn1; split; assumption).
  destruct (g_sym _ G n1 n2 ec Hs12) as [hn2' [H2' Hin2]]. rewrite H2 in H2'. injection H2' as <-.
  destruct (In_nth_error _ _ Hin2) as [j Kj]. destruct (nth_slots_neigh hn2 j n1 ec L2 Kj) as [Kjn Kjb].
  assert (Ij : index_of n1 (hneigh hn2) = Some j) by (apply index_of_NoDup; assumption).
  assert (Lj : j < 3) by (rewrite <- D2; apply nth_error_Some; congruence).
  (* what newNNI read *)
  unfold new_nni_heap, get_node in Eq. rewrite H1, H2 in Eq. cbn [hbind] in Eq. rewrite Ic, Ij in Eq. cbn [idx_plus] in Eq.
  unfold nth_res in Eq.
  destruct (nth_error (hneigh hn1) (Nat.modulo (ic + 1) 3)) as [n11|] eqn:E11; [|discriminate]. cbn [hbind] in Eq.
  destruct (nth_error (hneigh hn1) (Nat.modulo (ic + 2) 3)) as [n12|] eqn:E12; [|discriminate]. cbn [hbind] in Eq.
  destruct (nth_error (hneigh hn2) (Nat.modulo (j + 1) 3)) as [n21|] eqn:E21; [|discriminate]. cbn [hbind] in Eq.
  destruct (nth_error (hneigh hn2) (Nat.modulo (j + 2) 3)) as [n22|] eqn:E22; [|discriminate]. cbn [hbind] in Eq.
  injection Eq as <-.
  set (ix := Nat.modulo (ic + 2) 3) in *.
  set (iy := if cross then Nat.modulo (j + 1) 3 else Nat.modulo (j + 2) 3).
  set (ym := if cross then n21 else n22).
  assert (Eym : nth_error (hneigh hn2) iy = Some ym) by (unfold iy, ym; destruct cross; assumption).
  destruct (mod3_facts ic 2 Lic (or_intror eq_refl)) as [Lix Nix]. fold ix in Lix, Nix.
  assert (Liy : iy < 3 /\ iy <> j) by (unfold iy; destruct cross; [apply mod3_facts; [exact Lj|left; reflexivity]|apply mod3_facts; [exact Lj|right; reflexivity]]).
  destruct Liy as [Liy Niy].
  assert (Ix : index_of n12 (hneigh hn1) = Some ix) by (apply index_of_NoDup; assumption).
  assert (Iy : index_of ym (hneigh hn2) = Some iy) by (apply index_of_NoDup; assumption).
  destruct (nth_error_lt_some (hbr hn1) ix) as [e1 B1]; [rewrite <- L1, D1; exact Lix|].
  destruct (nth_error_lt_some (hbr hn2) iy) as [e2 B2]; [rewrite <- L2, D2; exact Liy|].
  pose proof (nth_combine _ _ _ _ _ E12 B1) as Kx. pose proof (nth_combine _ _ _ _ _ Eym B2) as Ky.
  change (combine (hneigh hn1) (hbr hn1)) with (slots_of hn1) in Kx. change (combine (hneigh hn2) (hbr hn2)) with (slots_of hn2) in Ky.
  assert (Hsx : has_slot h n1 n12 e1) by (exists hn1; split; [exact H1|eapply nth_error_In; exact Kx]).
  assert (Hsy : has_slot h n2 ym e2) by (exists hn2; split; [exact H2|eapply nth_error_In; exact Ky]).
  destruct (g_slot_exists _ G _ _ _ Hsx) as [Xm Xe]. destruct (g_slot_exists _ G _ _ _ Hsy) as [Ym Ye].
  destruct (alookup n12 (hnodes h)) as [hxm|] eqn:Hxm; [clear Xm|congruence].
  destruct (alookup ym (hnodes h)) as [hym|] eqn:Hym; [clear Ym|congruence].
  destruct (alookup e1 (hedges h)) as [ed1|] eqn:E1; [clear Xe|congruence].
  destruct (alookup e2 (hedges h)) as [ed2|] eqn:E2; [clear Ye|congruence].
  assert (Nxmy : n12 <> n2).
  { intros E0. apply Nix. apply (proj1 (NoDup_nth_error _) Nd1); [apply nth_error_Some; congruence|congruence]. }
  assert (Nymx : ym <> n1).
  { intros E0. apply Niy. apply (proj1 (NoDup_nth_error _) Nd2); [apply nth_error_Some; congruence|congruence]. }
  destruct (g_sym _ G _ _ _ Hsx) as [hxm' [Hxm' Inx]]. rewrite Hxm in Hxm'. injection Hxm' as <-.
  destruct (g_sym _ G _ _ _ Hsy) as [hym' [Hym' Iny]]. rewrite Hym in Hym'. injection Hym' as <-.
  destruct (index_of_In n1 (hneigh hxm) (slots_of_in_neigh _ _ _ Inx)) as [jx Jx].
  destruct (index_of_In n2 (hneigh hym) (slots_of_in_neigh _ _ _ Iny)) as [jy Jy].
  destruct (exchange_distinct h n1 n2 n12 ym ic ix iy e1 e2 ec hn1 hn2 hxm hym ed1 ed2 edc G H1 H2 Hxm Hym Kc Ec Lc Kx Nxmy E1 Ky Nymx E2)
    as (N1 & N2 & N3 & N4 & N5 & N6 & M1 & M2 & M3).
  destruct (nni_apply_eval h (mkHNNI n1 n2 n11 n12 n21 n22 cross) hn1 hn2 hxm hym ix iy jx jy ic e1 e2 ec ed1 ed2 edc) as [h' [Ev D]];
    cbn [q_n1 q_n2 q_n12 q_n21 q_n22 q_cross]; fold ym; try assumption.
  - rewrite D1. exact Lix.
  - rewrite D2. exact Liy.
  - apply nth_error_Some. destruct (index_of_spec _ _ _ Jx) as [X _]. congruence.
  - apply nth_error_Some. destruct (index_of_spec _ _ _ Jy) as [X _]. congruence.
  - cbn [q_n1 q_n2 q_n12 q_n21 q_n22 q_cross] in D. fold ym in D.
    rewrite (flag_down h n1 n2 ym ec e2 edc ed2 G Hs12 Hsy Ec E2 Lc M3), orb_false_r in D.
    destruct (exchange_Rep h h' lt n1 n2 n12 ym ic ix iy jx jy e1 e2 ec hn1 hn2 hxm hym ed1 ed2 edc R H1 H2 Hxm Hym Kc Ec Lc Kx Nxmy E1 Ky Nymx E2 Jx Jy D)
      as [lt' [R' Hsq]].
    exists h', lt'. split; [exact Ev|]. split; [exact R'|].
    assert (Erk : r_k r = ic) by (apply (proj1 (NoDup_nth_error _) Nd1); [apply nth_error_Some; congruence|congruence]).
    assert (Erj : r_j r = j) by (apply (proj1 (NoDup_nth_error _) Nd2); [apply nth_error_Some; congruence|congruence]).
    unfold apply, n12_index, n22_index. rewrite Erk, Erj. fold cross. fold ix. 
    replace (if cross then Nat.modulo (j + 1) 3 else Nat.modulo (j + 2) 3) with iy by reflexivity.
    apply (Hsq (r_path r) sub j Hpath Hlid).
    (* the slot j of the lower node is its parent slot *)
    intros ec' eic' suby Hsl.
    destruct (lnode_at_lsubs (r_path r) lt None sub Hpath) as [q0 Hq0].
    pose proof (shape_lsubs _ _ _ _ _ _ (rep_shape _ _ R) Hq0) as Shs. destruct sub as [i0 nm0 cm0 sl0]. cbn [lid lslots] in *. subst i0.
    apply shape_unfold in Shs. destruct Shs as [hx0 (A1 & A2 & A3 & A4 & A5)]. rewrite H1 in A1. injection A1 as <-.
    destruct (Forall2_nth_r _ _ _ _ _ A5 Hsl) as [[c0 e0] [K1 K2]]. cbn [slot_ok fst snd] in K2. destruct K2 as (_ & K4 & K5 & _ & K7).
    pose proof Kc as Kc'. unfold slots_of in Kc'. rewrite Kc' in K1. injection K1 as <- <-.
    destruct suby as [y0 nmy cmy sly]. cbn [lid lslots] in *. subst y0.
    assert (Ndsub : NoDup (lids (LNode n1 nm0 cm0 sl0))) by (eapply lsubs_NoDup; [exact (rep_nd _ _ R)|exact Hq0]).
    apply shape_unfold in K7. destruct K7 as [hy0 (B1' & B2' & B3' & B4' & B5')]. rewrite H2 in B1'. injection B1' as <-.
    destruct (Forall2_nth _ _ _ _ _ B5' Kj) as [sj [Sj Okj]]. rewrite Sj. f_equal.
    destruct sj as [[[ej eij] chj]|]; [|reflexivity]. exfalso. cbn [slot_ok fst snd] in Okj. destruct Okj as (_ & _ & Lj' & _).
    eapply (lids_head_notin _ _ _ _ Ndsub); [eapply nth_error_In; exact Hsl|]. rewrite lids_eq. right.
    eapply in_sids; [eapply nth_error_In; exact Sj|]. rewrite <- Lj'. apply lid_in_lids.
Qed.
