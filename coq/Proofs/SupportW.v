(** Repetition = multiplicity: FBP / TBE and the definitions on a collection given with
    multiplicities are those on the expanded list. *)
From Coq Require Import String ZArith QArith Bool Arith Lia List.
From GT Require Import Base.UTree Spec.Obs Spec.Support Spec.SupportW Model.Support Model.SupportW
     Proofs.SupportBase Proofs.SupportClosed.
Import ListNotations.
Local Close Scope Q_scope.
Local Open Scope string_scope.

Lemma cnt_repeat : forall A (f : A -> bool) x k, cnt f (repeat x k) = if f x then k else 0.
Proof.
  intros A f x k. unfold cnt. induction k as [|k IH]; simpl; [destruct (f x); reflexivity|].
  destruct (f x); simpl; rewrite IH; reflexivity.
Qed.

Lemma length_expand : forall w, length (expand w) = wlen w.
Proof.
  induction w as [|[k t] w IH]; [reflexivity|]. unfold expand in *. simpl.
  rewrite app_length, repeat_length, IH. reflexivity.
Qed.

Lemma cnt_expand : forall f w, cnt f (expand w) = wcnt f w.
Proof.
  intros f. induction w as [|[k t] w IH]; [reflexivity|]. unfold expand in *. simpl.
  rewrite cnt_app, cnt_repeat, IH. reflexivity.
Qed.

Lemma sumd_app : forall T (d : T -> nat) a b, sumd d (a ++ b) = sumd d a + sumd d b.
Proof. intros T d a b. induction a as [|x a IH]; simpl; [reflexivity|]. rewrite IH. lia. Qed.

Lemma sumd_repeat : forall T (d : T -> nat) x k, sumd d (repeat x k) = k * d x.
Proof. intros T d x k. induction k as [|k IH]; simpl; [reflexivity|]. rewrite IH. lia. Qed.

Lemma sumd_expand : forall d w, sumd d (expand w) = wsum d w.
Proof.
  intros d. induction w as [|[k t] w IH]; [reflexivity|]. unfold expand in *. simpl.
  rewrite sumd_app, sumd_repeat, IH. reflexivity.
Qed.

Lemma expand_nil : forall w, expand w = [] <-> wlen w = 0.
Proof. intros w. rewrite <- length_expand. destruct (expand w); simpl; split; intros; try reflexivity; try discriminate; lia. Qed.

(** * the definitions *)
Theorem fbp_spec_expand : forall X A w, fbp_spec X A (expand w) = fbp_spec_w X A w.
Proof.
  intros X A w. unfold fbp_spec, fbp_spec_w, n_with_split.
  fold (cnt (has_split X A) (expand w)). rewrite cnt_expand, length_expand. reflexivity.
Qed.

Lemma sum_delta_sumd : forall X L boots, sum_delta X L boots = sumd (delta X L) boots.
Proof. reflexivity. Qed.

Theorem tbe_spec_expand : forall X A w, tbe_spec X A (expand w) = tbe_spec_w X A w.
Proof.
  intros X A w. unfold tbe_spec, tbe_spec_w. rewrite sum_delta_sumd, sumd_expand, length_expand. reflexivity.
Qed.

(** * the model *)
Lemma first_err_repeat : forall ref b k rest,
    first_err ref (repeat b k ++ rest)
    = if Nat.eqb k 0 || no_err (boot_err ref b) then first_err ref rest else boot_err ref b.
Proof.
  intros ref b k rest. induction k as [|k IH]; [reflexivity|].
  cbn [repeat app first_err Nat.eqb orb].
  destruct (no_err (boot_err ref b)) eqn:E.
  - rewrite IH, orb_true_r. reflexivity.
  - reflexivity.
Qed.

Lemma first_err_expand : forall ref w, first_err ref (expand w) = wfirst_err ref w.
Proof.
  intros ref. induction w as [|[k t] w IH]; [reflexivity|]. unfold expand in *. simpl.
  rewrite first_err_repeat, IH. reflexivity.
Qed.

Lemma n_before_err_repeat : forall ref b k rest,
    n_before_err ref (repeat b k ++ rest)
    = if Nat.eqb k 0 || no_err (boot_err ref b) then k + n_before_err ref rest else 0.
Proof.
  intros ref b k rest. induction k as [|k IH]; [reflexivity|].
  cbn [repeat app n_before_err Nat.eqb orb].
  destruct (no_err (boot_err ref b)) eqn:E; [|reflexivity].
  rewrite IH, orb_true_r. reflexivity.
Qed.

Theorem n_processed_expand : forall ref w, n_processed ref (expand w) = wn_processed ref w.
Proof.
  intros ref w. unfold n_processed, wn_processed. destruct (has_dup (tip_names ref)); [reflexivity|].
  induction w as [|[k t] w IH]; [reflexivity|]. unfold expand in *. simpl.
  rewrite n_before_err_repeat, IH. reflexivity.
Qed.

Lemma taxa_ok_first_err : forall ref boots,
    has_dup (tip_names ref) = false -> taxa_ok ref boots = no_err (first_err ref boots).
Proof. intros ref boots H. unfold taxa_ok. rewrite H, first_err_ok. reflexivity. Qed.

(** same error; same supports when there is none *)
Theorem fbp_expand : forall ref w,
    oerr (fbp ref (expand w)) = oerr (fbp_w ref w) /\
    (oerr (fbp_w ref w) = "" -> fbp ref (expand w) = fbp_w ref w).
Proof.
  intros ref w. destruct (has_dup (tip_names ref)) eqn:D.
  - unfold fbp, fbp_w. rewrite D. split; [reflexivity|discriminate].
  - split.
    + rewrite (fbp_err ref _ D), first_err_expand. unfold fbp_w. rewrite D.
      destruct (no_err (wfirst_err ref w)) eqn:N; [|reflexivity].
      apply String.eqb_eq in N. exact N.
    + intros E. unfold fbp_w in *. rewrite D in *.
      destruct (no_err (wfirst_err ref w)) eqn:N.
      * rewrite fbp_closed by (rewrite (taxa_ok_first_err _ _ D), first_err_expand; exact N).
        f_equal. apply map_ext. intros [e c]. cbn [fst snd]. destruct (is_tip c); [reflexivity|].
        unfold fbp_val. rewrite length_expand. unfold fbp_has.
        rewrite (cnt_expand (fun b => index_has (tip_names ref) (fbp_index b) (below c)) w). reflexivity.
      * cbn [oerr] in E. rewrite E in N. discriminate.
Qed.

Theorem tbe_expand : forall ref w,
    oerr (tbe ref (expand w)) = oerr (tbe_w ref w) /\
    (oerr (tbe_w ref w) = "" -> tbe ref (expand w) = tbe_w ref w).
Proof.
  intros ref w. destruct (has_dup (tip_names ref)) eqn:D.
  - unfold tbe, tbe_w. rewrite D. split; [reflexivity|discriminate].
  - split.
    + rewrite (tbe_err ref _ D), first_err_expand. unfold tbe_w. rewrite D.
      destruct (no_err (wfirst_err ref w)) eqn:N; [|reflexivity].
      apply String.eqb_eq in N. exact N.
    + intros E. unfold tbe_w in *. rewrite D in *.
      destruct (no_err (wfirst_err ref w)) eqn:N.
      * rewrite tbe_closed by (rewrite (taxa_ok_first_err _ _ D), first_err_expand; exact N).
        f_equal. apply map_ext. intros [e c]. cbn [fst snd]. f_equal.
        unfold tbe_val. destruct (Nat.ltb 1 (topo_depth ref c)); [|reflexivity].
        rewrite length_expand.
        rewrite (sumd_expand (tree_dist ref c) w).
        destruct (expand w) eqn:X.
        -- apply expand_nil in X. rewrite X. reflexivity.
        -- assert (wlen w <> 0) by (intros Z; apply expand_nil in Z; congruence).
           destruct (wlen w); [congruence|reflexivity].
      * cbn [oerr] in E. rewrite E in N. discriminate.
Qed.
