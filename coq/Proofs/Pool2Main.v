(** Final statement forms (re-exported by Properties/C11Pool2.v) for
    - the pool with bounded / unbuffered channels, closer and caller (Model/Pool2.v),
    - TBE's inner pool over shared cells (Model/PoolCells.v),
    - hashmap's RWMutex discipline (Model/RWLock.v). *)
From Coq Require Import Bool Arith Lia List Permutation.
From GT Require Import Model.Pool Model.Pool2 Model.PoolCells Model.RWLock.
From GT Require Import Proofs.Pool Proofs.PoolLive Proofs.Pool2 Proofs.Pool2Live Proofs.PoolCells Proofs.RWLock.
Import ListNotations.

Local Arguments run {job res err}.
Local Arguments init {job res err}.
Local Arguments busy_jobs {job res err} s.
Local Arguments is_exited {job} w.
Local Arguments pending2 {job res err} s.
Local Arguments closed2 {job res err} s.
Local Arguments queue2 {job res err} s.
Local Arguments ws2 {job res err} s.
Local Arguments rchan {job res err} s.
Local Arguments closed_out {job res err} s.
Local Arguments recvd {job res err} s.
Local Arguments caller_done {job res err} s.
Local Arguments errs2 {job res err} s.
Local Arguments run2 {job res err}.
Local Arguments init2 {job res err}.
Local Arguments abs {job res err}.
Local Arguments cws {job val acc} _.
Local Arguments cells {job val acc} _.
Local Arguments accu {job val acc} _.
Local Arguments crun {job val acc}.
Local Arguments cinit {job val acc}.
Local Arguments cfinished {job val acc} _.
Local Arguments seq_cells {job val}.
Local Arguments seq_accu {job acc}.
Local Arguments threads {key val mp} _.
Local Arguments readers {key val mp} _.
Local Arguments writer {key val mp} _.
Local Arguments themap {key val mp} _.
Local Arguments torn {key val mp} _.
Local Arguments rlog {key val mp} _.
Local Arguments rwrun {key val mp}.
Local Arguments rwinit {key val mp}.
Local Arguments quiescent {key val mp}.
Local Arguments seq_exec {key val mp}.
Local Arguments proj {key val}.

(** * 1. Pool2 *)
Section Main2.
  Variables (job res err : Type).
  Variable f : job -> res.
  Variable fails : job -> bool.
  Variable e_of : job -> err.

  Lemma pool2_simulates on_fail done_on_exit cj cr (jobs : list job) n sched :
    exists sched1,
      abs (run2 f fails e_of on_fail done_on_exit cj cr sched (init2 jobs n))
      = run f fails e_of on_fail done_on_exit sched1 (init jobs n).
  Proof. apply simulation. Qed.

  Lemma pool2_channels on_fail done_on_exit cj cr (jobs : list job) n sched :
    let s := run2 f fails e_of on_fail done_on_exit cj cr sched (init2 jobs n) in
    length (queue2 s) <= cj /\ length (rchan s) <= cr
    /\ (closed_out s = true -> forallb is_exited (ws2 s) = true)
    /\ (caller_done s = true -> closed_out s = true /\ rchan s = []).
  Proof.
    intros s. destruct (inv2_reach _ _ _ f fails e_of on_fail done_on_exit cj cr jobs n sched).
    auto.
  Qed.

  Lemma pool2_conservation on_fail done_on_exit cj cr (jobs : list job) n sched :
    let s := run2 f fails e_of on_fail done_on_exit cj cr sched (init2 jobs n) in
    exists processed,
      Permutation jobs (pending2 s ++ queue2 s ++ busy_jobs (abs s) ++ processed)
      /\ recvd s ++ rchan s = match on_fail with
                              | Continue => map f processed
                              | Stop => map f (filter (fun j => negb (fails j)) processed)
                              end
      /\ errs2 s = map e_of (filter fails processed).
  Proof. apply conservation2. Qed.

  Lemma pool2_results on_fail done_on_exit cj cr (jobs : list job) n sched :
    on_fail = Continue \/ (forall j, In j jobs -> fails j = false) -> 1 <= n ->
    let s := run2 f fails e_of on_fail done_on_exit cj cr sched (init2 jobs n) in
    caller_done s = true -> Permutation (recvd s) (map f jobs).
  Proof. apply results2. Qed.

  (** any two runs: different schedules, worker counts and channel capacities *)
  Lemma pool2_results_two_runs on_fail done_on_exit (jobs : list job)
        cj1 cr1 n1 sched1 cj2 cr2 n2 sched2 :
    on_fail = Continue \/ (forall j, In j jobs -> fails j = false) -> 1 <= n1 -> 1 <= n2 ->
    let s1 := run2 f fails e_of on_fail done_on_exit cj1 cr1 sched1 (init2 jobs n1) in
    let s2 := run2 f fails e_of on_fail done_on_exit cj2 cr2 sched2 (init2 jobs n2) in
    caller_done s1 = true -> caller_done s2 = true -> Permutation (recvd s1) (recvd s2).
  Proof.
    intros H H1 H2 s1 s2 D1 D2.
    eapply Permutation_trans.
    - apply (results2 _ _ _ f fails e_of on_fail done_on_exit cj1 cr1 jobs n1 sched1 H H1 D1).
    - symmetry.
      apply (results2 _ _ _ f fails e_of on_fail done_on_exit cj2 cr2 jobs n2 sched2 H H2 D2).
  Qed.

  Lemma pool2_errors_reach_caller on_fail done_on_exit cj cr (jobs : list job) n sched :
    1 <= n ->
    let s := run2 f fails e_of on_fail done_on_exit cj cr sched (init2 jobs n) in
    caller_done s = true -> (exists j, In j jobs /\ fails j = true) -> errs2 s <> [].
  Proof. apply errors2. Qed.

  Lemma pool2_errors_all_reported done_on_exit cj cr (jobs : list job) n sched :
    1 <= n ->
    let s := run2 f fails e_of Continue done_on_exit cj cr sched (init2 jobs n) in
    caller_done s = true -> Permutation (errs2 s) (map e_of (filter fails jobs)).
  Proof. apply errors_all2. reflexivity. Qed.

  Lemma pool2_deadlock_free_done on_fail cj cr (jobs : list job) n sched :
    exists cont,
      caller_done (run2 f fails e_of on_fail true cj cr cont
                     (run2 f fails e_of on_fail true cj cr sched (init2 jobs n))) = true.
  Proof. apply deadlock_free. left. reflexivity. Qed.

  Lemma pool2_deadlock_free_continue done_on_exit cj cr (jobs : list job) n sched :
    exists cont,
      caller_done (run2 f fails e_of Continue done_on_exit cj cr cont
                     (run2 f fails e_of Continue done_on_exit cj cr sched (init2 jobs n))) = true.
  Proof. apply deadlock_free. right. reflexivity. Qed.

  (** the defect pattern is still a hang of the caller: a Dead worker keeps wg.Wait() blocked *)
  Lemma pool2_dead_worker_hangs_caller cj cr (jobs : list job) n sched :
    let s := run2 f fails e_of Stop false cj cr sched (init2 jobs n) in
    In Dead (ws2 s) -> forall cont,
    caller_done (run2 f fails e_of Stop false cj cr cont s) = false.
  Proof.
    intros s Hd cont.
    destruct (caller_done (run2 f fails e_of Stop false cj cr cont s)) eqn:D; auto. exfalso.
    pose proof (caller_done_finished _ _ _ f fails e_of Stop false cj cr jobs n (sched ++ cont)) as H.
    rewrite run2_app in H. fold s in H. destruct (H D) as (F & _).
    destruct (sim_run _ _ _ f fails e_of Stop false cj cr cont s) as (s1 & E).
    rewrite E in F.
    assert (In Dead (Pool.ws _ _ _ (abs s))) as Hd' by exact Hd.
    rewrite (dead_never_finished _ _ _ f fails e_of Stop false s1 (abs s) Hd') in F. discriminate.
  Qed.

  Lemma pool2_leak_not_hang on_fail cj cr (jobs : list job) n sched :
    let s := run2 f fails e_of on_fail true cj cr sched (init2 jobs n) in
    forallb is_exited (ws2 s) = true -> pending2 s <> [] -> cj <= length (queue2 s) ->
    (forall cont, let s' := run2 f fails e_of on_fail true cj cr cont s in
                  pending2 s' = pending2 s /\ closed2 s' = false)
    /\ (exists cont, caller_done (run2 f fails e_of on_fail true cj cr cont s) = true).
  Proof. apply leak_not_hang. left. reflexivity. Qed.

  Lemma pool2_stop_leak_unavoidable cj cr (jobs : list job) n sched :
    (forall j, In j jobs -> fails j = true) -> n + cj < length jobs ->
    let s := run2 f fails e_of Stop true cj cr sched (init2 jobs n) in
    (pending2 s <> [] /\ closed2 s = false)
    /\ (exists cont, caller_done (run2 f fails e_of Stop true cj cr cont s) = true).
  Proof.
    intros Hf Hl s. split.
    - apply stop_leak_unavoidable; auto.
    - apply deadlock_free. left. reflexivity.
  Qed.

  Lemma pool2_stop_leak_witness cr j1 j2 rest :
    fails j1 = true ->
    let s := run2 f fails e_of Stop true 0 cr [3; 3] (init2 (j1 :: j2 :: rest) 1) in
    forallb is_exited (ws2 s) = true /\ pending2 s = j2 :: rest /\ queue2 s = []
    /\ closed2 s = false /\ errs2 s = [e_of j1].
  Proof. intros F. apply stop_leak_witness; auto. Qed.
End Main2.

(** * 2. TBE's inner pool *)
Section MainCells.
  Variables (job val acc : Type).
  Variable cell : job -> nat.
  Variable upd : job -> val -> val.
  Variable contrib : job -> acc.
  Variable op : acc -> acc -> acc.

  Lemma cells_final_memory cj (jobs : list job) n c0 a0 sched :
    NoDup (map cell jobs) ->
    (forall a b c, op (op a b) c = op a (op b c)) -> (forall a b, op a b = op b a) ->
    1 <= n ->
    let s := crun cell upd contrib op cj sched (cinit jobs n c0 a0) in
    cfinished s = true ->
    (forall c, cells s c = seq_cells cell upd jobs c0 c) /\ accu s = seq_accu contrib op jobs a0.
  Proof. intros N A C Hn. apply final_memory; auto. Qed.

  Lemma cells_two_runs (jobs : list job) c0 a0 cj1 n1 sched1 cj2 n2 sched2 :
    NoDup (map cell jobs) ->
    (forall a b c, op (op a b) c = op a (op b c)) -> (forall a b, op a b = op b a) ->
    1 <= n1 -> 1 <= n2 ->
    let s1 := crun cell upd contrib op cj1 sched1 (cinit jobs n1 c0 a0) in
    let s2 := crun cell upd contrib op cj2 sched2 (cinit jobs n2 c0 a0) in
    cfinished s1 = true -> cfinished s2 = true ->
    (forall c, cells s1 c = cells s2 c) /\ accu s1 = accu s2.
  Proof.
    intros N A C H1 H2 s1 s2 F1 F2.
    destruct (final_memory _ _ _ cell upd contrib op cj1 jobs n1 c0 a0 N sched1 A C H1 F1) as [X1 Y1].
    destruct (final_memory _ _ _ cell upd contrib op cj2 jobs n2 c0 a0 N sched2 A C H2 F2) as [X2 Y2].
    fold s1 in X1, Y1. fold s2 in X2, Y2. split.
    - intros c. now rewrite X1, X2.
    - now rewrite Y1, Y2.
  Qed.
End MainCells.

(** * 3. hashmap's RWMutex *)
Section MainRW.
  Variables (key val mp : Type).
  Variable get : mp -> key -> option val.
  Variable put : mp -> key -> val -> mp.
  Variable garbage : option val.

  Lemma rw_linearizable (progs : list (list (op key val))) m0 sched :
    let s := rwrun get put garbage sched (rwinit progs m0) in
    exists h,
      seq_exec get put h m0 = (themap s, rlog s)
      /\ (forall t p, nth_error progs t = Some p -> exists rest, p = proj t h ++ rest)
      /\ (forall t o, In (t, o) h -> exists p, nth_error progs t = Some p /\ In o p)
      /\ (quiescent s = true -> forall t p, nth_error progs t = Some p -> proj t h = p).
  Proof. apply linearizable. Qed.

  Lemma rw_reader_never_sees_torn_map (progs : list (list (op key val))) m0 sched t th :
    let s := rwrun get put garbage sched (rwinit progs m0) in
    nth_error (threads s) t = Some th -> ph th = PR -> torn s = false.
  Proof.
    intros s E P.
    destruct (invs_run _ _ _ get put garbage progs m0 sched _ (lock_inv_init _ _ _ progs m0)
                       (hinv_init _ _ _ get put progs m0)) as [LI _].
    apply nth_error_split in E. destruct E as (l1 & l2 & Hl & _).
    destruct th as [td p]. simpl in P. subst p.
    eapply reader_sees_whole; eauto.
  Qed.

  (** the lock word is exact, and a writer excludes everybody *)
  Lemma rw_mutual_exclusion (progs : list (list (op key val))) m0 sched :
    let s := rwrun get put garbage sched (rwinit progs m0) in
    let holdsR th := match ph th with PR | PRd => true | _ => false end in
    let holdsW th := match ph th with PW | PWt | PWd => true | _ => false end in
    readers s = length (filter holdsR (threads s))
    /\ length (filter holdsW (threads s)) = (if writer s then 1 else 0)
    /\ (writer s = true -> readers s = 0)
    /\ (torn s = true -> writer s = true).
  Proof.
    intros s holdsR holdsW.
    destruct (invs_run _ _ _ get put garbage progs m0 sched _ (lock_inv_init _ _ _ progs m0)
                       (hinv_init _ _ _ get put progs m0)) as [[Hr Hw He Ht] _].
    fold s in Hr, Hw, He, Ht.
    assert (CR : forall l : list (thr key val), cnt _ _ (cR key val) l = length (filter holdsR l)).
    { induction l as [|th l IH]; simpl; auto. unfold cnt in *. simpl. rewrite IH.
      unfold cR, holdsR. destruct (ph th); reflexivity. }
    assert (CW : forall l : list (thr key val), cnt _ _ (cW key val) l = length (filter holdsW l)).
    { induction l as [|th l IH]; simpl; auto. unfold cnt in *. simpl. rewrite IH.
      unfold cW, holdsW. destruct (ph th); reflexivity. }
    rewrite <- CR, <- CW. repeat split; auto.
    intros T. pose proof (cnt_T_le_W _ _ (threads s)) as Hle.
    rewrite T in Ht. unfold b1 in *. simpl in Ht. destruct (writer s); auto. simpl in Hw. lia.
  Qed.

  Lemma rw_read_only (progs : list (list (op key val))) m0 sched :
    (forall p o, In p progs -> In o p -> exists k, o = Get k) ->
    let s := rwrun get put garbage sched (rwinit progs m0) in
    themap s = m0
    /\ (forall t k v, In (t, k, v) (rlog s) -> v = get m0 k)
    /\ (quiescent s = true -> forall t p, nth_error progs t = Some p ->
        map (fun e => (snd (fst e), snd e)) (filter (fun e => Nat.eqb (fst (fst e)) t) (rlog s))
        = map (fun o => match o with Get k | Put k _ => (k, get m0 k) end) p).
  Proof.
    intros Hg s.
    assert (Hg' : forall p o, In p progs -> In o p -> is_get _ _ o = true).
    { intros p o Hp Ho. destruct (Hg p o Hp Ho) as (k & ->). reflexivity. }
    destruct (read_only _ _ _ get put garbage progs m0 sched Hg') as (A & B & C).
    fold s in A, B, C. repeat split; auto.
    intros Q t p Hn. specialize (C Q t p Hn). unfold results in C. rewrite C.
    apply map_ext. intros [k|k v]; reflexivity.
  Qed.
End MainRW.

(** * Concrete instances *)

Definition ex2_f (j : nat) : nat := 10 * j.
Definition ex2_fails (j : nat) : bool := j =? 2.
Definition ex2_err (j : nat) : nat := 100 + j.

(** both channels unbuffered (tree.Compare): 3 jobs, 2 workers, two interleavings *)
Lemma example2_unbuffered :
  let go sched := run2 ex2_f ex2_fails ex2_err Continue true 0 0 sched (init2 [1;2;3] 2) in
  let sa := go [3;3; 3;3; 3;3; 0; 3; 4; 1; 2] in
  let sb := go [3;4; 4;3; 4;4; 0; 3;4; 1; 2] in
  caller_done sa = true /\ caller_done sb = true
  /\ recvd sa = [10; 20; 30] /\ recvd sb = [20; 10; 30] /\ errs2 sa = [102] /\ errs2 sb = [102].
Proof. vm_compute. repeat split. Qed.

(** Stop with Done everywhere, 4 erroneous jobs, 2 workers, job buffer of 1: the caller finishes
    with the errors, the producer is stuck with a job it can never send *)
Lemma example2_leak :
  let s := run2 ex2_f (fun _ => true) ex2_err Stop true 1 5 [0;3;0;4;3;4;0;1;2;0;0]
                (init2 [1;2;3;4] 2) in
  caller_done s = true /\ errs2 s = [101; 102] /\ pending2 s = [4] /\ queue2 s = [3]
  /\ closed2 s = false.
Proof. vm_compute. repeat split. Qed.

(** cells: jobs 10 and 11 share cell 1 (cell j = j/10, the update adds j): the interleaved run
    loses an update; jobs 10 and 21 own different cells and the same interleaving is harmless *)
Lemma example_cells_race :
  let go sched jobs :=
    crun (fun j => j / 10) (fun j v => v + j) (fun _ => 1) Nat.add 4 sched
         (cinit jobs 2 (fun _ => 0) 0) in
  let seqd := [0;0;0; 1;1;1;1; 1;1;1;1; 1;2] in
  let inter := [0;0;0; 1;2; 1;2; 1;2; 1;2; 1;2] in
  cfinished (go seqd [10;11]) = true /\ cfinished (go inter [10;11]) = true
  /\ cells (go seqd [10;11]) 1 = 21 /\ cells (go inter [10;11]) 1 = 11
  /\ cfinished (go inter [10;21]) = true
  /\ cells (go inter [10;21]) 1 = 10 /\ cells (go inter [10;21]) 2 = 21
  /\ accu (go inter [10;21]) = 2.
Proof. vm_compute. repeat split. Qed.

(** RWMutex: a writer and a reader; the reader's first Value is blocked while the writer is in
    the update (steps of thread 1 in between are stutters), it then sees the new value *)
Definition ex_get (m : list (nat * nat)) (k : nat) : option nat :=
  match find (fun kv => fst kv =? k) m with Some kv => Some (snd kv) | None => None end.
Definition ex_put (m : list (nat * nat)) (k v : nat) : list (nat * nat) := (k, v) :: m.

Lemma example_rw :
  let progs := [[Put 1 5; Get 1]; [Get 1; Get 2]] in
  let go sched := rwrun ex_get ex_put (Some 999) sched (rwinit progs [(2, 7)]) in
  let s1 := go [1;1;1; 0;0;0;0; 1;1;1; 0;0;0] in
  let s2 := go [0;0; 1;1; 0; 1; 0; 1;1;1; 0;0;0; 1;1;1] in
  quiescent s1 = true /\ quiescent s2 = true
  /\ rlog s1 = [(1, 1, None); (1, 2, Some 7); (0, 1, Some 5)]
  /\ rlog s2 = [(1, 1, Some 5); (0, 1, Some 5); (1, 2, Some 7)]
  /\ themap s1 = [(1, 5); (2, 7)] /\ themap s2 = [(1, 5); (2, 7)].
Proof. vm_compute. repeat split. Qed.
