(** Tree.CommonEdges over Edge.FindEdge (Model/Compare.v [common_edges]) on two good trees on the
    same taxa: never an error; counts exactly the considered branches of the first tree that
    have, in the second tree, a branch of the same kind (tip / internal) with the same
    bipartition. *)
From Coq Require Import String NArith ZArith QArith Bool Arith Lia List Permutation.
From GT Require Import Base.UTree Spec.Obs Model.Reroot Model.Index Model.Compare
     Proofs.IndexBase Proofs.IndexTree Proofs.IndexSplit Proofs.IndexEdit.
Import ListNotations.
Local Close Scope Q_scope.

(** FindEdge's answer as a boolean function of the two row lists *)
Definition found_in (rows2 : list erow) (e : erow) : bool :=
  existsb (fun e2 => Bool.eqb (r_tip e) (r_tip e2) && same_bipartition e e2) rows2.
Definition considered (tip_edges : bool) (e : erow) : bool := tip_edges || negb (r_tip e).

Lemma common_loop_gen : forall te rows2 rows1 a c,
    (forall e, In e rows1 -> find_edge e rows2 = Ok (found_in rows2 e)) ->
    common_edges_loop te rows1 rows2 a c =
    Ok ((a + Z.of_nat (length (filter (considered te) rows1))
         - (c + Z.of_nat (length (filter (found_in rows2) (filter (considered te) rows1)))))%Z,
        (c + Z.of_nat (length (filter (found_in rows2) (filter (considered te) rows1))))%Z).
Proof.
  induction rows1 as [|e r IH]; intros a c Hf.
  - simpl. rewrite !Z.add_0_r. reflexivity.
  - simpl common_edges_loop. change (te || negb (r_tip e)) with (considered te e).
    cbn [filter]. destruct (considered te e) eqn:C.
    + rewrite (Hf e) by now left.
      rewrite IH by (intros; apply Hf; now right).
      cbn [filter]. destruct (found_in rows2 e) eqn:F; cbn [length]; rewrite ?Nat2Z.inj_succ;
        f_equal; apply f_equal2; lia.
    + rewrite IH by (intros; apply Hf; now right). reflexivity.
Qed.

Lemma find_edge_found_in : forall t1 t2 ec1 r1,
    good t1 -> good t2 -> branch_row t1 ec1 r1 -> find_edge r1 (rows t2) = Ok (found_in (rows t2) r1).
Proof.
  intros t1 t2 ec1 r1 G1 G2 B1. unfold find_edge. rewrite (row_not_none t1 ec1 r1 G1 B1).
  apply find_edge_in_spec. intros e2 Hin.
  assert (HL : length (edges t2) = length (rows t2)) by (symmetry; now apply rows_length).
  destruct (in_combine_r_ex _ _ (edges t2) (rows t2) e2 HL Hin) as [ec2 Hc].
  exact (row_not_none t2 ec2 e2 G2 Hc).
Qed.

(** what "found" means *)
Theorem found_in_iff : forall t1 t2 ec1 r1,
    good t1 -> good t2 -> Permutation (leaves t1) (leaves t2) -> branch_row t1 ec1 r1 ->
    (found_in (rows t2) r1 = true <->
     exists ec2 r2, branch_row t2 ec2 r2 /\ r_tip r2 = r_tip r1 /\
                    same_split (leaves t1) (leaves (snd ec1)) (leaves (snd ec2))).
Proof.
  intros t1 t2 ec1 r1 G1 G2 P B1.
  destruct (find_edge_spec t1 t2 ec1 r1 G1 G2 P B1) as (b & Hb & Hiff).
  rewrite (find_edge_found_in t1 t2 ec1 r1 G1 G2 B1) in Hb. inversion Hb; subst. exact Hiff.
Qed.

Theorem common_edges_loop_spec : forall te t1 t2,
    good t1 -> good t2 ->
    common_edges_loop te (rows t1) (rows t2) 0 0 =
    let S := filter (considered te) (rows t1) in
    let C := filter (found_in (rows t2)) S in
    Ok ((Z.of_nat (length S) - Z.of_nat (length C))%Z, Z.of_nat (length C)).
Proof.
  intros te t1 t2 G1 G2.
  assert (Hf : forall e, In e (rows t1) -> find_edge e (rows t2) = Ok (found_in (rows t2) e)).
  { intros e Hin.
    assert (HL : length (edges t1) = length (rows t1)) by (symmetry; now apply rows_length).
    destruct (in_combine_r_ex _ _ (edges t1) (rows t1) e HL Hin) as [ec Hc].
    exact (find_edge_found_in t1 t2 ec e G1 G2 Hc). }
  rewrite (common_loop_gen te (rows t2) (rows t1) 0 0 Hf).
  cbv zeta. rewrite !Z.add_0_l. reflexivity.
Qed.

Lemma compare_tip_indexes_same : forall n, n <> [] -> compare_tip_indexes n n = ""%string.
Proof.
  intros n Hn. unfold compare_tip_indexes.
  destruct n as [|x r]; [congruence|]. simpl length. rewrite Nat.eqb_refl. simpl negb. simpl orb.
  replace (forallb (fun k => existsb (String.eqb k) (x :: r)) (x :: r)) with true; [reflexivity|].
  symmetry. apply forallb_forall. intros k Hk. apply existsb_exists. exists k. split; auto. apply String.eqb_refl.
Qed.

(** Tree.CommonEdges on two good trees on the same taxa *)
Theorem common_edges_spec : forall te t1 t2,
    good t1 -> good t2 -> Permutation (leaves t1) (leaves t2) ->
    common_edges te t1 t2 =
    let S := filter (considered te) (rows t1) in
    let C := filter (found_in (rows t2)) S in
    Ok ((Z.of_nat (length S) - Z.of_nat (length C))%Z, Z.of_nat (length C)).
Proof.
  intros te t1 t2 G1 G2 P. unfold common_edges.
  rewrite <- (same_taxa_same_ids t1 t2 G1 G2 P).
  rewrite compare_tip_indexes_same.
  - now apply common_edges_loop_spec.
  - destruct G1 as (W & D & ND). destruct (tables_spec t1 W D ND) as (Pi & _ & F).
    intro E. rewrite E in Pi. apply Permutation_nil in Pi.
    destruct (root_NI t1 W D) as [_ TN].
    destruct t1 as [n cm sl]. unfold degree in D. simpl in D, Pi.
    destruct (kids_of sl) eqn:K; [discriminate|].
    pose proof (length_slots sl). apply wf_inv in W. destruct W as [U Wc].
    destruct p as [e c].
    assert (Hin : In (Some (e, c)) sl).
    { assert (In (e, c) (kids_of sl)) by (rewrite K; now left).
      unfold kids_of in H0. apply in_flat_map in H0. destruct H0 as ([q|] & Hs & Hp); simpl in Hp; [|contradiction].
      destruct Hp as [<-|[]]. exact Hs. }
    destruct (sub_spec [] c (children_wf_in _ _ _ Wc Hin)) as (_ & _ & _ & NE).
    destruct (leaves c) eqn:LC; [congruence|].
    assert (In s (flat_map (fun s0 : slot => match s0 with Some (_, c0) => leaves c0 | None => [] end) sl)).
    { apply in_flat_map. exists (Some (e, c)). split; auto. rewrite LC. now left. }
    rewrite Pi in H0. contradiction.
Qed.

(** symmetric use: with tip branches included every tip branch is always found, so the count
    of common branches is at least the number of tips present in both... (not needed here) *)
