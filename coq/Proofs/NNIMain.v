(** C17: Apply keeps the tree well-formed, keeps its tips and every branch, and replaces
    exactly the split of the central branch: with A, B, C, D the tips behind n1_2, the moved
    child of n2, n1_1 and the other child of n2, the central branch separates B+D from A+C
    before and A+D from B+C after. *)
From Coq Require Import String ZArith QArith Bool Arith Lia List Permutation Setoid Morphisms.
From GT Require Import Base.UTree Spec.Obs Spec.Unrooted Model.Reroot Model.NNI
     Proofs.RerootBase Proofs.Reorder Proofs.Splits Proofs.NNIBase Proofs.NNISem.
Import ListNotations.
Local Close Scope Q_scope.
Local Arguments n_up : simpl never.
Local Arguments leaves : simpl never.
Local Arguments bsplits : simpl never.
Local Arguments kleaves : simpl never.
Local Arguments kbs : simpl never.

(** * well-formedness through the path *)
Lemma wf_sub_step s s' n c sl k e :
  (wf_sub s = true -> wf_sub s' = true) -> nth_error sl k = Some (Some (e, s)) ->
  wf_sub (UNode n c sl) = true -> wf_sub (UNode n c (set_nth k (Some (e, s')) sl)) = true.
Proof.
  intros HW E.
  rewrite !wf_sub_unfold, (n_up_set_nth_some _ _ _ _ E), (kids_of_nth _ _ _ E),
    (kids_of_set_nth_some _ _ _ (e, s') E), !forallb_app. cbn [forallb snd].
  intros H. apply andb_true_iff in H. destruct H as [H0 H]. rewrite H0.
  apply andb_true_iff in H. destruct H as [HA H]. apply andb_true_iff in H. destruct H as [Hs HB].
  now rewrite HA, HB, (HW Hs).
Qed.

Lemma wf_sub_path f p : forall t t' s s',
  node_at t p = Some s -> f s = Some s' -> at_path f p t = Some t' ->
  (wf_sub s = true -> wf_sub s' = true) -> wf_sub t = true -> wf_sub t' = true.
Proof.
  induction p as [|k q IH]; intros t t' s s' Hn Hf Ha HW; simpl in *.
  - inversion Hn; subst. rewrite Hf in Ha. now inversion Ha; subst.
  - destruct t as [n c sl]. simpl in Hn.
    destruct (nth_error sl k) as [[[e ch]|]|] eqn:E; try discriminate.
    destruct (at_path f q ch) as [ch'|] eqn:E'; [|discriminate]. inversion Ha; subst.
    apply (wf_sub_step ch ch'); auto. eapply (IH ch ch' s s'); eauto.
Qed.

Lemma wf_path f p t t' s s' :
  node_at t p = Some s -> f s = Some s' -> at_path f p t = Some t' ->
  (wf s = true -> wf s' = true) -> (wf_sub s = true -> wf_sub s' = true) ->
  wf t = true -> wf t' = true.
Proof.
  destruct p as [|k q]; intros Hn Hf Ha HW HS; simpl in *.
  - inversion Hn; subst. rewrite Hf in Ha. now inversion Ha; subst.
  - destruct t as [n c sl]. simpl in Hn.
    destruct (nth_error sl k) as [[[e ch]|]|] eqn:E; try discriminate.
    destruct (at_path f q ch) as [ch'|] eqn:E'; [|discriminate]. inversion Ha; subst.
    apply (wf_step ch ch'); auto. eapply (wf_sub_path f q ch ch' s s'); eauto.
Qed.

(** * the four corners of a picture; [O] = the tips outside the picture *)
Definition cornerA (O : list string) (P : picture) : list string := corner O (snd (p_xs P)).
Definition cornerC (O : list string) (P : picture) : list string := corner O (fst (p_xs P)).
Definition cornerB (cross : bool) (P : picture) : list string := leaves (snd (moved cross P)).
Definition cornerD (cross : bool) (P : picture) : list string := leaves (snd (stay cross P)).

(** the side of the central branch after Apply, as it is stored (the leaves below its lower
    end: n2 in the plain case, n1 after an inversion) *)
Definition new_side (k j : nat) (cross : bool) (P : picture) : list string :=
  match snd (p_xs P) with
  | Some mv1 => leaves (UNode (p_ny P) (p_cy P)
                              (pl j None (put cross (Some mv1) (Some (p_y1 P), Some (p_y2 P)))))
  | None => leaves (UNode (p_nx P) (p_cx P) (pl k None (fst (p_xs P), Some (moved cross P))))
  end.

Definition pic_rest (cross : bool) (P : picture) : list central :=
  match snd (p_xs P) with
  | Some mv1 => rest_plain cross P mv1
  | None => rest_flip cross P
  end.

Lemma picture_lrel k j cross P :
  k < 3 -> j < 3 ->
  lrel (p_ec P, leaves (pic_n2 j P), false) (p_ec P, new_side k j cross P, false)
       (pic_n1 k j P) (pic_after k j cross P).
Proof.
  intros Hk Hj. unfold pic_after, new_side. destruct (snd (p_xs P)) as [mv1|] eqn:Hx.
  - split; [now apply plain_leaves|]. split; [unfold pic_n1; destruct (p_xs P); apply isleaf_pl|].
    split; [rewrite (plain_eq k j cross P mv1 Hx); apply isleaf_pl|].
    split; [now apply plain_wf_sub|].
    exists (rest_plain cross P mv1), (rest_plain cross P mv1). repeat split.
    + now apply plain_bsplits_before.
    + now apply plain_bsplits_after.
    + reflexivity.
  - split; [now apply flip_leaves|]. split; [unfold pic_n1; destruct (p_xs P); apply isleaf_pl|].
    split; [rewrite (flip_eq k j cross P Hx); destruct (put cross None _); apply isleaf_pl|].
    split; [now apply flip_wf_sub|].
    exists (rest_flip cross P), (rest_flip cross P). repeat split.
    + now apply flip_bsplits_before.
    + now apply flip_bsplits_after.
    + reflexivity.
Qed.

(** the shape of n1's own slots, from well-formedness *)
Lemma picture_root k j P :
  wf (pic_n1 k j P) = true -> exists q1 q2, p_xs P = (Some q1, Some q2).
Proof.
  unfold pic_n1. destruct (p_xs P) as [x1 x2]. rewrite wf_pl.
  destruct x1 as [q1|], x2 as [q2|]; cbn [upk Nat.add Nat.eqb andb]; try discriminate. eauto.
Qed.
Lemma picture_inner k j P :
  wf_sub (pic_n1 k j P) = true ->
  (exists q, p_xs P = (Some q, None)) \/ (exists q, p_xs P = (None, Some q)).
Proof.
  unfold pic_n1. destruct (p_xs P) as [x1 x2]. rewrite wf_sub_pl.
  destruct x1 as [q1|], x2 as [q2|]; cbn [upk Nat.add Nat.eqb andb]; try discriminate; eauto.
Qed.

Lemma leaves_n1 k j P :
  Permutation (leaves (pic_n1 k j P))
              (leaves (pic_n2 j P) ++ kleaves (ko (fst (p_xs P))) ++ kleaves (ko (snd (p_xs P)))).
Proof.
  unfold pic_n1. destruct (p_xs P) as [x1 x2]. rewrite leaves_pl by (simpl; discriminate).
  cbn [ko fst snd]. now rewrite kleaves_one.
Qed.

(** ** the main statement on a located picture *)
Lemma apply_picture r t t' P :
  wf t = true ->
  node_at t (r_path r) = Some (pic_n1 (r_k r) (r_j r) P) -> r_k r < 3 -> r_j r < 3 ->
  apply r t = Some t' ->
  let O := outside t (r_path r) in
  let A := cornerA O P in let B := cornerB (r_cross r) P in
  let C := cornerC O P in let D := cornerD (r_cross r) P in
  wf t' = true /\
  Permutation (leaves t) (leaves t') /\
  Permutation (leaves t) (A ++ B ++ C ++ D) /\
  B <> [] /\ D <> [] /\ (2 <= length (kids t) -> A <> [] /\ C <> []) /\
  Permutation (leaves (pic_n2 (r_j r) P)) (B ++ D) /\
  (Permutation (new_side (r_k r) (r_j r) (r_cross r) P) (A ++ D) \/
   Permutation (new_side (r_k r) (r_j r) (r_cross r) P) (C ++ B)) /\
  exists rest rest',
    Permutation (bsplits t) ((p_ec P, leaves (pic_n2 (r_j r) P), false) :: rest) /\
    Permutation (bsplits t') ((p_ec P, new_side (r_k r) (r_j r) (r_cross r) P, false) :: rest') /\
    PermR bs_same rest rest'.
Proof.
  intros W Hn Hk Hj Ha. cbv zeta.
  rewrite apply_unfold in Ha.
  pose proof (apply_local _ _ (r_cross r) P Hk Hj) as HL.
  pose proof (picture_lrel _ _ (r_cross r) P Hk Hj) as LR.
  pose proof (lrel_path _ _ _ _ _ _ _ _ Hn HL Ha LR) as (TL & _ & _ & _ & rest & rest' & B0 & B1 & HR).
  assert (Wt' : wf t' = true).
  { refine (wf_path _ _ _ _ _ _ Hn HL Ha _ _ W).
    - intros Ws. destruct (picture_root _ _ _ Ws) as (q1 & q2 & E).
      unfold pic_after. rewrite E. cbn [snd]. apply plain_wf; auto. now rewrite E.
    - destruct LR as (_ & _ & _ & HW & _). exact HW. }
  pose proof (leaves_outside _ _ _ Hn) as LO. rewrite leaves_n1 in LO.
  pose proof (leaves_n2 (r_j r) (r_cross r) P) as L2.
  assert (NB : cornerB (r_cross r) P <> []) by apply leaves_nonempty.
  assert (ND : cornerD (r_cross r) P <> []) by apply leaves_nonempty.
  split; [exact Wt'|]. split; [exact TL|].
  unfold cornerA, cornerC. unfold new_side in B1 |- *. clear LR HL.
  destruct (node_at_wf _ _ _ W Hn) as [[Ep Es]|[Np Ws]].
  - (* n1 is the root *)
    rewrite <- Es in W. destruct (picture_root _ _ _ W) as ([e4 c] & [e1 a] & E).
    rewrite E in *. cbn [fst snd ko corner] in *. rewrite !kleaves_one in LO. cbn [snd] in LO.
    rewrite Ep in LO. cbn [outside app] in LO.
    split; [rewrite LO, L2; unfold cornerB, cornerD; perm|].
    split; [exact NB|]. split; [exact ND|].
    split; [intros _; split; apply leaves_nonempty|].
    split; [exact L2|].
    split; [left; rewrite (leaves_n2'_plain (r_j r) (r_cross r) P (e1, a)); reflexivity|].
    exists rest, rest'. auto.
  - destruct (picture_inner _ _ _ Ws) as [[[e4 c] E]|[[e1 a] E]]; rewrite E in *; cbn [fst snd ko corner] in *.
    + (* n1_2 is the parent: inversion *)
      rewrite kleaves_one, kleaves_nil in LO. cbn [snd] in LO.
      split; [rewrite LO, L2; unfold cornerB, cornerD; perm|].
      split; [exact NB|]. split; [exact ND|].
      split; [intros H2; split; [eapply outside_nonempty; eauto | apply leaves_nonempty]|].
      split; [exact L2|].
      split.
      { right. pose proof (leaves_n1' (r_k r) (r_cross r) P) as L1. rewrite E in L1. cbn [fst corner] in L1.
        exact L1. }
      exists rest, rest'. auto.
    + (* n1_1 is the parent *)
      rewrite kleaves_one, kleaves_nil in LO. cbn [snd] in LO.
      split; [rewrite LO, L2; unfold cornerB, cornerD; perm|].
      split; [exact NB|]. split; [exact ND|].
      split; [intros H2; split; [apply leaves_nonempty | eapply outside_nonempty; eauto]|].
      split; [exact L2|].
      split; [left; rewrite (leaves_n2'_plain (r_j r) (r_cross r) P (e1, a)); reflexivity|].
      exists rest, rest'. auto.
Qed.

(** * the statements of the property *)
Theorem apply_wf r t t' :
  wf t = true -> valid r t -> apply r t = Some t' -> wf t' = true.
Proof.
  intros W V Ha. destruct (valid_picture _ _ W V) as (P & Hn & Hk & Hj & _).
  exact (proj1 (apply_picture r t t' P W Hn Hk Hj Ha)).
Qed.

Theorem apply_leaves r t t' :
  wf t = true -> valid r t -> apply r t = Some t' -> Permutation (leaves t) (leaves t').
Proof.
  intros W V Ha. destruct (valid_picture _ _ W V) as (P & Hn & Hk & Hj & _).
  exact (proj1 (proj2 (apply_picture r t t' P W Hn Hk Hj Ha))).
Qed.

(** exactly one split is replaced: the tips fall into four groups A, B, C, D around the
    central branch; the branch list of [t] is the central entry (separating B+D) plus
    [rest], that of [t'] the same central branch data now separating A+D from C+B, plus
    [rest'] which is [rest] (same branch data, same side). *)
Theorem apply_one_split r t t' :
  wf t = true -> valid r t -> apply r t = Some t' ->
  exists ec A B C D old new rest rest',
    Permutation (leaves t) (A ++ B ++ C ++ D) /\
    B <> [] /\ D <> [] /\ (2 <= length (kids t) -> A <> [] /\ C <> []) /\
    Permutation old (B ++ D) /\
    (Permutation new (A ++ D) \/ Permutation new (C ++ B)) /\
    Permutation (bsplits t) ((ec, old, false) :: rest) /\
    Permutation (bsplits t') ((ec, new, false) :: rest') /\
    PermR bs_same rest rest'.
Proof.
  intros W V Ha. destruct (valid_picture _ _ W V) as (P & Hn & Hk & Hj & _).
  destruct (apply_picture r t t' P W Hn Hk Hj Ha) as (_ & _ & H1 & H2 & H3 & H4 & H5 & H6 & rest & rest' & H7 & H8 & H9).
  exists (p_ec P), (cornerA (outside t (r_path r)) P), (cornerB (r_cross r) P),
         (cornerC (outside t (r_path r)) P), (cornerD (r_cross r) P),
         (leaves (pic_n2 (r_j r) P)), (new_side (r_k r) (r_j r) (r_cross r) P), rest, rest'.
  repeat split; auto; apply H4; auto.
Qed.

(** every branch keeps its data (length, support, p-value, comments) *)
Theorem apply_einfo r t t' :
  wf t = true -> valid r t -> apply r t = Some t' ->
  Permutation (map (fun x => fst (fst x)) (bsplits t)) (map (fun x => fst (fst x)) (bsplits t')).
Proof.
  intros W V Ha.
  destruct (apply_one_split r t t' W V Ha) as (ec & A & B & C & D & old & new & rest & rest' & _ & _ & _ & _ & _ & _ & H7 & H8 & H9).
  rewrite H7, H8. cbn [map fst]. constructor.
  clear - H9. induction H9; cbn [map].
  - constructor.
  - destruct H as (E & _). rewrite E. now constructor.
  - apply perm_swap.
  - eapply perm_trans; eauto.
Qed.

(** the same statement on Tree.Edges() *)
Lemma bsplits_edges_einfo t :
  forallb (fun s : slot => match s with Some (_, c) => wf_sub c | None => true end) (uslots t) = true ->
  map (fun x => fst (fst x)) (bsplits t) = map fst (edges_below t).
Proof.
  induction t as [n c sl IH] using utree_ind'. cbn [uslots]. intros W.
  unfold bsplits. cbn [edges_below]. fold bsplits.
  induction sl as [|[[e ch]|] r IHr]; cbn [flat_map]; auto.
  - inversion IH as [|? ? IHc IHrest]; subst. cbn [forallb] in W. apply andb_true_iff in W. destruct W as [Wc Wr].
    cbn [map app fst]. rewrite !map_app, (IHr IHrest Wr). f_equal. f_equal.
    destruct ch as [cn cc csl]. cbn [wf_sub] in Wc. apply andb_true_iff in Wc. destruct Wc as [U Wk].
    rewrite (IHc Wk). unfold degree. cbn [uslots].
    destruct (Nat.ltb 1 (length csl)) eqn:L; [reflexivity|].
    apply Nat.ltb_ge in L. apply Nat.eqb_eq in U.
    destruct csl as [|s [|s' csl]]; cbn [length] in L; try lia.
    + reflexivity.
    + destruct s as [p|]; [cbv in U; discriminate|]. reflexivity.
  - inversion IH; subst. cbn [forallb] in W. now apply IHr.
Qed.

Lemma wf_kids_sub t : wf t = true ->
  forallb (fun s : slot => match s with Some (_, c) => wf_sub c | None => true end) (uslots t) = true.
Proof. destruct t as [n c sl]. cbn [wf uslots]. intros H. apply andb_true_iff in H. tauto. Qed.

Theorem apply_edges_einfo r t t' :
  wf t = true -> valid r t -> apply r t = Some t' ->
  Permutation (map fst (edges t)) (map fst (edges t')).
Proof.
  intros W V Ha. pose proof (apply_wf r t t' W V Ha) as W'.
  unfold edges. rewrite <- !bsplits_edges_einfo by (now apply wf_kids_sub).
  eapply apply_einfo; eauto.
Qed.
