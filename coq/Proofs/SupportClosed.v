(** C10: closed forms of the loops of FBP and TBE over the bootstrap trees (per reference
    branch: a count, a sum of distances), bounds of the supports, independence of the order of
    the bootstrap trees, and the error returned for a tree that fails the checks. *)
From Coq Require Import String ZArith QArith Lqa Bool Arith Lia Permutation List.
From GT Require Import Base.UTree Spec.Obs Spec.Support Model.Support Proofs.SupportBase Proofs.SupportMTD.
Import ListNotations.
Local Close Scope Q_scope.
Local Open Scope string_scope.

(** * folding a per-branch update over the trees *)
Section ZipFold.
  Variables (A E T : Type) (h : T -> A -> E -> A).

  Definition zstep (es : list E) (acc : list A) (b : T) : list A :=
    map (fun p => h b (fst p) (snd p)) (combine acc es).

  Lemma combine_map_fst : forall (f : A * E -> A) (acc : list A) (es : list E),
      combine (map f (combine acc es)) es = map (fun p => (f p, snd p)) (combine acc es).
  Proof.
    intros f acc. induction acc as [|a acc IH]; intros es; [reflexivity|].
    destruct es as [|x es]; [reflexivity|]. simpl. rewrite IH. reflexivity.
  Qed.

  Lemma zfold : forall boots acc es,
      fold_left (zstep es) boots acc
      = match boots with
        | [] => acc
        | _ => map (fun p => fold_left (fun a b => h b a (snd p)) boots (fst p)) (combine acc es)
        end.
  Proof.
    induction boots as [|b bs IH]; intros acc es; [reflexivity|].
    cbn [fold_left]. rewrite IH. destruct bs as [|b' bs'].
    - reflexivity.
    - unfold zstep at 1. rewrite combine_map_fst, map_map. reflexivity.
  Qed.

  Lemma map_combine_const : forall (B : Type) (F : A * E -> B) (z : A) (es : list E),
      map F (combine (map (fun _ => z) es) es) = map (fun x => F (z, x)) es.
  Proof.
    intros B F z es. induction es as [|x es IH]; [reflexivity|]. simpl. rewrite IH. reflexivity.
  Qed.
End ZipFold.

(** * per-branch quantities of the model *)
Definition sumd {T} (d : T -> nat) (l : list T) : nat := fold_right (fun b acc => d b + acc) 0 l.

Lemma sumd_perm : forall T (d : T -> nat) l l', Permutation l l' -> sumd d l = sumd d l'.
Proof. intros T d l l' P. induction P; simpl; lia. Qed.

Lemma sumd_le : forall T (d : T -> nat) k l, (forall b, In b l -> d b <= k) -> sumd d l <= length l * k.
Proof.
  intros T d k l H. induction l as [|b l IH]; simpl; [lia|].
  pose proof (H b (or_introl eq_refl)). assert (sumd d l <= length l * k) by (apply IH; intros; apply H; right; assumption).
  lia.
Qed.

(** ** per-branch accumulation *)
Lemma count_fold : forall (f : utree -> bool) boots a,
    fold_left (fun a b => if f b then S a else a) boots a = a + cnt f boots.
Proof.
  intros f boots. induction boots as [|b bs IH]; intros a; [unfold cnt; simpl; lia|].
  cbn [fold_left]. rewrite IH. unfold cnt. simpl. destruct (f b); simpl; lia.
Qed.

Definition inc (d : nat) (s : option nat) : option nat :=
  Some (match s with None => d | Some a => a + d end).

Lemma sum_fold_some : forall (d : utree -> nat) boots a,
    fold_left (fun s b => inc (d b) s) boots (Some a) = Some (a + sumd d boots).
Proof.
  intros d boots. induction boots as [|b bs IH]; intros a; [simpl; f_equal; lia|].
  cbn [fold_left]. unfold inc at 2. rewrite IH. simpl. f_equal. lia.
Qed.

Lemma sum_fold : forall (d : utree -> nat) boots,
    boots <> [] -> fold_left (fun s b => inc (d b) s) boots None = Some (sumd d boots).
Proof.
  intros d [|b bs] H; [congruence|]. cbn [fold_left]. unfold inc at 2. rewrite sum_fold_some. reflexivity.
Qed.

Lemma skip_fold : forall (T S : Type) (boots : list T) (s : S), fold_left (fun s _ => s) boots s = s.
Proof. intros T S boots. induction boots; intros; simpl; auto. Qed.

Section Branch.
  Variables (ref : utree).
  Let X := tip_names ref.
  Let ntips := length (tips ref).

  (** FBP: the bootstrap tree has the branch in its index of inner branches *)
  Definition fbp_has (c : utree) (b : utree) : bool := index_has X (fbp_index b) (below c).

  (** TBE: the distance added to the support field of the branch for one tree *)
  Definition tree_dist (c : utree) (b : utree) : nat :=
    if index_has X (tbe_index b) (below c) then 0
    else min_transfer_dist ntips (topo_depth ref c) (ntax_right c) (below c) true b.

  Definition fbp_val (boots : list utree) (c : utree) : Q :=
    (qnat (cnt (fbp_has c) boots) / qnat (length boots))%Q.

  Definition tbe_val (boots : list utree) (c : utree) : Q :=
    if Nat.ltb 1 (topo_depth ref c) then
      match boots with
      | [] => nilv
      | _ => (1 - (qnat (sumd (tree_dist c) boots) / qnat (length boots)) / qnat (topo_depth ref c - 1))%Q
      end
    else nilv.

  (** ** the loops without error *)
  Lemma fbp_loop_ok : forall es boots found n,
      forallb (fun b => no_err (boot_err ref b)) boots = true ->
      fold_left (fbp_loop_step ref X es) boots (found, n, "")
      = (fold_left (fbp_step X es) boots found, n + length boots, "").
  Proof.
    intros es boots. induction boots as [|b bs IH]; intros found n H.
    - simpl. rewrite Nat.add_0_r. reflexivity.
    - simpl in H. apply andb_prop in H. destruct H as [H1 H2].
      cbn [fold_left]. unfold fbp_loop_step at 2. cbn [no_err String.eqb negb]. rewrite H1. cbn [negb].
      rewrite IH by exact H2. cbn [length]. f_equal. f_equal. lia.
  Qed.

  Lemma tbe_loop_ok : forall es boots acc n,
      forallb (fun b => no_err (boot_err ref b)) boots = true ->
      fold_left (tbe_loop_step ref X ntips es) boots (acc, n, "")
      = (fold_left (tbe_step ref X ntips es) boots acc, n + length boots, "").
  Proof.
    intros es boots. induction boots as [|b bs IH]; intros acc n H.
    - simpl. rewrite Nat.add_0_r. reflexivity.
    - simpl in H. apply andb_prop in H. destruct H as [H1 H2].
      cbn [fold_left]. unfold tbe_loop_step at 2. cbn [no_err String.eqb negb]. rewrite H1. cbn [negb].
      rewrite IH by exact H2. cbn [length]. f_equal. f_equal. lia.
  Qed.

  (** ** the first failing tree decides the error *)
  Fixpoint first_err (boots : list utree) : string :=
    match boots with
    | [] => ""
    | b :: bs => if no_err (boot_err ref b) then first_err bs else boot_err ref b
    end.

  Lemma first_err_ok : forall boots,
      no_err (first_err boots) = forallb (fun b => no_err (boot_err ref b)) boots.
  Proof.
    induction boots as [|b bs IH]; [reflexivity|]. simpl.
    destruct (no_err (boot_err ref b)) eqn:E; [exact IH|]. simpl. exact E.
  Qed.

  Lemma fbp_loop_stuck : forall es boots found n err,
      no_err err = false -> fold_left (fbp_loop_step ref X es) boots (found, n, err) = (found, n, err).
  Proof.
    intros es boots. induction boots as [|b bs IH]; intros found n err H; [reflexivity|].
    cbn [fold_left]. unfold fbp_loop_step at 2. rewrite H. cbn [negb]. apply IH. exact H.
  Qed.

  Lemma fbp_loop_err : forall es boots found n,
      snd (fold_left (fbp_loop_step ref X es) boots (found, n, "")) = first_err boots.
  Proof.
    intros es boots. induction boots as [|b bs IH]; intros found n; [reflexivity|].
    cbn [fold_left first_err]. unfold fbp_loop_step at 2. cbn [no_err String.eqb negb].
    fold (no_err (boot_err ref b)).
    destruct (no_err (boot_err ref b)) eqn:E; cbn [negb].
    - apply IH.
    - rewrite fbp_loop_stuck by exact E. reflexivity.
  Qed.

  Lemma tbe_loop_stuck : forall es boots acc n err,
      no_err err = false -> fold_left (tbe_loop_step ref X ntips es) boots (acc, n, err) = (acc, n, err).
  Proof.
    intros es boots. induction boots as [|b bs IH]; intros acc n err H; [reflexivity|].
    cbn [fold_left]. unfold tbe_loop_step at 2. rewrite H. cbn [negb]. apply IH. exact H.
  Qed.

  Lemma tbe_loop_err : forall es boots acc n,
      snd (fold_left (tbe_loop_step ref X ntips es) boots (acc, n, "")) = first_err boots.
  Proof.
    intros es boots. induction boots as [|b bs IH]; intros acc n; [reflexivity|].
    cbn [fold_left first_err]. unfold tbe_loop_step at 2. cbn [no_err String.eqb negb].
    fold (no_err (boot_err ref b)).
    destruct (no_err (boot_err ref b)) eqn:E; cbn [negb].
    - apply IH.
    - rewrite tbe_loop_stuck by exact E. reflexivity.
  Qed.

End Branch.

(** * closed forms *)
Theorem fbp_closed : forall ref boots,
    taxa_ok ref boots = true ->
    fbp ref boots
    = mkOut "" (map (fun ec => if is_tip (snd ec) then (true, esup (fst ec))
                               else (false, fbp_val ref boots (snd ec))) (edges ref)).
Proof.
  intros ref boots H. unfold taxa_ok in H. apply andb_prop in H. destruct H as [H1 H2].
  unfold fbp. apply negb_true_iff in H1. rewrite H1.
  rewrite (fbp_loop_ok ref (edges ref) boots _ 0 H2). cbn [Nat.add]. f_equal.
  change (fbp_step (tip_names ref) (edges ref))
    with (zstep _ _ _ (fun b cnt (ec : einfo * utree) =>
                         if index_has (tip_names ref) (fbp_index b) (below (snd ec)) then S cnt else cnt)
                (edges ref)).
  rewrite zfold. destruct boots as [|b0 bs].
  - rewrite map_combine_const. apply map_ext. intros [e c]. cbn [fst snd].
    destruct (is_tip c); reflexivity.
  - rewrite combine_map_fst, map_map, map_combine_const. apply map_ext. intros [e c]. cbn [fst snd].
    destruct (is_tip c); [reflexivity|]. f_equal. unfold fbp_val. f_equal. f_equal.
    rewrite (count_fold (fun b => index_has (tip_names ref) (fbp_index b) (below c))). reflexivity.
Qed.

Theorem tbe_closed : forall ref boots,
    taxa_ok ref boots = true ->
    tbe ref boots
    = mkOut "" (map (fun ec => (is_tip (snd ec), tbe_val ref boots (snd ec))) (edges ref)).
Proof.
  intros ref boots H. unfold taxa_ok in H. apply andb_prop in H. destruct H as [H1 H2].
  unfold tbe. apply negb_true_iff in H1. rewrite H1.
  rewrite (tbe_loop_ok ref (edges ref) boots _ 0 H2). cbn [Nat.add no_err String.eqb]. f_equal.
  change (tbe_step ref (tip_names ref) (length (tips ref)) (edges ref))
    with (zstep _ _ _ (fun b (s : option nat) (ec : einfo * utree) =>
                         let c := snd ec in
                         let p := topo_depth ref c in
                         if Nat.ltb 1 p then
                           let d := if index_has (tip_names ref) (tbe_index b) (below c) then 0
                                    else min_transfer_dist (length (tips ref)) p (ntax_right c) (below c) true b in
                           Some (match s with None => d | Some a => a + d end)
                         else s)
                (edges ref)).
  rewrite zfold. destruct boots as [|b0 bs].
  - rewrite map_combine_const. apply map_ext. intros [e c]. cbn [fst snd].
    unfold tbe_val. destruct (Nat.ltb 1 (topo_depth ref c)); reflexivity.
  - rewrite combine_map_fst, map_map, map_combine_const. apply map_ext. intros [e c]. cbn [fst snd].
    f_equal. unfold tbe_val. destruct (Nat.ltb 1 (topo_depth ref c)) eqn:P.
    + change (fold_left _ (b0 :: bs) None)
        with (fold_left (fun s b => inc (tree_dist ref c b) s) (b0 :: bs) None).
      rewrite sum_fold by discriminate. reflexivity.
    + rewrite skip_fold. reflexivity.
Qed.

(** * errors: a tree failing the checks is reported, whatever its position *)
Theorem fbp_err : forall ref boots,
    has_dup (tip_names ref) = false -> oerr (fbp ref boots) = first_err ref boots.
Proof.
  intros ref boots H. unfold fbp. rewrite H.
  pose proof (fbp_loop_err ref (edges ref) boots (map (fun _ => 0) (edges ref)) 0) as E.
  destruct (fold_left _ boots _) as [[found n] err]. exact E.
Qed.

Theorem tbe_err : forall ref boots,
    has_dup (tip_names ref) = false -> oerr (tbe ref boots) = first_err ref boots.
Proof.
  intros ref boots H. unfold tbe. rewrite H.
  pose proof (tbe_loop_err ref (edges ref) boots (map (fun _ => None) (edges ref)) 0) as E.
  destruct (fold_left _ boots _) as [[acc n] err]. cbn [snd] in E. subst err.
  destruct (no_err (first_err ref boots)) eqn:N; [|reflexivity].
  cbn [oerr]. unfold no_err in N. apply String.eqb_eq in N. symmetry. exact N.
Qed.

(** * (iv) independence of the order of the bootstrap trees *)
Lemma taxa_ok_perm : forall ref boots boots',
    Permutation boots boots' -> taxa_ok ref boots = taxa_ok ref boots'.
Proof.
  intros ref boots boots' P. unfold taxa_ok. f_equal.
  induction P; simpl; try congruence.
  - destruct (no_err (boot_err ref y)), (no_err (boot_err ref x)); reflexivity.
Qed.

Theorem fbp_perm : forall ref boots boots',
    taxa_ok ref boots = true -> Permutation boots boots' -> fbp ref boots = fbp ref boots'.
Proof.
  intros ref boots boots' H P.
  rewrite (fbp_closed ref boots H).
  rewrite (fbp_closed ref boots') by (rewrite <- (taxa_ok_perm ref _ _ P); exact H).
  f_equal. apply map_ext. intros [e c]. cbn [fst snd]. destruct (is_tip c); [reflexivity|].
  unfold fbp_val. rewrite (cnt_perm _ _ _ _ P), (Permutation_length P). reflexivity.
Qed.

Theorem tbe_perm : forall ref boots boots',
    taxa_ok ref boots = true -> Permutation boots boots' -> tbe ref boots = tbe ref boots'.
Proof.
  intros ref boots boots' H P.
  rewrite (tbe_closed ref boots H).
  rewrite (tbe_closed ref boots') by (rewrite <- (taxa_ok_perm ref _ _ P); exact H).
  f_equal. apply map_ext. intros [e c]. cbn [fst snd]. f_equal.
  unfold tbe_val. destruct (Nat.ltb 1 (topo_depth ref c)); [|reflexivity].
  rewrite (sumd_perm _ _ _ _ P), (Permutation_length P).
  destruct boots as [|b bs], boots' as [|b' bs']; try reflexivity.
  - apply Permutation_nil in P. discriminate.
  - apply Permutation_sym, Permutation_nil in P. discriminate.
Qed.

(** whether an error is returned does not depend on the order either *)
Theorem err_perm : forall ref boots boots',
    Permutation boots boots' ->
    no_err (first_err ref boots) = no_err (first_err ref boots').
Proof.
  intros ref boots boots' P. rewrite !first_err_ok.
  pose proof (taxa_ok_perm ref _ _ P) as H. unfold taxa_ok in H.
  destruct (negb (has_dup (tip_names ref))); simpl in H; [exact H|].
  clear H. induction P; simpl; try congruence.
  destruct (no_err (boot_err ref y)), (no_err (boot_err ref x)); reflexivity.
Qed.

(** * (ii) bounds, for all inputs *)
Local Open Scope Q_scope.

Lemma qnat_nonneg : forall n, 0 <= qnat n.
Proof. intros n. unfold qnat, Qle. simpl. lia. Qed.

Lemma qnat_pos : forall n, (0 < n)%nat -> 0 < qnat n.
Proof. intros n H. unfold qnat, Qlt. simpl. lia. Qed.

Lemma qnat_le : forall a b, (a <= b)%nat -> qnat a <= qnat b.
Proof. intros a b H. unfold qnat, Qle. simpl. lia. Qed.

Lemma qnat_mul : forall a b, qnat (a * b) == qnat a * qnat b.
Proof. intros a b. unfold qnat. rewrite Nat2Z.inj_mul. unfold Qeq, Qmult. simpl. lia. Qed.

Lemma qdiv_bounds : forall a b, (a <= b)%nat -> (0 < b)%nat -> 0 <= qnat a / qnat b /\ qnat a / qnat b <= 1.
Proof.
  intros a b Hab Hb. pose proof (qnat_pos b Hb) as Pb. split.
  - apply Qle_shift_div_l; [exact Pb|]. rewrite Qmult_0_l. apply qnat_nonneg.
  - apply Qle_shift_div_r; [exact Pb|]. rewrite Qmult_1_l. apply qnat_le. exact Hab.
Qed.

Theorem fbp_val_bounds : forall ref boots c,
    boots <> [] -> 0 <= fbp_val ref boots c /\ fbp_val ref boots c <= 1.
Proof.
  intros ref boots c H. unfold fbp_val. apply qdiv_bounds.
  - apply cnt_le.
  - destruct boots; [congruence|simpl; lia].
Qed.

(** the scan never increases the distance: MinTransferDist <= p - 1 *)
Lemma scan_le : forall absent l st, (fst (scan absent l st) <= fst st)%nat.
Proof.
  intros absent l. induction l as [|d l IH]; intros st; simpl; [lia|].
  destruct (snd st); [lia|]. specialize (IH (step absent d st)).
  unfold step in *. destruct (Nat.leb d (fst st)) eqn:E; simpl in *; [apply Nat.leb_le in E|]; lia.
Qed.

Lemma min_transfer_dist_le : forall ntips p r A absent boot,
    (min_transfer_dist ntips p r A absent boot <= p - 1)%nat.
Proof.
  intros. destruct (Nat.eq_dec p 1) as [E|E].
  - unfold min_transfer_dist. subst p. simpl. lia.
  - rewrite min_transfer_dist_scan by exact E. apply (scan_le absent _ (p - 1, false)%nat).
Qed.

Lemma tree_dist_le : forall ref c b, (tree_dist ref c b <= topo_depth ref c - 1)%nat.
Proof.
  intros. unfold tree_dist. destruct (index_has _ _ _); [lia|]. apply min_transfer_dist_le.
Qed.

Lemma tbe_formula_bounds : forall s n p,
    (0 < n)%nat -> (2 <= p)%nat -> (s <= n * (p - 1))%nat ->
    0 <= 1 - (qnat s / qnat n) / qnat (p - 1) /\ 1 - (qnat s / qnat n) / qnat (p - 1) <= 1.
Proof.
  intros s n p Hn Hp Hs.
  pose proof (qnat_pos n Hn) as Pn. pose proof (qnat_pos (p - 1) ltac:(lia)) as Pp.
  assert (L : 0 <= (qnat s / qnat n) / qnat (p - 1)).
  { apply Qle_shift_div_l; [exact Pp|]. rewrite Qmult_0_l.
    apply Qle_shift_div_l; [exact Pn|]. rewrite Qmult_0_l. apply qnat_nonneg. }
  assert (U : (qnat s / qnat n) / qnat (p - 1) <= 1).
  { apply Qle_shift_div_r; [exact Pp|]. rewrite Qmult_1_l.
    apply Qle_shift_div_r; [exact Pn|]. rewrite <- qnat_mul. apply qnat_le. lia. }
  set (x := (qnat s / qnat n) / qnat (p - 1)) in *. clearbody x. split; lra.
Qed.

Theorem tbe_val_bounds : forall ref boots c,
    boots <> [] -> (2 <= topo_depth ref c)%nat ->
    0 <= tbe_val ref boots c /\ tbe_val ref boots c <= 1.
Proof.
  intros ref boots c H P. unfold tbe_val.
  replace (Nat.ltb 1 (topo_depth ref c)) with true by (symmetry; apply Nat.ltb_lt; lia).
  destruct boots as [|b bs] eqn:B; [congruence|]. rewrite <- B.
  apply tbe_formula_bounds.
  - subst boots. simpl. lia.
  - exact P.
  - apply sumd_le. intros b' _. apply tree_dist_le.
Qed.
