(** The multi-Newick splitter and reader loop (Model/MultiTree.v) are total: no array read
    outside its bounds, no fuel exhaustion, for every sequence of physical reads and every
    single-tree parser. *)
From Coq Require Import String Ascii ZArith Bool Arith Lia List.
From GT Require Import Base.UTree Model.MultiTree.
Import ListNotations.
Local Open Scope string_scope.

(** * array reads inside the bounds succeed *)
Lemma get_some : forall (s : string) (n : nat), n < String.length s -> exists c, String.get n s = Some c.
Proof.
  induction s as [|a s IH]; simpl; intros n H; [lia|].
  destruct n as [|n]; [eauto|]. apply IH. lia.
Qed.

Lemma byte_at_some : forall ln i, (0 <= i < zlen ln)%Z -> exists c, byte_at ln i = Some c.
Proof.
  intros ln i [H0 H1]. unfold byte_at.
  destruct (i <? 0)%Z eqn:E; [apply Z.ltb_lt in E; lia|].
  apply get_some. unfold zlen in H1. lia.
Qed.

(** * the backward scan stays inside [0, len) and ends within i+1 iterations *)
Lemma back_scan_ok : forall fuel ln i last,
    (0 <= i < zlen ln)%Z -> Z.to_nat i < fuel -> exists c, back_scan fuel ln i last = ScanOk c.
Proof.
  induction fuel as [|f IH]; intros ln i last Hi Hf; [lia|].
  simpl. destruct (is_blank last && (0 <? i)%Z) eqn:E; [|eauto].
  apply andb_true_iff in E. destruct E as [_ E]. apply Z.ltb_lt in E.
  destruct (byte_at_some ln (i - 1)) as [c Hc]; [lia|]. rewrite Hc.
  apply IH; lia.
Qed.

Lemma last_char_ok : forall ln last, exists c, last_char ln last = ScanOk c.
Proof.
  intros ln last. unfold last_char.
  destruct (0 <? zlen ln)%Z eqn:E; [|eauto].
  apply Z.ltb_lt in E.
  destruct (byte_at_some ln (zlen ln - 1)) as [c Hc]; [lia|]. rewrite Hc.
  apply back_scan_ok; [lia|]. unfold zlen. lia.
Qed.

(** * ReadUntilSemiColon *)
Definition rus_fine (r : rus_res) (n : nat) : Prop :=
  (exists ln rest, r = RLine ln rest /\ length rest <= n) \/ (exists ln, r = REof ln).

Lemma rus_loop_fine : forall reads ln last pre, rus_fine (rus_loop reads ln last pre) (length reads).
Proof.
  induction reads as [|[frag p] reads IH]; intros ln last pre; simpl.
  - destruct (pre || negb (is_semi last)).
    + destruct (last_char_ok ln last) as [c Hc]. rewrite Hc.
      destruct (is_semi c); [left; exists ln, []; split; [reflexivity|simpl; lia]|right; eauto].
    + left. exists ln, []. split; [reflexivity|simpl; lia].
  - destruct (pre || negb (is_semi last)).
    + destruct (last_char_ok (ln ++ frag) last) as [c Hc]. rewrite Hc.
      destruct (IH (ln ++ frag) c p) as [(l & r & Heq & Hle)|(l & Heq)]; rewrite Heq.
      * left. exists l, r. split; [reflexivity|lia].
      * right. eauto.
    + left. eexists _, _. split; [reflexivity|simpl; lia].
Qed.

(** the first iteration always reads: a returned line has consumed at least one read *)
Lemma rus_consumes : forall reads ln rest,
    read_until_semicolon reads = RLine ln rest -> length rest < length reads.
Proof.
  intros reads ln rest. unfold read_until_semicolon.
  destruct reads as [|[frag p] reads]; cbn [rus_loop orb].
  - (* nothing read: lastChar is still '0' (fix b303e0a returns the end of file then) *)
    discriminate.
  - destruct (last_char_ok ("" ++ frag) "0"%char) as [c Hc]. rewrite Hc.
    intros H. destruct (rus_loop_fine reads ("" ++ frag) c p) as [(l & r & Heq & Hle)|(l & Heq)];
      rewrite Heq in H; inversion H; subst. simpl. lia.
Qed.

Theorem read_until_semicolon_no_panic : forall reads, read_until_semicolon reads <> RPanic.
Proof.
  intros reads H. unfold read_until_semicolon in H.
  destruct (rus_loop_fine reads "" "0"%char true) as [(l & r & Heq & _)|(l & Heq)]; rewrite Heq in H; discriminate.
Qed.

Theorem read_until_semicolon_no_fuel : forall reads, read_until_semicolon reads <> RFuel.
Proof.
  intros reads H. unfold read_until_semicolon in H.
  destruct (rus_loop_fine reads "" "0"%char true) as [(l & r & Heq & _)|(l & Heq)]; rewrite Heq in H; discriminate.
Qed.

(** * the reader loop of ReadMultiTrees *)
Section Multi.
  Variable nparse : string -> utree + string.

  Lemma mcons_done : forall i r, (exists l, r = MDone l) -> exists l, mcons i r = MDone l.
  Proof. intros i r [l ->]. simpl. eauto. Qed.

  Lemma multi_loop_done : forall fuel id line rest,
      length rest < fuel -> exists l, multi_loop nparse fuel id line rest = MDone l.
  Proof.
    induction fuel as [|f IH]; intros id line rest Hf; [lia|].
    simpl. destruct (nparse line) as [t|m]; [|eauto].
    apply mcons_done.
    destruct (read_until_semicolon rest) as [l r| l | |] eqn:E.
    - apply IH. apply rus_consumes in E. lia.
    - eauto.
    - exfalso. eapply read_until_semicolon_no_panic; eassumption.
    - exfalso. eapply read_until_semicolon_no_fuel; eassumption.
  Qed.

  (** ReadMultiTrees on a Newick stream always closes its channel: it neither panics nor loops *)
  Theorem read_multi_total : forall reads, exists l, read_multi nparse reads = MDone l.
  Proof.
    intros reads. unfold read_multi.
    destruct (read_until_semicolon reads) as [l r| l | |] eqn:E.
    - apply multi_loop_done. apply rus_consumes in E. lia.
    - eauto.
    - exfalso. eapply read_until_semicolon_no_panic; eassumption.
    - exfalso. eapply read_until_semicolon_no_fuel; eassumption.
  Qed.

  (** * reading "the first tree" (ReadTreeReader, after the fix 6227553) = the first record of ReadMultiTrees, for EVERY
      input whose first ';'-terminated text is complete, whatever its layout (one line, several lines, CRLF, lines longer
      than the buffer): the same tree, or the same parser error *)
  Definition rec0 (r : utree + string) : item :=
    match r with inl t => ITree 0 t | inr m => IErr 0 m end.

  Theorem first_tree_is_head : forall reads line rest,
      read_until_semicolon reads = RLine line rest ->
      first_tree_newick nparse reads = nparse line /\
      head_multi (read_multi nparse reads) = Some (rec0 (nparse line)).
  Proof.
    intros reads line rest E. split.
    - unfold first_tree_newick. rewrite E. reflexivity.
    - destruct (read_multi_total reads) as [l Hl]. revert Hl. unfold read_multi. rewrite E.
      cbn [multi_loop]. destruct (nparse line) as [t|m]; [|intros _; reflexivity].
      match goal with |- (mcons _ ?x = _) -> _ => destruct x as [l'|l'|] end; cbn [mcons]; intros H;
        [reflexivity|discriminate|discriminate].
  Qed.

  (** when the input ends before any ';' both report an error (the multi reader "EOF", the single reader "EOF" on an empty
      text and the parser's verdict otherwise) *)
  Theorem first_tree_eof : forall reads line,
      read_until_semicolon reads = REof line ->
      head_multi (read_multi nparse reads) = Some (IErr 0 "EOF") /\
      first_tree_newick nparse reads = (if String.eqb line "" then inr "EOF" else nparse line).
  Proof.
    intros reads line E. unfold read_multi, first_tree_newick. rewrite E. split; reflexivity.
  Qed.

  (** ids are consecutive from the start value, an error record is the last one *)
  Fixpoint ids_from (k : nat) (l : list item) : Prop :=
    match l with
    | [] => True
    | ITree id _ :: r => id = k /\ ids_from (S k) r
    | IErr id _ :: r => id = k /\ r = []
    end.

  Lemma multi_loop_ids : forall fuel id line rest l,
      multi_loop nparse fuel id line rest = MDone l -> ids_from id l.
  Proof.
    induction fuel as [|f IH]; intros id line rest l H; simpl in H; [discriminate|].
    destruct (nparse line) as [t|m].
    - destruct (read_until_semicolon rest) as [l' r'| l' | |] eqn:E; simpl in H.
      + destruct (multi_loop nparse f (S id) l' r') as [l2|l2|] eqn:E2; simpl in H; inversion H; subst.
        simpl. split; [reflexivity|]. eapply IH. eassumption.
      + inversion H; subst. simpl. auto.
      + discriminate.
      + discriminate.
    - inversion H; subst. simpl. auto.
  Qed.

  Theorem read_multi_ids : forall reads l, read_multi nparse reads = MDone l -> ids_from 0 l.
  Proof.
    intros reads l H. unfold read_multi in H.
    destruct (read_until_semicolon reads) as [l' r'| l' | |] eqn:E.
    - eapply multi_loop_ids. eassumption.
    - inversion H; subst. simpl. auto.
    - discriminate.
    - discriminate.
  Qed.
End Multi.

(** * Before the fix 114996a the back scan tested i >= 0: the witness " " read ln[-1] *)
Fixpoint back_scan_unfixed (fuel : nat) (ln : string) (i : Z) (last : ascii) : scan_res :=
  match fuel with
  | O => ScanFuel
  | S f =>
    if is_blank last && (0 <=? i)%Z then
      match byte_at ln (i - 1) with
      | None => ScanPanic
      | Some c => back_scan_unfixed f ln (i - 1) c
      end
    else ScanOk last
  end.

Lemma back_scan_unfixed_panics : back_scan_unfixed 3 " " 0 " "%char = ScanPanic.
Proof. reflexivity. Qed.
