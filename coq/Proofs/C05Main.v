(** C05: the statements exported to Properties/C05.v, packaged from Proofs/{Reroot,Unroot,
    Reorder,Splits}.v, and the concrete trees showing that the hypotheses are satisfiable. *)
From Coq Require Import String ZArith QArith Bool Arith Lia List Permutation Setoid Morphisms.
From GT Require Import Base.UTree Spec.Obs Model.Reroot Spec.Unrooted
     Proofs.RerootBase Proofs.Reroot Proofs.Unroot Proofs.Reorder Proofs.Splits.
Import ListNotations.
Local Close Scope Q_scope.

(** entry-by-entry reading of [dists_equiv], both directions *)
Definition dists_pointwise (l l' : list (string * string * Q)) : Prop :=
  (forall a b d, In (a, b, d) l -> exists d', In (a, b, d') l' /\ (d == d')%Q) /\
  (forall a b d, In (a, b, d) l' -> exists d', In (a, b, d') l /\ (d == d')%Q).

Lemma dists_equiv_pointwise l l' : dists_equiv l l' -> dists_pointwise l l' /\ length l = length l'.
Proof.
  intros H. split; [split|].
  - now apply dists_equiv_In.
  - apply dists_equiv_In. now symmetry.
  - eapply PermR_length; eauto.
Qed.

(** ** the specification's [leaves] are the names of Go's tips (nodes with one neighbour) *)
Local Arguments n_up : simpl never.

Lemma slots_tips_leaves sl :
  Forall (fun s : slot => match s with
                          | Some (_, t) => wf_sub t = true -> leaves t = map uname (tips t)
                          | None => True end) sl ->
  forallb (fun p => wf_sub (snd p)) (kids_of sl) = true ->
  map uname (flat_map (fun s : slot => match s with Some (_, c) => tips c | None => [] end) sl)
  = kleaves (kids_of sl).
Proof.
  induction 1 as [|[[e ch]|] l Hs H IH]; simpl; intros F; auto.
  apply andb_true_iff in F as [F1 F2].
  rewrite map_app, IH by auto. unfold kleaves. simpl. now rewrite Hs.
Qed.

Lemma leaves_tips_sub t : wf_sub t = true -> leaves t = map uname (tips t).
Proof.
  induction t as [n c sl IH] using utree_ind'. intros H.
  rewrite wf_sub_unfold in H. apply andb_true_iff in H as [U F]. apply Nat.eqb_eq in U.
  rewrite leaves_unfold. simpl tips. rewrite map_app, (slots_tips_leaves sl IH F).
  unfold is_tip, degree. simpl uslots. rewrite length_slots, U.
  destruct (kids_of sl) as [|k0 K0]; reflexivity.
Qed.

Theorem leaves_tip_names t : wf t = true -> 2 <= degree t -> leaves t = tip_names t.
Proof.
  destruct t as [n c sl]. intros H Hd.
  rewrite wf_unfold in H. apply andb_true_iff in H as [U F]. apply Nat.eqb_eq in U.
  unfold tip_names. rewrite leaves_unfold. simpl tips.
  assert (IH : Forall (fun s : slot => match s with
                          | Some (_, t) => wf_sub t = true -> leaves t = map uname (tips t)
                          | None => True end) sl).
  { apply Forall_forall. intros [[e ch]|] _; auto. apply leaves_tips_sub. }
  rewrite map_app, (slots_tips_leaves sl IH F).
  unfold degree in Hd. simpl in Hd. unfold is_tip, degree. simpl uslots.
  rewrite length_slots, U in *.
  destruct (kids_of sl) as [|k0 [|k1 K1]]; simpl in Hd; try lia. reflexivity.
Qed.

(** ** (a) re-rooting *)
Theorem reroot_tipset t i t' :
  wf t = true -> 2 <= degree t -> reroot t i = Ok t' -> tipset t' = tipset t.
Proof.
  intros Hwf Hd H. destruct (reroot_preserves t i t' Hwf Hd H) as [_ [_ [HL _]]].
  unfold tipset. now apply sset_perm.
Qed.

Theorem reroot_dists_pointwise t i t' w :
  wf t = true -> 2 <= degree t -> reroot t i = Ok t' ->
  dists_pointwise (pairdists w t') (pairdists w t) /\
  length (pairdists w t') = length (pairdists w t).
Proof.
  intros Hwf Hd H. destruct (reroot_preserves t i t' Hwf Hd H) as [_ [_ [_ HP]]].
  apply dists_equiv_pointwise, HP.
Qed.

(** everything about [reroot] in one statement *)
Theorem reroot_all t i t' :
  wf t = true -> 2 <= degree t -> reroot t i = Ok t' ->
  wf t' = true /\ 2 <= degree t' /\
  Permutation (leaves t') (leaves t) /\ tipset t' = tipset t /\
  (forall w, dists_equiv (pairdists w t') (pairdists w t)) /\
  splits_equiv (leaves t) (bsplits t') (bsplits t) /\
  (NoDup (leaves t) ->
   Permutation (branch_splits (tipset t') t') (branch_splits (tipset t) t)).
Proof.
  intros Hwf Hd H. destruct (reroot_preserves t i t' Hwf Hd H) as [W [D [HL HP]]].
  repeat split; auto.
  - eapply reroot_tipset; eauto.
  - eapply reroot_bsplits; eauto.
  - intros ND. eapply reroot_branch_splits; eauto.
Qed.

(** rotating onto a tip is not harmless for the observables (the spec's [leaves] does not
    count a root with a single child as a leaf): this is why [path_ok] / the refusal of
    [reroot] on tips matters. *)
Local Open Scope string_scope.
Definition E (l : Q) : einfo := mkE l nilv nilv [].
Definition tip (n : string) : utree := UNode n [] [None].

Lemma rotate_to_tip_refuted :
  exists t k t', wf t = true /\ 2 <= degree t /\ rotate_to t k = Some t' /\
                 ~ Permutation (leaves t') (leaves t).
Proof.
  exists (UNode "r" [] [Some (E 1%Q, tip "a"); Some (E 1%Q, tip "b"); Some (E 1%Q, tip "c")]),
         0, (UNode "a" [] [Some (E 1%Q, UNode "r" [] [None; Some (E 1%Q, tip "b"); Some (E 1%Q, tip "c")])]).
  repeat split; try (vm_compute; reflexivity); try (vm_compute; lia).
  intros H. apply Permutation_length in H. vm_compute in H. discriminate.
Qed.

(** ** (b) unrooting *)
Theorem unroot_all t :
  wf t = true -> rooted t = true -> root_has_inner_child t = true ->
  wf (unroot t) = true /\
  Permutation (leaves (unroot t)) (leaves t) /\ tipset (unroot t) = tipset t /\
  dists_equiv (pairdists len0 (unroot t)) (pairdists len0 t) /\
  (forall w, (forall e1 e2 b1 b2, w (merged_edge e1 e2 b1 b2) == w e1 + w e2)%Q ->
             dists_equiv (pairdists w (unroot t)) (pairdists w t)) /\
  ((forall p, In p (kids t) -> 0 <= elen (fst p))%Q ->
   dists_equiv (pairdists elen (unroot t)) (pairdists elen t)) /\
  (no_single t = true -> 3 <= degree (unroot t)).
Proof.
  intros Hwf Hr Hi.
  pose proof (unroot_leaves_rooted t Hwf Hr Hi) as HL.
  repeat split.
  - now apply unroot_wf_rooted.
  - exact HL.
  - unfold tipset. now apply sset_perm.
  - now apply unroot_pairdists_len0.
  - intros w Hw. now apply unroot_pairdists_rooted.
  - intros Hl. now apply unroot_pairdists_elen.
  - intros Hs. now apply unroot_degree_rooted.
Qed.

(** the splits of a rooted tree and of its unrooted version *)
Theorem unroot_splits t :
  wf t = true -> rooted t = true ->
  exists e1 N1 e2 N2 e3 far,
    kids t = [(e1, N1); (e2, N2)] /\
    (far = N1 \/ far = N2) /\
    elen e3 = merge_len (elen e1) (elen e2) /\
    (len0 e3 == len0 e1 + len0 e2)%Q /\
    bsplits t = (e1, leaves N1, isleaf N1) :: bsplits N1 ++ (e2, leaves N2, isleaf N2) :: bsplits N2 /\
    Permutation (bsplits (unroot t)) ((e3, leaves far, isleaf far) :: bsplits N1 ++ bsplits N2) /\
    (forall all, Permutation (branch_splits all (unroot t))
                             (canon_split all (e3, leaves far, isleaf far)
                              :: branch_splits all N1 ++ branch_splits all N2)).
Proof.
  intros Hwf Hr. destruct (rooted_shape t Hwf Hr) as (n0&c0&e1&n1&c1&sl1&e2&n2&c2&sl2&->).
  exists e1, (UNode n1 c1 sl1), e2, (UNode n2 c2 sl2),
         (merged_edge e1 e2 (Nat.eqb (length sl1) 1) (Nat.eqb (length sl2) 1)),
         (if Nat.eqb (length sl1) 1 then UNode n1 c1 sl1 else UNode n2 c2 sl2).
  repeat split.
  - destruct (Nat.eqb (length sl1) 1); auto.
  - apply elen_merged_merge_len.
  - apply len0_merged.
  - apply rooted_bsplits.
  - apply unroot_bsplits.
  - intros all. apply unroot_branch_splits.
Qed.

(** with two tips only, the unrooted tree is a tip hanging below a tip and the spec's
    [leaves] sees a single leaf: the hypothesis [root_has_inner_child] cannot be dropped
    (the property is stated for trees with at least three tips). *)
Lemma unroot_two_tips_refuted :
  exists t, wf t = true /\ rooted t = true /\ ~ Permutation (leaves (unroot t)) (leaves t).
Proof.
  exists (UNode "r" [] [Some (E 1%Q, tip "a"); Some (E 1%Q, tip "b")]).
  repeat split; try (vm_compute; reflexivity).
  intros H. apply Permutation_length in H. vm_compute in H. discriminate.
Qed.

(** "the new root has at least three neighbours unless both root children are tips" is false
    when the root child that is kept as root is a single-child node: [no_single] is needed
    (the exact degree is given by [unroot_degree]). *)
Lemma unroot_degree_refuted :
  exists t, wf t = true /\ rooted t = true /\ root_has_inner_child t = true /\
            Permutation (leaves (unroot t)) (leaves t) /\ degree (unroot t) = 2.
Proof.
  exists (UNode "r" [] [Some (E 1%Q, tip "a");
                        Some (E 1%Q, UNode "x" [] [None; Some (E 1%Q, UNode "y" [] [None; Some (E 1%Q, tip "b"); Some (E 1%Q, tip "c")])])]).
  repeat split; try (vm_compute; reflexivity).
  vm_compute. perm.
Qed.

(** ** (c) reorderings *)
Theorem tperm_all t t' :
  tperm t t' ->
  (wf t = true -> wf t' = true) /\ degree t' = degree t /\
  Permutation (leaves t') (leaves t) /\ tipset t' = tipset t /\
  (forall w, Permutation (pairdists w t') (pairdists w t)) /\
  (forall w, dists_equiv (pairdists w t') (pairdists w t)) /\
  PermR bs_same (bsplits t') (bsplits t) /\
  (forall all, Permutation (branch_splits all t') (branch_splits all t)).
Proof.
  intros H. repeat split.
  - now apply tperm_wf.
  - now apply tperm_degree.
  - now apply tperm_leaves.
  - now apply tperm_tipset.
  - intros w. now apply tperm_pairdists.
  - intros w. now apply tperm_dists_equiv.
  - now apply tperm_bsplits.
  - intros all. now apply tperm_branch_splits.
Qed.

Theorem rotate_all_all t cs :
  let t' := fst (rotate_all t cs) in
  tperm t t' /\
  (wf t = true -> wf t' = true) /\ degree t' = degree t /\
  Permutation (leaves t') (leaves t) /\ tipset t' = tipset t /\
  (forall w, Permutation (pairdists w t') (pairdists w t)) /\
  (forall w, dists_equiv (pairdists w t') (pairdists w t)) /\
  PermR bs_same (bsplits t') (bsplits t) /\
  (forall all, Permutation (branch_splits all t') (branch_splits all t)).
Proof.
  intros t'. pose proof (rotate_all_tperm t cs) as H. split; auto. now apply tperm_all.
Qed.

Theorem sort_by_tips_all t :
  let t' := sort_by_tips t in
  tperm t t' /\
  (wf t = true -> wf t' = true) /\ degree t' = degree t /\
  Permutation (leaves t') (leaves t) /\ tipset t' = tipset t /\
  (forall w, Permutation (pairdists w t') (pairdists w t)) /\
  (forall w, dists_equiv (pairdists w t') (pairdists w t)) /\
  PermR bs_same (bsplits t') (bsplits t) /\
  (forall all, Permutation (branch_splits all t') (branch_splits all t)).
Proof.
  intros t'. pose proof (sort_by_tips_tperm t) as H. split; auto. now apply tperm_all.
Qed.

(** ** concrete trees: the hypotheses are satisfiable and the operations do something *)
Definition c05_tree : utree :=
  UNode "r" []
    [Some (E (1#2)%Q, tip "a");
     Some (E (3#4)%Q, UNode "x" [] [Some (E 1%Q, tip "b"); None; Some (E (1#4)%Q, tip "c");
                                    Some (E 2%Q, tip "d")]);
     Some (E (5#4)%Q, UNode "y" [] [None; Some (E (1#8)%Q, tip "e");
                                    Some (E (7#8)%Q, UNode "z" [] [Some (E 1%Q, tip "f");
                                                                   Some (E 3%Q, tip "g"); None])])].

Definition c05_rooted_tree : utree :=
  UNode "r" []
    [Some (E (1#2)%Q, UNode "x" [] [Some (E 1%Q, tip "b"); None; Some (E (1#4)%Q, tip "c");
                                    Some (E 2%Q, tip "d")]);
     Some (mkE nilv (7#8)%Q nilv [], UNode "y" [] [None; Some (E (1#8)%Q, tip "e");
                                                   Some (E (7#8)%Q, tip "f")])].

Lemma NoDup_c05_tree : NoDup (leaves c05_tree).
Proof.
  vm_compute. repeat (constructor; [simpl; intuition discriminate|]). constructor.
Qed.

(** re-rooting on node 8 ("z", two levels down) of a multifurcating tree *)
Lemma c05_example_reroot :
  wf c05_tree = true /\ 2 <= degree c05_tree /\ NoDup (leaves c05_tree) /\
  exists t', reroot c05_tree 8 = Ok t' /\ uname t' = "z" /\ utree_eqb t' c05_tree = false.
Proof.
  split; [vm_compute; reflexivity|]. split; [vm_compute; lia|]. split; [apply NoDup_c05_tree|].
  eexists. split; [vm_compute; reflexivity|]. split; vm_compute; reflexivity.
Qed.

Lemma c05_example_reroot_refusals :
  (exists m, reroot c05_tree 1 = Err m) /\ (exists m, reroot c05_tree 11 = Err m).
Proof. split; eexists; vm_compute; reflexivity. Qed.

Lemma c05_example_unroot :
  wf c05_rooted_tree = true /\ rooted c05_rooted_tree = true /\
  root_has_inner_child c05_rooted_tree = true /\ no_single c05_rooted_tree = true /\
  utree_eqb (unroot c05_rooted_tree) c05_rooted_tree = false /\
  rooted c05_tree = false.
Proof. repeat split; vm_compute; reflexivity. Qed.

Lemma c05_example_reorder :
  utree_eqb (fst (rotate_all c05_tree [0;0;1;0;1;1;0;0;0;2;1;0;1;0;0;1;2;0;0;0;0;0;0])) c05_tree = false /\
  utree_eqb (sort_by_tips c05_tree) c05_tree = false.
Proof. split; vm_compute; reflexivity. Qed.
