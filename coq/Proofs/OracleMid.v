(** C05, the whole oracle of midpoint rooting ([oracle_midpoint_ok] and the index clause of
    Judge/C05.v) accepts the result of the model, for all well-formed trees with distinct tip names
    whose branches all have a length >= 0 (supports of the root branches absent or >= 0). *)
From Coq Require Import String ZArith QArith Bool Arith Lia Lqa List Permutation Setoid Morphisms.
From GT Require Import Base.Sexp Base.UTree Spec.Obs Model.Reroot Model.Index Model.Outgroup Spec.Unrooted
     Judge.Common Judge.C05
     Proofs.RerootBase Proofs.Reroot Proofs.Unroot Proofs.Splits Proofs.USplits Proofs.C05Main
     Proofs.IndexSplit Proofs.IndexEditOps
     Proofs.OutgroupKeep Proofs.OutgroupMidpoint Proofs.OutgroupMidDist Proofs.OutgroupHalf Proofs.OutgroupHalfMain
     Proofs.OutgroupSplits Proofs.OutgroupSplitsMain Proofs.OracleC05 Proofs.OracleSup Proofs.OracleIndex.
Import ListNotations.
Local Close Scope Q_scope.
Local Arguments leaves : simpl never.
Local Arguments bsplits : simpl never.

(** * weights that agree on every branch give the same observables *)
Lemma obs_ext w1 w2 s :
  (forall x, In x (bsplits s) -> w1 (fst (fst x)) = w2 (fst (fst x))) ->
  depths w1 s = depths w2 s /\ pairdists w1 s = pairdists w2 s.
Proof.
  induction s as [n c sl IH] using utree_ind'. intros H.
  rewrite !depths_unfold, !pairdists_unfold.
  assert (K : kD w1 (kids_of sl) = kD w2 (kids_of sl) /\ kpd w1 (kids_of sl) = kpd w2 (kids_of sl)).
  { rewrite bsplits_unfold in H.
    assert (IH' : Forall (fun p : einfo * utree =>
               (forall x, In x (bsplits (snd p)) -> w1 (fst (fst x)) = w2 (fst (fst x))) ->
               depths w1 (snd p) = depths w2 (snd p) /\ pairdists w1 (snd p) = pairdists w2 (snd p)) (kids_of sl)).
    { rewrite Forall_forall in *. intros [e ch] Hin. apply kids_of_In in Hin. exact (IH _ Hin). }
    clear IH. revert H. induction IH' as [|p K Hp HK IHK]; intros H; [split; reflexivity|].
    rewrite kbs_cons in H.
    destruct Hp as [D P]; [intros x Hx; apply H; right; apply in_or_app; now left|].
    destruct IHK as [D' P']; [intros x Hx; apply H; right; apply in_or_app; now right|].
    pose proof (H (fst p, leaves (snd p), isleaf (snd p)) (or_introl eq_refl)) as Hw. cbn [fst] in Hw.
    unfold kD, kpd in *. simpl. rewrite D, P, D', P', Hw. auto. }
  destruct K as [K1 K2]. now rewrite K1, K2.
Qed.

Lemma len0_is_elen e : (0 <= elen e)%Q -> len0 e = elen e.
Proof. intros H. unfold len0. apply Qle_bool_iff in H. now rewrite H. Qed.

(** * the branches of the unrooted tree are not negative when those of the tree are not *)
Lemma unroot_nonneg t :
  wf t = true ->
  (forall x, In x (bsplits t) -> (0 <= elen (fst (fst x)))%Q) ->
  forall x, In x (bsplits (unroot t)) -> (0 <= elen (fst (fst x)))%Q.
Proof.
  intros Hwf H x Hx. destruct (rooted t) eqn:Hr; [|rewrite (unroot_not_rooted t Hr) in Hx; auto].
  destruct (unroot_splits t Hwf Hr) as (e1&N1&e2&N2&e3&far&K&Hfar&E3&_&B&BU&_).
  apply (Permutation_in _ BU) in Hx. destruct Hx as [<-|Hx].
  - cbn [fst]. rewrite E3.
    assert (H1 : (0 <= elen e1)%Q) by (apply (H (e1, leaves N1, isleaf N1)); rewrite B; now left).
    assert (H2 : (0 <= elen e2)%Q) by (apply (H (e2, leaves N2, isleaf N2)); rewrite B; right; apply in_or_app; right; now left).
    rewrite (merge_len_nonneg _ _ H1 H2). lra.
  - apply H. rewrite B. right. apply in_app_or in Hx as [Hx|Hx]; apply in_or_app; [left; auto|right; right; auto].
Qed.

(** * the largest of a list of distances *)
Lemma qmax_list_max l d :
  In d l -> (forall y, In y l -> (y <= d)%Q) -> (0 <= d)%Q -> (qmax_list l == d)%Q.
Proof.
  intros Hin Hmax Hd.
  assert (G : forall l', (forall y, In y l' -> (y <= d)%Q) -> (qmax_list l' <= d)%Q /\ (In d l' -> (qmax_list l' == d)%Q)).
  { induction l' as [|x r IH]; intros Hm; simpl.
    - split; [exact Hd | intros []].
    - destruct IH as [I1 I2]; [intros y Hy; apply Hm; now right|].
      assert (Hx : (x <= d)%Q) by (apply Hm; now left).
      destruct (Qle_bool (qmax_list r) x) eqn:E.
      + apply Qle_bool_iff in E. split; [exact Hx|]. intros [->|Hr]; [reflexivity|]. rewrite (I2 Hr) in E. lra.
      + split; [exact I1|]. intros [->|Hr]; [|auto].
        assert (~ (qmax_list r <= d)%Q) by (intros F; apply Qle_bool_iff in F; congruence). contradiction. }
  now apply (G l Hmax).
Qed.

Lemma depth_of_unique w s a da :
  NoDup (leaves s) -> In (a, da) (depths w s) -> depth_of (depths w s) a = Some da.
Proof.
  intros ND Hin. unfold depth_of.
  destruct (find (fun p => String.eqb (fst p) a) (depths w s)) as [[a' d']|] eqn:E.
  - apply find_some in E as [H1 H2]. simpl in H2. apply String.eqb_eq in H2. subst a'.
    f_equal. eapply depth_unique; eauto.
  - exfalso. apply (find_none _ _ E) in Hin. simpl in Hin. rewrite String.eqb_refl in Hin. discriminate.
Qed.

Lemma two_kids t' : wf t' = true -> degree t' = 2 -> exists x y, kids t' = [x; y].
Proof.
  destruct t' as [n c sl]. rewrite wf_unfold. unfold degree, kids. simpl. intros H D.
  apply andb_true_iff in H as [H _]. apply Nat.eqb_eq in H.
  pose proof (length_slots sl) as HL. rewrite H, D in HL. simpl in HL.
  destruct (kids_of sl) as [|x [|y [|z r]]]; simpl in HL; try lia. eauto.
Qed.

(** * the theorem *)
Theorem oracle_midpoint_accepts t t' :
  wf t = true -> 2 <= degree t -> (rooted t = true -> root_has_inner_child t = true) ->
  NoDup (leaves t) ->
  (forall x, In x (bsplits t) -> (0 <= elen (fst (fst x)))%Q) ->
  (forall p, In p (kids t) -> good_sup (fst p)) ->
  reroot_midpoint t = Ok t' ->
  oracle_midpoint_ok t t' = None /\
  (let '(idx, st, bs) := tables_obs t' in index_ok_data t' idx st bs = None).
Proof.
  intros Hwf Hd Hi ND Hnn Hgs H.
  pose proof (unroot_nonneg t Hwf Hnn) as Hnn1.
  destruct (reroot_midpoint_wf_leaves t t' Hwf Hd Hi H) as (W' & D' & L').
  assert (ND' : NoDup (leaves t')) by (eapply Permutation_NoDup; [symmetry; exact L'|exact ND]).
  split.
  - unfold oracle_midpoint_ok.
    rewrite (oracle_accepts_midpoint t t' Hwf Hd Hi ND Hnn1 H).
    assert (SK : supports_kept t t' = true).
    { apply supports_kept_of_lookup. intros k.
      apply (orel_trans _ (split_seq_trans _) _ (find_split k (usplits (unroot t)))).
      - eapply orel_mono; [apply split_qeq_seq|]. exact (midpoint_usplits t t' Hwf Hd Hi ND Hnn1 H k).
      - destruct (rooted t) eqn:Hr.
        + apply unroot_usplits_sup; auto.
        + rewrite (unroot_not_rooted t Hr). apply orel_refl, split_seq_refl. }
    rewrite SK. cbn [negb].
    destruct (two_kids t' W' D') as [x [y ->]].
    destruct (all_lengths t); cbn [negb]; [|reflexivity].
    (* the halfway test *)
    assert (Hroot : rooted t = true -> forall p, In p (kids t) -> (0 <= elen (fst p))%Q).
    { intros Hr p Hp. destruct (rooted_shape t Hwf Hr) as (n0&c0&e1&n1&c1&sl1&e2&n2&c2&sl2&E).
      rewrite E in Hp. simpl in Hp. destruct Hp as [<-|[<-|[]]]; cbn [fst].
      - apply (Hnn (e1, leaves (UNode n1 c1 sl1), isleaf (UNode n1 c1 sl1))). rewrite E, rooted_bsplits. now left.
      - apply (Hnn (e2, leaves (UNode n2 c2 sl2), isleaf (UNode n2 c2 sl2))). rewrite E, rooted_bsplits.
        right. apply in_or_app. right. now left. }
    destruct (reroot_midpoint_halfway t t' Hwf Hd Hi Hroot ND H)
      as (a & b & d & da & db & Hab & Hmax & Hd0 & Hda & Hdb & Eda & Edb).
    destruct (obs_ext len0 elen t) as [_ PE]; [intros z Hz; apply len0_is_elen, Hnn, Hz|].
    destruct (obs_ext len0 elen t') as [DE' _];
      [intros z Hz; apply len0_is_elen; exact (midpoint_edges_nonneg t t' Hwf Hd Hi ND Hnn1 H z Hz)|].
    rewrite PE, DE'.
    assert (ED : (qmax_list (map snd (pairdists elen t)) == d)%Q).
    { apply qmax_list_max; [apply in_map_iff; exists (a, b, d); auto | | lra].
      intros y0 Hy. apply in_map_iff in Hy as [z [<- Hz]]. now apply Hmax. }
    assert (EX : existsb (fun z : string * string * Q =>
                  qeqb (snd z) (qmax_list (map snd (pairdists elen t))) &&
                  oq_eqb (depth_of (depths elen t') (fst (fst z))) (Some (qmax_list (map snd (pairdists elen t)) * (1 # 2))%Q) &&
                  oq_eqb (depth_of (depths elen t') (snd (fst z))) (Some (qmax_list (map snd (pairdists elen t)) * (1 # 2))%Q))
                 (pairdists elen t) = true).
    { apply existsb_exists. exists (a, b, d). split; auto. cbn [fst snd].
      rewrite (depth_of_unique elen t' a da ND' Hda), (depth_of_unique elen t' b db ND' Hdb).
      cbn [oq_eqb]. unfold qeqb.
      apply andb_true_iff. split; [apply andb_true_iff; split|]; apply Qeq_bool_iff.
      - now symmetry.
      - rewrite Eda, ED. reflexivity.
      - rewrite Edb, ED. reflexivity. }
    now rewrite EX.
  - apply index_ok_tables. repeat split; auto. lia.
Qed.
