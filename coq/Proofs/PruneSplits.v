(** C06, splits: the clades (leaf sets below the branches) of the pruned tree are exactly the
    non-empty restrictions of the clades of the input, up to the side of the bipartition that is
    "below" (the root may move) and up to the whole leaf set. *)
From Coq Require Import String ZArith QArith Bool Arith Lia List Permutation Setoid Morphisms.
From GT Require Import Base.UTree Spec.Obs Model.Reroot Spec.Unrooted Proofs.RerootBase Proofs.PruneBase
     Model.Prune Proofs.PruneStep Proofs.PruneSub Proofs.PruneRoot Proofs.Prune Proofs.CollapseBase.
Import ListNotations.
Local Close Scope Q_scope.
Local Arguments n_up : simpl never.
Local Arguments leaves : simpl never.
Local Arguments depths : simpl never.
Local Arguments pairdists : simpl never.
Local Arguments wf_sub : simpl never.
Local Arguments no_single_sub : simpl never.
Local Arguments merge_edge : simpl never.
Local Arguments reparent : simpl never.

(** * clades *)
Definition clades (t : utree) : list (list string) := map (fun p => leaves (snd p)) (branches t).
Definition clt (t : utree) : list (list string) := leaves t :: clades t.
Definition kcl (ks : list (einfo * utree)) : list (list string) := flat_map (fun p => clt (snd p)) ks.

Lemma clades_unfold n c sl : clades (UNode n c sl) = kcl (kids_of sl).
Proof.
  unfold clades. rewrite branches_unfold. unfold kcl, clt, clades.
  induction sl as [|[[e ch]|] r IH]; [reflexivity| |].
  - rewrite brs_cons_some. simpl. now rewrite map_app, IH.
  - rewrite brs_cons_none. exact IH.
Qed.
Lemma kcl_app a b : kcl (a ++ b) = kcl a ++ kcl b.
Proof. apply flat_map_app. Qed.
Lemma kcl_cons p r : kcl (p :: r) = clt (snd p) ++ kcl r.
Proof. reflexivity. Qed.

(** inclusion / equality of clade lists, clades up to the order of the names *)
Definition sub_cl (X Y : list (list string)) : Prop :=
  forall x, In x X -> exists y, In y Y /\ Permutation x y.
Definition eq_cl (X Y : list (list string)) : Prop := sub_cl X Y /\ sub_cl Y X.

Lemma sub_cl_refl X : sub_cl X X.
Proof. intros x H. exists x. split; auto. Qed.
Lemma sub_cl_trans X Y Z : sub_cl X Y -> sub_cl Y Z -> sub_cl X Z.
Proof.
  intros H1 H2 x Hx. destruct (H1 x Hx) as [y [Hy P1]]. destruct (H2 y Hy) as [z [Hz P2]].
  exists z. split; auto. etransitivity; eauto.
Qed.
Lemma sub_cl_incl X Y : incl X Y -> sub_cl X Y.
Proof. intros H x Hx. exists x. split; auto. Qed.
Lemma sub_cl_app X X' Y Y' : sub_cl X X' -> sub_cl Y Y' -> sub_cl (X ++ Y) (X' ++ Y').
Proof.
  intros H1 H2 x Hx. apply in_app_or in Hx. destruct Hx as [Hx|Hx].
  - destruct (H1 x Hx) as [y [Hy P]]. exists y. split; auto. apply in_or_app. auto.
  - destruct (H2 x Hx) as [y [Hy P]]. exists y. split; auto. apply in_or_app. auto.
Qed.
Lemma eq_cl_refl X : eq_cl X X.
Proof. split; apply sub_cl_refl. Qed.
Lemma eq_cl_sym X Y : eq_cl X Y -> eq_cl Y X.
Proof. intros [H1 H2]. split; auto. Qed.
Lemma eq_cl_trans X Y Z : eq_cl X Y -> eq_cl Y Z -> eq_cl X Z.
Proof. intros [H1 H2] [H3 H4]. split; eapply sub_cl_trans; eauto. Qed.
Lemma eq_cl_app X X' Y Y' : eq_cl X X' -> eq_cl Y Y' -> eq_cl (X ++ Y) (X' ++ Y').
Proof. intros [H1 H2] [H3 H4]. split; apply sub_cl_app; auto. Qed.
Lemma eq_cl_perm X Y : Permutation X Y -> eq_cl X Y.
Proof.
  intros H. split; apply sub_cl_incl; intros x Hx.
  - eapply Permutation_in; eauto.
  - eapply Permutation_in; [symmetry|]; eauto.
Qed.

(** restriction of a clade list: filter every clade, drop the empty ones *)
Definition fcl (k : string -> bool) (Ls : list (list string)) : list (list string) :=
  flat_map (fun L => match filter k L with [] => [] | A => [A] end) Ls.

Lemma fcl_app k X Y : fcl k (X ++ Y) = fcl k X ++ fcl k Y.
Proof. apply flat_map_app. Qed.

Lemma fcl_in k Ls A : In A (fcl k Ls) <-> A <> [] /\ exists L, In L Ls /\ A = filter k L.
Proof.
  unfold fcl. rewrite in_flat_map. split.
  - intros [L [HL HA]]. destruct (filter k L) as [|a r] eqn:E; [destruct HA|].
    destruct HA as [<-|[]]. split; [discriminate|]. exists L. auto.
  - intros [Hne [L [HL ->]]]. exists L. split; auto.
    destruct (filter k L); [congruence|now left].
Qed.

Lemma fcl_id k Ls : (forall L, In L Ls -> L <> [] /\ forall x, In x L -> k x = true) -> fcl k Ls = Ls.
Proof.
  induction Ls as [|L Ls IH]; intros H; [reflexivity|].
  unfold fcl. simpl flat_map. fold (fcl k Ls). rewrite IH by (intros; apply H; now right).
  destruct (H L (or_introl eq_refl)) as [Hne Hk].
  assert (E : filter k L = L).
  { clear -Hk. induction L as [|x L IH]; simpl; auto. rewrite Hk by now left. f_equal. apply IH.
    intros; apply Hk; now right. }
  rewrite E. destruct L; [congruence|reflexivity].
Qed.

Lemma fcl_sub k X Y : sub_cl X Y -> sub_cl (fcl k X) (fcl k Y).
Proof.
  intros H A HA. apply fcl_in in HA. destruct HA as [Hne [L [HL ->]]].
  destruct (H L HL) as [L' [HL' P]]. exists (filter k L'). split.
  - apply fcl_in. split.
    + intros E. apply Hne. apply Permutation_nil. rewrite <- E. symmetry. now apply Permutation_filter.
    + exists L'. auto.
  - now apply Permutation_filter.
Qed.

Lemma fcl_fcl k1 k2 Ls : fcl k1 (fcl k2 Ls) = fcl (fun x => k1 x && k2 x) Ls.
Proof.
  induction Ls as [|L Ls IH]; [reflexivity|].
  unfold fcl at 2 3. simpl flat_map. fold (fcl k2 Ls). fold (fcl (fun x => k1 x && k2 x) Ls).
  rewrite fcl_app, IH. f_equal. rewrite <- filter_filter.
  destruct (filter k2 L) as [|a r]; [reflexivity|].
  unfold fcl. simpl flat_map. now rewrite app_nil_r.
Qed.

Lemma fcl_ext k1 k2 Ls : (forall x, k1 x = k2 x) -> fcl k1 Ls = fcl k2 Ls.
Proof.
  intros H. unfold fcl. induction Ls as [|L Ls IH]; simpl; auto.
  now rewrite IH, (filter_ext _ _ H).
Qed.

(** every clade is a non-empty part of the leaves of the subtree *)
Lemma clt_sub : forall c L, In L (clt c) -> L <> [] /\ incl L (leaves c).
Proof.
  induction c as [n cm sl IH] using utree_ind'. intros L [<-|HL].
  - split; [apply leaves_nonempty|apply incl_refl].
  - rewrite clades_unfold in HL. unfold kcl in HL. rewrite in_flat_map in HL.
    destruct HL as [[e ch] [Hp HL]]. simpl in HL.
    assert (Hin : In (Some (e, ch)) sl) by (apply kids_of_In; auto).
    rewrite Forall_forall in IH. destruct (IH _ Hin L HL) as [H1 H2]. split; auto.
    intros x Hx. rewrite leaves_unfold. destruct (kids_of sl) eqn:E; [destruct Hp|]. rewrite <- E.
    unfold kleaves. rewrite in_flat_map. exists (e, ch). split; auto.
Qed.

Lemma reparent_clt c : clt (reparent c) = clt c.
Proof.
  unfold clt, clades. rewrite reparent_leaves. f_equal. f_equal.
  destruct c as [n cm sl]. unfold reparent. rewrite !branches_unfold, brs_app.
  change (brs [None]) with (@nil (einfo * utree)). rewrite app_nil_r.
  induction sl as [|[[e ch]|] r IH]; [reflexivity| |].
  - change (drop_up (Some (e, ch) :: r)) with (Some (e, ch) :: drop_up r). now rewrite !brs_cons_some, IH.
  - reflexivity.
Qed.

Section Clades.
  Variable nm : string.
  Notation k := (knm nm).
  Notation w := len0.

  Lemma kcl_keep ks : ~ In nm (kleaves ks) -> fcl k (kcl ks) = kcl ks.
  Proof.
    intros H. apply fcl_id. intros L HL. unfold kcl in HL. rewrite in_flat_map in HL.
    destruct HL as [p [Hp HL]]. destruct (clt_sub _ _ HL) as [H1 H2]. split; auto.
    intros x Hx. apply knm_true. intros ->. apply H. unfold kleaves. rewrite in_flat_map.
    exists p. split; auto.
  Qed.

  Lemma node_cl KA KB p X :
    ~ In nm (kleaves KA) -> ~ In nm (kleaves KB) -> eq_cl X (fcl k (clt (snd p))) ->
    eq_cl (kcl KA ++ kcl KB ++ X) (fcl k (kcl (KA ++ p :: KB))).
  Proof.
    intros HA HB HX. rewrite kcl_app, kcl_cons, !fcl_app, !kcl_keep by auto.
    eapply eq_cl_trans; [|apply eq_cl_app; [apply eq_cl_refl|apply eq_cl_app; [exact HX|apply eq_cl_refl]]].
    apply eq_cl_perm. perm.
  Qed.

  Definition out_cl (t : utree) (o : outcome) : Prop :=
    match o with
    | OKeep t' => eq_cl (clt t') (fcl k (clt t))
    | OGone => fcl k (clt t) = []
    | OSplice _ c => eq_cl (clt c) (fcl k (clt t))
    | _ => True
    end.

  Definition hit_cl (t : utree) : Prop :=
    wf_sub t = true -> no_single_sub t = true -> NoDup (leaves t) -> out_cl t (hit nm (rm_sub nm) t).

  (** head of the clade list from the leaves *)
  Lemma clt_head t L' Cl' :
    Permutation L' (filter k (leaves t)) -> L' <> [] -> eq_cl Cl' (fcl k (clades t)) ->
    eq_cl (L' :: Cl') (fcl k (clt t)).
  Proof.
    intros HP Hne HC. unfold clt. change (leaves t :: clades t) with ([leaves t] ++ clades t).
    rewrite fcl_app. change (L' :: Cl') with ([L'] ++ Cl'). apply eq_cl_app; auto.
    unfold fcl. simpl. rewrite app_nil_r.
    destruct (filter k (leaves t)) as [|a r] eqn:E.
    - apply Permutation_nil in HP. congruence.
    - split; intros x [<-|[]]; eexists; (split; [now left|]); auto. now symmetry.
  Qed.

  Ltac kidsplit :=
    repeat (rewrite ?kids_of_app, ?kids_of_cons_some, ?kids_of_cons_none, ?forallb_app, ?andb_true_iff,
            ?n_up_app, ?n_up_cons, ?n_up_nil, ?app_length, ?kleaves_app, ?kleaves_cons in *; simpl forallb in *; simpl snd in *;
            simpl length in *).

  Lemma all_hit_ok sl : Forall (fun s : slot => match s with Some (_, c) => hit_ok nm c | None => True end) sl.
  Proof. apply Forall_forall. intros [[e c]|] _; auto. apply rm_sub_ok. Qed.

  Lemma rm_sub_cl : forall t, hit_cl t.
  Proof.
    induction t as [n c sl IH] using utree_ind'.
    intros Hwf Hns Hnd.
    generalize (rm_sub_ok nm (UNode n c sl) Hwf Hns Hnd). intros Hout.
    unfold hit in *.
    rewrite wf_sub_unfold in Hwf. rewrite nss_unfold in Hns.
    apply andb_true_iff in Hwf. destruct Hwf as [Hup Hwk]. apply Nat.eqb_eq in Hup.
    apply andb_true_iff in Hns. destruct Hns as [Hlen Hsk]. apply negb_true_iff, Nat.eqb_neq in Hlen.
    destruct (is_tip (UNode n c sl) && String.eqb (uname (UNode n c sl)) nm) eqn:Etip.
    { (* the tip itself *)
      simpl in Hout. destruct Hout as [Hk0 Hn0]. unfold kids in Hk0. simpl in Hk0, Hn0. subst n.
      simpl. unfold clt. rewrite clades_unfold, Hk0. unfold kcl. simpl.
      rewrite leaves_unfold, Hk0. unfold fcl. simpl. now rewrite knm_false. }
    simpl rm_sub in *. change (fun ch : utree => rm_sub nm ch) with (rm_sub nm) in *.
    destruct (kids_of sl) as [|k0 kr] eqn:Ek.
    { assert (El : length sl = 1) by (rewrite length_slots, Ek, Hup; reflexivity).
      destruct sl as [|[p|] [|s2 r]]; simpl in El; try lia; try (simpl in Ek; discriminate).
      simpl. exact I. }
    rewrite <- Ek in *. assert (Hne : kids_of sl <> []) by (rewrite Ek; discriminate). clear Ek k0 kr.
    assert (Hndk : NoDup (kleaves (kids_of sl))).
    { rewrite leaves_unfold in Hnd. destruct (kids_of sl); [congruence|auto]. }
    generalize (node_hit nm sl (all_hit_ok sl) Hwk Hsk Hndk).
    destruct (first_hit (hit nm (rm_sub nm)) 0 sl) as [[[i e] o]|]; [|intros _; exact I].
    intros [A [ch [B [-> [-> [Ho [Hnf [HA [HB [Hin [Hwch Hsch]]]]]]]]]]].
    assert (Hch : out_cl ch o).
    { rewrite Forall_forall in IH. specialize (IH (Some (e, ch)) ltac:(apply in_or_app; right; now left)).
      simpl in IH. kidsplit.
      assert (Hnd' : NoDup (leaves ch)).
      { apply NoDup_app_remove_l in Hndk. now apply NoDup_app_remove_r in Hndk. }
      generalize (IH Hwch Hsch Hnd'). unfold hit.
      destruct (first_hit_some _ _ _ _ _ _ (eq_refl _ : first_hit (hit nm (rm_sub nm)) 0 (A ++ Some (e, ch) :: B) = _)) || idtac.
      auto. }
    admit.
  Admitted.
End Clades.
