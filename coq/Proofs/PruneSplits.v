(** C06, splits: the clades (leaf sets below the branches) of the pruned tree are exactly the
    non-empty restrictions of the clades of the input, up to the side of the bipartition that is
    "below" (the root may move) and up to the whole leaf set. *)
From Coq Require Import String ZArith QArith Bool Arith Lia List Permutation Setoid Morphisms.
From GT Require Import Base.UTree Spec.Obs Model.Reroot Spec.Unrooted Proofs.RerootBase Proofs.PruneBase
     Model.Prune Proofs.PruneStep Proofs.PruneSub Proofs.PruneRoot Proofs.Prune Proofs.CollapseBase.
Import ListNotations.
Local Close Scope Q_scope.
Local Arguments n_up : simpl never.
Local Arguments leaves : simpl never.
Local Arguments depths : simpl never.
Local Arguments pairdists : simpl never.
Local Arguments wf_sub : simpl never.
Local Arguments no_single_sub : simpl never.
Local Arguments merge_edge : simpl never.
Local Arguments reparent : simpl never.

(** * clades *)
Definition clades (t : utree) : list (list string) := map (fun p => leaves (snd p)) (branches t).
Definition clt (t : utree) : list (list string) := leaves t :: clades t.
Definition kcl (ks : list (einfo * utree)) : list (list string) := flat_map (fun p => clt (snd p)) ks.

Lemma clades_unfold n c sl : clades (UNode n c sl) = kcl (kids_of sl).
Proof.
  unfold clades. rewrite branches_unfold. unfold kcl, clt, clades.
  induction sl as [|[[e ch]|] r IH]; [reflexivity| |].
  - rewrite brs_cons_some. simpl. now rewrite map_app, IH.
  - rewrite brs_cons_none. exact IH.
Qed.
Lemma kcl_app a b : kcl (a ++ b) = kcl a ++ kcl b.
Proof. apply flat_map_app. Qed.
Lemma kcl_cons p r : kcl (p :: r) = clt (snd p) ++ kcl r.
Proof. reflexivity. Qed.

(** inclusion / equality of clade lists, clades up to the order of the names *)
Definition sub_cl (X Y : list (list string)) : Prop :=
  forall x, In x X -> exists y, In y Y /\ Permutation x y.
Definition eq_cl (X Y : list (list string)) : Prop := sub_cl X Y /\ sub_cl Y X.

Lemma sub_cl_refl X : sub_cl X X.
Proof. intros x H. exists x. split; auto. Qed.
Lemma sub_cl_trans X Y Z : sub_cl X Y -> sub_cl Y Z -> sub_cl X Z.
Proof.
  intros H1 H2 x Hx. destruct (H1 x Hx) as [y [Hy P1]]. destruct (H2 y Hy) as [z [Hz P2]].
  exists z. split; auto. etransitivity; eauto.
Qed.
Lemma sub_cl_incl X Y : incl X Y -> sub_cl X Y.
Proof. intros H x Hx. exists x. split; auto. Qed.
Lemma sub_cl_app X X' Y Y' : sub_cl X X' -> sub_cl Y Y' -> sub_cl (X ++ Y) (X' ++ Y').
Proof.
  intros H1 H2 x Hx. apply in_app_or in Hx. destruct Hx as [Hx|Hx].
  - destruct (H1 x Hx) as [y [Hy P]]. exists y. split; auto. apply in_or_app. auto.
  - destruct (H2 x Hx) as [y [Hy P]]. exists y. split; auto. apply in_or_app. auto.
Qed.
Lemma eq_cl_refl X : eq_cl X X.
Proof. split; apply sub_cl_refl. Qed.
Lemma eq_cl_sym X Y : eq_cl X Y -> eq_cl Y X.
Proof. intros [H1 H2]. split; auto. Qed.
Lemma eq_cl_trans X Y Z : eq_cl X Y -> eq_cl Y Z -> eq_cl X Z.
Proof. intros [H1 H2] [H3 H4]. split; eapply sub_cl_trans; eauto. Qed.
Lemma eq_cl_app X X' Y Y' : eq_cl X X' -> eq_cl Y Y' -> eq_cl (X ++ Y) (X' ++ Y').
Proof. intros [H1 H2] [H3 H4]. split; apply sub_cl_app; auto. Qed.
Lemma eq_cl_perm X Y : Permutation X Y -> eq_cl X Y.
Proof.
  intros H. split; apply sub_cl_incl; intros x Hx.
  - eapply Permutation_in; eauto.
  - eapply Permutation_in; [symmetry|]; eauto.
Qed.

(** restriction of a clade list: filter every clade, drop the empty ones *)
Definition fcl (k : string -> bool) (Ls : list (list string)) : list (list string) :=
  flat_map (fun L => match filter k L with [] => [] | A => [A] end) Ls.

Lemma fcl_app k X Y : fcl k (X ++ Y) = fcl k X ++ fcl k Y.
Proof. apply flat_map_app. Qed.

Lemma fcl_in k Ls A : In A (fcl k Ls) <-> A <> [] /\ exists L, In L Ls /\ A = filter k L.
Proof.
  unfold fcl. rewrite in_flat_map. split.
  - intros [L [HL HA]]. destruct (filter k L) as [|a r] eqn:E; [destruct HA|].
    destruct HA as [<-|[]]. split; [discriminate|]. exists L. auto.
  - intros [Hne [L [HL ->]]]. exists L. split; auto.
    destruct (filter k L); [congruence|now left].
Qed.

Lemma fcl_id k Ls : (forall L, In L Ls -> L <> [] /\ forall x, In x L -> k x = true) -> fcl k Ls = Ls.
Proof.
  induction Ls as [|L Ls IH]; intros H; [reflexivity|].
  unfold fcl. simpl flat_map. fold (fcl k Ls). rewrite IH by (intros; apply H; now right).
  destruct (H L (or_introl eq_refl)) as [Hne Hk].
  assert (E : filter k L = L).
  { clear -Hk. induction L as [|x L IH]; simpl; auto. rewrite Hk by now left. f_equal. apply IH.
    intros; apply Hk; now right. }
  rewrite E. destruct L; [congruence|reflexivity].
Qed.

Lemma fcl_sub k X Y : sub_cl X Y -> sub_cl (fcl k X) (fcl k Y).
Proof.
  intros H A HA. apply fcl_in in HA. destruct HA as [Hne [L [HL ->]]].
  destruct (H L HL) as [L' [HL' P]]. exists (filter k L'). split.
  - apply fcl_in. split.
    + intros E. apply Hne. apply Permutation_nil. rewrite <- E. symmetry. now apply Permutation_filter.
    + exists L'. auto.
  - now apply Permutation_filter.
Qed.

Lemma fcl_fcl k1 k2 Ls : fcl k1 (fcl k2 Ls) = fcl (fun x => k1 x && k2 x) Ls.
Proof.
  induction Ls as [|L Ls IH]; [reflexivity|].
  unfold fcl at 2 3. simpl flat_map. fold (fcl k2 Ls). fold (fcl (fun x => k1 x && k2 x) Ls).
  rewrite fcl_app, IH. f_equal. rewrite <- filter_filter.
  destruct (filter k2 L) as [|a r]; [reflexivity|].
  unfold fcl. simpl flat_map. now rewrite app_nil_r.
Qed.

Lemma fcl_ext k1 k2 Ls : (forall x, k1 x = k2 x) -> fcl k1 Ls = fcl k2 Ls.
Proof.
  intros H. unfold fcl. induction Ls as [|L Ls IH]; simpl; auto.
  now rewrite IH, (filter_ext _ _ H).
Qed.

(** every clade is a non-empty part of the leaves of the subtree *)
Lemma clt_sub : forall c L, In L (clt c) -> L <> [] /\ incl L (leaves c).
Proof.
  induction c as [n cm sl IH] using utree_ind'. intros L [<-|HL].
  - split; [apply leaves_nonempty|apply incl_refl].
  - rewrite clades_unfold in HL. unfold kcl in HL. rewrite in_flat_map in HL.
    destruct HL as [[e ch] [Hp HL]]. simpl in HL.
    assert (Hin : In (Some (e, ch)) sl) by (apply kids_of_In; auto).
    rewrite Forall_forall in IH. destruct (IH _ Hin L HL) as [H1 H2]. split; auto.
    intros x Hx. rewrite leaves_unfold. destruct (kids_of sl) eqn:E; [destruct Hp|]. rewrite <- E.
    unfold kleaves. rewrite in_flat_map. exists (e, ch). split; auto. rewrite E. exact Hp.
Qed.

Lemma reparent_clt c : clt (reparent c) = clt c.
Proof.
  unfold clt, clades. rewrite reparent_leaves. f_equal. f_equal.
  destruct c as [n cm sl]. unfold reparent. rewrite !branches_unfold, brs_app.
  change (brs [None]) with (@nil (einfo * utree)). rewrite app_nil_r.
  induction sl as [|[[e ch]|] r IH]; [reflexivity| |].
  - change (drop_up (Some (e, ch) :: r)) with (Some (e, ch) :: drop_up r). now rewrite !brs_cons_some, IH.
  - reflexivity.
Qed.

Section Clades.
  Variable nm : string.
  Notation k := (knm nm).
  Notation w := len0.

  Lemma kcl_keep ks : ~ In nm (kleaves ks) -> fcl k (kcl ks) = kcl ks.
  Proof.
    intros H. apply fcl_id. intros L HL. unfold kcl in HL. rewrite in_flat_map in HL.
    destruct HL as [p [Hp HL]]. destruct (clt_sub _ _ HL) as [H1 H2]. split; auto.
    intros x Hx. apply knm_true. intros ->. apply H. unfold kleaves. rewrite in_flat_map.
    exists p. split; auto.
  Qed.

  Lemma node_cl KA KB p X :
    ~ In nm (kleaves KA) -> ~ In nm (kleaves KB) -> eq_cl X (fcl k (clt (snd p))) ->
    eq_cl (kcl KA ++ kcl KB ++ X) (fcl k (kcl (KA ++ p :: KB))).
  Proof.
    intros HA HB HX. rewrite kcl_app, kcl_cons, !fcl_app, !kcl_keep by auto.
    eapply eq_cl_trans; [|apply eq_cl_app; [apply eq_cl_refl|apply eq_cl_app; [exact HX|apply eq_cl_refl]]].
    apply eq_cl_perm. perm.
  Qed.

  Definition out_cl (t : utree) (o : outcome) : Prop :=
    match o with
    | OKeep t' => eq_cl (clt t') (fcl k (clt t))
    | OGone => fcl k (clt t) = []
    | OSplice _ c => eq_cl (clt c) (fcl k (clt t))
    | _ => True
    end.

  Definition hit_cl (t : utree) : Prop :=
    wf_sub t = true -> no_single_sub t = true -> NoDup (leaves t) -> out_cl t (hit nm (rm_sub nm) t).

  (** head of the clade list from the leaves *)
  Lemma clt_head t L' Cl' :
    Permutation L' (filter k (leaves t)) -> L' <> [] -> eq_cl Cl' (fcl k (clades t)) ->
    eq_cl (L' :: Cl') (fcl k (clt t)).
  Proof.
    intros HP Hne HC. unfold clt. change (leaves t :: clades t) with ([leaves t] ++ clades t).
    rewrite fcl_app. change (L' :: Cl') with ([L'] ++ Cl'). apply eq_cl_app; auto.
    unfold fcl. simpl. rewrite app_nil_r.
    destruct (filter k (leaves t)) as [|a r] eqn:E.
    - symmetry in HP. apply Permutation_nil in HP. congruence.
    - split; intros x [<-|[]]; eexists; (split; [now left|]); auto. now symmetry.
  Qed.

  Ltac kidsplit :=
    repeat (rewrite ?kids_of_app, ?kids_of_cons_some, ?kids_of_cons_none, ?forallb_app, ?andb_true_iff,
            ?n_up_app, ?n_up_cons, ?n_up_nil, ?app_length, ?kleaves_app, ?kleaves_cons in *; simpl forallb in *; simpl snd in *;
            simpl length in *).

  Lemma all_hit_ok sl : Forall (fun s : slot => match s with Some (_, c) => hit_ok nm c | None => True end) sl.
  Proof. apply Forall_forall. intros [[e c]|] _; auto. apply rm_sub_ok. Qed.

  Lemma rm_sub_cl : forall t, hit_cl t.
  Proof.
    induction t as [n c sl IH] using utree_ind'.
    intros Hwf Hns Hnd.
    generalize (rm_sub_ok nm (UNode n c sl) Hwf Hns Hnd). intros Hout.
    unfold hit in *.
    rewrite wf_sub_unfold in Hwf. rewrite nss_unfold in Hns.
    apply andb_true_iff in Hwf. destruct Hwf as [Hup Hwk]. apply Nat.eqb_eq in Hup.
    apply andb_true_iff in Hns. destruct Hns as [Hlen Hsk]. apply negb_true_iff, Nat.eqb_neq in Hlen.
    destruct (is_tip (UNode n c sl) && String.eqb (uname (UNode n c sl)) nm) eqn:Etip.
    { (* the tip itself *)
      simpl in Hout. destruct Hout as [Hk0 Hn0]. unfold kids in Hk0. simpl in Hk0, Hn0. subst n.
      simpl. unfold clt. rewrite clades_unfold, Hk0. unfold kcl. simpl.
      rewrite leaves_unfold, Hk0. unfold fcl. simpl. now rewrite knm_false. }
    simpl rm_sub in *. change (fun ch : utree => rm_sub nm ch) with (rm_sub nm) in *.
    destruct (kids_of sl) as [|k0 kr] eqn:Ek.
    { assert (El : length sl = 1) by (rewrite length_slots, Ek, Hup; reflexivity).
      destruct sl as [|[p|] [|s2 r]]; simpl in El; try lia; try (simpl in Ek; discriminate).
      simpl. exact I. }
    rewrite <- Ek in *. assert (Hne : kids_of sl <> []) by (rewrite Ek; discriminate). clear Ek k0 kr.
    assert (Hndk : NoDup (kleaves (kids_of sl))).
    { rewrite leaves_unfold in Hnd. destruct (kids_of sl); [congruence|auto]. }
    generalize (node_hit nm sl (all_hit_ok sl) Hwk Hsk Hndk).
    destruct (first_hit (hit nm (rm_sub nm)) 0 sl) as [[[i e] o]|]; [|intros _; exact I].
    intros [A [ch [B [-> [-> [Ho [Hnf [HA [HB [Hin [Hwch [Hsch Heqo]]]]]]]]]]]].
    assert (Hch : out_cl ch o).
    { rewrite Forall_forall in IH. specialize (IH (Some (e, ch)) ltac:(apply in_or_app; right; now left)).
      simpl in IH. kidsplit.
      assert (Hnd' : NoDup (leaves ch)).
      { apply NoDup_app_remove_l in Hndk. now apply NoDup_app_remove_r in Hndk. }
      generalize (IH Hwch Hsch Hnd'). now rewrite Heqo. }
    set (T := UNode n c (A ++ Some (e, ch) :: B)) in *.
    assert (CT : clades T = kcl (kids_of A ++ (e, ch) :: kids_of B)).
    { unfold T. rewrite clades_unfold. now kidsplit. }
    kidsplit.
    destruct o as [|ch'| |ec cc|m]; simpl in Ho; unfold out_cl in Hch.
    - congruence.
    - (* kept below *)
      rewrite set_nth_app in *. simpl in Hout. destruct Hout as [_ [_ [_ [Hk' [HD _]]]]].
      simpl. apply clt_head.
      + now apply leaves_from_depths.
      + apply leaves_nonempty.
      + match goal with |- eq_cl (clades ?X) _ =>
          assert (EC : clades X = kcl (kids_of A) ++ clt ch' ++ kcl (kids_of B)) end.
        { rewrite clades_unfold. kidsplit. now rewrite kcl_app, kcl_cons. }
        rewrite EC, CT.
        eapply eq_cl_trans; [|apply (node_cl (kids_of A) (kids_of B) (e, ch) (clt ch')); auto].
        apply eq_cl_perm. perm.
    - (* the child is the tip *)
      rewrite remove_nth_app in *.
      assert (G : eq_cl (kcl (kids_of (A ++ B))) (fcl k (clades T))).
      { rewrite CT. kidsplit. rewrite kcl_app.
        eapply eq_cl_trans; [|apply (node_cl (kids_of A) (kids_of B) (e, ch) []); auto].
        - rewrite app_nil_r. apply eq_cl_refl.
        - simpl snd. rewrite Hch. apply eq_cl_refl. }
      destruct (after_del_sub nm n c (A ++ B)) as [|T'| |e2 c2|m] eqn:Ead; simpl in Hout; try exact I.
      + (* OKeep *)
        destruct Hout as [_ [_ [_ [Hk' [HD _]]]]].
        assert (ET : T' = UNode n c (A ++ B)).
        { clear -Ead. unfold after_del_sub in Ead.
          destruct (A ++ B) as [|s1 [|s2 [|s3 L]]]; try discriminate;
            try (destruct s1 as [[? ?]|]; discriminate);
            try (destruct s1 as [[? ?]|], s2 as [[? ?]|]; discriminate);
            try (destruct s1 as [[? ?]|], s2 as [[? ?]|]; injection Ead as <-; reflexivity).
          injection Ead as <-. reflexivity. }
        subst T'. simpl. apply clt_head.
        * now apply leaves_from_depths.
        * apply leaves_nonempty.
        * rewrite clades_unfold. exact G.
      + (* OGone: excluded by the first lemma *)
        exfalso. destruct Hout as [Hk0 _]. unfold T, kids in Hk0. simpl uslots in Hk0. kidsplit.
        destruct (kids_of A); discriminate.
      + (* OSplice *)
        destruct Hout as [_ [Hw2 [Hs2 [HD _]]]].
        assert (EL : kids_of (A ++ B) = [(e2, c2)]).
        { clear -Ead. unfold after_del_sub in Ead.
          destruct (A ++ B) as [|s1 [|s2 [|s3 L]]]; try discriminate;
            try (destruct s1 as [[? ?]|]; discriminate);
            try (destruct s1 as [[? ?]|], s2 as [[? ?]|]; try discriminate; injection Ead as <- <-; reflexivity).
          all: try (destruct s1 as [[? ?]|], s2 as [[? ?]|]; discriminate). }
        rewrite EL in G. unfold kcl in G. simpl in G. rewrite app_nil_r in G.
        simpl.
        assert (HL : Permutation (leaves c2) (filter k (leaves T))).
        { apply deq_names in HD. now rewrite shift_names, fD_names, !depths_names in HD. }
        eapply eq_cl_trans; [|apply (clt_head T (leaves c2) (clt c2) HL (leaves_nonempty c2) G)].
        split.
        * apply sub_cl_incl. intros x Hx. now right.
        * intros x [<-|Hx]; [exists (leaves c2); split; [now left|reflexivity]|exists x; split; auto].
    - (* a child was suppressed *)
      unfold splice in *. rewrite remove_nth_app in *. simpl in Hout.
      destruct Hout as [_ [_ [_ [Hk' [HD _]]]]].
      simpl. apply clt_head.
      + now apply leaves_from_depths.
      + apply leaves_nonempty.
      + match goal with |- eq_cl (clades ?X) _ =>
          assert (EC : clades X = (kcl (kids_of A) ++ kcl (kids_of B)) ++ clt cc) end.
        { rewrite clades_unfold. kidsplit. rewrite !kcl_app, kcl_cons. simpl snd.
          rewrite reparent_clt. change (kcl []) with (@nil (list string)). now rewrite app_nil_r. }
        rewrite EC, CT.
        eapply eq_cl_trans; [|apply (node_cl (kids_of A) (kids_of B) (e, ch) (clt cc)); auto].
        apply eq_cl_perm. perm.
    - destruct Ho.
  Qed.
End Clades.

(** * the root, one removal *)
(** [A] is, in the unrooted tree [t'], the whole leaf set, or one side of a branch *)
Definition cover (t' : utree) (A : list string) : Prop :=
  Permutation A (leaves t') \/
  exists L', In L' (clades t') /\ (Permutation L' A \/ Permutation (L' ++ A) (leaves t')).

Section RootClades.
  Variable nm : string.
  Notation k := (knm nm).

  Ltac kidsplit :=
    repeat (rewrite ?kids_of_app, ?kids_of_cons_some, ?kids_of_cons_none, ?forallb_app, ?andb_true_iff,
            ?n_up_app, ?n_up_cons, ?n_up_nil, ?app_length, ?kleaves_app, ?kleaves_cons in *; simpl forallb in *; simpl snd in *;
            simpl length in *).

  Definition cl_post (t t' : utree) : Prop :=
    sub_cl (clades t') (fcl k (clades t)) /\ (forall A, In A (fcl k (clades t)) -> cover t' A).

  Lemma cl_post_of_eq t t' : eq_cl (clades t') (fcl k (clades t)) -> cl_post t t'.
  Proof.
    intros [H1 H2]. split; auto. intros A HA. destruct (H2 A HA) as [y [Hy P]].
    right. exists y. split; auto. left. now symmetry.
  Qed.

  Lemma remove_tip_cl t t' :
    wf t = true -> no_single t = true -> degree t <> 1 -> NoDup (leaves t) ->
    remove_tip nm t = Ok t' -> cl_post t t'.
  Proof.
    destruct t as [n c sl]. intros Hwf Hns Hdeg Hnd Hrm.
    rewrite wf_unfold in Hwf. rewrite no_single_unfold in Hns.
    apply andb_true_iff in Hwf. destruct Hwf as [Hup Hwk]. apply Nat.eqb_eq in Hup.
    unfold degree in Hdeg. simpl in Hdeg.
    unfold remove_tip in Hrm.
    destruct (is_tip (UNode n c sl) && String.eqb n nm); [discriminate|].
    destruct (kids_of sl) as [|k0 kr] eqn:Ek.
    { assert (sl = []) as ->.
      { generalize (length_slots sl). rewrite Ek, Hup. destruct sl; simpl; auto. lia. }
      simpl in Hrm. discriminate. }
    assert (Hne : kids_of sl <> []) by (rewrite Ek; discriminate).
    assert (Hndk : NoDup (kleaves (kids_of sl))).
    { rewrite leaves_unfold, Ek in Hnd. now rewrite Ek. }
    rewrite <- Ek in *. clear Ek k0 kr.
    generalize (node_hit nm sl (all_hit_ok nm sl) Hwk Hns Hndk).
    destruct (first_hit (hit nm (rm_sub nm)) 0 sl) as [[[i e] o]|]; [|discriminate].
    intros [A [ch [B [-> [-> [Ho [Hnf [HA [HB [Hin [Hwch [Hsch Heqo]]]]]]]]]]]].
    assert (Hch : out_cl nm ch o).
    { kidsplit.
      assert (Hnd' : NoDup (leaves ch)).
      { apply NoDup_app_remove_l in Hndk. now apply NoDup_app_remove_r in Hndk. }
      generalize (rm_sub_cl nm ch Hwch Hsch Hnd'). unfold hit_cl. now rewrite Heqo. }
    set (T := UNode n c (A ++ Some (e, ch) :: B)) in *.
    assert (CT : clades T = kcl (kids_of A ++ (e, ch) :: kids_of B)).
    { unfold T. rewrite clades_unfold. now kidsplit. }
    kidsplit. destruct Hwk as [HwA [_ HwB]]. destruct Hns as [HsA [_ HsB]].
    destruct o as [|ch'| |ec cc|m]; simpl in Ho; unfold out_cl in Hch.
    - congruence.
    - rewrite set_nth_app in Hrm. injection Hrm as <-. apply cl_post_of_eq.
      match goal with |- eq_cl (clades ?X) _ =>
        assert (EC : clades X = kcl (kids_of A) ++ clt ch' ++ kcl (kids_of B)) end.
      { rewrite clades_unfold. kidsplit. now rewrite kcl_app, kcl_cons. }
      rewrite EC, CT.
      eapply eq_cl_trans; [|apply (node_cl nm (kids_of A) (kids_of B) (e, ch) (clt ch')); auto].
      apply eq_cl_perm. perm.
    - (* a tip attached to the root *)
      rewrite remove_nth_app in Hrm.
      assert (G : eq_cl (kcl (kids_of (A ++ B))) (fcl k (clades T))).
      { rewrite CT. kidsplit. rewrite kcl_app.
        eapply eq_cl_trans; [|apply (node_cl nm (kids_of A) (kids_of B) (e, ch) []); auto].
        - rewrite app_nil_r. apply eq_cl_refl.
        - simpl snd. rewrite Hch. apply eq_cl_refl. }
      assert (HwL : forallb (fun p => wf_sub (snd p)) (kids_of (A ++ B)) = true) by (kidsplit; auto).
      assert (HuL : n_up (A ++ B) = 0) by (kidsplit; lia).
      assert (HlL : length (A ++ B) <> 0) by (kidsplit; lia).
      remember (A ++ B) as L. clear HeqL.
      destruct L as [|s1 [|s2 [|s3 L]]].
      + simpl in HlL. lia.
      + (* Case 1b *)
        destruct s1 as [[e1 [n1 cm1 sl1]]|]; [|unfold n_up in HuL; simpl in HuL; lia].
        simpl in Hrm. injection Hrm as <-.
        unfold kcl in G. simpl in G. rewrite app_nil_r in G. destruct G as [G1 G2].
        assert (EC : clades (UNode n1 cm1 (drop_up sl1)) = clades (UNode n1 cm1 sl1)).
        { now rewrite !clades_unfold, kids_of_drop_up. }
        assert (EL : leaves (UNode n1 cm1 (drop_up sl1)) = leaves (UNode n1 cm1 sl1)).
        { apply leaves_kids; auto. apply kids_of_drop_up. }
        split.
        * rewrite EC. eapply sub_cl_trans; [|exact G1]. apply sub_cl_incl. intros x Hx. now right.
        * intros A0 HA0. destruct (G2 A0 HA0) as [y [[<-|Hy] P]].
          -- left. now rewrite EL.
          -- right. exists y. rewrite EC. split; auto. left. now symmetry.
      + (* Case 2 at the root *)
        destruct s1 as [[e1 c1]|]; [|rewrite n_up_cons in HuL; lia].
        destruct s2 as [[e2 c2]|]; [|rewrite !n_up_cons in HuL; lia].
        simpl in HwL. rewrite andb_true_r in HwL. apply andb_true_iff in HwL. destruct HwL as [Hw1 Hw2].
        unfold kcl in G. simpl in G. rewrite app_nil_r in G.
        assert (Key : forall ca cb e',
                   wf_sub ca = true -> Nat.ltb 1 (degree ca - 1) = true ->
                   eq_cl (clt ca ++ clt cb) (fcl k (clades T)) ->
                   cl_post T (UNode (uname ca) (ucom ca) (drop_up (uslots ca) ++ [Some (e', reparent cb)]))).
        { clear Hrm. intros [na cma sla] cb e' Hwa Hda [Ga1 Ga2].
          simpl uname. simpl ucom. simpl uslots.
          rewrite wf_sub_unfold in Hwa. apply andb_true_iff in Hwa. destruct Hwa as [Hua _]. apply Nat.eqb_eq in Hua.
          unfold degree in Hda. simpl in Hda. apply Nat.ltb_lt in Hda.
          assert (Hka : kids_of sla <> []).
          { intros E0. generalize (length_slots sla). rewrite E0, Hua. simpl. lia. }
          assert (EC : clades (UNode na cma (drop_up sla ++ [Some (e', reparent cb)])) =
                       clades (UNode na cma sla) ++ clt cb).
          { rewrite !clades_unfold. kidsplit. rewrite kids_of_drop_up, kcl_app, kcl_cons. simpl snd.
            rewrite reparent_clt. change (kcl []) with (@nil (list string)). now rewrite app_nil_r. }
          assert (EL : leaves (UNode na cma (drop_up sla ++ [Some (e', reparent cb)])) =
                       leaves (UNode na cma sla) ++ leaves cb).
          { rewrite !leaves_unfold. kidsplit. rewrite kids_of_drop_up.
            destruct (kids_of sla ++ [(e', reparent cb)]) eqn:E0; [destruct (kids_of sla); discriminate|].
            destruct (kids_of sla) eqn:E1; [congruence|]. rewrite reparent_leaves.
            unfold kleaves at 2. simpl. now rewrite app_nil_r. }
          split.
          - rewrite EC. eapply sub_cl_trans; [|exact Ga1]. apply sub_cl_incl.
            intros x Hx. apply in_app_or in Hx. apply in_or_app. destruct Hx as [Hx|Hx]; auto. left. now right.
          - intros A0 HA0. destruct (Ga2 A0 HA0) as [y [Hy P]]. right.
            apply in_app_or in Hy. destruct Hy as [[<-|Hy]|Hy].
            + (* the side of ca: the complement of the branch to cb *)
              exists (leaves cb). rewrite EC, EL. split; [apply in_or_app; right; now left|].
              right. rewrite P. apply Permutation_app_comm.
            + exists y. rewrite EC. split; [apply in_or_app; auto|]. left. now symmetry.
            + exists y. rewrite EC. split; [apply in_or_app; auto|]. left. now symmetry. }
        destruct c1 as [n1 cm1 sl1], c2 as [n2 cm2 sl2].
        unfold after_del_root in Hrm. cbv zeta in Hrm.
        destruct (Nat.ltb 1 (degree (UNode n1 cm1 sl1) - 1)) eqn:E1.
        * cbv iota in Hrm. injection Hrm as <-.
          apply (Key (UNode n1 cm1 sl1) (UNode n2 cm2 sl2)); auto.
        * destruct (Nat.ltb 1 (degree (UNode n2 cm2 sl2) - 1)) eqn:E2.
          -- cbv iota in Hrm. injection Hrm as <-.
             apply (Key (UNode n2 cm2 sl2) (UNode n1 cm1 sl1)); auto.
             eapply eq_cl_trans; [|exact G]. apply eq_cl_perm. apply Permutation_app_comm.
          -- cbv iota in Hrm.
             destruct (Nat.eqb (degree (UNode n2 cm2 sl2) - 1) 1 || Nat.eqb (degree (UNode n1 cm1 sl1) - 1) 1); discriminate.
      + (* Case 3 *)
        assert (E3 : after_del_root nm n c (s1 :: s2 :: s3 :: L) = Ok (UNode n c (s1 :: s2 :: s3 :: L))).
        { destruct s1 as [[? [? ? ?]]|], s2 as [[? ?]|]; reflexivity. }
        rewrite E3 in Hrm. injection Hrm as <-. apply cl_post_of_eq. now rewrite clades_unfold.
    - (* a child of the root was suppressed *)
      unfold splice in Hrm. rewrite remove_nth_app in Hrm. injection Hrm as <-. apply cl_post_of_eq.
      match goal with |- eq_cl (clades ?X) _ =>
        assert (EC : clades X = (kcl (kids_of A) ++ kcl (kids_of B)) ++ clt cc) end.
      { rewrite clades_unfold. kidsplit. rewrite !kcl_app, kcl_cons. simpl snd.
        rewrite reparent_clt. change (kcl []) with (@nil (list string)). now rewrite app_nil_r. }
      rewrite EC, CT.
      eapply eq_cl_trans; [|apply (node_cl nm (kids_of A) (kids_of B) (e, ch) (clt cc)); auto].
      apply eq_cl_perm. perm.
    - destruct Ho.
  Qed.
End RootClades.

(** * the loop *)
Lemma cover_perm t A A' : Permutation A A' -> cover t A -> cover t A'.
Proof.
  intros P [H|[L' [HL [H|H]]]].
  - left. now rewrite <- P.
  - right. exists L'. split; auto. left. now rewrite <- P.
  - right. exists L'. split; auto. right. now rewrite <- P.
Qed.

Lemma clades_in_clt t L : In L (clades t) -> In L (clt t).
Proof. intros H. now right. Qed.

Lemma cover_step nm t t' X :
  wf t = true -> no_single t = true -> degree t <> 1 -> NoDup (leaves t) ->
  remove_tip nm t = Ok t' ->
  cover t X -> filter (knm nm) X <> [] -> cover t' (filter (knm nm) X).
Proof.
  intros Hwf Hns Hdeg Hnd Hrm HX Hne.
  destruct (remove_tip_ok nm t t' Hwf Hns Hdeg Hnd Hrm) as [_ [_ [_ [_ [Hlv _]]]]].
  destruct (remove_tip_cl nm t t' Hwf Hns Hdeg Hnd Hrm) as [_ HC].
  destruct HX as [P|[L [HL [P|P]]]].
  - left. rewrite Hlv. now apply Permutation_filter.
  - apply (cover_perm t' (filter (knm nm) L)); [now apply Permutation_filter|].
    apply HC. apply fcl_in. split; [|eauto].
    intros E. apply Hne. apply Permutation_nil. rewrite <- E. symmetry. now apply Permutation_filter.
  - assert (Q : Permutation (filter (knm nm) L ++ filter (knm nm) X) (leaves t')).
    { rewrite Hlv, <- filter_app. now apply Permutation_filter. }
    destruct (filter (knm nm) L) as [|a r] eqn:EL.
    + left. exact Q.
    + rewrite <- EL in *.
      assert (HinF : In (filter (knm nm) L) (fcl (knm nm) (clades t))).
      { apply fcl_in. split; [rewrite EL; discriminate|eauto]. }
      destruct (HC _ HinF) as [P1|[L' [HL' [P1|P1]]]].
      * exfalso. rewrite <- P1 in Q. apply Permutation_length in Q. rewrite app_length in Q.
        destruct (filter (knm nm) X); [congruence|simpl in Q; lia].
      * right. exists L'. split; auto. right. now rewrite P1.
      * right. exists L'. split; auto. left.
        apply (Permutation_app_inv_r (filter (knm nm) L)). rewrite P1, <- Q. apply Permutation_app_comm.
Qed.

Section LoopClades.
  Variable revert : bool.
  Variable names : list string.

  Lemma remove_loop_cl : forall todo t t',
      wf t = true -> no_single t = true -> degree t <> 1 -> NoDup (leaves t) ->
      remove_loop revert names todo t = Ok t' ->
      sub_cl (clades t') (fcl (pending revert names todo) (clades t)) /\
      (forall X, cover t X -> filter (pending revert names todo) X <> [] ->
                 cover t' (filter (pending revert names todo) X)).
  Proof.
    induction todo as [|nm r IH]; intros t t' Hwf Hns Hdeg Hnd Hl.
    - simpl in Hl. injection Hl as Heq. subst t'. split.
      + intros L HL. exists L. split; auto. apply fcl_in.
        destruct (clt_sub t L (clades_in_clt t L HL)) as [Hne _]. split; auto.
        exists L. split; auto. unfold pending. simpl. now rewrite filter_true.
      + intros X HX _. unfold pending. simpl. now rewrite filter_true.
    - simpl in Hl. destruct (negb (has_tip nm t)); [discriminate|].
      destruct (selected revert names nm) eqn:Hs.
      + destruct (remove_tip nm t) as [t1|m] eqn:Hrm; [|discriminate].
        destruct (remove_tip_ok nm t t1 Hwf Hns Hdeg Hnd Hrm) as [Hwf1 [Hns1 [Hdeg1 [Hin [Hlv Hpd]]]]].
        assert (Hnd1 : NoDup (leaves t1)).
        { eapply NoDup_perm; [symmetry; exact Hlv|]. now apply NoDup_filter'. }
        destruct (IH t1 t' Hwf1 Hns1 Hdeg1 Hnd1 Hl) as [S1 C1].
        destruct (remove_tip_cl nm t t1 Hwf Hns Hdeg Hnd Hrm) as [S0 _].
        assert (Ef : forall (X : list string),
                   filter (pending revert names (nm :: r)) X = filter (pending revert names r) (filter (knm nm) X)).
        { intros X. rewrite filter_filter. apply filter_ext. intros x. now apply pending_cons_sel. }
        split.
        * eapply sub_cl_trans; [exact S1|].
          eapply sub_cl_trans; [apply fcl_sub, S0|].
          rewrite fcl_fcl. erewrite fcl_ext; [apply sub_cl_refl|].
          intros x. symmetry. now apply pending_cons_sel.
        * intros X HX Hne. rewrite Ef in *. apply C1; auto.
          apply (cover_step nm t t1 X); auto.
          intros E. rewrite E in Hne. simpl in Hne. congruence.
      + destruct (IH t t' Hwf Hns Hdeg Hnd Hl) as [S1 C1].
        assert (Ef : forall (X : list string),
                   filter (pending revert names (nm :: r)) X = filter (pending revert names r) X).
        { intros X. apply filter_ext. intros x. now apply pending_cons_unsel. }
        split.
        * erewrite fcl_ext; [exact S1|]. intros x. now apply pending_cons_unsel.
        * intros X HX Hne. rewrite Ef in *. now apply C1.
  Qed.

  (** Tree.RemoveTips: the clades of the result are restrictions of clades of the input, and
      every non-empty restriction of a clade of the input is, in the result, the whole leaf set,
      a clade, or the complement of a clade *)
  Theorem remove_tips_clades t t' :
    wf t = true -> no_single t = true -> 2 <= degree t -> NoDup (leaves t) ->
    remove_tips revert names t = Ok t' ->
    (forall L', In L' (clades t') -> exists L, In L (clades t) /\ Permutation L' (filter (kept revert names) L)) /\
    (forall L, In L (clades t) -> filter (kept revert names) L <> [] -> cover t' (filter (kept revert names) L)).
  Proof.
    intros Hwf Hns Hdeg Hnd Hr. unfold remove_tips in Hr.
    destruct (remove_loop revert names (tip_names t) t) as [t1|m] eqn:Hl; [|discriminate].
    destruct (update_tip_index t1); [|discriminate]. injection Hr as Heq. subst t'.
    rewrite tip_names_leaves in Hl by auto.
    destruct (remove_loop_cl _ _ _ Hwf Hns ltac:(lia) Hnd Hl) as [S C].
    assert (Ef : forall L, In L (clades t) ->
                           filter (pending revert names (leaves t)) L = filter (kept revert names) L).
    { intros L HL. apply filter_ext_in. intros x Hx.
      destruct (clt_sub t L (clades_in_clt t L HL)) as [_ Hi].
      unfold pending, kept. now rewrite (name_in_In x (leaves t) (Hi x Hx)). }
    split.
    - intros L' HL'. destruct (S L' HL') as [A [HA P]]. apply fcl_in in HA.
      destruct HA as [_ [L [HL ->]]]. exists L. split; auto. now rewrite <- (Ef L HL).
    - intros L HL Hne. rewrite <- (Ef L HL) in *. apply C; auto.
      right. exists L. split; auto.
  Qed.
End LoopClades.
