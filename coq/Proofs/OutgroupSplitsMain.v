(** C05, split-level statements ([find_split k (usplits _)], as C05_reroot_usplits) for rooting
    on an outgroup without removal and for midpoint rooting. *)
From Coq Require Import String ZArith QArith Bool Arith Lia Lqa List Permutation Setoid Morphisms.
From GT Require Import Base.UTree Spec.Obs Model.Reroot Model.Outgroup Spec.Unrooted
     Proofs.RerootBase Proofs.Reroot Proofs.Reorder Proofs.Unroot Proofs.Splits Proofs.USplits Proofs.C05Main
     Proofs.OutgroupBase Proofs.OutgroupCut Proofs.OutgroupKeep Proofs.OutgroupLCA Proofs.OutgroupClade
     Proofs.OutgroupMain Proofs.OutgroupSide Proofs.OutgroupRemove Proofs.OutgroupMidpoint
     Proofs.OutgroupMidDist Proofs.OutgroupMlp Proofs.OutgroupHalf Proofs.OutgroupSplits.
Import ListNotations.
Local Close Scope Q_scope.
Local Arguments n_up : simpl never.

(** a branch length is absent or not negative *)
Definition good_len (e : einfo) : Prop := qeqb (elen e) nilv = true \/ (0 <= elen e)%Q.

Lemma qmax_idem a : qmax a a = a.
Proof. unfold qmax. destruct (Qle_bool a a); reflexivity. Qed.

Lemma half_edge_merge e :
  good_len e ->
  (merge_len (elen (half_edge e)) (elen (half_edge e)) == elen e)%Q /\
  (qmax (esup (half_edge e)) (esup (half_edge e)) == esup e)%Q.
Proof.
  intros Hg. split.
  - unfold half_edge. cbn [elen]. rewrite merge_len_eq.
    destruct (qeqb (elen e) nilv) eqn:E.
    + simpl. apply isnil_iff in E. unfold nilv. lra.
    + destruct Hg as [Hg|Hg]; [congruence|].
      assert (Hh : (0 <= qhalf (elen e))%Q) by (unfold qhalf; lra).
      assert (En : qeqb (qhalf (elen e)) nilv = false).
      { destruct (qeqb (qhalf (elen e)) nilv) eqn:E'; auto. apply isnil_iff in E'. lra. }
      rewrite En. simpl. rewrite (pos_of_nonneg _ Hh). unfold qhalf. lra.
  - rewrite qmax_idem. unfold half_edge. cbn [esup].
    destruct (qeqb (esup e) nilv) eqn:E; [|reflexivity]. apply isnil_iff in E. unfold nilv. lra.
Qed.

(** the view from a tip has the splits of the unrooted tree *)
Lemma view_from_usplits t1 q lf v :
  wf t1 = true -> 2 <= degree t1 -> NoDup (leaves t1) ->
  node_at t1 q = Some lf -> view_from t1 q = Some v ->
  forall k, orel split_qeq (find_split k (usplits (tv_tree v))) (find_split k (usplits t1)).
Proof.
  intros Hwf Hd ND Hn Hv. unfold view_from in Hv.
  destruct q as [|k0 r0]; [discriminate|].
  cbv zeta in Hv.
  assert (Hq : k0 :: r0 = removelast (k0 :: r0) ++ [last (k0 :: r0) 0])
    by (apply removelast_last_nat; discriminate).
  remember (removelast (k0 :: r0)) as q' eqn:Eq'.
  remember (last (k0 :: r0) 0) as j eqn:Ej'.
  destruct (reroot_path t1 q') as [t2|] eqn:E2; [|discriminate].
  inversion Hv; subst v. cbn [tv_tree].
  rewrite Hq, node_at_app in Hn.
  destruct (node_at t1 q') as [A|] eqn:EA; [|discriminate].
  cbn [node_at] in Hn.
  destruct (nth_error (uslots A) j) as [[[e ch]|]|] eqn:Ej; try discriminate.
  assert (DA : 2 <= degree A).
  { destruct q' as [|k1 r1].
    - simpl in EA. now inversion EA; subst.
    - eapply wf_sub_with_child; eauto. eapply (node_at_wf_sub (k1 :: r1)); eauto. discriminate. }
  assert (PO : path_ok t1 q') by (eapply node_at_path_ok; eauto).
  eapply reroot_path_usplits; eauto.
Qed.

(** every branch of the view is a branch of the unrooted tree *)
Lemma view_edge_in t (names : list string) (Hwf : wf t = true) (Hd : 2 <= degree t)
      (Hi : rooted t = true -> root_has_inner_child t = true) (HND : NoDup (leaves t))
      q lf v pp P k e ch :
  In (q, lf) (tip_paths (unroot t)) -> view_from (unroot t) q = Some v ->
  node_at (tv_tree v) pp = Some P -> nth_error (uslots P) k = Some (Some (e, ch)) ->
  exists L b, In (e, L, b) (bsplits (unroot t)).
Proof.
  intros Hq Hv HP HK.
  destruct (setting_facts t names Hwf Hd Hi HND q lf v Hq Hv) as (_&_&_&_&_&_&_&_&_&SE).
  pose proof (node_at_bsplits pp (tv_tree v) P k e ch HP HK) as Hin.
  destruct (PermR_In _ _ (bs_eq_Equivalence (leaves (unroot t))) _ _ SE _ Hin) as [[[e' X'] b'] [Hy [E1 _]]].
  simpl in E1. subst e'. eauto.
Qed.

(** * rooting on an outgroup, without removal *)
Theorem outgroup_usplits strict t names t' :
  wf t = true -> 2 <= degree t -> (rooted t = true -> root_has_inner_child t = true) ->
  NoDup (leaves t) ->
  (forall x, In x (bsplits (unroot t)) -> good_len (fst (fst x))) ->
  reroot_outgroup false strict t names = Ok t' ->
  forall k, orel split_qeq (find_split k (usplits t')) (find_split k (usplits (unroot t))).
Proof.
  intros Hwf Hd Hi HND Hgood H k.
  destruct (reroot_outgroup_keep_inv _ _ _ _ H)
    as (q&lf&v&p&es&diff&pp&ks&lower&P&e&_&_&Hf&Hv&_&_&_&_&HP&He&Hc).
  apply find_some in Hf as [Hq _].
  destruct (setting_facts t names Hwf Hd Hi HND q lf v Hq Hv) as (W1&D1&L1&W2&D2&L2&ND2&_&_&_).
  assert (ND1 : NoDup (leaves (unroot t))) by (now rewrite L1).
  pose proof Hq as Hq'. apply tip_paths_In in Hq' as [Hnq _].
  unfold edge_at in He.
  destruct (nth_error (uslots P) ks) as [[[e' ch]|]|] eqn:Ek; try discriminate.
  inversion He; subst e'.
  destruct (view_edge_in t names Hwf Hd Hi HND q lf v pp P ks e ch Hq Hv HP Ek) as [L [b Hin]].
  destruct (half_edge_merge e (Hgood _ Hin)) as [Hl Hs].
  eapply orel_trans; [apply split_qeq_trans| |].
  - eapply cut_and_root_usplits; eauto.
  - eapply view_from_usplits; eauto.
Qed.

Corollary outgroup_usplits_input strict t names t' :
  wf t = true -> 2 <= degree t -> (rooted t = true -> root_has_inner_child t = true) ->
  NoDup (leaves t) ->
  (forall x, In x (bsplits (unroot t)) -> good_len (fst (fst x))) ->
  reroot_outgroup false strict t names = Ok t' ->
  forall k, orel split_weq (find_split k (usplits t')) (find_split k (usplits t)).
Proof.
  intros Hwf Hd Hi HND Hgood H k.
  eapply orel_trans; [apply split_weq_trans| |].
  - eapply orel_mono; [apply split_qeq_weq|]. eapply outgroup_usplits; eauto.
  - destruct (rooted t) eqn:Hr.
    + apply unroot_usplits; auto.
    + rewrite (unroot_not_rooted t Hr). apply orel_refl, split_weq_refl.
Qed.

(** * midpoint rooting *)
Lemma merge_len_nonneg a b : (0 <= a)%Q -> (0 <= b)%Q -> (merge_len a b == a + b)%Q.
Proof.
  intros Ha Hb. rewrite merge_len_eq.
  assert (Ea : qeqb a nilv = false).
  { destruct (qeqb a nilv) eqn:E; auto. apply isnil_iff in E. lra. }
  rewrite Ea. simpl. now rewrite (pos_of_nonneg a Ha), (pos_of_nonneg b Hb).
Qed.

Lemma walk_stop half ls : Forall (fun x => (0 <= x)%Q) ls -> forall i0 acc i len,
  walk half ls i0 acc = (i, len) -> (acc < half)%Q -> (half <= acc + qsum ls)%Q ->
  exists pre x post,
    ls = pre ++ x :: post /\ i = i0 + length pre + 1 /\
    (acc + qsum pre < half)%Q /\ (half <= acc + qsum pre + x)%Q /\ (len == acc + qsum pre + x)%Q.
Proof.
  induction 1 as [|x r Hx Hr IH]; intros i0 acc i len Hw Ha Ht.
  - simpl in Ht. lra.
  - simpl in Hw.
    assert (E : qltb acc half = true).
    { unfold qltb. apply negb_true_iff. destruct (Qle_bool half acc) eqn:E; auto.
      apply Qle_bool_iff in E. lra. }
    rewrite E in Hw.
    destruct (Qlt_le_dec (acc + x) half) as [Hlt|Hge].
    + simpl in Ht. destruct (IH (S i0) (acc + x)%Q i len Hw Hlt ltac:(lra))
        as (pre & y & post & E1 & E2 & E3 & E4 & E5).
      exists (x :: pre), y, post. simpl. rewrite E1. repeat split; auto; try lia; try lra.
    + exists [], x, r. simpl.
      assert (Hw' : walk half r (S i0) (acc + x)%Q = (S i0, (acc + x)%Q)).
      { destruct r as [|y r']; simpl; auto.
        assert (E' : qltb (acc + x) half = false).
        { unfold qltb. apply negb_false_iff. apply Qle_bool_iff. exact Hge. }
        now rewrite E'. }
      rewrite Hw' in Hw. inversion Hw; subst. repeat split; auto; try lia; try lra.
Qed.

Lemma path_edges_in p : forall t b,
  node_at t p = Some b -> Forall (fun e => exists L bb, In (e, L, bb) (bsplits t)) (path_edges t p).
Proof.
  induction p as [|k r IH]; intros t b H; simpl; [constructor|].
  destruct t as [n c sl]. simpl in H. simpl uslots.
  destruct (nth_error sl k) as [[[e ch]|]|] eqn:Ek; try discriminate.
  assert (Hin : In (e, ch) (kids_of sl)) by (apply kids_of_In; eapply nth_error_In; eauto).
  constructor.
  - exists (leaves ch), (isleaf ch). rewrite bsplits_unfold. now apply kbs_In_kid.
  - eapply Forall_impl; [|eapply IH; eauto]. intros e' (L & bb & Hin').
    exists L, bb. rewrite bsplits_unfold. eapply kbs_In_sub; eauto.
Qed.

Theorem midpoint_usplits t t' :
  wf t = true -> 2 <= degree t -> (rooted t = true -> root_has_inner_child t = true) ->
  NoDup (leaves t) ->
  (forall x, In x (bsplits (unroot t)) -> (0 <= elen (fst (fst x)))%Q) ->
  reroot_midpoint t = Ok t' ->
  forall k, orel split_qeq (find_split k (usplits t')) (find_split k (usplits (unroot t))).
Proof.
  intros Hwf Hd Hi HND Hnn H key.
  destruct (unroot_stage t Hwf Hd Hi) as [_ [D0 _]].
  destruct (reroot_midpoint_scan _ _ D0 H) as (q&lf&v&pA&cur&ea0&Hin&Hv&Hm&Hcur&_&He&Hres).
  destruct (setting_facts t [] Hwf Hd Hi HND q lf v Hin Hv) as (W1&D1&L1&W2'&D2'&L2'&ND2'&_&_&SE).
  assert (ND1 : NoDup (leaves (unroot t))) by (now rewrite L1).
  pose proof Hin as Hin'. apply tip_paths_In in Hin' as [Hnq _].
  eapply orel_trans; [apply split_qeq_trans| |eapply view_from_usplits; eauto].
  (* every branch of the view is not negative *)
  assert (NN2 : forall e L b, In (e, L, b) (bsplits (tv_tree v)) -> (0 <= elen e)%Q).
  { intros e L b Hin2.
    destruct (PermR_In _ _ (bs_eq_Equivalence (leaves (unroot t))) _ _ SE _ Hin2) as [[[e' X'] b'] [Hy [E1 _]]].
    simpl in E1. subst e'. exact (Hnn _ Hy). }
  destruct (view_shape _ _ _ _ _ _ W1 D1 Hin Hv Hm)
    as (n&c&sl&ea&l0&E2&Hj&Klf&Emlp&Ecur&Kmask&W2&D2&L2&P2).
  assert (ea0 = ea).
  { unfold edge_at in He. rewrite E2 in He. simpl uslots in He. rewrite Hj in He. congruence. }
  subst ea0. rewrite E2 in *.
  set (j := tv_slot v) in *. set (t2 := UNode n c sl) in *.
  destruct (mlp_leaf _ _ _ Emlp) as [[K0 _]|[_ [HpA [b [HbA Kb]]]]]; [contradiction|].
  destruct (mlp_spec _ _ _ Emlp) as [Hl0 _].
  rewrite (path_edges_masked n c sl j pA b HbA) in Hl0. fold t2 in Hl0.
  assert (Hb : node_at t2 pA = Some b) by (apply (node_at_masked n c sl j pA b HpA HbA)).
  set (PE := path_edges t2 pA) in *.
  assert (LPE : length PE = length pA) by (unfold PE; eapply path_edges_length; eauto).
  assert (NS : is_prefix pA (tv_root v) = false).
  { apply (not_stale (unroot t) q lf v pA b W1 D1 Hnq Hv HpA); [rewrite E2; exact Hb | exact Kb]. }
  unfold mp_result in Hres. cbv zeta in Hres. rewrite E2, NS in Hres. fold j t2 PE in Hres.
  set (m := length pA) in *.
  set (half := qhalf cur) in *.
  assert (Hhalf : (0 < half)%Q) by (unfold half, qhalf; lra).
  set (pe := rev PE ++ [ea]) in *.
  (* the branches of the path are not negative and add up to cur *)
  assert (Hea : (0 <= elen ea)%Q).
  { apply (NN2 ea (leaves lf) (isleaf lf)). apply (node_at_bsplits [] t2 t2 j ea lf eq_refl Hj). }
  assert (NNpe : Forall (fun x => (0 <= x)%Q) (map elen pe)).
  { unfold pe. rewrite map_app. apply Forall_app. split; [|constructor; [exact Hea|constructor]].
    rewrite map_rev. apply Forall_rev. apply Forall_forall. intros x Hx.
    apply in_map_iff in Hx as [e [<- He']].
    pose proof (path_edges_in pA t2 b Hb) as F. rewrite Forall_forall in F.
    destruct (F _ He') as (L & bb & Hin2). eapply NN2; eauto. }
  assert (Htot : (qsum (map elen pe) == cur)%Q).
  { unfold pe. rewrite map_app, qsum_app, map_rev, qsum_rev. simpl. rewrite Ecur, Hl0. ring. }
  destruct (walk half (map elen pe) 0 0%Q) as [i len] eqn:Ew.
  destruct (walk_stop half (map elen pe) NNpe 0 0%Q i len Ew Hhalf)
    as (pre & x & post & Els & Ei & Hlo & Hhi & Hlen).
  { rewrite Htot. unfold half, qhalf. lra. }
  simpl in Ei.
  assert (Ex : elen (nth (i - 1) pe e0) = x).
  { rewrite <- (map_nth elen pe e0 (i - 1)), Els. replace (i - 1) with (length pre) by lia.
    rewrite app_nth2 by lia. now rewrite Nat.sub_diag. }
  set (ce := nth (i - 1) pe e0) in *.
  set (cut := (len - half)%Q) in *.
  assert (Hc0 : (0 <= cut)%Q) by (unfold cut; lra).
  assert (Hc1 : (0 <= elen ce - cut)%Q) by (rewrite Ex; unfold cut; lra).
  assert (Hi' : i <= m + 1).
  { apply walk_le in Ew. rewrite map_length in Ew. unfold pe in Ew.
    rewrite app_length, rev_length, LPE in Ew. simpl in Ew. fold m in Ew. lia. }
  destruct (Nat.ltb (i - 1) m) eqn:Elt.
  - apply Nat.ltb_lt in Elt.
    set (d := m - (i - 1)) in *.
    assert (Hd1 : d - 1 < length pA) by (fold m; unfold d; lia).
    destruct (path_edges_nth pA t2 b (d - 1) Hb Hd1) as [P [ch [HP HK]]].
    fold PE in HK.
    assert (Ece : ce = nth (d - 1) PE e0).
    { unfold ce, pe. rewrite app_nth1 by (rewrite rev_length; lia). rewrite rev_nth by lia.
      f_equal. unfold d. lia. }
    rewrite <- Ece in HK.
    eapply (cut_and_root_usplits t2 (firstn (d - 1) pA) (nth (d - 1) pA 0) true
              (mkE cut (esup ce) nilv []) (mkE (elen ce - cut) (esup ce) nilv []) P ce ch t');
      eauto; cbn [elen esup].
    + rewrite merge_len_nonneg by assumption. ring.
    + now rewrite qmax_idem.
  - apply Nat.ltb_ge in Elt. assert (Ei' : i - 1 = m) by lia.
    assert (Ece : ce = ea).
    { unfold ce, pe. rewrite Ei', app_nth2 by (rewrite rev_length; lia).
      rewrite rev_length, LPE. fold m. rewrite Nat.sub_diag. reflexivity. }
    rewrite Ece in *.
    eapply (cut_and_root_usplits t2 [] j false
              (mkE (elen ea - cut) (esup ea) nilv []) (mkE cut (esup ea) nilv []) t2 ea lf t');
      eauto; cbn [elen esup].
    + rewrite merge_len_nonneg by assumption. ring.
    + now rewrite qmax_idem.
Qed.

Theorem midpoint_edges_nonneg t t' :
  wf t = true -> 2 <= degree t -> (rooted t = true -> root_has_inner_child t = true) ->
  NoDup (leaves t) ->
  (forall x, In x (bsplits (unroot t)) -> (0 <= elen (fst (fst x)))%Q) ->
  reroot_midpoint t = Ok t' ->
  forall z, In z (bsplits t') -> (0 <= elen (fst (fst z)))%Q.
Proof.
  intros Hwf Hd Hi HND Hnn H z Hz.
  destruct (unroot_stage t Hwf Hd Hi) as [_ [D0 _]].
  destruct (reroot_midpoint_scan _ _ D0 H) as (q&lf&v&pA&cur&ea0&Hin&Hv&Hm&Hcur&_&He&Hres).
  destruct (setting_facts t [] Hwf Hd Hi HND q lf v Hin Hv) as (W1&D1&L1&W2'&D2'&L2'&ND2'&_&_&SE).
  assert (ND1 : NoDup (leaves (unroot t))) by (now rewrite L1).
  pose proof Hin as Hin'. apply tip_paths_In in Hin' as [Hnq _].
  (* every branch of the view is not negative *)
  assert (NN2 : forall e L b, In (e, L, b) (bsplits (tv_tree v)) -> (0 <= elen e)%Q).
  { intros e L b Hin2.
    destruct (PermR_In _ _ (bs_eq_Equivalence (leaves (unroot t))) _ _ SE _ Hin2) as [[[e' X'] b'] [Hy [E1 _]]].
    simpl in E1. subst e'. exact (Hnn _ Hy). }
  destruct (view_shape _ _ _ _ _ _ W1 D1 Hin Hv Hm)
    as (n&c&sl&ea&l0&E2&Hj&Klf&Emlp&Ecur&Kmask&W2&D2&L2&P2).
  assert (ea0 = ea).
  { unfold edge_at in He. rewrite E2 in He. simpl uslots in He. rewrite Hj in He. congruence. }
  subst ea0. rewrite E2 in *.
  set (j := tv_slot v) in *. set (t2 := UNode n c sl) in *.
  destruct (mlp_leaf _ _ _ Emlp) as [[K0 _]|[_ [HpA [b [HbA Kb]]]]]; [contradiction|].
  destruct (mlp_spec _ _ _ Emlp) as [Hl0 _].
  rewrite (path_edges_masked n c sl j pA b HbA) in Hl0. fold t2 in Hl0.
  assert (Hb : node_at t2 pA = Some b) by (apply (node_at_masked n c sl j pA b HpA HbA)).
  set (PE := path_edges t2 pA) in *.
  assert (LPE : length PE = length pA) by (unfold PE; eapply path_edges_length; eauto).
  assert (NS : is_prefix pA (tv_root v) = false).
  { apply (not_stale (unroot t) q lf v pA b W1 D1 Hnq Hv HpA); [rewrite E2; exact Hb | exact Kb]. }
  unfold mp_result in Hres. cbv zeta in Hres. rewrite E2, NS in Hres. fold j t2 PE in Hres.
  set (m := length pA) in *.
  set (half := qhalf cur) in *.
  assert (Hhalf : (0 < half)%Q) by (unfold half, qhalf; lra).
  set (pe := rev PE ++ [ea]) in *.
  (* the branches of the path are not negative and add up to cur *)
  assert (Hea : (0 <= elen ea)%Q).
  { apply (NN2 ea (leaves lf) (isleaf lf)). apply (node_at_bsplits [] t2 t2 j ea lf eq_refl Hj). }
  assert (NNpe : Forall (fun x => (0 <= x)%Q) (map elen pe)).
  { unfold pe. rewrite map_app. apply Forall_app. split; [|constructor; [exact Hea|constructor]].
    rewrite map_rev. apply Forall_rev. apply Forall_forall. intros x Hx.
    apply in_map_iff in Hx as [e [<- He']].
    pose proof (path_edges_in pA t2 b Hb) as F. rewrite Forall_forall in F.
    destruct (F _ He') as (L & bb & Hin2). eapply NN2; eauto. }
  assert (Htot : (qsum (map elen pe) == cur)%Q).
  { unfold pe. rewrite map_app, qsum_app, map_rev, qsum_rev. simpl. rewrite Ecur, Hl0. ring. }
  destruct (walk half (map elen pe) 0 0%Q) as [i len] eqn:Ew.
  destruct (walk_stop half (map elen pe) NNpe 0 0%Q i len Ew Hhalf)
    as (pre & x & post & Els & Ei & Hlo & Hhi & Hlen).
  { rewrite Htot. unfold half, qhalf. lra. }
  simpl in Ei.
  assert (Ex : elen (nth (i - 1) pe e0) = x).
  { rewrite <- (map_nth elen pe e0 (i - 1)), Els. replace (i - 1) with (length pre) by lia.
    rewrite app_nth2 by lia. now rewrite Nat.sub_diag. }
  set (ce := nth (i - 1) pe e0) in *.
  set (cut := (len - half)%Q) in *.
  assert (Hc0 : (0 <= cut)%Q) by (unfold cut; lra).
  assert (Hc1 : (0 <= elen ce - cut)%Q) by (rewrite Ex; unfold cut; lra).
  assert (Hi' : i <= m + 1).
  { apply walk_le in Ew. rewrite map_length in Ew. unfold pe in Ew.
    rewrite app_length, rev_length, LPE in Ew. simpl in Ew. fold m in Ew. lia. }
  destruct (Nat.ltb (i - 1) m) eqn:Elt.
  - apply Nat.ltb_lt in Elt.
    set (d := m - (i - 1)) in *.
    assert (Hd1 : d - 1 < length pA) by (fold m; unfold d; lia).
    destruct (path_edges_nth pA t2 b (d - 1) Hb Hd1) as [P [ch [HP HK]]].
    fold PE in HK.
    assert (Ece : ce = nth (d - 1) PE e0).
    { unfold ce, pe. rewrite app_nth1 by (rewrite rev_length; lia). rewrite rev_nth by lia.
      f_equal. unfold d. lia. }
    rewrite <- Ece in HK.
    apply (cut_and_root_edges (fun e => (0 <= elen e)%Q) t2 (firstn (d - 1) pA) (nth (d - 1) pA 0) true
              (mkE cut (esup ce) nilv []) (mkE (elen ce - cut) (esup ce) nilv []) P ce ch t'
              W2 D2 HP HK Hres); auto.
    intros [[e0' L0'] b0'] Hin0. cbn [fst]. eapply NN2; eauto.
  - apply Nat.ltb_ge in Elt. assert (Ei' : i - 1 = m) by lia.
    assert (Ece : ce = ea).
    { unfold ce, pe. rewrite Ei', app_nth2 by (rewrite rev_length; lia).
      rewrite rev_length, LPE. fold m. rewrite Nat.sub_diag. reflexivity. }
    rewrite Ece in *.
    apply (cut_and_root_edges (fun e => (0 <= elen e)%Q) t2 [] j false
              (mkE (elen ea - cut) (esup ea) nilv []) (mkE cut (esup ea) nilv []) t2 ea lf t'
              W2 D2 eq_refl Hj Hres); auto.
    intros [[e0' L0'] b0'] Hin0. cbn [fst]. eapply NN2; eauto.
Qed.

Lemma len0_nonneg_eq e : (0 <= elen e)%Q -> (len0 e == elen e)%Q.
Proof. intros H. unfold len0. apply Qle_bool_iff in H. now rewrite H. Qed.

Theorem midpoint_len0 t t' :
  wf t = true -> 2 <= degree t -> (rooted t = true -> root_has_inner_child t = true) ->
  NoDup (leaves t) ->
  (forall x, In x (bsplits (unroot t)) -> (0 <= elen (fst (fst x)))%Q) ->
  reroot_midpoint t = Ok t' ->
  dists_equiv (pairdists len0 t') (pairdists len0 t).
Proof.
  intros Hwf Hd Hi HND Hnn H.
  destruct (unroot_stage t Hwf Hd Hi) as [_ [D0 _]].
  destruct (reroot_midpoint_scan _ _ D0 H) as (q&lf&v&pA&cur&ea0&Hin&Hv&Hm&Hcur&_&He&Hres).
  destruct (setting_facts t [] Hwf Hd Hi HND q lf v Hin Hv) as (W1&D1&L1&W2'&D2'&L2'&ND2'&_&_&SE).
  assert (ND1 : NoDup (leaves (unroot t))) by (now rewrite L1).
  pose proof Hin as Hin'. apply tip_paths_In in Hin' as [Hnq _].
  destruct (unroot_stage t Hwf Hd Hi) as [_ [_ [_ PU]]].
  destruct (view_from_spec _ _ _ _ W1 D1 Hnq Hv) as [_ [_ [_ PV]]].
  transitivity (pairdists len0 (tv_tree v)); [|etransitivity; [apply PV | exact PU]].
  (* every branch of the view is not negative *)
  assert (NN2 : forall e L b, In (e, L, b) (bsplits (tv_tree v)) -> (0 <= elen e)%Q).
  { intros e L b Hin2.
    destruct (PermR_In _ _ (bs_eq_Equivalence (leaves (unroot t))) _ _ SE _ Hin2) as [[[e' X'] b'] [Hy [E1 _]]].
    simpl in E1. subst e'. exact (Hnn _ Hy). }
  destruct (view_shape _ _ _ _ _ _ W1 D1 Hin Hv Hm)
    as (n&c&sl&ea&l0&E2&Hj&Klf&Emlp&Ecur&Kmask&W2&D2&L2&P2).
  assert (ea0 = ea).
  { unfold edge_at in He. rewrite E2 in He. simpl uslots in He. rewrite Hj in He. congruence. }
  subst ea0. rewrite E2 in *.
  set (j := tv_slot v) in *. set (t2 := UNode n c sl) in *.
  destruct (mlp_leaf _ _ _ Emlp) as [[K0 _]|[_ [HpA [b [HbA Kb]]]]]; [contradiction|].
  destruct (mlp_spec _ _ _ Emlp) as [Hl0 _].
  rewrite (path_edges_masked n c sl j pA b HbA) in Hl0. fold t2 in Hl0.
  assert (Hb : node_at t2 pA = Some b) by (apply (node_at_masked n c sl j pA b HpA HbA)).
  set (PE := path_edges t2 pA) in *.
  assert (LPE : length PE = length pA) by (unfold PE; eapply path_edges_length; eauto).
  assert (NS : is_prefix pA (tv_root v) = false).
  { apply (not_stale (unroot t) q lf v pA b W1 D1 Hnq Hv HpA); [rewrite E2; exact Hb | exact Kb]. }
  unfold mp_result in Hres. cbv zeta in Hres. rewrite E2, NS in Hres. fold j t2 PE in Hres.
  set (m := length pA) in *.
  set (half := qhalf cur) in *.
  assert (Hhalf : (0 < half)%Q) by (unfold half, qhalf; lra).
  set (pe := rev PE ++ [ea]) in *.
  (* the branches of the path are not negative and add up to cur *)
  assert (Hea : (0 <= elen ea)%Q).
  { apply (NN2 ea (leaves lf) (isleaf lf)). apply (node_at_bsplits [] t2 t2 j ea lf eq_refl Hj). }
  assert (NNpe : Forall (fun x => (0 <= x)%Q) (map elen pe)).
  { unfold pe. rewrite map_app. apply Forall_app. split; [|constructor; [exact Hea|constructor]].
    rewrite map_rev. apply Forall_rev. apply Forall_forall. intros x Hx.
    apply in_map_iff in Hx as [e [<- He']].
    pose proof (path_edges_in pA t2 b Hb) as F. rewrite Forall_forall in F.
    destruct (F _ He') as (L & bb & Hin2). eapply NN2; eauto. }
  assert (Htot : (qsum (map elen pe) == cur)%Q).
  { unfold pe. rewrite map_app, qsum_app, map_rev, qsum_rev. simpl. rewrite Ecur, Hl0. ring. }
  destruct (walk half (map elen pe) 0 0%Q) as [i len] eqn:Ew.
  destruct (walk_stop half (map elen pe) NNpe 0 0%Q i len Ew Hhalf)
    as (pre & x & post & Els & Ei & Hlo & Hhi & Hlen).
  { rewrite Htot. unfold half, qhalf. lra. }
  simpl in Ei.
  assert (Ex : elen (nth (i - 1) pe e0) = x).
  { rewrite <- (map_nth elen pe e0 (i - 1)), Els. replace (i - 1) with (length pre) by lia.
    rewrite app_nth2 by lia. now rewrite Nat.sub_diag. }
  set (ce := nth (i - 1) pe e0) in *.
  set (cut := (len - half)%Q) in *.
  assert (Hc0 : (0 <= cut)%Q) by (unfold cut; lra).
  assert (Hc1 : (0 <= elen ce - cut)%Q) by (rewrite Ex; unfold cut; lra).
  assert (Hi' : i <= m + 1).
  { apply walk_le in Ew. rewrite map_length in Ew. unfold pe in Ew.
    rewrite app_length, rev_length, LPE in Ew. simpl in Ew. fold m in Ew. lia. }
  destruct (Nat.ltb (i - 1) m) eqn:Elt.
  - apply Nat.ltb_lt in Elt.
    set (d := m - (i - 1)) in *.
    assert (Hd1 : d - 1 < length pA) by (fold m; unfold d; lia).
    destruct (path_edges_nth pA t2 b (d - 1) Hb Hd1) as [P [ch [HP HK]]].
    fold PE in HK.
    assert (Ece : ce = nth (d - 1) PE e0).
    { unfold ce, pe. rewrite app_nth1 by (rewrite rev_length; lia). rewrite rev_nth by lia.
      f_equal. unfold d. lia. }
    rewrite <- Ece in HK.
    assert (Hce : (0 <= elen ce)%Q) by lra.
    destruct (cut_and_root_spec len0 t2 (firstn (d - 1) pA) (nth (d - 1) pA 0) true
              (mkE cut (esup ce) nilv []) (mkE (elen ce - cut) (esup ce) nilv []) P ce ch W2 D2 HP HK)
      as [t4 [R [E4 [_ [_ [_ P4]]]]]].
    { rewrite !len0_nonneg_eq by (cbn [elen]; assumption). cbn [elen]. ring. }
    assert (t4 = t') by congruence. subst t4. exact P4.
  - apply Nat.ltb_ge in Elt. assert (Ei' : i - 1 = m) by lia.
    assert (Ece : ce = ea).
    { unfold ce, pe. rewrite Ei', app_nth2 by (rewrite rev_length; lia).
      rewrite rev_length, LPE. fold m. rewrite Nat.sub_diag. reflexivity. }
    rewrite Ece in *.
    destruct (cut_and_root_spec len0 t2 [] j false
              (mkE (elen ea - cut) (esup ea) nilv []) (mkE cut (esup ea) nilv []) t2 ea lf W2 D2 eq_refl Hj)
      as [t4 [R [E4 [_ [_ [_ P4]]]]]].
    { rewrite !len0_nonneg_eq by (cbn [elen]; assumption). cbn [elen]. ring. }
    assert (t4 = t') by congruence. subst t4. exact P4.
Qed.

Corollary midpoint_usplits_input t t' :
  wf t = true -> 2 <= degree t -> (rooted t = true -> root_has_inner_child t = true) ->
  NoDup (leaves t) ->
  (forall x, In x (bsplits (unroot t)) -> (0 <= elen (fst (fst x)))%Q) ->
  reroot_midpoint t = Ok t' ->
  forall k, orel split_weq (find_split k (usplits t')) (find_split k (usplits t)).
Proof.
  intros Hwf Hd Hi HND Hnn H k.
  eapply orel_trans; [apply split_weq_trans| |].
  - eapply orel_mono; [apply split_qeq_weq|]. eapply midpoint_usplits; eauto.
  - destruct (rooted t) eqn:Hr.
    + apply unroot_usplits; auto.
    + rewrite (unroot_not_rooted t Hr). apply orel_refl, split_weq_refl.
Qed.
