(** C08, the pairwise variant by linear search (Tree.CommonEdges / Edge.FindEdge): on the domain of
    [compare_counts] it returns (|S1 \ S2|, |S1 /\ S2|).  Built on C04's closed form of the loop
    (Proofs/IndexCommon.v [common_edges_spec]). *)
From Coq Require Import String NArith ZArith QArith Bool Arith Lia List Permutation.
From GT Require Import Base.UTree Spec.Obs Spec.CompareSpec Model.Reroot Model.Index Model.EdgeIndex Model.Compare
     Proofs.IndexTree Proofs.IndexSplit Proofs.IndexCommon Proofs.Splits Proofs.USplits
     Proofs.CompareBase Proofs.CompareTree Proofs.CompareMain.
Import ListNotations.
Local Close Scope Q_scope.
Local Arguments leaves : simpl never.

Lemma map_row_keys (f : nat * (erow * (einfo * utree)) -> ekey)
      (Hf : forall i r ec, ek_row (f (i, (r, ec))) = r) :
  forall (R : list erow) (E : list (einfo * utree)) i,
    length R = length E -> map ek_row (map f (number_from i (combine R E))) = R.
Proof.
  induction R as [|r R IH]; destruct E as [|ec E]; simpl; intros i H; try discriminate; auto.
  rewrite Hf, IH; auto.
Qed.

Lemma branch_keys_rows tag t : good t -> map ek_row (branch_keys tag t) = rows t.
Proof.
  intros G. unfold branch_keys, branch_keys_of. apply map_row_keys.
  - intros. reflexivity.
  - now apply rows_length.
Qed.

(** a row of [t] and the split of its branch *)
Definition row_of (t : utree) (r : erow) (s : split) : Prop := exists k, ek_row k = r /\ key_of t k s.

Lemma rows_splits t : good t -> Forall2 (row_of t) (rows t) (branch_splits (tipset t) t).
Proof.
  intros G. rewrite <- (branch_keys_rows 0 t G).
  pose proof (branch_keys_splits 0 t G) as F. induction F; simpl; constructor; auto.
  exists x. auto.
Qed.

Lemma filter_length_transport {A B} (R : A -> B -> Prop) (f : A -> bool) (g : B -> bool) l (L : list B) :
  forall l', Forall2 R l l' -> incl l' L -> (forall a b, R a b -> In b L -> f a = g b) ->
             length (filter f l) = length (filter g l').
Proof.
  induction l as [|a l IH]; intros l' F I H; inversion F; subst; simpl; auto.
  assert (E : f a = g y) by (apply H; auto; apply I; now left).
  assert (IHl : length (filter f l) = length (filter g l'0)).
  { apply IH; auto. intros b Hb. apply I. now right. }
  rewrite E. destruct (g y); simpl; now rewrite IHl.
Qed.

Theorem common_edges_counts te t1 t2 :
  good t1 -> good t2 -> Permutation (leaves t1) (leaves t2) ->
  dupfree t1 -> dupfree t2 -> tipflags t1 -> tipflags t2 ->
  common_edges te t1 t2 =
  Ok (Z.of_nat (c_only1 (spec_counts te t1 t2)), Z.of_nat (c_both (spec_counts te t1 t2))).
Proof.
  intros G1 G2 P D1 D2 F1 F2.
  rewrite (common_edges_spec te t1 t2 G1 G2 P). cbv zeta.
  assert (ET : tipset t2 = tipset t1) by (unfold tipset; apply sset_perm; now symmetry).
  set (B1 := branch_splits (tipset t1) t1). set (B2 := branch_splits (tipset t2) t2).
  set (S1 := filter (counted te) B1). set (S2 := filter (counted te) B2).
  pose proof (rows_splits t1 G1) as R1. pose proof (rows_splits t2 G2) as R2. fold B1 in R1. fold B2 in R2.
  (* tip flag determined by the key *)
  assert (TK : forall s s', In s B1 -> In s' B2 -> sside s = sside s' -> stip s = stip s').
  { intros s s' Hs Hs' E. rewrite (F1 s Hs). rewrite (F2 s' Hs'), ET. unfold nontrivial_split. now rewrite E. }
  (* pointwise *)
  assert (Ec : forall r s, row_of t1 r s -> considered te r = counted te s).
  { intros r s (k & <- & Hk). unfold considered, counted. now rewrite <- (key_of_tip t1 k s G1 Hk). }
  assert (Ef : forall r s, row_of t1 r s -> In s B1 -> counted te s = true -> found_in (rows t2) r = has_key S2 s).
  { intros r s (k & <- & Hk) Hs C.
    assert (G : found_in (rows t2) (ek_row k) =
                existsb (fun s2 => Bool.eqb (stip s) (stip s2) && split_key_eqb s s2) B2).
    { unfold found_in. clear - R2 Hk G1 G2 P.
      induction R2 as [|r2 s2 l l' (k2 & <- & Hk2) R2 IH]; simpl; auto.
      rewrite IH. f_equal.
      change (r_tip (ek_row k)) with (key_tip k). change (r_tip (ek_row k2)) with (key_tip k2).
      rewrite (key_of_tip t1 k s G1 Hk), (key_of_tip t2 k2 s2 G2 Hk2). f_equal.
      rewrite <- (key_of_eqb t1 t2 k s k2 s2 G1 G2 P Hk Hk2).
      destruct Hk as (ec1 & Br1 & _ & _). destruct Hk2 as (ec2 & Br2 & _ & _).
      pose proof (same_bipartition_iff t1 t2 ec1 _ ec2 _ G1 G2 P Br1 Br2) as SB.
      pose proof (equal_or_complement_iff t1 t2 ec1 _ ec2 _ G1 G2 P Br1 Br2) as EO.
      unfold ekey_eqb, hash_equals.
      assert (SB' : same_bipartition (ek_row k) (ek_row k2) = true <->
                    equal_or_complement (r_bits (ek_row k)) (r_bits (ek_row k2)) = true) by (rewrite SB, EO; tauto).
      clear SB EO.
      destruct (same_bipartition (ek_row k) (ek_row k2)), (equal_or_complement (r_bits (ek_row k)) (r_bits (ek_row k2)));
        auto; destruct SB' as [S1 S2]; [specialize (S1 eq_refl)|specialize (S2 eq_refl)]; discriminate. }
    rewrite G. unfold has_key, S2.
    destruct (existsb (split_key_eqb s) (filter (counted te) B2)) eqn:X.
    - apply existsb_exists in X. destruct X as (s2 & Hs2 & E). apply filter_In in Hs2. destruct Hs2 as [Hs2 C2].
      apply existsb_exists. exists s2. split; auto. rewrite E, andb_true_r.
      unfold split_key_eqb in E. apply sset_eqb_eq in E. rewrite (TK s s2 Hs Hs2 E). apply eqb_reflx.
    - destruct (existsb (fun s2 => Bool.eqb (stip s) (stip s2) && split_key_eqb s s2) B2) eqn:Y; auto.
      apply existsb_exists in Y. destruct Y as (s2 & Hs2 & E). apply andb_prop in E. destruct E as [E1 E2].
      apply eqb_prop in E1.
      assert (existsb (split_key_eqb s) (filter (counted te) B2) = true).
      { apply existsb_exists. exists s2. split; auto. apply filter_In. split; auto.
        unfold counted in *. now rewrite <- E1. }
      congruence. }
  (* the two lengths *)
  assert (LS : length (filter (considered te) (rows t1)) = length S1).
  { unfold S1. apply (filter_length_transport (row_of t1) _ _ _ B1 B1 R1 (incl_refl _)). intros; auto. }
  assert (LC : length (filter (found_in (rows t2)) (filter (considered te) (rows t1))) = length (in_both S1 S2)).
  { unfold in_both, S1. rewrite !filter_filter.
    apply (filter_length_transport (row_of t1) _ _ _ B1 B1 R1 (incl_refl _)).
    intros r s H Hs. rewrite (Ec r s H). destruct (counted te s) eqn:C; simpl; auto. }
  rewrite LS, LC.
  unfold spec_counts, split_list. cbn [c_only1 c_both].
  rewrite (usplits_dupfree t1 D1), (usplits_dupfree t2 D2). fold B1 B2 S1 S2.
  pose proof (only_in_length S1 S2). pose proof (in_both_le S1 S2).
  f_equal. f_equal. lia.
Qed.
