(** Heap model: NNI, part 3: the exchange when the moved neighbour of the upper node is its
    PARENT: the central branch is inverted, the lower node takes the place of the upper one
    below that parent. *)
From Coq Require Import String ZArith QArith Bool Arith Lia Permutation List.
From GT Require Import Base.UTree Model.Reroot Model.Heap Model.HeapEdit Proofs.Enum Proofs.HeapBase Proofs.HeapRep
     Proofs.HeapGood Proofs.HeapGoodRep Proofs.HeapRerootL Proofs.HeapReorder Proofs.HeapUnrootL Proofs.HeapUnroot
     Proofs.HeapCtx Proofs.HeapGraft Proofs.HeapCollapse Proofs.HeapNNI Proofs.HeapNNIDown.
Import ListNotations.
Local Close Scope Q_scope.

Lemma perm_nni_up (N S S1 S2 T U M1 M2 LB : list nat) (x y : nat) :
  Permutation ((x :: S1) ++ N) ((y :: T) ++ S) -> Permutation T ((x :: U) ++ M2) ->
  Permutation (LB ++ M2) S2 -> Permutation ((y :: S2) ++ U) M1 -> Permutation M1 (LB ++ S1) -> Permutation N S.
Proof. intros H1 H2 H3 H4 H5. perm_count. Qed.

Lemma perm_nni_up_e (N S S1 S2 T U M1 M2 LB : list nat) (a c : nat) :
  Permutation ((a :: S1) ++ N) ((a :: T) ++ S) -> Permutation T ((c :: U) ++ M2) ->
  Permutation (LB ++ M2) S2 -> Permutation ((c :: S2) ++ U) M1 -> Permutation M1 (LB ++ S1) -> Permutation N S.
Proof. intros H1 H2 H3 H4 H5. perm_count. Qed.

Lemma lnup_set_nth_some_to_none sl k a b c : nth_error sl k = Some (Some (a, b, c)) -> lnup (set_nth k None sl) = S (lnup sl).
Proof. apply lnup_set_nth. Qed.

Lemma lnup_set_nth_none_to_some sl k a b c : nth_error sl k = Some None -> lnup (set_nth k (Some (a, b, c)) sl) = pred (lnup sl).
Proof.
  unfold lnup. revert k. induction sl as [|s sl IH]; intros k H; [destruct k; discriminate|].
  destruct k as [|k]; cbn in H.
  - injection H as ->. reflexivity.
  - rewrite set_nth_cons. cbn [filter]. destruct s; cbn [length]; rewrite (IH k H); [reflexivity|].
    assert (In None sl) by (eapply nth_error_In; exact H).
    destruct (filter _ sl) eqn:E; [|reflexivity]. exfalso.
    assert (In None (filter (fun s : lslot => match s with None => true | _ => false end) sl)) by (apply filter_In; split; [exact H0|reflexivity]).
    rewrite E in H1. destruct H1.
Qed.

Section Up.
  Variables (h h' : heap) (lt : ltree).
  Hypothesis R : Rep h lt.
  Variables (pP : option (nat * nat)) (xm : nat) (nmP : string) (cmP : list string) (slP : list lslot) (kp : nat).
  Variables (e1 : nat) (ei1 : einfo) (x : nat) (nmx : string) (cmx : list string) (sl1 : list lslot) (k ix : nat).
  Variables (ec : nat) (eic : einfo) (y : nat) (nmy : string) (cmy : list string) (sl2 : list lslot) (j iy : nat).
  Variables (e2 : nat) (ei2 : einfo) (ym : nat) (nmB : string) (cmB : list string) (slB : list lslot).
  Let B := LNode ym nmB cmB slB.
  Let Ysub := LNode y nmy cmy sl2.
  Let X := LNode x nmx cmx sl1.
  Let subP := LNode xm nmP cmP slP.
  Hypothesis Hsub : In (pP, subP) (lsubs None lt).
  Hypothesis Hkp : nth_error slP kp = Some (Some (e1, ei1, X)).
  Hypothesis Hix : nth_error sl1 ix = Some None.
  Hypothesis Hk : nth_error sl1 k = Some (Some (ec, eic, Ysub)).
  Hypothesis Hj : nth_error sl2 j = Some None.
  Hypothesis Hiy : nth_error sl2 iy = Some (Some (e2, ei2, B)).
  Variables (hx hy hxm hym : hnode) (jy : nat).
  Hypothesis Hx : alookup x (hnodes h) = Some hx.
  Hypothesis Hy : alookup y (hnodes h) = Some hy.
  Hypothesis Hxm : alookup xm (hnodes h) = Some hxm.
  Hypothesis Hym : alookup ym (hnodes h) = Some hym.
  Hypothesis Jy : index_of y (hneigh hym) = Some jy.
  Hypothesis D : nni_desc h h' x y xm ym ix iy kp jy e1 e2 ec true hx hy hxm hym (mkHE xm x ei1) (mkHE y ym ei2) (mkHE x y eic).
  Let Xnew := LNode x nmx cmx (set_nth k None (set_nth ix (Some (e2, ei2, B)) sl1)).
  Let Ynew := LNode y nmy cmy (set_nth j (Some (ec, eic, Xnew)) (set_nth iy None sl2)).
  Let newP := LNode xm nmP cmP (set_nth kp (Some (e1, ei1, Ynew)) slP).

  Definition UN (z : nat) : Prop := z <> x /\ z <> y /\ z <> xm /\ z <> ym.
  Definition UE (z : nat) : Prop := z <> e1 /\ z <> e2 /\ z <> ec.

  Lemma NU_same_n z : UN z -> alookup z (hnodes h') = alookup z (hnodes h).
  Proof.
    intros (A1 & A2 & A3 & A4). rewrite (nd_nodes _ _ _ _ _ _ _ _ _ _ _ _ _ _ _ _ _ _ _ _ _ D).
    destruct (Nat.eqb_spec z x); [contradiction|]. destruct (Nat.eqb_spec z y); [contradiction|].
    destruct (Nat.eqb_spec z xm); [contradiction|]. destruct (Nat.eqb_spec z ym); [contradiction|]. reflexivity.
  Qed.
  Lemma NU_same_e z : UE z -> alookup z (hedges h') = alookup z (hedges h).
  Proof.
    intros (A1 & A2 & A3). rewrite (nd_edges _ _ _ _ _ _ _ _ _ _ _ _ _ _ _ _ _ _ _ _ _ D).
    destruct (Nat.eqb_spec z e1); [contradiction|]. destruct (Nat.eqb_spec z e2); [contradiction|].
    destruct (Nat.eqb_spec z ec); [contradiction|]. reflexivity.
  Qed.

  Lemma NU_untouched q T a b ce P : (forall z, In z (lids T) -> UN z) -> (forall z, In z (a :: leids T) -> UE z) ->
    q <> Some ce -> forall i, slot_ok true h P i ce (Some (a, b, T)) -> slot_ok true h' q i ce (Some (a, b, T)).
  Proof.
    intros Hn He Hq i Hok. cbn [slot_ok] in *. destruct Hok as (_ & B2 & B3 & B4 & B5). repeat split; try assumption.
    - eapply edge_ok_eq; [|exact B4]. rewrite <- B2. apply NU_same_e. apply He. left. reflexivity.
    - eapply shape_frame; [| |exact B5].
      + intros z Hz. apply NU_same_n. apply Hn. exact Hz.
      + intros z Hz. apply NU_same_e. apply He. right. exact Hz.
  Qed.

  Lemma NU_sep :
    ~ In xm (sids slP) /\
    (forall i a b c, nth_error slP i = Some (Some (a, b, c)) -> i <> kp ->
       (forall z, In z (lids c) -> UN z) /\ (forall z, In z (a :: leids c) -> UE z)) /\
    (forall i a b c, nth_error sl1 i = Some (Some (a, b, c)) -> i <> k ->
       (forall z, In z (lids c) -> UN z) /\ (forall z, In z (a :: leids c) -> UE z)) /\
    (forall i a b c, nth_error sl2 i = Some (Some (a, b, c)) -> i <> iy ->
       (forall z, In z (lids c) -> UN z) /\ (forall z, In z (a :: leids c) -> UE z)) /\
    (forall z, In z (sids slB) -> UN z) /\ (forall z, In z (seids slB) -> UE z) /\
    x <> y /\ x <> xm /\ x <> ym /\ y <> xm /\ y <> ym /\ xm <> ym /\ e1 <> e2 /\ e1 <> ec /\ e2 <> ec.
  Proof.
    assert (NdS : NoDup (lids subP)) by (eapply lsubs_NoDup; [exact (rep_nd _ _ R)|exact Hsub]).
    pose proof (shape_lsubs _ _ _ _ _ _ (rep_shape _ _ R) Hsub) as Shsub.
    pose proof (shape_NoDup_leids _ _ _ Shsub NdS) as NedS.
    unfold subP in NdS, NedS. rewrite lids_eq in NdS. rewrite leids_eq in NedS. fold (sids slP) in NdS. fold (seids slP) in NedS.
    apply NoDup_cons_iff in NdS. destruct NdS as [Np NP].
    destruct (slot_nd slP kp _ _ _ NP NedS Hkp) as [NX NXe]. unfold X in NX, NXe. rewrite lids_eq in NX. rewrite leids_eq in NXe.
    fold (sids sl1) in NX. fold (seids sl1) in NXe. apply NoDup_cons_iff in NX. destruct NX as [Nx N1]. apply NoDup_cons_iff in NXe. destruct NXe as [Ne1 NE1].
    destruct (slot_nd sl1 k _ _ _ N1 NE1 Hk) as [NY NYe]. unfold Ysub in NY, NYe. rewrite lids_eq in NY. rewrite leids_eq in NYe.
    fold (sids sl2) in NY. fold (seids sl2) in NYe. apply NoDup_cons_iff in NY. destruct NY as [Ny N2]. apply NoDup_cons_iff in NYe. destruct NYe as [Nec NE2].
    destruct (slot_nd sl2 iy _ _ _ N2 NE2 Hiy) as [NB NBe]. unfold B in NB, NBe. rewrite lids_eq in NB. rewrite leids_eq in NBe.
    fold (sids slB) in NB. fold (seids slB) in NBe. apply NoDup_cons_iff in NB. destruct NB as [Nym NB]. apply NoDup_cons_iff in NBe. destruct NBe as [Ne2 NBe].
    assert (InX : forall z, In z (lids X) -> In z (sids slP)) by (intros z Hz; eapply in_sids; [eapply nth_error_In; exact Hkp|exact Hz]).
    assert (InXe : forall z, In z (e1 :: leids X) -> In z (seids slP)).
    { intros z [<-|Hz]; [eapply in_seids_here|eapply in_seids]; try (eapply nth_error_In; exact Hkp); exact Hz. }
    assert (In1X : forall z, In z (sids sl1) -> In z (lids X)) by (intros z Hz; unfold X; rewrite lids_eq; right; exact Hz).
    assert (In1Xe : forall z, In z (seids sl1) -> In z (leids X)) by (intros z Hz; unfold X; rewrite leids_eq; exact Hz).
    assert (InY : forall z, In z (lids Ysub) -> In z (sids sl1)) by (intros z Hz; eapply in_sids; [eapply nth_error_In; exact Hk|exact Hz]).
    assert (InYe : forall z, In z (ec :: leids Ysub) -> In z (seids sl1)).
    { intros z [<-|Hz]; [eapply in_seids_here|eapply in_seids]; try (eapply nth_error_In; exact Hk); exact Hz. }
    assert (In2Y : forall z, In z (sids sl2) -> In z (lids Ysub)) by (intros z Hz; unfold Ysub; rewrite lids_eq; right; exact Hz).
    assert (In2Ye : forall z, In z (seids sl2) -> In z (leids Ysub)) by (intros z Hz; unfold Ysub; rewrite leids_eq; exact Hz).
    assert (InB : forall z, In z (lids B) -> In z (sids sl2)) by (intros z Hz; eapply in_sids; [eapply nth_error_In; exact Hiy|exact Hz]).
    assert (InBe : forall z, In z (e2 :: leids B) -> In z (seids sl2)).
    { intros z [<-|Hz]; [eapply in_seids_here|eapply in_seids]; try (eapply nth_error_In; exact Hiy); exact Hz. }
    assert (Xx : In x (lids X)) by (left; reflexivity).
    assert (Yy : In y (lids Ysub)) by (left; reflexivity).
    assert (Bb : In ym (lids B)) by (left; reflexivity).
    assert (XY : In y (lids X)) by (apply In1X, InY, Yy).
    assert (YB : In ym (lids Ysub)) by (apply In2Y, InB, Bb).
    assert (XB : In ym (lids X)) by (apply In1X, InY, YB).
    assert (E2Y : In e2 (leids Ysub)) by (apply In2Ye, InBe; left; reflexivity).
    assert (EcX : In ec (leids X)) by (apply In1Xe, InYe; left; reflexivity).
    assert (E2X : In e2 (leids X)) by (apply In1Xe, InYe; right; exact E2Y).
    split; [exact Np|]. split; [|split; [|split; [|split; [|split]]]].
    - intros i a b c Hi Hik. split.
      + intros z Hz. assert (Zs : In z (sids slP)) by (eapply in_sids; [eapply nth_error_In; exact Hi|exact Hz]). repeat split; intros ->.
        * exact (sib_disj_n slP i kp _ _ _ _ _ _ _ NP Hi Hkp Hik Hz Xx).
        * exact (sib_disj_n slP i kp _ _ _ _ _ _ _ NP Hi Hkp Hik Hz XY).
        * exact (Np Zs).
        * exact (sib_disj_n slP i kp _ _ _ _ _ _ _ NP Hi Hkp Hik Hz XB).
      + intros z Hz. repeat split; intros ->.
        * exact (sib_disj_e slP i kp _ _ _ _ _ _ _ NedS Hi Hkp Hik Hz (or_introl eq_refl)).
        * exact (sib_disj_e slP i kp _ _ _ _ _ _ _ NedS Hi Hkp Hik Hz (or_intror E2X)).
        * exact (sib_disj_e slP i kp _ _ _ _ _ _ _ NedS Hi Hkp Hik Hz (or_intror EcX)).
    - intros i a b c Hi Hik. split.
      + intros z Hz. assert (Zs : In z (sids sl1)) by (eapply in_sids; [eapply nth_error_In; exact Hi|exact Hz]). repeat split; intros ->.
        * exact (Nx Zs).
        * exact (sib_disj_n sl1 i k _ _ _ _ _ _ _ N1 Hi Hk Hik Hz Yy).
        * exact (Np (InX _ (In1X _ Zs))).
        * exact (sib_disj_n sl1 i k _ _ _ _ _ _ _ N1 Hi Hk Hik Hz YB).
      + intros z Hz. assert (Zs : In z (seids sl1)).
        { destruct Hz as [<-|Hz]; [eapply in_seids_here|eapply in_seids]; try (eapply nth_error_In; exact Hi); exact Hz. }
        repeat split; intros ->.
        * exact (Ne1 Zs).
        * exact (sib_disj_e sl1 i k _ _ _ _ _ _ _ NE1 Hi Hk Hik Hz (or_intror E2Y)).
        * exact (sib_disj_e sl1 i k _ _ _ _ _ _ _ NE1 Hi Hk Hik Hz (or_introl eq_refl)).
    - intros i a b c Hi Hiy'. split.
      + intros z Hz. assert (Zs : In z (sids sl2)) by (eapply in_sids; [eapply nth_error_In; exact Hi|exact Hz]). repeat split; intros ->.
        * exact (Nx (InY _ (In2Y _ Zs))).
        * exact (Ny Zs).
        * exact (Np (InX _ (In1X _ (InY _ (In2Y _ Zs))))).
        * exact (sib_disj_n sl2 i iy _ _ _ _ _ _ _ N2 Hi Hiy Hiy' Hz Bb).
      + intros z Hz. assert (Zs : In z (seids sl2)).
        { destruct Hz as [<-|Hz]; [eapply in_seids_here|eapply in_seids]; try (eapply nth_error_In; exact Hi); exact Hz. }
        repeat split; intros ->.
        * exact (Ne1 (InYe _ (or_intror (In2Ye _ Zs)))).
        * exact (sib_disj_e sl2 i iy _ _ _ _ _ _ _ NE2 Hi Hiy Hiy' Hz (or_introl eq_refl)).
        * exact (Nec Zs).
    - intros z Hz. assert (ZB : In z (lids B)) by (unfold B; rewrite lids_eq; right; exact Hz). repeat split; intros ->.
      + exact (Nx (InY _ (In2Y _ (InB _ ZB)))).
      + exact (Ny (InB _ ZB)).
      + exact (Np (InX _ (In1X _ (InY _ (In2Y _ (InB _ ZB)))))).
      + exact (Nym Hz).
    - intros z Hz. assert (ZB : In z (e2 :: leids B)) by (right; unfold B; rewrite leids_eq; exact Hz). repeat split; intros ->.
      + exact (Ne1 (InYe _ (or_intror (In2Ye _ (InBe _ ZB))))).
      + exact (Ne2 Hz).
      + exact (Nec (InBe _ ZB)).
    - repeat split; intros E0.
      + apply Nx. rewrite E0. exact (InY _ Yy).
      + apply Np. rewrite <- E0. exact (InX _ Xx).
      + apply Nx. rewrite E0. exact (InY _ YB).
      + apply Np. rewrite <- E0. exact (InX _ XY).
      + apply Ny. rewrite E0. exact (InB _ Bb).
      + apply Np. rewrite E0. exact (InX _ XB).
      + apply Ne1. rewrite E0. exact (InYe _ (or_intror E2Y)).
      + apply Ne1. rewrite E0. exact (InYe _ (or_introl eq_refl)).
      + apply Nec. rewrite <- E0. apply InBe. left. reflexivity.
  Qed.

  Lemma NU_facts :
    length (hneigh hxm) = length (hbr hxm) /\ hname hxm = nmP /\ hcom hxm = cmP /\
    Forall2 (slot_ok true h pP xm) (slots_of hxm) slP /\
    length (hneigh hx) = length (hbr hx) /\ hname hx = nmx /\ hcom hx = cmx /\
    Forall2 (slot_ok true h (Some (xm, e1)) x) (slots_of hx) sl1 /\
    length (hneigh hy) = length (hbr hy) /\ hname hy = nmy /\ hcom hy = cmy /\
    Forall2 (slot_ok true h (Some (x, ec)) y) (slots_of hy) sl2 /\
    nth_error (slots_of hxm) kp = Some (x, e1) /\ nth_error (slots_of hx) ix = Some (xm, e1) /\
    nth_error (slots_of hx) k = Some (y, ec) /\ nth_error (slots_of hy) j = Some (x, ec) /\
    nth_error (slots_of hy) iy = Some (ym, e2) /\
    shape true h (Some (y, e2)) B /\ pP <> Some (x, e1) /\ lwf_sub B /\
    lnup sl1 = 1 /\ lnup sl2 = 1 /\
    (forall a b c, In (Some (a, b, c)) sl1 -> lwf_sub c) /\ (forall a b c, In (Some (a, b, c)) sl2 -> lwf_sub c).
  Proof.
    pose proof (shape_lsubs _ _ _ _ _ _ (rep_shape _ _ R) Hsub) as Sh. unfold subP in Sh.
    apply shape_unfold in Sh. destruct Sh as [hP0 (A1 & A2 & A3 & A4 & A5)]. rewrite Hxm in A1. injection A1 as <-.
    destruct (Forall2_nth_r _ _ _ _ _ A5 Hkp) as [[c0 e0] [K1 K2]]. cbn [slot_ok fst snd lid] in K2.
    destruct K2 as (K3 & K4 & K5 & K6 & K7). unfold X in K5. cbn [lid] in K5. subst c0 e0.
    unfold X in K7. apply shape_unfold in K7. destruct K7 as [hx0 (B1 & B2 & B3 & B4 & B5)]. rewrite Hx in B1. injection B1 as <-.
    destruct (Forall2_nth_r _ _ _ _ _ B5 Hix) as [ce1 [X1 X2]]. cbn [slot_ok] in X2. injection X2 as <-.
    destruct (Forall2_nth_r _ _ _ _ _ B5 Hk) as [[c0 e0] [Y1 Y2]]. cbn [slot_ok fst snd lid] in Y2.
    destruct Y2 as (_ & Y4 & Y5 & _ & Y7). unfold Ysub in Y5. cbn [lid] in Y5. subst c0 e0.
    unfold Ysub in Y7. apply shape_unfold in Y7. destruct Y7 as [hy0 (C1 & C2 & C3 & C4 & C5)]. rewrite Hy in C1. injection C1 as <-.
    destruct (Forall2_nth_r _ _ _ _ _ C5 Hj) as [ce2 [Z1 Z2]]. cbn [slot_ok] in Z2. injection Z2 as <-.
    destruct (Forall2_nth_r _ _ _ _ _ C5 Hiy) as [[c0 e0] [V1 V2]]. cbn [slot_ok fst snd lid] in V2.
    destruct V2 as (_ & V4 & V5 & _ & V7). unfold B in V5. cbn [lid] in V5. subst c0 e0.
    assert (HsubX : In (Some (xm, e1), X) (lsubs None lt)).
    { eapply lsubs_trans; [exact Hsub|]. unfold subP. eapply lsubs_child. eapply nth_error_In. exact Hkp. }
    assert (HsubY : In (Some (x, ec), Ysub) (lsubs None lt)).
    { eapply lsubs_trans; [exact HsubX|]. unfold X. eapply lsubs_child. eapply nth_error_In. exact Hk. }
    assert (HsubB : In (Some (y, e2), B) (lsubs None lt)).
    { eapply lsubs_trans; [exact HsubY|]. unfold Ysub. eapply lsubs_child. eapply nth_error_In. exact Hiy. }
    destruct (lwf_sub_lsubs lt None _ _ (or_introl (rep_wf _ _ R)) HsubX) as [E|WX]; [discriminate|].
    destruct (lwf_sub_lsubs lt None _ _ (or_introl (rep_wf _ _ R)) HsubY) as [E|WY]; [discriminate|].
    destruct (lwf_sub_lsubs lt None _ _ (or_introl (rep_wf _ _ R)) HsubB) as [E|WB]; [discriminate|].
    unfold X in WX. apply lwf_sub_iff in WX. destruct WX as [WX1 WX2].
    unfold Ysub in WY. apply lwf_sub_iff in WY. destruct WY as [WY1 WY2].
    repeat split; assumption.
  Qed.

  Lemma NU_shape_new : shape true h' pP newP.
  Proof.
    destruct NU_facts as (LP & NP & CP & FP & Lx & Nx & Cx & F1 & Ly & Ny & Cy & F2 & Kkp & Kix & Kk & Kj & Kiy & ShB & Pne & WB & U1 & U2 & W1 & W2).
    destruct NU_sep as (Nps & SibP & Sib1 & Sib2 & InBn & InBe & Dxy & Dxxm & Dxym & Dyxm & Dyym & Dxmym & De12 & De1c & De2c).
    unfold B in WB. apply lwf_sub_iff in WB. destruct WB as [WB1 _].
    assert (Lx' : alookup x (hnodes h') = Some (mkHN (hname hx) (hcom hx) (put_nth ix ym (hneigh hx)) (put_nth ix e2 (hbr hx)))).
    { rewrite (nd_nodes _ _ _ _ _ _ _ _ _ _ _ _ _ _ _ _ _ _ _ _ _ D), Nat.eqb_refl. reflexivity. }
    assert (Ly' : alookup y (hnodes h') = Some (mkHN (hname hy) (hcom hy) (put_nth iy xm (hneigh hy)) (put_nth iy e1 (hbr hy)))).
    { rewrite (nd_nodes _ _ _ _ _ _ _ _ _ _ _ _ _ _ _ _ _ _ _ _ _ D). destruct (Nat.eqb_spec y x); [congruence|]. rewrite Nat.eqb_refl. reflexivity. }
    assert (Lxm' : alookup xm (hnodes h') = Some (mkHN (hname hxm) (hcom hxm) (put_nth kp y (hneigh hxm)) (hbr hxm))).
    { rewrite (nd_nodes _ _ _ _ _ _ _ _ _ _ _ _ _ _ _ _ _ _ _ _ _ D). destruct (Nat.eqb_spec xm x); [congruence|]. destruct (Nat.eqb_spec xm y); [congruence|].
      rewrite Nat.eqb_refl. reflexivity. }
    assert (Lym' : alookup ym (hnodes h') = Some (mkHN (hname hym) (hcom hym) (put_nth jy x (hneigh hym)) (hbr hym))).
    { rewrite (nd_nodes _ _ _ _ _ _ _ _ _ _ _ _ _ _ _ _ _ _ _ _ _ D). destruct (Nat.eqb_spec ym x); [congruence|]. destruct (Nat.eqb_spec ym y); [congruence|].
      destruct (Nat.eqb_spec ym xm); [congruence|]. rewrite Nat.eqb_refl. reflexivity. }
    assert (Le1' : alookup e1 (hedges h') = Some (mkHE xm y ei1)).
    { rewrite (nd_edges _ _ _ _ _ _ _ _ _ _ _ _ _ _ _ _ _ _ _ _ _ D), Nat.eqb_refl. unfold move_end. cbn.
      destruct (Nat.eqb_spec xm x); [congruence|reflexivity]. }
    assert (Le2' : alookup e2 (hedges h') = Some (mkHE x ym ei2)).
    { rewrite (nd_edges _ _ _ _ _ _ _ _ _ _ _ _ _ _ _ _ _ _ _ _ _ D). destruct (Nat.eqb_spec e2 e1); [congruence|]. rewrite Nat.eqb_refl.
      unfold move_end. cbn. rewrite Nat.eqb_refl. reflexivity. }
    assert (Lec' : alookup ec (hedges h') = Some (mkHE y x eic)).
    { rewrite (nd_edges _ _ _ _ _ _ _ _ _ _ _ _ _ _ _ _ _ _ _ _ _ D). destruct (Nat.eqb_spec ec e1); [congruence|]. destruct (Nat.eqb_spec ec e2); [congruence|].
      rewrite Nat.eqb_refl. reflexivity. }
    assert (ShB' : shape true h' (Some (x, e2)) B).
    { unfold B in *. eapply (reparent_shape h h' y x e2 ym nmB cmB slB hym jy ShB WB1 Hym Jy); [|exact Lym'| |].
      - intros z Hz. apply (InBn z Hz).
      - intros z Hz. split; [apply NU_same_n; apply InBn; exact Hz|apply (InBn z Hz)].
      - intros z Hz. apply NU_same_e. apply InBe. exact Hz. }
    assert (LenX : ix < length (slots_of hx) /\ k < length (slots_of hx)) by (split; apply nth_error_Some; congruence).
    assert (LenY : iy < length (slots_of hy) /\ j < length (slots_of hy)) by (split; apply nth_error_Some; congruence).
    assert (LenP : kp < length (slots_of hxm)) by (apply nth_error_Some; congruence).
    assert (Nixk : ix <> k) by (intros E0; rewrite E0, Hk in Hix; discriminate).
    assert (Njiy : j <> iy) by (intros E0; rewrite E0, Hiy in Hj; discriminate).
    (* x, now below y *)
    assert (ShX' : shape true h' (Some (y, ec)) Xnew).
    { unfold Xnew. apply shape_unfold. eexists. split; [exact Lx'|]. cbn [hname hcom hneigh hbr].
      split; [exact Nx|]. split; [exact Cx|]. split; [unfold put_nth; rewrite !length_set_nth; exact Lx|].
      unfold put_nth. rewrite combine_set_nth_both. change (combine (hneigh hx) (hbr hx)) with (slots_of hx).
      apply Forall2_pointwise; [rewrite !length_set_nth; exact (Forall2_length' _ _ _ F1)|].
      intros i ce s Hi Hs. destruct (Nat.eq_dec i k) as [->|Hik].
      - rewrite nth_error_set_nth_ne in Hi by (intros E0; apply Nixk; symmetry; exact E0). rewrite Kk in Hi. injection Hi as <-.
        rewrite nth_error_set_nth_eq in Hs by (rewrite length_set_nth, <- (Forall2_length' _ _ _ F1); apply LenX). injection Hs as <-. reflexivity.
      - rewrite nth_error_set_nth_ne in Hs by exact Hik. destruct (Nat.eq_dec i ix) as [->|Hiix].
        + rewrite nth_error_set_nth_eq in Hi by apply LenX. injection Hi as <-.
          rewrite nth_error_set_nth_eq in Hs by (rewrite <- (Forall2_length' _ _ _ F1); apply LenX). injection Hs as <-.
          cbn [slot_ok fst snd lid B]. split; [intros [= E0 _]; congruence|]. split; [reflexivity|]. split; [reflexivity|].
          split; [eexists; split; [exact Le2'|]; repeat split|]. exact ShB'.
        + rewrite nth_error_set_nth_ne in Hi by exact Hiix. rewrite nth_error_set_nth_ne in Hs by exact Hiix.
          destruct (Forall2_nth _ _ _ _ _ F1 Hi) as [s' [Hs' Hok]]. rewrite Hs in Hs'. injection Hs' as <-.
          destruct s as [[[a b] T]|].
          * destruct (Sib1 i a b T Hs Hik) as [V1 V2]. eapply NU_untouched; [exact V1|exact V2| |exact Hok].
            intros E0. injection E0 as E0. destruct (V1 (fst ce)) as (_ & Vy & _); [cbn in Hok; destruct Hok as (_ & _ & L & _); rewrite <- L; apply lid_in_lids|].
            apply Vy. rewrite <- E0. reflexivity.
          * exfalso. eapply Hiix. eapply (lnup_le1_nth sl1); [lia|exact Hs|exact Hix]. }
    (* y, now below xm *)
    assert (ShY' : shape true h' (Some (xm, e1)) Ynew).
    { unfold Ynew. apply shape_unfold. eexists. split; [exact Ly'|]. cbn [hname hcom hneigh hbr].
      split; [exact Ny|]. split; [exact Cy|]. split; [unfold put_nth; rewrite !length_set_nth; exact Ly|].
      unfold put_nth. rewrite combine_set_nth_both. change (combine (hneigh hy) (hbr hy)) with (slots_of hy).
      apply Forall2_pointwise; [rewrite !length_set_nth; exact (Forall2_length' _ _ _ F2)|].
      intros i ce s Hi Hs. destruct (Nat.eq_dec i j) as [->|Hij].
      - rewrite nth_error_set_nth_ne in Hi by exact Njiy. rewrite Kj in Hi. injection Hi as <-.
        rewrite nth_error_set_nth_eq in Hs by (rewrite length_set_nth, <- (Forall2_length' _ _ _ F2); apply LenY). injection Hs as <-.
        cbn [slot_ok fst snd lid Xnew]. split; [intros [= E0 _]; congruence|]. split; [reflexivity|]. split; [reflexivity|].
        split; [eexists; split; [exact Lec'|]; repeat split|]. exact ShX'.
      - rewrite nth_error_set_nth_ne in Hs by exact Hij. destruct (Nat.eq_dec i iy) as [->|Hiiy].
        + rewrite nth_error_set_nth_eq in Hi by apply LenY. injection Hi as <-.
          rewrite nth_error_set_nth_eq in Hs by (rewrite <- (Forall2_length' _ _ _ F2); apply LenY). injection Hs as <-. reflexivity.
        + rewrite nth_error_set_nth_ne in Hi by exact Hiiy. rewrite nth_error_set_nth_ne in Hs by exact Hiiy.
          destruct (Forall2_nth _ _ _ _ _ F2 Hi) as [s' [Hs' Hok]]. rewrite Hs in Hs'. injection Hs' as <-.
          destruct s as [[[a b] T]|].
          * destruct (Sib2 i a b T Hs Hiiy) as [V1 V2]. eapply NU_untouched; [exact V1|exact V2| |exact Hok].
            intros E0. injection E0 as E0. destruct (V1 (fst ce)) as (_ & _ & Vxm & _); [cbn in Hok; destruct Hok as (_ & _ & L & _); rewrite <- L; apply lid_in_lids|].
            apply Vxm. rewrite <- E0. reflexivity.
          * exfalso. eapply Hij. eapply (lnup_le1_nth sl2); [lia|exact Hs|exact Hj]. }
    (* the parent *)
    unfold newP. apply shape_unfold. eexists. split; [exact Lxm'|]. cbn [hname hcom hneigh hbr].
    split; [exact NP|]. split; [exact CP|]. split; [unfold put_nth; rewrite length_set_nth; exact LP|].
    unfold put_nth. rewrite (combine_set_nth_l _ _ e1).
    2:{ rewrite <- (slots_of_snd hxm LP), nth_error_map, Kkp. reflexivity. }
    change (combine (hneigh hxm) (hbr hxm)) with (slots_of hxm).
    apply Forall2_pointwise; [rewrite !length_set_nth; exact (Forall2_length' _ _ _ FP)|].
    intros i ce s Hi Hs. destruct (Nat.eq_dec i kp) as [->|Hikp].
    - rewrite nth_error_set_nth_eq in Hi by exact LenP. injection Hi as <-.
      rewrite nth_error_set_nth_eq in Hs by (rewrite <- (Forall2_length' _ _ _ FP); exact LenP). injection Hs as <-.
      cbn [slot_ok fst snd lid Ynew]. split.
      { destruct pP as [[pp pe]|]; [|discriminate]. intros [= E0 _]. subst pp.
        destruct (Rep_parent h lt R y pe subP Hsub) as (hm & ed0 & _ & _ & _ & _ & _ & P6). apply P6.
        unfold subP. rewrite lids_eq. right. eapply in_sids; [eapply nth_error_In; exact Hkp|]. unfold X. rewrite lids_eq. right.
        eapply in_sids; [eapply nth_error_In; exact Hk|left; reflexivity]. }
      split; [reflexivity|]. split; [reflexivity|]. split; [eexists; split; [exact Le1'|]; repeat split|]. exact ShY'.
    - rewrite nth_error_set_nth_ne in Hi by exact Hikp. rewrite nth_error_set_nth_ne in Hs by exact Hikp.
      destruct (Forall2_nth _ _ _ _ _ FP Hi) as [s' [Hs' Hok]]. rewrite Hs in Hs'. injection Hs' as <-.
      destruct s as [[[a b] T]|]; [|exact Hok].
      destruct (SibP i a b T Hs Hikp) as [V1 V2]. eapply NU_untouched; [exact V1|exact V2| |exact Hok]. cbn in Hok. apply Hok.
  Qed.

  Lemma NU_perm : Permutation (lids newP) (lids subP) /\ Permutation (leids newP) (leids subP).
  Proof.
    assert (Nixk : ix <> k) by (intros E0; rewrite E0, Hk in Hix; discriminate).
    assert (Njiy : j <> iy) by (intros E0; rewrite E0, Hiy in Hj; discriminate).
    assert (Hj' : nth_error (set_nth iy None sl2) j = Some None) by (rewrite nth_error_set_nth_ne by exact Njiy; exact Hj).
    assert (Hk' : nth_error (set_nth ix (Some (e2, ei2, B)) sl1) k = Some (Some (ec, eic, Ysub))).
    { rewrite nth_error_set_nth_ne by (intros E0; apply Nixk; symmetry; exact E0). exact Hk. }
    unfold newP, subP. rewrite !lids_eq, !leids_eq.
    fold (sids (set_nth kp (Some (e1, ei1, Ynew)) slP)) (sids slP) (seids (set_nth kp (Some (e1, ei1, Ynew)) slP)) (seids slP). split.
    - apply perm_skip.
      pose proof (flat_set_nth_swap (fun s : lslot => match s with Some (_, _, ch) => lids ch | None => [] end) _ kp _ (Some (e1, ei1, Ynew)) Hkp) as P1.
      pose proof (flat_set_nth_swap (fun s : lslot => match s with Some (_, _, ch) => lids ch | None => [] end) _ j _ (Some (ec, eic, Xnew)) Hj') as P2.
      pose proof (flat_set_nth_swap (fun s : lslot => match s with Some (_, _, ch) => lids ch | None => [] end) _ iy _ None Hiy) as P3.
      pose proof (flat_set_nth_swap (fun s : lslot => match s with Some (_, _, ch) => lids ch | None => [] end) _ k _ None Hk') as P4.
      pose proof (flat_set_nth_swap (fun s : lslot => match s with Some (_, _, ch) => lids ch | None => [] end) _ ix _ (Some (e2, ei2, B)) Hix) as P5.
      unfold X, Ynew in P1. rewrite !lids_eq in P1. unfold Xnew in P2. rewrite lids_eq in P2. unfold Ysub in P4. rewrite lids_eq in P4.
      cbn [app] in P2, P3, P4, P5.
      eapply (perm_nni_up _ _ _ _ _ _ _ _ (lids B) x y); [exact P1|exact P2|exact P3|exact P4|exact P5].
    - pose proof (flat_set_nth_swap (fun s : lslot => match s with Some (e, _, ch) => e :: leids ch | None => [] end) _ kp _ (Some (e1, ei1, Ynew)) Hkp) as P1.
      pose proof (flat_set_nth_swap (fun s : lslot => match s with Some (e, _, ch) => e :: leids ch | None => [] end) _ j _ (Some (ec, eic, Xnew)) Hj') as P2.
      pose proof (flat_set_nth_swap (fun s : lslot => match s with Some (e, _, ch) => e :: leids ch | None => [] end) _ iy _ None Hiy) as P3.
      pose proof (flat_set_nth_swap (fun s : lslot => match s with Some (e, _, ch) => e :: leids ch | None => [] end) _ k _ None Hk') as P4.
      pose proof (flat_set_nth_swap (fun s : lslot => match s with Some (e, _, ch) => e :: leids ch | None => [] end) _ ix _ (Some (e2, ei2, B)) Hix) as P5.
      unfold X, Ynew in P1. rewrite !leids_eq in P1. unfold Xnew in P2. rewrite leids_eq in P2. unfold Ysub in P4. rewrite leids_eq in P4.
      cbn [app] in P2, P3, P4, P5.
      eapply (perm_nni_up_e _ _ _ _ _ _ _ _ (e2 :: leids B) e1 ec); [exact P1|exact P2|exact P3|exact P4|exact P5].
  Qed.

  Theorem NU_Rep : Rep h' (lreplace xm newP lt).
  Proof.
    destruct NU_perm as [PN PE].
    destruct NU_sep as (Nps & SibP & Sib1 & Sib2 & InBn & InBe & Dxy & Dxxm & Dxym & Dyxm & Dyym & Dxmym & De12 & De1c & De2c).
    destruct NU_facts as (LP & NP & CP & FP & Lx & Nx & Cx & F1 & Ly & Ny & Cy & F2 & Kkp & Kix & Kk & Kj & Kiy & ShB & Pne & WB & U1 & U2 & W1 & W2).
    assert (NdS : NoDup (lids subP)) by (eapply lsubs_NoDup; [exact (rep_nd _ _ R)|exact Hsub]).
    pose proof (shape_lsubs _ _ _ _ _ _ (rep_shape _ _ R) Hsub) as Shsub.
    pose proof (shape_NoDup_leids _ _ _ Shsub NdS) as NedS.
    assert (SubN : forall z, In z (lids subP) -> In z (lids lt)) by (intros z Hz; eapply lsubs_sub_lids; eassumption).
    assert (SubE : forall z, In z (leids subP) -> In z (leids lt)) by (intros z Hz; eapply lsubs_sub_leids; eassumption).
    assert (InXs : forall z, In z (lids X) -> In z (lids subP)) by (intros z Hz; unfold subP; eapply in_lids_child; [eapply nth_error_In; exact Hkp|exact Hz]).
    assert (InYs : forall z, In z (lids Ysub) -> In z (lids subP)) by (intros z Hz; apply InXs; unfold X; eapply in_lids_child; [eapply nth_error_In; exact Hk|exact Hz]).
    assert (Inxm : In xm (lids subP)) by (left; reflexivity).
    assert (Inx : In x (lids subP)) by (apply InXs; left; reflexivity).
    assert (Iny : In y (lids subP)) by (apply InYs; left; reflexivity).
    assert (Inym : In ym (lids subP)) by (apply InYs; unfold Ysub; eapply in_lids_child; [eapply nth_error_In; exact Hiy|left; reflexivity]).
    assert (Ine1 : In e1 (leids subP)) by (unfold subP; eapply in_leids_here; eapply nth_error_In; exact Hkp).
    assert (InXe : forall z, In z (leids X) -> In z (leids subP)) by (intros z Hz; unfold subP; eapply in_leids_child; [eapply nth_error_In; exact Hkp|exact Hz]).
    assert (Inec : In ec (leids subP)) by (apply InXe; unfold X; eapply in_leids_here; eapply nth_error_In; exact Hk).
    assert (Ine2 : In e2 (leids subP)).
    { apply InXe. unfold X. eapply in_leids_child; [eapply nth_error_In; exact Hk|]. unfold Ysub. eapply in_leids_here. eapply nth_error_In. exact Hiy. }
    assert (DomN : forall z, alookup z (hnodes h') <> None <-> alookup z (hnodes h) <> None).
    { intros z. rewrite (nd_nodes _ _ _ _ _ _ _ _ _ _ _ _ _ _ _ _ _ _ _ _ _ D).
      destruct (Nat.eqb_spec z x) as [->|]; [split; intros _; congruence|].
      destruct (Nat.eqb_spec z y) as [->|]; [split; intros _; congruence|].
      destruct (Nat.eqb_spec z xm) as [->|]; [split; intros _; congruence|].
      destruct (Nat.eqb_spec z ym) as [->|]; [split; intros _; congruence|]. reflexivity. }
    assert (DomE : forall z, alookup z (hedges h') <> None <-> alookup z (hedges h) <> None).
    { intros z. rewrite (nd_edges _ _ _ _ _ _ _ _ _ _ _ _ _ _ _ _ _ _ _ _ _ D).
      destruct (Nat.eqb_spec z e1) as [->|]; [split; intros _; [apply (rep_edges _ _ R), SubE, Ine1|discriminate]|].
      destruct (Nat.eqb_spec z e2) as [->|]; [split; intros _; [apply (rep_edges _ _ R), SubE, Ine2|discriminate]|].
      destruct (Nat.eqb_spec z ec) as [->|]; [split; intros _; [apply (rep_edges _ _ R), SubE, Inec|discriminate]|]. reflexivity. }
    assert (InN : forall z, In z (lids newP) <-> In z (lids subP)).
    { intros z. split; intros Hz; [eapply Permutation_in; [exact PN|exact Hz]|eapply Permutation_in; [symmetry; exact PN|exact Hz]]. }
    assert (InE : forall z, In z (leids newP) <-> In z (leids subP)).
    { intros z. split; intros Hz; [eapply Permutation_in; [exact PE|exact Hz]|eapply Permutation_in; [symmetry; exact PE|exact Hz]]. }
    assert (Nixk : ix <> k) by (intros E0; rewrite E0, Hk in Hix; discriminate).
    assert (Njiy : j <> iy) by (intros E0; rewrite E0, Hiy in Hj; discriminate).
    assert (WXnew : lwf_sub Xnew).
    { unfold Xnew. apply lwf_sub_iff. split.
      - rewrite (lnup_set_nth_some_to_none _ k ec eic Ysub) by (rewrite nth_error_set_nth_ne by (intros E0; apply Nixk; symmetry; exact E0); exact Hk).
        rewrite (lnup_set_nth_none_to_some sl1 ix _ _ _ Hix), U1. reflexivity.
      - intros a b c Hin. apply in_set_nth in Hin. destruct Hin as [E0|Hin]; [discriminate|].
        apply in_set_nth in Hin. destruct Hin as [[= -> -> ->]|Hin]; [exact WB|exact (W1 _ _ _ Hin)]. }
    assert (WYnew : lwf_sub Ynew).
    { unfold Ynew. apply lwf_sub_iff. split.
      - rewrite (lnup_set_nth_none_to_some _ j) by (rewrite nth_error_set_nth_ne by exact Njiy; exact Hj).
        rewrite (lnup_set_nth_some_to_none sl2 iy _ _ _ Hiy), U2. reflexivity.
      - intros a b c Hin. apply in_set_nth in Hin. destruct Hin as [[= -> -> ->]|Hin]; [exact WXnew|].
        apply in_set_nth in Hin. destruct Hin as [E0|Hin]; [discriminate|exact (W2 _ _ _ Hin)]. }
    assert (Wnew : forall (U : nat), lnup slP = U -> (forall a b c, In (Some (a, b, c)) slP -> lwf_sub c) ->
              lnup (set_nth kp (Some (e1, ei1, Ynew)) slP) = U /\
              forall a b c, In (Some (a, b, c)) (set_nth kp (Some (e1, ei1, Ynew)) slP) -> lwf_sub c).
    { intros U HU K1. split.
      - rewrite (lnup_set_nth_some slP kp _ _ _ _ Hkp); [exact HU|eauto].
      - intros a b c Hin. apply in_set_nth in Hin. destruct Hin as [[= -> -> ->]|Hin]; [exact WYnew|exact (K1 _ _ _ Hin)]. }
    apply (Rep_replace h h' lt xm pP subP newP R Hsub eq_refl eq_refl).
    - exact NU_shape_new.
    - intros z Hz Hz'. apply NU_same_n. repeat split; intros ->; contradiction.
    - intros z Hz Hz'. apply NU_same_e. repeat split; intros ->; contradiction.
    - intros W. unfold subP in W. apply lwf_iff in W. destruct W as [X1 X2]. unfold newP. apply lwf_iff. exact (Wnew 0 X1 X2).
    - intros W. unfold subP in W. apply lwf_sub_iff in W. destruct W as [X1 X2]. unfold newP. apply lwf_sub_iff. exact (Wnew 1 X1 X2).
    - exact (nd_root _ _ _ _ _ _ _ _ _ _ _ _ _ _ _ _ _ _ _ _ _ D).
    - eapply Permutation_NoDup; [symmetry; exact PN|exact NdS].
    - intros z Hz. left. apply InN. exact Hz.
    - eapply Permutation_NoDup; [symmetry; exact PE|exact NedS].
    - intros z Hz. left. apply InE. exact Hz.
    - intros z. rewrite DomN, InN, <- (rep_nodes _ _ R z). split.
      + intros Hz. destruct (in_dec Nat.eq_dec z (lids subP)); tauto.
      + intros [Hz|[Hz _]]; [apply SubN; exact Hz|exact Hz].
    - intros z. rewrite DomE, InE, <- (rep_edges _ _ R z). split.
      + intros Hz. destruct (in_dec Nat.eq_dec z (leids subP)); tauto.
      + intros [Hz|[Hz _]]; [apply SubE; exact Hz|exact Hz].
    - intros z Hz. rewrite (nd_nextn _ _ _ _ _ _ _ _ _ _ _ _ _ _ _ _ _ _ _ _ _ D). apply (rep_fn _ _ R), (rep_nodes _ _ R), DomN. exact Hz.
    - intros z Hz. rewrite (nd_nexte _ _ _ _ _ _ _ _ _ _ _ _ _ _ _ _ _ _ _ _ _ D). apply (rep_fe _ _ R), (rep_edges _ _ R), DomE. exact Hz.
  Qed.
End Up.
