(** C17, the canonical keys of Spec/Obs.v ([canon_side], [usplits]) seen as sets:
    the keys of [usplits] are the keys of the branches without repetition; the size of a
    key; two leaf sets with the same key agree as bipartitions. *)
From Coq Require Import String ZArith QArith Bool Arith Lia List Permutation Sorted.
From GT Require Import Base.UTree Spec.Obs Spec.Unrooted Spec.NNISpec Model.Reroot
     Proofs.RerootBase Proofs.Splits Proofs.USplits Proofs.NNISets.
Import ListNotations.
Local Close Scope Q_scope.

(** * keys of [foldsplits]: first occurrences *)
Definition key := list string.
Definition kmem (k : key) (acc : list key) : bool := existsb (sset_eqb k) acc.
Definition dd_step (acc : list key) (k : key) : list key := if kmem k acc then acc else acc ++ [k].
Definition dd (acc : list key) (ks : list key) : list key := fold_left dd_step ks acc.

Lemma sside_add_split s acc : map sside (add_split s acc) = dd_step (map sside acc) (sside s).
Proof.
  unfold dd_step, kmem. induction acc as [|x r IH]; cbn [add_split map existsb]; [reflexivity|].
  unfold split_key_eqb. destruct (sset_eqb (sside s) (sside x)) eqn:E; cbn [orb map].
  - reflexivity.
  - rewrite IH. destruct (existsb (sset_eqb (sside s)) (map sside r)); reflexivity.
Qed.

Lemma sside_foldsplits l : map sside (foldsplits l) = dd [] (map sside l).
Proof.
  unfold foldsplits, dd. change (@nil key) with (map sside []). generalize (@nil split) as acc.
  induction l as [|s l IH]; intros acc; cbn [fold_left map]; auto.
  rewrite IH, sside_add_split. reflexivity.
Qed.

Lemma kmem_In k acc : kmem k acc = true <-> In k acc.
Proof.
  unfold kmem. rewrite existsb_exists. split.
  - intros (x & Hx & E). apply sset_eqb_eq in E. now subst.
  - intros H. exists k. split; auto. now apply sset_eqb_eq.
Qed.

Lemma kmem_filter (P : key -> bool) k acc : P k = true -> kmem k (filter P acc) = kmem k acc.
Proof.
  intros HP. destruct (kmem k acc) eqn:E.
  - apply kmem_In. apply filter_In. split; auto. now apply kmem_In.
  - destruct (kmem k (filter P acc)) eqn:E'; auto.
    apply kmem_In, filter_In in E'. destruct E' as [E' _]. apply kmem_In in E'. congruence.
Qed.

Lemma filter_dd_step (P : key -> bool) acc k :
  filter P (dd_step acc k) = if P k then dd_step (filter P acc) k else filter P acc.
Proof.
  unfold dd_step. destruct (P k) eqn:HP.
  - rewrite (kmem_filter P k acc HP). destruct (kmem k acc); auto.
    rewrite filter_app. cbn [filter]. now rewrite HP.
  - destruct (kmem k acc); auto. rewrite filter_app. cbn [filter]. rewrite HP. apply app_nil_r.
Qed.

Lemma filter_dd (P : key -> bool) ks : forall acc,
  filter P (dd acc ks) = dd (filter P acc) (filter P ks).
Proof.
  unfold dd. induction ks as [|k ks IH]; intros acc; cbn [fold_left filter]; auto.
  rewrite IH, filter_dd_step. destruct (P k); reflexivity.
Qed.

Lemma dd_nodup ks : forall acc, NoDup (acc ++ ks) -> dd acc ks = acc ++ ks.
Proof.
  unfold dd. induction ks as [|k ks IH]; intros acc ND; cbn [fold_left]; [now rewrite app_nil_r|].
  unfold dd_step. destruct (kmem k acc) eqn:E.
  - exfalso. apply kmem_In in E. eapply NoDup_app_disjoint; eauto. now left.
  - rewrite IH; rewrite <- app_assoc; auto.
Qed.

Lemma dd_repeat k ks acc : In k acc -> dd acc (k :: ks) = dd acc ks.
Proof. intros H. unfold dd. cbn [fold_left]. unfold dd_step. apply kmem_In in H. now rewrite H. Qed.

Lemma dd_app acc a b : dd acc (a ++ b) = dd (dd acc a) b.
Proof. apply fold_left_app. Qed.

(** one key twice, everything else once *)
Lemma dd_one_repeat k X Y : NoDup (k :: X ++ Y) -> dd [] (k :: X ++ k :: Y) = k :: X ++ Y.
Proof.
  intros ND. change (k :: X ++ k :: Y) with ([k] ++ X ++ k :: Y).
  rewrite dd_app. rewrite (dd_nodup [k] []) by (cbn; constructor; [intros []|constructor]).
  cbn [app]. rewrite dd_app.
  assert (ND1 : NoDup ([k] ++ X)).
  { cbn. inversion ND; subst. constructor; [rewrite in_app_iff in *; tauto|]. eapply NoDup_app_l; eauto. }
  rewrite (dd_nodup X [k] ND1). rewrite dd_repeat by (now left).
  rewrite dd_nodup; [reflexivity|]. exact ND.
Qed.

(** the count only looks at the keys *)
Definition pkey (n : nat) (k : key) : bool := Nat.leb 2 (length k) && Nat.leb 2 (n - length k).

Lemma filter_map_length {A B} (f : A -> B) (P : B -> bool) l :
  length (filter (fun x => P (f x)) l) = length (filter P (map f l)).
Proof. induction l as [|a l IH]; cbn; auto. destruct (P (f a)); cbn; now rewrite IH. Qed.

Lemma inner_split_count_keys t :
  inner_split_count t =
  length (filter (pkey (length (tipset t))) (dd [] (map sside (branch_splits (tipset t) t)))).
Proof.
  unfold inner_split_count. rewrite usplits_eq, <- sside_foldsplits.
  apply (filter_map_length sside (pkey (length (tipset t)))).
Qed.

(** * sizes *)
Lemma sorted_nodup l : StronglySorted slt l -> NoDup l.
Proof.
  induction 1 as [|a l _ IH F]; constructor; auto.
  intros H. rewrite Forall_forall in F. exact (slt_irrefl a (F a H)).
Qed.

Lemma sset_nodup l : NoDup (sset l).
Proof. apply sorted_nodup, sset_sorted. Qed.

Lemma sset_length l : NoDup l -> length (sset l) = length l.
Proof.
  intros ND. apply Permutation_length, NoDup_Permutation; auto using sset_nodup.
  intros x. apply sset_In.
Qed.

Lemma filter_split_length {A} (f : A -> bool) l :
  length (filter f l) + length (filter (fun x => negb (f x)) l) = length l.
Proof. induction l as [|a l IH]; cbn; auto. destruct (f a); cbn; lia. Qed.

Lemma sdiff_In a A B : In a (sdiff A B) <-> In a A /\ ~ In a B.
Proof.
  unfold sdiff. rewrite filter_In, negb_true_iff. split; intros [H1 H2]; split; auto.
  - intros H. apply smem_In in H. congruence.
  - destruct (smem a B) eqn:E; auto. apply smem_In in E. contradiction.
Qed.

Lemma sdiff_length all S :
  NoDup all -> NoDup S -> incl S all -> length (sdiff all S) = length all - length S.
Proof.
  intros NA NS HI. pose proof (filter_split_length (fun x => smem x S) all) as H.
  assert (E : length (filter (fun x => smem x S) all) = length S).
  { apply Permutation_length, NoDup_Permutation; auto using NoDup_filter.
    intros x. rewrite filter_In, smem_In. split; [tauto|]. intros Hx. split; auto. }
  unfold sdiff. cbn beta in H. lia.
Qed.

Section Keys.
  Variable L : list string.
  Hypothesis ND : NoDup L.
  Let all := sset L.

  Definition keyof (X : list string) : key := canon_side all (sset X).

  Lemma all_length : length all = length L.
  Proof. now apply sset_length. Qed.

  Lemma keyof_length X :
    NoDup X -> incl X L ->
    length (keyof X) = length X \/ length (keyof X) = length L - length X.
  Proof.
    intros NX HI. unfold keyof, canon_side. destruct all as [|m r] eqn:E; [left; now apply sset_length|].
    destruct (smem m (sset X)); [right|left; now apply sset_length].
    rewrite <- E, sdiff_length; auto using sset_nodup.
    - now rewrite all_length, sset_length.
    - apply sset_nodup.
    - intros x Hx. apply sset_In. apply (proj1 (sset_In _ _)) in Hx. auto.
  Qed.

  Lemma pkey_keyof X :
    NoDup X -> incl X L ->
    pkey (length all) (keyof X) = Nat.leb 2 (length X) && Nat.leb 2 (length L - length X).
  Proof.
    intros NX HI. unfold pkey. rewrite all_length.
    pose proof (NoDup_incl_length NX HI) as LE.
    destruct (keyof_length X NX HI) as [-> | ->]; auto.
    replace (length L - (length L - length X)) with (length X) by lia. apply andb_comm.
  Qed.

  (** same key: same bipartition *)
  Lemma keyof_agree X Y :
    incl X L -> incl Y L -> keyof X = keyof Y -> agree L X Y.
  Proof.
    intros HX HY. unfold keyof, canon_side. destruct all as [|m r] eqn:E.
    - intros _. left. intros a Ha. exfalso. apply sset_In in Ha. fold all in Ha. rewrite E in Ha. destruct Ha.
    - rewrite <- E. destruct (smem m (sset X)) eqn:MX, (smem m (sset Y)) eqn:MY; intros K.
      + left. intros a Ha.
        assert (Q : ~ In a X <-> ~ In a Y).
        { assert (Q1 : In a (sdiff all (sset X)) <-> In a (sdiff all (sset Y))) by now rewrite K.
          rewrite !sdiff_In, !sset_In in Q1. unfold all in Q1. rewrite !sset_In in Q1. tauto. }
        destruct (in_dec string_dec a X), (in_dec string_dec a Y); tauto.
      + right. intros a Ha.
        assert (Q1 : In a (sdiff all (sset X)) <-> In a (sset Y)) by now rewrite K.
        rewrite sdiff_In, !sset_In in Q1. unfold all in Q1. rewrite sset_In in Q1.
        destruct (in_dec string_dec a X); tauto.
      + right. intros a Ha.
        assert (Q1 : In a (sset X) <-> In a (sdiff all (sset Y))) by now rewrite K.
        rewrite sdiff_In, !sset_In in Q1. unfold all in Q1. rewrite sset_In in Q1.
        destruct (in_dec string_dec a Y); tauto.
      + left. intros a _. rewrite <- (sset_In X), <- (sset_In Y), K. tauto.
  Qed.
End Keys.
