(** C06, refuted for negative branch lengths (known finding C06-negative-length-clamped-on-merge):
    removeTip gives the branch that replaces the two branches around a node left with two
    neighbours the length max(0,l1) + max(0,l2) ([merge_edge], as the Go code).  The clamp is there
    for the absent sentinel -1 but reads every negative length as 0.  The path-length theorems of
    C06 are stated through [len0] (Spec/Obs.v), which reads every negative length as 0 too; with
    every present length read as itself ([len_raw], Spec/Induced.v) they are false. *)
From Coq Require Import String ZArith QArith Bool Arith List.
From GT Require Import Base.UTree Spec.Obs Spec.Induced Model.Reroot Model.Prune.
Import ListNotations.
Local Close Scope Q_scope.
Local Open Scope string_scope.

Definition ng_tip (n : string) (l : Q) : slot := Some (mkE l nilv nilv [], UNode n [] [None]).
(** (t0:15/32,(t2,t1:-17/16):97/32,t3:-105/64) *)
Definition ng_wit : utree :=
  UNode "" [] [ng_tip "t0" (15#32);
               Some (mkE (97#32) nilv nilv [], UNode "" [] [None; ng_tip "t2" nilv; ng_tip "t1" (-17#16)]);
               ng_tip "t3" (-105#64)]%Q.

Definition dist_is (w : einfo -> Q) (t : utree) (a b : string) (d : Q) : bool :=
  match dist_opt w t a b with Some x => qeqb x d | None => false end.

Lemma path_lengths_negative_refuted :
  wf ng_wit = true /\ no_single ng_wit = true /\ degree ng_wit = 3 /\
  exists t', remove_tips false ["t2"] ng_wit = Ok t' /\
             (* read as themselves: 15/32 + 97/32 - 17/16 = 39/16 before, 15/32 + 97/32 = 7/2 after *)
             dist_is len_raw ng_wit "t0" "t1" (39#16)%Q = true /\ dist_is len_raw t' "t0" "t1" (7#2)%Q = true /\
             induced_dists_raw ng_wit t' ["t0"; "t1"; "t3"] = false /\
             (* through [len0] nothing is seen: 7/2 before and after *)
             dist_is len0 ng_wit "t0" "t1" (7#2)%Q = true /\ dist_is len0 t' "t0" "t1" (7#2)%Q = true /\
             induced_dists ng_wit t' ["t0"; "t1"; "t3"] = true.
Proof.
  split; [reflexivity|]. split; [reflexivity|]. split; [reflexivity|].
  eexists. split; [vm_compute; reflexivity|]. vm_compute. repeat split; reflexivity.
Qed.
