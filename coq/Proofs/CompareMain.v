(** C08, part 3: the record computed by the model of Compare is the set algebra of the splits. *)
From Coq Require Import String NArith ZArith QArith Bool Arith Lia List Permutation Sorted.
From GT Require Import Base.UTree Spec.Obs Spec.CompareSpec Model.Reroot Model.Index Model.HashMap Model.EdgeIndex
     Model.Compare Proofs.IndexBase Proofs.IndexTree Proofs.IndexSplit Proofs.Splits Proofs.USplits
     Proofs.CompareBase Proofs.CompareTree.
Import ListNotations.
Local Close Scope Q_scope.
Local Arguments leaves : simpl never.

(** the branches of the tree define pairwise distinct bipartitions *)
Definition dupfree (t : utree) : Prop := NoDup (map sside (branch_splits (tipset t) t)).
(** a branch is a tip branch exactly when its bipartition is trivial *)
Definition tipflags (t : utree) : Prop :=
  forall s, In s (branch_splits (tipset t) t) -> stip s = negb (nontrivial_split (length (tipset t)) s).

Lemma usplits_dupfree t : dupfree t -> usplits t = branch_splits (tipset t) t.
Proof. intros H. rewrite usplits_eq. now apply foldsplits_nodup. Qed.

(** * tip branches *)
Lemma leaves_no_kids n cm sl : kids_of sl = [] -> leaves (UNode n cm sl) = [n].
Proof. unfold leaves. intros ->. reflexivity. Qed.

Lemma leaves_child_incl n cm sl e c : In (Some (e, c)) sl -> incl (leaves c) (leaves (UNode n cm sl)).
Proof.
  intros Hin x Hx. rewrite leaves_node by (eapply kids_of_in; eauto).
  apply in_flat_map. exists (Some (e, c)). auto.
Qed.

Lemma tip_split_inv all u s :
  In s (branch_splits all u) -> stip s = true ->
  exists x, In x (leaves u) /\ sside s = canon_side all (sset [x]).
Proof.
  induction u as [n cm sl IH] using utree_ind'. simpl. intros Hin Ht.
  apply in_flat_map in Hin. destruct Hin as ([[e c]|] & Hs & Hin); [|contradiction].
  destruct Hin as [<-|Hin].
  - simpl in Ht. destruct c as [n' cm' sl']. unfold kids in Ht. simpl in Ht.
    destruct (kids_of sl') eqn:K; [|discriminate].
    exists n'. split.
    + apply (leaves_child_incl n cm sl e (UNode n' cm' sl') Hs). rewrite leaves_no_kids by auto. now left.
    + simpl. now rewrite leaves_no_kids.
  - rewrite Forall_forall in IH. specialize (IH _ Hs). simpl in IH.
    destruct (IH Hin Ht) as (x & Hx & E). exists x. split; auto.
    apply (leaves_child_incl n cm sl e c Hs). exact Hx.
Qed.

Lemma tip_split_exists all u x :
  In x (leaves u) -> kids u <> [] ->
  exists s, In s (branch_splits all u) /\ stip s = true /\ sside s = canon_side all (sset [x]).
Proof.
  induction u as [n cm sl IH] using utree_ind'. intros Hx Hk. unfold kids in Hk. simpl in Hk.
  rewrite leaves_node in Hx by auto. apply in_flat_map in Hx.
  destruct Hx as ([[e c]|] & Hs & Hx); [|contradiction]. simpl in Hx.
  rewrite Forall_forall in IH. specialize (IH _ Hs). simpl in IH.
  destruct c as [n' cm' sl'].
  destruct (kids_of sl') eqn:K.
  - rewrite leaves_no_kids in Hx by auto. destruct Hx as [<-|[]].
    exists (mkSplit (canon_side all (sset (leaves (UNode n' cm' sl')))) (elen e) (esup e) true).
    split; [|split].
    + simpl. apply in_flat_map. exists (Some (e, UNode n' cm' sl')). split; auto. left.
      unfold kids. simpl. rewrite K. reflexivity.
    + reflexivity.
    + simpl. now rewrite leaves_no_kids.
  - destruct (IH Hx) as (s & Hin & Ht & E).
    { unfold kids. simpl. rewrite K. discriminate. }
    exists s. split; auto. simpl. apply in_flat_map. exists (Some (e, UNode n' cm' sl')). split; auto. now right.
Qed.

(** * set algebra on the two split lists *)
Lemma forallb_filter {A} (f g : A -> bool) l :
  forallb f (filter g l) = forallb (fun x => negb (g x) || f x) l.
Proof. induction l; simpl; auto. destruct (g a); simpl; auto. now rewrite IHl. Qed.

Lemma forallb_ext_in {A} (f g : A -> bool) l : (forall x, In x l -> f x = g x) -> forallb f l = forallb g l.
Proof.
  induction l; simpl; intros; auto. rewrite (H a) by now left. f_equal. apply IHl. intros. apply H. now right.
Qed.

Section Algebra.
  Variable tips : bool.
  Variables B1 B2 : list split.
  Let S1 := filter (counted tips) B1.
  Let S2 := filter (counted tips) B2.
  Hypothesis ND1 : NoDup (map sside B1).
  Hypothesis ND2 : NoDup (map sside B2).
  (** a counted branch of the compared tree is "ok" for the code exactly when its split is a
      counted split of the reference *)
  Hypothesis PW : forall s, In s B2 -> counted tips s = true ->
                            (stip s || has_key B1 s) = has_key S1 s.

  Lemma common_eq :
    filter (fun s => counted tips s && (stip s || has_key B1 s)) B2 = in_both S2 S1.
  Proof.
    unfold in_both, S2. rewrite filter_filter. apply filter_ext_in'.
    intros s Hs. destruct (counted tips s) eqn:C; simpl; auto.
  Qed.

  Lemma same_eq :
    forallb (fun s => stip s || has_key B1 s) B2 = Nat.eqb (length (only_in S2 S1)) 0.
  Proof.
    unfold only_in. rewrite <- forallb_filter_nil. unfold S2. rewrite forallb_filter.
    apply forallb_ext_in. intros s Hs. destruct (counted tips s) eqn:C; simpl.
    - now apply PW.
    - unfold counted in C. apply orb_false_iff in C. destruct C as [_ C].
      apply negb_false_iff in C. now rewrite C.
  Qed.

  Lemma NoDup_S1 : NoDup (map sside S1).
  Proof. now apply NoDup_map_filter. Qed.
  Lemma NoDup_S2 : NoDup (map sside S2).
  Proof. now apply NoDup_map_filter. Qed.
End Algebra.

Lemma Forall2_mono {A B} (R R' : A -> B -> Prop) l l' :
  (forall a b, R a b -> R' a b) -> Forall2 R l l' -> Forall2 R' l l'.
Proof. induction 2; constructor; auto. Qed.

Lemma good_kids t : good t -> kids t <> [].
Proof.
  intros (W & Dg & _). destruct t as [n cm sl]. apply wf_inv in W. destruct W as [Hup _].
  unfold kids, degree in *. simpl in *.
  pose proof (length_slots sl) as HL. rewrite Hup in HL.
  intro Z. rewrite Z in HL. simpl in HL. lia.
Qed.

(** * the main statement *)
Theorem compare_counts tips t1 t2 :
  good t1 -> good t2 -> Permutation (leaves t1) (leaves t2) ->
  dupfree t1 -> dupfree t2 -> tipflags t1 -> tipflags t2 ->
  compare tips false t1 t2 =
  Some (Ok (mkBS (Z.of_nat (c_only1 (spec_counts tips t1 t2)))
                 (Z.of_nat (c_only2 (spec_counts tips t1 t2)))
                 (Z.of_nat (c_both (spec_counts tips t1 t2)))
                 (spec_identical tips t1 t2) EmptyString)).
Proof.
  intros G1 G2 P D1 D2 F1 F2.
  assert (ET : tipset t2 = tipset t1) by (unfold tipset; apply sset_perm; now symmetry).
  set (B1 := branch_splits (tipset t1) t1).
  set (B2 := branch_splits (tipset t2) t2).
  set (K1 := branch_keys 0 t1). set (K2 := branch_keys 1 t2).
  set (KS := fun k s => key_of t1 k s \/ key_of t2 k s).
  assert (KS_eqb : forall k s k' s', KS k s -> KS k' s' -> ekey_eqb k k' = split_key_eqb s s').
  { intros k s k' s' [H|H] [H'|H'].
    - apply (key_of_eqb t1 t1); auto.
    - apply (key_of_eqb t1 t2); auto.
    - apply (key_of_eqb t2 t1); auto. now symmetry.
    - apply (key_of_eqb t2 t2); auto. }
  assert (KS_tip : forall k s, KS k s -> key_tip k = stip s).
  { intros k s [H|H]; [apply (key_of_tip t1)|apply (key_of_tip t2)]; auto. }
  assert (FK1 : Forall2 KS K1 B1).
  { eapply Forall2_mono; [|apply branch_keys_splits; auto]. intros; left; auto. }
  assert (FK2 : Forall2 KS K2 B2).
  { eapply Forall2_mono; [|apply branch_keys_splits; auto]. intros; right; auto. }
  unfold compare, compare_gen.
  rewrite (reinit_good 0 t1 G1), (reinit_good 1 t2 G2).
  fold K1 K2.
  destruct (build_index_keys KS KS_eqb K1 B1 FK1 D1) as (a & Ea & Ma).
  rewrite Ea. rewrite fold_cmp_noident.
  rewrite (compare_tip_indexes_same t1 t2 G1 G2 P).
  (* the three counts, on the split lists *)
  set (S1 := filter (counted tips) B1). set (S2 := filter (counted tips) B2).
  assert (Ecnt : forall k s, KS k s -> cnt tips k = counted tips s).
  { intros k s H. unfold cnt, counted. now rewrite (KS_tip _ _ H). }
  assert (Eok : forall k s, KS k s -> okf a k = (stip s || has_key B1 s)).
  { intros k s H. unfold okf. rewrite (KS_tip _ _ H). f_equal.
    rewrite assoc_value_existsb, Ma. apply (existsb_transport KS KS_eqb K1 B1 k s FK1 H). }
  destruct (count_transport KS (cnt tips) (counted tips) K1 B1 FK1 Ecnt) as [T1 _].
  destruct (count_transport KS (cnt tips) (counted tips) K2 B2 FK2 Ecnt) as [T2 _].
  destruct (count_transport KS (fun k => cnt tips k && okf a k)
                            (fun s => counted tips s && (stip s || has_key B1 s)) K2 B2 FK2) as [T3 _].
  { intros k s H. now rewrite (Ecnt _ _ H), (Eok _ _ H). }
  destruct (count_transport KS (okf a) (fun s => stip s || has_key B1 s) K2 B2 FK2 Eok) as [_ T4].
  fold (cnt tips) in *.
  replace (count_if (fun k : ekey => tips || negb (key_tip k)) K1) with (count_if (cnt tips) K1) by reflexivity.
  rewrite T1, T2, T3, T4. fold S1 S2.
  (* pointwise: ok for the code = counted split of the reference *)
  assert (PW : forall s, In s B2 -> counted tips s = true -> (stip s || has_key B1 s) = has_key S1 s).
  { intros s Hs C. destruct (stip s) eqn:Ts; simpl.
    - (* a tip branch: the same taxon hangs on a tip branch of the reference *)
      symmetry. apply has_key_In.
      destruct (tip_split_inv _ _ _ Hs Ts) as (x & Hx & E).
      assert (Hx1 : In x (leaves t1)) by (apply (Permutation_in _ (Permutation_sym P)); auto).
      destruct (tip_split_exists (tipset t1) t1 x Hx1) as (s' & Hs' & Ts' & E').
      { now apply good_kids. }
      exists s'. split.
      + apply filter_In. split; auto. unfold counted in *. rewrite Ts in C. rewrite Ts'.
        simpl in *. now rewrite orb_false_r in *.
      + rewrite E', E, ET. reflexivity.
    - (* an inner branch *)
      destruct (has_key B1 s) eqn:H1.
      + symmetry. apply has_key_In in H1. destruct H1 as (s' & Hs' & E). apply has_key_In.
        exists s'. split; auto. apply filter_In. split; auto.
        unfold counted. rewrite (F1 s' Hs'). unfold nontrivial_split. rewrite E.
        pose proof (F2 s Hs) as Fs. rewrite Ts in Fs. unfold nontrivial_split in Fs. rewrite ET in Fs.
        rewrite <- Fs. simpl. apply orb_true_r.
      + symmetry. destruct (has_key S1 s) eqn:H2; auto.
        apply has_key_In in H2. destruct H2 as (s' & Hs' & E). apply filter_In in Hs'.
        assert (has_key B1 s = true) by (apply has_key_In; exists s'; tauto). congruence. }
  rewrite (common_eq tips B1 B2 PW), (same_eq tips B1 B2 PW). fold S1 S2.
  (* arithmetic *)
  unfold spec_identical, spec_counts, split_list. cbn [c_only1 c_only2 c_both].
  rewrite (usplits_dupfree t1 D1), (usplits_dupfree t2 D2). fold B1 B2 S1 S2.
  assert (N1 : NoDup (map sside S1)) by (apply NoDup_S1; auto).
  assert (N2 : NoDup (map sside S2)) by (apply NoDup_S2; auto).
  pose proof (in_both_sym S1 S2 N1 N2) as SYM.
  pose proof (only_in_length S1 S2) as O1. pose proof (only_in_length S2 S1) as O2.
  pose proof (in_both_le S1 S2) as L1. pose proof (in_both_le S2 S1) as L2.
  rewrite !Z.add_0_l. rewrite andb_true_l.
  f_equal. f_equal.
  assert (E1 : (Z.of_nat (length S1) - Z.of_nat (length (in_both S2 S1)))%Z = Z.of_nat (length (only_in S1 S2))) by lia.
  assert (E2 : (Z.of_nat (length S2) - Z.of_nat (length (in_both S2 S1)))%Z = Z.of_nat (length (only_in S2 S1))) by lia.
  rewrite E1, E2, <- SYM.
  assert (E3 : Z.eqb (Z.of_nat (length S1)) (Z.of_nat (length (in_both S1 S2))) = Nat.eqb (length (only_in S1 S2)) 0).
  { destruct (Nat.eqb_spec (length (only_in S1 S2)) 0); [apply Z.eqb_eq|apply Z.eqb_neq]; lia. }
  rewrite SYM in E3 at 1. rewrite SYM. rewrite E3. rewrite <- SYM.
  destruct (Nat.eqb (length (only_in S2 S1)) 0), (Nat.eqb (length (only_in S1 S2)) 0); reflexivity.
Qed.
