(** C05: the one input excluded by the hypothesis [rooted t -> root_has_inner_child t] of the
    outgroup / midpoint theorems is the rooted two-tip tree (a:x,b:y); this file says what the
    two functions do on it, so that the domain (well-formed trees whose root has at least two
    neighbours) has no hole:
    - RerootOutGroup refuses it (fewer than 3 tips);
    - RerootMidPoint gives (a:l/2,b:l/2) with l = x + y (absent counted 0), or one of its two
      refusals when no length is present / when l = 0. *)
From Coq Require Import String ZArith QArith Bool Arith Lia Lqa List Permutation.
From GT Require Import Base.UTree Spec.Obs Model.Reroot Model.Outgroup Spec.Unrooted
     Proofs.RerootBase Proofs.Reroot Proofs.Unroot Proofs.Splits Proofs.USplits.
Import ListNotations.
Local Close Scope Q_scope.
Local Arguments n_up : simpl never.

Definition two_tip (t : utree) : Prop :=
  exists n0 c0 e1 n1 c1 e2 n2 c2,
    t = UNode n0 c0 [Some (e1, UNode n1 c1 [None]); Some (e2, UNode n2 c2 [None])].

Lemma tip_slots sl : n_up sl = 1 -> length sl = 1 -> sl = [None].
Proof.
  intros U L. destruct sl as [|s [|s2 r]]; simpl in L; try lia.
  destruct s; [unfold n_up in U; simpl in U; lia | reflexivity].
Qed.

(** the domain splits into the case of the theorems and the two-tip tree *)
Theorem domain_cases t :
  wf t = true -> 2 <= degree t ->
  (rooted t = true -> root_has_inner_child t = true) \/ two_tip t.
Proof.
  intros Hwf Hd. destruct (rooted t) eqn:Hr; [|left; discriminate].
  destruct (root_has_inner_child t) eqn:Hi; [left; auto|right].
  destruct (rooted_shape t Hwf Hr) as (n0&c0&e1&n1&c1&sl1&e2&n2&c2&sl2&->).
  destruct (rooted_facts n0 c0 e1 n1 c1 sl1 e2 n2 c2 sl2 Hwf) as [U1 [U2 _]].
  unfold root_has_inner_child, kids, is_tip, degree in Hi. simpl in Hi. rewrite orb_false_r in Hi.
  apply orb_false_iff in Hi as [H1 H2]. apply negb_false_iff, Nat.eqb_eq in H1, H2.
  rewrite (tip_slots sl1 U1 H1), (tip_slots sl2 U2 H2). repeat eexists.
Qed.

Theorem outgroup_two_tip remove strict t names :
  two_tip t ->
  reroot_outgroup remove strict t names = Err "cannot reroot on an outgroup a tree with less than 3 tips"%string.
Proof. intros (n0&c0&e1&n1&c1&e2&n2&c2&->). reflexivity. Qed.

(** midpoint: the branch b -- a left by UnRoot carries [merged_edge e1 e2 true true], whose
    length is [merge_len] of the two lengths *)
Theorem midpoint_two_tip n0 c0 e1 n1 c1 e2 n2 c2 :
  let t := UNode n0 c0 [Some (e1, UNode n1 c1 [None]); Some (e2, UNode n2 c2 [None])] in
  let l := merge_len (elen e1) (elen e2) in
  let cut := (l - qhalf l)%Q in
  reroot_midpoint t =
  if qeqb l nilv then Err "some branches have no length"%string
  else if qltb 0 l
       then Ok (UNode "" [] [Some (mkE (l - cut)%Q nilv nilv [], UNode n1 c1 [None]);
                             Some (mkE cut nilv nilv [], UNode n2 c2 [None])])
       else Err "cannot reroot at midpoint: all tip to tip paths have a null length"%string.
Proof.
  cbv zeta. unfold reroot_midpoint. rewrite unroot_eq. cbv zeta. simpl length. simpl Nat.eqb. cbv iota.
  simpl drop_up. simpl app. unfold degree. simpl uslots. simpl length. simpl Nat.ltb. cbv iota.
  unfold midpoint_two. rewrite (elen_merged_merge_len e1 e2 true true).
  unfold merged_edge. cbn [esup negb andb]. reflexivity.
Qed.

(** on success: two halves, the same two tips, the same distance *)
Corollary midpoint_two_tip_ok n0 c0 e1 n1 c1 e2 n2 c2 t' :
  let t := UNode n0 c0 [Some (e1, UNode n1 c1 [None]); Some (e2, UNode n2 c2 [None])] in
  let l := merge_len (elen e1) (elen e2) in
  reroot_midpoint t = Ok t' ->
  (0 < l)%Q /\
  exists ea eb, t' = UNode "" [] [Some (ea, UNode n1 c1 [None]); Some (eb, UNode n2 c2 [None])] /\
                (elen ea == l * (1 # 2))%Q /\ (elen eb == l * (1 # 2))%Q /\
                wf t' = true /\ leaves t' = leaves t /\
                (len0 ea + len0 eb == len0 e1 + len0 e2)%Q.
Proof.
  cbv zeta. rewrite midpoint_two_tip. cbv zeta.
  set (l := merge_len (elen e1) (elen e2)).
  destruct (qeqb l nilv) eqn:En; [discriminate|].
  destruct (qltb 0 l) eqn:El; [|discriminate]. intros H. inversion H; subst t'. clear H.
  assert (Hl : (0 < l)%Q).
  { unfold qltb in El. apply negb_true_iff in El. apply Qnot_le_lt. intros L. apply Qle_bool_iff in L. congruence. }
  split; [exact Hl|]. eexists. eexists. split; [reflexivity|]. cbn [elen]. unfold qhalf.
  split; [ring|]. split; [ring|]. split; [reflexivity|]. split; [reflexivity|].
  assert (E : (l == len0 e1 + len0 e2)%Q).
  { unfold l. rewrite merge_len_eq.
    destruct (qeqb (elen e1) nilv && qeqb (elen e2) nilv) eqn:Eb.
    - exfalso. unfold l in En. rewrite merge_len_eq, Eb in En. vm_compute in En. discriminate.
    - reflexivity. }
  unfold len0 at 1 2. cbn [elen].
  assert (H1 : Qle_bool 0 (l - (l - l * (1 # 2))) = true) by (apply Qle_bool_iff; lra).
  assert (H2 : Qle_bool 0 (l - l * (1 # 2)) = true) by (apply Qle_bool_iff; lra).
  rewrite H1, H2, <- E. ring.
Qed.
