(** Heap model: operations that only permute the arrays of a node.  [Good] is preserved when
    hneigh and hbr are permuted TOGETHER (RotateNeighbors, sortNeighbors); permuting only one
    of them breaks it (negative example in Properties/C03Heap.v). *)
From Coq Require Import String ZArith QArith Bool Arith Lia Permutation List.
From GT Require Import Base.UTree Model.Reroot Model.Heap Model.HeapEdit Proofs.Enum Proofs.Reorder Proofs.HeapBase Proofs.HeapRep
     Proofs.HeapGood Proofs.HeapGoodRep Proofs.HeapGraft.
Import ListNotations.
Local Close Scope Q_scope.

(** * the generic statement *)
Theorem Good_permute h n hn hn' : Good h -> alookup n (hnodes h) = Some hn ->
  length (hneigh hn') = length (hbr hn') -> Permutation (slots_of hn) (slots_of hn') ->
  Good (set_node h n hn').
Proof.
  intros G Hn Hl P. set (h' := set_node h n hn').
  assert (HS : forall x m y, has_slot h' x m y <-> has_slot h x m y).
  { intros x m y. unfold has_slot, h'. cbn [set_node hnodes]. rewrite alookup_aupd.
    destruct (Nat.eqb_spec x n) as [->|_]; [|reflexivity]. split.
    - intros [hx [E Hin]]. injection E as <-. exists hn. split; [exact Hn|]. eapply Permutation_in; [symmetry; exact P|exact Hin].
    - intros [hx [E Hin]]. rewrite Hn in E. injection E as <-. exists hn'. split; [reflexivity|]. eapply Permutation_in; [exact P|exact Hin]. }
  assert (HN : forall x, alookup x (hnodes h') <> None <-> alookup x (hnodes h) <> None).
  { intros x. unfold h'. cbn. rewrite alookup_aupd. destruct (Nat.eqb_spec x n) as [->|_]; [|reflexivity].
    split; intros _; [congruence|discriminate]. }
  constructor.
  - apply HN. exact (g_root _ G).
  - intros x m y Hs. apply HS in Hs. destruct (g_slot_exists _ G x m y Hs) as [A B]. split; [apply HN; exact A|exact B].
  - intros x Hx. apply (g_fresh_n _ G). apply HN. exact Hx.
  - exact (g_fresh_e _ G).
  - intros x hx Hx. unfold h' in Hx. cbn in Hx. rewrite alookup_aupd in Hx. destruct (Nat.eqb_spec x n) as [->|_].
    + injection Hx as <-. exact Hl.
    + exact (g_len _ G x hx Hx).
  - intros x m y Hs. apply HS. apply (g_sym _ G). apply HS. exact Hs.
  - intros x m y ed Hs Hy. apply HS in Hs. exact (g_ends _ G x m y ed Hs Hy).
  - intros y ed Hy. apply HS. exact (g_edge_listed _ G y ed Hy).
  - intros x hx Hx. unfold h' in Hx. cbn in Hx. rewrite alookup_aupd in Hx. destruct (Nat.eqb_spec x n) as [->|_].
    + injection Hx as <-. rewrite <- (slots_of_fst hn' Hl). eapply Permutation_NoDup; [apply Permutation_map; exact P|].
      rewrite (slots_of_fst hn (g_len _ G n hn Hn)). exact (g_nodup _ G n hn Hn).
    + exact (g_nodup _ G x hx Hx).
  - exact (g_rank _ G).
  - intros x m1 e1 ed1 m2 e2 ed2 S1 S2. apply HS in S1, S2. exact (g_one_parent _ G x m1 e1 ed1 m2 e2 ed2 S1 S2).
  - intros x Hx. apply HN in Hx. pose proof (g_reach _ G x Hx) as Hr. clear Hx.
    induction Hr as [|a b y ed _ IH Hs Hy Hlft]; [exact (reach_root h')|].
    eapply (reach_step h' a b y ed); [exact IH|apply HS; exact Hs|exact Hy|exact Hlft].
Qed.

(** * RotateNeighbors *)
Lemma swap_nth_combine {A B} i j (l : list A) (m : list B) : length l = length m ->
  combine (swap_nth i j l) (swap_nth i j m) = swap_nth i j (combine l m).
Proof.
  intros Hl. unfold swap_nth.
  assert (Hc : forall k, nth_error (combine l m) k =
                         match nth_error l k, nth_error m k with Some a, Some b => Some (a, b) | _, _ => None end).
  { clear i j. revert m Hl. induction l as [|a l IH]; intros [|b m] Hl k; cbn in Hl; try lia.
    - destruct k; reflexivity.
    - destruct k as [|k]; [reflexivity|]. cbn. apply IH. lia. }
  rewrite !Hc.
  assert (Hs : forall k, nth_error l k = None <-> nth_error m k = None) by (intros k; rewrite !nth_error_None, Hl; reflexivity).
  destruct (nth_error l i) as [a|] eqn:Ea.
  2:{ assert (X : nth_error m i = None) by (apply Hs; exact Ea). rewrite X. reflexivity. }
  destruct (nth_error m i) as [a'|] eqn:Ea'; [|exfalso; apply Hs in Ea'; congruence].
  destruct (nth_error l j) as [b|] eqn:Eb.
  2:{ assert (X : nth_error m j = None) by (apply Hs; exact Eb). rewrite X. reflexivity. }
  destruct (nth_error m j) as [b'|] eqn:Eb'; [|exfalso; apply Hs in Eb'; congruence].
  rewrite !combine_set_nth_both. reflexivity.
Qed.

Lemma swap_nth_length' {A} i j (l : list A) : length (swap_nth i j l) = length l.
Proof. unfold swap_nth. destruct (nth_error l i), (nth_error l j); try reflexivity. rewrite !length_set_nth. reflexivity. Qed.

Lemma rotate_slots_combine {A B} k : forall i cs (l : list A) (m : list B), length l = length m ->
  combine (fst (rotate_slots i k cs l)) (fst (rotate_slots i k cs m)) = fst (rotate_slots i k cs (combine l m)) /\
  length (fst (rotate_slots i k cs l)) = length (fst (rotate_slots i k cs m)).
Proof.
  induction k as [|k IH]; intros i cs l m Hl; cbn [rotate_slots fst]; [split; [reflexivity|exact Hl]|].
  destruct cs as [|j cs]; cbn [fst]; [split; [reflexivity|exact Hl]|].
  rewrite <- swap_nth_combine by exact Hl. apply IH. rewrite !swap_nth_length'. exact Hl.
Qed.

Theorem rotate_neighbors_good h n cs h' : Good h -> rotate_neighbors_heap n cs h = HOk h' -> Good h'.
Proof.
  intros G E. unfold rotate_neighbors_heap, get_node in E. destruct (alookup n (hnodes h)) as [hn|] eqn:Hn; [|discriminate].
  cbn [hbind] in E. destruct (Nat.ltb _ _); [discriminate|]. injection E as <-.
  pose proof (g_len _ G n hn Hn) as Hl.
  destruct (rotate_slots_combine (length (hneigh hn)) 0 cs (hneigh hn) (hbr hn) Hl) as [C1 C2].
  eapply Good_permute; [exact G|exact Hn|exact C2|]. unfold slots_of at 2. cbn [hneigh hbr]. rewrite C1. apply rotate_slots_perm.
Qed.

Theorem rotate_neighbors_total h n cs : Good h -> alookup n (hnodes h) <> None -> exists h', rotate_neighbors_heap n cs h = HOk h'.
Proof.
  intros G Hn. unfold rotate_neighbors_heap, get_node. destruct (alookup n (hnodes h)) as [hn|] eqn:E; [|congruence]. cbn [hbind].
  rewrite (g_len _ G n hn E), Nat.ltb_irrefl. eauto.
Qed.

Theorem rotate_nodes_good : forall ns cs h h', Good h -> rotate_nodes_heap ns cs h = HOk h' -> Good h'.
Proof.
  induction ns as [|n ns IH]; intros cs h h' G E; cbn [rotate_nodes_heap] in E; [injection E as <-; exact G|].
  destruct (get_node h n) as [hn| |]; cbn [hbind] in E; try discriminate.
  destruct (rotate_neighbors_heap n (firstn (length (hneigh hn)) cs) h) as [h1| |] eqn:E1; cbn [hbind] in E; try discriminate.
  eapply IH; [|exact E]. eapply rotate_neighbors_good; eassumption.
Qed.

Theorem rotate_internal_nodes_good cs h h' : Good h -> rotate_internal_nodes_heap cs h = HOk h' -> Good h'.
Proof.
  intros G E. unfold rotate_internal_nodes_heap in E. destruct (tree_nodes h) as [ns| |]; cbn [hbind] in E; try discriminate.
  eapply rotate_nodes_good; eassumption.
Qed.
