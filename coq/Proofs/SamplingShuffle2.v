(** C20, Tree.ShuffleTips end to end: the shuffled tree is the old tree with only the tip names
    changed ([erase_tips] is invariant), and every assignment [q] of the n (distinct) tip names
    to the n tip positions is produced by exactly one in-bounds choice vector, i.e. by exactly
    one of the n! equiprobable elements of the choice space ([perm_space_size]). *)
From Coq Require Import String Bool Arith Lia List Permutation.
From GT Require Import Base.UTree Model.Reroot Model.Rand Model.Sampling Spec.Counting
     Proofs.SamplingBase Proofs.SamplingPerm Proofs.SamplingShuffle.
Import ListNotations.

(** the tree with every tip name erased *)
Definition erase_tips (t : utree) : utree := fst (rename_tips (fun _ => EmptyString) t 0).

(** ** renaming twice = renaming once *)
Definition rgo (f : nat -> string) : list slot -> nat -> list slot * nat :=
  fix go (l : list slot) (i : nat) : list slot * nat :=
    match l with
    | [] => ([], i)
    | None :: r => let '(r', i') := go r i in (None :: r', i')
    | Some (e, ch) :: r =>
      let '(ch', i') := rename_tips f ch i in
      let '(r', i'') := go r i' in
      (Some (e, ch') :: r', i'')
    end.

Lemma rename_tips_eq f n c sl i :
  rename_tips f (UNode n c sl) i =
  let '(n', i1) := if Nat.eqb (length sl) 1 then (f i, S i) else (n, i) in
  let '(sl', i2) := rgo f sl i1 in
  (UNode n' c sl', i2).
Proof. reflexivity. Qed.

Lemma rgo_some f e ch r i :
  rgo f (Some (e, ch) :: r) i =
  let '(ch', i') := rename_tips f ch i in
  let '(r', i'') := rgo f r i' in
  (Some (e, ch') :: r', i'').
Proof. reflexivity. Qed.

Lemma rgo_none f r i :
  rgo f (None :: r) i = let '(r', i') := rgo f r i in (None :: r', i').
Proof. reflexivity. Qed.

Lemma rgo_rgo f g sl :
  Forall (fun s : slot => match s with
                          | Some (_, ch) => forall i k,
                              rename_tips g (fst (rename_tips f ch i)) k = rename_tips g ch k
                          | None => True end) sl ->
  forall j k, length (fst (rgo f sl j)) = length sl /\
              rgo g (fst (rgo f sl j)) k = rgo g sl k.
Proof.
  induction 1 as [|s r Hs Hr IHr]; intros j k.
  - split; reflexivity.
  - destruct s as [[e ch]|].
    + rewrite (rgo_some f). specialize (Hs j k).
      destruct (rename_tips f ch j) as [ch' j1]. cbn [fst] in Hs.
      destruct (rgo f r j1) as [r' j2] eqn:Er. cbn [fst].
      rewrite !(rgo_some g), Hs.
      destruct (rename_tips g ch k) as [ch'' k1].
      specialize (IHr j1 k1). rewrite Er in IHr. cbn [fst] in IHr. destruct IHr as [L Eg].
      rewrite Eg. split; [simpl; now rewrite L|reflexivity].
    + rewrite (rgo_none f).
      destruct (rgo f r j) as [r' j2] eqn:Er. cbn [fst].
      rewrite !(rgo_none g).
      specialize (IHr j k). rewrite Er in IHr. cbn [fst] in IHr. destruct IHr as [L Eg].
      rewrite Eg. split; [simpl; now rewrite L|reflexivity].
Qed.

Lemma rename_rename f g t : forall i k,
  rename_tips g (fst (rename_tips f t i)) k = rename_tips g t k.
Proof.
  induction t as [n c sl IH] using utree_ind'. intros i k.
  pose proof (rgo_rgo f g sl IH) as G.
  rewrite (rename_tips_eq f), (rename_tips_eq g n).
  destruct (Nat.eqb (length sl) 1) eqn:E.
  - specialize (G (S i) (S k)). destruct (rgo f sl (S i)) as [sl' i2]. cbn [fst] in *.
    destruct G as [L Eg]. rewrite rename_tips_eq, L, E, Eg. reflexivity.
  - specialize (G i k). destruct (rgo f sl i) as [sl' i2]. cbn [fst] in *.
    destruct G as [L Eg]. rewrite rename_tips_eq, L, E, Eg. reflexivity.
Qed.

Theorem rename_tips_same_tree f t i : erase_tips (fst (rename_tips f t i)) = erase_tips t.
Proof. unfold erase_tips. now rewrite rename_rename. Qed.

Theorem shuffle_tips_same_tree t cs : erase_tips (shuffle_tips t cs) = erase_tips t.
Proof. unfold shuffle_tips. apply rename_tips_same_tree. Qed.

(** ** positions of names *)
Fixpoint idx (x : string) (l : list string) : nat :=
  match l with
  | [] => 0
  | y :: r => if string_dec x y then 0 else S (idx x r)
  end.

Lemma idx_spec x l d : In x l -> idx x l < length l /\ nth (idx x l) l d = x.
Proof.
  induction l as [|y r IH]; simpl; [tauto|]. intros H.
  destruct (string_dec x y) as [->|N].
  - split; [lia|reflexivity].
  - destruct H as [H|H]; [congruence|]. destruct (IH H). split; [lia|assumption].
Qed.

Lemma idx_self l : NoDup l -> map (fun x => idx x l) l = seq 0 (length l).
Proof.
  induction 1 as [|y r Hy Hr IH]; [reflexivity|].
  cbn [map length seq idx]. destruct (string_dec y y) as [_|N]; [|congruence]. f_equal.
  rewrite <- seq_shift, <- IH, map_map. apply map_ext_in. intros x Hx.
  destruct (string_dec x y) as [->|N]; [contradiction|reflexivity].
Qed.

Lemma map_nth_idx l d q : (forall x, In x q -> In x l) ->
  map (fun p => nth p l d) (map (fun x => idx x l) q) = q.
Proof.
  intros H. rewrite map_map. rewrite <- (map_id q) at 2. apply map_ext_in.
  intros x Hx. now apply idx_spec, H.
Qed.

Lemma map_nth_inj (l : list string) d : NoDup l -> forall a b,
  Forall (fun i => i < length l) a -> Forall (fun i => i < length l) b ->
  map (fun p => nth p l d) a = map (fun p => nth p l d) b -> a = b.
Proof.
  intros ND. induction a as [|x a IH]; intros [|y b] Ha Hb E; simpl in E; try discriminate; auto.
  inversion E. inversion Ha; subst. inversion Hb; subst.
  f_equal; [|now apply IH].
  eapply NoDup_nth; eauto.
Qed.

Lemma perm_seq_lt a n : Permutation a (seq 0 n) -> Forall (fun i => i < n) a.
Proof.
  intros P. apply Forall_forall. intros x Hx. apply (Permutation_in _ P), in_seq in Hx. lia.
Qed.

(** ** exactly one choice vector per assignment *)
Theorem shuffle_tips_assignment t q :
  length (tips t) = length (all_tip_names t) -> NoDup (all_tip_names t) ->
  Permutation q (all_tip_names t) ->
  exists cs, in_bounds cs (shuffle_bounds t) /\ tip_names (shuffle_tips t cs) = q /\
             forall cs', in_bounds cs' (shuffle_bounds t) -> tip_names (shuffle_tips t cs') = q -> cs' = cs.
Proof.
  intros HL ND P. set (names := all_tip_names t) in *.
  set (p := map (fun x => idx x names) q).
  assert (Pp : Permutation p (seq 0 (length names))).
  { rewrite <- (idx_self names ND). unfold p. now apply Permutation_map. }
  destruct (go_perm_surjective _ _ Pp) as [cs [Hb Ep]].
  assert (Eq : map (fun i => nth i names EmptyString) p = q).
  { apply map_nth_idx. intros x Hx. exact (Permutation_in _ P Hx). }
  exists cs. split; [exact Hb|]. split.
  - destruct (shuffle_tips_names t cs HL Hb) as [T _]. fold names in T. now rewrite T, Ep.
  - intros cs' Hb' E'.
    destruct (shuffle_tips_names t cs' HL Hb') as [T' P']. fold names in T', P'.
    apply (go_perm_injective (length names)); try assumption.
    rewrite Ep. apply (map_nth_inj names EmptyString ND).
    + now apply perm_seq_lt.
    + now apply perm_seq_lt.
    + now rewrite <- T', E', Eq.
Qed.

Lemma filter_none {A} (p : A -> bool) l : (forall y, In y l -> p y = false) -> filter p l = [].
Proof.
  induction l as [|y r IH]; intros H; simpl; [reflexivity|].
  rewrite (H y) by now left. apply IH. intros z Hz. apply H. now right.
Qed.

Lemma count_where_unique {A} (p : A -> bool) l x :
  NoDup l -> In x l -> p x = true -> (forall y, In y l -> p y = true -> y = x) ->
  count_where p l = 1.
Proof.
  unfold count_where. induction 1 as [|y r Hy Hr IH]; intros Hx Px U; [destruct Hx|].
  simpl. destruct Hx as [->|Hx].
  - rewrite Px, filter_none; [reflexivity|].
    intros z Hz. destruct (p z) eqn:Pz; [|reflexivity].
    exfalso. apply Hy. rewrite <- (U z); auto. now right.
  - destruct (p y) eqn:Py.
    + exfalso. apply Hy. rewrite (U y); auto. now left.
    + apply IH; auto. intros z Hz. apply U. now right.
Qed.

Theorem shuffle_tips_count t q :
  length (tips t) = length (all_tip_names t) -> NoDup (all_tip_names t) ->
  Permutation q (all_tip_names t) ->
  count_where (fun cs => if list_eq_dec String.string_dec (tip_names (shuffle_tips t cs)) q then true else false)
              (all_choices (shuffle_bounds t)) = 1.
Proof.
  intros HL ND P. destruct (shuffle_tips_assignment t q HL ND P) as [cs [Hb [E U]]].
  apply count_where_unique with (x := cs).
  - apply all_choices_NoDup.
  - now apply all_choices_in.
  - destruct (list_eq_dec string_dec (tip_names (shuffle_tips t cs)) q); [reflexivity|contradiction].
  - intros cs' Hin Hp. apply all_choices_in in Hin.
    destruct (list_eq_dec string_dec (tip_names (shuffle_tips t cs')) q); [|discriminate].
    now apply U.
Qed.

(** ** on well-formed trees with at least two root neighbours Tips() and AllTipNames() agree *)
Lemma wf_sub_eq n c sl :
  wf_sub (UNode n c sl) =
  Nat.eqb (n_up sl) 1 && forallb (fun s : slot => match s with Some (_, c) => wf_sub c | None => true end) sl.
Proof. reflexivity. Qed.

Lemma all_tip_names_eq n c sl :
  all_tip_names (UNode n c sl) =
  if Nat.eqb (length sl) 1 then [n]
  else flat_map (fun s : slot => match s with Some (_, c) => all_tip_names c | None => [] end) sl.
Proof. reflexivity. Qed.

Lemma slots_tip_names sl :
  Forall (fun s : slot => match s with
                          | Some (_, t) => wf_sub t = true -> tip_names t = all_tip_names t
                          | None => True end) sl ->
  forallb (fun s : slot => match s with Some (_, c) => wf_sub c | None => true end) sl = true ->
  map uname (tips_sl sl) =
  flat_map (fun s : slot => match s with Some (_, c) => all_tip_names c | None => [] end) sl.
Proof.
  unfold tips_sl. induction 1 as [|[[e ch]|] l Hs H IH]; cbn [forallb flat_map]; intros F; auto.
  apply andb_true_iff in F as [F1 F2].
  rewrite map_app, IH by auto. unfold tip_names in Hs. now rewrite Hs.
Qed.

Lemma tip_names_sub t : wf_sub t = true -> tip_names t = all_tip_names t.
Proof.
  induction t as [n c sl IH] using utree_ind'. intros H.
  rewrite wf_sub_eq in H. apply andb_true_iff in H as [U F]. apply Nat.eqb_eq in U.
  unfold tip_names. rewrite tips_unfold, all_tip_names_eq, map_app, (slots_tip_names sl IH F).
  destruct (Nat.eqb (length sl) 1) eqn:E; [|reflexivity].
  apply Nat.eqb_eq in E. destruct sl as [|s [|s' r]]; try discriminate.
  destruct s as [[e ch]|]; [discriminate U|reflexivity].
Qed.

Theorem wf_tip_names t : wf t = true -> 2 <= degree t -> tip_names t = all_tip_names t.
Proof.
  destruct t as [n c sl]. intros H Hd.
  change (Nat.eqb (n_up sl) 0 &&
          forallb (fun s : slot => match s with Some (_, c) => wf_sub c | None => true end) sl = true) in H.
  apply andb_true_iff in H as [_ F].
  unfold tip_names. rewrite tips_unfold, all_tip_names_eq, map_app.
  rewrite (slots_tip_names sl); [|apply Forall_forall; intros [[e ch]|] _; auto; apply tip_names_sub|exact F].
  unfold degree in Hd. cbn [uslots] in Hd.
  destruct (Nat.eqb (length sl) 1) eqn:E; [apply Nat.eqb_eq in E; lia|reflexivity].
Qed.

Theorem wf_tips_length t : wf t = true -> 2 <= degree t -> length (tips t) = length (all_tip_names t).
Proof.
  intros H Hd. rewrite <- (wf_tip_names t H Hd). unfold tip_names. now rewrite map_length.
Qed.

(** the two counting statements with the structural hypothesis discharged *)
Corollary shuffle_tips_assignment_wf t q :
  wf t = true -> 2 <= degree t -> NoDup (all_tip_names t) -> Permutation q (all_tip_names t) ->
  exists cs, in_bounds cs (shuffle_bounds t) /\ tip_names (shuffle_tips t cs) = q /\
             forall cs', in_bounds cs' (shuffle_bounds t) -> tip_names (shuffle_tips t cs') = q -> cs' = cs.
Proof. intros H Hd. apply shuffle_tips_assignment. now apply wf_tips_length. Qed.

Corollary shuffle_tips_count_wf t q :
  wf t = true -> 2 <= degree t -> NoDup (all_tip_names t) -> Permutation q (all_tip_names t) ->
  count_where (fun cs => if list_eq_dec String.string_dec (tip_names (shuffle_tips t cs)) q then true else false)
              (all_choices (shuffle_bounds t)) = 1.
Proof. intros H Hd. apply shuffle_tips_count. now apply wf_tips_length. Qed.
