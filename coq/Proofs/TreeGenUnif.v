(** C20 / C16: the unrooted uniform generator RandomUniformBinaryTree, as a function of its
    choice vector (the successive rand.Intn results), is injective into labelled unrooted
    topologies.

    While it is built, the tree is planted at the tip Tip0 (root = Tip0 with one branch), and
    [leaves] does not count the root: the construction looks exactly like the rooted
    enumeration of Proofs/TreeGenTopo2.v, except that the branch is chosen by its creation
    index.  With pairwise distinct indexes, one step has the effect [GR] on the list of
    clades; the final RerootFirst + canonical sides give a key from which the clades of the
    planted tree are recovered (the side of a bipartition that does not contain Tip0). *)
From Coq Require Import String Ascii ZArith QArith Bool Arith Lia List Permutation Sorted.
From GT Require Import Base.UTree Spec.Obs Spec.GenShape Spec.Unrooted Spec.Counting
     Model.Reroot Model.Rand2 Model.TreeGen
     Proofs.RerootBase Proofs.Splits Proofs.SamplingBase Proofs.TreeGenNames
     Proofs.TreeGenGraft Proofs.TreeGenLoop Proofs.TreeGenMain
     Proofs.TreeGenTopo Proofs.TreeGenTopo2.
Import ListNotations.
Local Close Scope Q_scope.
Local Open Scope list_scope.
Local Arguments n_up : simpl never.

(** * Branches with their creation index and their clade *)
Definition idclades_sl (f : utree -> list (nat * list string)) (sl : list slot) :=
  flat_map (fun s => match s with
                     | Some (e, c) => (eid e, sset (leaves c)) :: f c
                     | None => [] end) sl.
Fixpoint idclades (t : utree) : list (nat * list string) :=
  match t with
  | UNode _ _ sl =>
    flat_map (fun s => match s with
                       | Some (e, c) => (eid e, sset (leaves c)) :: idclades c
                       | None => [] end) sl
  end.

Lemma idclades_unfold n c sl : idclades (UNode n c sl) = idclades_sl idclades sl.
Proof. reflexivity. Qed.
Lemma idclades_sl_app f a b : idclades_sl f (a ++ b) = idclades_sl f a ++ idclades_sl f b.
Proof. apply flat_map_app. Qed.

Lemma idclades_fst t : map fst (idclades t) = eids t.
Proof.
  induction t as [n c sl IH] using utree_ind'.
  rewrite idclades_unfold, eids_unfold.
  induction IH as [|[[e ch]|] r Hs Hr IHr]; [reflexivity| |exact IHr].
  rewrite eids_sl_cons_some. unfold idclades_sl in *. simpl flat_map.
  simpl. rewrite map_app, Hs, IHr. reflexivity.
Qed.

Lemma idclades_snd t : map snd (idclades t) = clades t.
Proof.
  induction t as [n c sl IH] using utree_ind'.
  rewrite idclades_unfold, clades_unfold.
  induction IH as [|[[e ch]|] r Hs Hr IHr]; [reflexivity| |exact IHr].
  unfold idclades_sl, slots_clades in *. simpl. rewrite map_app, Hs, IHr. reflexivity.
Qed.

Lemma fst_unique {A B} (l : list (A * B)) k a b :
  NoDup (map fst l) -> In (k, a) l -> In (k, b) l -> a = b.
Proof.
  induction l as [|[k0 a0] l IH]; simpl; intros ND H1 H2; [tauto|].
  inversion ND as [|? ? N ND']; subst.
  destruct H1 as [H1|H1], H2 as [H2|H2]; try congruence.
  - inversion H1; subst. exfalso. apply N. apply in_map_iff. exists (k, b). auto.
  - inversion H2; subst. exfalso. apply N. apply in_map_iff. exists (k, a). auto.
  - auto.
Qed.

Lemma snd_unique {A B} (l : list (A * B)) k k' a :
  NoDup (map snd l) -> In (k, a) l -> In (k', a) l -> k = k'.
Proof.
  induction l as [|[k0 a0] l IH]; simpl; intros ND H1 H2; [tauto|].
  inversion ND as [|? ? N ND']; subst.
  destruct H1 as [H1|H1], H2 as [H2|H2]; try congruence.
  - inversion H1; subst. exfalso. apply N. apply in_map_iff. exists (k', a). auto.
  - inversion H2; subst. exfalso. apply N. apply in_map_iff. exists (k, a). auto.
  - auto.
Qed.

(** * One GraftTipOnEdge, by creation index *)
Lemma leaves_graft_node e1 e2 x ch :
  leaves (graft_node e1 e2 (tip_node x) ch) = x :: leaves ch.
Proof. unfold graft_node, tip_node. simpl. now rewrite app_nil_r. Qed.

Lemma leaves_replace_perm n c pre e ch e' g' post x :
  Permutation (leaves g') (x :: leaves ch) ->
  Permutation (leaves (UNode n c (pre ++ Some (e', g') :: post)))
              (x :: leaves (UNode n c (pre ++ Some (e, ch) :: post))).
Proof.
  intros Hp.
  assert (K : forall e0 t0, kids (UNode n c (pre ++ Some (e0, t0) :: post)) <> []).
  { intros e0 t0. unfold kids. simpl uslots. rewrite kids_of_app. simpl.
    intros E. apply app_eq_nil in E. destruct E; discriminate. }
  rewrite (leaves_kleaves _ (K e' g')), (leaves_kleaves _ (K e ch)).
  unfold kids. simpl uslots. rewrite !kids_of_app. simpl. rewrite !kleaves_app. simpl.
  rewrite Hp. simpl. symmetry. apply Permutation_middle.
Qed.

Lemma graft_id_GR x k e1 e2 t : forall C,
  NoDup (eids t) -> In (k, C) (idclades t) -> ~ In x (leaves t) ->
  GR x (clades t) (clades (graft_id k e1 e2 (tip_node x) t)) C /\
  Permutation (leaves (graft_id k e1 e2 (tip_node x) t)) (x :: leaves t).
Proof.
  induction t as [n c sl IH] using utree_ind'. intros C Hnd Hin Hx.
  assert (Hk : In k (eids_sl sl)).
  { rewrite <- eids_unfold with (n := n) (c := c), <- idclades_fst.
    apply in_map_iff. exists (k, C). auto. }
  rewrite eids_unfold in Hnd.
  destruct (G_one k e1 e2 (tip_node x) sl Hnd Hk) as [pre [e [ch [post [E1 [E2 [N D]]]]]]].
  rewrite graft_id_unfold, E2. subst sl.
  assert (Hfst : NoDup (map fst (idclades (UNode n c (pre ++ Some (e, ch) :: post))))).
  { rewrite idclades_fst, eids_unfold. exact Hnd. }
  assert (Hhere : forall p, In p ((eid e, sset (leaves ch)) :: idclades ch) ->
                            In p (idclades (UNode n c (pre ++ Some (e, ch) :: post)))).
  { intros p Hp. rewrite idclades_unfold, idclades_sl_app. apply in_or_app. right.
    change (idclades_sl idclades (Some (e, ch) :: post))
      with (((eid e, sset (leaves ch)) :: idclades ch) ++ idclades_sl idclades post).
    apply in_or_app. left. exact Hp. }
  rewrite Forall_forall in IH.
  assert (Hs : In (Some (e, ch)) (pre ++ Some (e, ch) :: post))
    by (apply in_or_app; right; left; reflexivity).
  assert (IHch := IH _ Hs).
  simpl in IHch.
  pose proof (clades_replace n c pre e ch post) as ET.
  set (D0 := sset (leaves ch)) in *.
  assert (HxT : forall A, In A (clades (UNode n c (pre ++ Some (e, ch) :: post))) -> ~ In x A).
  { intros A HA H. apply Hx. exact (clades_sub _ A HA x H). }
  assert (HxPR : forall A, In A (slots_clades pre ++ slots_clades post) -> ~ In x A).
  { intros A HA. apply HxT. rewrite ET. rewrite !in_app_iff in *. tauto. }
  assert (HxD : ~ In x D0).
  { apply HxT. rewrite ET. rewrite !in_app_iff. right; left. simpl; auto. }
  assert (HxK : forall A, In A (clades ch) -> ~ In x A).
  { intros A HA. apply HxT. rewrite ET. rewrite !in_app_iff. right; left. simpl; auto. }
  assert (Hxl : ~ In x (leaves ch)).
  { intros H. apply HxD. apply sset_In. exact H. }
  unfold G. destruct D as [D|[D1 D2]].
  - (* the branch of this slot *)
    assert (EC : C = D0).
    { eapply fst_unique; [exact Hfst|exact Hin|]. apply Hhere. left. now rewrite D. }
    subst C. apply Nat.eqb_eq in D. rewrite D. split.
    + rewrite ET, clades_replace, clades_graft_node. fold D0.
      apply GR_wrap; auto. apply GR_head; auto.
    + apply leaves_replace_perm. rewrite leaves_graft_node. reflexivity.
  - (* a branch below this slot *)
    assert (HC' : exists C', In (k, C') (idclades ch)).
    { rewrite <- idclades_fst in D2. apply in_map_iff in D2. destruct D2 as [[k0 C'] [E H]].
      simpl in E. subst k0. eauto. }
    destruct HC' as [C' HC'].
    assert (EC : C = C').
    { eapply fst_unique; [exact Hfst|exact Hin|]. apply Hhere. right. exact HC'. }
    subst C'. apply Nat.eqb_neq in D1. rewrite D1.
    destruct (IHch C N HC' Hxl) as [IG IP]. split.
    + rewrite ET, clades_replace.
      assert (EL : sset (leaves (graft_id k e1 e2 (tip_node x) ch)) = sinsert x D0).
      { rewrite (sset_perm _ _ IP). reflexivity. }
      rewrite EL. apply GR_wrap; auto. apply GR_deep; auto.
      intros y Hy. apply sset_In.
      assert (HCc : In C (clades ch)).
      { rewrite <- idclades_snd. apply in_map_iff. exists (k, C). auto. }
      exact (clades_sub _ _ HCc y Hy).
    + apply leaves_replace_perm. exact IP.
Qed.

(** * [set_lens] changes neither leaves nor clades *)
Definition SLs (f : nat -> Q) (s : slot) : slot :=
  match s with
  | None => None
  | Some (e, ch) => Some (mkE (f (eid e)) (esup e) (epv e) (ecom e), set_lens f ch)
  end.
Definition SLk (f : nat -> Q) (p : einfo * utree) : einfo * utree :=
  (mkE (f (eid (fst p))) (esup (fst p)) (epv (fst p)) (ecom (fst p)), set_lens f (snd p)).

Lemma set_lens_unfold' f n c sl : set_lens f (UNode n c sl) = UNode n c (map (SLs f) sl).
Proof. reflexivity. Qed.
Lemma kids_of_SLs f sl : kids_of (map (SLs f) sl) = map (SLk f) (kids_of sl).
Proof. induction sl as [|[[e ch]|] r IH]; simpl; auto. now rewrite IH. Qed.
Lemma n_up_SLs f sl : n_up (map (SLs f) sl) = n_up sl.
Proof. induction sl as [|[[e ch]|] r IH]; cbn [map SLs]; rewrite ?n_up_cons; auto. Qed.

Lemma set_lens_leaves_clades f t :
  leaves (set_lens f t) = leaves t /\ clades (set_lens f t) = clades t.
Proof.
  induction t as [n c sl IH] using utree_ind'.
  rewrite set_lens_unfold', !leaves_unfold, !clades_unfold, !slots_clades_kids, kids_of_SLs.
  apply Forall_slots_kids in IH.
  assert (E : kleaves (map (SLk f) (kids_of sl)) = kleaves (kids_of sl) /\
              kclades (map (SLk f) (kids_of sl)) = kclades (kids_of sl)).
  { induction IH as [|q r [Hq1 Hq2] Hr [IH1 IH2]]; [split; reflexivity|].
    unfold kleaves, kclades in *. simpl. rewrite Hq1, Hq2, IH1, IH2. split; reflexivity. }
  destruct E as [E1 E2]. split; [|exact E2].
  destruct (kids_of sl) as [|q ks] eqn:Ek; [reflexivity|]. exact E1.
Qed.

(** * The final RerootFirst: the parent slot of the node below Tip0 receives Tip0 *)
Lemma slots_clades_replace_up sl e x : 1 <= n_up sl ->
  forall A, In A (slots_clades (replace_up sl (Some (e, x)))) <->
            In A (sset (leaves x) :: clades x) \/ In A (slots_clades sl).
Proof.
  induction sl as [|[[e' ch]|] r IH]; intros H A.
  - unfold n_up in H. simpl in H. lia.
  - rewrite n_up_cons in H. simpl replace_up.
    change (slots_clades (Some (e', ch) :: replace_up r (Some (e, x))))
      with ((sset (leaves ch) :: clades ch) ++ slots_clades (replace_up r (Some (e, x)))).
    change (slots_clades (Some (e', ch) :: r))
      with ((sset (leaves ch) :: clades ch) ++ slots_clades r).
    rewrite !in_app_iff, IH by (simpl in H; lia). tauto.
  - simpl replace_up.
    change (slots_clades (Some (e, x) :: r)) with ((sset (leaves x) :: clades x) ++ slots_clades r).
    change (slots_clades (None :: r)) with (slots_clades r).
    rewrite in_app_iff. tauto.
Qed.

Lemma leaves_replace_up n c sl e x : 1 <= n_up sl ->
  kids_of sl <> [] ->
  Permutation (leaves (UNode n c (replace_up sl (Some (e, x))))) (leaves x ++ leaves (UNode n c sl)).
Proof.
  intros H Hk. destruct (kids_of_replace_up sl (e, x) H) as [A [B [E1 E2]]].
  rewrite !leaves_unfold, E2.
  destruct (kids_of sl) as [|q ks] eqn:Ek; [congruence|]. rewrite E1.
  destruct (A ++ (e, x) :: B) as [|q' ks'] eqn:E'.
  { apply app_eq_nil in E'. destruct E'; discriminate. }
  rewrite <- E'. rewrite !kleaves_app.
  change (kleaves ((e, x) :: B)) with (leaves x ++ kleaves B).
  apply Permutation_app_swap_app.
Qed.

(** the side of a bipartition that does not contain [r] *)
Definition away (r : string) (all B : list string) : list string :=
  if smem r B then sdiff all B else B.

Lemma canon_side_cases all A : canon_side all A = A \/ canon_side all A = sdiff all A.
Proof. unfold canon_side. destruct all; auto. destruct (smem s A); auto. Qed.

Lemma smem_false r A : ~ In r A -> smem r A = false.
Proof. intros H. destruct (smem r A) eqn:E; auto. apply smem_In in E. contradiction. Qed.

Lemma final_key r n' c' sl' e' :
  n_up sl' = 1 -> kids_of sl' <> [] -> ~ In r (leaves (UNode n' c' sl')) ->
  let c1 := UNode n' c' sl' in
  let t := UNode n' c' (replace_up sl' (Some (e', UNode r [] [None]))) in
  let all := sinsert r (sset (leaves c1)) in
  tipset t = all /\
  forall B, In B (map (away r all) (map (canon_side all) (clades t))) <->
            In B (sset (leaves c1) :: clades c1).
Proof.
  intros Hup Hk Hr c1 t all.
  assert (Hall : tipset t = all).
  { unfold tipset, t. rewrite (sset_perm _ _ (leaves_replace_up n' c' sl' e' _ ltac:(lia) Hk)).
    reflexivity. }
  split; [exact Hall|].
  assert (Sall : StronglySorted slt all) by (apply sinsert_sorted, sset_sorted).
  assert (Rall : In r all) by (apply sinsert_In; auto).
  assert (RL : ~ In r (sset (leaves c1))) by (intros H; apply Hr; apply (proj1 (sset_In _ _)) in H; exact H).
  (* a clade of the planted tree is recovered from either side *)
  assert (P1 : forall A, In A (clades c1) -> away r all (canon_side all A) = A).
  { intros A HA.
    assert (HrA : ~ In r A) by (intros H; apply Hr; exact (clades_sub c1 A HA r H)).
    assert (SA : StronglySorted slt A) by (eapply clades_sorted; eauto).
    assert (IA : incl A all).
    { intros y Hy. apply sinsert_In. right. apply sset_In. exact (clades_sub c1 A HA y Hy). }
    unfold away. destruct (canon_side_cases all A) as [-> | ->].
    - now rewrite (smem_false r A HrA).
    - rewrite (smem_sdiff all r A Rall), (smem_false r A HrA). simpl.
      now apply sdiff_sdiff. }
  (* the branch of Tip0 gives the clade of all other tips *)
  assert (Ediff : sdiff all [r] = sset (leaves c1)).
  { apply sorted_ext.
    - unfold sdiff. now apply filter_sorted.
    - apply sset_sorted.
    - intros y. unfold sdiff. rewrite filter_In. unfold all at 1. rewrite sinsert_In.
      split.
      + intros [[->|Hy] Hn]; auto. exfalso.
        assert (T : smem r [r] = true) by (apply smem_In; simpl; auto).
        rewrite T in Hn. discriminate.
      + intros Hy. split; auto. rewrite smem_false; auto.
        simpl. intros [<-|[]]. contradiction. }
  assert (P2 : away r all (canon_side all [r]) = sset (leaves c1)).
  { assert (T : smem r [r] = true) by (apply smem_In; simpl; auto).
    unfold away. destruct (canon_side_cases all [r]) as [-> | ->].
    - now rewrite T.
    - rewrite (smem_sdiff all r [r] Rall), T. simpl. exact Ediff. }
  intros B. rewrite map_map, in_map_iff. unfold t. rewrite clades_unfold.
  split.
  - intros [A [E HA]]. apply slots_clades_replace_up in HA; [|lia].
    destruct HA as [HA|HA].
    + simpl in HA. destruct HA as [<-|[]]. rewrite P2 in E. subst B. simpl; auto.
    + rewrite <- (clades_unfold n' c' sl') in HA. fold c1 in HA.
      rewrite (P1 A HA) in E. subst B. simpl; auto.
  - intros HB. simpl in HB. destruct HB as [<-|HB].
    + exists [r]. split; [exact P2|]. apply slots_clades_replace_up; [lia|]. left. simpl; auto.
    + exists B. split; [exact (P1 B HB)|]. apply slots_clades_replace_up; [lia|]. right.
      exact HB.
Qed.

(** * The insertion loop *)
Definition tip0 : string := tip_name 0.
Definition init0 : gen_state := init_state false.
(** the choices are within the bounds the loop requests *)
Definition okcs (cs : list nat) : Prop :=
  in_bounds cs (map (unif_bound false) (seq 2 (length cs))).

Record J (i : nat) (st : gen_state) : Prop := mkJ {
  J_inv : inv false i st;
  J_leaves : Permutation (leaves (st_tree st)) (map tip_name (seq 1 (i - 1)))
}.

Lemma J_init : J 2 init0.
Proof.
  split; [apply inv_init|].
  change (leaves (st_tree init0)) with [tip_name 1]. apply Permutation_refl.
Qed.

Lemma tip_fresh i : 1 <= i -> ~ In (tip_name i) (map tip_name (seq 1 (i - 1))).
Proof.
  intros Hi H. apply in_map_iff in H. destruct H as [j [E Hj]].
  apply tip_name_inj in E. subst j. apply in_seq in Hj. lia.
Qed.

(** everything one step needs *)
Lemma step_GR i st k : 2 <= i -> J i st -> k < st_m st ->
  exists C, In (k, C) (idclades (st_tree st)) /\
            GR (tip_name i) (clades (st_tree st)) (clades (st_tree (graft_step st i k))) C /\
            Permutation (leaves (st_tree (graft_step st i k))) (tip_name i :: leaves (st_tree st)) /\
            ~ In (tip_name i) (leaves (st_tree st)).
Proof.
  intros Hi [Hinv Hl] Hk. destruct Hinv as [Hids Hm Htips Hshape Hasg Hlen].
  destruct st as [[t m] asg]. unfold st_tree, st_m, st_asg, graft_step in *. cbn [fst snd] in *.
  assert (Hnd : NoDup (eids t)).
  { eapply Permutation_NoDup; [symmetry; exact Hids|apply seq_NoDup]. }
  assert (Hin : In k (eids t)).
  { eapply Permutation_in; [symmetry; exact Hids|]. apply in_seq. lia. }
  assert (HC : exists C, In (k, C) (idclades t)).
  { rewrite <- idclades_fst in Hin. apply in_map_iff in Hin. destruct Hin as [[k0 C] [E H]].
    simpl in E. subst k0. eauto. }
  destruct HC as [C HC]. exists C.
  assert (Hx : ~ In (tip_name i) (leaves t)).
  { intros H. apply (tip_fresh i); [lia|]. eapply Permutation_in; eauto. }
  destruct (graft_id_GR (tip_name i) k (eI m) (eI (S m)) t C Hnd HC Hx) as [G1 G2].
  split; [exact HC|]. split; [exact G1|]. split; [exact G2|exact Hx].
Qed.

Lemma J_step i st k : 2 <= i -> J i st -> k < st_m st -> J (S i) (graft_step st i k).
Proof.
  intros Hi HJ Hk. destruct (step_GR i st k Hi HJ Hk) as [C [_ [_ [HP _]]]].
  destruct HJ as [Hinv Hl]. split; [now apply inv_step|].
  rewrite HP, Hl. replace (S i - 1) with ((i - 1) + 1) by lia.
  rewrite seq_app, map_app. replace (1 + (i - 1)) with i by lia. simpl.
  apply Permutation_cons_append.
Qed.

Lemma unif_loop_snoc cs k : forall i st,
  unif_loop i (cs ++ [k]) st = graft_step (unif_loop i cs st) (i + length cs) k.
Proof.
  induction cs as [|a cs IH]; intros i st; simpl.
  - now rewrite Nat.add_0_r.
  - rewrite IH. f_equal. lia.
Qed.

Lemma okcs_snoc cs k : okcs (cs ++ [k]) -> okcs cs /\ k < unif_bound false (2 + length cs).
Proof.
  unfold okcs, in_bounds. rewrite app_length. simpl length.
  rewrite seq_app, map_app. simpl seq. simpl map. intros H.
  apply Forall2_app_inv_l in H. destruct H as [l1 [l2 [H1 [H2 E]]]].
  inversion H2 as [|? b ? l2' Hkb H2']; subst. inversion H2'; subst.
  apply app_inj_tail in E. destruct E as [E1 E2]. subst l1 b. split; auto.
Qed.

Lemma loop_J cs : okcs cs -> J (2 + length cs) (unif_loop 2 cs init0).
Proof.
  induction cs as [|k cs IH] using rev_ind; intros H.
  - simpl. apply J_init.
  - apply okcs_snoc in H. destruct H as [H1 H2]. specialize (IH H1).
    rewrite unif_loop_snoc, app_length. simpl length.
    replace (2 + (length cs + 1)) with (S (2 + length cs)) by lia.
    apply J_step; auto; [lia|]. now rewrite (inv_m _ _ _ (J_inv _ _ IH)).
Qed.

(** the planted tree under construction, as in Proofs/TreeGenTopo.v *)
Lemma J_planted i st : 2 <= i -> J i st ->
  exists e c, st_tree st = UNode tip0 [] [Some (e, c)] /\
              wf_sub c = true /\ bin_sub c = true /\
              topo_inv 1 (map tip_name (seq 1 (i - 1))) (st_tree st).
Proof.
  intros Hi [Hinv Hl]. destruct (inv_shape _ _ _ Hinv) as [e [c [Et [W [B _]]]]].
  exists e, c. split; [exact Et|]. split; [exact W|]. split; [exact B|].
  rewrite Et in *. unfold topo_inv, kids. simpl uslots.
  split; [reflexivity|]. split; [reflexivity|]. split; [discriminate|].
  split; [simpl; now rewrite W|]. split; [simpl; now rewrite B|exact Hl].
Qed.

Lemma J_clades_nodup i st : 2 <= i -> J i st -> NoDup (clades (st_tree st)).
Proof.
  intros Hi HJ. destruct (J_planted i st Hi HJ) as [e [c [_ [_ [_ T]]]]].
  destruct T as (_ & _ & K & W & B & P). apply root_nodup; auto.
  eapply Permutation_NoDup; [symmetry; exact P|]. apply tip_names_NoDup.
Qed.

Theorem loop_injective cs : forall cs',
  length cs = length cs' -> okcs cs -> okcs cs' ->
  ceq (st_tree (unif_loop 2 cs init0)) (st_tree (unif_loop 2 cs' init0)) -> cs = cs'.
Proof.
  induction cs as [|k cs IH] using rev_ind; intros cs' Hlen H1 H2 HE.
  - destruct cs'; [reflexivity|discriminate].
  - destruct (exists_last (l := cs')) as [cs0' [k' E]].
    { intros ->. rewrite app_length in Hlen. simpl in Hlen. lia. }
    subst cs'. rewrite !app_length in Hlen. simpl in Hlen.
    assert (Hlen0 : length cs = length cs0') by lia.
    apply okcs_snoc in H1. destruct H1 as [H1 B1].
    apply okcs_snoc in H2. destruct H2 as [H2 B2].
    pose proof (loop_J cs H1) as J1. pose proof (loop_J cs0' H2) as J2.
    rewrite <- Hlen0 in J2, B2.
    rewrite !unif_loop_snoc in HE. rewrite <- Hlen0 in HE.
    set (i := 2 + length cs) in *.
    set (S1 := unif_loop 2 cs init0) in *. set (S2 := unif_loop 2 cs0' init0) in *.
    assert (Hi : 2 <= i) by (unfold i; lia).
    rewrite <- (inv_m _ _ _ (J_inv _ _ J1)) in B1.
    rewrite <- (inv_m _ _ _ (J_inv _ _ J2)) in B2.
    destruct (step_GR i S1 k Hi J1 B1) as [C1 [I1 [G1 [_ X1]]]].
    destruct (step_GR i S2 k' Hi J2 B2) as [C2 [I2 [G2 [_ X2]]]].
    pose proof (clades_clade_ok _ _ X1) as K1. pose proof (clades_clade_ok _ _ X2) as K2.
    assert (HQ : ceq (st_tree S1) (st_tree S2)).
    { intros A. split.
      - eapply GR_project; eauto.
      - eapply GR_project; eauto. intros B. symmetry. apply HE. }
    assert (Ecs : cs = cs0') by (apply IH; auto).
    subst cs0'. f_equal. f_equal. subst S2.
    assert (HC1 : In C1 (clades (st_tree S1))).
    { rewrite <- idclades_snd. apply in_map_iff. exists (k, C1). auto. }
    assert (HC2 : In C2 (clades (st_tree S1))).
    { rewrite <- idclades_snd. apply in_map_iff. exists (k', C2). auto. }
    assert (EC : C1 = C2).
    { eapply GR_same_branch; eauto. }
    subst C2. eapply snd_unique; [|exact I1|exact I2].
    rewrite idclades_snd. eapply J_clades_nodup; eauto.
Qed.

(** * The generator *)
Lemma uniform_unrooted_final n cs ls t :
  3 <= n -> in_bounds cs (uniform_bounds n false) -> uniform_tree n false cs ls = GOk t ->
  okcs cs /\ length cs = n - 2 /\
  exists e c n' c' sl' e',
    st_tree (unif_loop 2 cs init0) = UNode tip0 [] [Some (e, c)] /\
    t = UNode n' c' (replace_up sl' (Some (e', UNode tip0 [] [None]))) /\
    leaves (UNode n' c' sl') = leaves c /\ clades (UNode n' c' sl') = clades c /\
    n_up sl' = 1 /\ length sl' = 3.
Proof.
  intros Hn Hb. rewrite uniform_bounds_eq in Hb by auto.
  assert (L : length cs = n - 2).
  { apply in_bounds_length in Hb. now rewrite map_length, seq_length in Hb. }
  assert (Hok : okcs cs) by (unfold okcs; now rewrite L).
  unfold uniform_tree.
  destruct (Nat.ltb_spec n 2); [lia|]. destruct (Nat.ltb_spec n 3); [lia|]. cbn [andb].
  rewrite L, Nat.eqb_refl. cbn [negb].
  pose proof (loop_J cs Hok) as HJ. replace (2 + length cs) with n in HJ by lia.
  fold init0. intros Ht. split; [exact Hok|]. split; [reflexivity|].
  destruct HJ as [[Hids Hm Htips Hshape Hasg Hlen] Hl].
  destruct (unif_loop 2 cs init0) as [[t0 m] asg]. unfold st_tree, st_m, st_asg in *.
  cbn [fst snd] in *. unfold close_state in Ht.
  set (f := fun k => last_assign asg ls k nilv) in *.
  destruct Hshape as [e [c [-> [W [B D]]]]].
  assert (D3 : degree c = 3).
  { destruct D as [D|D]; auto. exfalso.
    rewrite eids_unfold, eids_sl_cons_some in Hids. unfold eids_sl, mu_sl in Hids. simpl in Hids.
    rewrite D in Hids. apply Permutation_length in Hids. rewrite seq_length in Hids. simpl in Hids.
    unfold unif_bound in Hm. lia. }
  rewrite set_lens_unfold in Ht. cbn [map] in Ht.
  set (e' := mkE (f (eid e)) (esup e) (epv e) (ecom e)) in *.
  assert (Wc : wf_sub (set_lens f c) = true) by now rewrite set_lens_wf_sub.
  assert (Dc : degree (set_lens f c) = 3) by now rewrite set_lens_degree.
  destruct (set_lens_leaves_clades f c) as [Lc Cc].
  destruct (set_lens f c) as [n' c' sl'] eqn:Ec.
  unfold degree in Dc. simpl in Dc.
  unfold finish in Ht. rewrite (reroot_first_tip_root _ _ _ _ _ Dc) in Ht.
  unfold is_tip, degree in Ht. simpl uslots in Ht. rewrite ?length_replace_up, ?Dc in Ht.
  simpl in Ht. inversion Ht; subst t.
  rewrite wf_sub_def in Wc. apply andb_true_iff in Wc. destruct Wc as [U _].
  apply Nat.eqb_eq in U.
  exists e, c, n', c', sl', e'. repeat split; auto.
Qed.

Theorem uniform_unrooted_injective n cs cs' ls ls' t t' :
  3 <= n -> in_bounds cs (uniform_bounds n false) -> in_bounds cs' (uniform_bounds n false) ->
  uniform_tree n false cs ls = GOk t -> uniform_tree n false cs' ls' = GOk t' ->
  topo_key false t = topo_key false t' -> cs = cs'.
Proof.
  intros Hn Hb Hb' Ht Ht' HK.
  destruct (uniform_unrooted_final n cs ls t Hn Hb Ht)
    as (Hok & L & e & c & n1 & c1 & sl1 & e1 & Est & -> & Lc & Cc & U & D).
  destruct (uniform_unrooted_final n cs' ls' t' Hn Hb' Ht')
    as (Hok' & L' & e0 & c0 & n2 & c2 & sl2 & e2 & Est' & -> & Lc' & Cc' & U' & D').
  apply loop_injective; auto; [congruence|].
  pose proof (loop_J cs Hok) as HJ. pose proof (loop_J cs' Hok') as HJ'.
  replace (2 + length cs) with n in HJ by lia. replace (2 + length cs') with n in HJ' by lia.
  pose proof (J_leaves _ _ HJ) as P. pose proof (J_leaves _ _ HJ') as P'.
  rewrite Est in *. rewrite Est' in *.
  assert (El : forall e c, leaves (UNode tip0 [] [Some (e, c)]) = leaves c).
  { intros. rewrite leaves_unfold. simpl. unfold kleaves. simpl. apply app_nil_r. }
  rewrite El in P, P'.
  assert (F0 : ~ In tip0 (map tip_name (seq 1 (n - 1)))).
  { intros H. apply in_map_iff in H. destruct H as [j [E Hj]]. apply tip_name_inj in E.
    subst j. apply in_seq in Hj. lia. }
  assert (K1 : kids_of sl1 <> []).
  { intros E. rewrite length_slots, U, E in D. simpl in D. lia. }
  assert (K2 : kids_of sl2 <> []).
  { intros E. rewrite length_slots, U', E in D'. simpl in D'. lia. }
  assert (R1 : ~ In tip0 (leaves (UNode n1 c1 sl1))).
  { rewrite Lc. intros H. apply F0. exact (Permutation_in _ P H). }
  assert (R2 : ~ In tip0 (leaves (UNode n2 c2 sl2))).
  { rewrite Lc'. intros H. apply F0. exact (Permutation_in _ P' H). }
  destruct (final_key tip0 n1 c1 sl1 e1 U K1 R1) as [A1 F1].
  destruct (final_key tip0 n2 c2 sl2 e2 U' K2 R2) as [A2 F2].
  assert (Eall : sset (leaves (UNode n1 c1 sl1)) = sset (leaves (UNode n2 c2 sl2))).
  { rewrite Lc, Lc'. apply sset_perm. rewrite P, P'. reflexivity. }
  unfold topo_key in HK. rewrite A1, A2 in HK. rewrite <- Eall in HK, F2.
  set (all := sinsert tip0 (sset (leaves (UNode n1 c1 sl1)))) in *.
  pose proof (lset_eq_In _ _ HK) as HM.
  assert (HM' : forall B, In B (map (away tip0 all) (map (canon_side all)
                             (clades (UNode n1 c1 (replace_up sl1 (Some (e1, UNode tip0 [] [None])))))))
                      <-> In B (map (away tip0 all) (map (canon_side all)
                             (clades (UNode n2 c2 (replace_up sl2 (Some (e2, UNode tip0 [] [None])))))))).
  { intros B. rewrite !(in_map_iff (away tip0 all)). split; intros [X [E HX]]; exists X;
      (split; [exact E|apply HM; exact HX]). }
  assert (Ec : forall e c, clades (UNode tip0 [] [Some (e, c)]) = sset (leaves c) :: clades c).
  { intros. rewrite clades_unfold. simpl. now rewrite app_nil_r. }
  intros A. rewrite !Ec, <- Lc, <- Cc, <- Lc', <- Cc', <- Eall.
  rewrite <- F1, <- F2. apply HM'.
Qed.
