(** C09, the rejection clause at full strength: a collection is refused as soon as one tree (as the
    loop sees it) has a tip name twice, at any position, as it is refused for another taxon set
    ([consensus_other_taxa]) and for a threshold outside [0.5,1] ([consensus_bad_cutoff]); a
    collection of good trees on one taxon set with a valid threshold is not refused by the
    counting loop ([cons_counts_ok]). *)
From Coq Require Import String NArith ZArith QArith Bool Arith Lia List Permutation.
From GT Require Import Base.UTree Spec.Obs Spec.ConsensusSpec Model.Reroot Model.Index Model.HashMap Model.EdgeIndex
     Model.Compare Model.Consensus
     Proofs.IndexTree Proofs.IndexSplit Proofs.CompareBase Proofs.CompareTree Proofs.CompareMain Proofs.CompareReject
     Proofs.CompareCor Proofs.ConsensusCount Proofs.ConsensusMain.
Import ListNotations.
Local Close Scope Q_scope.
Local Arguments leaves : simpl never.

(** the offending tree, as the loop sees it: well formed, root of degree >= 2, some name twice *)
Definition dup_input (t : utree) : Prop :=
  wf (prep_input t) = true /\ 2 <= degree (prep_input t) /\ ~ NoDup (leaves (prep_input t)).

Lemma cons_step_dup i (m : aindex) star t : dup_input t -> cons_step aindex ai_add i m star t = Some (Err dup_msg).
Proof. intros (W & D & N). unfold cons_step. now rewrite (reinit_dup i _ W D N). Qed.

Theorem consensus_dup_first t post c64 :
  dup_input t -> cutoff_ok c64 = true ->
  consensus_gen aindex ai_new ai_add (fun a => a) (t :: post) c64 = Some (Err dup_msg).
Proof.
  intros H C. unfold consensus_gen. unfold cutoff_ok in C. rewrite C. simpl cons_loop.
  now rewrite (cons_step_dup 0 _ None t H).
Qed.

Lemma cons_loop_dup pre t post : forall i (m : aindex) t0,
    ok_input t0 ->
    Forall (fun u => ok_input u /\ Permutation (leaves (prep_input u)) (leaves (prep_input t0))) pre ->
    dup_input t ->
    cons_loop aindex ai_add i m (Some (star_of t0)) (pre ++ t :: post) = Some (Err dup_msg).
Proof.
  induction pre as [|u pre IH]; intros i m t0 G0 F H.
  - simpl app. simpl cons_loop. now rewrite (cons_step_dup i m _ t H).
  - inversion F as [|? ? [Gu Pu] F']; subst. simpl app. simpl cons_loop.
    rewrite (cons_step_next i m t0 u G0 Gu Pu). apply IH; auto.
Qed.

Theorem consensus_dup_later t0 pre t post c64 :
  ok_input t0 ->
  Forall (fun u => ok_input u /\ Permutation (leaves (prep_input u)) (leaves (prep_input t0))) pre ->
  dup_input t -> cutoff_ok c64 = true ->
  consensus_gen aindex ai_new ai_add (fun a => a) (t0 :: pre ++ t :: post) c64 = Some (Err dup_msg).
Proof.
  intros G0 F H C. unfold consensus_gen. unfold cutoff_ok in C. rewrite C.
  simpl cons_loop. rewrite (cons_step_first 0 (ai_new 128) t0 G0).
  now rewrite (cons_loop_dup pre t post 1 _ t0 G0 F H).
Qed.

(** not vacuous: ((a,b),c,d) followed by a tree with the name a twice *)
Example consensus_dup_example :
  consensus [wit_ref; wit_dup] (1 # 2) = Some (Err dup_msg) /\ consensus [wit_dup; wit_ref] (1 # 2) = Some (Err dup_msg).
Proof. split; vm_compute; reflexivity. Qed.
