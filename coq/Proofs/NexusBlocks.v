(** Nexus files with several TREES blocks (io/nexus/nexus_parser.go after the fix fd2e4c0): the trees of every block are
    kept, in file order, each renamed with the translation table in force at the end of its block.  Before the fix only
    the trees of the last block were delivered. *)
From Coq Require Import String Ascii ZArith QArith Bool Arith Lia List.
From GT Require Import Base.UTree Spec.NewickSpec Model.Newick Model.NewickNum Model.MultiTree Model.Nexus
     Proofs.NexusRoundExamples Proofs.MultiTreeListMore.
Import ListNotations.
Local Close Scope Q_scope.
Local Open Scope string_scope.

Section Build.
  Variable nparse : string -> utree + string.

  (** the tree part of Parse on the concatenated slices: the trees of the earlier blocks, then those of the later ones;
      the first error wins *)
  Lemma build_trees_app : forall st n1 s1 t1 n2 s2 t2,
      length s1 = length n1 -> length t1 = length n1 ->
      build_trees nparse st (n1 ++ n2) (s1 ++ s2) (t1 ++ t2) =
      match build_trees nparse st n1 s1 t1 with
      | inr e => inr e
      | inl l1 => match build_trees nparse st n2 s2 t2 with
                  | inr e => inr e
                  | inl l2 => inl (l1 ++ l2)%list
                  end
      end.
  Proof.
    intros st. induction n1 as [|n nr IH]; intros s1 t1 n2 s2 t2 Hs Ht.
    - destruct s1; [|discriminate]. destruct t1; [|discriminate]. cbn [app build_trees].
      destruct (build_trees nparse st n2 s2 t2); reflexivity.
    - destruct s1 as [|s sr]; [discriminate|]. destruct t1 as [|tb tr]; [discriminate|].
      cbn [app build_trees].
      destruct (nparse (s ++ ";")) as [t|e]; [|reflexivity].
      destruct (match tb with Some tbl => rename_tree tbl t | None => inl t end) as [t'|e]; [|reflexivity].
      match goal with
      | |- (match ?b with Some _ => _ | None => _ end) = _ => destruct b; [reflexivity|]
      end.
      rewrite IH by (cbn [length] in *; lia).
      destruct (build_trees nparse st nr sr tr) as [l1|e]; [|reflexivity].
      destruct (build_trees nparse st n2 s2 t2) as [l2|e]; reflexivity.
  Qed.
End Build.

(** what the reader delivers: names and Newick texts of the trees, or the error *)
Definition delivered (text : string) : list (string * string) + string :=
  match nexus_parse npC text with
  | Nexus.POk d => inl (map (fun p => (fst p, wC (snd p))) (doc_trees d))
  | Nexus.PErr e => inr e
  | _ => inr "panic"
  end.

Definition lf : string := String "010" "".

(** trees in both blocks: all of them, in file order *)
Example two_blocks_all_delivered :
  delivered ("#NEXUS" ++ lf ++ "BEGIN TREES;" ++ lf ++ "TREE t1 = (a,b);" ++ lf ++ "END;" ++ lf ++
             "BEGIN TREES;" ++ lf ++ "TREE t2 = (c,d);" ++ lf ++ "TREE t3 = (d,c);" ++ lf ++ "END;" ++ lf) =
  inl [("t1", "(a,b);"); ("t2", "(c,d);"); ("t3", "(d,c);")].
Proof. vm_compute. reflexivity. Qed.

(** a tree followed by an empty TREES block is delivered (before the fix: nothing, without an error) *)
Example empty_last_block_keeps_trees :
  delivered "#NEXUS BEGIN TREES;TREE a=(a,b);END;BEGIN TREES;END;" = inl [("a", "(a,b);")].
Proof. vm_compute. reflexivity. Qed.

(** each tree is translated with the table in force at the end of its block: a block without TRANSLATE keeps the table of
    the earlier block, a block with its own table does not touch the trees read before *)
Example tables_per_block :
  delivered ("#NEXUS" ++ lf ++ "BEGIN TREES;" ++ lf ++ "TRANSLATE 1 a, 2 b;" ++ lf ++ "TREE t1 = (1,2);" ++ lf ++ "END;" ++ lf ++
             "BEGIN TREES;" ++ lf ++ "TREE t2 = (2,1);" ++ lf ++ "END;" ++ lf ++
             "BEGIN TREES;" ++ lf ++ "TRANSLATE 1 x, 2 y;" ++ lf ++ "TREE t3 = (1,2);" ++ lf ++ "END;" ++ lf) =
  inl [("t1", "(a,b);"); ("t2", "(b,a);"); ("t3", "(x,y);")].
Proof. vm_compute. reflexivity. Qed.

(** an unreadable tree in any block is an error for the whole file, not a silent loss *)
Example broken_tree_in_first_block_is_an_error :
  exists e, delivered ("#NEXUS" ++ lf ++ "BEGIN TREES;" ++ lf ++ "TREE t1 = (a,b;" ++ lf ++ "END;" ++ lf ++
                       "BEGIN TREES;" ++ lf ++ "TREE t2 = (c,d);" ++ lf ++ "END;" ++ lf) = inr e.
Proof. eexists. vm_compute. reflexivity. Qed.
