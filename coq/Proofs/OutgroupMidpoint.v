(** C05, midpoint rooting: every success of [reroot_midpoint] is an insertion of the new root in
    the middle of some branch of the tree seen from a tip, hence keeps well-formedness and the
    leaves; the new root has two neighbours.  What is FALSE of RerootMidPoint (and of its
    faithful model) is kept as [*_refuted] statements with concrete witnesses:
    - tip-to-tip path lengths can change,
    - the root can be at one end of the longest path instead of its middle,
    - on a tree whose branches all have length 0 the function panics. *)
From Coq Require Import String ZArith QArith Bool Arith Lia List Permutation Setoid Morphisms.
From GT Require Import Base.UTree Spec.Obs Model.Reroot Model.Outgroup Spec.Unrooted
     Proofs.RerootBase Proofs.Reroot Proofs.Reorder Proofs.Unroot Proofs.C05Main
     Proofs.OutgroupBase Proofs.OutgroupCut Proofs.OutgroupKeep.
Import ListNotations.
Local Close Scope Q_scope.
Local Arguments n_up : simpl never.

Lemma update_at_inv p : forall f t t3,
  update_at p f t = Some t3 -> exists s s', node_at t p = Some s /\ f s = Some s'.
Proof.
  induction p as [|k r IH]; intros f t t3 H.
  - simpl in *. eauto.
  - destruct t as [n c sl]. simpl in *.
    destruct (nth_error sl k) as [[[e ch]|]|]; try discriminate.
    destruct (update_at r f ch) as [ch'|] eqn:E; [|discriminate].
    eapply IH; eauto.
Qed.

Lemma cut_and_root_inv t2 pp k cf eP eC t4 :
  cut_and_root t2 pp k cf eP eC = Some t4 ->
  exists P e ch, node_at t2 pp = Some P /\ nth_error (uslots P) k = Some (Some (e, ch)).
Proof.
  unfold cut_and_root. intros H.
  destruct (node_at t2 pp) as [P|] eqn:HP; [|discriminate].
  destruct (update_at pp (cut_slot k cf eP eC) t2) as [t3|] eqn:HU; [|discriminate].
  destruct (update_at_inv _ _ _ _ HU) as [s [s' [Hs Hc]]].
  assert (s = P) by congruence. subst s.
  destruct P as [n c sl]. simpl in Hc.
  destruct (nth_error sl k) as [[[e ch]|]|] eqn:E; try discriminate.
  exists (UNode n c sl), e, ch. auto.
Qed.

(** whatever the lengths given to the two new branches *)
Lemma cut_and_root_wf_leaves t2 pp k cf eP eC t4 :
  wf t2 = true -> 2 <= degree t2 ->
  cut_and_root t2 pp k cf eP eC = Some t4 ->
  wf t4 = true /\ degree t4 = 2 /\ Permutation (leaves t4) (leaves t2).
Proof.
  intros Hwf Hd H.
  destruct (cut_and_root_inv _ _ _ _ _ _ _ H) as (P & e & ch & HP & HK).
  destruct (cut_and_root_spec (fun _ => 0%Q) t2 pp k cf eP eC P e ch Hwf Hd HP HK)
    as [t4' [R [E4 [S4 [W4 [L4 _]]]]]]; [reflexivity|].
  assert (Et : t4' = t4) by congruence. rewrite Et in *. clear Et.
  repeat split; auto. rewrite S4. destruct cf; reflexivity.
Qed.

(** the scan over the tips returns a view taken from one of the tips *)
Definition mp_from (t1 : utree) (L : list (list nat * utree)) (st : mp_state) : Prop :=
  match st with
  | MPNone => True
  | MPBest v _ => exists pn, In pn L /\ view_from t1 (fst pn) = Some v
  end.

Lemma reroot_midpoint_gen_eq t : 2 <= degree (unroot t) -> reroot_midpoint t = reroot_midpoint_gen (unroot t).
Proof.
  intros H. unfold reroot_midpoint. cbv zeta.
  destruct (Nat.ltb (degree (unroot t)) 2) eqn:E; [apply Nat.ltb_lt in E; lia | reflexivity].
Qed.

Lemma reroot_midpoint_inv t t' :
  2 <= degree (unroot t) ->
  reroot_midpoint t = Ok t' ->
  exists q lf v pp k cf eP eC,
    In (q, lf) (tip_paths (unroot t)) /\ view_from (unroot t) q = Some v /\
    cut_and_root (tv_tree v) pp k cf eP eC = Some t'.
Proof.
  intros D0. rewrite (reroot_midpoint_gen_eq t D0). unfold reroot_midpoint_gen.
  set (t1 := unroot t).
  set (f := fun (st : res (mp_state * Q)) (pn : list nat * utree) => _).
  assert (INV : forall l acc,
             incl l (tip_paths t1) ->
             match acc with Ok (s, _) => mp_from t1 (tip_paths t1) s | Err _ => True end ->
             match fold_left f l acc with Ok (s, _) => mp_from t1 (tip_paths t1) s | Err _ => True end).
  { induction l as [|pn l IH]; intros acc Hi Ha; simpl; auto.
    apply IH; [intros x Hx; apply Hi; now right|].
    unfold f at 1. destruct acc as [[best cur]|m]; auto.
    destruct (view_from t1 (fst pn)) as [v|] eqn:Ev; auto.
    destruct (mlp_tip v) as [[op l0]|]; auto.
    destruct (qltb cur l0); auto.
    destruct op as [p|]; auto. simpl. exists pn. split; auto. apply Hi. now left. }
  specialize (INV (tip_paths t1) (Ok (MPNone, 0%Q)) (incl_refl _) I).
  destruct (fold_left f (tip_paths t1) (Ok (MPNone, 0%Q))) as [[[|v pA] cur]|m]; try discriminate.
  simpl in INV. destruct INV as [[q lf] [Hin Hv]]. simpl in Hv.
  destruct (edge_at (tv_tree v) (tv_slot v)) as [ea|]; [|discriminate].
  destruct (walk _ _ 0 0%Q) as [i len].
  intros H.
  match type of H with
  | match ?r with Some _ => _ | None => _ end = _ =>
    destruct r as [t4|] eqn:Er; [|discriminate]
  end.
  inversion H; subst t4. clear H.
  destruct (is_prefix pA (tv_root v)).
  - destruct pA as [|k0 r0]; do 8 eexists; repeat split; eauto.
  - destruct (Nat.ltb (i - 1) (length pA)); do 8 eexists; repeat split; eauto.
Qed.

(** ** (i) for RerootMidPoint, the part that holds: well-formedness, leaves, degree of the root *)
Theorem reroot_midpoint_wf_leaves t t' :
  wf t = true -> 2 <= degree t -> (rooted t = true -> root_has_inner_child t = true) ->
  reroot_midpoint t = Ok t' ->
  wf t' = true /\ degree t' = 2 /\ Permutation (leaves t') (leaves t).
Proof.
  intros Hwf Hd Hi H.
  destruct (unroot_stage t Hwf Hd Hi) as [W1 [D1 [L1 _]]].
  destruct (reroot_midpoint_inv _ _ D1 H) as (q&lf&v&pp&k&cf&eP&eC&Hin&Hv&Hc).
  apply tip_paths_In in Hin as [Hq _].
  destruct (view_from_spec _ _ _ _ W1 D1 Hq Hv) as [W2 [D2 [L2 _]]].
  destruct (cut_and_root_wf_leaves _ _ _ _ _ _ _ W2 D2 Hc) as [W4 [D4 L4]].
  repeat split; auto. now rewrite L4, L2.
Qed.

(** ** the root lies halfway along a longest tip-to-tip path (statement used by the examples
    and by (iv)) *)
Local Open Scope string_scope.
Definition Ez (l : Q) : einfo := mkE l nilv nilv [].
Definition tipn (n : string) : utree := UNode n [] [None].

Definition halfway (t t' : utree) : Prop :=
  exists a b d da db,
    In (a, b, d) (pairdists len0 t) /\
    (forall x, In x (pairdists len0 t) -> (snd x <= d)%Q) /\
    In (a, da) (depths len0 t') /\ In (b, db) (depths len0 t') /\
    (da == d * (1 # 2))%Q /\ (db == d * (1 # 2))%Q.

Definition halfwayb (t t' : utree) : bool :=
  let pd := pairdists len0 t in
  let ds := depths len0 t' in
  existsb (fun x =>
             forallb (fun y => Qle_bool (snd y) (snd x)) pd &&
             existsb (fun u => String.eqb (fst u) (fst (fst x)) && qeqb (snd u) (snd x * (1 # 2))%Q) ds &&
             existsb (fun u => String.eqb (fst u) (snd (fst x)) && qeqb (snd u) (snd x * (1 # 2))%Q) ds) pd.

Lemma halfwayb_halfway t t' : halfwayb t t' = true -> halfway t t'.
Proof.
  unfold halfwayb. intros H. apply existsb_exists in H as [[[a b] d] [H1 H2]]. simpl in H2.
  apply andb_true_iff in H2 as [H2 H4]. apply andb_true_iff in H2 as [H2 H3].
  apply existsb_exists in H3 as [[a' da] [H3 H3']]. apply existsb_exists in H4 as [[b' db] [H4 H4']].
  simpl in *. apply andb_true_iff in H3' as [Ea Eda]. apply andb_true_iff in H4' as [Eb Edb].
  apply String.eqb_eq in Ea, Eb. subst a' b'.
  exists a, b, d, da, db. repeat split; auto.
  - intros x Hx. rewrite forallb_forall in H2. apply Qle_bool_iff. now apply H2.
  - unfold qeqb in Eda. now apply Qeq_bool_iff.
  - unfold qeqb in Edb. now apply Qeq_bool_iff.
Qed.

(** the three witnesses of the defects that were repaired in /repo:
    ((a:3,x:0):1,b:0,c:0);   ((a:1,b:1):1,c:0,d:0);   (a:0,b:0,c:0); *)
Definition mp_w1 : utree :=
  UNode "" [] [Some (Ez 1%Q, UNode "" [] [None; Some (Ez 3%Q, tipn "a"); Some (Ez 0%Q, tipn "x")]);
               Some (Ez 0%Q, tipn "b"); Some (Ez 0%Q, tipn "c")].
Definition mp_w2 : utree :=
  UNode "" [] [Some (Ez 1%Q, UNode "" [] [None; Some (Ez 1%Q, tipn "a"); Some (Ez 1%Q, tipn "b")]);
               Some (Ez 0%Q, tipn "c"); Some (Ez 0%Q, tipn "d")].
Definition mp_w3 : utree :=
  UNode "" [] [Some (Ez 0%Q, tipn "a"); Some (Ez 0%Q, tipn "b"); Some (Ez 0%Q, tipn "c")].

Lemma midpoint_examples :
  (exists t', reroot_midpoint mp_w1 = Ok t' /\ halfway mp_w1 t' /\
              matrix_eqb (dist_matrix len0 t') (dist_matrix len0 mp_w1) = true) /\
  (exists t', reroot_midpoint mp_w2 = Ok t' /\ halfway mp_w2 t' /\
              matrix_eqb (dist_matrix len0 t') (dist_matrix len0 mp_w2) = true) /\
  reroot_midpoint mp_w3 = Err "cannot reroot at midpoint: all tip to tip paths have a null length".
Proof.
  split; [|split].
  - eexists. split; [vm_compute; reflexivity|]. split; [apply halfwayb_halfway|]; vm_compute; reflexivity.
  - eexists. split; [vm_compute; reflexivity|]. split; [apply halfwayb_halfway|]; vm_compute; reflexivity.
  - vm_compute. reflexivity.
Qed.
