(** C05, midpoint rooting: every success of [reroot_midpoint] is an insertion of the new root in
    the middle of some branch of the tree seen from a tip, hence keeps well-formedness and the
    leaves; the new root has two neighbours.  What is FALSE of RerootMidPoint (and of its
    faithful model) is kept as [*_refuted] statements with concrete witnesses:
    - tip-to-tip path lengths can change,
    - the root can be at one end of the longest path instead of its middle,
    - on a tree whose branches all have length 0 the function panics. *)
From Coq Require Import String ZArith QArith Bool Arith Lia List Permutation Setoid Morphisms.
From GT Require Import Base.UTree Spec.Obs Model.Reroot Model.Outgroup Spec.Unrooted
     Proofs.RerootBase Proofs.Reroot Proofs.Reorder Proofs.Unroot Proofs.C05Main
     Proofs.OutgroupBase Proofs.OutgroupCut Proofs.OutgroupKeep.
Import ListNotations.
Local Close Scope Q_scope.
Local Arguments n_up : simpl never.

Lemma update_at_inv p : forall f t t3,
  update_at p f t = Some t3 -> exists s s', node_at t p = Some s /\ f s = Some s'.
Proof.
  induction p as [|k r IH]; intros f t t3 H.
  - simpl in *. eauto.
  - destruct t as [n c sl]. simpl in *.
    destruct (nth_error sl k) as [[[e ch]|]|]; try discriminate.
    destruct (update_at r f ch) as [ch'|] eqn:E; [|discriminate].
    eapply IH; eauto.
Qed.

Lemma cut_and_root_inv t2 pp k cf eP eC t4 :
  cut_and_root t2 pp k cf eP eC = Some t4 ->
  exists P e ch, node_at t2 pp = Some P /\ nth_error (uslots P) k = Some (Some (e, ch)).
Proof.
  unfold cut_and_root. intros H.
  destruct (node_at t2 pp) as [P|] eqn:HP; [|discriminate].
  destruct (update_at pp (cut_slot k cf eP eC) t2) as [t3|] eqn:HU; [|discriminate].
  destruct (update_at_inv _ _ _ _ HU) as [s [s' [Hs Hc]]].
  assert (s = P) by congruence. subst s.
  destruct P as [n c sl]. simpl in Hc.
  destruct (nth_error sl k) as [[[e ch]|]|] eqn:E; try discriminate.
  exists (UNode n c sl), e, ch. auto.
Qed.

(** whatever the lengths given to the two new branches *)
Lemma cut_and_root_wf_leaves t2 pp k cf eP eC t4 :
  wf t2 = true -> 2 <= degree t2 ->
  cut_and_root t2 pp k cf eP eC = Some t4 ->
  wf t4 = true /\ degree t4 = 2 /\ Permutation (leaves t4) (leaves t2).
Proof.
  intros Hwf Hd H.
  destruct (cut_and_root_inv _ _ _ _ _ _ _ H) as (P & e & ch & HP & HK).
  destruct (cut_and_root_spec (fun _ => 0%Q) t2 pp k cf eP eC P e ch Hwf Hd HP HK)
    as [t4' [R [E4 [S4 [W4 [L4 _]]]]]]; [reflexivity|].
  assert (Et : t4' = t4) by congruence. rewrite Et in *. clear Et.
  repeat split; auto. rewrite S4. destruct cf; reflexivity.
Qed.

(** the scan over the tips returns a view taken from one of the tips *)
Definition mp_from (t1 : utree) (L : list (list nat * utree)) (st : mp_state) : Prop :=
  match st with
  | MPNone => True
  | MPBest v _ => exists pn, In pn L /\ view_from t1 (fst pn) = Some v
  end.

Lemma reroot_midpoint_inv t t' :
  reroot_midpoint t = Ok t' ->
  exists q lf v pp k cf eP eC,
    In (q, lf) (tip_paths (unroot t)) /\ view_from (unroot t) q = Some v /\
    cut_and_root (tv_tree v) pp k cf eP eC = Some t'.
Proof.
  unfold reroot_midpoint. cbv zeta.
  set (t1 := unroot t).
  set (f := fun (st : res (mp_state * Q)) (pn : list nat * utree) => _).
  assert (INV : forall l acc,
             incl l (tip_paths t1) ->
             match acc with Ok (s, _) => mp_from t1 (tip_paths t1) s | Err _ => True end ->
             match fold_left f l acc with Ok (s, _) => mp_from t1 (tip_paths t1) s | Err _ => True end).
  { induction l as [|pn l IH]; intros acc Hi Ha; simpl; auto.
    apply IH; [intros x Hx; apply Hi; now right|].
    unfold f at 1. destruct acc as [[best cur]|m]; auto.
    destruct (view_from t1 (fst pn)) as [v|] eqn:Ev; auto.
    destruct (mlp_tip v) as [[op l0]|]; auto.
    destruct (qltb cur l0); auto.
    destruct op as [p|]; auto. simpl. exists pn. split; auto. apply Hi. now left. }
  specialize (INV (tip_paths t1) (Ok (MPNone, 0%Q)) (incl_refl _) I).
  destruct (fold_left f (tip_paths t1) (Ok (MPNone, 0%Q))) as [[[|v pA] cur]|m]; try discriminate.
  simpl in INV. destruct INV as [[q lf] [Hin Hv]]. simpl in Hv.
  destruct (edge_at (tv_tree v) (tv_slot v)) as [ea|]; [|discriminate].
  destruct (walk _ _ 0 0%Q) as [i len].
  intros H.
  match type of H with
  | match ?r with Some _ => _ | None => _ end = _ =>
    destruct r as [t4|] eqn:Er; [|discriminate]
  end.
  inversion H; subst t4. clear H.
  destruct (is_prefix pA (tv_root v)).
  - destruct pA as [|k0 r0]; do 8 eexists; repeat split; eauto.
  - destruct (Nat.ltb (i - 1) (length pA)); do 8 eexists; repeat split; eauto.
Qed.

(** ** (i) for RerootMidPoint, the part that holds: well-formedness, leaves, degree of the root *)
Theorem reroot_midpoint_wf_leaves t t' :
  wf t = true -> 2 <= degree t -> (rooted t = true -> root_has_inner_child t = true) ->
  reroot_midpoint t = Ok t' ->
  wf t' = true /\ degree t' = 2 /\ Permutation (leaves t') (leaves t).
Proof.
  intros Hwf Hd Hi H.
  destruct (reroot_midpoint_inv _ _ H) as (q&lf&v&pp&k&cf&eP&eC&Hin&Hv&Hc).
  destruct (unroot_stage t Hwf Hd Hi) as [W1 [D1 [L1 _]]].
  apply tip_paths_In in Hin as [Hq _].
  destruct (view_from_spec _ _ _ _ W1 D1 Hq Hv) as [W2 [D2 [L2 _]]].
  destruct (cut_and_root_wf_leaves _ _ _ _ _ _ _ W2 D2 Hc) as [W4 [D4 L4]].
  repeat split; auto. now rewrite L4, L2.
Qed.

(** ** what does not hold *)
Local Open Scope string_scope.
Definition Ez (l : Q) : einfo := mkE l nilv nilv [].
Definition tipn (n : string) : utree := UNode n [] [None].

(** ((a:3,x:0):1,b:0,c:0); *)
Definition mp_w1 : utree :=
  UNode "" [] [Some (Ez 1%Q, UNode "" [] [None; Some (Ez 3%Q, tipn "a"); Some (Ez 0%Q, tipn "x")]);
               Some (Ez 0%Q, tipn "b"); Some (Ez 0%Q, tipn "c")].
(** ((a:1,b:1):1,c:0,d:0); *)
Definition mp_w2 : utree :=
  UNode "" [] [Some (Ez 1%Q, UNode "" [] [None; Some (Ez 1%Q, tipn "a"); Some (Ez 1%Q, tipn "b")]);
               Some (Ez 0%Q, tipn "c"); Some (Ez 0%Q, tipn "d")].
(** (a:0,b:0,c:0); *)
Definition mp_w3 : utree :=
  UNode "" [] [Some (Ez 0%Q, tipn "a"); Some (Ez 0%Q, tipn "b"); Some (Ez 0%Q, tipn "c")].

Definition has_entry (a b : string) (d : Q) (l : list (string * string * Q)) : bool :=
  existsb (fun x => String.eqb (fst (fst x)) a && String.eqb (snd (fst x)) b && qeqb (snd x) d) l.

Lemma has_entry_In a b d d' l : In (a, b, d') l -> (d == d')%Q -> has_entry a b d l = true.
Proof.
  intros H E. unfold has_entry. apply existsb_exists. exists (a, b, d'). split; auto.
  simpl. rewrite !String.eqb_refl. simpl. unfold qeqb. apply Qeq_bool_iff. now symmetry.
Qed.

(** tip-to-tip path lengths are not preserved: a -- b goes from 4 to 6 *)
Theorem reroot_midpoint_dists_refuted :
  exists t t',
    wf t = true /\ 3 <= degree t /\ NoDup (leaves t) /\
    (forall x, In x (bsplits t) -> (0 <= elen (fst (fst x)))%Q) /\
    reroot_midpoint t = Ok t' /\
    ~ dists_equiv (pairdists len0 t') (pairdists len0 t).
Proof.
  exists mp_w1.
  destruct (reroot_midpoint mp_w1) as [t'|] eqn:E; [|vm_compute in E; discriminate].
  exists t'. repeat split.
  - vm_compute; lia.
  - vm_compute. repeat constructor; simpl; intuition discriminate.
  - intros x Hx. vm_compute in Hx. repeat (destruct Hx as [<-|Hx]; [vm_compute; discriminate|]). destruct Hx.
  - intros H. vm_compute in E. inversion E; subst t'. clear E.
    assert (Hin : In ("a", "b", (24 # 4)%Q) (pairdists len0
       (UNode "" []
            [Some (mkE (2 # 2) (-1) (-1) [],
                UNode "" [] [Some (mkE 3 (-1) (-1) [], UNode "a" [] [None]);
                             Some (mkE 0 (-1) (-1) [], UNode "x" [] [None]); None]);
             Some (mkE (4 # 2) (-1) (-1) [],
                UNode "" [] [Some (mkE 0 (-1) (-1) [], UNode "b" [] [None]);
                             Some (mkE 0 (-1) (-1) [], UNode "c" [] [None]); None])]))).
    { vm_compute. auto. }
    destruct (dists_equiv_In _ _ H _ _ _ Hin) as [d' [Hd' Ed]].
    pose proof (has_entry_In _ _ _ _ _ Hd' Ed) as Hh. vm_compute in Hh. discriminate.
Qed.

(** the root is not halfway along a longest path: no pair of tips at the largest distance D
    has both tips at depth D/2 *)
Definition halfway (t t' : utree) : Prop :=
  exists a b d da db,
    In (a, b, d) (pairdists len0 t) /\
    (forall x, In x (pairdists len0 t) -> (snd x <= d)%Q) /\
    In (a, da) (depths len0 t') /\ In (b, db) (depths len0 t') /\
    (da == d * (1 # 2))%Q /\ (db == d * (1 # 2))%Q.

Definition halfwayb (t t' : utree) : bool :=
  let pd := pairdists len0 t in
  let ds := depths len0 t' in
  existsb (fun x =>
             forallb (fun y => Qle_bool (snd y) (snd x)) pd &&
             existsb (fun u => String.eqb (fst u) (fst (fst x)) && qeqb (snd u) (snd x * (1 # 2))%Q) ds &&
             existsb (fun u => String.eqb (fst u) (snd (fst x)) && qeqb (snd u) (snd x * (1 # 2))%Q) ds) pd.

Lemma halfway_halfwayb t t' : halfway t t' -> halfwayb t t' = true.
Proof.
  intros (a & b & d & da & db & H1 & H2 & H3 & H4 & H5 & H6).
  unfold halfwayb. apply existsb_exists. exists (a, b, d). split; auto. simpl.
  apply andb_true_iff; split; [apply andb_true_iff; split|].
  - apply forallb_forall. intros y Hy. apply Qle_bool_iff. now apply H2.
  - apply existsb_exists. exists (a, da). split; auto. simpl. rewrite String.eqb_refl. simpl.
    unfold qeqb. now apply Qeq_bool_iff.
  - apply existsb_exists. exists (b, db). split; auto. simpl. rewrite String.eqb_refl. simpl.
    unfold qeqb. now apply Qeq_bool_iff.
Qed.

Theorem reroot_midpoint_halfway_refuted :
  exists t t',
    wf t = true /\ 3 <= degree t /\ NoDup (leaves t) /\
    (forall x, In x (bsplits t) -> (0 <= elen (fst (fst x)))%Q) /\
    reroot_midpoint t = Ok t' /\
    ~ halfway t t'.
Proof.
  exists mp_w2.
  destruct (reroot_midpoint mp_w2) as [t'|] eqn:E; [|vm_compute in E; discriminate].
  exists t'. vm_compute in E. inversion E; subst t'. clear E. repeat split.
  - vm_compute; lia.
  - vm_compute. repeat constructor; simpl; intuition discriminate.
  - intros x Hx. vm_compute in Hx. repeat (destruct Hx as [<-|Hx]; [vm_compute; discriminate|]). destruct Hx.
  - intros H. apply halfway_halfwayb in H. vm_compute in H. discriminate.
Qed.

(** all branches of length 0: the model mirrors the Go panic (index -1) as an error *)
Theorem reroot_midpoint_all_zero_refuted :
  exists t m,
    wf t = true /\ 3 <= degree t /\ NoDup (leaves t) /\
    (forall x, In x (bsplits t) -> (elen (fst (fst x)) == 0)%Q) /\
    reroot_midpoint t = Err m /\
    m = "panic: runtime error: index out of range [-1]".
Proof.
  exists mp_w3, "panic: runtime error: index out of range [-1]".
  split; [reflexivity|]. split; [vm_compute; lia|]. split; [|split; [|split; [|reflexivity]]].
  - vm_compute. repeat constructor; simpl; intuition discriminate.
  - intros x Hx. vm_compute in Hx. repeat (destruct Hx as [<-|Hx]; [reflexivity|]). destruct Hx.
  - vm_compute. reflexivity.
Qed.
