(** C08: the weighted statement on the domain of the property. *)
From Coq Require Import String NArith ZArith QArith Bool Arith List Permutation.
From GT Require Import Base.UTree Spec.Obs Spec.CompareSpec Model.Reroot Model.Compare
     Model.Index Model.EdgeIndex Proofs.IndexSplit Proofs.CompareMain Proofs.CompareDomain Proofs.CompareDupfree Proofs.CompareWeighted
     Proofs.CompareBridge.
Import ListNotations.
Local Close Scope Q_scope.

Corollary compare_weighted_unrooted tips t1 t2 :
  unrooted t1 -> unrooted t2 -> Permutation (leaves t1) (leaves t2) ->
  compare_weighted tips false t1 t2 =
  Some (Ok (mkWS (spec_w_only1 tips t1 t2) (spec_w_only2 tips t1 t2) (spec_w_common tips t1 t2)
                 (Nat.eqb (length (spec_w_only1 tips t1 t2)) 0 && Nat.eqb (length (spec_w_only2 tips t1 t2)) 0
                  && all_zero (spec_w_common tips t1 t2))
                 EmptyString)).
Proof.
  intros U1 U2 P. apply compare_weighted_terms; auto.
  - apply U1.
  - apply U2.
  - now apply unrooted_dupfree.
  - now apply unrooted_dupfree.
  - now apply unrooted_tipflags.
  - now apply unrooted_tipflags.
Qed.

(** the same statements about the model over the real hash index: whenever it returns, it
    returns the set algebra of the splits *)
Corollary compare_hm_counts_unrooted tips t1 t2 r :
  unrooted t1 -> unrooted t2 -> Permutation (leaves t1) (leaves t2) ->
  (N.of_nat (length (branch_keys 0 t1) * 2) < W64)%N ->
  compare_hm tips false t1 t2 = Some r ->
  r = Ok (mkBS (Z.of_nat (c_only1 (spec_counts tips t1 t2))) (Z.of_nat (c_only2 (spec_counts tips t1 t2)))
               (Z.of_nat (c_both (spec_counts tips t1 t2))) (spec_identical tips t1 t2) EmptyString).
Proof.
  intros U1 U2 P B H. apply compare_hm_refines in H; auto; try apply U1; try apply U2.
  rewrite (compare_counts_unrooted tips t1 t2 U1 U2 P) in H. now inversion H.
Qed.

Corollary compare_weighted_hm_unrooted tips t1 t2 r :
  unrooted t1 -> unrooted t2 -> Permutation (leaves t1) (leaves t2) ->
  (N.of_nat (length (branch_keys 0 t1) * 2) < W64)%N ->
  (N.of_nat (length (branch_keys 1 t2) * 2) < W64)%N ->
  compare_weighted_hm tips false t1 t2 = Some r ->
  r = Ok (mkWS (spec_w_only1 tips t1 t2) (spec_w_only2 tips t1 t2) (spec_w_common tips t1 t2)
               (Nat.eqb (length (spec_w_only1 tips t1 t2)) 0 && Nat.eqb (length (spec_w_only2 tips t1 t2)) 0
                && all_zero (spec_w_common tips t1 t2)) EmptyString).
Proof.
  intros U1 U2 P B1 B2 H. apply compare_weighted_hm_refines in H; auto; try apply U1; try apply U2.
  rewrite (compare_weighted_unrooted tips t1 t2 U1 U2 P) in H. now inversion H.
Qed.
