(** C08: the weighted statement on the domain of the property. *)
From Coq Require Import String NArith ZArith QArith Bool Arith List Permutation.
From GT Require Import Base.UTree Spec.Obs Spec.CompareSpec Model.Reroot Model.Compare
     Proofs.IndexSplit Proofs.CompareMain Proofs.CompareDomain Proofs.CompareDupfree Proofs.CompareWeighted.
Import ListNotations.
Local Close Scope Q_scope.

Corollary compare_weighted_unrooted tips t1 t2 :
  unrooted t1 -> unrooted t2 -> Permutation (leaves t1) (leaves t2) ->
  compare_weighted tips false t1 t2 =
  Some (Ok (mkWS (spec_w_only1 tips t1 t2) (spec_w_only2 tips t1 t2) (spec_w_common tips t1 t2)
                 (Nat.eqb (length (spec_w_only1 tips t1 t2)) 0 && Nat.eqb (length (spec_w_only2 tips t1 t2)) 0
                  && all_zero (spec_w_common tips t1 t2))
                 EmptyString)).
Proof.
  intros U1 U2 P. apply compare_weighted_terms; auto.
  - apply U1.
  - apply U2.
  - now apply unrooted_dupfree.
  - now apply unrooted_dupfree.
  - now apply unrooted_tipflags.
  - now apply unrooted_tipflags.
Qed.
