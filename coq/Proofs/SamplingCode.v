(** C20: the reservoir loops as they are in the code (index rand.Intn(i+1), [code_bound]):
    cmd/sample.go without --replace and cmd/prune.go randomTips. *)
From Coq Require Import String Bool Arith Lia List Permutation.
From GT Require Import Base.UTree Model.Reroot Model.Rand Model.Sampling Spec.Counting
     Proofs.SamplingBase Proofs.SamplingRes.
Import ListNotations.

Theorem sample_noreplace_uniform n k s : 1 <= k -> k <= n -> In s (subsets k (seq 0 n)) ->
  count_where (fun cs => out_set_is s (sample_noreplace k (seq 0 n) cs))
              (all_choices (reservoir_bounds code_bound k n)) = fact (n - k).
Proof. exact (reservoir_std_uniform n k s). Qed.

Theorem sample_noreplace_space_size n k : k <= n ->
  length (all_choices (reservoir_bounds code_bound k n)) * fact k = fact n.
Proof. exact (reservoir_space_size n k). Qed.

Lemma map_nth_seq_str (l : list string) :
  map (fun i => nth i l EmptyString) (seq 0 (length l)) = l.
Proof.
  induction l as [|x l IH]; [reflexivity|].
  cbn [length seq map nth]. f_equal. rewrite <- seq_shift, map_map. exact IH.
Qed.

(** randomTips on a tree is the same loop on the positions 0..n-1 of its tips, read back through
    the list of tip names: the counting statement transfers to tip subsets *)
Theorem random_tips_positions k t cs :
  random_tips k t cs =
  option_map (map (option_map (fun i => nth i (tip_names t) EmptyString)))
             (sample_noreplace k (seq 0 (length (tip_names t))) cs).
Proof.
  unfold random_tips, sample_noreplace.
  rewrite <- reservoir_map. now rewrite map_nth_seq_str.
Qed.
