(** C14 (cut), part 3: the groups [sgroups t false] form a partition of the tips, and each of
    them is the set of tips of one piece of the tree: [comp_down v] for a node [v] that is the
    root or is entered through a branch that is not shorter than the threshold (so nothing
    joins it to the rest), i.e. all the tips reached from [v] through short branches. *)
From Coq Require Import String ZArith QArith Bool Arith Lia List Permutation.
From GT Require Import Base.UTree Model.Reroot Proofs.RerootBase Model.Matrix Proofs.CutBase Proofs.CutSem.
Import ListNotations.
Local Close Scope Q_scope.
Local Arguments n_up : simpl never.

(** * a TipBag lists its tips without repetition: same members as what was put in *)
Lemma name_insert_set_In x y l : In y (name_insert_set x l) <-> y = x \/ In y l.
Proof.
  induction l as [|z r IH]; simpl.
  - intuition.
  - destruct (String.eqb x z) eqn:E.
    + apply String.eqb_eq in E. subst. simpl. intuition.
    + destruct (String.leb x z); simpl; rewrite ?IH; intuition.
Qed.
Lemma bag_of_In y l : In y (bag_of l) <-> In y l.
Proof.
  unfold bag_of. induction l as [|x r IH]; simpl; [tauto|].
  rewrite name_insert_set_In, IH. intuition.
Qed.

Section Cut.
  Variable maxlen : Q.
  Notation sh := (short maxlen).
  Notation side_tips := (side_tips maxlen).
  Notation comp_down := (comp_down maxlen).
  Notation sgroups := (sgroups maxlen).
  Notation sg_go := (sg_go maxlen).

  Definition tipnames (t : utree) : list string := map uname (tips t).
  Definition ktips (l : list slot) : list string :=
    flat_map (fun s : slot => match s with Some (_, c) => tipnames c | None => [] end) l.

  Lemma tipnames_unfold n c sl :
    tipnames (UNode n c sl) = (if Nat.eqb (length sl) 1 then [n] else []) ++ ktips sl.
  Proof.
    unfold tipnames, ktips. simpl tips. unfold is_tip, degree. simpl uslots.
    rewrite map_app. f_equal; [destruct (Nat.eqb (length sl) 1); reflexivity|].
    induction sl as [|[[e ch]|] r IH]; simpl; auto. now rewrite map_app, IH.
  Qed.

  Lemma comp_down_unfold n c sl :
    comp_down (UNode n c sl) = (if Nat.eqb (length sl) 1 then [n] else []) ++ side_tips sl.
  Proof. reflexivity. Qed.

  Lemma side_tips_app a b : side_tips (a ++ b) = side_tips a ++ side_tips b.
  Proof. apply flat_map_app. Qed.

  Fixpoint has_short (l : list slot) : bool :=
    match l with
    | [] => false
    | None :: r => has_short r
    | Some (e, _) :: r => sh e || has_short r
    end.

  (** ** every tip is in exactly one group *)
  (** what a child contributes *)
  Definition child_part (c : utree) (f : bool) : list string :=
    (if f then comp_down c else if is_tip c then [uname c] else []) ++
    concat (if Nat.ltb 1 (degree c) then sgroups c f else []).

  Definition part_ok (t : utree) : Prop :=
    forall fl, wf_sub t = true -> 1 < degree t ->
               Permutation (concat (sgroups t fl) ++ (if fl then comp_down t else [])) (tipnames t).

  Lemma child_part_ok c f : wf_sub c = true -> part_ok c -> Permutation (child_part c f) (tipnames c).
  Proof.
    intros W P. unfold child_part. destruct (Nat.ltb 1 (degree c)) eqn:D.
    - apply Nat.ltb_lt in D. assert (T : is_tip c = false).
      { unfold is_tip. apply Nat.eqb_neq. lia. }
      rewrite T. rewrite <- (P f W D). destruct f; simpl; [perm|now rewrite app_nil_r].
    - apply Nat.ltb_ge in D. destruct c as [n cm sl]. unfold degree in D. simpl in D.
      rewrite wf_sub_unfold in W. apply andb_true_iff in W as [U _]. apply Nat.eqb_eq in U.
      assert (Hl := length_slots sl). rewrite U in Hl.
      destruct sl as [|[p|] [|s2 r2]]; simpl in *; try lia.
      rewrite app_nil_r. destruct f; reflexivity.
  Qed.

  Lemma concat_single (f : list string) : concat (match f with [] => [] | s :: l => [s :: l] end) = f.
  Proof. destruct f; simpl; auto. now rewrite app_nil_r. Qed.

  Lemma sg_go_part n : forall l pre fl,
      Forall (fun p : einfo * utree => part_ok (snd p)) (kids_of l) ->
      forallb (fun p => wf_sub (snd p)) (kids_of l) = true ->
      Permutation (concat (sg_go sgroups n false pre l fl) ++ (if fl then side_tips l else []))
                  (ktips l ++ (if fl then [] else if has_short l then side_tips pre else [])).
  Proof.
    induction l as [|[[e c]|] r IH]; intros pre fl HK W.
    - simpl. destruct fl; reflexivity.
    - simpl kids_of in HK, W. inversion HK as [|? ? Hc HKr]; subst. simpl in Hc.
      simpl in W. apply andb_true_iff in W as [Wc Wr].
      simpl sg_go. simpl has_short. unfold ktips. simpl flat_map. fold (ktips r).
      rewrite !concat_app.
      destruct (sh e) eqn:S; destruct fl; simpl orb; cbv iota.
      + (* short, already collected *)
        specialize (IH (pre ++ [Some (e, c)]) true HKr Wr).
        assert (C := child_part_ok c true Wc Hc). unfold child_part in C.
        unfold CutBase.side_tips. simpl flat_map. rewrite S. fold (side_tips r).
        simpl concat at 1. rewrite app_nil_r in IH.
        rewrite <- IH, <- C. perm.
      + (* the first short branch of the piece *)
        specialize (IH (pre ++ [Some (e, c)]) true HKr Wr).
        assert (C := child_part_ok c true Wc Hc). unfold child_part in C.
        rewrite concat_single. simpl app at 1. rewrite !app_nil_r in *.
        rewrite <- IH, <- C. perm.
      + (* a branch that is not short, piece already collected *)
        specialize (IH (pre ++ [Some (e, c)]) true HKr Wr).
        assert (C := child_part_ok c false Wc Hc). unfold child_part in C.
        unfold CutBase.side_tips. simpl flat_map. rewrite S. fold (side_tips r). simpl app at 3.
        rewrite app_nil_r in IH. rewrite <- IH, <- C.
        destruct (is_tip c); simpl; perm.
      + specialize (IH (pre ++ [Some (e, c)]) false HKr Wr).
        assert (C := child_part_ok c false Wc Hc). unfold child_part in C.
        rewrite side_tips_app in IH. unfold CutBase.side_tips in IH at 2. simpl flat_map in IH.
        rewrite S in IH. simpl app in IH. rewrite !app_nil_r in *.
        rewrite <- C. destruct (is_tip c); simpl; rewrite IH; perm.
    - simpl kids_of in HK, W. simpl sg_go. simpl has_short.
      specialize (IH (pre ++ [None]) fl HK W).
      rewrite side_tips_app in IH. unfold CutBase.side_tips in IH at 2. simpl in IH. rewrite app_nil_r in IH.
      exact IH.
  Qed.

  Theorem sgroups_part t : part_ok t.
  Proof.
    induction t as [n c sl IH] using utree_ind'. intros fl W D.
    assert (HK : Forall (fun p : einfo * utree => part_ok (snd p)) (kids_of sl)).
    { clear -IH. induction IH as [|[[e ch]|] r Hs _ IHr]; simpl; auto. }
    rewrite wf_sub_unfold in W. apply andb_true_iff in W as [_ F].
    unfold degree in D. simpl in D.
    assert (T : Nat.eqb (length sl) 1 = false) by (apply Nat.eqb_neq; lia).
    rewrite sgroups_unfold, tipnames_unfold, comp_down_unfold, T. simpl app.
    rewrite (sg_go_part n sl [] fl HK F). destruct fl; [now rewrite app_nil_r|].
    destruct (has_short sl); now rewrite app_nil_r.
  Qed.

  (** the root *)
  Theorem sgroups_partition t :
    wf t = true -> Permutation (concat (sgroups t false)) (tipnames t).
  Proof.
    destruct t as [n c sl]. intros W. rewrite wf_unfold in W. apply andb_true_iff in W as [U F].
    apply Nat.eqb_eq in U.
    assert (HK : Forall (fun p : einfo * utree => part_ok (snd p)) (kids_of sl)).
    { apply Forall_forall. intros p _. apply sgroups_part. }
    rewrite sgroups_unfold, tipnames_unfold.
    destruct (Nat.eqb (length sl) 1) eqn:T.
    - (* a root with a single neighbour is a tip itself *)
      apply Nat.eqb_eq in T. assert (Hl := length_slots sl). rewrite U in Hl.
      destruct sl as [|[[e ch]|] [|s2 r2]]; simpl in *; try lia.
      apply andb_true_iff in F as [Wc _]. inversion HK as [|? ? Hc _]; subst. simpl in Hc.
      unfold ktips. simpl flat_map. rewrite !app_nil_r.
      destruct (sh e) eqn:S.
      + assert (C := child_part_ok ch true Wc Hc). unfold child_part in C.
        change (concat ((n :: comp_down ch) :: (if Nat.ltb 1 (degree ch) then sgroups ch true else [])))
          with (n :: (comp_down ch ++ concat (if Nat.ltb 1 (degree ch) then sgroups ch true else []))).
        apply perm_skip. exact C.
      + assert (C := child_part_ok ch false Wc Hc). unfold child_part in C.
        rewrite <- C. destruct (is_tip ch); simpl; apply perm_skip; reflexivity.
    - simpl app. assert (G := sg_go_part n sl [] false HK F). simpl in G.
      rewrite !app_nil_r in G. rewrite G. destruct (has_short sl); now rewrite app_nil_r.
  Qed.

  (** ** every group is the set of tips of one piece *)
  (** the nodes below [t] that are entered through a branch that is not short *)
  Fixpoint tops_below (t : utree) : list utree :=
    match t with
    | UNode _ _ sl =>
      flat_map (fun s : slot => match s with
                                | Some (e, c) => (if sh e then [] else [c]) ++ tops_below c
                                | None => [] end) sl
    end.
  Definition tops_slots (l : list slot) : list utree :=
    flat_map (fun s : slot => match s with
                              | Some (e, c) => (if sh e then [] else [c]) ++ tops_below c
                              | None => [] end) l.

  Definition grp_ok (t : utree) : Prop :=
    forall (fl : bool) (g : list string), (if fl then wf_sub t = true else wf_sub t = true \/ wf t = true) ->
                 In g (sgroups t fl) ->
                 exists v, In v ((if fl then [] else [t]) ++ tops_below t) /\ Permutation g (comp_down v).

  Lemma leaf_shape c : wf_sub c = true -> is_tip c = true -> comp_down c = [uname c].
  Proof.
    destruct c as [n cm sl]. rewrite wf_sub_unfold. unfold is_tip, degree. simpl uslots.
    intros W T. apply andb_true_iff in W as [U _]. apply Nat.eqb_eq in U, T.
    assert (Hl := length_slots sl). rewrite U in Hl.
    destruct sl as [|[p|] [|s2 r2]]; simpl in *; try lia. reflexivity.
  Qed.

  Lemma sg_go_grp n cm sl : forall l pre fl g,
      sl = pre ++ l ->
      Forall (fun p : einfo * utree => grp_ok (snd p)) (kids_of l) ->
      forallb (fun p => wf_sub (snd p)) (kids_of l) = true ->
      (fl = true -> Nat.eqb (length sl) 1 = false) ->
      In g (sg_go sgroups n (Nat.eqb (length sl) 1) pre l fl) ->
      (exists v, In v (tops_slots l) /\ Permutation g (comp_down v)) \/
      (fl = false /\ Permutation g (comp_down (UNode n cm sl))).
  Proof.
    induction l as [|[[e c]|] r IH]; intros pre fl g E HK W TF H.
    - destruct H.
    - simpl kids_of in HK, W. inversion HK as [|? ? Hc HKr]; subst. simpl in Hc.
      simpl in W. apply andb_true_iff in W as [Wc Wr].
      simpl sg_go in H. rewrite !in_app_iff in H. unfold tops_slots. simpl flat_map. fold (tops_slots r).
      destruct H as [H|[H|H]].
      + (* the group made at this branch *)
        destruct (sh e) eqn:S.
        * destruct fl; [destruct H|]. right. split; auto.
          match type of H with In g (match ?f with _ => _ end) => destruct f eqn:F; [destruct H|] end.
          destruct H as [<-|[]]. rewrite <- F. rewrite comp_down_unfold, side_tips_app.
          unfold CutBase.side_tips at 4. simpl flat_map. rewrite S. fold (side_tips r). perm.
        * rewrite in_app_iff in H. destruct H as [H|H].
          -- destruct (Nat.eqb (length (pre ++ Some (e, c) :: r)) 1) eqn:T; [|destruct H].
             destruct H as [<-|[]]. right.
             assert (F : fl = false) by (destruct fl; auto; specialize (TF eq_refl); congruence).
             split; auto. apply Nat.eqb_eq in T. rewrite app_length in T. simpl in T.
             assert (pre = [] /\ r = []) as [-> ->].
             { destruct pre, r; simpl in T; try lia; auto. }
             simpl app. rewrite comp_down_unfold. simpl length. simpl Nat.eqb.
             unfold CutBase.side_tips. simpl. now rewrite S.
          -- destruct (is_tip c) eqn:Tc; [|destruct H]. destruct H as [<-|[]].
             left. exists c. split; [rewrite !in_app_iff; left; left; now left|].
             now rewrite (leaf_shape c Wc Tc).
      + (* groups made below *)
        destruct (Nat.ltb 1 (degree c)) eqn:D; [|destruct H].
        assert (X : if sh e then wf_sub c = true else wf_sub c = true \/ wf c = true)
          by (destruct (sh e); auto).
        destruct (Hc (sh e) g X H) as [v [Hv Pv]]. left. exists v. split; auto.
        rewrite in_app_iff. left. destruct (sh e); simpl in *; auto.
      + (* later branches *)
        assert (E' : pre ++ Some (e, c) :: r = (pre ++ [Some (e, c)]) ++ r) by (now rewrite <- app_assoc).
        destruct (IH (pre ++ [Some (e, c)]) (fl || sh e) g E' HKr Wr) as [[v [Hv Pv]]|[F Pv]]; auto.
        * intros _. destruct fl; [apply TF; reflexivity|].
          (* the flag became true at this branch: if the node has a single neighbour there is
             no later branch *)
          destruct (Nat.eqb (length (pre ++ Some (e, c) :: r)) 1) eqn:T; auto.
          exfalso. apply Nat.eqb_eq in T. rewrite app_length in T. simpl in T.
          assert (r = []) by (destruct r; simpl in T; auto; lia). subst r. destruct H.
        * left. exists v. split; auto. rewrite in_app_iff. auto.
        * apply orb_false_iff in F as [F _]. right. auto.
    - simpl kids_of in HK, W. simpl sg_go in H.
      assert (E' : pre ++ None :: r = (pre ++ [None]) ++ r) by (now rewrite <- app_assoc).
      subst sl. rewrite E' in *. unfold tops_slots. simpl flat_map. fold (tops_slots r).
      now apply (IH (pre ++ [None]) fl g eq_refl HK W TF).
  Qed.

  Theorem sgroups_grp t : grp_ok t.
  Proof.
    induction t as [n c sl IH] using utree_ind'. intros fl g W H.
    assert (HK : Forall (fun p : einfo * utree => grp_ok (snd p)) (kids_of sl)).
    { clear -IH. induction IH as [|[[e ch]|] r Hs _ IHr]; simpl; auto. }
    assert (F : forallb (fun p => wf_sub (snd p)) (kids_of sl) = true).
    { destruct fl; [|destruct W as [W|W]]; try rewrite wf_sub_unfold in W; try rewrite wf_unfold in W;
        apply andb_true_iff in W; tauto. }
    rewrite sgroups_unfold in H.
    assert (TF : fl = true -> Nat.eqb (length sl) 1 = false \/ kids_of sl = []).
    { intros ->. rewrite wf_sub_unfold in W. apply andb_true_iff in W as [U _]. apply Nat.eqb_eq in U.
      assert (Hl := length_slots sl). rewrite U in Hl.
      destruct (kids_of sl); [now right|left]. apply Nat.eqb_neq. simpl in Hl. lia. }
    destruct (Nat.eqb (length sl) 1) eqn:T.
    - (* a single neighbour *)
      destruct fl.
      + destruct (TF eq_refl) as [X|X]; [discriminate|].
        exfalso. clear -H X. revert H. generalize (@nil slot) as pre.
        induction sl as [|[p|] r IHr]; intros pre H; simpl in *; try discriminate; eauto.
      + destruct (sg_go_grp n c sl sl [] false g eq_refl HK F) as [[v [Hv Pv]]|[_ Pv]]; auto.
        * discriminate.
        * now rewrite T.
        * exists v. split; auto. simpl. right. exact Hv.
        * exists (UNode n c sl). split; auto. now left.
    - destruct (sg_go_grp n c sl sl [] fl g eq_refl HK F) as [[v [Hv Pv]]|[X Pv]]; auto.
      + now rewrite T.
      + exists v. split; auto. rewrite in_app_iff. right. exact Hv.
      + subst fl. exists (UNode n c sl). split; auto. now left.
  Qed.
End Cut.

(** * CutEdgesMaxLength *)
Theorem cut_correct maxlen t :
  wf t = true ->
  exists gs, cut maxlen t = map bag_of gs /\
    Permutation (concat gs) (tip_names t) /\
    forall g, In g gs ->
      exists v, In v (t :: tops_below maxlen t) /\ Permutation g (comp_down maxlen v).
Proof.
  intros W. exists (sgroups maxlen t false). split; [now apply cut_sgroups|].
  split; [now apply sgroups_partition|].
  intros g H. destruct (sgroups_grp maxlen t false g) as [v [Hv Pv]]; auto.
  exists v. split; auto.
Qed.

(** a concrete run: ((a:1,b:2)0.5:3,c:4,d); cut at 3: the branch of length 3 and the branch
    of length 4 are removed, the branch without length stays *)
Lemma cut_example :
  cut 3%Q (UNode "" [] [Some (mkE 3 (1#2) nilv [], UNode "" [] [None; Some (mkE 1 nilv nilv [], UNode "a" [] [None]);
                                                                 Some (mkE 2 nilv nilv [], UNode "b" [] [None])]);
                        Some (mkE 4 nilv nilv [], UNode "c" [] [None]);
                        Some (mkE nilv nilv nilv [], UNode "d" [] [None])]%string)
  = [["a"; "b"]; ["c"]; ["d"]]%string.
Proof. vm_compute. reflexivity. Qed.
