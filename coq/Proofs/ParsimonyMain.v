(** C12, main statements about the model: the step count of ParsimonyAcr is the minimum
    number of changes; it does not depend on the rooting. *)
From Coq Require Import String ZArith QArith Bool Arith Lia List Permutation.
From GT Require Import Base.UTree Spec.Obs Spec.Parsimony Model.Reroot Model.Parsimony
     Proofs.ParsimonyVec Proofs.ParsimonyHartigan Proofs.ParsimonyReroot.
From GT Require Proofs.Reroot.
Import ListNotations.
Local Close Scope Q_scope.

Lemma is_mincost_unique : forall ts t m1 m2, is_mincost ts t m1 -> is_mincost ts t m2 -> m1 = m2.
Proof.
  intros ts t m1 m2 [[l1 [S1 C1]] L1] [[l2 [S2 C2]] L2].
  specialize (L1 l2 S2). specialize (L2 l1 S1). lia.
Qed.

(** * the step count does not depend on the rooting *)
Theorem up_steps_reroot : forall tv ts k t i t',
  wf t = true -> 2 <= degree t ->
  (forall n, In n (leaves t) -> tip_ok tv ts k n) ->
  reroot t i = Ok t' ->
  up_steps tv k t' = up_steps tv k t.
Proof.
  intros tv ts k t i t' Hwf Hd Htips Hr.
  assert (Hd1 : degree t <> 1) by lia.
  pose proof (up_steps_mincost tv ts k t Hwf Hd1 Htips) as M.
  destruct (reroot_mincost ts t i t' (up_steps tv k t) Hwf Hd1 Hr M) as [M' [Hwf' Hd']].
  destruct (GT.Proofs.Reroot.reroot_preserves t i t' Hwf Hd Hr) as [_ [_ [P _]]].
  assert (Htips' : forall n, In n (leaves t') -> tip_ok tv ts k n).
  { intros n Hn. apply Htips. eapply Permutation_in; eauto. }
  assert (Hd1' : degree t' <> 1) by lia.
  pose proof (up_steps_mincost tv ts k t' Hwf' Hd1' Htips') as M2.
  eapply is_mincost_unique; eauto.
Qed.

(** * the character variant *)
(** the tip named [n] holds the state given by the map, as an index of the sorted alphabet *)
Definition acr_ts (m : list (string * string)) (n : string) : list nat :=
  match lookup n m with
  | Some s => match index_of s (acr_alphabet m) with Some i => [i] | None => [] end
  | None => []
  end.

Lemma In_sinsert : forall x y l, In x (sinsert y l) <-> x = y \/ In x l.
Proof.
  induction l as [|z l IH]; simpl.
  - intuition congruence.
  - destruct (String.compare y z) eqn:E; simpl.
    + apply String.compare_eq_iff in E. subst. intuition congruence.
    + intuition congruence.
    + rewrite IH. intuition congruence.
Qed.

Lemma In_sset : forall x l, In x (sset l) <-> In x l.
Proof.
  induction l as [|y l IH]; simpl; [tauto|].
  unfold sset in *. simpl. rewrite In_sinsert, IH. intuition congruence.
Qed.

Lemma lookup_In : forall A n (m : list (string * A)) v, lookup n m = Some v -> In v (map snd m).
Proof.
  induction m as [|[k w] m IH]; intros v H; simpl in *; [discriminate|].
  destruct (String.eqb k n); [inversion H; auto | right; apply IH; exact H].
Qed.

Lemma index_of_In : forall s l, In s l -> exists i, index_of s l = Some i /\ i < length l.
Proof.
  induction l as [|x l IH]; intros H; simpl in *; [contradiction|].
  destruct (String.eqb x s) eqn:E.
  - exists 0. split; [reflexivity | lia].
  - destruct H as [H|H]; [subst; rewrite String.eqb_refl in E; discriminate|].
    destruct (IH H) as [i [Hi Hl]]. rewrite Hi. exists (S i). split; [reflexivity | lia].
Qed.

Lemma onehot_length : forall k i, length (onehot k i) = k.
Proof. intros. unfold onehot. rewrite map_length, seq_length. reflexivity. Qed.

Lemma nth_onehot : forall k i x, i < k -> nth x (onehot k i) 0 = if Nat.eqb x i then 1 else 0.
Proof.
  intros k i x Hi. unfold onehot.
  destruct (Nat.lt_ge_cases x k) as [L|G].
  - set (f := fun j => if Nat.eqb j i then 1 else 0).
    rewrite (nth_indep (map f (seq 0 k)) 0 (f 0)) by (rewrite map_length, seq_length; exact L).
    rewrite map_nth, seq_nth by exact L. reflexivity.
  - rewrite nth_overflow by (rewrite map_length, seq_length; exact G).
    destruct (Nat.eqb x i) eqn:E; [apply Nat.eqb_eq in E; lia | reflexivity].
Qed.

Lemma acr_tip_ok : forall m n s, lookup n m = Some s ->
  tip_ok (acr_tipvec m (acr_alphabet m)) (acr_ts m) (length (acr_alphabet m)) n.
Proof.
  intros m n s H.
  assert (Hin : In s (acr_alphabet m)).
  { unfold acr_alphabet. apply In_sset. eapply lookup_In; eauto. }
  destruct (index_of_In s _ Hin) as [i [Hi Hl]].
  unfold tip_ok, acr_tipvec, acr_ts. rewrite H, Hi.
  split; [apply onehot_length|]. split.
  - intros x. rewrite nth_onehot by exact Hl. unfold mem. simpl.
    destruct (Nat.eqb x i); reflexivity.
  - exists i. unfold mem. simpl. rewrite Nat.eqb_refl. reflexivity.
Qed.

(** Go's tips (one neighbour) are the leaves of the specification *)
Lemma all_tip_names_leaves_sub : forall c, wf_sub c = true -> all_tip_names c = leaves c.
Proof.
  induction c using utree_ind'. intros Hwf.
  pose proof (wf_sub_tip_leaf n c sl Hwf) as Htl.
  pose proof (wf_sub_slots n c sl Hwf) as Hw.
  simpl. rewrite Htl. unfold is_leaf, kids. simpl.
  destruct (kids_of sl) eqn:E; [reflexivity|].
  clear E Htl Hwf. induction sl as [|[[e t]|] sl IH]; simpl; auto.
  - inversion H; inversion Hw; subst. rewrite H2 by assumption. f_equal. apply IH; assumption.
  - inversion H; inversion Hw; subst. apply IH; assumption.
Qed.

Lemma all_tip_names_leaves : forall t, wf t = true -> 2 <= degree t -> all_tip_names t = leaves t.
Proof.
  intros [n c sl] Hwf Hd. unfold degree in Hd. simpl in Hd.
  pose proof (wf_slots n c sl Hwf) as Hw.
  simpl. destruct (Nat.eqb (length sl) 1) eqn:E; [apply Nat.eqb_eq in E; lia|].
  assert (Hk : kids_of sl <> []).
  { simpl in Hwf. apply andb_prop in Hwf. destruct Hwf as [Hu _]. apply Nat.eqb_eq in Hu.
    pose proof (length_up_kids sl). intro Q. rewrite Q in H. simpl in H. lia. }
  destruct (kids_of sl) eqn:Ek; [congruence|].
  clear Ek Hk E Hd Hwf. induction sl as [|[[e t]|] sl IH]; simpl; auto.
  - inversion Hw; subst. rewrite all_tip_names_leaves_sub by assumption. f_equal. apply IH; assumption.
  - inversion Hw; subst. apply IH; assumption.
Qed.

(** whatever the algorithm, ParsimonyAcr returns the up-pass step count *)
Lemma parsimony_acr_steps : forall t m a r, 2 <= degree t -> parsimony_acr t m a = Ok r ->
  acr_steps r = up_steps (acr_tipvec m (acr_alphabet m)) (length (acr_alphabet m)) t /\
  (forall n, In n (all_tip_names t) -> exists s, lookup n m = Some s).
Proof.
  intros t m a r Hd H. unfold parsimony_acr in H.
  destruct (find _ (all_tip_names t)) eqn:F; [discriminate|].
  split.
  - unfold parsimony in H.
    assert (is_tip t = false) by (unfold is_tip; apply Nat.eqb_neq; lia).
    rewrite H0 in H. unfold up_steps.
    destruct (uppass _ _ t) as [u s]. inversion H. reflexivity.
  - intros n Hn. pose proof (find_none _ _ F n Hn) as Q. simpl in Q.
    destruct (lookup n m) as [s|]; [eauto | discriminate].
Qed.

(** C12, first clause: the number of steps reported for a character is the minimum number of
    state changes over all labellings of the inner nodes, on every tree of any degree *)
Theorem acr_steps_optimal : forall t m a r,
  wf t = true -> 2 <= degree t -> parsimony_acr t m a = Ok r ->
  is_mincost (acr_ts m) t (acr_steps r).
Proof.
  intros t m a r Hwf Hd H.
  destruct (parsimony_acr_steps t m a r Hd H) as [Hs Hl]. rewrite Hs.
  apply up_steps_mincost; [exact Hwf | lia |].
  intros n Hn. rewrite <- all_tip_names_leaves in Hn by assumption.
  destruct (Hl n Hn) as [s Hs']. eapply acr_tip_ok; eauto.
Qed.

(** the model never fails when every tip has a state *)
Lemma parsimony_acr_defined : forall t m a,
  (forall n, In n (all_tip_names t) -> exists s, lookup n m = Some s) ->
  exists r, parsimony_acr t m a = Ok r.
Proof.
  intros t m a H. unfold parsimony_acr.
  destruct (find _ (all_tip_names t)) eqn:F.
  - apply find_some in F. destruct F as [Hin Q]. destruct (H _ Hin) as [s' Hs']. rewrite Hs' in Q. discriminate.
  - destruct (parsimony _ _ _ _ t). eauto.
Qed.

(** C12: the number of steps does not depend on the rooting *)
Theorem acr_steps_reroot : forall t m a r i t' r',
  wf t = true -> 2 <= degree t -> reroot t i = Ok t' ->
  parsimony_acr t m a = Ok r -> parsimony_acr t' m a = Ok r' ->
  acr_steps r' = acr_steps r.
Proof.
  intros t m a r i t' r' Hwf Hd Hr H H'.
  destruct (GT.Proofs.Reroot.reroot_preserves t i t' Hwf Hd Hr) as [Hwf' [Hd' _]].
  destruct (parsimony_acr_steps t m a r Hd H) as [Hs Hl].
  destruct (parsimony_acr_steps t' m a r' Hd' H') as [Hs' _].
  rewrite Hs, Hs'.
  eapply (up_steps_reroot _ (acr_ts m)); eauto.
  intros n Hn. rewrite <- all_tip_names_leaves in Hn by assumption.
  destruct (Hl n Hn) as [s Hs'']. eapply acr_tip_ok; eauto.
Qed.

(** re-rooting keeps the reconstruction defined *)
Theorem acr_reroot_defined : forall t m a r i t',
  wf t = true -> 2 <= degree t -> reroot t i = Ok t' ->
  parsimony_acr t m a = Ok r -> exists r', parsimony_acr t' m a = Ok r'.
Proof.
  intros t m a r i t' Hwf Hd Hr H.
  destruct (GT.Proofs.Reroot.reroot_preserves t i t' Hwf Hd Hr) as [Hwf' [Hd' [P _]]].
  destruct (parsimony_acr_steps t m a r Hd H) as [_ Hl].
  apply parsimony_acr_defined. intros n Hn.
  rewrite all_tip_names_leaves in Hn by assumption.
  apply Hl. rewrite all_tip_names_leaves by assumption.
  eapply Permutation_in; eauto.
Qed.
