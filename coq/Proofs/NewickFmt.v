(** The number printer of Model/NewickNum.v ([fmt_digits], [fmt_go]) against its number
    reader ([classify]): the text of  l * 10^j  contains only digits and '.', and is read back
    as [dec_round l j]; [fmt_go] only prints digits, '.' and '-'. *)
From Coq Require Import String Ascii ZArith QArith Bool Arith Lia List.
From GT Require Import Base.UTree Model.Newick Model.NewickNum Spec.NewickSpec Proofs.NewickLex.
Import ListNotations.
Local Close Scope Q_scope.
Local Open Scope string_scope.
Local Open Scope Z_scope.

(** * digits *)
Definition isdig (c : ascii) : bool := match dec_digit c with Some _ => true | None => false end.
Definition dotdig (c : ascii) : bool := isdig c || Ascii.eqb c ".".
(** the characters of a printed number *)
Definition numch (c : ascii) : bool := isdig c || Ascii.eqb c "." || Ascii.eqb c "-".

Lemma digit_cases : forall v, 0 <= v < 10 ->
    v = 0 \/ v = 1 \/ v = 2 \/ v = 3 \/ v = 4 \/ v = 5 \/ v = 6 \/ v = 7 \/ v = 8 \/ v = 9.
Proof. intros. lia. Qed.

Ltac digit_split H :=
  destruct (digit_cases _ H) as [?|[?|[?|[?|[?|[?|[?|[?|[?|?]]]]]]]]]; subst.

Lemma dec_digit_char : forall v, 0 <= v < 10 -> dec_digit (digit_char v) = Some v.
Proof. intros v H. digit_split H; reflexivity. Qed.

Lemma isdig_digit_char : forall v, 0 <= v < 10 -> isdig (digit_char v) = true.
Proof. intros v H. unfold isdig. rewrite dec_digit_char by assumption. reflexivity. Qed.

Lemma mod10_range : forall z, 0 <= z mod 10 < 10.
Proof. intros. apply Z.mod_pos_bound. lia. Qed.

Lemma mant_step_digit : forall v r m nd fd sd sg u, 0 <= v < 10 ->
    mant_loop false (String (digit_char v) r) m nd fd sd sg u =
    mant_loop false r (m * 10 + v) (nd + 1) (if sd then fd + 1 else fd) sd true u.
Proof. intros v r m nd fd sd sg u H. digit_split H; reflexivity. Qed.

Ltac tuple_eq :=
  repeat match goal with |- (_, _) = (_, _) => apply f_equal2 end; try reflexivity; try lia.

(** * pd *)
Lemma pd_chars : forall (P : ascii -> bool) k z acc,
    (forall v, 0 <= v < 10 -> P (digit_char v) = true) ->
    forall_chars P acc = true -> forall_chars P (pd k z acc) = true.
Proof.
  induction k; intros z acc HP Hacc; simpl; [exact Hacc|].
  apply IHk; [exact HP|]. simpl. rewrite HP by apply mod10_range. exact Hacc.
Qed.

Lemma pd_mant : forall k z acc m nd fd sd sg u,
    mant_loop false (pd k z acc) m nd fd sd sg u =
    mant_loop false acc (m * 10 ^ Z.of_nat k + z mod 10 ^ Z.of_nat k) (nd + Z.of_nat k)
              (if sd then fd + Z.of_nat k else fd) sd (sg || negb (Nat.eqb k 0)) u.
Proof.
  induction k; intros z acc m nd fd sd sg u.
  - simpl pd. f_equal.
    + change (10 ^ Z.of_nat 0) with 1. rewrite Z.mod_1_r. lia.
    + simpl. lia.
    + destruct sd; simpl; lia.
    + simpl. rewrite orb_false_r. reflexivity.
  - simpl pd. rewrite IHk. rewrite mant_step_digit by apply mod10_range.
    assert (Hp : 10 ^ Z.of_nat (S k) = 10 * 10 ^ Z.of_nat k).
    { rewrite Nat2Z.inj_succ, Z.pow_succ_r by lia. reflexivity. }
    assert (Hpos : 0 < 10 ^ Z.of_nat k) by (apply Z.pow_pos_nonneg; lia).
    f_equal.
    + rewrite Hp. rewrite (Z.rem_mul_r z 10 (10 ^ Z.of_nat k)) by lia. lia.
    + lia.
    + destruct sd; lia.
    + simpl. rewrite orb_true_r. reflexivity.
Qed.

Lemma pd_head : forall k z acc, exists v r, 0 <= v < 10 /\ pd (S k) z acc = String (digit_char v) r.
Proof.
  induction k; intros z acc.
  - exists (z mod 10), acc. split; [apply mod10_range|reflexivity].
  - change (pd (S (S k)) z acc) with (pd (S k) (z / 10) (String (digit_char (z mod 10)) acc)).
    apply IHk.
Qed.

(** * number of digits *)
Lemma ndig_aux_bound : forall fuel z, 0 <= z < 2 ^ Z.of_nat fuel -> z < 10 ^ Z.of_nat (ndig_aux fuel z).
Proof.
  induction fuel; intros z Hz.
  - simpl in *. lia.
  - cbn [ndig_aux]. destruct (z =? 0) eqn:E.
    + apply Z.eqb_eq in E. subst. simpl. lia.
    + apply Z.eqb_neq in E.
      assert (Hd : 0 <= z / 10 < 2 ^ Z.of_nat fuel).
      { rewrite Nat2Z.inj_succ, Z.pow_succ_r in Hz by lia. split; [apply Z.div_pos; lia|].
        apply Z.div_lt_upper_bound; lia. }
      specialize (IHfuel _ Hd).
      rewrite Nat2Z.inj_succ, Z.pow_succ_r by lia.
      pose proof (Z.div_mod z 10 ltac:(lia)). pose proof (mod10_range z). lia.
Qed.

Lemma ndig_bound : forall z, 0 < z -> z < 10 ^ Z.of_nat (ndig z).
Proof.
  intros z Hz. unfold ndig. apply ndig_aux_bound.
  split; [lia|]. rewrite Nat2Z.inj_succ, Z2Nat.id by apply Z.log2_nonneg.
  apply Z.log2_spec. exact Hz.
Qed.

Lemma ndig_pos : forall z, 0 < z -> (1 <= ndig z)%nat.
Proof.
  intros z Hz. unfold ndig. cbn [ndig_aux].
  destruct (z =? 0) eqn:E; [apply Z.eqb_eq in E; lia|]. lia.
Qed.

(** * fmt_digits *)
Lemma fmt_digits_chars : forall l j, forall_chars dotdig (fmt_digits l j) = true.
Proof.
  intros l j. unfold fmt_digits.
  assert (HP : forall v, 0 <= v < 10 -> dotdig (digit_char v) = true).
  { intros v H. unfold dotdig. rewrite isdig_digit_char by assumption. reflexivity. }
  destruct (0 <=? j).
  - apply pd_chars; [exact HP|]. apply pd_chars; [exact HP|reflexivity].
  - assert (Ht : forall_chars dotdig (String "." (pd (Z.to_nat (- j)) l "")) = true).
    { simpl. apply pd_chars; [exact HP|reflexivity]. }
    destruct (l / 10 ^ Z.of_nat (Z.to_nat (- j)) =? 0).
    + simpl. simpl in Ht. exact Ht.
    + apply pd_chars; [exact HP|exact Ht].
Qed.

Lemma fmt_digits_head : forall l j, 0 < l -> exists c r, fmt_digits l j = String c r /\ isdig c = true.
Proof.
  intros l j Hl. unfold fmt_digits. destruct (0 <=? j).
  - pose proof (ndig_pos l Hl). destruct (ndig l) as [|k]; [lia|].
    destruct (pd_head k l (pd (Z.to_nat j) 0 "")) as [v [r [Hv He]]].
    exists (digit_char v), r. split; [exact He|apply isdig_digit_char; exact Hv].
  - destruct (l / 10 ^ Z.of_nat (Z.to_nat (- j)) =? 0) eqn:E.
    + eexists _, _. split; reflexivity.
    + apply Z.eqb_neq in E.
      assert (Hip : 0 < l / 10 ^ Z.of_nat (Z.to_nat (- j))).
      { assert (0 <= l / 10 ^ Z.of_nat (Z.to_nat (- j))) by (apply Z.div_pos; [lia|apply Z.pow_pos_nonneg; lia]). lia. }
      pose proof (ndig_pos _ Hip). destruct (ndig _) as [|k]; [lia|].
      destruct (pd_head k (l / 10 ^ Z.of_nat (Z.to_nat (- j))) (String "." (pd (Z.to_nat (- j)) l ""))) as [v [r [Hv He]]].
      exists (digit_char v), r. split; [exact He|apply isdig_digit_char; exact Hv].
Qed.

(** what the mantissa loop of readFloat sees *)
Lemma fmt_digits_mant : forall l j, 0 < l ->
    exists nd,
      mant_loop false (fmt_digits l j) 0 0 0 false false false =
      (if 0 <=? j then l * 10 ^ j else l, nd, if 0 <=? j then 0 else - j, true, false, "") /\
      0 <= nd /\ (j < 0 -> 1 <= nd + j).
Proof.
  intros l j Hl. unfold fmt_digits. destruct (0 <=? j) eqn:Ej.
  - apply Z.leb_le in Ej.
    exists (Z.of_nat (ndig l) + Z.of_nat (Z.to_nat j)).
    split; [|split; [lia|lia]].
    rewrite pd_mant, pd_mant. cbn [mant_loop].
    pose proof (ndig_bound l Hl) as Hb. pose proof (ndig_pos l Hl) as Hp.
    rewrite (Z.mod_small l) by lia. rewrite Z.mod_0_l by (apply Z.pow_nonzero; lia).
    rewrite Z2Nat.id by lia.
    destruct (ndig l) as [|k]; [lia|]. simpl orb.
    tuple_eq.
  - apply Z.leb_gt in Ej.
    set (f := Z.to_nat (- j)).
    assert (Hf : Z.of_nat f = - j) by (unfold f; rewrite Z2Nat.id; lia).
    assert (Hpw : 0 < 10 ^ Z.of_nat f) by (apply Z.pow_pos_nonneg; lia).
    assert (Hfpos : (1 <= f)%nat) by lia.
    destruct (l / 10 ^ Z.of_nat f =? 0) eqn:E.
    + apply Z.eqb_eq in E.
      exists (1 + Z.of_nat f). split; [|split; [lia|lia]].
      replace (String "0" (String "." (pd f l ""))) with (String (digit_char 0) (String "." (pd f l ""))) by reflexivity.
      rewrite mant_step_digit by lia.
      cbn [mant_loop]. change (Ascii.eqb "." "_") with false. change (Ascii.eqb "." ".") with true. cbv iota.
      rewrite pd_mant. cbn [mant_loop].
      assert (Hsmall : l mod 10 ^ Z.of_nat f = l).
      { apply Z.mod_small. split; [lia|]. pose proof (Z.div_mod l (10 ^ Z.of_nat f) ltac:(lia)).
        pose proof (Z.mod_pos_bound l (10 ^ Z.of_nat f) Hpw). lia. }
      rewrite Hsmall. destruct f as [|f']; [lia|]. simpl orb.
      tuple_eq.
    + apply Z.eqb_neq in E.
      set (ip := l / 10 ^ Z.of_nat f) in *.
      assert (Hip : 0 < ip).
      { assert (0 <= ip) by (apply Z.div_pos; lia). lia. }
      exists (Z.of_nat (ndig ip) + Z.of_nat f).
      pose proof (ndig_pos ip Hip) as Hp.
      split; [|split; [lia|lia]].
      rewrite pd_mant.
      cbn [mant_loop]. change (Ascii.eqb "." "_") with false. change (Ascii.eqb "." ".") with true. cbv iota.
      rewrite pd_mant. cbn [mant_loop].
      pose proof (ndig_bound ip Hip) as Hb.
      rewrite (Z.mod_small ip) by lia.
      destruct (ndig ip) as [|k]; [lia|]. destruct f as [|f']; [lia|]. simpl orb.
      pose proof (Z.div_mod l (10 ^ Z.of_nat (S f')) ltac:(lia)) as Hdm. fold ip in Hdm.
      tuple_eq.
Qed.

(** * reading the text back *)
Lemma isdig_inv : forall c, isdig c = true -> exists v, 0 <= v < 10 /\ c = digit_char v.
Proof.
  intros c H. unfold isdig, dec_digit in H.
  destruct (Nat.leb 48 (nat_of_ascii c) && Nat.leb (nat_of_ascii c) 57)%bool eqn:E; [|discriminate].
  apply andb_true_iff in E. destruct E as [E1 E2]. apply Nat.leb_le in E1. apply Nat.leb_le in E2.
  exists (Z.of_nat (nat_of_ascii c - 48)). split; [lia|].
  unfold digit_char. rewrite Nat2Z.id.
  replace (48 + (nat_of_ascii c - 48))%nat with (nat_of_ascii c) by lia.
  symmetry. apply ascii_nat_embedding.
Qed.

Lemma dotdig_not_x : forall c, dotdig c = true -> Ascii.eqb (lower c) "x" = false.
Proof.
  intros c H. unfold dotdig in H. apply orb_true_iff in H. destruct H as [H|H].
  - destruct (isdig_inv c H) as [v [Hv Hc]]. subst c. digit_split Hv; reflexivity.
  - apply Ascii.eqb_eq in H. subst c. reflexivity.
Qed.

Lemma hex_prefix_none : forall s1, forall_chars dotdig s1 = true ->
    (match s1 with
     | String z (String x (String c r)) =>
       if (Ascii.eqb z "0" && Ascii.eqb (lower x) "x")%bool then (true, String c r) else (false, s1)
     | _ => (false, s1)
     end) = (false, s1).
Proof.
  intros s1 H. destruct s1 as [|z [|x [|c r]]]; try reflexivity.
  simpl in H. apply andb_true_iff in H. destruct H as [_ H]. apply andb_true_iff in H. destruct H as [Hx _].
  rewrite (dotdig_not_x x Hx). rewrite andb_false_r. reflexivity.
Qed.

Lemma scaled_dec : forall neg l j nd, 0 < l -> 0 <= nd -> (j < 0 -> 1 <= nd + j) ->
    scaled_value false neg (if 0 <=? j then l * 10 ^ j else l) nd (0 - (if 0 <=? j then 0 else - j)) =
    match dec_round l j with Some q => Fin (neg_q neg q) | None => NotNum end.
Proof.
  intros neg l j nd Hl Hnd Hj. unfold scaled_value, dec_round. destruct (0 <=? j) eqn:Ej.
  - apply Z.leb_le in Ej.
    assert (Hp : 0 < l * 10 ^ j) by (apply Z.mul_pos_pos; [lia|apply Z.pow_pos_nonneg; lia]).
    replace (l * 10 ^ j =? 0) with false by (symmetry; apply Z.eqb_neq; lia).
    change (0 - 0) with 0.
    replace (310 <? 0) with false by reflexivity.
    replace (nd + 0 <? -330) with false by (symmetry; apply Z.ltb_ge; lia).
    change (0 <=? 0) with true. cbv iota.
    rewrite Z.pow_0_r, Z.mul_1_r. reflexivity.
  - apply Z.leb_gt in Ej.
    replace (0 - - j) with j by lia.
    replace (l =? 0) with false by (symmetry; apply Z.eqb_neq; lia).
    replace (310 <? j) with false by (symmetry; apply Z.ltb_ge; lia).
    replace (nd + j <? -330) with false by (symmetry; apply Z.ltb_ge; lia).
    replace (0 <=? j) with false by (symmetry; apply Z.leb_gt; lia).
    reflexivity.
Qed.

Lemma classify_fmt : forall (neg : bool) l j, 0 < l ->
    classify ((if neg then "-" else "") ++ fmt_digits l j)%string =
    match dec_round l j with Some q => Fin (neg_q neg q) | None => NotNum end.
Proof.
  intros neg l j Hl.
  destruct (fmt_digits_head l j Hl) as [c [r [Hb Hc]]].
  destruct (fmt_digits_mant l j Hl) as [nd [Hm [Hnd Hndj]]].
  pose proof (fmt_digits_chars l j) as Hch.
  rewrite <- (scaled_dec neg l j nd Hl Hnd Hndj).
  rewrite Hb in *. clear Hb.
  destruct (isdig_inv c Hc) as [v [Hv Hcv]]. subst c.
  unfold classify.
  assert (Hsp : is_special ((if neg then "-" else "") ++ String (digit_char v) r)%string = false).
  { destruct neg; digit_split Hv; reflexivity. }
  rewrite Hsp.
  assert (Hsign : (match ((if neg then "-" else "") ++ String (digit_char v) r)%string with
                   | String c0 r0 =>
                     if Ascii.eqb c0 "+" then (false, r0)
                     else if Ascii.eqb c0 "-" then (true, r0)
                          else (false, ((if neg then "-" else "") ++ String (digit_char v) r)%string)
                   | EmptyString => (false, ((if neg then "-" else "") ++ String (digit_char v) r)%string)
                   end) = (neg, String (digit_char v) r)).
  { destruct neg; [reflexivity|]. digit_split Hv; reflexivity. }
  rewrite Hsign. rewrite (hex_prefix_none _ Hch). rewrite Hm.
  cbn. reflexivity.
Qed.

Lemma parse_numC_fmt : forall (neg : bool) l j, 0 < l ->
    parse_numC ((if neg then "-" else "") ++ fmt_digits l j)%string =
    match dec_round l j with Some q => Some (neg_q neg q) | None => None end.
Proof.
  intros. unfold parse_numC. rewrite classify_fmt by assumption. destruct (dec_round l j); reflexivity.
Qed.

Lemma numericC_fmt : forall (neg : bool) l j q, 0 < l -> dec_round l j = Some q ->
    numericC ((if neg then "-" else "") ++ fmt_digits l j)%string = true.
Proof.
  intros. unfold numericC. rewrite classify_fmt by assumption. rewrite H0. reflexivity.
Qed.

(** * fmt_go prints digits, '.', '-' only *)
Lemma dotdig_numch : forall c, dotdig c = true -> numch c = true.
Proof. intros c H. unfold numch. unfold dotdig in H. rewrite H. reflexivity. Qed.

Theorem fmt_go_chars : forall x, forall_chars numch (fmt_go x) = true.
Proof.
  intros x. unfold fmt_go.
  destruct (Qnum (Qred x) =? 0); [reflexivity|].
  destruct (match shortest_from 17 1 _ _ _ with Some p => p | None => _ end) as [l j].
  rewrite forall_chars_app. apply andb_true_iff. split.
  - destruct (Qnum (Qred x) <? 0); reflexivity.
  - eapply forall_chars_impl; [|apply fmt_digits_chars]. apply dotdig_numch.
Qed.

(** in particular none of the characters other formats care about *)
Lemma numch_plain : forall c, numch c = true ->
    num_char c = true /\ Ascii.eqb c "=" = false /\ Ascii.eqb c " " = false /\
    Ascii.eqb c "'" = false /\ Ascii.eqb c """" = false /\ Ascii.eqb c "<" = false /\
    Ascii.eqb c ">" = false /\ Ascii.eqb c "&" = false.
Proof.
  intros c H. unfold numch in H. apply orb_true_iff in H. destruct H as [H|H].
  - apply orb_true_iff in H. destruct H as [H|H].
    + destruct (isdig_inv c H) as [v [Hv Hc]]. subst c. digit_split Hv; repeat split; reflexivity.
    + apply Ascii.eqb_eq in H. subst c. repeat split; reflexivity.
  - apply Ascii.eqb_eq in H. subst c. repeat split; reflexivity.
Qed.
