(** C10: the edge index of FBP / TBE is a set of bipartitions.
    Model/Support.v represents the per-bootstrap EdgeIndex by the list of the bitsets put into
    it and [Value] by [existsb EqualOrComplement] ([index_has]).  Here this is derived from the
    C04 development (Model/HashMap.v, Model/EdgeIndex.v: bucket array, FNV hash codes of the tip
    names, load factor, rehash): for any initial capacity and resize policy, after putting the
    rows of the kept branches of a bootstrap tree into a new index, looking up the row of a
    reference branch succeeds exactly when [index_has] says so -- provided both trees are on
    the same taxa, which FBP and TBE check before touching the index.  (C04:
    [hashcode_same_split], equal bipartitions have equal hash codes, inside
    [edgeindex_refines_gen]; [ekey_eqb_same_split].) *)
From Coq Require Import String NArith ZArith QArith Bool Arith Lia Permutation List.
From GT Require Import Base.UTree Spec.Obs Spec.Support Model.Support
     Model.Index Model.HashMap Model.EdgeIndex
     Proofs.IndexSplit Proofs.EdgeIndex
     Proofs.SupportBase Proofs.SupportSpec.
Import ListNotations.
Local Close Scope Q_scope.

(** * association lists keyed by branches *)
Definition akeys (a : list (ekey * einfo_v)) : list ekey := map fst a.

Lemma ea_value_some : forall a q,
    ea_value a q <> None <-> exists s, In s (akeys a) /\ ekey_eqb q s = true.
Proof.
  intros a q. unfold ea_value, assoc_value, bucket_find, akeys.
  induction a as [|[k v] a IH]; simpl.
  - split; [congruence|intros [s [[] _]]].
  - destruct (ekey_eqb q k) eqn:E.
    + split; [intros _; exists k; auto|discriminate].
    + rewrite IH. split.
      * intros [s [Hs Es]]. exists s. auto.
      * intros [s [[<-|Hs] Es]]; [congruence|exists s; auto].
Qed.

Lemma ea_put_keys : forall a k v,
    (akeys (ea_put a k v) = akeys a /\ exists s, In s (akeys a) /\ ekey_eqb k s = true) \/
    (akeys (ea_put a k v) = akeys a ++ [k]).
Proof.
  intros a k v. unfold ea_put, assoc_put, akeys.
  induction a as [|[k' v'] a IH]; simpl.
  - right. reflexivity.
  - destruct (ekey_eqb k k') eqn:E.
    + left. simpl. split; [reflexivity|]. exists k'. auto.
    + destruct (bucket_set ekey einfo_v ekey_eqb k v a) as [a'|] eqn:B.
      * destruct IH as [[E1 [s [Hs Es]]]|E1].
        -- left. simpl. rewrite E1. split; [reflexivity|]. exists s. auto.
        -- exfalso. apply (f_equal (@length ekey)) in E1. rewrite app_length, !map_length in E1.
           assert (length a' = length a); [|simpl in E1; lia].
           clear -B. revert a' B. induction a as [|[k2 v2] a IHa]; intros a' B; simpl in B; [discriminate|].
           destruct (ekey_eqb k k2); [inversion B; reflexivity|].
           destruct (bucket_set ekey einfo_v ekey_eqb k v a) eqn:B2; [|discriminate].
           inversion B; subst. simpl. f_equal. apply IHa. reflexivity.
      * destruct IH as [[E1 _]|E1]; simpl.
        -- right. simpl. f_equal. rewrite map_app. reflexivity.
        -- right. simpl. f_equal. rewrite map_app. reflexivity.
Qed.

Definition put_op (p : ekey * Z * Q) : eiop := EIPut (fst (fst p)) (snd (fst p)) (snd p).
Definition after_puts (a : list (ekey * einfo_v)) (puts : list (ekey * Z * Q)) : list (ekey * einfo_v) :=
  fold_left (fun a p => ea_put a (fst (fst p)) (snd (fst p), snd p)) puts a.

Lemma run_puts_value : forall puts a q,
    fst (ei_run_assoc a (map put_op puts ++ [EIValue q]))
    = map (fun _ => EIOk) puts ++ [EIVal (ea_value (after_puts a puts) q)].
Proof.
  induction puts as [|[[k cn] ln] puts IH]; intros a q; simpl; [reflexivity|].
  specialize (IH (ea_put a k (cn, ln)) q).
  destruct (ei_run_assoc (ea_put a k (cn, ln)) (map put_op puts ++ [EIValue q])) as [rs af].
  simpl in *. rewrite IH. reflexivity.
Qed.

Section Keys.
  Variable L : list string.

  (** what can be found after the puts: a stored key equal to the query exists iff one of the
      keys that were put is equal to it *)
  Lemma after_puts_keys : forall puts a q,
      Forall (ok_key L) (akeys a) -> Forall (fun p => ok_key L (fst (fst p))) puts -> ok_key L q ->
      ((exists s, In s (akeys (after_puts a puts)) /\ ekey_eqb q s = true) <->
       (exists s, In s (akeys a ++ map (fun p => fst (fst p)) puts) /\ ekey_eqb q s = true)).
  Proof.
    induction puts as [|[[k cn] ln] puts IH]; intros a q Oa Op Oq.
    - simpl. rewrite app_nil_r. reflexivity.
    - inversion Op as [|? ? Ok Op']; subst. cbn [fst snd] in Ok.
      cbn [after_puts fold_left fst snd]. fold (after_puts (ea_put a k (cn, ln)) puts).
      destruct (ea_put_keys a k (cn, ln)) as [[E [s0 [Hs0 Es0]]]|E].
      + rewrite IH by (try rewrite E; assumption). rewrite E. cbn [map fst].
        split; intros [s [Hs Es]].
        * exists s. split; [|exact Es]. apply in_app_or in Hs. apply in_or_app.
          destruct Hs; [left|right; right]; assumption.
        * apply in_app_or in Hs. destruct Hs as [Hs|[<-|Hs]].
          -- exists s. split; [apply in_or_app; left; exact Hs|exact Es].
          -- exists s0. split; [apply in_or_app; left; exact Hs0|].
             rewrite Forall_forall in Oa. eapply (ekey_trans L q k s0); auto.
          -- exists s. split; [apply in_or_app; right; exact Hs|exact Es].
      + rewrite IH; [|rewrite E; apply Forall_app; split; [exact Oa|constructor; [exact Ok|constructor]]|exact Op'|exact Oq].
        rewrite E, <- app_assoc. reflexivity.
  Qed.
End Keys.

(** * C04's "same bipartition" is the one of Spec/Support.v *)
Lemma mem_iff : forall x A B, mem x A = mem x B <-> (In x A <-> In x B).
Proof.
  intros x A B. rewrite <- !mem_In. destruct (mem x A), (mem x B); intuition congruence.
Qed.

Lemma mem_neg_iff : forall x A B, mem x A = negb (mem x B) <-> (In x A <-> ~ In x B).
Proof.
  intros x A B. rewrite <- !mem_In. destruct (mem x A), (mem x B); simpl; intuition congruence.
Qed.

Lemma same_split_c04 : forall X A B,
    Proofs.IndexSplit.same_split X A B <-> Spec.Support.same_split X A B = true.
Proof.
  intros X A B. rewrite same_split_spec. unfold Proofs.IndexSplit.same_split, same_side, other_side.
  split; intros [H|H]; [left|right|left|right]; intros x Hx; specialize (H x Hx).
  - apply mem_iff. exact H.
  - apply mem_neg_iff. exact H.
  - apply mem_iff. exact H.
  - apply mem_neg_iff. exact H.
Qed.

(** * the index of one bootstrap tree, queried with a reference branch *)
Section Lookup.
  Variables (need : nat -> N -> bool) (cap : N).
  Variables (ref boot : utree).
  Variable keep : einfo * utree -> bool.       (* FBP: inner branches; TBE: all *)
  Variable puts : list (ekey * Z * Q).
  Variables (q : ekey) (ecq : einfo * utree).

  Hypothesis Gref : Proofs.SupportBase.good ref.
  Hypothesis Gboot : Proofs.SupportBase.good boot.
  Hypothesis Same : Permutation (leaves ref) (leaves boot).
  Hypothesis Hcap : (cap < W64)%N.
  (** the keys put are rows of kept branches of the bootstrap tree, and every kept branch is put *)
  Hypothesis Sound : forall p, In p puts -> exists ec, branch_row boot ec (ek_row (fst (fst p))) /\ keep ec = true.
  Hypothesis Complete : forall ec, In ec (edges boot) -> keep ec = true ->
                                   exists p, In p puts /\ branch_row boot ec (ek_row (fst (fst p))).
  Hypothesis Query : branch_row ref ecq (ek_row q).

  Let L := leaves ref.

  Lemma ok_q : ok_key L q.
  Proof. exists ref, ecq. split; [exact Gref|]. split; [reflexivity|exact Query]. Qed.

  Lemma ok_puts : Forall (fun p => ok_key L (fst (fst p))) puts.
  Proof.
    apply Forall_forall. intros p Hp. destruct (Sound p Hp) as [ec [B _]].
    exists boot, ec. split; [exact Gboot|]. split; [exact Same|exact B].
  Qed.

  (** HashEquals between the query and the row of a branch of the bootstrap tree *)
  Lemma eqb_model : forall k ec,
      branch_row boot ec (ek_row k) ->
      (ekey_eqb q k = true <->
       Model.Support.equal_or_complement (tip_names ref) (below (snd ecq)) (below (snd ec)) = true).
  Proof.
    intros k ec B.
    rewrite (ekey_eqb_same_split L ref ecq boot ec q k Gref Gboot (Permutation_refl _) Same Query B).
    rewrite same_split_c04, equal_or_complement_same_split.
    destruct (branch_row_describes ref ecq _ Gref Query) as [_ Iq].
    destruct (branch_row_describes boot ec _ Gboot B) as [_ Ib].
    destruct Gref as [W [D N]]. destruct Gboot as [Wb [Db Nb]].
    rewrite (tip_names_leaves ref W D). unfold below.
    destruct ecq as [eq cq]. destruct ec as [eb cb]. cbn [snd] in *.
    rewrite (all_tip_names_leaves cq) by (eapply subs_wf; [exact W|eapply edges_in_subs; eassumption]).
    rewrite (all_tip_names_leaves cb) by (eapply subs_wf; [exact Wb|eapply edges_in_subs; eassumption]).
    reflexivity.
  Qed.

  Theorem edge_index_lookup : forall rs mf,
      ei_run need (new_edge_index cap) (map put_op puts ++ [EIValue q]) = Some (rs, mf) ->
      exists r, rs = map (fun _ => EIOk) puts ++ [EIVal r] /\
                (r <> None <->
                 index_has (tip_names ref) (map (fun ec => below (snd ec)) (filter keep (edges boot)))
                           (below (snd ecq)) = true).
  Proof.
    intros rs mf H.
    assert (OK : eiops_ok L (map put_op puts ++ [EIValue q])).
    { unfold eiops_ok. apply Forall_app. split.
      - apply Forall_forall. intros o Ho. apply in_map_iff in Ho. destruct Ho as [p [<- Hp]].
        pose proof ok_puts as F. rewrite Forall_forall in F. exact (F p Hp).
      - constructor; [exact ok_q|constructor]. }
    destruct (edgeindex_refines_gen L need cap _ rs mf Hcap OK H) as [E _].
    rewrite run_puts_value in E. exists (ea_value (after_puts [] puts) q). split; [exact E|].
    rewrite ea_value_some.
    rewrite (after_puts_keys L puts [] q (Forall_nil _) ok_puts ok_q). cbn [akeys map app].
    unfold index_has. rewrite existsb_exists. split.
    - intros [s [Hs Es]]. apply in_map_iff in Hs. destruct Hs as [p [<- Hp]].
      destruct (Sound p Hp) as [ec [B K]]. exists (below (snd ec)). split.
      + apply in_map_iff. exists ec. split; [reflexivity|]. apply filter_In. split; [|exact K].
        apply (branch_row_describes boot ec _ Gboot B).
      + apply (eqb_model _ ec B). exact Es.
    - intros [Bs [HB EB]]. apply in_map_iff in HB. destruct HB as [ec [<- Hec]].
      apply filter_In in Hec. destruct Hec as [Hec K].
      destruct (Complete ec Hec K) as [p [Hp B]]. exists (fst (fst p)). split.
      + apply in_map_iff. exists p. split; [reflexivity|exact Hp].
      + apply (eqb_model _ ec B). exact EB.
  Qed.
End Lookup.

(** the two instances *)
Theorem fbp_index_lookup :
  forall need cap ref boot puts q ecq rs mf,
    Proofs.SupportBase.good ref -> Proofs.SupportBase.good boot -> Permutation (leaves ref) (leaves boot) ->
    (cap < W64)%N ->
    (forall p, In p puts -> exists ec, branch_row boot ec (ek_row (fst (fst p))) /\ negb (is_tip (snd ec)) = true) ->
    (forall ec, In ec (edges boot) -> negb (is_tip (snd ec)) = true ->
                exists p, In p puts /\ branch_row boot ec (ek_row (fst (fst p)))) ->
    branch_row ref ecq (ek_row q) ->
    ei_run need (new_edge_index cap) (map put_op puts ++ [EIValue q]) = Some (rs, mf) ->
    exists r, rs = map (fun _ => EIOk) puts ++ [EIVal r] /\
              (r <> None <-> index_has (tip_names ref) (fbp_index boot) (below (snd ecq)) = true).
Proof.
  intros. eapply (edge_index_lookup need cap ref boot (fun ec => negb (is_tip (snd ec)))); eassumption.
Qed.

Theorem tbe_index_lookup :
  forall need cap ref boot puts q ecq rs mf,
    Proofs.SupportBase.good ref -> Proofs.SupportBase.good boot -> Permutation (leaves ref) (leaves boot) ->
    (cap < W64)%N ->
    (forall p, In p puts -> exists ec, branch_row boot ec (ek_row (fst (fst p)))) ->
    (forall ec, In ec (edges boot) -> exists p, In p puts /\ branch_row boot ec (ek_row (fst (fst p)))) ->
    branch_row ref ecq (ek_row q) ->
    ei_run need (new_edge_index cap) (map put_op puts ++ [EIValue q]) = Some (rs, mf) ->
    exists r, rs = map (fun _ => EIOk) puts ++ [EIVal r] /\
              (r <> None <-> index_has (tip_names ref) (tbe_index boot) (below (snd ecq)) = true).
Proof.
  intros need cap ref boot puts q ecq rs mf G Gb S Hc So Co Q H.
  destruct (edge_index_lookup need cap ref boot (fun _ => true) puts q ecq G Gb S Hc) with (rs := rs) (mf := mf)
    as [r [E I]]; try assumption.
  - intros p Hp. destruct (So p Hp) as [ec B]. exists ec. auto.
  - intros ec Hec _. apply Co. exact Hec.
  - exists r. split; [exact E|]. rewrite I. unfold tbe_index.
    replace (filter (fun _ : einfo * utree => true) (edges boot)) with (edges boot); [reflexivity|].
    clear. induction (edges boot) as [|x l IH]; simpl; [reflexivity|]. rewrite <- IH. reflexivity.
Qed.
