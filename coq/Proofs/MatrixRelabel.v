(** C14, homonymous tips: the renaming [relabel_tips] of Model/Matrix.v, on which the judge and
    the model reduce a tree with homonymous tips to a tree with distinct tip names.
      - the renamed tree has the same shape, branches, comments and inner names (only tip names
        change), hence the same path sums in the same positions;
      - its leaves are pairwise distinct (fewer than 200 tips), so it is in the domain of all the
        matrix theorems ([good]).
    The order of homonyms among themselves in the rows of the code is the order of Tree.Tips()
    because sort.Slice is an insertion sort up to 12 elements (Go runtime: an assumption stated
    in driver/props/c14.py, exercised by the correspondence on trees of at most 12 tips). *)
From Coq Require Import String Ascii ZArith QArith Bool Arith Lia List Permutation.
From GT Require Import Base.UTree Spec.Obs Spec.Unrooted Model.Reroot Proofs.RerootBase Proofs.PruneBase
     Model.Matrix Proofs.MatrixWalk Proofs.MatrixCells Proofs.MatrixMain.
Import ListNotations.
Local Close Scope Q_scope.
Local Arguments n_up : simpl never.

(** * the renaming, on lists *)
Fixpoint rl (l seen : list string) : list string :=
  match l with
  | [] => []
  | x :: r => tag x (count_of x seen) :: rl r (x :: seen)
  end.

Lemma relabel_names_rl l : relabel_names l = rl l [].
Proof.
  unfold relabel_names.
  match goal with |- ?F l [] = _ => assert (H : forall l s, F l s = rl l s) end.
  { induction l0 as [|x r IH]; intros s; simpl; auto. }
  apply H.
Qed.

Lemma rl_app a : forall b seen, rl (a ++ b) seen = rl a seen ++ rl b (rev a ++ seen).
Proof.
  induction a as [|x a IH]; intros b seen; simpl; auto.
  rewrite IH. simpl. now rewrite <- app_assoc.
Qed.

(** * tags are injective *)
Lemma slen_app a b : String.length (a ++ b)%string = String.length a + String.length b.
Proof. induction a; simpl; auto. Qed.

Lemma append_inj_len n : forall n' s s',
    String.length s = String.length s' -> (n ++ s)%string = (n' ++ s')%string -> n = n' /\ s = s'.
Proof.
  induction n as [|a n IH]; intros [|a' n'] s s' L E; simpl in E.
  - auto.
  - exfalso. subst s. simpl in L. rewrite slen_app in L. lia.
  - exfalso. subst s'. simpl in L. rewrite slen_app in L. lia.
  - inversion E; subst. destruct (IH n' s s' L H1). subst. auto.
Qed.

Lemma tag_inj x k y j : k < 200 -> j < 200 -> tag x k = tag y j -> x = y /\ k = j.
Proof.
  unfold tag. intros Lk Lj E. apply append_inj_len in E; [|reflexivity].
  destruct E as [-> E]. split; auto. inversion E as [E1].
  apply (f_equal nat_of_ascii) in E1. rewrite !nat_ascii_embedding in E1 by lia. lia.
Qed.

(** * distinct *)
Lemma count_cons x y seen : count_of x (y :: seen) = (if String.eqb x y then 1 else 0) + count_of x seen.
Proof. unfold count_of. simpl. destruct (String.eqb x y); reflexivity. Qed.

Lemma count_le x seen : count_of x seen <= length seen.
Proof. unfold count_of. induction seen as [|y s IH]; simpl; auto. destruct (String.eqb x y); simpl; lia. Qed.

Lemma rl_elems l : forall seen z,
    In z (rl l seen) -> exists y k, z = tag y k /\ count_of y seen <= k < count_of y seen + length l.
Proof.
  induction l as [|x r IH]; intros seen z H; simpl in H; [destruct H|].
  destruct H as [<-|H].
  - exists x, (count_of x seen). simpl. split; auto. lia.
  - destruct (IH _ _ H) as [y [k [-> B]]]. exists y, k. split; auto. rewrite count_cons in B. simpl.
    destruct (String.eqb y x); lia.
Qed.

Lemma rl_nodup l : forall seen, length l + length seen < 200 -> NoDup (rl l seen).
Proof.
  induction l as [|x r IH]; intros seen L; simpl; [constructor|]. simpl in L.
  constructor; [|apply IH; simpl; lia].
  intros H. destruct (rl_elems _ _ _ H) as [y [k [E B]]]. rewrite count_cons in B.
  assert (C := count_le x seen). assert (C' := count_le y seen).
  apply tag_inj in E; try lia.
  - destruct E as [<- <-]. rewrite String.eqb_refl in B. lia.
  - destruct (String.eqb y x); lia.
Qed.

(** * the renaming, on trees *)
Fixpoint relabel_go (l : list slot) (seen : list string) : list slot * list string :=
  match l with
  | [] => ([], seen)
  | None :: r => let p := relabel_go r seen in (None :: fst p, snd p)
  | Some (e, ch) :: r =>
    let p1 := relabel ch seen in
    let p2 := relabel_go r (snd p1) in
    (Some (e, fst p1) :: fst p2, snd p2)
  end.

Lemma relabel_unfold n c sl seen :
  relabel (UNode n c sl) seen =
  (UNode (if Nat.eqb (length sl) 1 then tag n (count_of n seen) else n) c
         (fst (relabel_go sl (if Nat.eqb (length sl) 1 then n :: seen else seen))),
   snd (relabel_go sl (if Nat.eqb (length sl) 1 then n :: seen else seen))).
Proof.
  simpl. generalize (if Nat.eqb (length sl) 1 then n :: seen else seen) as s0.
  intros s0.
  match goal with
  | |- (UNode _ _ (fst (?F sl s0)), snd (?F sl s0)) = _ =>
    assert (H : forall l s, F l s = relabel_go l s)
  end.
  { induction l as [|[[e ch]|] r IH]; intros s; simpl; auto; now rewrite IH. }
  now rewrite H.
Qed.

(** only tip names change *)
Fixpoint erase (t : utree) : utree :=
  match t with
  | UNode n c sl =>
    UNode (if Nat.eqb (length sl) 1 then ""%string else n) c
          (map (fun s : slot => match s with Some (e, ch) => Some (e, erase ch) | None => None end) sl)
  end.

Lemma relabel_go_length l : forall seen, length (fst (relabel_go l seen)) = length l.
Proof. induction l as [|[[e ch]|] r IH]; intros seen; simpl; auto. Qed.

Theorem relabel_erase t : forall seen, erase (fst (relabel t seen)) = erase t.
Proof.
  induction t as [n c sl IH] using utree_ind'. intros seen. rewrite relabel_unfold. simpl fst.
  simpl erase. rewrite relabel_go_length.
  destruct (Nat.eqb (length sl) 1); f_equal.
  - generalize (n :: seen). induction IH as [|[[e ch]|] r Hs _ IHr]; intros s; simpl; auto.
    + now rewrite Hs, IHr.
    + now rewrite IHr.
  - generalize seen. induction IH as [|[[e ch]|] r Hs _ IHr]; intros s; simpl; auto.
    + now rewrite Hs, IHr.
    + now rewrite IHr.
Qed.

(** the path sums, position by position, do not depend on the tip names *)
Lemma depths_erase w t t' : erase t = erase t' -> map snd (depths w t) = map snd (depths w t').
Proof.
  revert t'. induction t as [n c sl IH] using utree_ind'. intros [n' c' sl'] E. simpl in E.
  inversion E as [[E1 E2 E3]]. clear E.
  rewrite !depths_unfold.
  assert (G : map (fun p : einfo * utree => (fst p, map snd (depths w (snd p)))) (kids_of sl)
              = map (fun p : einfo * utree => (fst p, map snd (depths w (snd p)))) (kids_of sl')).
  { clear E1 E2. revert sl' E3. induction IH as [|[[e ch]|] r Hs _ IHr]; intros [|[[e' ch']|] r'] E3;
      simpl in E3; try discriminate; auto.
    - inversion E3 as [[A B C]]. simpl. f_equal; [f_equal; auto|]. apply IHr; auto.
    - inversion E3 as [E4]. simpl. apply IHr. exact E4. }
  assert (K : forall ks ks' : list (einfo * utree),
             map (fun p => (fst p, map snd (depths w (snd p)))) ks = map (fun p => (fst p, map snd (depths w (snd p)))) ks' ->
             map snd (concat (kD w ks)) = map snd (concat (kD w ks'))).
  { induction ks as [|[e ch] ks IHk]; intros [|[e' ch'] ks'] H; simpl in H; try discriminate; auto.
    inversion H as [[A B C]]. simpl. rewrite !map_app. f_equal; [|now apply IHk].
    unfold shift. rewrite !map_map. simpl.
    rewrite <- (map_map snd (fun q => (w e' + q)%Q) (depths w ch)).
    rewrite <- (map_map snd (fun q => (w e' + q)%Q) (depths w ch')). now rewrite B. }
  destruct (kids_of sl) as [|k0 K0] eqn:Ek; destruct (kids_of sl') as [|k0' K0'] eqn:Ek'; simpl in G; try discriminate.
  - reflexivity.
  - rewrite <- Ek, <- Ek'. apply K. rewrite Ek, Ek'. exact G.
Qed.

(** * well-formedness only looks at the shape *)
Lemma n_up_map_erase sl :
  n_up (map (fun s : slot => match s with Some (e, ch) => Some (e, erase ch) | None => None end) sl) = n_up sl.
Proof. induction sl as [|[[e ch]|] r IH]; simpl; auto; rewrite !n_up_cons; now rewrite IH. Qed.

Lemma wf_sub_erase t : wf_sub (erase t) = wf_sub t.
Proof.
  induction t as [n c sl IH] using utree_ind'. simpl erase. rewrite !wf_sub_unfold, n_up_map_erase. f_equal.
  induction IH as [|[[e ch]|] r Hs _ IHr]; simpl; auto. now rewrite Hs, IHr.
Qed.

Lemma wf_erase t : wf (erase t) = wf t.
Proof.
  destruct t as [n c sl]. simpl erase. rewrite !wf_unfold, n_up_map_erase. f_equal.
  induction sl as [|[[e ch]|] r IHr]; simpl; auto. now rewrite wf_sub_erase, IHr.
Qed.

Lemma degree_erase t : degree (erase t) = degree t.
Proof. destruct t as [n c sl]. unfold degree. simpl. apply map_length. Qed.

(** * the leaves of the renamed tree *)
Lemma relabel_go_kids l : forall seen,
    Forall (fun s : slot => match s with
      | Some (_, t) => forall seen, wf_sub t = true ->
                         leaves (fst (relabel t seen)) = rl (leaves t) seen /\
                         snd (relabel t seen) = rev (leaves t) ++ seen
      | None => True end) l ->
    forallb (fun p => wf_sub (snd p)) (kids_of l) = true ->
    kleaves (kids_of (fst (relabel_go l seen))) = rl (kleaves (kids_of l)) seen /\
    snd (relabel_go l seen) = rev (kleaves (kids_of l)) ++ seen /\
    length (kids_of (fst (relabel_go l seen))) = length (kids_of l).
Proof.
  induction l as [|[[e ch]|] r IH]; intros seen HF W; simpl.
  - auto.
  - apply Forall_cons_iff in HF as [Hc HFr]. simpl in W. apply andb_true_iff in W as [W1 W2].
    destruct (Hc seen W1) as [A B]. destruct (IH (snd (relabel ch seen)) HFr W2) as [C [D E]].
    rewrite B in *. unfold kleaves in *. simpl. rewrite A, C, D, rl_app, rev_app_distr, <- app_assoc, E. auto.
  - apply Forall_cons_iff in HF as [_ HFr]. apply IH; auto.
Qed.

Lemma relabel_leaves_sub t : forall seen, wf_sub t = true ->
    leaves (fst (relabel t seen)) = rl (leaves t) seen /\ snd (relabel t seen) = rev (leaves t) ++ seen.
Proof.
  induction t as [n c sl IH] using utree_ind'. intros seen W.
  rewrite relabel_unfold. simpl fst. simpl snd.
  assert (F : forallb (fun p => wf_sub (snd p)) (kids_of sl) = true).
  { rewrite wf_sub_unfold in W. apply andb_true_iff in W. tauto. }
  rewrite wf_sub_unfold in W. apply andb_true_iff in W as [U _]. apply Nat.eqb_eq in U.
  assert (Hl := length_slots sl). rewrite U in Hl.
  destruct (kids_of sl) as [|k0 K] eqn:E.
  - assert (sl = [None]) as -> by (destruct sl as [|[p|] [|s2 r2]]; simpl in *; try discriminate; try lia; auto).
    simpl. auto.
  - assert (T : Nat.eqb (length sl) 1 = false) by (apply Nat.eqb_neq; simpl in Hl; lia).
    rewrite T. rewrite <- E in *.
    destruct (relabel_go_kids sl seen IH F) as [A [B C]].
    rewrite !leaves_unfold.
    destruct (kids_of (fst (relabel_go sl seen))) eqn:E2; [rewrite E in C; simpl in C; discriminate|].
    rewrite A, B. rewrite E. auto.
Qed.

Theorem relabel_good t :
  wf t = true -> 2 <= degree t -> length (leaves t) < 200 ->
  good (relabel_tips t) /\ leaves (relabel_tips t) = rl (leaves t) [].
Proof.
  intros W D L. unfold relabel_tips.
  assert (Er := relabel_erase t []).
  assert (W' : wf (fst (relabel t [])) = true) by (rewrite <- wf_erase, Er, wf_erase; exact W).
  assert (D' : 2 <= degree (fst (relabel t []))) by (rewrite <- degree_erase, Er, degree_erase; exact D).
  assert (Lv : leaves (fst (relabel t [])) = rl (leaves t) []).
  { destruct t as [n c sl]. rewrite relabel_unfold. simpl fst.
    unfold degree in D. simpl in D.
    assert (T : Nat.eqb (length sl) 1 = false) by (apply Nat.eqb_neq; lia). rewrite T.
    rewrite wf_unfold in W. apply andb_true_iff in W as [U F]. apply Nat.eqb_eq in U.
    assert (HF : Forall (fun s : slot => match s with
                  | Some (_, t) => forall seen, wf_sub t = true ->
                       leaves (fst (relabel t seen)) = rl (leaves t) seen /\
                       snd (relabel t seen) = rev (leaves t) ++ seen
                  | None => True end) sl).
    { apply Forall_forall. intros [[e ch]|] _; auto. intros seen. apply relabel_leaves_sub. }
    destruct (relabel_go_kids sl [] HF F) as [A [B C]].
    assert (Hl := length_slots sl). rewrite U in Hl.
    rewrite !leaves_unfold.
    destruct (kids_of sl) as [|k0 K] eqn:E; [simpl in Hl; lia|].
    destruct (kids_of (fst (relabel_go sl []))) eqn:E2; [simpl in C; discriminate|].
    rewrite A. reflexivity. }
  split; [|exact Lv]. split; [exact W'|]. split; [exact D'|].
  rewrite Lv. apply rl_nodup. simpl. lia.
Qed.

(** same path sums, position by position *)
Theorem relabel_depths w t : map snd (depths w (relabel_tips t)) = map snd (depths w t).
Proof. apply depths_erase. apply relabel_erase. Qed.

(** non-vacuity: ((A:1,B:1):1,(A:2,C:1):1); *)
Definition homonym_tree : utree :=
  UNode "" [] [Some (mkE 1 nilv nilv [], UNode "" [] [None; Some (mkE 1 nilv nilv [], UNode "A" [] [None]);
                                                       Some (mkE 1 nilv nilv [], UNode "B" [] [None])]);
               Some (mkE 1 nilv nilv [], UNode "" [] [None; Some (mkE 2 nilv nilv [], UNode "A" [] [None]);
                                                       Some (mkE 1 nilv nilv [], UNode "C" [] [None])])]%string.

Lemma homonym_example :
  good (relabel_tips homonym_tree) /\
  snd (to_matrix MBrlen (relabel_tips homonym_tree)) =
  [[0; 5; 2; 4]; [5; 0; 5; 3]; [2; 5; 0; 4]; [4; 3; 4; 0]]%Q.
Proof.
  split; [|vm_compute; reflexivity].
  apply relabel_good; vm_compute; try reflexivity; lia.
Qed.
