(** C05, splits of the unrooted tree as computed by [usplits] (Spec/Obs.v: branches defining
    the same bipartition are merged, lengths added): looking up any bipartition gives the same
    answer before and after re-rooting / reordering (lengths and supports up to Qeq), and the
    same length after unrooting. *)
From Coq Require Import String ZArith QArith Bool Arith Lia Lqa List Permutation Setoid Morphisms.
From GT Require Import Base.UTree Spec.Obs Model.Reroot Spec.Unrooted
     Proofs.RerootBase Proofs.Reroot Proofs.Unroot Proofs.Reorder Proofs.Splits.
Import ListNotations.
Local Close Scope Q_scope.
Local Arguments leaves : simpl never.

(** * keys *)
Lemma list_eqb_eq (a b : list string) : list_eqb String.eqb a b = true <-> a = b.
Proof.
  revert b; induction a as [|x a IH]; intros [|y b]; simpl; split; intros H;
    try discriminate; auto.
  - apply andb_true_iff in H as [H1 H2]. apply String.eqb_eq in H1. apply IH in H2. congruence.
  - inversion H; subst. rewrite String.eqb_refl. simpl. now apply IH.
Qed.

Lemma sset_eqb_eq a b : sset_eqb a b = true <-> a = b.
Proof. apply list_eqb_eq. Qed.

Lemma sset_eqb_false a b : sset_eqb a b = false <-> a <> b.
Proof.
  split.
  - intros H E. apply sset_eqb_eq in E. congruence.
  - intros H. destruct (sset_eqb a b) eqn:E; auto. apply sset_eqb_eq in E. contradiction.
Qed.

Definition foldsplits (l : list split) : list split :=
  fold_left (fun acc s => add_split s acc) l [].

Lemma usplits_eq t : usplits t = foldsplits (branch_splits (tipset t) t).
Proof. reflexivity. Qed.

(** one step of the lookup of key [k] while the splits are added one by one *)
Definition step (k : list string) (o : option split) (s : split) : option split :=
  if sset_eqb (sside s) k
  then Some (match o with Some x => merge_split x s | None => s end)
  else o.

Lemma find_split_add k s acc :
  find_split k (add_split s acc) = step k (find_split k acc) s.
Proof.
  unfold step. induction acc as [|x r IH].
  - unfold find_split. simpl. destruct (sset_eqb (sside s) k); reflexivity.
  - simpl. unfold split_key_eqb. destruct (sset_eqb (sside s) (sside x)) eqn:Esx.
    + apply sset_eqb_eq in Esx. unfold find_split. simpl. rewrite <- Esx.
      destruct (sset_eqb (sside s) k); reflexivity.
    + unfold find_split in *. simpl. destruct (sset_eqb (sside x) k) eqn:Exk.
      * assert (F : sset_eqb (sside s) k = false).
        { apply sset_eqb_false. apply sset_eqb_eq in Exk. apply sset_eqb_false in Esx. congruence. }
        now rewrite F.
      * exact IH.
Qed.

Lemma find_split_fold k l : forall acc,
  find_split k (fold_left (fun acc s => add_split s acc) l acc) =
  fold_left (step k) l (find_split k acc).
Proof.
  induction l as [|s l IH]; simpl; intros acc; auto. now rewrite IH, find_split_add.
Qed.

Lemma find_split_foldsplits k l : find_split k (foldsplits l) = fold_left (step k) l None.
Proof. unfold foldsplits. now rewrite find_split_fold. Qed.

(** * arithmetic of the merge *)
Lemma Qle_bool_cases x y :
  ((x <= y)%Q /\ Qle_bool x y = true) \/ ((y < x)%Q /\ Qle_bool x y = false).
Proof.
  destruct (Qle_bool x y) eqn:E.
  - left. split; auto. now apply Qle_bool_iff.
  - right. split; auto. apply Qnot_le_lt. intros H. apply Qle_bool_iff in H. congruence.
Qed.

Lemma qmax_cases a b :
  ((a <= b)%Q /\ qmax a b = b) \/ ((b < a)%Q /\ qmax a b = a).
Proof.
  unfold qmax. destruct (Qle_bool_cases a b) as [[H ->]|[H ->]]; auto.
Qed.

Ltac qmax_split :=
  repeat match goal with
         | |- context[qmax ?x ?y] =>
           let H := fresh in let E := fresh in
           destruct (qmax_cases x y) as [[H E]|[H E]]; rewrite E in *; clear E
         | H0 : context[qmax ?x ?y] |- _ =>
           let H := fresh in let E := fresh in
           destruct (qmax_cases x y) as [[H E]|[H E]]; rewrite E in *; clear E
         end.

Lemma qmax_comm a b : (qmax a b == qmax b a)%Q.
Proof. qmax_split; lra. Qed.
Lemma qmax_rcomm a b c : (qmax (qmax a b) c == qmax (qmax a c) b)%Q.
Proof. qmax_split; lra. Qed.
Lemma qmax_proper a a' b b' : (a == a')%Q -> (b == b')%Q -> (qmax a b == qmax a' b')%Q.
Proof. intros. qmax_split; lra. Qed.

Definition pos (a : Q) : Q := if Qle_bool 0 a then a else 0%Q.

Lemma pos_cases a : ((0 <= a)%Q /\ pos a = a) \/ ((a < 0)%Q /\ pos a = 0%Q).
Proof. unfold pos. destruct (Qle_bool_cases 0 a) as [[H ->]|[H ->]]; auto. Qed.

Lemma pos_nonneg a : (0 <= pos a)%Q.
Proof. destruct (pos_cases a) as [[H ->]|[H ->]]; lra. Qed.
Lemma pos_proper a a' : (a == a')%Q -> (pos a == pos a')%Q.
Proof.
  intros. destruct (pos_cases a) as [[H1 ->]|[H1 ->]], (pos_cases a') as [[H2 ->]|[H2 ->]]; lra.
Qed.
Lemma pos_of_nonneg a : (0 <= a)%Q -> (pos a == a)%Q.
Proof. intros. destruct (pos_cases a) as [[H1 ->]|[H1 ->]]; lra. Qed.

Lemma isnil_iff a : qeqb a nilv = true <-> (a == -1)%Q.
Proof. unfold qeqb, nilv. apply Qeq_bool_iff. Qed.
Lemma isnil_false a : qeqb a nilv = false -> ~ (a == -1)%Q.
Proof. intros H E. apply isnil_iff in E. congruence. Qed.
Lemma isnil_proper a a' : (a == a')%Q -> qeqb a nilv = qeqb a' nilv.
Proof.
  intros H. destruct (qeqb a nilv) eqn:E1, (qeqb a' nilv) eqn:E2; auto.
  - apply isnil_iff in E1. apply isnil_false in E2. exfalso. apply E2. lra.
  - apply isnil_iff in E2. apply isnil_false in E1. exfalso. apply E1. lra.
Qed.
Lemma isnil_pos0 a : qeqb a nilv = true -> (pos a == 0)%Q.
Proof. intros H. apply isnil_iff in H. destruct (pos_cases a) as [[H1 ->]|[H1 ->]]; lra. Qed.

Lemma merge_len_eq a b :
  merge_len a b = if qeqb a nilv && qeqb b nilv then nilv else (pos a + pos b)%Q.
Proof. reflexivity. Qed.

Lemma isnil_merge a b : qeqb (merge_len a b) nilv = qeqb a nilv && qeqb b nilv.
Proof.
  rewrite merge_len_eq. destruct (qeqb a nilv && qeqb b nilv); [reflexivity|].
  destruct (qeqb (pos a + pos b) nilv) eqn:E; auto.
  apply isnil_iff in E. pose proof (pos_nonneg a). pose proof (pos_nonneg b). lra.
Qed.

Lemma pos_merge a b : (pos (merge_len a b) == pos a + pos b)%Q.
Proof.
  rewrite merge_len_eq. destruct (qeqb a nilv) eqn:Ea, (qeqb b nilv) eqn:Eb; simpl;
    try (apply pos_of_nonneg; pose proof (pos_nonneg a); pose proof (pos_nonneg b); lra).
  rewrite (isnil_pos0 a Ea), (isnil_pos0 b Eb). reflexivity.
Qed.

Lemma merge_len_proper a a' b b' :
  (a == a')%Q -> (b == b')%Q -> (merge_len a b == merge_len a' b')%Q.
Proof.
  intros Ha Hb. rewrite !merge_len_eq, (isnil_proper a a' Ha), (isnil_proper b b' Hb).
  destruct (qeqb a' nilv && qeqb b' nilv); [reflexivity|].
  rewrite (pos_proper a a' Ha), (pos_proper b b' Hb). reflexivity.
Qed.

Lemma merge_len_comm a b : (merge_len a b == merge_len b a)%Q.
Proof.
  rewrite !merge_len_eq, (andb_comm (qeqb a nilv)).
  destruct (qeqb b nilv && qeqb a nilv); [reflexivity|ring].
Qed.

Lemma merge_len_rcomm a b c :
  (merge_len (merge_len a b) c == merge_len (merge_len a c) b)%Q.
Proof.
  rewrite (merge_len_eq (merge_len a b) c), (merge_len_eq (merge_len a c) b), !isnil_merge.
  destruct (qeqb a nilv), (qeqb b nilv), (qeqb c nilv); simpl; try reflexivity;
    rewrite !pos_merge; ring.
Qed.

(** * relations on splits: all data up to Qeq / key and length only *)
Definition split_qeq (x y : split) : Prop :=
  sside x = sside y /\ (slen x == slen y)%Q /\ (ssup x == ssup y)%Q /\ stip x = stip y.
Definition split_weq (x y : split) : Prop :=
  sside x = sside y /\ (slen x == slen y)%Q.
Definition orel (R : split -> split -> Prop) (o o' : option split) : Prop :=
  match o, o' with
  | Some x, Some y => R x y
  | None, None => True
  | _, _ => False
  end.

Lemma split_qeq_refl x : split_qeq x x.
Proof. repeat split; reflexivity. Qed.
Lemma split_qeq_trans x y z : split_qeq x y -> split_qeq y z -> split_qeq x z.
Proof.
  intros (A1 & A2 & A3 & A4) (B1 & B2 & B3 & B4).
  repeat split; try congruence; etransitivity; eauto.
Qed.
Lemma split_weq_refl x : split_weq x x.
Proof. split; reflexivity. Qed.
Lemma split_weq_trans x y z : split_weq x y -> split_weq y z -> split_weq x z.
Proof. intros (A1 & A2) (B1 & B2). split; try congruence. etransitivity; eauto. Qed.
Lemma split_qeq_weq x y : split_qeq x y -> split_weq x y.
Proof. intros (A1 & A2 & _). split; auto. Qed.

Lemma orel_refl (R : split -> split -> Prop) : (forall x, R x x) -> forall o, orel R o o.
Proof. intros H [x|]; simpl; auto. Qed.
Lemma orel_trans (R : split -> split -> Prop) : (forall x y z, R x y -> R y z -> R x z) ->
                     forall a b c, orel R a b -> orel R b c -> orel R a c.
Proof. intros H [x|] [y|] [z|]; simpl; try tauto. apply H. Qed.
Lemma orel_mono (R R' : split -> split -> Prop) :
  (forall x y, R x y -> R' x y) -> forall a b, orel R a b -> orel R' a b.
Proof. intros H [x|] [y|]; simpl; auto. Qed.

Lemma merge_split_eq x s :
  merge_split x s =
  mkSplit (sside x) (merge_len (slen x) (slen s)) (qmax (ssup x) (ssup s)) (stip x || stip s).
Proof. reflexivity. Qed.

Lemma merge_split_comm x y :
  sside x = sside y -> split_qeq (merge_split x y) (merge_split y x).
Proof.
  intros H. rewrite !merge_split_eq. repeat split; cbn [sside slen ssup stip]; auto.
  - apply merge_len_comm.
  - apply qmax_comm.
  - apply orb_comm.
Qed.

Lemma merge_split_rcomm z x y :
  split_qeq (merge_split (merge_split z x) y) (merge_split (merge_split z y) x).
Proof.
  rewrite !merge_split_eq. repeat split; cbn [sside slen ssup stip]; auto.
  - apply merge_len_rcomm.
  - apply qmax_rcomm.
  - now rewrite <- !orb_assoc, (orb_comm (stip x)).
Qed.

Lemma merge_split_qeq x x' s : split_qeq x x' -> split_qeq (merge_split x s) (merge_split x' s).
Proof.
  intros (A1 & A2 & A3 & A4). rewrite !merge_split_eq. repeat split; cbn [sside slen ssup stip]; auto.
  - apply merge_len_proper; auto. reflexivity.
  - apply qmax_proper; auto. reflexivity.
  - now rewrite A4.
Qed.

Lemma merge_split_weq x x' s : split_weq x x' -> split_weq (merge_split x s) (merge_split x' s).
Proof.
  intros (A1 & A2). rewrite !merge_split_eq. split; cbn [sside slen]; auto.
  apply merge_len_proper; auto. reflexivity.
Qed.

(** * the lookup does not depend on the order in which the splits are added *)
Lemma step_rel (R : split -> split -> Prop) k o o' s :
  (forall x, R x x) -> (forall x x' s, R x x' -> R (merge_split x s) (merge_split x' s)) ->
  orel R o o' -> orel R (step k o s) (step k o' s).
Proof.
  intros Hr Hm H. unfold step. destruct (sset_eqb (sside s) k); auto.
  destruct o as [x|], o' as [x'|]; simpl in *; try tauto; auto.
Qed.

Lemma fold_step_rel (R : split -> split -> Prop) k l :
  (forall x, R x x) -> (forall x x' s, R x x' -> R (merge_split x s) (merge_split x' s)) ->
  forall o o', orel R o o' -> orel R (fold_left (step k) l o) (fold_left (step k) l o').
Proof.
  intros Hr Hm. induction l as [|s l IH]; simpl; intros o o' H; auto.
  apply IH. now apply step_rel.
Qed.

Lemma step_swap k o x y :
  orel split_qeq (step k (step k o x) y) (step k (step k o y) x).
Proof.
  unfold step.
  destruct (sset_eqb (sside x) k) eqn:Ex, (sset_eqb (sside y) k) eqn:Ey; simpl;
    try (apply orel_refl; apply split_qeq_refl).
  - destruct o as [z|]; simpl.
    + apply merge_split_rcomm.
    + apply merge_split_comm. apply sset_eqb_eq in Ex, Ey. congruence.
  - apply split_qeq_refl.
  - apply split_qeq_refl.
Qed.

Lemma fold_step_perm k l l' :
  Permutation l l' ->
  forall o o', orel split_qeq o o' ->
               orel split_qeq (fold_left (step k) l o) (fold_left (step k) l' o').
Proof.
  induction 1; intros o o' Ho; simpl.
  - exact Ho.
  - apply IHPermutation. apply step_rel; auto using split_qeq_refl, merge_split_qeq.
  - apply fold_step_rel; auto using split_qeq_refl, merge_split_qeq.
    eapply orel_trans; [apply split_qeq_trans|apply step_swap|].
    apply step_rel; auto using split_qeq_refl, merge_split_qeq.
    apply step_rel; auto using split_qeq_refl, merge_split_qeq.
  - eapply orel_trans; [apply split_qeq_trans|apply IHPermutation1, Ho|].
    apply IHPermutation2. apply orel_refl, split_qeq_refl.
Qed.

Theorem foldsplits_perm k l l' :
  Permutation l l' ->
  orel split_qeq (find_split k (foldsplits l)) (find_split k (foldsplits l')).
Proof.
  intros H. rewrite !find_split_foldsplits. apply fold_step_perm; simpl; auto.
Qed.

(** * re-rooting and reordering: every bipartition is found with the same data *)
Theorem reroot_usplits t i t' :
  wf t = true -> 2 <= degree t -> NoDup (leaves t) -> reroot t i = Ok t' ->
  forall k, orel split_qeq (find_split k (usplits t')) (find_split k (usplits t)).
Proof.
  intros Hwf Hd ND H k. rewrite !usplits_eq. apply foldsplits_perm.
  eapply reroot_branch_splits; eauto.
Qed.

Theorem tperm_usplits t t' :
  tperm t t' ->
  forall k, orel split_qeq (find_split k (usplits t')) (find_split k (usplits t)).
Proof.
  intros H k. rewrite !usplits_eq, (tperm_tipset t t' H). apply foldsplits_perm.
  now apply tperm_branch_splits.
Qed.

(** * unrooting: same key, same (merged) length *)
Theorem unroot_usplits t :
  wf t = true -> rooted t = true -> root_has_inner_child t = true -> NoDup (leaves t) ->
  forall k, orel split_weq (find_split k (usplits (unroot t))) (find_split k (usplits t)).
Proof.
  intros Hwf Hr Hi ND k.
  assert (ET : tipset (unroot t) = tipset t).
  { unfold tipset. apply sset_perm. now apply unroot_leaves_rooted. }
  rewrite !usplits_eq, ET. set (all := tipset t).
  destruct (rooted_shape t Hwf Hr) as (n0&c0&e1&n1&c1&sl1&e2&n2&c2&sl2&E).
  set (N1 := UNode n1 c1 sl1) in *. set (N2 := UNode n2 c2 sl2) in *.
  set (e3 := merged_edge e1 e2 (Nat.eqb (length sl1) 1) (Nat.eqb (length sl2) 1)).
  set (far := if Nat.eqb (length sl1) 1 then N1 else N2).
  set (c1' := canon_split all (e1, leaves N1, isleaf N1)).
  set (c2' := canon_split all (e2, leaves N2, isleaf N2)).
  set (c3' := canon_split all (e3, leaves far, isleaf far)).
  set (R := branch_splits all N1 ++ branch_splits all N2).
  assert (P3 : Permutation (branch_splits all (unroot t)) (c3' :: R)).
  { rewrite E. apply unroot_branch_splits. }
  assert (P12 : Permutation (branch_splits all t) (c1' :: c2' :: R)).
  { rewrite E, branch_splits_bsplits, rooted_bsplits. fold N1 N2.
    unfold R. rewrite !branch_splits_bsplits. simpl map. rewrite map_app. simpl map.
    fold c1' c2'. perm. }
  assert (HL : leaves t = leaves N1 ++ leaves N2).
  { rewrite E. rewrite leaves_node by (simpl; discriminate). simpl. now rewrite app_nil_r. }
  assert (K12 : sside c1' = sside c2').
  { unfold c1', c2', canon_split, all, tipset. cbn [sside fst snd].
    apply canon_side_complement; auto. now rewrite HL. }
  assert (K13 : sside c3' = sside c1').
  { unfold c3', far. destruct (Nat.eqb (length sl1) 1); [reflexivity|]. now rewrite K12. }
  eapply orel_trans; [apply split_weq_trans| |].
  { eapply orel_mono; [apply split_qeq_weq|]. apply foldsplits_perm. exact P3. }
  eapply orel_trans; [apply split_weq_trans| |].
  2:{ eapply orel_mono; [apply split_qeq_weq|]. apply foldsplits_perm. symmetry. exact P12. }
  rewrite !find_split_foldsplits. simpl fold_left.
  apply fold_step_rel; auto using split_weq_refl, merge_split_weq.
  unfold step. rewrite K13, <- K12.
  destruct (sset_eqb (sside c1') k); simpl; auto.
  split.
  - rewrite K13. reflexivity.
  - rewrite merge_split_eq. cbn [slen]. unfold c1', c2', c3', canon_split. cbn [slen fst snd].
    unfold e3. rewrite elen_merged_merge_len. reflexivity.
Qed.
