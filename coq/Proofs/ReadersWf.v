(** Every tree delivered by a modelled reader is a well-formed rooted structure ([wf]: no
    parent slot in the root, exactly one in every other node), provided the single-tree
    Newick parser delivers well-formed trees (C01_parsed_tree_wf). *)
From Coq Require Import String Ascii ZArith QArith Bool Arith Lia List.
From GT Require Import Base.UTree Model.MultiTree Model.Nexus Model.Clade
     Proofs.MultiTree Proofs.NexusLex Proofs.NexusTotal Proofs.NexusFirst Proofs.Clade.
Import ListNotations.
Local Close Scope Q_scope.
Local Open Scope string_scope.

Definition item_wf (i : item) : Prop :=
  match i with ITree _ t => wf t = true | IErr _ _ => True end.

Section Wf.
  Variable nparse : string -> utree + string.
  Hypothesis nparse_wf : forall s t, nparse s = inl t -> wf t = true.

  (** * multi-Newick *)
  Lemma multi_loop_wf : forall fuel id line rest l,
      multi_loop nparse fuel id line rest = MDone l -> Forall item_wf l.
  Proof.
    induction fuel as [|f IH]; intros id line rest l H; simpl in H; [discriminate|].
    destruct (nparse line) as [t|m] eqn:E.
    - destruct (read_until_semicolon rest) as [l' r'| l' | |] eqn:E2; simpl in H.
      + destruct (multi_loop nparse f (S id) l' r') as [l2|l2|] eqn:E3; simpl in H; inversion H; subst.
        constructor; [simpl; eapply nparse_wf; eassumption|]. eapply IH. eassumption.
      + inversion H; subst. constructor; [simpl; eapply nparse_wf; eassumption|constructor].
      + discriminate.
      + discriminate.
    - inversion H; subst. constructor; [exact I|constructor].
  Qed.

  Theorem read_multi_wf : forall reads l, read_multi nparse reads = MDone l -> Forall item_wf l.
  Proof.
    intros reads l H. unfold read_multi in H.
    destruct (read_until_semicolon reads) as [l' r'| l' | |] eqn:E.
    - eapply multi_loop_wf. eassumption.
    - inversion H; subst. constructor; [exact I|constructor].
    - discriminate.
    - discriminate.
  Qed.

  (** * Nexus *)
  Definition doc_wf (d : nexus_doc) : Prop := Forall (fun p => wf (snd p) = true) (doc_trees d).
  Definition post (p : pres) : Prop := forall d, p = POk d -> doc_wf d.

  Lemma build_trees_wf : forall st names strs tabs l,
      build_trees nparse st names strs tabs = inl l -> Forall (fun p => wf (snd p) = true) l.
  Proof.
    intros st. induction names as [|n nr IH]; intros strs tabs l H; simpl in H.
    - inversion H; subst. constructor.
    - destruct strs as [|s sr]; [inversion H; subst; constructor|].
      destruct tabs as [|tb tr]; [inversion H; subst; constructor|].
      destruct (nparse (s ++ ";")) as [t|e] eqn:E; [|discriminate].
      assert (W : wf t = true) by (eapply nparse_wf; eassumption).
      destruct (match tb with Some tbl => rename_tree tbl t | None => inl t end) as [t'|e] eqn:R; [|discriminate].
      assert (W' : wf t' = true).
      { destruct tb as [tbl|].
        - rewrite (rename_tree_wf _ _ _ R). exact W.
        - inversion R; subst. exact W. }
      match type of H with
      | (match ?b with Some _ => _ | None => _ end) = _ => destruct b; [discriminate|]
      end.
      destruct (build_trees nparse st nr sr tr) as [l'|e] eqn:B; [|discriminate].
      inversion H; subst. constructor; [exact W'|]. eapply IH. eassumption.
  Qed.

  Lemma finish_post : forall st, post (finish nparse st).
  Proof.
    intros st d H. unfold finish in H. unfold doc_wf.
    repeat match type of H with
           | (if ?b then _ else _) = _ => destruct b; try discriminate
           end.
    destruct (match ns_data st with Some d0 => check_align st d0 | None => None end); [discriminate|].
    destruct (ns_trees st) as [[names strs]|].
    - destruct (build_trees nparse st names strs (ns_tabs st)) as [l|e] eqn:B; [|discriminate].
      inversion H; subst. simpl. eapply build_trees_wf. eassumption.
    - inversion H; subst. simpl. constructor.
  Qed.

  Ltac post_step :=
    match goal with
    | |- post (if ?b then _ else _) => destruct b
    | |- post (match (if ?b then _ else _) with _ => _ end) => destruct b
    | |- post (match ?x with _ => _ end) => destruct x
    | |- post (match (match ?x with _ => _ end) with _ => _ end) => destruct x
    end.

  Lemma main_loop_post : forall fuel st s, post (main_loop nparse fuel st s).
  Proof.
    induction fuel as [|f IH]; intros st s; [intros d H; discriminate H|].
    cbn [main_loop].
    repeat (cbv beta iota zeta; post_step);
      first [ apply finish_post | apply IH | (intros d H; discriminate H) ].
  Qed.

  (** every tree of a parsed Nexus file is well formed *)
  Theorem nexus_parse_wf : forall s d, nexus_parse nparse s = POk d -> doc_wf d.
  Proof.
    intros s d H. unfold nexus_parse, nexus_parse_fuel in H.
    destruct (scan_iw s) as [[t l] r]. destruct (negb (tok_eqb t NEXUS)); [discriminate|].
    eapply main_loop_post. eassumption.
  Qed.
End Wf.

(** * Nextstrain (PhyloXML: Proofs/Clade.v clade_to_tree_total) *)
Definition ns_ok (r : utree + string) (root : bool) : Prop :=
  match r with
  | inl t => (if root then wf t else wf_sub t) = true
  | inr e => e = "one tip has no name"
  end.

Lemma ns_conv_kids_ok : forall d ks,
    Forall (fun k => forall root, ns_ok (ns_node root k) root) ks ->
    match ns_conv_kids d ks with
    | inl sl => slots_ok sl
    | inr e => e = "one tip has no name"
    end.
Proof.
  induction ks as [|k r IH]; intros HF; simpl.
  - split; reflexivity.
  - inversion HF as [|? ? Hk Hr]; subst.
    specialize (Hk false). destruct (ns_node false k) as [t|e]; simpl in Hk; [|assumption].
    specialize (IH Hr). destruct (ns_conv_kids d r) as [sl|e]; [|assumption].
    destruct IH as [U W]. split.
    + rewrite n_up_cons_some. assumption.
    + simpl. rewrite Hk, W. reflexivity.
Qed.

Theorem ns_node_ok : forall c root, ns_ok (ns_node root c) root.
Proof.
  induction c as [n d cm ks IH] using nsnode_ind'. intros root. rewrite ns_node_unfold.
  pose proof (ns_conv_kids_ok d ks IH) as HK.
  destruct (ns_conv_kids d ks) as [sl|e]; [|exact HK].
  destruct (is_nil ks && String.eqb n ""); [reflexivity|].
  destruct HK as [U W]. destruct root; simpl.
  - rewrite U, W. reflexivity.
  - unfold n_up in *. simpl. rewrite U. rewrite W. reflexivity.
Qed.

Theorem ns_to_tree_wf : forall c t, ns_to_tree c = inl t -> wf t = true.
Proof. intros c t H. pose proof (ns_node_ok c true) as K. unfold ns_to_tree in H. rewrite H in K. exact K. Qed.

Theorem clade_to_tree_wf : forall c t, clade_to_tree c = inl t -> wf t = true.
Proof. intros c t H. pose proof (clade_node_ok c true) as K. unfold clade_to_tree in H. rewrite H in K. exact K. Qed.
