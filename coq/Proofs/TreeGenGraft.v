(** C16: what one GraftTipOnEdge does to a tree under construction ([graft_id]): exactly one
    branch is split when the creation indexes are pairwise distinct; effect on the multiset of
    branch indexes, on the tips, on well-formedness and on the degrees. *)
From Coq Require Import String ZArith QArith Bool Arith Lia List Permutation.
From GT Require Import Base.UTree Spec.Obs Spec.GenShape Model.Reroot Model.Rand2 Model.TreeGen
     Proofs.RerootBase.
Import ListNotations.
Local Close Scope Q_scope.
Local Arguments n_up : simpl never.

Lemma NoDup_app_l {A} (a b : list A) : NoDup (a ++ b) -> NoDup a.
Proof.
  induction a as [|x a IH]; simpl; intros H; [constructor|].
  inversion H; subst. constructor; auto. intros Hx. apply H2. apply in_or_app. now left.
Qed.
Lemma NoDup_app_r {A} (a b : list A) : NoDup (a ++ b) -> NoDup b.
Proof. induction a as [|x a IH]; simpl; intros H; auto. inversion H; auto. Qed.
Lemma NoDup_app_disj {A} (a b : list A) x : NoDup (a ++ b) -> In x a -> In x b -> False.
Proof.
  induction a as [|y a IH]; simpl; intros H Ha Hb; [destruct Ha|].
  inversion H; subst. destruct Ha as [->|Ha].
  - apply H2. apply in_or_app. now right.
  - eapply IH; eauto.
Qed.

Lemma wf_sub_def n c sl :
  wf_sub (UNode n c sl) = Nat.eqb (n_up sl) 1 && sub_all wf_sub sl.
Proof. reflexivity. Qed.
Lemma wf_def n c sl :
  wf (UNode n c sl) = Nat.eqb (n_up sl) 0 && sub_all wf_sub sl.
Proof. reflexivity. Qed.
Lemma bin_sub_def n c sl :
  bin_sub (UNode n c sl) = (Nat.eqb (length sl) 1 || Nat.eqb (length sl) 3) && sub_all bin_sub sl.
Proof. reflexivity. Qed.

(** ** measures: a list collected over the tree, each node and each branch contributing *)
Section Measure.
  Context {X : Type}.
  Variable own : string -> nat -> list X.       (* contribution of a node: name, degree *)
  Variable h : einfo -> list X.                 (* contribution of a branch *)

  Fixpoint mu (t : utree) : list X :=
    match t with
    | UNode n _ sl =>
      own n (length sl) ++
      flat_map (fun s => match s with Some (e, ch) => h e ++ mu ch | None => [] end) sl
    end.
  Definition mu_sl (sl : list slot) : list X :=
    flat_map (fun s => match s with Some (e, ch) => h e ++ mu ch | None => [] end) sl.

  Lemma mu_unfold n c sl : mu (UNode n c sl) = own n (length sl) ++ mu_sl sl.
  Proof. reflexivity. Qed.
  Lemma mu_sl_app a b : mu_sl (a ++ b) = mu_sl a ++ mu_sl b.
  Proof. unfold mu_sl. apply flat_map_app. Qed.
  Lemma mu_sl_cons_some e ch r : mu_sl (Some (e, ch) :: r) = (h e ++ mu ch) ++ mu_sl r.
  Proof. reflexivity. Qed.
  Lemma mu_sl_cons_none r : mu_sl (None :: r) = mu_sl r.
  Proof. reflexivity. Qed.
End Measure.

(** creation indexes of all branches *)
Definition eids : utree -> list nat := mu (fun _ _ => []) (fun e => [eid e]).
Definition eids_sl : list slot -> list nat := mu_sl (fun _ _ => []) (fun e => [eid e]).
(** names of the tips (nodes with one neighbour), pre-order *)
Definition tnames : utree -> list string :=
  mu (fun n d => if Nat.eqb d 1 then [n] else []) (fun _ => []).

Lemma map_flat_map {A B C} (f : B -> C) (g : A -> list B) l :
  map f (flat_map g l) = flat_map (fun x => map f (g x)) l.
Proof. induction l as [|x l IH]; simpl; auto. now rewrite map_app, IH. Qed.

Lemma tnames_tip_names t : tnames t = tip_names t.
Proof.
  unfold tip_names. induction t as [n c sl IH] using utree_ind'.
  change (tnames (UNode n c sl))
    with ((if Nat.eqb (length sl) 1 then [n] else []) ++
          mu_sl (fun n d => if Nat.eqb d 1 then [n] else []) (fun _ => []) sl).
  simpl tips. rewrite map_app, map_flat_map. unfold is_tip, degree. simpl uslots.
  f_equal.
  - destruct (Nat.eqb (length sl) 1); reflexivity.
  - unfold mu_sl. induction IH as [|s r Hs Hr IHr]; [reflexivity|].
    cbn [flat_map]. rewrite IHr. f_equal.
    destruct s as [[e ch]|]; [|reflexivity]. cbn [app]. exact Hs.
Qed.

(** ** the slot function of [graft_id] *)
Section Graft.
  Variables (k : nat) (e1 e2 : einfo) (tip : utree).

  Definition G (s : slot) : slot :=
    match s with
    | None => None
    | Some (e, ch) => if Nat.eqb (eid e) k then Some (e, graft_node e1 e2 tip ch)
                      else Some (e, graft_id k e1 e2 tip ch)
    end.

  Lemma graft_id_unfold n c sl : graft_id k e1 e2 tip (UNode n c sl) = UNode n c (map G sl).
  Proof. reflexivity. Qed.

  Lemma eids_sl_cons_some e ch r : eids_sl (Some (e, ch) :: r) = (eid e :: eids ch) ++ eids_sl r.
  Proof. reflexivity. Qed.
  Lemma eids_unfold n c sl : eids (UNode n c sl) = eids_sl sl.
  Proof. reflexivity. Qed.

  Lemma graft_noop t : ~ In k (eids t) -> graft_id k e1 e2 tip t = t.
  Proof.
    induction t as [n c sl IH] using utree_ind'. intros Hk.
    rewrite graft_id_unfold. f_equal. rewrite eids_unfold in Hk.
    induction IH as [|s r Hs Hr IHr]; [reflexivity|].
    cbn [map]. destruct s as [[e ch]|].
    - rewrite eids_sl_cons_some in Hk.
      assert (K1 : eid e <> k) by (intros E; apply Hk; apply in_or_app; left; left; exact E).
      assert (K2 : ~ In k (eids ch)) by (intros H; apply Hk; apply in_or_app; left; right; exact H).
      assert (K3 : ~ In k (eids_sl r)) by (intros H; apply Hk; apply in_or_app; now right).
      unfold G at 1. apply Nat.eqb_neq in K1. rewrite K1, (Hs K2), (IHr K3). reflexivity.
    - unfold G at 1. rewrite IHr; [reflexivity|exact Hk].
  Qed.

  Lemma map_G_noop sl : ~ In k (eids_sl sl) -> map G sl = sl.
  Proof.
    intros Hk. assert (H := graft_noop (UNode EmptyString [] sl) Hk).
    rewrite graft_id_unfold in H. injection H as H. exact H.
  Qed.

  (** with pairwise distinct indexes exactly one slot, at one place, is rewritten *)
  Lemma G_one sl : NoDup (eids_sl sl) -> In k (eids_sl sl) ->
    exists pre e ch post,
      sl = pre ++ Some (e, ch) :: post /\
      map G sl = pre ++ G (Some (e, ch)) :: post /\
      NoDup (eids ch) /\
      (eid e = k \/ (eid e <> k /\ In k (eids ch))).
  Proof.
    induction sl as [|s r IH]; intros Hnd Hin; [destruct Hin|].
    destruct s as [[e ch]|].
    - rewrite eids_sl_cons_some in Hnd, Hin.
      assert (Hch : NoDup (eids ch)).
      { apply NoDup_app_l in Hnd. now inversion Hnd. }
      destruct (in_app_or _ _ _ Hin) as [H|H].
      + (* here *)
        exists [], e, ch, r. cbn [app]. repeat split; auto.
        * cbn [map]. f_equal. apply map_G_noop. intros Hr.
          eapply NoDup_app_disj; eauto.
        * destruct H as [H|H]; [now left|].
          destruct (Nat.eq_dec (eid e) k); [now left|right; now split].
      + destruct (IH (NoDup_app_r _ _ Hnd) H) as [pre [e' [ch' [post [E1 [E2 [N D]]]]]]].
        exists (Some (e, ch) :: pre), e', ch', post. repeat split; auto.
        * cbn [app]. now rewrite E1.
        * assert (Hk : ~ In k (eid e :: eids ch)).
          { intros Hk. eapply NoDup_app_disj; eauto. }
          cbn [map]. rewrite E2. cbn [app]. f_equal.
          unfold G at 1. destruct (Nat.eqb (eid e) k) eqn:E.
          -- apply Nat.eqb_eq in E. exfalso. apply Hk. now left.
          -- rewrite graft_noop; auto. intros Hc. apply Hk. now right.
    - destruct (IH Hnd Hin) as [pre [e' [ch' [post [E1 [E2 [N D]]]]]]].
      exists (None :: pre), e', ch', post. repeat split; auto.
      + cbn [app]. now rewrite E1.
      + cbn [map app]. now rewrite E2.
  Qed.

  (** ** effect on any measure *)
  Section GraftMeasure.
    Context {X : Type}.
    Variable own : string -> nat -> list X.
    Variable h : einfo -> list X.
    Notation m := (mu own h).

    Lemma graft_node_mu ch :
      m (graft_node e1 e2 tip ch) = own EmptyString 3 ++ (h e1 ++ m tip) ++ (h e2 ++ m ch) ++ [].
    Proof. reflexivity. Qed.

    Theorem graft_mu t : NoDup (eids t) -> In k (eids t) ->
      Permutation (m (graft_id k e1 e2 tip t)) (h e1 ++ h e2 ++ own EmptyString 3 ++ m tip ++ m t).
    Proof.
      induction t as [n c sl IH] using utree_ind'. intros Hnd Hin.
      rewrite eids_unfold in Hnd, Hin.
      destruct (G_one sl Hnd Hin) as [pre [e [ch [post [E1 [E2 [N D]]]]]]].
      rewrite graft_id_unfold, !mu_unfold, map_length, E2.
      assert (IHch : NoDup (eids ch) -> In k (eids ch) ->
                     Permutation (m (graft_id k e1 e2 tip ch))
                                 (h e1 ++ h e2 ++ own EmptyString 3 ++ m tip ++ m ch)).
      { rewrite Forall_forall in IH. apply (IH (Some (e, ch))). rewrite E1. apply in_or_app. right. now left. }
      replace (mu_sl own h sl) with (mu_sl own h (pre ++ Some (e, ch) :: post)) by now rewrite E1.
      rewrite !mu_sl_app.
      unfold G. destruct D as [D|[D1 D2]].
      - apply Nat.eqb_eq in D. rewrite D. rewrite !mu_sl_cons_some, graft_node_mu. perm.
      - apply Nat.eqb_neq in D1. rewrite D1. rewrite !mu_sl_cons_some.
        specialize (IHch N D2).
        etransitivity.
        + apply Permutation_app_head. apply Permutation_app_head. apply Permutation_app_tail.
          apply Permutation_app_head. exact IHch.
        + perm.
    Qed.
  End GraftMeasure.

  (** ** shape: no uniqueness needed *)
  Hypothesis tip_wf : wf_sub tip = true.
  Hypothesis tip_bin : bin_sub tip = true.

  Lemma graft_degree t : degree (graft_id k e1 e2 tip t) = degree t.
  Proof. destruct t as [n c sl]. rewrite graft_id_unfold. unfold degree. simpl. apply map_length. Qed.

  Lemma n_up_map_G sl : n_up (map G sl) = n_up sl.
  Proof.
    induction sl as [|s r IH]; simpl; auto.
    destruct s as [[e ch]|]; simpl.
    - rewrite !n_up_cons. destruct (Nat.eqb (eid e) k); simpl; now rewrite IH.
    - rewrite !n_up_cons, IH. reflexivity.
  Qed.

  (** one generic step: a predicate that holds below every slot, holds on the tip and on a
      freshly inserted node whenever it holds on the old child, is preserved *)
  Lemma sub_all_map_G (p : utree -> bool) sl :
    (forall ch, p ch = true -> p (graft_node e1 e2 tip ch) = true) ->
    Forall (fun s => match s with Some (_, t) => p t = true -> p (graft_id k e1 e2 tip t) = true | None => True end) sl ->
    sub_all p sl = true -> sub_all p (map G sl) = true.
  Proof.
    intros Hn IH H. unfold sub_all in *. rewrite forallb_forall in *.
    intros s Hs. apply in_map_iff in Hs as [s0 [<- Hs0]].
    rewrite Forall_forall in IH. specialize (IH s0 Hs0). specialize (H s0 Hs0).
    destruct s0 as [[e ch]|]; simpl; auto.
    destruct (Nat.eqb (eid e) k); auto.
  Qed.

  Lemma graft_node_wf_sub ch : wf_sub ch = true -> wf_sub (graft_node e1 e2 tip ch) = true.
  Proof. intros H. unfold graft_node. rewrite wf_sub_def. unfold sub_all. simpl. now rewrite tip_wf, H. Qed.
  Lemma graft_node_bin_sub ch : bin_sub ch = true -> bin_sub (graft_node e1 e2 tip ch) = true.
  Proof. intros H. unfold graft_node. rewrite bin_sub_def. unfold sub_all. simpl. now rewrite tip_bin, H. Qed.

  Lemma graft_wf_sub t : wf_sub t = true -> wf_sub (graft_id k e1 e2 tip t) = true.
  Proof.
    induction t as [n c sl IH] using utree_ind'. intros H.
    rewrite graft_id_unfold. rewrite wf_sub_def in *. apply andb_true_iff in H as [H1 H2].
    rewrite n_up_map_G, H1. simpl.
    apply sub_all_map_G; auto. apply graft_node_wf_sub.
  Qed.

  Lemma graft_wf t : wf t = true -> wf (graft_id k e1 e2 tip t) = true.
  Proof.
    destruct t as [n c sl]. intros H.
    rewrite graft_id_unfold. rewrite wf_def in *. apply andb_true_iff in H as [H1 H2].
    rewrite n_up_map_G, H1. simpl.
    apply sub_all_map_G; auto; [apply graft_node_wf_sub|].
    apply Forall_forall. intros [[e ch]|] _; auto. apply graft_wf_sub.
  Qed.

  Lemma graft_bin_sub t : bin_sub t = true -> bin_sub (graft_id k e1 e2 tip t) = true.
  Proof.
    induction t as [n c sl IH] using utree_ind'. intros H.
    rewrite graft_id_unfold. rewrite bin_sub_def in *. apply andb_true_iff in H as [H1 H2].
    rewrite map_length, H1. simpl.
    apply sub_all_map_G; auto. apply graft_node_bin_sub.
  Qed.

  Lemma graft_sub_all_bin t :
    sub_all bin_sub (uslots t) = true -> sub_all bin_sub (uslots (graft_id k e1 e2 tip t)) = true.
  Proof.
    destruct t as [n c sl]. rewrite graft_id_unfold. simpl. intros H2.
    apply sub_all_map_G; auto; [apply graft_node_bin_sub|].
    apply Forall_forall. intros [[e ch]|] _; auto. apply graft_bin_sub.
  Qed.
End Graft.
