(** C17: the proposed neighbours are pairwise different as sets of splits (distinct tip
    names, root with at least two children).
    * two proposals of the same branch: their new splits cross each other;
    * proposals of different branches: the neighbour of the first still has the central
      split of the second branch, which the second neighbour's new split crosses. *)
From Coq Require Import String ZArith QArith Bool Arith Lia List Permutation Setoid Morphisms.
From GT Require Import Base.UTree Spec.Obs Spec.Unrooted Spec.NNISpec Model.Reroot Model.NNI
     Proofs.RerootBase Proofs.Reorder Proofs.Splits Proofs.NNIBase Proofs.NNISem Proofs.NNIMain
     Proofs.NNISets.
Import ListNotations.
Local Close Scope Q_scope.
Local Arguments n_up : simpl never.
Local Arguments leaves : simpl never.
Local Arguments bsplits : simpl never.
Local Arguments kleaves : simpl never.
Local Arguments kbs : simpl never.

(** * where subtrees are: inclusion and disjointness of their tips *)
Lemma node_leaves_incl q t c : node_at t q = Some c -> incl (leaves c) (leaves t).
Proof.
  intros H a Ha. apply (Permutation_in _ (Permutation_sym (leaves_outside _ _ _ H))).
  apply in_or_app. now right.
Qed.

Lemma kid_leaves_nodup n c sl m e x :
  nth_error sl m = Some (Some (e, x)) -> NoDup (leaves (UNode n c sl)) -> NoDup (leaves x).
Proof.
  intros E ND. rewrite (leaves_kids_app _ _ _ _ _ _ (kids_of_nth _ _ _ E)) in ND. cbn [snd] in ND.
  exact (NoDup_app_l _ _ (NoDup_app_r _ _ ND)).
Qed.

Lemma nth_error_skipn' {A} n : forall (l : list A) m, nth_error (skipn n l) m = nth_error l (n + m).
Proof.
  induction n as [|n IH]; intros l m; [reflexivity|]. destruct l as [|a l]; simpl.
  - now destruct m.
  - apply IH.
Qed.

Lemma slots_disjoint_lt n c sl m1 m2 e1 x1 e2 x2 :
  m1 < m2 -> nth_error sl m1 = Some (Some (e1, x1)) -> nth_error sl m2 = Some (Some (e2, x2)) ->
  NoDup (leaves (UNode n c sl)) -> forall a, In a (leaves x1) -> In a (leaves x2) -> False.
Proof.
  intros Lt E1 E2 ND a H1 H2.
  rewrite (leaves_kids_app _ _ _ _ _ _ (kids_of_nth _ _ _ E1)) in ND. cbn [snd] in ND.
  apply NoDup_app_r in ND. eapply NoDup_app_disjoint; [exact ND|exact H1|].
  assert (E2' : nth_error (skipn (S m1) sl) (m2 - S m1) = Some (Some (e2, x2))).
  { rewrite nth_error_skipn'. replace (S m1 + (m2 - S m1)) with m2 by lia. exact E2. }
  apply nth_error_In, kids_of_In in E2'. unfold kleaves. apply in_flat_map.
  exists (e2, x2). split; auto.
Qed.

Lemma slots_disjoint n c sl m1 m2 e1 x1 e2 x2 :
  m1 <> m2 -> nth_error sl m1 = Some (Some (e1, x1)) -> nth_error sl m2 = Some (Some (e2, x2)) ->
  NoDup (leaves (UNode n c sl)) -> forall a, In a (leaves x1) -> In a (leaves x2) -> False.
Proof.
  intros Ne E1 E2 ND a H1 H2. destruct (Nat.lt_ge_cases m1 m2).
  - eapply (slots_disjoint_lt n c sl m1 m2); eauto.
  - eapply (slots_disjoint_lt n c sl m2 m1); eauto. lia.
Qed.

(** every child of the node has a sibling *)
Definition two_kids (c : utree) : Prop :=
  forall m e x, nth_error (uslots c) m = Some (Some (e, x)) ->
                exists m' e' x', m' <> m /\ nth_error (uslots c) m' = Some (Some (e', x')).

Lemma pick_leaf t : exists a, In a (leaves t).
Proof. pose proof (leaves_nonempty t). destruct (leaves t) as [|a l]; [congruence|]. exists a. now left. Qed.

(** different places, different tip sets *)
Lemma diff_clades q1 : forall t q2 c1 c2,
  NoDup (leaves t) -> node_at t q1 = Some c1 -> node_at t q2 = Some c2 -> q1 <> q2 ->
  two_kids c1 -> two_kids c2 -> leaves c1 <> leaves c2.
Proof.
  induction q1 as [|m1 r1 IH]; intros t q2 c1 c2 ND H1 H2 Ne K1 K2 EQ.
  - simpl in H1. inversion H1; subst c1. destruct q2 as [|m2 r2]; [congruence|].
    destruct t as [n c sl]. simpl in H2.
    destruct (nth_error sl m2) as [[[e x]|]|] eqn:E; try discriminate.
    destruct (K1 m2 e x E) as (m' & e' & x' & Nm & E').
    destruct (pick_leaf x') as [a Ha].
    assert (In a (leaves c2)).
    { rewrite <- EQ. eapply (node_leaves_incl [m']); [|exact Ha]. simpl. cbn [uslots] in E'. now rewrite E'. }
    eapply (slots_disjoint n c sl m' m2); eauto. eapply node_leaves_incl; eauto.
  - destruct t as [n c sl]. simpl in H1.
    destruct (nth_error sl m1) as [[[e1 x1]|]|] eqn:E1; try discriminate.
    destruct q2 as [|m2 r2].
    + simpl in H2. inversion H2; subst c2.
      destruct (K2 m1 e1 x1 E1) as (m' & e' & x' & Nm & E').
      destruct (pick_leaf x') as [a Ha].
      assert (In a (leaves c1)).
      { rewrite EQ. eapply (node_leaves_incl [m']); [|exact Ha]. simpl. cbn [uslots] in E'. now rewrite E'. }
      eapply (slots_disjoint n c sl m' m1); eauto. eapply node_leaves_incl; eauto.
    + simpl in H2. destruct (nth_error sl m2) as [[[e2 x2]|]|] eqn:E2; try discriminate.
      destruct (Nat.eq_dec m1 m2) as [->|Nm].
      * rewrite E1 in E2. inversion E2; subst.
        eapply (IH x2 r2 c1 c2); eauto; [eapply kid_leaves_nodup; eauto | congruence].
      * destruct (pick_leaf c1) as [a Ha].
        eapply (slots_disjoint n c sl m1 m2); eauto; [eapply node_leaves_incl; eauto|].
        rewrite EQ in Ha. eapply node_leaves_incl; eauto.
Qed.

Lemma node_at_snoc p : forall t k n1 e c,
  node_at t p = Some n1 -> nth_error (uslots n1) k = Some (Some (e, c)) -> node_at t (p ++ [k]) = Some c.
Proof.
  induction p as [|m r IH]; intros t k n1 e c H E; simpl in *.
  - inversion H; subst. now rewrite E.
  - destruct (nth_error (uslots t) m) as [[[e' x]|]|]; try discriminate. eapply IH; eauto.
Qed.

Lemma two_kids_n2 j P : j < 3 -> two_kids (pic_n2 j P).
Proof.
  intros Hj m e x. destruct P as [? ? ? ? ? ? [e1 x1] [e2 x2]]. unfold pic_n2. cbn.
  destruct j as [|[|[|j]]]; [| | |lia]; destruct m as [|[|[|m]]]; cbn; intros H; try discriminate;
    try (destruct m; discriminate).
  all: first [ now (exists 0; do 2 eexists; split; [lia | reflexivity])
             | now (exists 1; do 2 eexists; split; [lia | reflexivity])
             | now (exists 2; do 2 eexists; split; [lia | reflexivity]) ].
Qed.

(** * same branch *)
Lemma valid_same_j r1 r2 t :
  valid r1 t -> valid r2 t -> r_path r1 = r_path r2 -> r_k r1 = r_k r2 -> r_j r1 = r_j r2.
Proof.
  intros (n1 & ec & n2 & A1 & A2 & _ & _ & A5 & _) (n1' & ec' & n2' & B1 & B2 & _ & _ & B5 & _) Ep Ek.
  rewrite Ep, B1 in A1. inversion A1; subst n1'. rewrite Ek, B2 in A2. inversion A2; subst.
  rewrite B5 in A5. now inversion A5.
Qed.

Lemma moved_negb cr P : moved (negb cr) P = stay cr P.
Proof. now destruct cr. Qed.
Lemma stay_negb cr P : stay (negb cr) P = moved cr P.
Proof. now destruct cr. Qed.

Lemma head_has_split t e x b rest :
  Permutation (bsplits t) ((e, x, b) :: rest) -> has_split t x.
Proof.
  intros H. exists (e, x, b). split.
  - apply (Permutation_in _ (Permutation_sym H)). now left.
  - left. reflexivity.
Qed.

Theorem distinct_same_branch r1 r2 t t1 t2 :
  wf t = true -> NoDup (leaves t) -> 2 <= length (kids t) ->
  valid r1 t -> valid r2 t ->
  r_path r1 = r_path r2 -> r_k r1 = r_k r2 -> r_cross r1 <> r_cross r2 ->
  apply r1 t = Some t1 -> apply r2 t = Some t2 ->
  ~ same_splits t1 t2.
Proof.
  intros W ND K2 V1 V2 Ep Ek Ec A1 A2.
  pose proof (valid_same_j _ _ _ V1 V2 Ep Ek) as Ej.
  destruct (valid_picture _ _ W V1) as (P & Hn & Hk & Hj & _).
  assert (Hn2 : node_at t (r_path r2) = Some (pic_n1 (r_k r2) (r_j r2) P)) by (rewrite <- Ep, <- Ek, <- Ej; exact Hn).
  assert (Ec' : r_cross r2 = negb (r_cross r1)) by (revert Ec; destruct (r_cross r1), (r_cross r2); simpl; congruence).
  assert (Hk2 : r_k r2 < 3) by (rewrite <- Ek; exact Hk).
  assert (Hj2 : r_j r2 < 3) by (rewrite <- Ej; exact Hj).
  destruct (apply_picture r1 t t1 P W Hn Hk Hj A1) as (_ & TL1 & HL & NB & NDd & NAC & _ & New1 & rs1 & rs1' & _ & B1 & _).
  destruct (apply_picture r2 t t2 P W Hn2 Hk2 Hj2 A2) as (_ & _ & _ & _ & _ & _ & _ & New2 & rs2 & rs2' & _ & B2 & _).
  rewrite <- Ep, Ec' in New2. unfold cornerB, cornerD in New2. rewrite moved_negb, stay_negb in New2.
  fold (cornerB (r_cross r1) P) in New2. fold (cornerD (r_cross r1) P) in New2.
  destruct (NAC K2) as [NA NC].
  eapply crossing_distinct.
  - eapply Permutation_NoDup; eauto.
  - eapply head_has_split; eauto.
  - eapply head_has_split; eauto.
  - eapply crosses_permL; [exact TL1|].
    eapply (cross_new_new (leaves t) _ _ _ _ ND HL NA NB NC NDd).
    + destruct New1 as [H|H]; [left|right]; now apply two_perm.
    + rewrite Ec'. destruct New2 as [H|H]; [left|right]; now apply two_perm.
Qed.

(** * different branches *)
Theorem distinct_other_branch r1 r2 t t1 t2 :
  wf t = true -> NoDup (leaves t) -> 2 <= length (kids t) ->
  valid r1 t -> valid r2 t ->
  (r_path r1, r_k r1) <> (r_path r2, r_k r2) ->
  apply r1 t = Some t1 -> apply r2 t = Some t2 ->
  ~ same_splits t1 t2.
Proof.
  intros W ND K2 V1 V2 Ne A1 A2.
  destruct (valid_picture _ _ W V1) as (P1 & Hn1 & Hk1 & Hj1 & _).
  destruct (valid_picture _ _ W V2) as (P2 & Hn2 & Hk2 & Hj2 & _).
  destruct (apply_picture r1 t t1 P1 W Hn1 Hk1 Hj1 A1) as (_ & TL1 & _ & _ & _ & _ & _ & _ & rs1 & rs1' & B1 & B1' & R1).
  destruct (apply_picture r2 t t2 P2 W Hn2 Hk2 Hj2 A2) as (_ & _ & HL & NB & NDd & NAC & Old2 & New2 & rs2 & rs2' & B2 & B2' & _).
  destruct (NAC K2) as [NA NC].
  (* the central branch of r2 is still a branch of t1 *)
  assert (S1 : has_split t1 (leaves (pic_n2 (r_j r2) P2))).
  { assert (I2 : In (p_ec P2, leaves (pic_n2 (r_j r2) P2), false) (bsplits t))
      by (apply (Permutation_in _ (Permutation_sym B2)); now left).
    apply (Permutation_in _ B1) in I2. destruct I2 as [E|I2].
    - exfalso. inversion E as [[Ee El]].
      assert (Q1 : node_at t (r_path r1 ++ [r_k r1]) = Some (pic_n2 (r_j r1) P1)).
      { eapply node_at_snoc; [exact Hn1|]. unfold pic_n1. cbn [uslots]. now apply pl_nth_k. }
      assert (Q2 : node_at t (r_path r2 ++ [r_k r2]) = Some (pic_n2 (r_j r2) P2)).
      { eapply node_at_snoc; [exact Hn2|]. unfold pic_n1. cbn [uslots]. now apply pl_nth_k. }
      eapply (diff_clades _ t _ _ _ ND Q1 Q2); eauto using two_kids_n2.
      intros X. apply app_inj_tail in X. destruct X. congruence.
    - destruct (PermR_In _ _ bs_same_Equivalence _ _ R1 _ I2) as (y' & Iy' & _ & _ & Py').
      exists y'. split.
      + apply (Permutation_in _ (Permutation_sym B1')). now right.
      + left. exact Py'. }
  eapply crossing_distinct.
  - eapply Permutation_NoDup; eauto.
  - exact S1.
  - eapply head_has_split; eauto.
  - eapply crosses_permL; [exact TL1|].
    eapply (cross_old_new (leaves t) _ _ _ _ ND HL NA NB NC NDd).
    + now apply two_perm.
    + destruct New2 as [H|H]; [left|right]; now apply two_perm.
Qed.

(** both cases *)
Theorem neighbours_distinct r1 r2 t t1 t2 :
  wf t = true -> NoDup (leaves t) -> 2 <= length (kids t) ->
  In r1 (nni_list t) -> In r2 (nni_list t) ->
  (r_path r1, r_k r1, r_cross r1) <> (r_path r2, r_k r2, r_cross r2) ->
  apply r1 t = Some t1 -> apply r2 t = Some t2 ->
  ~ same_splits t1 t2.
Proof.
  intros W ND K2 I1 I2 Ne A1 A2.
  apply nni_list_valid in I1, I2.
  destruct (list_eq_dec Nat.eq_dec (r_path r1) (r_path r2)) as [Ep|Np].
  - destruct (Nat.eq_dec (r_k r1) (r_k r2)) as [Ek|Nk].
    + apply (distinct_same_branch r1 r2 t t1 t2); auto. intros Ec. apply Ne. now rewrite Ep, Ek, Ec.
    + apply (distinct_other_branch r1 r2 t t1 t2); auto. intros E. inversion E. contradiction.
  - apply (distinct_other_branch r1 r2 t t1 t2); auto. intros E. inversion E. contradiction.
Qed.
