(** Basic facts for Model/Index.v: HashCode symmetry, sorting of tip names, tip ranks,
    bit vectors, additive hashes. *)
From Coq Require Import String Ascii NArith ZArith Bool Arith Lia List Permutation Sorted OrderedTypeEx.
From GT Require Import Base.UTree Model.Index.
Import ListNotations.

(** * HashCode depends only on the unordered pair of sides *)
Lemma hashcode_sym : forall nl nr hl hr, hash_code_of nl nr hl hr = hash_code_of nr nl hr hl.
Proof.
  intros. unfold hash_code_of.
  rewrite (Nat.eqb_sym nr nl). destruct (Nat.eqb_spec nl nr).
  - now rewrite N.mul_comm.
  - destruct (Nat.ltb_spec nl nr), (Nat.ltb_spec nr nl); try reflexivity; lia.
Qed.

(** * byte-wise order on names *)
Lemma ltb_lt : forall a b, String.ltb a b = true <-> String_as_OT.lt a b.
Proof.
  intros. unfold String.ltb. rewrite <- String_as_OT.cmp_lt. unfold String_as_OT.cmp.
  destruct (String.compare a b); split; congruence.
Qed.

Lemma ltb_trans : forall a b c, String.ltb a b = true -> String.ltb b c = true -> String.ltb a c = true.
Proof. intros a b c. rewrite !ltb_lt. apply String_as_OT.lt_trans. Qed.

Lemma ltb_irrefl : forall a, String.ltb a a = false.
Proof.
  intros. destruct (String.ltb a a) eqn:E; auto. apply ltb_lt in E.
  apply String_as_OT.lt_not_eq in E. exfalso. now apply E.
Qed.

Lemma ltb_asym : forall a b, String.ltb a b = true -> String.ltb b a = false.
Proof.
  intros. destruct (String.ltb b a) eqn:E; auto.
  pose proof (ltb_trans _ _ _ H E). rewrite ltb_irrefl in H0. discriminate.
Qed.

Lemma ltb_total : forall a b, String.ltb a b = false -> String.ltb b a = false -> a = b.
Proof.
  intros a b. unfold String.ltb. rewrite (String.compare_antisym a b).
  destruct (String.compare b a) eqn:E; simpl; intros H1 H2; try discriminate.
  symmetry. now apply String.compare_eq_iff.
Qed.

(** * sort_names *)
Lemma ins_name_perm : forall x l, Permutation (ins_name x l) (x :: l).
Proof.
  induction l; simpl; auto. destruct (String.ltb x a); auto.
  eapply Permutation_trans; [apply perm_skip, IHl | apply perm_swap].
Qed.

Lemma sort_names_perm : forall l, Permutation (sort_names l) l.
Proof.
  induction l; simpl; auto.
  eapply Permutation_trans; [apply ins_name_perm | now apply perm_skip].
Qed.

Lemma ins_name_comm : forall x y l, ins_name x (ins_name y l) = ins_name y (ins_name x l).
Proof.
  intros x y l. destruct (String.eqb_spec x y) as [->|Hne]; [reflexivity|].
  induction l as [|h r IH]; simpl.
  - destruct (String.ltb x y) eqn:A, (String.ltb y x) eqn:B; try reflexivity.
    + rewrite (ltb_asym _ _ A) in B. discriminate.
    + exfalso. apply Hne. now apply ltb_total.
  - destruct (String.ltb y h) eqn:Yh, (String.ltb x h) eqn:Xh,
             (String.ltb x y) eqn:A, (String.ltb y x) eqn:B;
      simpl; rewrite ?Xh, ?Yh, ?A, ?B; simpl; rewrite ?Xh, ?Yh, ?A, ?B; try reflexivity;
      try (rewrite (ltb_asym _ _ A) in B; discriminate);
      try (exfalso; apply Hne; now apply ltb_total);
      try (rewrite (ltb_trans _ _ _ A Yh) in Xh; discriminate);
      try (rewrite (ltb_trans _ _ _ B Xh) in Yh; discriminate).
    all: now rewrite IH.
Qed.

Lemma sort_names_perm_eq : forall l l', Permutation l l' -> sort_names l = sort_names l'.
Proof.
  induction 1; simpl; auto.
  - now rewrite IHPermutation.
  - apply ins_name_comm.
  - congruence.
Qed.

(** [a] is not after [b] *)
Definition name_le (a b : string) : Prop := String.ltb b a = false.

Lemma ins_name_sorted : forall x l, StronglySorted name_le l -> StronglySorted name_le (ins_name x l).
Proof.
  induction l as [|h r IH]; simpl; intros S.
  - repeat constructor.
  - inversion S as [|? ? S' F]; subst. destruct (String.ltb x h) eqn:E.
    + constructor; auto. constructor.
      * unfold name_le. now apply ltb_asym.
      * rewrite Forall_forall in *. intros z Hz. specialize (F z Hz). unfold name_le in *.
        destruct (String.ltb z x) eqn:Z; auto. rewrite (ltb_trans _ _ _ Z E) in F. discriminate.
    + constructor; auto.
      rewrite Forall_forall in *. intros z Hz.
      apply (Permutation_in _ (ins_name_perm x r)) in Hz. destruct Hz as [<-|Hz]; auto.
  Qed.

Lemma sort_names_sorted : forall l, StronglySorted name_le (sort_names l).
Proof. induction l; simpl; [constructor | now apply ins_name_sorted]. Qed.

(** * ranks *)
Lemma index_of_nth : forall x l, In x l -> nth_error l (index_of x l) = Some x.
Proof.
  induction l; simpl; intros; [contradiction|].
  destruct (String.eqb_spec x a); subst; simpl; auto.
  destruct H; [congruence | auto].
Qed.

Lemma index_of_lt : forall x l, In x l -> index_of x l < length l.
Proof. intros. apply nth_error_Some. rewrite index_of_nth; auto. discriminate. Qed.

Lemma nth_index_of : forall l i x, NoDup l -> nth_error l i = Some x -> index_of x l = i.
Proof.
  induction l; intros i x ND H; [destruct i; discriminate|].
  inversion ND; subst. destruct i; simpl in *.
  - inversion H; subst. now rewrite String.eqb_refl.
  - destruct (String.eqb_spec x a); subst.
    + exfalso. apply H2. eapply nth_error_In; eauto.
    + f_equal. auto.
Qed.

(** * bit vectors *)
Lemma set_bit_test : forall i b j, test_bit (set_bit i b) j = Nat.eqb i j || test_bit b j.
Proof.
  unfold test_bit. induction i; destruct b, j; simpl; auto;
    rewrite ?IHi; simpl; auto; try (destruct j; reflexivity).
Qed.

Lemma set_bit_length : forall i b, i < length b -> length (set_bit i b) = length b.
Proof.
  induction i; destruct b; simpl; intros; try lia.
  rewrite IHi; lia.
Qed.

Lemma fold_set_bit_test : forall ids b j,
    test_bit (fold_left (fun b i => set_bit i b) ids b) j = existsb (fun i => Nat.eqb i j) ids || test_bit b j.
Proof.
  induction ids; simpl; intros; auto.
  rewrite IHids, set_bit_test. now rewrite orb_assoc, (orb_comm (existsb _ _)).
Qed.

Lemma fold_set_bit_length : forall ids b,
    Forall (fun i => i < length b) ids -> length (fold_left (fun b i => set_bit i b) ids b) = length b.
Proof.
  induction ids; simpl; intros; auto. inversion H; subst.
  rewrite IHids; rewrite set_bit_length; auto.
Qed.

Lemma test_bit_new : forall n j, test_bit (bits_new n) j = false.
Proof. unfold test_bit, bits_new. induction n; destruct j; simpl; auto. Qed.

(** * additive hashes *)
Fixpoint hsum (l : list string) : N :=
  match l with [] => 0%N | x :: r => w64 (tax_hash x + hsum r) end.

Lemma w64_lt : forall x, (w64 x < W64)%N.
Proof. intros. apply N.mod_lt. discriminate. Qed.
Lemma w64_small : forall x, (x < W64)%N -> w64 x = x.
Proof. intros. now apply N.mod_small. Qed.
Lemma w64_add_l : forall a b, w64 (w64 a + b) = w64 (a + b).
Proof. intros. unfold w64. apply N.add_mod_idemp_l. discriminate. Qed.
Lemma w64_add_r : forall a b, w64 (a + w64 b) = w64 (a + b).
Proof. intros. unfold w64. apply N.add_mod_idemp_r. discriminate. Qed.

Lemma hsum_lt : forall l, (hsum l < W64)%N.
Proof. destruct l; simpl; [reflexivity | apply w64_lt]. Qed.

Lemma hsum_app : forall l1 l2, hsum (l1 ++ l2) = w64 (hsum l1 + hsum l2).
Proof.
  induction l1; simpl; intros.
  - symmetry. apply w64_small, hsum_lt.
  - rewrite IHl1. rewrite w64_add_r, w64_add_l. f_equal. lia.
Qed.

Lemma hsum_perm : forall l l', Permutation l l' -> hsum l = hsum l'.
Proof.
  induction 1; simpl; auto.
  - now rewrite IHPermutation.
  - rewrite !w64_add_r. f_equal. lia.
  - congruence.
Qed.
