(** C05 (iv), midpoint rooting: pieces.
    1. names and uniqueness of the depth entries;
    2. the tip-to-tip distances that involve the start tip, read in the view from its neighbour;
    3. the scan over the tips returns the largest eccentricity. *)
From Coq Require Import String ZArith QArith Bool Arith Lia List Permutation Setoid Morphisms.
From GT Require Import Base.UTree Spec.Obs Model.Reroot Model.Outgroup Spec.Unrooted
     Proofs.RerootBase Proofs.Reroot Proofs.Reorder Proofs.Unroot Proofs.Splits Proofs.C05Main
     Proofs.OutgroupBase Proofs.OutgroupCut Proofs.OutgroupKeep Proofs.OutgroupLCA Proofs.OutgroupClade
     Proofs.OutgroupMain Proofs.OutgroupSide Proofs.OutgroupRemove Proofs.OutgroupMidpoint Proofs.OutgroupMidDist Proofs.OutgroupMlp.
Import ListNotations.
Local Close Scope Q_scope.
Local Arguments n_up : simpl never.

(** * 1. depth entries *)
Lemma shift_map_fst q l : map fst (shift q l) = map fst l.
Proof. unfold shift. rewrite map_map. reflexivity. Qed.

Lemma depths_names_eq w s : map fst (depths w s) = leaves s.
Proof.
  induction s as [n c sl IH] using utree_ind'.
  rewrite depths_unfold, leaves_unfold.
  destruct (kids_of sl) as [|x K] eqn:EK; [reflexivity|]. rewrite <- EK.
  assert (IH' : Forall (fun p : einfo * utree => map fst (depths w (snd p)) = leaves (snd p)) (kids_of sl)).
  { rewrite Forall_forall in *. intros [e ch] Hin. apply kids_of_In in Hin. exact (IH _ Hin). }
  clear IH EK. induction IH' as [|p K' Hp HK IH]; [reflexivity|].
  simpl kD. simpl concat. rewrite map_app, shift_map_fst, Hp, IH. reflexivity.
Qed.

Lemma leaf_has_depth w s x : In x (leaves s) -> exists d, In (x, d) (depths w s).
Proof.
  rewrite <- (depths_names_eq w s). intros H. apply in_map_iff in H as [[y d] [E H]].
  simpl in E. subst y. eauto.
Qed.

Lemma depth_unique w s x d1 d2 :
  NoDup (leaves s) -> In (x, d1) (depths w s) -> In (x, d2) (depths w s) -> d1 = d2.
Proof.
  rewrite <- (depths_names_eq w s). generalize (depths w s). intros l.
  induction l as [|[y d] r IH]; simpl; intros HN H1 H2; [tauto|].
  inversion HN as [|? ? Hy HN']; subst.
  destruct H1 as [E1|H1], H2 as [E2|H2].
  - congruence.
  - inversion E1; subst. exfalso. apply Hy. apply in_map_iff. exists (x, d2). auto.
  - inversion E2; subst. exfalso. apply Hy. apply in_map_iff. exists (x, d1). auto.
  - auto.
Qed.

Lemma cross_In A B z :
  In z (cross A B) <-> exists x y, In x A /\ In y B /\ z = (fst x, fst y, (snd x + snd y)%Q).
Proof.
  unfold cross. rewrite in_flat_map. split.
  - intros [x [Hx Hz]]. apply in_map_iff in Hz as [y [E Hy]]. exists x, y. auto.
  - intros [x [y [Hx [Hy E]]]]. exists x. split; auto. apply in_map_iff. exists y. auto.
Qed.

(** * 2. the view from the neighbour of a tip: distances that involve that tip *)
Section ViewPairs.
  Variables (n : string) (c : list string) (sl : list slot) (j : nat) (ea : einfo) (a : utree).
  Hypothesis Hj : nth_error sl j = Some (Some (ea, a)).
  Hypothesis Ha : kids a = [].
  Let t2 := UNode n c sl.
  Let A' := UNode n c (set_nth j None sl).
  Let na := uname a.
  Let da : Q := (elen ea + 0)%Q.
  Hypothesis Hrest : kids A' <> [].
  Let C := depths elen A'.

  Lemma view_decomp :
    exists K1 K2,
      kids_of sl = K1 ++ (ea, a) :: K2 /\ kids_of (set_nth j None sl) = K1 ++ K2 /\
      C = concat (kD elen (K1 ++ K2)) /\
      Permutation (pairdists elen t2)
                  (symcross [(na, da)] C ++ cross_all (kD elen (K1 ++ K2)) ++ kpd elen (K1 ++ K2)).
  Proof.
    destruct (kids_of_set_nth sl j (ea, a) Hj) as [K1 [K2 [F1 F2]]].
    exists K1, K2. split; auto. split; auto.
    assert (EC : C = concat (kD elen (K1 ++ K2))).
    { unfold C, A'. rewrite depths_node; [now rewrite F2|]. unfold A', kids in Hrest. exact Hrest. }
    split; auto.
    unfold t2. rewrite pairdists_unfold, F1, !kD_app, !kpd_app. simpl kD. simpl kpd. cbn [fst snd].
    assert (Da : depths elen a = [(na, 0%Q)]).
    { destruct a as [nm cm slm]. unfold kids in Ha. simpl in Ha. rewrite depths_unfold, Ha. reflexivity. }
    assert (Pa : pairdists elen a = []).
    { destruct a as [nm cm slm]. unfold kids in Ha. simpl in Ha. rewrite pairdists_unfold, Ha. reflexivity. }
    rewrite Da, Pa. simpl shift. fold da.
    rewrite (cross_all_insert (kD elen K1) [(na, da)] (kD elen K2)).
    rewrite EC, kD_app. perm.
  Qed.

  Lemma view_pairs_in y dy :
    In (y, dy) C ->
    In (na, y, (da + dy)%Q) (pairdists elen t2) /\ In (y, na, (dy + da)%Q) (pairdists elen t2).
  Proof.
    intros Hy. destruct view_decomp as (K1 & K2 & _ & _ & _ & HP).
    split; apply (Permutation_in _ (Permutation_sym HP)); apply in_or_app; left;
      unfold symcross; apply in_or_app.
    - left. apply cross_In. exists (na, da), (y, dy). simpl. auto.
    - right. apply cross_In. exists (y, dy), (na, da). simpl. auto.
  Qed.

  Hypothesis HN : NoDup (leaves t2).

  Lemma view_rest_names :
    exists rest, ~ In na rest /\ Forall (fun x => In (fst x) rest) C /\
                 forall K1 K2, kids_of (set_nth j None sl) = K1 ++ K2 ->
                   Forall (fun y => In (fst (fst y)) rest /\ In (snd (fst y)) rest) (cross_all (kD elen (K1 ++ K2))) /\
                   Forall (fun y => In (fst (fst y)) rest /\ In (snd (fst y)) rest) (kpd elen (K1 ++ K2)).
  Proof.
    destruct (kids_of_set_nth sl j (ea, a) Hj) as [K1 [K2 [F1 F2]]].
    exists (kleaves (K1 ++ K2)).
    assert (NE : kids_of sl <> []) by (rewrite F1; destruct K1; discriminate).
    assert (La : leaves a = [na]).
    { destruct a as [nm cm slm]. unfold kids in Ha. simpl in Ha. rewrite leaves_unfold, Ha. reflexivity. }
    unfold t2 in HN. rewrite (leaves_node n c sl NE), F1, kleaves_app, kleaves_cons in HN. cbn [snd] in HN.
    rewrite La in HN.
    assert (FD : Forall (Forall (fun x => In (fst x) (kleaves (K1 ++ K2)))) (kD elen (K1 ++ K2))).
    { unfold kD. apply Forall_forall. intros d Hd. apply in_map_iff in Hd as [[e' c'] [<- Hin]].
      apply (shift_names_Forall (fun x => In x (kleaves (K1 ++ K2)))).
      eapply Forall_impl; [|apply depths_names_in]. intros y Hy.
      unfold kleaves. apply in_flat_map. exists (e', c'). auto. }
    split; [|split].
    - rewrite kleaves_app. intros H. apply in_app_or in H.
      apply (NoDup_remove_2 _ _ _ HN). apply in_or_app. exact H.
    - unfold C, A'. rewrite depths_node by (unfold A', kids in Hrest; exact Hrest). rewrite F2.
      now apply Forall_concat.
    - intros K1' K2' E. rewrite F2 in E. rewrite <- E. split.
      + apply (cross_all_ends (fun x => In x (kleaves (K1 ++ K2))) _ FD).
      + unfold kpd. apply Forall_forall. intros y Hy. apply in_flat_map in Hy as [[e' c'] [Hin Hy]].
        pose proof (pairdists_names_in elen c') as F. rewrite Forall_forall in F.
        destruct (F _ Hy) as [H1 H2].
        split; unfold kleaves; apply in_flat_map; exists (e', c'); auto.
  Qed.

  Lemma view_pairs_inv x y d :
    In (x, y, d) (pairdists elen t2) ->
    (x = na -> exists dy, In (y, dy) C /\ d = (da + dy)%Q) /\
    (y = na -> exists dx, In (x, dx) C /\ d = (dx + da)%Q).
  Proof.
    intros Hin. destruct view_decomp as (K1 & K2 & F1 & F2 & EC & HP).
    destruct view_rest_names as (rest & Hna & FC & Hrest').
    destruct (Hrest' K1 K2 F2) as [FX FK].
    apply (Permutation_in _ HP) in Hin.
    rewrite Forall_forall in FC, FX, FK.
    apply in_app_or in Hin as [Hin|Hin]; [unfold symcross in Hin; apply in_app_or in Hin as [Hin|Hin]|
                                          apply in_app_or in Hin as [Hin|Hin]].
    - apply cross_In in Hin as [[x0 d0] [[y0 dy0] [H1 [H2 E]]]]. simpl in H1. destruct H1 as [H1|[]].
      inversion H1; subst x0 d0. simpl in E. inversion E; subst x y d. split.
      + intros _. eauto.
      + intros E'. exfalso. apply Hna. rewrite <- E'. exact (FC _ H2).
    - apply cross_In in Hin as [[x0 d0] [[y0 dy0] [H1 [H2 E]]]]. simpl in H2. destruct H2 as [H2|[]].
      inversion H2; subst y0 dy0. simpl in E. inversion E; subst x y d. split.
      + intros E'. exfalso. apply Hna. rewrite <- E'. exact (FC _ H1).
      + intros _. eauto.
    - destruct (FX _ Hin) as [H1 H2]. simpl in H1, H2. split; intros E; subst; contradiction.
    - destruct (FK _ Hin) as [H1 H2]. simpl in H1, H2. split; intros E; subst; contradiction.
  Qed.
End ViewPairs.

(** * 3. the scan of RerootMidPoint over the tips *)
Lemma mlp_tip_some v op l : mlp_tip v = Some (op, l) -> exists p, op = Some p.
Proof.
  unfold mlp_tip. destruct (tv_tree v) as [n c sl].
  destruct (nth_error sl (tv_slot v)) as [[[e a]|]|]; try discriminate.
  destruct (qeqb (elen e) nilv); [discriminate|].
  destruct (mlp _) as [[p l0]|]; [|discriminate]. intros H. inversion H. eauto.
Qed.

Definition scan_inv (t1 : utree) (done : list (list nat * utree)) (st : mp_state) (cur : Q) : Prop :=
  (0 <= cur)%Q /\
  (forall pn, In pn done -> exists v' p' l', view_from t1 (fst pn) = Some v' /\
                                             mlp_tip v' = Some (Some p', l') /\ (l' <= cur)%Q) /\
  match st with
  | MPNone => True
  | MPBest v p => (0 < cur)%Q /\ exists pn, In pn done /\ view_from t1 (fst pn) = Some v /\
                                           mlp_tip v = Some (Some p, cur)
  end.

Lemma reroot_midpoint_scan t t' :
  2 <= degree (unroot t) ->
  reroot_midpoint t = Ok t' ->
  let t1 := unroot t in
  exists q lf v pA cur ea,
    In (q, lf) (tip_paths t1) /\ view_from t1 q = Some v /\
    mlp_tip v = Some (Some pA, cur) /\ (0 < cur)%Q /\
    (forall pn, In pn (tip_paths t1) ->
                exists v' p' l', view_from t1 (fst pn) = Some v' /\
                                 mlp_tip v' = Some (Some p', l') /\ (l' <= cur)%Q) /\
    edge_at (tv_tree v) (tv_slot v) = Some ea /\ mp_result v pA cur ea = Some t'.
Proof.
  intros D0. rewrite (reroot_midpoint_gen_eq t D0). unfold reroot_midpoint_gen.
  set (t1 := unroot t).
  set (f := fun (st : res (mp_state * Q)) (pn : list nat * utree) => _).
  assert (FE : forall l m, fold_left f l (Err m) = Err m) by (induction l; simpl; auto).
  assert (INV : forall l done st cur,
             scan_inv t1 done st cur ->
             match fold_left f l (Ok (st, cur)) with
             | Ok (s', c') => scan_inv t1 (done ++ l) s' c'
             | Err _ => True
             end).
  { induction l as [|pn l IH]; intros done st cur Hinv; simpl.
    - now rewrite app_nil_r.
    - destruct (view_from t1 (fst pn)) as [v|] eqn:Ev.
      2:{ now rewrite FE. }
      destruct (mlp_tip v) as [[op l0]|] eqn:Em.
      2:{ now rewrite FE. }
      destruct (mlp_tip_some _ _ _ Em) as [p ->].
      destruct Hinv as [H0 [Hall Hbest]].
      replace (done ++ pn :: l) with ((done ++ [pn]) ++ l) by (rewrite <- app_assoc; reflexivity).
      destruct (qltb cur l0) eqn:Eq.
      + apply qltb_true in Eq. apply IH. split; [|split].
        * apply Qlt_le_weak. eapply Qle_lt_trans; eauto.
        * intros pn' Hin. apply in_app_or in Hin as [Hin|[<-|[]]].
          -- destruct (Hall _ Hin) as (v' & p' & l' & H1 & H2 & H3). exists v', p', l'. repeat split; auto.
             eapply Qle_trans; [exact H3 | apply Qlt_le_weak; exact Eq].
          -- exists v, p, l0. repeat split; auto. apply Qle_refl.
        * split; [eapply Qle_lt_trans; eauto|]. exists pn. split; [apply in_or_app; right; now left|auto].
      + apply qltb_false in Eq. apply IH. split; [exact H0|split].
        * intros pn' Hin. apply in_app_or in Hin as [Hin|[<-|[]]]; auto.
          exists v, p, l0. auto.
        * destruct st as [|v0 p0]; auto. destruct Hbest as [Hc [pn0 [Hin0 Hrest]]].
          split; auto. exists pn0. split; auto. apply in_or_app. now left. }
  assert (I0 : scan_inv t1 [] MPNone 0%Q).
  { split; [apply Qle_refl|]. split; [intros pn []|exact I]. }
  specialize (INV (tip_paths t1) [] MPNone 0%Q I0). simpl app in INV.
  destruct (fold_left f (tip_paths t1) (Ok (MPNone, 0%Q))) as [[[|v pA] cur]|m]; try discriminate.
  destruct INV as [H0 [Hall [Hc [[q lf] [Hin [Hv Hm]]]]]]. simpl in Hv.
  destruct (edge_at (tv_tree v) (tv_slot v)) as [ea|] eqn:Ee; [|discriminate].
  intros H. exists q, lf, v, pA, cur, ea. repeat split; auto.
  unfold mp_result. cbv zeta.
  destruct (walk _ _ 0 0%Q) as [i len].
  match type of H with
  | match ?r with Some _ => _ | None => _ end = _ =>
    destruct r as [t4|] eqn:Er; [|discriminate]
  end.
  inversion H; subst t4. first [reflexivity | exact Er].
Qed.

(** * 4. every leaf is a tip with a path *)
Lemma filter_flat_map {A B} (f : B -> bool) (g : A -> list B) l :
  filter f (flat_map g l) = flat_map (fun x => filter f (g x)) l.
Proof. induction l; simpl; auto. now rewrite filter_app, IHl. Qed.

Lemma tips_filter t : tips t = filter is_tip (nodes t).
Proof.
  induction t as [n c sl IH] using utree_ind'.
  change (tips (UNode n c sl)) with
      ((if is_tip (UNode n c sl) then [UNode n c sl] else []) ++
       flat_map (fun s => match s with Some (_, ch) => tips ch | None => [] end) sl).
  change (nodes (UNode n c sl)) with
      (UNode n c sl :: flat_map (fun s => match s with Some (_, ch) => nodes ch | None => [] end) sl).
  simpl filter. rewrite filter_flat_map.
  assert (E : flat_map (fun s : slot => match s with Some (_, ch) => tips ch | None => [] end) sl =
              flat_map (fun x : slot => filter is_tip match x with Some (_, ch) => nodes ch | None => [] end) sl).
  { clear -IH. induction IH as [|s r Hs Hr IHr]; simpl; auto. rewrite IHr. f_equal.
    destruct s as [[e ch]|]; auto. }
  rewrite E. destruct (is_tip (UNode n c sl)); reflexivity.
Qed.

Lemma In_combine_r {A B} (l : list A) (l' : list B) b :
  length l = length l' -> In b l' -> exists a, In (a, b) (combine l l').
Proof.
  revert l'. induction l as [|x l IH]; intros [|y l'] HL Hin; simpl in *; try lia; try tauto.
  destruct Hin as [->|Hin]; [eauto|]. destruct (IH l' ltac:(lia) Hin) as [a Ha]. eauto.
Qed.

Lemma tip_paths_of_leaf t x :
  wf t = true -> 2 <= degree t -> In x (leaves t) ->
  exists q lf, In (q, lf) (tip_paths t) /\ uname lf = x.
Proof.
  intros Hwf Hd Hx. rewrite (leaves_tip_names t Hwf Hd) in Hx. unfold tip_names in Hx.
  apply in_map_iff in Hx as [lf [E Hlf]]. rewrite tips_filter in Hlf. apply filter_In in Hlf as [Hn Ht].
  destruct (In_combine_r (paths t) (nodes t) lf (paths_length t) Hn) as [q Hq].
  exists q, lf. split; auto. unfold tip_paths. apply filter_In. auto.
Qed.

(** * 5. helpers for the walk along the chosen path *)
Lemma qsum_rev l : (qsum (rev l) == qsum l)%Q.
Proof. induction l; simpl; [reflexivity|]. rewrite qsum_app, IHl. simpl. ring. Qed.

Lemma walk_sum half ls : forall i0 acc i len,
  walk half ls i0 acc = (i, len) -> i0 <= i /\ (len == acc + qsum (firstn (i - i0) ls))%Q.
Proof.
  induction ls as [|x r IH]; intros i0 acc i len H; simpl in H.
  - inversion H; subst. split; auto. rewrite firstn_nil. simpl. ring.
  - destruct (qltb acc half).
    + destruct (IH _ _ _ _ H) as [Hi Hs]. split; [lia|].
      replace (i - i0) with (S (i - S i0)) by lia. simpl. rewrite Hs. ring.
    + inversion H; subst. split; auto. rewrite Nat.sub_diag. simpl. ring.
Qed.

Lemma walk_pos half x r i len :
  (0 < half)%Q -> walk half (x :: r) 0 0%Q = (i, len) -> 1 <= i.
Proof.
  intros Hh H. simpl in H.
  assert (E : qltb 0 half = true).
  { unfold qltb. apply negb_true_iff. destruct (Qle_bool half 0) eqn:E; auto.
    apply Qle_bool_iff in E. exfalso. apply (Qlt_irrefl 0). eapply Qlt_le_trans; eauto. }
  rewrite E in H. apply walk_sum in H. lia.
Qed.

Lemma firstn_S_nth {A} (l : list A) d k : k < length l -> firstn (S k) l = firstn k l ++ [nth k l d].
Proof.
  revert k; induction l as [|a l IH]; intros k H; simpl in H; [lia|].
  destruct k; simpl; [reflexivity|]. f_equal. apply IH. lia.
Qed.

Lemma path_edges_masked n c sl j p b :
  node_at (UNode n c (set_nth j None sl)) p = Some b ->
  path_edges (UNode n c (set_nth j None sl)) p = path_edges (UNode n c sl) p.
Proof.
  destruct p as [|k r]; [reflexivity|]. simpl.
  destruct (Nat.eq_dec j k) as [->|Hne].
  - destruct (nth_error sl k) eqn:E.
    + rewrite nth_error_set_nth_same by (apply nth_error_Some; congruence). discriminate.
    + assert (nth_error (set_nth k None sl) k = None)
        by (apply nth_error_None; rewrite length_set_nth; now apply nth_error_None).
      rewrite H. discriminate.
  - now rewrite nth_error_set_nth_other by exact Hne.
Qed.

Lemma masked_first_index n c sl j k r b :
  node_at (UNode n c (set_nth j None sl)) (k :: r) = Some b -> k <> j.
Proof.
  simpl. intros H E. subst k.
  destruct (nth_error sl j) eqn:E.
  - rewrite nth_error_set_nth_same in H by (apply nth_error_Some; congruence). discriminate.
  - assert (nth_error (set_nth j None sl) j = None)
      by (apply nth_error_None; rewrite length_set_nth; now apply nth_error_None).
    rewrite H0 in H. discriminate.
Qed.

(** * 6. the shape of the view from a tip on which MaxLengthPath succeeded *)
Lemma view_shape t1 q lf v p l :
  wf t1 = true -> 2 <= degree t1 ->
  In (q, lf) (tip_paths t1) -> view_from t1 q = Some v -> mlp_tip v = Some (Some p, l) ->
  exists n c sl ea l0,
    tv_tree v = UNode n c sl /\ nth_error sl (tv_slot v) = Some (Some (ea, lf)) /\
    kids lf = [] /\
    mlp (UNode n c (set_nth (tv_slot v) None sl)) = Some (p, l0) /\ l = (l0 + elen ea)%Q /\
    kids (UNode n c (set_nth (tv_slot v) None sl)) <> [] /\
    wf (tv_tree v) = true /\ 2 <= degree (tv_tree v) /\
    Permutation (leaves (tv_tree v)) (leaves t1) /\
    (forall w, dists_equiv (pairdists w (tv_tree v)) (pairdists w t1)).
Proof.
  intros W1 D1 Hin Hv Hm.
  pose proof Hin as Hin'. apply tip_paths_In in Hin' as [Hq Htip].
  destruct (view_from_spec _ _ _ _ W1 D1 Hq Hv) as [W2 [D2 [L2 P2]]].
  destruct (view_tip_slot t1 q lf v Hq Hv) as [ea Ha].
  unfold mlp_tip in Hm.
  destruct (tv_tree v) as [n c sl] eqn:E2. simpl uslots in Ha. rewrite Ha in Hm.
  destruct (qeqb (elen ea) nilv); [discriminate|].
  destruct (mlp (UNode n c (set_nth (tv_slot v) None sl))) as [[p' l0]|] eqn:Emlp; [|discriminate].
  inversion Hm; subst p' l. clear Hm.
  exists n, c, sl, ea, l0.
  assert (U0 : n_up sl = 0).
  { rewrite wf_unfold in W2. apply andb_true_iff in W2 as [W _]. now apply Nat.eqb_eq in W. }
  assert (Wlf : wf_sub lf = true).
  { rewrite wf_unfold in W2. apply andb_true_iff in W2 as [_ W2]. rewrite forallb_forall in W2.
    apply (W2 (ea, lf)). apply kids_of_In. eapply nth_error_In; eauto. }
  assert (Klf : kids lf = []).
  { destruct lf as [nl cl sll]. rewrite wf_sub_unfold in Wlf. apply andb_true_iff in Wlf as [U _].
    apply Nat.eqb_eq in U. unfold is_tip, degree in Htip. simpl in Htip. apply Nat.eqb_eq in Htip.
    unfold kids. simpl. pose proof (length_slots sll) as HL. rewrite U, Htip in HL.
    destruct (kids_of sll); [reflexivity | simpl in HL; lia]. }
  repeat split; auto.
  unfold kids. simpl uslots. destruct (kids_of_set_nth sl _ _ Ha) as [A0 [B0 [F1 F2]]].
  rewrite F2. pose proof (length_slots sl) as HL. rewrite U0, F1, app_length in HL. simpl in HL.
  unfold degree in D2. simpl in D2. destruct A0, B0; simpl in *; try discriminate; lia.
Qed.

Lemma not_stale t1 q lf v pA b :
  wf t1 = true -> 2 <= degree t1 ->
  node_at t1 q = Some lf -> view_from t1 q = Some v ->
  pA <> [] -> node_at (tv_tree v) pA = Some b -> kids b = [] ->
  is_prefix pA (tv_root v) = false.
Proof.
  intros W1 D1 Hq Hv HpA Hb Kb.
  destruct (is_prefix pA (tv_root v)) eqn:Ep; auto. exfalso.
  unfold view_from in Hv. destruct q as [|k0 r0]; [discriminate|]. cbv zeta in Hv.
  assert (Hq' : k0 :: r0 = removelast (k0 :: r0) ++ [last (k0 :: r0) 0])
    by (apply removelast_last_nat; discriminate).
  remember (removelast (k0 :: r0)) as q' eqn:Eq'.
  destruct (reroot_path t1 q') as [t2|] eqn:Er; [|discriminate].
  inversion Hv; subst v. cbn [tv_tree tv_slot tv_root] in *.
  destruct q' as [|k1 r1].
  - simpl in Ep. destruct pA; [congruence|discriminate].
  - rewrite Hq', node_at_app in Hq.
    destruct (node_at t1 (k1 :: r1)) as [A|] eqn:EA; [|discriminate].
    assert (HU : has_ups t1 (k1 :: r1)) by (eapply has_ups_of_wf; eauto).
    pose proof (root_path (k1 :: r1) t1 _ ltac:(discriminate) HU Er) as HR.
    destruct (is_prefix_node _ _ _ _ Ep HR) as [m [Hm' Hc]].
    assert (m = b) by congruence. subst m.
    destruct Hc as [Hc|(k&e&ch&Hc)].
    + rewrite Hc in Hb. rewrite HR in Hb. inversion Hb; subst b.
      unfold kids in Kb. simpl uslots in Kb.
      destruct t1 as [n1 c1 sl1] eqn:E1. simpl uslots in *. simpl hd in *.
      simpl in EA. destruct (nth_error sl1 k1) as [[x|]|] eqn:Ek1; try discriminate.
      destruct (kids_of_set_nth sl1 k1 x Ek1) as [A0 [B0 [F1 F2]]]. rewrite F2 in Kb.
      rewrite wf_unfold in W1. apply andb_true_iff in W1 as [W _]. apply Nat.eqb_eq in W.
      pose proof (length_slots sl1) as HL. rewrite W, F1, app_length in HL. simpl in HL.
      unfold degree in D1. simpl in D1. apply app_eq_nil in Kb as [-> ->]. simpl in HL. lia.
    + assert (In (e, ch) (kids b)) by (apply kids_of_In; eapply nth_error_In; eauto).
      rewrite Kb in H. destruct H.
Qed.
