(** C07, collapse: which branches remain.  Every branch of the result is a branch of the input
    with the same data and the same leaves below; the branches that disappear were selected and
    are not tip branches; when the decision does not depend on the moving state (removeRoot, or
    no node with two neighbours) the remaining branches are exactly the others. *)
From Coq Require Import String ZArith QArith Bool Arith Lia List Permutation Setoid Morphisms.
From GT Require Import Base.UTree Spec.Obs Model.Reroot Spec.Unrooted Proofs.RerootBase Proofs.PruneBase
     Model.Prune Model.Collapse Proofs.PruneStep Proofs.PruneSub Proofs.CollapseBase.
Import ListNotations.
Local Close Scope Q_scope.
Local Arguments n_up : simpl never.
Local Arguments leaves : simpl never.
Local Arguments wf_sub : simpl never.

(** a branch seen as (data, leaves below) *)
Definition view (p : einfo * utree) : einfo * list string := (fst p, leaves (snd p)).
Definition vrel (x y : einfo * list string) : Prop := fst x = fst y /\ Permutation (snd x) (snd y).
Global Instance vrel_Equivalence : Equivalence vrel.
Proof.
  split.
  - intros x; split; reflexivity.
  - intros x y [H1 H2]; split; now symmetry.
  - intros x y z [H1 H2] [H3 H4]; split; etransitivity; eauto.
Qed.
Definition veq (l l' : list (einfo * list string)) : Prop := PermR vrel l l'.
Global Instance veq_Equivalence : Equivalence veq.
Proof. unfold veq. apply PermR_Equivalence. exact vrel_Equivalence. Qed.
Lemma veq_perm l l' : Permutation l l' -> veq l l'.
Proof. apply PermR_of_perm; exact vrel_Equivalence. Qed.
Lemma veq_app a a' b b' : veq a a' -> veq b b' -> veq (a ++ b) (a' ++ b').
Proof. apply PermR_app; exact vrel_Equivalence. Qed.
Lemma veq_cons x y l l' : vrel x y -> veq l l' -> veq (x :: l) (y :: l').
Proof. intros; now apply PR_skip. Qed.

Definition korig (x : einfo * einfo * utree) : einfo * utree := (fst (fst x), snd x).
Definition kview (x : einfo * einfo * utree) : einfo * list string := (snd (fst x), leaves (snd x)).

Section Splits.
  Variable rr rt : bool.
  Variable sel : nat -> einfo -> utree -> bool.
  Notation proc := (proc rr rt sel).
  Notation proc_go := (proc_go rr rt sel).
  Notation ghost := (ghost rr rt sel).
  Notation ghost_go := (ghost_go rr rt sel).
  Notation decide := (decide rr sel).
  Notation adj := (adj rt sel).

  Ltac kidsplit :=
    repeat (rewrite ?kids_of_app, ?kids_of_cons_some, ?kids_of_cons_none, ?forallb_app, ?andb_true_iff,
            ?n_up_app, ?n_up_cons, ?n_up_nil, ?app_length, ?kleaves_app, ?kleaves_cons in *; simpl forallb in *; simpl snd in *;
            simpl length in *).

  (** a kept branch keeps its data, except the length of a selected tip branch under removeTips *)
  Definition kept_ok (x : einfo * einfo * utree) : Prop :=
    snd (fst x) = fst (fst x) \/
    (snd (fst x) = set_len0 (fst (fst x)) /\ is_tip (snd x) = true /\ rt = true /\
     exists k, sel k (fst (fst x)) (snd x) = true).
  Definition coll_ok (p : einfo * utree) : Prop :=
    (exists k, sel k (fst p) (snd p) = true) /\ is_tip (snd p) = false.

  Definition split_inv (sl b a : list slot) (K : list (einfo * einfo * utree)) (C : list (einfo * utree)) : Prop :=
    veq (map view (brs (b ++ a))) (map kview K) /\
    Permutation (map korig K ++ C) (brs sl) /\
    Forall kept_ok K /\ Forall coll_ok C.

  Lemma adj_ok k e c : kept_ok (e, adj k e c, c).
  Proof.
    unfold kept_ok, CollapseBase.adj. simpl.
    destruct (sel k e c) eqn:E1, (is_tip c) eqn:E2, rt eqn:E3; simpl; auto.
    right. repeat split; auto. eauto.
  Qed.

  Lemma ghost_go_some top e c r k m :
    ghost_go top (Some (e, c) :: r) k m =
    let cnt_r := if top then length r else length (kids_of r) in
    let k' := k + 1 + span c in
    if decide k e c (m + 1 + cnt_r) then
      let '(bc, ac) := proc c false (S k) (m + cnt_r) in
      let '(kc, cc) := ghost c false (S k) (m + cnt_r) in
      let '(kr, cr) := ghost_go top r k' (m + length bc + length ac) in
      (kc ++ kr, (e, c) :: cc ++ cr)
    else
      let '(k1, c1) := ghost c true (S k) 0 in
      let '(kr, cr) := ghost_go top r k' (S m) in
      ((e, adj k e c, c) :: k1 ++ kr, c1 ++ cr).
  Proof. reflexivity. Qed.
  Lemma ghost_go_none top r k m :
    ghost_go top (None :: r) k m = if top then ghost_go top r k (S m) else ghost_go top r k m.
  Proof. reflexivity. Qed.

  Lemma proc_go_split top sl :
    Forall (fun s : slot => match s with
                            | Some (_, c) => forall top k m b a K C, wf_sub c = true -> proc c top k m = (b, a) ->
                                                                     ghost c top k m = (K, C) -> split_inv (uslots c) b a K C
                            | None => True end) sl ->
    forallb (fun p => wf_sub (snd p)) (kids_of sl) = true ->
    forall k m b a K C, proc_go top sl k m = (b, a) -> ghost_go top sl k m = (K, C) -> split_inv sl b a K C.
  Proof.
    induction sl as [|[[e c]|] r IHr]; intros IH Hw k m b a K C Hp Hg.
    - simpl in Hp, Hg. injection Hp as Hb Ha. injection Hg as HK HC. subst.
      unfold split_inv. simpl. repeat split; auto. reflexivity.
    - inversion IH as [|? ? Hc Hr]; subst. kidsplit. destruct Hw as [Hwc Hwr]. specialize (IHr Hr Hwr).
      rewrite proc_go_some in Hp. rewrite ghost_go_some in Hg. cbv zeta in Hp, Hg.
      destruct (decide k e c (m + 1 + (if top then length r else length (kids_of r)))) eqn:Ed.
      + destruct (proc c false (S k) (m + (if top then length r else length (kids_of r)))) as [bc ac] eqn:Ec.
        destruct (ghost c false (S k) (m + (if top then length r else length (kids_of r)))) as [kc cc] eqn:Egc.
        destruct (proc_go top r (k + 1 + span c) (m + length bc + length ac)) as [b' a'] eqn:Er.
        destruct (ghost_go top r (k + 1 + span c) (m + length bc + length ac)) as [kr cr] eqn:Egr.
        injection Hp as Hb Ha. injection Hg as HK HC. subst b a K C.
        destruct (Hc false _ _ _ _ _ _ Hwc Ec Egc) as [H1 [H2 [H3 H4]]].
        destruct (IHr _ _ _ _ _ _ Er Egr) as [G1 [G2 [G3 G4]]].
        unfold split_inv. repeat split.
        * rewrite !brs_app, !map_app in *.
          transitivity ((map view (brs bc) ++ map view (brs ac)) ++ (map view (brs b') ++ map view (brs a'))).
          { apply veq_perm. perm. }
          apply veq_app; auto.
        * rewrite map_app, brs_cons_some.
          destruct c as [nc cmc slc]. simpl uslots in H2. rewrite branches_unfold.
          rewrite <- H2, <- G2. perm.
        * apply Forall_app; auto.
        * constructor; [|apply Forall_app; auto].
          split; simpl; [exists k; eapply decide_sel; eauto | eapply decide_nontip; eauto].
      + destruct (proc c true (S k) 0) as [b1 a1] eqn:Ec.
        destruct (ghost c true (S k) 0) as [k1 c1] eqn:Egc.
        destruct (proc_go top r (k + 1 + span c) (S m)) as [b' a'] eqn:Er.
        destruct (ghost_go top r (k + 1 + span c) (S m)) as [kr cr] eqn:Egr.
        injection Hp as Hb Ha. injection Hg as HK HC. subst b a K C.
        destruct (Hc true _ _ _ _ _ _ Hwc Ec Egc) as [H1 [H2 [H3 H4]]].
        destruct (IHr _ _ _ _ _ _ Er Egr) as [G1 [G2 [G3 G4]]].
        destruct (proc_basic rr rt sel c true _ _ _ _ Hwc Ec) as [B1 [B2 [B3 B4]]].
        unfold split_inv. repeat split.
        * simpl app. rewrite brs_cons_some, branches_unfold. simpl map.
          rewrite !map_app. apply veq_cons.
          { split; simpl; auto. apply rebuilt_leaves; auto. }
          rewrite brs_app, map_app in G1.
          transitivity (map view (brs (b1 ++ a1)) ++ map view (brs b') ++ map view (brs a')).
          { rewrite !brs_app, !map_app. apply veq_perm. perm. }
          apply veq_app; auto.
        * simpl map. rewrite map_app, brs_cons_some.
          destruct c as [nc cmc slc]. simpl uslots in H2. rewrite branches_unfold.
          unfold korig at 1. simpl. constructor.
          rewrite <- H2, <- G2. perm.
        * constructor; [apply adj_ok | apply Forall_app; auto].
        * apply Forall_app; auto.
    - inversion IH as [|? ? _ Hr]; subst. kidsplit. specialize (IHr Hr Hw).
      rewrite proc_go_none in Hp. rewrite ghost_go_none in Hg. destruct top.
      + destruct (proc_go true r k (S m)) as [b' a'] eqn:Er. injection Hp as Hb Ha. subst b a.
        destruct (IHr _ _ _ _ _ _ Er Hg) as [G1 [G2 [G3 G4]]].
        unfold split_inv. simpl app. rewrite !brs_cons_none. repeat split; auto.
      + destruct (IHr _ _ _ _ _ _ Hp Hg) as [G1 [G2 [G3 G4]]].
        unfold split_inv. rewrite !brs_cons_none. repeat split; auto.
  Qed.

  Lemma proc_split : forall t top k m b a K C,
      wf_sub t = true -> proc t top k m = (b, a) -> ghost t top k m = (K, C) -> split_inv (uslots t) b a K C.
  Proof.
    induction t as [n cm sl IH] using utree_ind'. intros top k m b a K C Hw Hp Hg.
    rewrite proc_eq in Hp. rewrite ghost_eq in Hg. simpl uslots.
    exact (proc_go_split top sl IH (wf_sub_kids (UNode n cm sl) Hw) k m b a K C Hp Hg).
  Qed.

  Lemma proc_split_root n cm sl b a K C :
    wf (UNode n cm sl) = true -> proc (UNode n cm sl) true 0 0 = (b, a) -> ghost (UNode n cm sl) true 0 0 = (K, C) ->
    split_inv sl b a K C.
  Proof.
    intros Hw Hp Hg. rewrite proc_eq in Hp. rewrite ghost_eq in Hg.
    rewrite wf_unfold in Hw. apply andb_true_iff in Hw. destruct Hw as [_ Hw].
    refine (proc_go_split true sl _ Hw 0 0 b a K C Hp Hg).
    apply Forall_forall. intros [[e c]|] _; auto. intros. eapply proc_split; eauto.
  Qed.

  (** ** consequences for [remove_edges] *)
  Definition same_or_len0 (e' e : einfo) : Prop := e' = e \/ (rt = true /\ e' = set_len0 e).

  (** every branch of the result is a branch of the input: same leaves below, same data
      (length set to 0 only for a selected tip branch under removeTips) *)
  Theorem remove_edges_branches_sound t :
    wf t = true ->
    forall e' c', In (e', c') (branches (remove_edges rr rt sel t)) ->
    exists e c, In (e, c) (branches t) /\ Permutation (leaves c') (leaves c) /\
                (e' = e \/ (rt = true /\ is_tip c = true /\ (exists k, sel k e c = true) /\ e' = set_len0 e)).
  Proof.
    destruct t as [n cm sl]. intros Hw e' c' Hin. unfold remove_edges in Hin.
    destruct (proc (UNode n cm sl) true 0 0) as [b a] eqn:Ep.
    destruct (ghost (UNode n cm sl) true 0 0) as [K C] eqn:Eg.
    destruct (proc_split_root _ _ _ _ _ _ _ Hw Ep Eg) as [H1 [H2 [H3 H4]]].
    simpl uname in Hin. simpl ucom in Hin. rewrite branches_unfold in Hin.
    assert (Hv : In (view (e', c')) (map view (brs (b ++ a)))) by (apply in_map; auto).
    destruct (PermR_In _ _ vrel_Equivalence _ _ H1 _ Hv) as [y [Hy [Y1 Y2]]].
    apply in_map_iff in Hy. destruct Hy as [[[e ea] c] [<- Hk]]. simpl in Y1, Y2.
    exists e, c. repeat split; auto.
    - rewrite branches_unfold, <- H2. apply in_or_app. left.
      change (e, c) with (korig (e, ea, c)). now apply in_map.
    - rewrite Forall_forall in H3. destruct (H3 _ Hk) as [Hs|[Hs [Ht [Hr Hx]]]]; simpl in Hs.
      + left. congruence.
      + right. simpl in Ht, Hx. repeat split; auto. congruence.
  Qed.

  (** a tip branch, and a branch that is not selected, is still there *)
  Theorem remove_edges_branches_complete t :
    wf t = true ->
    forall e c, In (e, c) (branches t) -> (is_tip c = true \/ forall k, sel k e c = false) ->
    exists e' c', In (e', c') (branches (remove_edges rr rt sel t)) /\ Permutation (leaves c') (leaves c) /\
                  (e' = e \/ (rt = true /\ is_tip c = true /\ e' = set_len0 e)).
  Proof.
    destruct t as [n cm sl]. intros Hw e c Hin Hkeep. unfold remove_edges.
    destruct (proc (UNode n cm sl) true 0 0) as [b a] eqn:Ep.
    destruct (ghost (UNode n cm sl) true 0 0) as [K C] eqn:Eg.
    destruct (proc_split_root _ _ _ _ _ _ _ Hw Ep Eg) as [H1 [H2 [H3 H4]]].
    simpl uname. simpl ucom. rewrite !branches_unfold in *.
    assert (HinK : In (e, c) (map korig K)).
    { symmetry in H2. apply (Permutation_in _ H2) in Hin. apply in_app_or in Hin. destruct Hin as [Hin|Hin]; auto.
      rewrite Forall_forall in H4. destruct (H4 _ Hin) as [[k Hk] Ht]. simpl in *.
      destruct Hkeep as [Hx|Hx]; [congruence | rewrite Hx in Hk; discriminate]. }
    apply in_map_iff in HinK. destruct HinK as [[[e0 ea] c0] [E0 Hk]]. unfold korig in E0. simpl in E0.
    injection E0 as -> ->.
    assert (Hv : In (kview (e, ea, c)) (map kview K)) by (apply in_map; auto).
    symmetry in H1.
    destruct (PermR_In _ _ vrel_Equivalence _ _ H1 _ Hv) as [y [Hy [Y1 Y2]]].
    apply in_map_iff in Hy. destruct Hy as [[e' c'] [<- Hy]]. simpl in Y1, Y2.
    exists e', c'. repeat split; auto; [now symmetry|].
    rewrite Forall_forall in H3. destruct (H3 _ Hk) as [Hs|[Hs [Ht [Hr Hx]]]]; simpl in Hs.
    - left. congruence.
    - right. simpl in Ht. repeat split; auto. congruence.
  Qed.
End Splits.
