(** Heap model, Reroot, part 1: re-rooting on labelled trees.  [lrotate_to]/[lreroot_path]
    mirror [rotate_to]/[reroot_path] (Model/Reroot.v) and commute with [erase]; pre-order
    indexes ([paths]) correspond to node ids ([lids]); the orientation-free shape of a heap is
    the same seen from any root. *)
From Coq Require Import String ZArith QArith Bool Arith Lia Permutation List.
From GT Require Import Base.UTree Model.Reroot Model.Heap Proofs.Enum Proofs.HeapBase Proofs.HeapRep Proofs.HeapGood Proofs.HeapGoodRep.
Import ListNotations.
Local Close Scope Q_scope.

Fixpoint lreplace_up (sl : list lslot) (x : lslot) : list lslot :=
  match sl with
  | [] => []
  | None :: r => x :: r
  | s :: r => s :: lreplace_up r x
  end.

Definition lrotate_to (lt : ltree) (k : nat) : option ltree :=
  match lt with
  | LNode i n c sl =>
    match nth_error sl k with
    | Some (Some (e, ei, LNode i' n' c' sl')) =>
      Some (LNode i' n' c' (lreplace_up sl' (Some (e, ei, LNode i n c (set_nth k None sl)))))
    | _ => None
    end
  end.

Fixpoint lreroot_path (lt : ltree) (p : list nat) : option ltree :=
  match p with
  | [] => Some lt
  | k :: r => match lrotate_to lt k with Some lt' => lreroot_path lt' r | None => None end
  end.

Fixpoint lnode_at (lt : ltree) (p : list nat) : option ltree :=
  match p with
  | [] => Some lt
  | k :: r => match nth_error (lslots lt) k with
              | Some (Some (_, _, c)) => lnode_at c r
              | _ => None
              end
  end.

(** * erase commutes *)
Lemma erase_replace_up sl x : map erase_slot (lreplace_up sl x) = replace_up (map erase_slot sl) (erase_slot x).
Proof.
  induction sl as [|s sl IH]; [reflexivity|]. destruct s as [[[e ei] ch]|]; cbn; [|reflexivity]. f_equal. exact IH.
Qed.

Lemma set_nth_cons {A} k (x a : A) l : set_nth (S k) x (a :: l) = a :: set_nth k x l.
Proof. reflexivity. Qed.
Lemma set_nth_0 {A} (x a : A) l : set_nth 0 x (a :: l) = x :: l.
Proof. reflexivity. Qed.
Lemma set_nth_nil {A} k (x : A) : set_nth k x [] = [].
Proof. unfold set_nth. destruct k; reflexivity. Qed.

Lemma map_set_nth {A B} (f : A -> B) k x l : map f (set_nth k x l) = set_nth k (f x) (map f l).
Proof.
  revert k. induction l as [|a l IH]; intros k; [cbn [map]; rewrite !set_nth_nil; reflexivity|].
  destruct k as [|k]; [reflexivity|]. cbn [map]. rewrite !set_nth_cons. cbn [map]. f_equal. apply IH.
Qed.

Lemma erase_rotate lt k : rotate_to (erase lt) k = option_map erase (lrotate_to lt k).
Proof.
  destruct lt as [i n c sl]. rewrite erase_eq. cbn [rotate_to lrotate_to]. rewrite nth_error_map.
  destruct (nth_error sl k) as [[[[e ei] [i' n' c' sl']]|]|]; cbn [option_map erase_slot]; try reflexivity.
  rewrite erase_eq. cbn [option_map]. rewrite erase_eq, erase_replace_up. cbn [erase_slot]. rewrite erase_eq.
  rewrite (map_set_nth erase_slot k None sl). reflexivity.
Qed.

Lemma erase_reroot_path : forall p lt, reroot_path (erase lt) p = option_map erase (lreroot_path lt p).
Proof.
  induction p as [|k r IH]; intros lt; [reflexivity|]. cbn [reroot_path lreroot_path].
  rewrite erase_rotate. destruct (lrotate_to lt k) as [lt'|]; cbn [option_map]; [apply IH|reflexivity].
Qed.

Lemma erase_node_at : forall p lt, node_at (erase lt) p = option_map erase (lnode_at lt p).
Proof.
  induction p as [|k r IH]; intros lt; [reflexivity|]. cbn [node_at lnode_at].
  destruct lt as [i n c sl]. rewrite erase_eq. cbn [uslots lslots]. rewrite nth_error_map.
  destruct (nth_error sl k) as [[[[e ei] ch]|]|]; cbn [option_map erase_slot]; try reflexivity. apply IH.
Qed.

(** * pre-order indexes and node ids *)
Definition paths_slots : nat -> list slot -> list (list nat) :=
  fix go (k : nat) (l : list slot) : list (list nat) :=
    match l with
    | [] => []
    | None :: r => go (S k) r
    | Some (_, c) :: r => map (cons k) (paths c) ++ go (S k) r
    end.

Lemma paths_eq n c sl : paths (UNode n c sl) = [] :: paths_slots 0 sl.
Proof. reflexivity. Qed.

Lemma paths_lids : forall lt,
  map (fun p => option_map lid (lnode_at lt p)) (paths (erase lt)) = map Some (lids lt).
Proof.
  induction lt as [i n c sl IH] using ltree_ind'. rewrite erase_eq, paths_eq, lids_eq. cbn [map lnode_at option_map lid]. f_equal.
  assert (H : forall l pre, sl = pre ++ l ->
     map (fun p => option_map lid (lnode_at (LNode i n c sl) p)) (paths_slots (length pre) (map erase_slot l)) =
     map Some (flat_map (fun s : lslot => match s with Some (_, _, ch) => lids ch | None => [] end) l)).
  { induction l as [|s l IHl]; intros pre E; [reflexivity|].
    assert (Es : nth_error sl (length pre) = Some s).
    { rewrite E, nth_error_app2, Nat.sub_diag; [reflexivity|lia]. }
    assert (El : sl = (pre ++ [s]) ++ l) by (rewrite <- app_assoc; exact E).
    specialize (IHl (pre ++ [s]) El). rewrite app_length in IHl. cbn [length] in IHl. rewrite Nat.add_1_r in IHl.
    destruct s as [[[e ei] ch]|]; cbn [map erase_slot paths_slots flat_map].
    - rewrite !map_app, IHl. f_equal. rewrite map_map.
      assert (Hin : In (Some (e, ei, ch)) sl) by (rewrite E; apply in_or_app; right; left; reflexivity).
      rewrite Forall_forall in IH. specialize (IH _ Hin). cbn in IH. rewrite <- IH.
      apply map_ext. intros p. cbn [lnode_at lslots]. rewrite Es. reflexivity.
    - exact IHl. }
  exact (H sl [] eq_refl).
Qed.

Lemma paths_nth lt j x : nth_error (lids lt) j = Some x ->
  exists p sub, nth_error (paths (erase lt)) j = Some p /\ lnode_at lt p = Some sub /\ lid sub = x.
Proof.
  intros H. pose proof (paths_lids lt) as E.
  assert (nth_error (map Some (lids lt)) j = Some (Some x)) as H' by (rewrite nth_error_map, H; reflexivity).
  rewrite <- E, nth_error_map in H'. destruct (nth_error (paths (erase lt)) j) as [p|]; [|discriminate].
  cbn in H'. injection H' as H'. destruct (lnode_at lt p) as [sub|] eqn:En; [|discriminate]. cbn in H'. injection H' as H'.
  exists p, sub. repeat split; assumption.
Qed.

Lemma paths_length lt : length (paths (erase lt)) = length (lids lt).
Proof. rewrite <- (map_length (fun p => option_map lid (lnode_at lt p))), paths_lids, map_length. reflexivity. Qed.

(** a node reached by a path is a sub-node *)
Lemma lnode_at_lsubs : forall p lt prev sub, lnode_at lt p = Some sub -> exists q, In (q, sub) (lsubs prev lt).
Proof.
  induction p as [|k r IH]; intros lt prev sub H.
  - injection H as <-. exists prev. apply lsubs_self.
  - cbn [lnode_at] in H. destruct lt as [i n c sl]. cbn [lslots] in H.
    destruct (nth_error sl k) as [[[[e ei] ch]|]|] eqn:E; try discriminate.
    destruct (IH ch (Some (i, e)) sub H) as [q Hq]. exists q.
    eapply lsubs_trans; [|exact Hq]. eapply lsubs_child. eapply nth_error_In. exact E.
Qed.

(** * rotating *)
Lemma lreplace_up_nth sl x k e ei ch : nth_error sl k = Some (Some (e, ei, ch)) ->
  nth_error (lreplace_up sl x) k = Some (Some (e, ei, ch)).
Proof.
  revert k. induction sl as [|s sl IH]; intros k H; [destruct k; discriminate|].
  destruct s as [[[e' ei'] ch']|]; destruct k as [|k]; cbn in *; try assumption; try discriminate.
  apply IH. exact H.
Qed.

Lemma lreroot_path_ok : forall p lt x, option_map lid (lnode_at lt p) = Some x ->
  exists lt', lreroot_path lt p = Some lt' /\ lid lt' = x.
Proof.
  induction p as [|k r IH]; intros lt x H.
  - cbn in H. injection H as <-. exists lt. split; reflexivity.
  - cbn [lnode_at] in H. destruct lt as [i n c sl]. cbn [lslots] in H. cbn [lreroot_path lrotate_to].
    destruct (nth_error sl k) as [[[[e ei] [i' n' c' sl']]|]|] eqn:E; try discriminate.
    apply IH. destruct r as [|k' r']; [exact H|]. cbn [lnode_at lslots] in *.
    destruct (nth_error sl' k') as [[[[e2 ei2] ch2]|]|] eqn:E2; try discriminate.
    rewrite (lreplace_up_nth _ _ _ _ _ _ E2). exact H.
Qed.

Definition sids (sl : list lslot) : list nat :=
  flat_map (fun s : lslot => match s with Some (_, _, ch) => lids ch | None => [] end) sl.
Definition seids (sl : list lslot) : list nat :=
  flat_map (fun s : lslot => match s with Some (e, _, ch) => e :: leids ch | None => [] end) sl.

Lemma flat_set_nth_perm {B} (f : lslot -> list B) sl k s : f None = [] -> nth_error sl k = Some s ->
  Permutation (flat_map f sl) (f s ++ flat_map f (set_nth k None sl)).
Proof.
  intros Hf. revert k. induction sl as [|a sl IH]; intros k H; [destruct k; discriminate|].
  destruct k as [|k]; cbn in H.
  - injection H as ->. rewrite set_nth_0. cbn [flat_map]. rewrite Hf. reflexivity.
  - rewrite set_nth_cons. cbn [flat_map]. rewrite (IH k H). rewrite !app_assoc. apply Permutation_app_tail. apply Permutation_app_comm.
Qed.

Lemma flat_replace_up_perm {B} (f : lslot -> list B) sl x : f None = [] -> 1 <= lnup sl ->
  Permutation (f x ++ flat_map f sl) (flat_map f (lreplace_up sl x)).
Proof.
  intros Hf. unfold lnup. induction sl as [|a sl IH]; cbn; [lia|]. destruct a as [[[e ei] ch]|]; cbn [flat_map].
  - intros H. rewrite <- (IH H). rewrite !app_assoc. apply Permutation_app_tail. apply Permutation_app_comm.
  - intros _. rewrite Hf. reflexivity.
Qed.

Lemma lnup_set_nth sl k e ei ch : nth_error sl k = Some (Some (e, ei, ch)) -> lnup (set_nth k None sl) = S (lnup sl).
Proof.
  unfold lnup. revert k. induction sl as [|a sl IH]; intros k H; [destruct k; discriminate|].
  destruct k as [|k]; cbn in H.
  - injection H as ->. reflexivity.
  - rewrite set_nth_cons. cbn [filter]. destruct a; cbn [length]; rewrite (IH k H); reflexivity.
Qed.

Lemma lnup_replace_up sl e ei ch : 1 <= lnup sl -> S (lnup (lreplace_up sl (Some (e, ei, ch)))) = lnup sl.
Proof.
  unfold lnup. induction sl as [|a sl IH]; cbn; [lia|]. destruct a as [[[e' ei'] ch']|]; cbn; [exact IH|reflexivity].
Qed.

Lemma in_set_nth {A} k (x : A) l y : In y (set_nth k x l) -> y = x \/ In y l.
Proof.
  revert k. induction l as [|a l IH]; intros k H; [rewrite set_nth_nil in H; destruct H|].
  destruct k as [|k]; [rewrite set_nth_0 in H|rewrite set_nth_cons in H]; destruct H as [<-|H].
  - left. reflexivity.
  - right. right. exact H.
  - right. left. reflexivity.
  - destruct (IH k H) as [->|Hi]; [left; reflexivity|right; right; exact Hi].
Qed.

Lemma in_replace_up sl x y : In y (lreplace_up sl x) -> y = x \/ In y sl.
Proof.
  induction sl as [|a sl IH]; cbn; [intros []|]. destruct a as [[[e ei] ch]|]; cbn.
  - intros [<-|H]; [right; left; reflexivity|]. destruct (IH H) as [->|Hi]; [left; reflexivity|right; right; exact Hi].
  - intros [<-|H]; [left; reflexivity|right; right; exact H].
Qed.

Lemma Forall2_set_nth {A B} (P Q : A -> B -> Prop) l sl k a x :
  Forall2 P l sl -> nth_error l k = Some a -> Q a x ->
  (forall j a' b', j <> k -> nth_error l j = Some a' -> nth_error sl j = Some b' -> P a' b' -> Q a' b') ->
  Forall2 Q l (set_nth k x sl).
Proof.
  intros H. revert k. induction H as [|a0 b0 l sl H0 H IH]; intros k Hk Hq Hj; [destruct k; discriminate|].
  destruct k as [|k]; cbn in Hk.
  - injection Hk as ->. rewrite set_nth_0. constructor; [exact Hq|].
    clear - H Hj. assert (forall j a' b', nth_error l j = Some a' -> nth_error sl j = Some b' -> P a' b' -> Q a' b') as Hj'.
    { intros j a' b' X Y Z. apply (Hj (S j)); [lia|exact X|exact Y|exact Z]. }
    clear Hj. induction H as [|a1 b1 l sl H1 _ IH]; constructor.
    + apply (Hj' 0); [reflexivity|reflexivity|exact H1].
    + apply IH. intros j a' b' X Y Z. apply (Hj' (S j)); assumption.
  - rewrite set_nth_cons. constructor.
    + apply (Hj 0); [lia|reflexivity|reflexivity|exact H0].
    + apply (IH k Hk Hq). intros j a' b' Hne X Y Z. apply (Hj (S j)); [lia|exact X|exact Y|exact Z].
Qed.

Lemma Forall2_replace_up (P Q : nat * nat -> lslot -> Prop) l sl x :
  Forall2 P l sl -> lnup sl <= 1 ->
  (forall ce, P ce None -> Q ce x) ->
  (forall ce e ei ch, In (Some (e, ei, ch)) sl -> P ce (Some (e, ei, ch)) -> Q ce (Some (e, ei, ch))) ->
  Forall2 Q l (lreplace_up sl x).
Proof.
  intros H. induction H as [|ce s l sl H0 Hr IH]; intros Hn HN HS; [constructor|].
  destruct s as [[[e ei] ch]|]; cbn [lreplace_up].
  - constructor; [apply HS; [left; reflexivity|exact H0]|]. apply IH.
    + unfold lnup in *. cbn in Hn. exact Hn.
    + exact HN.
    + intros ce' e' ei' ch' Hin. apply HS. right. exact Hin.
  - constructor; [apply HN; exact H0|].
    assert (lnup sl = 0) as Hz by (unfold lnup in *; cbn in Hn; lia).
    eapply Forall2_impl_r; [exact Hr|]. intros ce' s Hin Hp. destruct s as [[[e' ei'] ch']|].
    + apply HS; [right; exact Hin|exact Hp].
    + exfalso. exact (lnup_zero_notin _ Hz Hin).
Qed.

Lemma edge_ok_false_sym h e i c ei : edge_ok false h e i c ei -> edge_ok false h e c i ei.
Proof. intros [ed (A & B & C)]. exists ed. repeat split; try assumption. cbn in *. tauto. Qed.

(** one rotation: same heap, the child in slot k is the new top *)
Lemma rotate_shape h lt k lt1 :
  shape false h None lt -> lwf lt -> NoDup (lids lt) -> lrotate_to lt k = Some lt1 ->
  shape false h None lt1 /\ lwf lt1 /\ Permutation (lids lt) (lids lt1) /\ Permutation (leids lt) (leids lt1).
Proof.
  intros Sh Hwf Hnd Hrot. destruct lt as [i n c sl]. cbn [lrotate_to] in Hrot.
  destruct (nth_error sl k) as [[[[e ei] [i' n' c' sl']]|]|] eqn:Ek; try discriminate. injection Hrot as <-.
  apply lwf_iff in Hwf. destruct Hwf as [W0 Wk].
  pose proof (Wk _ _ _ (nth_error_In _ _ Ek)) as Wc. apply lwf_sub_iff in Wc. destruct Wc as [W1 Wk'].
  apply shape_unfold in Sh. destruct Sh as [hn (A1 & A2 & A3 & A4 & A5)].
  destruct (Forall2_nth_r _ _ _ _ _ A5 Ek) as [[c0 e0] [Ck Ok]]. cbn [slot_ok fst snd lid] in Ok.
  destruct Ok as (_ & E1 & E2 & B4 & B5). subst e0 c0.
  apply shape_unfold in B5. destruct B5 as [hn' (C1 & C2 & C3 & C4 & C5)].
  set (down := LNode i n c (set_nth k None sl)).
  assert (Sdown : shape false h (Some (i', e)) down).
  { apply shape_unfold. exists hn. repeat split; try assumption.
    eapply (Forall2_set_nth _ _ _ _ _ _ _ A5 Ck); [reflexivity|].
    intros j [cj ej] s Hne Hj Hs Hok. destruct s as [[[e2 ei2] ch2]|]; cbn [slot_ok fst snd] in *; [|discriminate].
    destruct Hok as (D1 & D2 & D3 & D4 & D5). repeat split; try assumption.
    intros [= -> ->]. apply Hne. rewrite lids_eq in Hnd. inversion Hnd as [|? ? _ Hnd']; subst.
    eapply (NoDup_flat_map_nth _ _ _ _ _ _ (lid ch2) Hnd' Hs Ek); cbn; [apply lid_in_lids|left; reflexivity]. }
  assert (Wdown : lwf_sub down).
  { apply lwf_sub_iff. split; [rewrite (lnup_set_nth _ _ _ _ _ Ek), W0; reflexivity|].
    intros e2 ei2 ch2 Hin. apply in_set_nth in Hin. destruct Hin as [E|Hin]; [discriminate|]. exact (Wk _ _ _ Hin). }
  split; [|split; [|split]].
  - apply shape_unfold. exists hn'. repeat split; try assumption.
    eapply Forall2_replace_up; [exact C5|lia| |].
    + intros ce Hce. cbn [slot_ok] in Hce. injection Hce as <-. cbn [slot_ok fst snd lid].
      repeat split; [discriminate|apply edge_ok_false_sym; exact B4|exact Sdown].
    + intros ce e2 ei2 ch2 _ Hok. cbn [slot_ok] in *. destruct Hok as (_ & D2 & D3 & D4 & D5).
      repeat split; try assumption. discriminate.
  - apply lwf_iff. split.
    + pose proof (lnup_replace_up sl' e ei down). lia.
    + intros e2 ei2 ch2 Hin. apply in_replace_up in Hin. destruct Hin as [[= -> -> ->]|Hin]; [exact Wdown|exact (Wk' _ _ _ Hin)].
  - rewrite !lids_eq.
    rewrite (flat_set_nth_perm _ sl k _ eq_refl Ek). rewrite lids_eq.
    rewrite <- (flat_replace_up_perm _ sl' (Some (e, ei, down)) eq_refl); [|lia].
    unfold down. rewrite lids_eq. cbn [app].
    rewrite perm_swap. apply perm_skip. apply perm_skip.
    apply Permutation_app_comm.
  - rewrite !leids_eq.
    rewrite (flat_set_nth_perm _ sl k _ eq_refl Ek). rewrite leids_eq.
    rewrite <- (flat_replace_up_perm _ sl' (Some (e, ei, down)) eq_refl); [|lia].
    unfold down. rewrite leids_eq. cbn [app]. apply perm_skip. apply Permutation_app_comm.
Qed.

Lemma reroot_path_shape h : forall p lt lt',
  shape false h None lt -> lwf lt -> NoDup (lids lt) -> lreroot_path lt p = Some lt' ->
  shape false h None lt' /\ lwf lt' /\ Permutation (lids lt) (lids lt') /\ Permutation (leids lt) (leids lt').
Proof.
  induction p as [|k r IH]; intros lt lt' Sh Hwf Hnd H.
  - injection H as <-. repeat split; try assumption; reflexivity.
  - cbn [lreroot_path] in H. destruct (lrotate_to lt k) as [lt1|] eqn:E; [|discriminate].
    destruct (rotate_shape h lt k lt1 Sh Hwf Hnd E) as (S1 & W1 & P1 & Q1).
    destruct (IH lt1 lt' S1 W1 (Permutation_NoDup P1 Hnd) H) as (S2 & W2 & P2 & Q2).
    repeat split; try assumption; etransitivity; eassumption.
Qed.
